// Finding 10 (C15, depends on what counts as "refused by the limiter"): handleReq charges
// costFromUpstream (3) for a query that has to be forwarded but ignores the verdict
// (router.go:509, also :504 for costFromCache). When the limiter refuses that charge the
// query is forwarded all the same. A client is therefore served 4 cost units of work
// (costUDPQuery + costFromUpstream) for every single token: the cost of the work done for
// one subnet exceeds burst + rate x window by a factor of up to 4.
//
// Place in:  app/router/   (package router)
// Run:       go test -run 'TestFinding10' -count=1 -v ./app/router/
//
// Observed on the unchanged code (zerolog lines removed):
//   finding10_test.go: sent=69025 noerror=24 refused=69001 forwarded=24 window=1.000003028s
//   finding10_test.go: cost of the forwarded queries 96 (24 x (1+3)) > burst + rate*window = 40.0
//   --- FAIL: TestFinding10_UpstreamCostIgnored
package router

import (
	"context"
	"fmt"
	"net"
	"sync/atomic"
	"testing"
	"time"

	"github.com/IrineSistiana/mosproxy/internal/dnsmsg"
	"github.com/miekg/dns"
)

type f10Upstream struct{ n atomic.Int64 }

func (u *f10Upstream) ExchangeContext(ctx context.Context, b []byte) (*dnsmsg.Msg, error) {
	u.n.Add(1)
	m, err := dnsmsg.UnpackMsg(b)
	if err != nil {
		return nil, err
	}
	m.Header.Response = true
	return m, nil
}
func (u *f10Upstream) Close() error { return nil }

func TestFinding10_UpstreamCostIgnored(t *testing.T) {
	const rate, burst = 20, 20
	pc, err := net.ListenPacket("udp", "127.0.0.1:0")
	if err != nil {
		t.Fatal(err)
	}
	addr := pc.LocalAddr().String()
	pc.Close()
	cfg := &Config{
		Upstreams: []UpstreamConfig{{Tag: "u", Addr: "udp://127.0.0.1:1"}},
		Rules:     []RuleConfig{{Forward: "u"}},
		Servers:   []ServerConfig{{Protocol: "udp", Listen: addr}},
		Limiter:   LimiterConfig{Client: ClientLimiterConfig{Limit: rate, Burst: burst}},
	}
	r, err := run(context.Background(), cfg)
	if err != nil {
		t.Fatal(err)
	}
	defer r.close(nil)
	u := new(f10Upstream)
	r.upstreams["u"].u = u

	c, err := net.Dial("udp", addr)
	if err != nil {
		t.Fatal(err)
	}
	defer c.Close()
	start := time.Now()
	sent, noerror, refused := 0, 0, 0
	buf := make([]byte, 2048)
	for time.Since(start) < time.Second {
		m := new(dns.Msg)
		m.SetQuestion(fmt.Sprintf("q%d.example.", sent), dns.TypeA) // never in the cache
		q, _ := m.Pack()
		sent++
		c.SetDeadline(time.Now().Add(time.Second))
		if _, err := c.Write(q); err != nil {
			t.Fatal(err)
		}
		n, err := c.Read(buf)
		if err != nil {
			t.Fatal(err)
		}
		resp := new(dns.Msg)
		if err := resp.Unpack(buf[:n]); err != nil {
			t.Fatal(err)
		}
		switch resp.Rcode {
		case dns.RcodeSuccess:
			noerror++
		case dns.RcodeRefused:
			refused++
		}
	}
	window := time.Since(start)
	fwd := int(u.n.Load())
	t.Logf("sent=%d noerror=%d refused=%d forwarded=%d window=%v", sent, noerror, refused, fwd, window)
	cost := fwd * (costUDPQuery + costFromUpstream)
	bound := float64(burst) + rate*window.Seconds()
	if float64(cost) > bound {
		t.Errorf("cost of the forwarded queries %d (%d x (%d+%d)) > burst + rate*window = %.1f", cost, fwd, costUDPQuery, costFromUpstream, bound)
	}
}
