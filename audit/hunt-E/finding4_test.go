// Finding 4 (C15): on an "http"/"https" listener with http.client_addr_header configured, a
// request that does not carry that header is charged to nobody: it is never answered 503
// and always forwarded, whatever the state of the limiter.
//
// Place in:  app/router/   (package router)
// Run:       go test -run 'TestFinding4' -count=1 -v ./app/router/
//
// Observed on the unchanged code (zerolog lines removed):
//   === RUN   TestFinding4_HeaderPresentControl
//       finding4_test.go: http: codes [200 200 200 200 503 503 503 ... 503]
//       finding4_test.go: http: forwarded=4 503=36 window=4.7ms
//   --- PASS: TestFinding4_HeaderPresentControl (0.01s)
//   === RUN   TestFinding4_HeaderAbsent
//       finding4_test.go: http: codes [200 200 200 200 200 200 200 ... 200]
//       finding4_test.go: http: forwarded=40 503=0 window=4.4ms
//       finding4_test.go: http: admitted cost 80 (40 forwarded queries) > burst + rate*window = 20.0
//       finding4_test.go: http: the limiter refuses 127.0.0.1 (reached client resource limit) but its request got status [200] and was forwarded
//   --- FAIL: TestFinding4_HeaderAbsent (0.02s)
package router

import (
	"bytes"
	"context"
	"fmt"
	"io"
	"net"
	"net/http"
	"net/netip"
	"sync/atomic"
	"testing"
	"time"

	"github.com/IrineSistiana/mosproxy/internal/dnsmsg"
	"github.com/miekg/dns"
)

type f4Upstream struct{ n atomic.Int64 }

func (u *f4Upstream) ExchangeContext(ctx context.Context, b []byte) (*dnsmsg.Msg, error) {
	u.n.Add(1)
	m, err := dnsmsg.UnpackMsg(b)
	if err != nil {
		return nil, err
	}
	m.Header.Response = true
	return m, nil
}
func (u *f4Upstream) Close() error { return nil }

const f4Burst = 20

func f4Router(t *testing.T, proto string, httpCfg HttpConfig) (*router, *f4Upstream, string) {
	l, err := net.Listen("tcp", "127.0.0.1:0")
	if err != nil {
		t.Fatal(err)
	}
	addr := l.Addr().String()
	l.Close()
	cfg := &Config{
		Upstreams: []UpstreamConfig{{Tag: "u", Addr: "udp://127.0.0.1:1"}},
		Rules:     []RuleConfig{{Forward: "u"}},
		Servers:   []ServerConfig{{Protocol: proto, Listen: addr, Http: httpCfg}},
		Limiter:   LimiterConfig{Client: ClientLimiterConfig{Limit: 1, Burst: f4Burst}},
	}
	r, err := run(context.Background(), cfg)
	if err != nil {
		t.Fatal(err)
	}
	t.Cleanup(func() { r.close(nil) })
	u := new(f4Upstream)
	r.upstreams["u"].u = u
	return r, u, addr
}

// n POST requests over one keep-alive connection. Returns the status codes.
func f4Requests(t *testing.T, cl *http.Client, addr string, n int, hdr map[string]string) (codes []int) {
	for i := 0; i < n; i++ {
		m := new(dns.Msg)
		m.SetQuestion(fmt.Sprintf("q%d.example.", i), dns.TypeA)
		q, _ := m.Pack()
		req, _ := http.NewRequest("POST", "http://"+addr+"/dns-query", bytes.NewReader(q))
		req.Header.Set("Content-Type", "application/dns-message")
		for k, v := range hdr {
			req.Header.Set(k, v)
		}
		resp, err := cl.Do(req)
		if err != nil {
			codes = append(codes, -1)
			continue
		}
		io.Copy(io.Discard, resp.Body)
		resp.Body.Close()
		codes = append(codes, resp.StatusCode)
	}
	return
}

func f4Check(t *testing.T, proto string, httpCfg HttpConfig, hdr map[string]string, client string) {
	r, u, addr := f4Router(t, proto, httpCfg)
	tr := &http.Transport{}
	defer tr.CloseIdleConnections()
	cl := &http.Client{Transport: tr, Timeout: 2 * time.Second}

	start := time.Now()
	codes := f4Requests(t, cl, addr, 40, hdr)
	window := time.Since(start)
	fwd := int(u.n.Load())
	n503 := 0
	for _, c := range codes {
		if c == http.StatusServiceUnavailable {
			n503++
		}
	}
	t.Logf("%s: codes %v", proto, codes)
	t.Logf("%s: forwarded=%d 503=%d window=%v", proto, fwd, n503, window)

	// cost of the served requests by the code's own table (limiter.go); the connection
	// and costFromUpstream are left out
	cost := fwd * costHTTPQuery
	bound := float64(f4Burst) + 1*window.Seconds()
	if float64(cost) > bound {
		t.Errorf("%s: admitted cost %d (%d forwarded queries) > burst + rate*window = %.1f", proto, cost, fwd, bound)
	}

	// Empty the client's bucket, then send one more request on the open connection.
	ca := netip.MustParseAddr(client)
	for r.limiterAllowN(ca, 1) == nil {
	}
	before := u.n.Load()
	codes = f4Requests(t, cl, addr, 1, hdr)
	lerr := r.limiterAllowN(ca, costHTTPQuery)
	if lerr != nil && u.n.Load() != before {
		t.Errorf("%s: the limiter refuses %v (%v) but its request got status %v and was forwarded", proto, ca, lerr, codes)
	}
}

var f4Cfg = HttpConfig{ClientAddrHeader: "X-Forwarded-For"}

// header present: limited per the address in the header
func TestFinding4_HeaderPresentControl(t *testing.T) {
	f4Check(t, "http", f4Cfg, map[string]string{"X-Forwarded-For": "192.0.2.1"}, "192.0.2.1")
}

// header absent: the client (tcp peer 127.0.0.1) is not limited at all
func TestFinding4_HeaderAbsent(t *testing.T) { f4Check(t, "http", f4Cfg, nil, "127.0.0.1") }
