// Finding 3 (C15): the "fasthttp" HTTP listener never consults the limiter: neither its
// connections nor its requests are charged, nothing is ever answered 503.
//
// Place in:  app/router/   (package router)
// Run:       go test -run 'TestFinding3' -count=1 -v ./app/router/
//
// Observed on the unchanged code (zerolog lines removed):
//   === RUN   TestFinding3_HttpControl
//       finding3_test.go: http: codes [200 200 200 200 503 503 503 ... 503]
//       finding3_test.go: http: forwarded=4 503=36 window=3.5ms
//   --- PASS: TestFinding3_HttpControl (0.02s)
//   === RUN   TestFinding3_FastHttp
//       finding3_test.go: fasthttp: codes [200 200 200 200 200 200 200 ... 200]
//       finding3_test.go: fasthttp: forwarded=40 503=0 window=3.0ms
//       finding3_test.go: fasthttp: admitted cost 80 (40 forwarded queries) > burst + rate*window = 20.0
//       finding3_test.go: fasthttp: the limiter refuses 127.0.0.1 (reached client resource limit) but its request got status [200] and was forwarded
//   --- FAIL: TestFinding3_FastHttp (0.01s)
package router

import (
	"bytes"
	"context"
	"fmt"
	"io"
	"net"
	"net/http"
	"net/netip"
	"sync/atomic"
	"testing"
	"time"

	"github.com/IrineSistiana/mosproxy/internal/dnsmsg"
	"github.com/miekg/dns"
)

type f3Upstream struct{ n atomic.Int64 }

func (u *f3Upstream) ExchangeContext(ctx context.Context, b []byte) (*dnsmsg.Msg, error) {
	u.n.Add(1)
	m, err := dnsmsg.UnpackMsg(b)
	if err != nil {
		return nil, err
	}
	m.Header.Response = true
	return m, nil
}
func (u *f3Upstream) Close() error { return nil }

const f3Burst = 20

func f3Router(t *testing.T, proto string, httpCfg HttpConfig) (*router, *f3Upstream, string) {
	l, err := net.Listen("tcp", "127.0.0.1:0")
	if err != nil {
		t.Fatal(err)
	}
	addr := l.Addr().String()
	l.Close()
	cfg := &Config{
		Upstreams: []UpstreamConfig{{Tag: "u", Addr: "udp://127.0.0.1:1"}},
		Rules:     []RuleConfig{{Forward: "u"}},
		Servers:   []ServerConfig{{Protocol: proto, Listen: addr, Http: httpCfg}},
		Limiter:   LimiterConfig{Client: ClientLimiterConfig{Limit: 1, Burst: f3Burst}},
	}
	r, err := run(context.Background(), cfg)
	if err != nil {
		t.Fatal(err)
	}
	t.Cleanup(func() { r.close(nil) })
	u := new(f3Upstream)
	r.upstreams["u"].u = u
	return r, u, addr
}

// n POST requests over one keep-alive connection. Returns the status codes.
func f3Requests(t *testing.T, cl *http.Client, addr string, n int, hdr map[string]string) (codes []int) {
	for i := 0; i < n; i++ {
		m := new(dns.Msg)
		m.SetQuestion(fmt.Sprintf("q%d.example.", i), dns.TypeA)
		q, _ := m.Pack()
		req, _ := http.NewRequest("POST", "http://"+addr+"/dns-query", bytes.NewReader(q))
		req.Header.Set("Content-Type", "application/dns-message")
		for k, v := range hdr {
			req.Header.Set(k, v)
		}
		resp, err := cl.Do(req)
		if err != nil {
			codes = append(codes, -1)
			continue
		}
		io.Copy(io.Discard, resp.Body)
		resp.Body.Close()
		codes = append(codes, resp.StatusCode)
	}
	return
}

func f3Check(t *testing.T, proto string, httpCfg HttpConfig, hdr map[string]string, client string) {
	r, u, addr := f3Router(t, proto, httpCfg)
	tr := &http.Transport{}
	defer tr.CloseIdleConnections()
	cl := &http.Client{Transport: tr, Timeout: 2 * time.Second}

	start := time.Now()
	codes := f3Requests(t, cl, addr, 40, hdr)
	window := time.Since(start)
	fwd := int(u.n.Load())
	n503 := 0
	for _, c := range codes {
		if c == http.StatusServiceUnavailable {
			n503++
		}
	}
	t.Logf("%s: codes %v", proto, codes)
	t.Logf("%s: forwarded=%d 503=%d window=%v", proto, fwd, n503, window)

	// cost of the served requests by the code's own table (limiter.go); the connection
	// and costFromUpstream are left out
	cost := fwd * costHTTPQuery
	bound := float64(f3Burst) + 1*window.Seconds()
	if float64(cost) > bound {
		t.Errorf("%s: admitted cost %d (%d forwarded queries) > burst + rate*window = %.1f", proto, cost, fwd, bound)
	}

	// Empty the client's bucket, then send one more request on the open connection.
	ca := netip.MustParseAddr(client)
	for r.limiterAllowN(ca, 1) == nil {
	}
	before := u.n.Load()
	codes = f3Requests(t, cl, addr, 1, hdr)
	lerr := r.limiterAllowN(ca, costHTTPQuery)
	if lerr != nil && u.n.Load() != before {
		t.Errorf("%s: the limiter refuses %v (%v) but its request got status %v and was forwarded", proto, ca, lerr, codes)
	}
}

func TestFinding3_HttpControl(t *testing.T) { f3Check(t, "http", HttpConfig{}, nil, "127.0.0.1") }
func TestFinding3_FastHttp(t *testing.T)    { f3Check(t, "fasthttp", HttpConfig{}, nil, "127.0.0.1") }
