// Finding 8 (C11, depends on how "entries are case-insensitive" is read): a 'regexp:' entry
// is compiled as written and matched against the lower-cased text form, so an entry with an
// upper case letter never matches although the same spelling works for 'full:' and 'domain:'.
//
// Place in:  internal/domain_matcher/   (package domainmatcher)
// Run:       go test -run 'TestFinding8' -count=1 -v ./internal/domain_matcher/
//
// Observed on the unchanged code:
//   finding8_test.go: "regexp:^Example\\.com$" does not match example.com
//   --- FAIL: TestFinding8_RegexpCase
package domainmatcher

import "testing"

func TestFinding8_RegexpCase(t *testing.T) {
	name := []byte{7, 'e', 'x', 'a', 'm', 'p', 'l', 'e', 3, 'c', 'o', 'm'}
	for _, e := range []string{"full:Example.com", "domain:Example.com", "Example.com", `regexp:^Example\.com$`} {
		m := NewMixMatcher()
		if err := m.Add([]byte(e)); err != nil {
			t.Fatal(err)
		}
		if !m.Match(name) {
			t.Errorf("%q does not match example.com", e)
		}
	}
}
