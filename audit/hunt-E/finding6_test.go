// Finding 6 (C10, minor): only the first YAML document of the configuration file is
// decoded. Everything after a `---` line, unknown keys included, is silently ignored.
//
// Place in:  app/router/   (package router)
// Run:       go test -run 'TestFinding6' -count=1 -v ./app/router/
//
// Observed on the unchanged code:
//   finding6_test.go: control: rejected: ... '' has invalid keys: bogus
//   finding6_test.go: a configuration with the unknown key "bogus" (and a rule list) in its second document was accepted; rules=[{Reverse:false Domain: Reject:0 Forward:u}]
//   --- FAIL: TestFinding6_SecondDocument
package router

import (
	"testing"

	"github.com/mitchellh/mapstructure"
	"gopkg.in/yaml.v3"
)

// The same steps as the Run function of newRouterCmd (router.go:47-68).
func f6Decode(b []byte) (*Config, error) {
	cfg := new(Config)
	m := make(map[string]any)
	if err := yaml.Unmarshal(b, m); err != nil {
		return nil, err
	}
	decoder, err := mapstructure.NewDecoder(&mapstructure.DecoderConfig{
		ErrorUnused: true,
		TagName:     "yaml",
		Result:      cfg,
	})
	if err != nil {
		return nil, err
	}
	if err := decoder.Decode(m); err != nil {
		return nil, err
	}
	return cfg, nil
}

func TestFinding6_SecondDocument(t *testing.T) {
	_, err := f6Decode([]byte("rules:\n  - forward: u\nbogus: 1\n"))
	if err == nil {
		t.Fatal("control: unknown top level key accepted")
	}
	t.Logf("control: rejected: %v", err)

	cfg, err := f6Decode([]byte("rules:\n  - forward: u\n---\nbogus: 1\nrules:\n  - reject: 3\n"))
	if err == nil {
		t.Errorf("a configuration with the unknown key \"bogus\" (and a rule list) in its second document was accepted; rules=%+v", cfg.Rules)
	}
}
