// Finding 9 (C11, minor, two boundary cases of entry parsing):
//  a) a name of the maximum length (253 characters of text, 254 octets before the root label)
//     is accepted as a query name but rejected as an entry ("name too long"), so a set that
//     contains it cannot be loaded at all;
//  b) the loader trims Unicode white space, not only ASCII blanks: an entry whose first/last
//     label starts/ends with the octets c2 a0 (or c2 85, e2 80 80.., e3 80 80) loses them,
//     i.e. the entry matches another name and not its own.
//
// Place in:  internal/domain_matcher/   (package domainmatcher)
// Run:       go test -run 'TestFinding9' -count=1 -v ./internal/domain_matcher/
//
// Observed on the unchanged code:
//   --- FAIL: TestFinding9_MaxLenName
//       finding9_test.go: entry of 253 characters rejected: name too long
//   --- FAIL: TestFinding9_UnicodeTrim
//       finding9_test.go: entry "full:x\xc2\xa0" does not match the name x\194\160
//       finding9_test.go: entry "full:x\xc2\xa0" matches the name x
package domainmatcher

import (
	"bytes"
	"strings"
	"testing"
)

func TestFinding9_MaxLenName(t *testing.T) {
	l63 := strings.Repeat("a", 63)
	txt := strings.Join([]string{l63, l63, l63, strings.Repeat("a", 61)}, ".") // 253 characters
	var w []byte
	for _, l := range strings.Split(txt, ".") {
		w = append(w, byte(len(l)))
		w = append(w, l...)
	}
	// the matcher handles it as a query name
	m := NewMixMatcher()
	if err := m.Add([]byte("domain:" + strings.Repeat("a", 61))); err != nil {
		t.Fatal(err)
	}
	if !m.Match(w) {
		t.Fatal("query name of the maximum length not matched by its last label")
	}
	if err := m.Add([]byte("full:" + txt)); err != nil {
		t.Errorf("entry of %d characters rejected: %v", len(txt), err)
	}
}

func TestFinding9_UnicodeTrim(t *testing.T) {
	m := NewMixMatcher()
	if err := LoadMixMatcherFromReader(m, bytes.NewReader([]byte("full:x\xc2\xa0\n"))); err != nil {
		t.Fatal(err)
	}
	if !m.Match([]byte{3, 'x', 0xc2, 0xa0}) {
		t.Errorf("entry %q does not match the name x\\194\\160", "full:x\xc2\xa0")
	}
	if m.Match([]byte{1, 'x'}) {
		t.Errorf("entry %q matches the name x", "full:x\xc2\xa0")
	}
}
