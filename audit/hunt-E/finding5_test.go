// Finding 5 (C10): the rcode of a reject rule is not range checked. Values 16..65535 are
// accepted at start-up and or-ed into the flag word of the answer (another rcode, TC/AA/CD
// set, another opcode); 65536+n silently wraps to n, so `reject: 65536` is "no reject" and
// the rule forwards to its upstream; `reject: 3.7` is silently 3.
//
// Place in:  app/router/   (package router)
// Run:       go test -run 'TestFinding5' -count=1 -v ./app/router/
//
// Observed on the unchanged code (zerolog lines removed):
//   reject 5: cfg.Reject=5 rcode=5 opcode=0 qr=true tc=false aa=false cd=false forwarded=0
//   reject 16: cfg.Reject=16 rcode=0 opcode=0 qr=true tc=false aa=false cd=true forwarded=0
//   reject 16: accepted at start-up but the answer has rcode=0 opcode=0 tc=false aa=false cd=true qr=true
//   reject 512: cfg.Reject=512 rcode=0 opcode=0 qr=true tc=true aa=false cd=false forwarded=0
//   reject 512: accepted at start-up but the answer has rcode=0 opcode=0 tc=true ...
//   reject 2048: cfg.Reject=2048 rcode=0 opcode=1 ...
//   reject 3841: cfg.Reject=3841 rcode=1 opcode=1 qr=true tc=true aa=true cd=false forwarded=0
//   reject 32768: cfg.Reject=32768 rcode=0 opcode=0 ...
//   reject 65536: cfg.Reject=0 rcode=0 opcode=0 qr=true tc=false aa=false cd=false forwarded=1
//   reject 65536: the reject rule contacted the upstream
//   reject 65541: cfg.Reject=5 rcode=5 ...
//   --- FAIL: TestFinding5_RejectRange
package router

import (
	"context"
	"fmt"
	"net/netip"
	"sync/atomic"
	"testing"

	"github.com/IrineSistiana/mosproxy/internal/dnsmsg"
	"github.com/miekg/dns"
	"github.com/mitchellh/mapstructure"
	"gopkg.in/yaml.v3"
)

type f5Upstream struct{ n atomic.Int64 }

func (u *f5Upstream) ExchangeContext(ctx context.Context, b []byte) (*dnsmsg.Msg, error) {
	u.n.Add(1)
	m, err := dnsmsg.UnpackMsg(b)
	if err != nil {
		return nil, err
	}
	m.Header.Response = true
	return m, nil
}
func (u *f5Upstream) Close() error { return nil }

// The same steps as the Run function of newRouterCmd (router.go:47-68).
func f5Decode(b []byte) (*Config, error) {
	cfg := new(Config)
	m := make(map[string]any)
	if err := yaml.Unmarshal(b, m); err != nil {
		return nil, err
	}
	decoder, err := mapstructure.NewDecoder(&mapstructure.DecoderConfig{
		ErrorUnused: true,
		TagName:     "yaml",
		Result:      cfg,
	})
	if err != nil {
		return nil, err
	}
	if err := decoder.Decode(m); err != nil {
		return nil, err
	}
	return cfg, nil
}

func TestFinding5_RejectRange(t *testing.T) {
	for _, rcode := range []int{5, 16, 512, 2048, 3841, 32768, 65536, 65541} {
		y := fmt.Sprintf("upstreams:\n  - tag: u\n    addr: udp://127.0.0.1:1\nrules:\n  - reject: %d\n    forward: u\n", rcode)
		cfg, err := f5Decode([]byte(y))
		if err != nil {
			t.Logf("reject %d: rejected when the file is decoded: %v", rcode, err)
			continue
		}
		r, err := run(context.Background(), cfg)
		if err != nil {
			t.Logf("reject %d: rejected at start-up: %v", rcode, err)
			continue
		}
		u := new(f5Upstream)
		r.upstreams["u"].u = u

		q := new(dns.Msg)
		q.SetQuestion("example.com.", dns.TypeA)
		b, _ := q.Pack()
		m, err := dnsmsg.UnpackMsg(b)
		if err != nil {
			t.Fatal(err)
		}
		rc := getRequestContext()
		rc.RemoteAddr = netip.MustParseAddrPort("192.0.2.1:5353")
		r.handleServerReq(m, rc)
		out := mustHaveRespB(m, rc.Response.Msg, dnsmsg.RCodeServerFailure, false, 0) // what the udp listener sends
		resp := new(dns.Msg)
		if err := resp.Unpack(out); err != nil {
			t.Fatal(err)
		}
		t.Logf("reject %d: cfg.Reject=%d rcode=%d opcode=%d qr=%v tc=%v aa=%v cd=%v forwarded=%d", rcode, cfg.Rules[0].Reject,
			resp.Rcode, resp.Opcode, resp.Response, resp.Truncated, resp.Authoritative, resp.CheckingDisabled, u.n.Load())
		if u.n.Load() != 0 {
			t.Errorf("reject %d: the reject rule contacted the upstream", rcode)
		}
		if resp.Rcode != rcode || resp.Opcode != 0 || resp.Truncated || resp.Authoritative || resp.CheckingDisabled || !resp.Response {
			t.Errorf("reject %d: accepted at start-up but the answer has rcode=%d opcode=%d tc=%v aa=%v cd=%v qr=%v", rcode,
				resp.Rcode, resp.Opcode, resp.Truncated, resp.Authoritative, resp.CheckingDisabled, resp.Response)
		}
		r.close(nil)
	}
}
