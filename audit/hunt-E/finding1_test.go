// Finding 1 (C15): the per-subnet token bucket admits more than burst + rate x window
// when two callers of one subnet reach the bucket with timestamps that are out of order.
//
// Place in:  internal/limiter/   (package limiter)
// Run:       go test -run 'TestFinding1' -count=1 -v ./internal/limiter/
//
// Observed on the unchanged code:
//   === RUN   TestFinding1_Deterministic
//       finding1_test.go: admitted 2000 in 1.499s, bound 50.0
//       finding1_test.go: admitted 2000 > burst + rate*window = 50.0
//   --- FAIL: TestFinding1_Deterministic (0.00s)
//   === RUN   TestFinding1_RealClock
//       finding1_test.go: admitted 116746 in 1.05307247s, bound 105317.2
//       finding1_test.go: admitted 116746 > burst + rate*window = 105317.2
//   --- FAIL: TestFinding1_RealClock (1.05s)
// (the real-clock variant was 7%..23% over the bound in 14 of 14 runs on a 16 cpu machine)
package limiter

import (
	"net/netip"
	"sync"
	"sync/atomic"
	"testing"
	"time"
)

// Schedule: goroutine S executes `now := time.Now()` in resourceLimiter.AllowN
// (app/router/limiter.go:41) and is then descheduled for d=500ms before it gets the bucket
// lock in ClientLimiter.AllowN; goroutine F is not delayed. Both serve the same client
// subnet. ClientLimiter.AllowN takes the timestamp as a parameter, so the schedule is
// replayed here by passing the timestamps in the order in which the bucket sees them.
func TestFinding1_Deterministic(t *testing.T) {
	const rate, burst = 20, 20
	cl := NewClientLimiter(ClientLimiterOpts{Limit: rate, Burst: burst})
	defer cl.Close()
	addr := netip.MustParseAddr("192.0.2.1")
	t0 := time.Now()
	const d = 500 * time.Millisecond
	admitted := 0
	var last time.Time
	for i := 0; i < 1000; i++ { // one F and one S call per millisecond for one second
		real := t0.Add(d + time.Duration(i)*time.Millisecond)
		if cl.AllowN(addr, real, 1) { // F
			admitted++
		}
		if cl.AllowN(addr, real.Add(-d), 1) { // S: timestamp taken d ago
			admitted++
		}
		last = real
	}
	window := last.Sub(t0) // from the oldest timestamp used to the newest
	bound := float64(burst) + rate*window.Seconds()
	t.Logf("admitted %d in %v, bound %.1f", admitted, window, bound)
	if float64(admitted) > bound {
		t.Errorf("admitted %d > burst + rate*window = %.1f", admitted, bound)
	}
}

// The same with real goroutines and the real clock, doing what resourceLimiter.AllowN
// does: take time.Now(), then call ClientLimiter.AllowN. The go scheduler provides the
// reordering. (app/router: initResourceLimiter(...).AllowN(addr, 1) gives the same result.)
func TestFinding1_RealClock(t *testing.T) {
	const rate, burst = 100000, 10
	cl := NewClientLimiter(ClientLimiterOpts{Limit: rate, Burst: burst})
	defer cl.Close()
	addr := netip.MustParseAddr("192.0.2.1")
	var admitted atomic.Int64
	var wg sync.WaitGroup
	stop := make(chan struct{})
	start := time.Now()
	for g := 0; g < 2000; g++ {
		wg.Add(1)
		go func() {
			defer wg.Done()
			for {
				select {
				case <-stop:
					return
				default:
				}
				now := time.Now()
				if cl.AllowN(addr, now, 1) {
					admitted.Add(1)
				}
			}
		}()
	}
	time.Sleep(time.Second)
	close(stop)
	wg.Wait()
	window := time.Since(start)
	bound := float64(burst) + rate*window.Seconds()
	t.Logf("admitted %d in %v, bound %.1f", admitted.Load(), window, bound)
	if float64(admitted.Load()) > bound {
		t.Errorf("admitted %d > burst + rate*window = %.1f", admitted.Load(), bound)
	}
}
