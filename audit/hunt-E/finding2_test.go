//go:build linux

// Finding 2 (C15): the "gnet" TCP listener never asks the limiter about a query. Only
// the connection is charged (OnOpen); after that one connection can send any number of
// queries, all are forwarded, none is answered REFUSED - even while the limiter refuses
// that client's subnet.
//
// Place in:  app/router/   (package router)
// Run:       go test -run 'TestFinding2' -count=1 -v ./app/router/
//
// Observed on the unchanged code (zerolog lines removed):
//   === RUN   TestFinding2_TcpControl
//       finding2_test.go: tcp: rcodes [0 0 0 0 5 5 5 5 5 5 5 5 5 5 5 5 5 5 5 5 5 5 5 5 5 5 5 5 5 5 5 5 5 5 5 5 5 5 5 5]
//       finding2_test.go: tcp: forwarded=4 refused=36 window=1.7ms
//   --- PASS: TestFinding2_TcpControl (3.11s)
//   === RUN   TestFinding2_Gnet
//       finding2_test.go: gnet: rcodes [0 0 0 0 0 0 0 0 0 0 0 0 0 0 0 0 0 0 0 0 0 0 0 0 0 0 0 0 0 0 0 0 0 0 0 0 0 0 0 0]
//       finding2_test.go: gnet: forwarded=40 refused=0 window=3.8ms
//       finding2_test.go: gnet: admitted cost 83 (1 conn + 40 forwarded queries) > burst + rate*window = 20.0
//       finding2_test.go: gnet: the limiter refuses 127.0.0.1 (reached client resource limit) but its query got rcodes [0] and was forwarded
//   --- FAIL: TestFinding2_Gnet (3.62s)
package router

import (
	"context"
	"encoding/binary"
	"fmt"
	"io"
	"net"
	"net/netip"
	"sync/atomic"
	"testing"
	"time"

	"github.com/IrineSistiana/mosproxy/internal/dnsmsg"
	"github.com/miekg/dns"
)

type f2Upstream struct{ n atomic.Int64 }

func (u *f2Upstream) ExchangeContext(ctx context.Context, b []byte) (*dnsmsg.Msg, error) {
	u.n.Add(1)
	m, err := dnsmsg.UnpackMsg(b)
	if err != nil {
		return nil, err
	}
	m.Header.Response = true
	return m, nil
}
func (u *f2Upstream) Close() error { return nil }

const f2Burst = 20

func f2Router(t *testing.T, proto string) (*router, *f2Upstream, string) {
	l, err := net.Listen("tcp", "127.0.0.1:0")
	if err != nil {
		t.Fatal(err)
	}
	addr := l.Addr().String()
	l.Close()
	cfg := &Config{
		Upstreams: []UpstreamConfig{{Tag: "u", Addr: "udp://127.0.0.1:1"}},
		Rules:     []RuleConfig{{Forward: "u"}},
		Servers:   []ServerConfig{{Protocol: proto, Listen: addr}},
		Limiter:   LimiterConfig{Client: ClientLimiterConfig{Limit: 1, Burst: f2Burst}},
	}
	r, err := run(context.Background(), cfg)
	if err != nil {
		t.Fatal(err)
	}
	t.Cleanup(func() { r.close(nil) })
	u := new(f2Upstream)
	r.upstreams["u"].u = u
	return r, u, addr
}

// sends n queries, one after the other, over one tcp connection. Returns the rcodes.
func f2Queries(t *testing.T, addr string, n int) (rcodes []int) {
	c, err := net.Dial("tcp", addr)
	if err != nil {
		t.Fatal(err)
	}
	defer c.Close()
	for i := 0; i < n; i++ {
		m := new(dns.Msg)
		m.SetQuestion(fmt.Sprintf("q%d.example.", i), dns.TypeA)
		q, _ := m.Pack()
		buf := make([]byte, 2+len(q))
		binary.BigEndian.PutUint16(buf, uint16(len(q)))
		copy(buf[2:], q)
		c.SetDeadline(time.Now().Add(2 * time.Second))
		if _, err := c.Write(buf); err != nil {
			return append(rcodes, -1)
		}
		var hdr [2]byte
		if _, err := io.ReadFull(c, hdr[:]); err != nil {
			return append(rcodes, -1)
		}
		body := make([]byte, binary.BigEndian.Uint16(hdr[:]))
		if _, err := io.ReadFull(c, body); err != nil {
			return append(rcodes, -1)
		}
		resp := new(dns.Msg)
		if err := resp.Unpack(body); err != nil {
			t.Fatal(err)
		}
		rcodes = append(rcodes, resp.Rcode)
	}
	return
}

func f2Check(t *testing.T, proto string) {
	r, u, addr := f2Router(t, proto)
	start := time.Now()
	rc := f2Queries(t, addr, 40)
	window := time.Since(start)
	fwd := int(u.n.Load())
	refused := 0
	for _, x := range rc {
		if x == dns.RcodeRefused {
			refused++
		}
	}
	t.Logf("%s: rcodes %v", proto, rc)
	t.Logf("%s: forwarded=%d refused=%d window=%v", proto, fwd, refused, window)

	// Cost of the served work by the code's own table (limiter.go): one connection and
	// costTCPQuery per query. (The additional costFromUpstream is left out.)
	cost := costTCPConn + fwd*costTCPQuery
	bound := float64(f2Burst) + 1*window.Seconds()
	if float64(cost) > bound {
		t.Errorf("%s: admitted cost %d (1 conn + %d forwarded queries) > burst + rate*window = %.1f", proto, cost, fwd, bound)
	}

	// Empty the bucket of 127.0.0.0/24. From now on the limiter refuses this client.
	local := netip.MustParseAddr("127.0.0.1")
	for r.limiterAllowN(local, 1) == nil {
	}
	before := u.n.Load()
	time.Sleep(3100 * time.Millisecond) // refill just the costTCPConn tokens that the next connection costs
	rc = f2Queries(t, addr, 1)
	lerr := r.limiterAllowN(local, costTCPQuery)
	if lerr != nil && u.n.Load() != before {
		t.Errorf("%s: the limiter refuses %v (%v) but its query got rcodes %v and was forwarded", proto, local, lerr, rc)
	}
}

func TestFinding2_TcpControl(t *testing.T) { f2Check(t, "tcp") }
func TestFinding2_Gnet(t *testing.T)       { f2Check(t, "gnet") }
