// Finding 7 (C11): an entry with an empty label (".com", "a..b", "..") is accepted and the
// rest of the text, dots included, becomes ONE label. The set then matches a name that no
// entry equals (label ".b" contains the octet '.'; its text form is `a.\.b`, not `a..b`)
// and does not match what the entry says; the load does not fail either.
//
// Place in:  internal/domain_matcher/   (package domainmatcher)
// Run:       go test -run 'TestFinding7' -count=1 -v ./internal/domain_matcher/
//
// Observed on the unchanged code:
//   finding7_test.go: entry "a..b": load err=<nil>, entries=1
//   finding7_test.go: entry "a..b": the set matches the two label name [1]a[2].b (text form a.\.b)
//   finding7_test.go: entry ".com": load err=<nil>, entries=1
//   finding7_test.go: entry ".com": the set matches the one label name [4].com (text form \.com)
//   finding7_test.go: entry ".com": ... and does not match example.com
//   finding7_test.go: entry "full:a..b": load err=<nil>, entries=1
//   finding7_test.go: entry "full:a..b": the set matches the two label name [1]a[2].b
//   finding7_test.go: entry "..": load err=<nil>, entries=1
//   finding7_test.go: entry "..": the set matches the one label name [1]. (text form \.)
//   --- FAIL: TestFinding7_EmptyLabel
package domainmatcher

import (
	"bytes"
	"testing"
)

func TestFinding7_EmptyLabel(t *testing.T) {
	load := func(e string) *MixMatcher {
		m := NewMixMatcher()
		err := LoadMixMatcherFromReader(m, bytes.NewReader([]byte(e+"\n")))
		t.Logf("entry %q: load err=%v, entries=%d", e, err, m.Len())
		if err != nil {
			return nil // rejecting the entry is fine
		}
		return m
	}
	if m := load("a..b"); m != nil && m.Match([]byte{1, 'a', 2, '.', 'b'}) {
		t.Errorf("entry %q: the set matches the two label name [1]a[2].b (text form a.\\.b)", "a..b")
	}
	if m := load(".com"); m != nil {
		if m.Match([]byte{4, '.', 'c', 'o', 'm'}) {
			t.Errorf("entry %q: the set matches the one label name [4].com (text form \\.com)", ".com")
		}
		if !m.Match([]byte{7, 'e', 'x', 'a', 'm', 'p', 'l', 'e', 3, 'c', 'o', 'm'}) {
			t.Logf("entry %q: ... and does not match example.com", ".com")
		}
	}
	if m := load("full:a..b"); m != nil && m.Match([]byte{1, 'a', 2, '.', 'b'}) {
		t.Errorf("entry %q: the set matches the two label name [1]a[2].b", "full:a..b")
	}
	if m := load(".."); m != nil && m.Match([]byte{1, '.'}) {
		t.Errorf("entry %q: the set matches the one label name [1]. (text form \\.)", "..")
	}
}
