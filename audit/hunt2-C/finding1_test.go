// Place this file in: app/router/
// go test -mod=mod -vet=off -count=1 -run TestZzFind1ConfigNonStringKeyPanics ./app/router/
//
// Property C18, clause "A start-up error (...) is reported as an error ...,
// never as a panic" (observe_at: "process exit status of the binary on bad
// configuration").
//
// A configuration file in which a nested mapping has a key that is not a yaml
// string (a number, true/false, null: e.g. a typo like "1: 2" or "~: x" below
// "cache:", or inside an element of "servers:") makes `mosproxy router -c file`
// die with a Go panic (exit status 2, "panic: interface conversion: interface {}
// is int, not string") instead of reporting "failed to decode ..." and exit 1.
//
// The test runs the real `router` sub command (newRouterCmd) in a child process
// (the re-executed test binary) because the correct behaviour (logger.Fatal) ends
// the process.
package router

import (
	"bytes"
	"context"
	"os"
	"os/exec"
	"path/filepath"
	"testing"
	"time"
)

const zzFind1ChildEnv = "ZZFIND1_CHILD_CONFIG"

func TestZzFind1ConfigNonStringKeyPanics(t *testing.T) {
	if p := os.Getenv(zzFind1ChildEnv); p != "" {
		// Child: behave like `mosproxy router -c p`.
		cmd := newRouterCmd()
		cmd.SetArgs([]string{"-c", p})
		cmd.Execute()
		// Only reached if the router was started and then stopped.
		os.Exit(0)
	}

	configs := map[string]string{
		"int_key_in_server":  "servers:\n  - protocol: udp\n    listen: 127.0.0.1:0\n    1: 2\n",
		"int_key_in_cache":   "cache:\n  mem_size: 1024\n  1: 2\n",
		"bool_key_in_log":    "log:\n  true: 1\n",
		"null_key_in_limiter": "limiter:\n  ~: 1\n",
	}
	// Control: the same kind of mistake at the top level is reported properly.
	configs["control_top_level_unknown_key"] = "1: 2\n"

	dir := t.TempDir()
	for name, content := range configs {
		name, content := name, content
		t.Run(name, func(t *testing.T) {
			p := filepath.Join(dir, name+".yaml")
			if err := os.WriteFile(p, []byte(content), 0o644); err != nil {
				t.Fatal(err)
			}
			ctx, cancel := context.WithTimeout(context.Background(), 20*time.Second)
			defer cancel()
			c := exec.CommandContext(ctx, os.Args[0], "-test.run=^TestZzFind1ConfigNonStringKeyPanics$", "-test.count=1")
			c.Env = append(os.Environ(), zzFind1ChildEnv+"="+p)
			out, err := c.CombinedOutput()
			if ctx.Err() != nil {
				t.Fatalf("the bad configuration was not rejected (process still running after 20s)\n%s", zzFind1Tail(out))
			}
			code := 0
			if ee, ok := err.(*exec.ExitError); ok {
				code = ee.ExitCode()
			} else if err != nil {
				t.Fatal(err)
			}
			t.Logf("exit status %d", code)
			if bytes.Contains(out, []byte("panic:")) || bytes.Contains(out, []byte("goroutine 1 [running]")) {
				t.Fatalf("bad configuration is reported as a panic, exit status %d:\n%s", code, zzFind1Tail(out))
			}
			if code == 0 {
				t.Fatalf("bad configuration was accepted:\n%s", zzFind1Tail(out))
			}
		})
	}
}

func zzFind1Tail(b []byte) []byte {
	if len(b) > 1500 {
		return b[:1500]
	}
	return b
}
