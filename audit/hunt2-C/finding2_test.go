// Place this file in: app/router/
// go test -mod=mod -vet=off -count=1 -run TestZzFind2UpstreamLeakOnMetricsError ./app/router/
//
// Property C18, clause "A start-up error ... is reported as an error after
// releasing what had already been started".
//
// An upstream whose tag is not valid UTF-8 (yaml: `tag: !!binary /w==`) is
// created first (a quic:// or h3:// upstream opens its UDP socket in
// upstream.NewUpstream) and then fails in upstreamWrapper.RegisterMetricsTo
// (prometheus rejects the label value). initUpstream returns the error without
// closing the upstream it has just created and without recording it in
// r.upstreams, so router.close (called by run() on the error) cannot close it
// either: run() returns an error and the UDP socket of the upstream stays open.
// (linux only: sockets are counted in /proc/self/fd.)
package router

import (
	"bytes"
	"context"
	"os"
	"strings"
	"testing"
	"time"

	"github.com/mitchellh/mapstructure"
	"gopkg.in/yaml.v3"
)

func zzFind2Sockets(t *testing.T) map[string]bool {
	ents, err := os.ReadDir("/proc/self/fd")
	if err != nil {
		t.Skipf("needs /proc/self/fd: %v", err)
	}
	m := make(map[string]bool)
	for _, e := range ents {
		l, err := os.Readlink("/proc/self/fd/" + e.Name())
		if err == nil && strings.HasPrefix(l, "socket:") {
			m[l] = true
		}
	}
	return m
}

// zzFind2Load decodes a config file exactly like the `router` command does.
func zzFind2Load(t *testing.T, s string) *Config {
	cfg := new(Config)
	m := make(map[string]any)
	if err := yaml.NewDecoder(bytes.NewReader([]byte(s))).Decode(&m); err != nil {
		t.Fatal(err)
	}
	decoder, err := mapstructure.NewDecoder(&mapstructure.DecoderConfig{ErrorUnused: true, TagName: "yaml", Result: cfg})
	if err != nil {
		t.Fatal(err)
	}
	if err := decoder.Decode(m); err != nil {
		t.Fatal(err)
	}
	return cfg
}

func TestZzFind2UpstreamLeakOnMetricsError(t *testing.T) {
	for _, addr := range []string{"quic://127.0.0.1:1", "h3://127.0.0.1:1/dns-query"} {
		t.Run(addr, func(t *testing.T) {
			cfg := zzFind2Load(t, "upstreams:\n"+
				"  - tag: ok\n    addr: "+addr+"\n"+ // closed properly
				"  - tag: !!binary /w==\n    addr: "+addr+"\n") // leaked
			before := zzFind2Sockets(t)
			r, err := run(context.Background(), cfg)
			if err == nil {
				r.close(nil)
				t.Skip("the configuration was accepted, nothing to check")
			}
			t.Logf("run() failed as expected: %.120s", err.Error())

			var leaked []string
			for i := 0; i < 30; i++ { // closing may be asynchronous
				leaked = leaked[:0]
				for s := range zzFind2Sockets(t) {
					if !before[s] {
						leaked = append(leaked, s)
					}
				}
				if len(leaked) == 0 {
					return
				}
				time.Sleep(100 * time.Millisecond)
			}
			t.Fatalf("run() returned an error but left %d socket(s) open: %v", len(leaked), leaked)
		})
	}
}
