// Finding 3 (C03): on the UDP listener the response size limit is taken from the client's
// EDNS0 UDP payload size without regard to what a UDP datagram can carry. A client that
// advertises 65535 (or anything above 65507) and whose answer packs to 65508..65535 bytes gets
// no response at all: sendmsg fails with EMSGSIZE and the error is only logged.
//
// Place in:   app/router/   (package router, in-package test)
// Run:        export GOFLAGS=-mod=mod GOPROXY=off GOSUMDB=off GOTOOLCHAIN=local
//             go test ./app/router/ -run TestFinding3 -count=1 -v
//
// Observed on the unchanged code:
//
//   finding3_test.go: edns size 4096: resp 3985 bytes tc=true answers=15
//   finding3_test.go: edns size 65000: resp 64738 bytes tc=true answers=246
//   WRN failed to write response error="write udp 127.0.0.1:5946->127.0.0.1:48858: sendmsg: message too long" module=server_udp
//   finding3_test.go: edns size 65535: no response: read udp ...: i/o timeout
//   --- FAIL: TestFinding3_UDPResponseTooLongForDatagram
package router

import (
	"context"
	"net"
	"strings"
	"testing"
	"time"

	"github.com/IrineSistiana/mosproxy/internal/dnsmsg"
	"github.com/miekg/dns"
)

type f3Upstream struct{}

// Replies with 249 TXT records, 65516 bytes on the wire (a legal reply, e.g. over tcp/DoH/DoQ
// or after the udp upstream's TC fallback to tcp).
func (f3Upstream) ExchangeContext(ctx context.Context, q []byte) (*dnsmsg.Msg, error) {
	m := new(dns.Msg)
	if err := m.Unpack(q); err != nil {
		return nil, err
	}
	r := new(dns.Msg)
	r.SetReply(m)
	name := m.Question[0].Name
	for i := 0; i < 248; i++ {
		r.Answer = append(r.Answer, &dns.TXT{Hdr: dns.RR_Header{Name: name, Rrtype: dns.TypeTXT, Class: dns.ClassINET, Ttl: 60}, Txt: []string{strings.Repeat("x", 250)}})
	}
	r.Answer = append(r.Answer, &dns.TXT{Hdr: dns.RR_Header{Name: name, Rrtype: dns.TypeTXT, Class: dns.ClassINET, Ttl: 60}, Txt: []string{strings.Repeat("x", 247)}})
	r.Compress = true
	b, err := r.Pack()
	if err != nil {
		return nil, err
	}
	return dnsmsg.UnpackMsg(b)
}
func (f3Upstream) Close() error { return nil }

func TestFinding3_UDPResponseTooLongForDatagram(t *testing.T) {
	addr := "127.0.0.1:5946"
	cfg := &Config{
		Servers:   []ServerConfig{{Protocol: "udp", Listen: addr}},
		Upstreams: []UpstreamConfig{{Tag: "u", Addr: "udp://127.0.0.1:1"}},
		Rules:     []RuleConfig{{Forward: "u"}},
	}
	r, err := run(context.Background(), cfg)
	if err != nil {
		t.Fatal(err)
	}
	defer r.close(nil)
	r.upstreams["u"].u = f3Upstream{}

	for _, sz := range []uint16{4096, 65000, 65535} {
		m := new(dns.Msg)
		m.SetQuestion("example.com.", dns.TypeTXT)
		m.Id = 0x4242
		m.SetEdns0(sz, false)
		b, _ := m.Pack()
		c, err := net.Dial("udp", addr)
		if err != nil {
			t.Fatal(err)
		}
		c.Write(b)
		c.SetReadDeadline(time.Now().Add(3 * time.Second))
		rb := make([]byte, 70000)
		n, err := c.Read(rb)
		c.Close()
		if err != nil {
			t.Errorf("edns size %d: no response: %v", sz, err)
			continue
		}
		resp := new(dns.Msg)
		if err := resp.Unpack(rb[:n]); err != nil || resp.Id != 0x4242 {
			t.Errorf("edns size %d: bad response: %v", sz, err)
			continue
		}
		t.Logf("edns size %d: resp %d bytes tc=%v answers=%d", sz, n, resp.Truncated, len(resp.Answer))
	}
}
