// Finding 2 (C03, C01 domain "UDP datagram of length 0..65535"): a decodable UDP query that is
// longer than 2048 bytes is cut to 2048 bytes by the listener's receive buffer, then fails to
// decode and is dropped. The client never gets a response.
//
// Place in:   app/router/   (package router, in-package test)
// Run:        export GOFLAGS=-mod=mod GOPROXY=off GOSUMDB=off GOTOOLCHAIN=local
//             go test ./app/router/ -run TestFinding2 -count=1 -v
//
// Observed on the unchanged code:
//
//   finding2_test.go: query of 144 bytes: rcode 0 id 4242
//   finding2_test.go: query of 1944 bytes: rcode 0 id 4242
//   WRN invalid query msg error="additionals: data: buffer is too small" module=server_udp
//   finding2_test.go: query of 2144 bytes: no response: read udp ...: i/o timeout
//   WRN invalid query msg error="additionals: data: buffer is too small" module=server_udp
//   finding2_test.go: query of 4044 bytes: no response: read udp ...: i/o timeout
//   --- FAIL: TestFinding2_BigUDPQueryDropped
//
// (The same four messages are answered on the tcp listener.)
package router

import (
	"context"
	"net"
	"testing"
	"time"

	"github.com/IrineSistiana/mosproxy/internal/dnsmsg"
	"github.com/miekg/dns"
)

type f2Upstream struct{}

func (f2Upstream) ExchangeContext(ctx context.Context, q []byte) (*dnsmsg.Msg, error) {
	m := new(dns.Msg)
	if err := m.Unpack(q); err != nil {
		return nil, err
	}
	r := new(dns.Msg)
	r.SetReply(m)
	r.Answer = append(r.Answer, &dns.A{Hdr: dns.RR_Header{Name: m.Question[0].Name, Rrtype: dns.TypeA, Class: dns.ClassINET, Ttl: 60}, A: net.IPv4(1, 2, 3, 4)})
	b, err := r.Pack()
	if err != nil {
		return nil, err
	}
	return dnsmsg.UnpackMsg(b)
}
func (f2Upstream) Close() error { return nil }

func TestFinding2_BigUDPQueryDropped(t *testing.T) {
	addr := "127.0.0.1:5945"
	cfg := &Config{
		Servers:   []ServerConfig{{Protocol: "udp", Listen: addr}},
		Upstreams: []UpstreamConfig{{Tag: "u", Addr: "udp://127.0.0.1:1"}},
		Rules:     []RuleConfig{{Forward: "u"}},
	}
	r, err := run(context.Background(), cfg)
	if err != nil {
		t.Fatal(err)
	}
	defer r.close(nil)
	r.upstreams["u"].u = f2Upstream{}

	for _, pad := range []int{100, 1900, 2100, 4000} {
		// An ordinary query with an EDNS0 padding option (RFC 7830).
		m := new(dns.Msg)
		m.SetQuestion("example.com.", dns.TypeA)
		m.Id = 0x4242
		opt := &dns.OPT{Hdr: dns.RR_Header{Name: ".", Rrtype: dns.TypeOPT}}
		opt.SetUDPSize(4096)
		opt.Option = append(opt.Option, &dns.EDNS0_PADDING{Padding: make([]byte, pad)})
		m.Extra = append(m.Extra, opt)
		b, err := m.Pack()
		if err != nil {
			t.Fatal(err)
		}
		// The proxy's own decoder accepts the message.
		if dm, err := dnsmsg.UnpackMsg(b); err != nil {
			t.Fatalf("not decodable: %v", err)
		} else {
			dnsmsg.ReleaseMsg(dm)
		}

		c, err := net.Dial("udp", addr)
		if err != nil {
			t.Fatal(err)
		}
		if _, err := c.Write(b); err != nil {
			t.Fatal(err)
		}
		c.SetReadDeadline(time.Now().Add(7 * time.Second))
		rb := make([]byte, 65535)
		n, err := c.Read(rb)
		c.Close()
		if err != nil {
			t.Errorf("query of %d bytes: no response: %v", len(b), err)
			continue
		}
		resp := new(dns.Msg)
		if err := resp.Unpack(rb[:n]); err != nil || resp.Id != 0x4242 {
			t.Errorf("query of %d bytes: bad response: %v %v", len(b), err, resp)
			continue
		}
		t.Logf("query of %d bytes: rcode %d id %x", len(b), resp.Rcode, resp.Id)
	}
}
