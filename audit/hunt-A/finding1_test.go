// Finding 1 (C03, also C13): a stream listener whose idle_timeout is shorter than the time a
// query is in flight closes the connection under the client instead of answering.
//
// Place in:   app/router/   (package router, in-package test)
// Run:        export GOFLAGS=-mod=mod GOPROXY=off GOSUMDB=off GOTOOLCHAIN=local
//             go test ./app/router/ -run TestFinding1 -count=1 -v
//
// Observed on the unchanged code (idle_timeout: 2, upstream silent; the same happens with an
// upstream that simply needs longer than idle_timeout, e.g. 3 s):
//
//   --- FAIL: TestFinding1_IdleTimeoutClosesBusyConn/tcp  (2.01s)
//       finding1_test.go: tcp: connection closed by the proxy after 2.000433687s without any response: EOF
//   --- FAIL: TestFinding1_IdleTimeoutClosesBusyConn/tls  (2.0s)   ... EOF
//   --- FAIL: TestFinding1_IdleTimeoutClosesBusyConn/gnet (2.5s)
//       finding1_test.go: gnet: connection closed by the proxy after 2.001481039s without any response: EOF
//   --- FAIL: TestFinding1_IdleTimeoutClosesBusyConn/quic (2.0s)
//       finding1_test.go: quic: connection closed by the proxy after 2.000996593s without any response: Application error 0x0 (remote)
//
// Expected by C03: one SERVFAIL with the query's id after ~6 s, on the same connection.
package router

import (
	"context"
	"crypto/tls"
	"encoding/binary"
	"io"
	"net"
	"testing"
	"time"

	"github.com/IrineSistiana/mosproxy/internal/dnsmsg"
	"github.com/miekg/dns"
	"github.com/quic-go/quic-go"
)

type f1Upstream struct{}

// silent upstream: never answers, returns when the request context ends.
func (f1Upstream) ExchangeContext(ctx context.Context, q []byte) (*dnsmsg.Msg, error) {
	<-ctx.Done()
	return nil, context.Cause(ctx)
}
func (f1Upstream) Close() error { return nil }

func f1Frame(id uint16) []byte {
	m := new(dns.Msg)
	m.SetQuestion("example.com.", dns.TypeA)
	m.Id = id
	b, _ := m.Pack()
	o := make([]byte, 2+len(b))
	binary.BigEndian.PutUint16(o, uint16(len(b)))
	copy(o[2:], b)
	return o
}

func f1ReadFrame(c io.Reader) (*dns.Msg, error) {
	var h [2]byte
	if _, err := io.ReadFull(c, h[:]); err != nil {
		return nil, err
	}
	b := make([]byte, binary.BigEndian.Uint16(h[:]))
	if _, err := io.ReadFull(c, b); err != nil {
		return nil, err
	}
	m := new(dns.Msg)
	return m, m.Unpack(b)
}

func TestFinding1_IdleTimeoutClosesBusyConn(t *testing.T) {
	cases := []struct{ proto, addr string }{
		{"tcp", "127.0.0.1:5941"},
		{"tls", "127.0.0.1:5942"},
		{"gnet", "127.0.0.1:5943"},
		{"quic", "127.0.0.1:5944"},
	}
	for _, tc := range cases {
		tc := tc
		t.Run(tc.proto, func(t *testing.T) {
			cfg := &Config{
				Servers:   []ServerConfig{{Protocol: tc.proto, Listen: tc.addr, IdleTimeout: 2, Tls: TlsConfig{DebugUseTempCert: true}}},
				Upstreams: []UpstreamConfig{{Tag: "u", Addr: "udp://127.0.0.1:1"}},
				Rules:     []RuleConfig{{Forward: "u"}},
			}
			r, err := run(context.Background(), cfg)
			if err != nil {
				t.Fatal(err)
			}
			defer r.close(nil)
			r.upstreams["u"].u = f1Upstream{}

			var rw io.ReadWriter
			switch tc.proto {
			case "tcp", "gnet":
				c, err := net.Dial("tcp", tc.addr)
				if err != nil {
					t.Fatal(err)
				}
				defer c.Close()
				c.SetDeadline(time.Now().Add(9 * time.Second))
				rw = c
			case "tls":
				c, err := tls.Dial("tcp", tc.addr, &tls.Config{InsecureSkipVerify: true})
				if err != nil {
					t.Fatal(err)
				}
				defer c.Close()
				c.SetDeadline(time.Now().Add(9 * time.Second))
				rw = c
			case "quic":
				// The client keeps the connection alive itself; it is the proxy that closes it.
				qc, err := quic.DialAddr(context.Background(), tc.addr,
					&tls.Config{InsecureSkipVerify: true, NextProtos: []string{"doq"}},
					&quic.Config{KeepAlivePeriod: 500 * time.Millisecond})
				if err != nil {
					t.Fatal(err)
				}
				defer qc.CloseWithError(0, "")
				s, err := qc.OpenStreamSync(context.Background())
				if err != nil {
					t.Fatal(err)
				}
				s.SetReadDeadline(time.Now().Add(9 * time.Second))
				rw = f1QuicStream{s}
			}

			start := time.Now()
			if _, err := rw.Write(f1Frame(0x1234)); err != nil {
				t.Fatal(err)
			}
			m, err := f1ReadFrame(rw)
			el := time.Since(start)
			if err != nil {
				t.Fatalf("%s: connection closed by the proxy after %v without any response: %v", tc.proto, el, err)
			}
			if m.Id != 0x1234 || !m.Response || m.Rcode != dns.RcodeServerFailure {
				t.Fatalf("%s: unexpected response after %v: %v", tc.proto, el, m)
			}
			if el > 7*time.Second {
				t.Fatalf("%s: response too late: %v", tc.proto, el)
			}
		})
	}
}

// DoQ: the query is followed by FIN.
type f1QuicStream struct{ quic.Stream }

func (s f1QuicStream) Write(b []byte) (int, error) {
	n, err := s.Stream.Write(b)
	s.Stream.Close()
	return n, err
}
