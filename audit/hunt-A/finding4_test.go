// Finding 4 (C03 "opcode other than QUERY ... get NOTIMP"): an RFC 2136 UPDATE message
// (opcode 5, QR=0) that contains a "delete an RRset" / "RRset exists" entry (CLASS ANY, TTL 0,
// RDLENGTH 0, RFC 2136 2.4.1 / 2.5.2) whose TYPE is one the proxy decodes structurally
// (A, AAAA, NS, CNAME, PTR, SOA, MX, SRV) is rejected by the proxy's decoder as malformed:
// the UDP datagram is dropped, the TCP/DoT connection is closed (taking the other queries in
// flight on that connection with it), DoH gets 400. The same UPDATE with an "add" entry is
// answered NOTIMP as the property demands. The message is well formed (it is what nsupdate's
// "update delete host.example.com A" sends; miekg/dns decodes it).
//
// Place in:   app/router/   (package router, in-package test)
// Run:        export GOFLAGS=-mod=mod GOPROXY=off GOSUMDB=off GOTOOLCHAIN=local
//             go test ./app/router/ -run TestFinding4 -count=1 -v
//
// Observed on the unchanged code:
//
//   finding4_test.go: udp add: rcode 4 opcode 5 id 7777
//   finding4_test.go: tcp add: rcode 4 opcode 5 id 7777
//   WRN invalid query msg error="authorities: invalid resource body length" module=server_udp
//   finding4_test.go: udp delete-rrset: no response: read udp ...: i/o timeout
//   WRN invalid query msg error="authorities: invalid resource body length" module=server_tcp
//   finding4_test.go: tcp delete-rrset: no NOTIMP and the pipelined A query lost its answer too: EOF
//   --- FAIL: TestFinding4_UpdateDeleteRRsetNotAnswered
package router

import (
	"context"
	"encoding/binary"
	"io"
	"net"
	"testing"
	"time"

	"github.com/IrineSistiana/mosproxy/internal/dnsmsg"
	"github.com/miekg/dns"
)

type f4Upstream struct{}

func (f4Upstream) ExchangeContext(ctx context.Context, q []byte) (*dnsmsg.Msg, error) {
	time.Sleep(200 * time.Millisecond)
	m := new(dns.Msg)
	if err := m.Unpack(q); err != nil {
		return nil, err
	}
	r := new(dns.Msg)
	r.SetReply(m)
	r.Answer = append(r.Answer, &dns.A{Hdr: dns.RR_Header{Name: m.Question[0].Name, Rrtype: dns.TypeA, Class: dns.ClassINET, Ttl: 60}, A: net.IPv4(1, 2, 3, 4)})
	b, _ := r.Pack()
	return dnsmsg.UnpackMsg(b)
}
func (f4Upstream) Close() error { return nil }

func f4Frame(b []byte) []byte {
	o := make([]byte, 2+len(b))
	binary.BigEndian.PutUint16(o, uint16(len(b)))
	copy(o[2:], b)
	return o
}

func f4ReadFrame(c io.Reader) (*dns.Msg, error) {
	var h [2]byte
	if _, err := io.ReadFull(c, h[:]); err != nil {
		return nil, err
	}
	b := make([]byte, binary.BigEndian.Uint16(h[:]))
	if _, err := io.ReadFull(c, b); err != nil {
		return nil, err
	}
	m := new(dns.Msg)
	return m, m.Unpack(b)
}

func TestFinding4_UpdateDeleteRRsetNotAnswered(t *testing.T) {
	cfg := &Config{
		Servers:   []ServerConfig{{Protocol: "udp", Listen: "127.0.0.1:5947"}, {Protocol: "tcp", Listen: "127.0.0.1:5948"}},
		Upstreams: []UpstreamConfig{{Tag: "u", Addr: "udp://127.0.0.1:1"}},
		Rules:     []RuleConfig{{Forward: "u"}},
	}
	r, err := run(context.Background(), cfg)
	if err != nil {
		t.Fatal(err)
	}
	defer r.close(nil)
	r.upstreams["u"].u = f4Upstream{}

	mk := func(del bool) []byte {
		m := new(dns.Msg)
		m.SetUpdate("example.com.")
		m.Id = 0x7777
		rr, _ := dns.NewRR("host.example.com. 300 IN A 192.0.2.1")
		if del {
			m.RemoveRRset([]dns.RR{rr}) // host.example.com. 0 ANY A, rdlength 0
		} else {
			m.Insert([]dns.RR{rr})
		}
		b, err := m.Pack()
		if err != nil {
			t.Fatal(err)
		}
		// well formed for an independent decoder
		if err := new(dns.Msg).Unpack(b); err != nil {
			t.Fatal(err)
		}
		return b
	}
	name := map[bool]string{false: "add", true: "delete-rrset"}

	for _, del := range []bool{false, true} {
		// UDP
		c, _ := net.Dial("udp", "127.0.0.1:5947")
		c.Write(mk(del))
		c.SetReadDeadline(time.Now().Add(2 * time.Second))
		rb := make([]byte, 4096)
		n, err := c.Read(rb)
		c.Close()
		if err != nil {
			t.Errorf("udp %s: no response: %v", name[del], err)
		} else {
			resp := new(dns.Msg)
			resp.Unpack(rb[:n])
			if resp.Rcode != dns.RcodeNotImplemented || resp.Opcode != dns.OpcodeUpdate || resp.Id != 0x7777 {
				t.Errorf("udp %s: unexpected %v", name[del], resp)
			}
			t.Logf("udp %s: rcode %d opcode %d id %x", name[del], resp.Rcode, resp.Opcode, resp.Id)
		}

		// TCP: an ordinary query pipelined in front of the UPDATE.
		tc, _ := net.Dial("tcp", "127.0.0.1:5948")
		q := new(dns.Msg)
		q.SetQuestion("example.com.", dns.TypeA)
		q.Id = 0x1111
		qb, _ := q.Pack()
		tc.Write(append(f4Frame(qb), f4Frame(mk(del))...))
		tc.SetReadDeadline(time.Now().Add(2 * time.Second))
		got := map[uint16]*dns.Msg{}
		var rerr error
		for len(got) < 2 {
			m, err := f4ReadFrame(tc)
			if err != nil {
				rerr = err
				break
			}
			got[m.Id] = m
		}
		tc.Close()
		if u := got[0x7777]; u == nil || u.Rcode != dns.RcodeNotImplemented {
			if got[0x1111] == nil {
				t.Errorf("tcp %s: no NOTIMP and the pipelined A query lost its answer too: %v", name[del], rerr)
			} else {
				t.Errorf("tcp %s: no NOTIMP: %v", name[del], rerr)
			}
		} else {
			t.Logf("tcp %s: rcode %d opcode %d id %x", name[del], u.Rcode, u.Opcode, u.Id)
		}
	}
}
