// Finding 5 (C03/C13, BORDERLINE - depends on how "keeps its transport open" is read): a TCP
// client that sends its query, half-closes its sending direction (FIN, shutdown(SHUT_WR)) and
// keeps reading never gets the response. The listener treats EOF from the client as the end of
// the whole connection and closes it at once, without waiting for the handlers that are still
// running; their responses are lost ("use of closed network connection").
//
// Place in:   app/router/   (package router, in-package test)
// Run:        export GOFLAGS=-mod=mod GOPROXY=off GOSUMDB=off GOTOOLCHAIN=local
//             go test ./app/router/ -run TestFinding5 -count=1 -v
//
// Observed on the unchanged code (upstream answers after 200 ms):
//
//   --- FAIL: TestFinding5_HalfClose/tcp  (0.00s)  finding5_test.go: no response: EOF
//   WRN failed to write response error="write tcp 127.0.0.1:5949->...: use of closed network connection" module=server_tcp
//   --- FAIL: TestFinding5_HalfClose/gnet (0.51s)  finding5_test.go: no response: EOF
package router

import (
	"context"
	"encoding/binary"
	"io"
	"net"
	"testing"
	"time"

	"github.com/IrineSistiana/mosproxy/internal/dnsmsg"
	"github.com/miekg/dns"
)

type f5Upstream struct{}

func (f5Upstream) ExchangeContext(ctx context.Context, q []byte) (*dnsmsg.Msg, error) {
	time.Sleep(200 * time.Millisecond)
	m := new(dns.Msg)
	if err := m.Unpack(q); err != nil {
		return nil, err
	}
	r := new(dns.Msg)
	r.SetReply(m)
	b, _ := r.Pack()
	return dnsmsg.UnpackMsg(b)
}
func (f5Upstream) Close() error { return nil }

func TestFinding5_HalfClose(t *testing.T) {
	for _, tc := range []struct{ proto, addr string }{{"tcp", "127.0.0.1:5949"}, {"gnet", "127.0.0.1:5950"}} {
		tc := tc
		t.Run(tc.proto, func(t *testing.T) {
			cfg := &Config{
				Servers:   []ServerConfig{{Protocol: tc.proto, Listen: tc.addr}},
				Upstreams: []UpstreamConfig{{Tag: "u", Addr: "udp://127.0.0.1:1"}},
				Rules:     []RuleConfig{{Forward: "u"}},
			}
			r, err := run(context.Background(), cfg)
			if err != nil {
				t.Fatal(err)
			}
			defer r.close(nil)
			r.upstreams["u"].u = f5Upstream{}

			c, err := net.Dial("tcp", tc.addr)
			if err != nil {
				t.Fatal(err)
			}
			defer c.Close()
			m := new(dns.Msg)
			m.SetQuestion("example.com.", dns.TypeA)
			b, _ := m.Pack()
			o := make([]byte, 2+len(b))
			binary.BigEndian.PutUint16(o, uint16(len(b)))
			copy(o[2:], b)
			c.Write(o)
			c.(*net.TCPConn).CloseWrite() // the receiving direction stays open
			c.SetReadDeadline(time.Now().Add(3 * time.Second))
			var h [2]byte
			if _, err := io.ReadFull(c, h[:]); err != nil {
				t.Fatalf("no response: %v", err)
			}
		})
	}
}
