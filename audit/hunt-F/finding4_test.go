// Finding 4 (C18): closing the router blocks for ~5s when a client has merely
// opened a TCP connection to a "fasthttp" listener (nothing sent). All other
// stream listeners (tcp, tls, http, https, gnet) close at once (gnet: 0.5s).
//
// Place in:  app/router/   (package router)
// Run:       go test ./app/router/ -run TestFinding4 -count=1 -v
//
// Observed on the unchanged code:
//   finding4_test.go: tcp: close took 0s
//   finding4_test.go: tls: close took 0s
//   finding4_test.go: http: close took 0s
//   finding4_test.go: https: close took 0s
//   finding4_test.go: fasthttp: router close took 4.8s with one silent client connected
//   --- FAIL: TestFinding4CloseWithSilentClient/fasthttp (5.01s)
package router

import (
	"context"
	"fmt"
	"net"
	"testing"
	"time"

	"github.com/IrineSistiana/mosproxy/internal/mlog"
	"github.com/rs/zerolog"
)

func TestFinding4CloseWithSilentClient(t *testing.T) {
	mlog.SetLvl(zerolog.Disabled)
	for _, kind := range []string{"tcp", "tls", "http", "https", "fasthttp"} {
		t.Run(kind, func(t *testing.T) {
			l, err := net.Listen("tcp", "127.0.0.1:0")
			if err != nil {
				t.Fatal(err)
			}
			addr := l.Addr().String()
			l.Close()

			s1 := ServerConfig{Protocol: kind, Listen: addr}
			s1.Tls.DebugUseTempCert = true
			r, err := run(context.Background(), &Config{Servers: []ServerConfig{s1}})
			if err != nil {
				t.Fatal(err)
			}
			c, err := net.Dial("tcp", addr)
			if err != nil {
				r.close(nil)
				t.Fatal(err)
			}
			defer c.Close()
			time.Sleep(200 * time.Millisecond)

			start := time.Now()
			done := make(chan struct{})
			go func() { r.close(nil); close(done) }()
			select {
			case <-done:
			case <-time.After(30 * time.Second):
				t.Fatal("close did not return in 30s")
			}
			d := time.Since(start).Round(100 * time.Millisecond)
			if d > time.Second {
				t.Errorf("%s: router close took %v with one silent client connected", kind, d)
			} else {
				t.Log(fmt.Sprintf("%s: close took %v", kind, d))
			}
		})
	}
}
