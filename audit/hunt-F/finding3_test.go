//go:build verif

// Finding 3 (C20): the redis cache backend hands the pooled key buffer to the
// redis client as an unsafe string (rueidis.BinaryString) and releases the
// buffer when the call returns. rueidis' Do returns as soon as the request's
// context is done, while the command is still queued for writing. The command
// is written later from the released (and meanwhile reused) buffer.
//
// Place in:  app/router/   (package router)
// Run:       go test -tags verif ./app/router/ -run TestFinding3 -count=1 -v
// (the verif tag only enables internal/pool's release-time poisoning, which
// makes the bytes read after release recognisable: 0xEE)
//
// Observed on the unchanged code (6 of 6 runs; the counts vary):
//   finding3_test.go: 1035 calls had returned when the server resumed
//   finding3_test.go: 6000 Get calls, server received 1313 GET commands, 164 with a key that no request ever asked for
//   finding3_test.go: redis received 164 keys read from released buffers, e.g. "\xee\xee\xee\xee\xee\xee\xee\xee\xee\xee\xee\xee\xee\xee\xee\xee\xee\xee\xee..."
//   --- FAIL: TestFinding3RedisKeyReadAfterRelease (2.47s)
package router

import (
	"bufio"
	"bytes"
	"context"
	"fmt"
	"io"
	"net"
	"net/netip"
	"strconv"
	"strings"
	"sync"
	"sync/atomic"
	"testing"
	"time"

	"github.com/IrineSistiana/mosproxy/internal/cache"
	"github.com/IrineSistiana/mosproxy/internal/dnsmsg"
	"github.com/IrineSistiana/mosproxy/internal/mlog"
	"github.com/IrineSistiana/mosproxy/internal/pool"
	"github.com/rs/zerolog"
)

// f3Redis is a minimal redis server (RESP), enough for rueidis: HELLO, CLIENT,
// CLUSTER, PING, GET, SET. While stall is set it does not read from its
// connections, like a server that is blocked or a path that loses packets.
type f3Redis struct {
	l     net.Listener
	stall atomic.Bool
	mu    sync.Mutex
	gets  [][]byte
}

func f3ReadCmd(br *bufio.Reader) ([][]byte, error) {
	line, err := br.ReadString('\n')
	if err != nil {
		return nil, err
	}
	if len(line) < 3 || line[0] != '*' {
		return nil, fmt.Errorf("bad line %q", line)
	}
	n, _ := strconv.Atoi(strings.TrimSpace(line[1:]))
	out := make([][]byte, n)
	for i := 0; i < n; i++ {
		l2, err := br.ReadString('\n')
		if err != nil {
			return nil, err
		}
		sz, _ := strconv.Atoi(strings.TrimSpace(l2[1:]))
		b := make([]byte, sz+2)
		if _, err := io.ReadFull(br, b); err != nil {
			return nil, err
		}
		out[i] = b[:sz]
	}
	return out, nil
}

func f3Start(t *testing.T) *f3Redis {
	l, err := net.Listen("tcp", "127.0.0.1:0")
	if err != nil {
		t.Fatal(err)
	}
	f := &f3Redis{l: l}
	go func() {
		for {
			c, err := l.Accept()
			if err != nil {
				return
			}
			// A small receive buffer, so that a few KB fill the path.
			c.(*net.TCPConn).SetReadBuffer(8192)
			go f.serve(c)
		}
	}()
	return f
}

func (f *f3Redis) serve(c net.Conn) {
	defer c.Close()
	br := bufio.NewReaderSize(c, 65536)
	for {
		for f.stall.Load() {
			time.Sleep(10 * time.Millisecond)
		}
		cmd, err := f3ReadCmd(br)
		if err != nil {
			return
		}
		var reply string
		switch strings.ToUpper(string(cmd[0])) {
		case "HELLO":
			reply = "%7\r\n$6\r\nserver\r\n$5\r\nredis\r\n$7\r\nversion\r\n$5\r\n7.2.0\r\n$5\r\nproto\r\n:3\r\n$2\r\nid\r\n:1\r\n$4\r\nmode\r\n$10\r\nstandalone\r\n$4\r\nrole\r\n$6\r\nmaster\r\n$7\r\nmodules\r\n*0\r\n"
		case "CLUSTER":
			reply = "-ERR This instance has cluster support disabled\r\n"
		case "PING":
			reply = "+PONG\r\n"
		case "GET":
			f.mu.Lock()
			f.gets = append(f.gets, cmd[1])
			f.mu.Unlock()
			reply = "_\r\n"
		default:
			reply = "+OK\r\n"
		}
		if _, err := c.Write([]byte(reply)); err != nil {
			return
		}
	}
}

func TestFinding3RedisKeyReadAfterRelease(t *testing.T) {
	mlog.SetLvl(zerolog.Disabled)
	f := f3Start(t)
	defer f.l.Close()
	rcache, err := cache.NewRedisCache("redis://"+f.l.Addr().String(), nil)
	if err != nil {
		t.Fatal(err)
	}
	defer rcache.Close()
	// The router's cache controller with a redis backend (what initCache builds
	// for "cache: {redis: ...}").
	c := &cacheCtl{logger: mlog.Nop(), maximumTtl: time.Hour, redis: rcache}

	mkQ := func(i int) *dnsmsg.Question {
		var nb dnsmsg.NameBuilder
		if err := nb.ParseReadable([]byte(fmt.Sprintf("name-%08d.some-long-label-to-make-the-key-bigger.example.org", i))); err != nil {
			t.Fatal(err)
		}
		q := dnsmsg.NewQuestion()
		q.Name = nb.ToName()
		q.Class = 1
		q.Type = 1
		return q
	}
	// Wait until the backend is connected (its ping loop ticks once per second):
	// a Get reaches the server.
	for i := 0; i < 50; i++ {
		rc := getRequestContext()
		c.Get(context.Background(), mkQ(0), rc)
		releaseRequestContext(rc)
		f.mu.Lock()
		n := len(f.gets)
		f.mu.Unlock()
		if n > 0 {
			break
		}
		time.Sleep(100 * time.Millisecond)
	}
	f.mu.Lock()
	if len(f.gets) == 0 {
		f.mu.Unlock()
		t.Fatal("redis not connected")
	}
	f.gets = nil
	f.mu.Unlock()

	pool.VerifPoison(true, 0)
	defer pool.VerifPoison(false, 0)

	// The redis server stops reading.
	f.stall.Store(true)
	var wg sync.WaitGroup
	var calls atomic.Int64
	for g := 0; g < 6000; g++ {
		if g%8 == 0 {
			// Requests arrive over ~0.3s, not all in the same microsecond.
			time.Sleep(50 * time.Microsecond)
		}
		wg.Add(1)
		go func() {
			defer wg.Done()
			q := mkQ(g)
			rc := getRequestContext()
			rc.RemoteAddr = netip.MustParseAddrPort("192.0.2.1:53")
			// The request's context: 6s in handleServerReq, scaled down here.
			ctx, cancel := context.WithTimeout(context.Background(), 150*time.Millisecond)
			c.Get(ctx, q, rc) // builds the key, asks redis, releases the key
			cancel()
			releaseRequestContext(rc)
			dnsmsg.ReleaseQuestion(q)
			calls.Add(1)
		}()
	}
	// All contexts are done after 150ms. The calls that were queued have returned.
	time.Sleep(300 * time.Millisecond)
	returned := calls.Load()
	// The server reads again.
	f.stall.Store(false)
	wg.Wait()
	time.Sleep(500 * time.Millisecond)
	t.Logf("%d calls had returned when the server resumed", returned)

	f.mu.Lock()
	defer f.mu.Unlock()
	bad := 0
	var sample []byte
	for _, k := range f.gets {
		// every key that was asked for is "<13>name-NNNNNNNN ... <7>example<3>org<0> class type"
		if len(k) < 6 || string(k[1:6]) != "name-" || !bytes.HasSuffix(k, []byte("\x07example\x03org\x00\x00\x01\x00\x01")) {
			bad++
			if sample == nil {
				sample = k
			}
		}
	}
	t.Logf("%d Get calls, server received %d GET commands, %d with a key that no request ever asked for", calls.Load(), len(f.gets), bad)
	if bad > 0 {
		t.Errorf("redis received %d keys read from released buffers, e.g. %q", bad, sample)
	}
}
