// Finding 2 (C20): the memory cache recycles a *cacheEntry (and releases its
// value buffer) while the entry is still referenced by the otter cache, and does
// so again every time the expired key is read. The recycled entry is then owned
// by another key's Store: reads of key A release (write) the entry and the value
// buffer that belong to key B, and the cost function reads the entry unlocked.
//
// Place in:  internal/cache/   (package cache)
// Run:       go test ./internal/cache/ -run TestFinding2 -count=1 -v
//            go test ./internal/cache/ -run TestFinding2Race -count=1 -race
//
// Observed on the unchanged code (without -race):
//   --- FAIL: TestFinding2ForeignEntriesReleased (1.39s)
//       finding2_test.go: 64 of 64 entries stored with a ttl of 1h (the cache is 0.2% full) were released by reads of another, expired key
// with -race:
//   WARNING: DATA RACE
//   Write at 0x00c000242058 by goroutine 14:
//     internal/cache.releaseEntry()            internal/cache/mem.go:126
//     internal/cache.NewMemoryCache.func2()    internal/cache/mem.go:31   (DeletionListener)
//     otter/internal/core.(*Cache).process()   cache.go:446
//   Previous read at 0x00c000242058 by goroutine 33:
//     internal/cache.NewMemoryCache.func1()    internal/cache/mem.go:28   (Cost)
//     otter/internal/core.(*Cache).set()       cache.go:279
//     internal/cache.(*MemoryCache).Store()    internal/cache/mem.go:71
//   --- FAIL: TestFinding2Race
// The same race (mem.go:64 Store write vs mem.go:28 Cost read, two Stores that
// got the same entry from the pool) shows up ~50 times in 20s when the whole
// router is run under -race with upstream TTLs of 1..3s.
package cache

import (
	"fmt"
	"sync"
	"testing"
	"time"
)

// staleNode stores key with a ttl of 1s and reads it in the window in which it
// has expired but has not been removed by otter's cleanup goroutine yet (the
// window is up to 1s wide: cleanup runs once per second). That is the ordinary
// history "answer with TTL 1 is cached, the name is asked again a second
// later". It reports whether the node got stuck in otter's map.
func staleNode(c *MemoryCache, key []byte) bool {
	now := time.Now()
	c.Store(key, now, now.Add(time.Second), []byte("value-A"), false)
	deadline := time.Now().Add(5 * time.Second)
	sawHit := false
	for time.Now().Before(deadline) {
		v, _, _ := c.Get(key)
		if v != nil {
			sawHit = true
			continue
		}
		if sawHit {
			break // first miss: the expired node was found in the map
		}
	}
	// otter applies its write tasks in batches of 64.
	for i := 0; i < 128; i++ {
		c.Get(key)
	}
	time.Sleep(50 * time.Millisecond)
	// The expired node is still in the map. (Size counts it, Get hides it.)
	return c.backend.Size() == 1
}

// One goroutine, no concurrency at all.
func TestFinding2ForeignEntriesReleased(t *testing.T) {
	c, err := NewMemoryCache(1 << 20)
	if err != nil {
		t.Fatal(err)
	}
	defer c.Close()
	if !staleNode(c, []byte("key-A")) {
		t.Skip("missed the expiry window, run again")
	}

	const n = 64
	for i := 0; i < n; i++ {
		now := time.Now()
		c.Store([]byte(fmt.Sprintf("key-B-%d", i)), now, now.Add(time.Hour), []byte("value-B"), false)
		// clients keep asking for the expired name
		for j := 0; j < 128; j++ {
			c.Get([]byte("key-A"))
		}
		time.Sleep(5 * time.Millisecond)
	}
	lost := 0
	for i := 0; i < n; i++ {
		v, _, _ := c.Get([]byte(fmt.Sprintf("key-B-%d", i)))
		if v == nil {
			lost++
		} else if string(v) != "value-B" {
			t.Errorf("key-B-%d has value %q", i, v)
		}
	}
	if lost > 0 {
		t.Fatalf("%d of %d entries stored with a ttl of 1h (the cache is 0.2%% full) were released by reads of another, expired key", lost, n)
	}
}

// Same history with one reader and one writer goroutine. Run with -race.
func TestFinding2Race(t *testing.T) {
	c, err := NewMemoryCache(1 << 20)
	if err != nil {
		t.Fatal(err)
	}
	defer c.Close()
	if !staleNode(c, []byte("key-A")) {
		t.Skip("missed the expiry window, run again")
	}

	var wg sync.WaitGroup
	stop := make(chan struct{})
	wg.Add(2)
	go func() {
		defer wg.Done()
		for {
			select {
			case <-stop:
				return
			default:
			}
			c.Get([]byte("key-A"))
		}
	}()
	go func() {
		defer wg.Done()
		for i := 0; i < 20000; i++ {
			n := time.Now()
			c.Store([]byte(fmt.Sprintf("key-B-%d", i)), n, n.Add(time.Hour), []byte("value-B"), false)
		}
		close(stop)
	}()
	wg.Wait()
}
