// Finding 5 (C18): a start-up that fails because the redis cache backend cannot
// be reached returns the error without closing the memory cache that was
// started just before. Its two otter goroutines (and its memory) stay for ever.
//
// Place in:  app/router/   (package router)
// Run:       go test ./app/router/ -run TestFinding5 -count=1 -v
//
// Observed on the unchanged code:
//   finding5_test.go: failed to init cache, failed to init redis cache, dial tcp 127.0.0.1:1: connect: connection refused
//   finding5_test.go: goroutines of the memory cache: 0 before, 20 after 10 failed starts
//   --- FAIL: TestFinding5FailedStartLeavesMemoryCacheRunning (1.52s)
package router

import (
	"context"
	"runtime"
	"strings"
	"testing"
	"time"

	"github.com/IrineSistiana/mosproxy/internal/mlog"
	"github.com/rs/zerolog"
)

func f5OtterGoroutines() int {
	buf := make([]byte, 1<<22)
	n := runtime.Stack(buf, true)
	// process() and cleanup() of otter's core cache
	return strings.Count(string(buf[:n]), "otter/internal/core.(*Cache[")
}

func TestFinding5FailedStartLeavesMemoryCacheRunning(t *testing.T) {
	mlog.SetLvl(zerolog.Disabled)
	before := f5OtterGoroutines()
	for i := 0; i < 10; i++ {
		// nothing listens on port 1
		cfg := &Config{Cache: CacheConfig{MemSize: 1 << 20, Redis: "redis://127.0.0.1:1"}}
		r, err := run(context.Background(), cfg)
		if err == nil {
			r.close(nil)
			t.Fatal("expected a start-up error")
		}
		if i == 0 {
			t.Log(err)
		}
	}
	time.Sleep(1500 * time.Millisecond)
	if after := f5OtterGoroutines(); after > before {
		t.Errorf("goroutines of the memory cache: %d before, %d after 10 failed starts", before, after)
	}
}
