// Finding 1 (C17): dial_addr given as a bracketed IPv6 literal without port is
// turned into "[[::1]]:<port>" and can never be dialled.
//
// Place in:  internal/upstream/   (package upstream)
// Run:       go test ./internal/upstream/ -run TestFinding1 -count=1 -v
// Needs:     permission to listen on [::1]:53 (root); the test is skipped otherwise.
//
// Observed on the unchanged code:
//   finding1_test.go: dial_addr "::1": ok
//   finding1_test.go: dial_addr "[::1]:53": ok
//   finding1_test.go: dial_addr "[::1]": exchange failed: dial tcp: address [[::1]]:53: missing port in address
//   finding1_test.go: getDialAddr("dns.example", "[::1]", "853") = "[[::1]]:853", want "[::1]:853"
//   --- FAIL: TestFinding1DialAddrBracketedIPv6NoPort
package upstream

import (
	"context"
	"net"
	"testing"
	"time"

	"github.com/miekg/dns"
)

func TestFinding1DialAddrBracketedIPv6NoPort(t *testing.T) {
	// unit level, all schemes share getDialAddr
	for _, port := range []string{"53", "853", "443", "80"} {
		if got, want := getDialAddr("dns.example", "[::1]", port), "[::1]:"+port; got != want {
			t.Errorf("getDialAddr(%q, %q, %q) = %q, want %q", "dns.example", "[::1]", port, got, want)
		}
	}

	// end to end
	l, err := net.Listen("tcp", "[::1]:53")
	if err != nil {
		t.Skipf("cannot listen on [::1]:53: %v", err)
	}
	srv := &dns.Server{Listener: l, Handler: dns.HandlerFunc(func(w dns.ResponseWriter, q *dns.Msg) {
		r := new(dns.Msg)
		r.SetReply(q)
		w.WriteMsg(r)
	})}
	go srv.ActivateAndServe()
	defer srv.Shutdown()

	q := new(dns.Msg)
	q.SetQuestion("example.org.", dns.TypeA)
	wire, _ := q.Pack()

	for _, dialAddr := range []string{"::1", "[::1]:53", "[::1]"} {
		u, err := NewUpstream("tcp://dns.example", Opt{DialAddr: dialAddr})
		if err != nil {
			t.Fatal(err)
		}
		ctx, cancel := context.WithTimeout(context.Background(), time.Second*3)
		_, err = u.ExchangeContext(ctx, wire)
		cancel()
		u.Close()
		if err != nil {
			t.Errorf("dial_addr %q: exchange failed: %v", dialAddr, err)
			continue
		}
		t.Logf("dial_addr %q: ok", dialAddr)
	}
}
