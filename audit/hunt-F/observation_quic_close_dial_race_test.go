// Observation (not counted as a confirmed violation, see README): closing a
// quic:// or h3:// upstream while its FIRST dial is being started is a data race
// on the fields of quic-go's Transport (Transport.Close reads handlerMap, conn,
// listening; Transport.init, run by the first DialEarly, writes them without
// synchronisation). Only the race detector shows it; 600 000 racing
// close/first-dial pairs per kind produced no hang, crash or leaked socket.
//
// Place in:  internal/upstream/   (package upstream)
// Run:       go test ./internal/upstream/ -run TestObservationQuicCloseDialRace -count=1 -race
//
// Observed:
//   WARNING: DATA RACE
//   Read at 0x00c0001fa058 by goroutine 10:
//     quic-go.(*Transport).close()   transport.go:334
//     quic-go.(*Transport).Close()   transport.go:295
//     internal/upstream.NewUpstream.func6()  upstream.go:254   (h3 closer; upstream.go:372 for quic)
//   Previous write at 0x00c0001fa058 by goroutine 25:
//     quic-go.(*Transport).init.func2()   transport.go:228
//     quic-go.(*Transport).DialEarly()    transport.go:192
//     internal/upstream.NewUpstream.func7()  upstream.go:263
package upstream

import (
	"context"
	"crypto/tls"
	"sync"
	"testing"
	"time"

	"github.com/IrineSistiana/mosproxy/internal/utils"
	"github.com/miekg/dns"
	"github.com/quic-go/quic-go"
)

func TestObservationQuicCloseDialRace(t *testing.T) {
	cert, err := utils.GenerateCertificate("test")
	if err != nil {
		t.Fatal(err)
	}
	l, err := quic.ListenAddr("127.0.0.1:0", &tls.Config{Certificates: []tls.Certificate{cert}, NextProtos: []string{"doq", "h3"}}, &quic.Config{})
	if err != nil {
		t.Fatal(err)
	}
	defer l.Close()
	go func() {
		for {
			c, err := l.Accept(context.Background())
			if err != nil {
				return
			}
			_ = c
		}
	}()
	q := new(dns.Msg)
	q.SetQuestion("example.org.", dns.TypeA)
	wire, _ := q.Pack()

	for _, scheme := range []string{"quic", "h3"} {
		for i := 0; i < 300; i++ {
			u, err := NewUpstream(scheme+"://"+l.Addr().String(), Opt{TLSConfig: &tls.Config{InsecureSkipVerify: true}})
			if err != nil {
				t.Fatal(err)
			}
			var wg sync.WaitGroup
			wg.Add(2)
			start := make(chan struct{})
			go func() {
				defer wg.Done()
				<-start
				ctx, cancel := context.WithTimeout(context.Background(), time.Second)
				defer cancel()
				u.ExchangeContext(ctx, wire)
			}()
			go func() {
				defer wg.Done()
				<-start
				time.Sleep(time.Duration(i%60) * time.Microsecond)
				u.Close()
			}()
			close(start)
			wg.Wait()
			u.Close()
		}
	}
}
