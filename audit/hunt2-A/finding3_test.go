// Place this file in: app/router/
// go test -mod=mod -vet=off -count=1 -run TestZzFind3 ./app/router/
//
// Property C13 (stream listeners frame correctly under any segmentation and
// pipelining).
//
// Configuration: idle_timeout: 1 on a tcp / tls listener, an upstream that
// needs 2.5 s for one name.
// History: the client sends query A (slow name) and, in the same segment, the
// first octet of the length prefix of query B. The next segment, with the
// rest of B, arrives 1.5 s later (a lost and retransmitted segment is
// enough). While A is being handled the connection is not idle (that is what
// 79a52c8 fixed), but the read deadline that fires with one octet of B
// consumed is not treated like the one that fires between two frames:
// the listener closes the connection. The response of A is dropped and B is
// never decoded. The gnet listener keeps the connection in the same history
// and answers both.
package router

import (
	"context"
	"crypto/tls"
	"encoding/binary"
	"errors"
	"io"
	"net"
	"strings"
	"testing"
	"time"

	"github.com/IrineSistiana/mosproxy/internal/mlog"
	"github.com/miekg/dns"
	"github.com/rs/zerolog"
)

func zzFind3Upstream(t *testing.T) string {
	pc, err := net.ListenPacket("udp", "127.0.0.1:0")
	if err != nil {
		t.Fatal(err)
	}
	s := &dns.Server{PacketConn: pc, Handler: dns.HandlerFunc(func(w dns.ResponseWriter, q *dns.Msg) {
		if strings.HasPrefix(q.Question[0].Name, "slow.") {
			time.Sleep(2500 * time.Millisecond)
		}
		r := new(dns.Msg)
		r.SetReply(q)
		w.WriteMsg(r)
	})}
	go s.ActivateAndServe()
	t.Cleanup(func() { s.Shutdown() })
	return pc.LocalAddr().String()
}

func zzFind3FreeAddr(t *testing.T) string {
	l, err := net.Listen("tcp", "127.0.0.1:0")
	if err != nil {
		t.Fatal(err)
	}
	defer l.Close()
	return l.Addr().String()
}

func zzFind3Frame(t *testing.T, name string, id uint16) []byte {
	q := new(dns.Msg)
	q.SetQuestion(name, dns.TypeA)
	q.Id = id
	b, err := q.Pack()
	if err != nil {
		t.Fatal(err)
	}
	return append(binary.BigEndian.AppendUint16(nil, uint16(len(b))), b...)
}

func TestZzFind3SplitPrefixWhileBusy(t *testing.T) {
	mlog.SetLvl(zerolog.Disabled)
	up := zzFind3Upstream(t)
	tcpAddr, tlsAddr, gnetAddr := zzFind3FreeAddr(t), zzFind3FreeAddr(t), zzFind3FreeAddr(t)
	cfg := &Config{
		Servers: []ServerConfig{
			{Protocol: "tcp", Listen: tcpAddr, IdleTimeout: 1},
			{Protocol: "tls", Listen: tlsAddr, IdleTimeout: 1, Tls: TlsConfig{DebugUseTempCert: true}},
			{Protocol: "gnet", Listen: gnetAddr, IdleTimeout: 1},
		},
		Upstreams: []UpstreamConfig{{Tag: "u", Addr: "udp://" + up}},
		Rules:     []RuleConfig{{Forward: "u"}},
	}
	r, err := run(context.Background(), cfg)
	if err != nil {
		t.Fatal(err)
	}
	defer r.close(errors.New("test done"))
	time.Sleep(200 * time.Millisecond)

	// The group returns when its parallel subtests are done.
	t.Run("listener", func(t *testing.T) {
		for _, tc := range []struct {
			name, addr string
			tls        bool
		}{{"tcp", tcpAddr, false}, {"tls", tlsAddr, true}, {"gnet", gnetAddr, false}} {
			tc := tc
			t.Run(tc.name, func(t *testing.T) {
				t.Parallel()
				zzFind3Client(t, tc.addr, tc.tls)
			})
		}
	})
}

func zzFind3Client(t *testing.T, addr string, useTls bool) {
	var c net.Conn
	var err error
	if useTls {
		c, err = tls.Dial("tcp", addr, &tls.Config{InsecureSkipVerify: true})
	} else {
		c, err = net.Dial("tcp", addr)
	}
	if err != nil {
		t.Fatal(err)
	}
	defer c.Close()

	a := zzFind3Frame(t, "slow.example.", 1)
	b := zzFind3Frame(t, "fast.example.", 2)
	// segment 1: frame A and the first octet of the prefix of frame B
	if _, err := c.Write(append(append([]byte{}, a...), b[0])); err != nil {
		t.Fatal(err)
	}
	time.Sleep(1500 * time.Millisecond)
	// segment 2: the rest of frame B
	if _, err := c.Write(b[1:]); err != nil {
		t.Fatalf("C13 violated: the listener closed the connection in the middle of the client's stream while query A was being handled: %v", err)
	}

	c.SetReadDeadline(time.Now().Add(8 * time.Second))
	seen := make(map[uint16]bool)
	for i := 0; i < 2; i++ {
		var hdr [2]byte
		if _, err := io.ReadFull(c, hdr[:]); err != nil {
			t.Fatalf("C13 violated: 2 queries were sent, %d responses were emitted before the listener closed the connection (read: %v)", i, err)
		}
		body := make([]byte, binary.BigEndian.Uint16(hdr[:]))
		if _, err := io.ReadFull(c, body); err != nil {
			t.Fatal(err)
		}
		m := new(dns.Msg)
		if err := m.Unpack(body); err != nil {
			t.Fatal(err)
		}
		seen[m.Id] = true
	}
	if !seen[1] || !seen[2] {
		t.Errorf("responses seen: %v", seen)
	}
}
