// Place this file in: internal/dnsmsg/
// go test -mod=mod -vet=off -count=1 -run TestZzFind1 ./internal/dnsmsg/
//
// Property C02 (the wire codec preserves message content).
//
// A record type that the proxy does not interpret (here MG, RFC 1035 type 8;
// the same holds for MB, MR, MD, MF, MINFO and for RP, AFSDB, ... when the
// sender compressed them) may carry a compression pointer in its RDATA. The
// decoder keeps the two pointer octets verbatim. A pointer is an offset into
// the message it came from. The encoder lays the message out differently
// (owner names are expanded when compression is off, compressed when it is
// on), so the verbatim pointer leads somewhere else in the re-encoded
// message. An independent decoder (miekg/dns) then reads another name out of
// the RDATA, or fails.
package dnsmsg

import (
	"testing"

	"github.com/miekg/dns"
)

func zzFind1Reencode(t *testing.T, in []byte, compression bool) []byte {
	t.Helper()
	m := NewMsg()
	if err := m.Unpack(in); err != nil {
		t.Fatalf("the proxy does not accept the input (it is expected to): %v", err)
	}
	defer ReleaseMsg(m)
	buf := make([]byte, m.Len())
	n, err := m.Pack(buf, compression, 0)
	if err != nil {
		t.Fatalf("pack: %v", err)
	}
	return buf[:n]
}

func zzFind1Compare(t *testing.T, in, out []byte) {
	t.Helper()
	want := new(dns.Msg)
	if err := want.Unpack(in); err != nil {
		t.Fatalf("miekg/dns cannot decode the input: %v", err)
	}
	got := new(dns.Msg)
	if err := got.Unpack(out); err != nil {
		t.Errorf("C02 violated: miekg/dns cannot decode the re-encoded message: %v\n in: %x\nout: %x", err, in, out)
		return
	}
	if len(want.Answer) != len(got.Answer) {
		t.Fatalf("answer count: want %d got %d", len(want.Answer), len(got.Answer))
	}
	for i := range want.Answer {
		if want.Answer[i].String() != got.Answer[i].String() {
			t.Errorf("C02 violated: answer #%d changed\nwant: %s\n got: %s", i, want.Answer[i], got.Answer[i])
		}
	}
}

// Input: what a compressing server (BIND, unbound, miekg/dns based servers)
// sends. Owner names are pointers to the question, the second MG RDATA
// shares the suffix of the first one.
// Re-encoded without compression. (This is how the proxy packs a message
// for its cache.)
func TestZzFind1UncompressedOutput(t *testing.T) {
	q := new(dns.Msg)
	q.SetQuestion("staff.example.org.", dns.TypeMG)
	r := new(dns.Msg)
	r.SetReply(q)
	r.Compress = true
	hdr := dns.RR_Header{Name: "staff.example.org.", Rrtype: dns.TypeMG, Class: dns.ClassINET, Ttl: 300}
	r.Answer = []dns.RR{
		&dns.MG{Hdr: hdr, Mg: "alice.mail.example.net."},
		&dns.MG{Hdr: hdr, Mg: "bob.mail.example.net."},
	}
	in, err := r.Pack()
	if err != nil {
		t.Fatal(err)
	}
	// Make sure the input is what this test is about: the RDATA of the second
	// record ends in a compression pointer.
	if tail := in[len(in)-2]; tail&0xC0 != 0xC0 {
		t.Fatalf("test setup: second MG RDATA is not compressed: %x", in)
	}
	zzFind1Compare(t, in, zzFind1Reencode(t, in, false))
}

// Input: a server that compresses RDATA names but writes owner names in
// full (legal, RFC 1035 4.1.4: "programs are free to avoid using pointers").
// Re-encoded with compression. (This is how the proxy packs every response
// for a client.)
func TestZzFind1CompressedOutput(t *testing.T) {
	name := func(labels ...string) (b []byte) {
		for _, l := range labels {
			b = append(b, byte(len(l)))
			b = append(b, l...)
		}
		return b
	}
	var in []byte
	in = append(in, 0x12, 0x34, 0x81, 0x80, 0, 1, 0, 2, 0, 0, 0, 0) // header: response, 1 question, 2 answers
	owner := append(name("staff", "example", "org"), 0)
	in = append(in, owner...)
	in = append(in, 0, 8, 0, 1) // MG IN

	// answer 1: owner in full, RDATA "alice.mail.example.net." in full
	in = append(in, owner...)
	in = append(in, 0, 8, 0, 1, 0, 0, 1, 44)
	rd1 := append(name("alice", "mail", "example", "net"), 0)
	in = append(in, 0, byte(len(rd1)))
	rd1Off := len(in)
	in = append(in, rd1...)

	// answer 2: owner in full, RDATA "bob" + pointer to "mail.example.net." in answer 1
	in = append(in, owner...)
	in = append(in, 0, 8, 0, 1, 0, 0, 1, 44)
	ptr := rd1Off + 1 + len("alice")
	rd2 := append(name("bob"), 0xC0|byte(ptr>>8), byte(ptr))
	in = append(in, 0, byte(len(rd2)))
	in = append(in, rd2...)

	zzFind1Compare(t, in, zzFind1Reencode(t, in, true))
}
