// Place this file in: app/router/
// go test -mod=mod -vet=off -count=1 -run TestZzFind2 ./app/router/
//
// Property C13 (stream listeners frame correctly under any segmentation and
// pipelining): "each length-prefixed query is decoded exactly once, and each
// response is emitted as one contiguous frame ..." / "... answered ... rather
// than dropped".
//
// History: the client writes k complete, valid frames and then shuts down
// its sending direction (TCP FIN, or a TLS close_notify on DoT). It keeps
// reading. This is what "printf ... | nc -N", kdig, getdns and other
// one-shot clients do. The end of the client's byte stream makes the read
// loop return, the listener closes the connection at once and the responses
// of the k queries, which are still being handled, are never emitted.
// RFC 1035 4.2.2: "The server should assume that the client will initiate
// connection closing, and should delay closing its end of the connection
// until all outstanding client requests have been satisfied."
package router

import (
	"context"
	"crypto/tls"
	"encoding/binary"
	"errors"
	"fmt"
	"io"
	"net"
	"testing"
	"time"

	"github.com/IrineSistiana/mosproxy/internal/mlog"
	"github.com/miekg/dns"
	"github.com/rs/zerolog"
)

// zzFind2Upstream is a udp dns server that answers every query after delay.
func zzFind2Upstream(t *testing.T, delay time.Duration) string {
	pc, err := net.ListenPacket("udp", "127.0.0.1:0")
	if err != nil {
		t.Fatal(err)
	}
	s := &dns.Server{PacketConn: pc, Handler: dns.HandlerFunc(func(w dns.ResponseWriter, q *dns.Msg) {
		time.Sleep(delay)
		r := new(dns.Msg)
		r.SetReply(q)
		r.Answer = append(r.Answer, &dns.A{
			Hdr: dns.RR_Header{Name: q.Question[0].Name, Rrtype: dns.TypeA, Class: dns.ClassINET, Ttl: 60},
			A:   net.IPv4(192, 0, 2, 1),
		})
		w.WriteMsg(r)
	})}
	go s.ActivateAndServe()
	t.Cleanup(func() { s.Shutdown() })
	return pc.LocalAddr().String()
}

func zzFind2FreeAddr(t *testing.T) string {
	l, err := net.Listen("tcp", "127.0.0.1:0")
	if err != nil {
		t.Fatal(err)
	}
	defer l.Close()
	return l.Addr().String()
}

type zzFind2HalfCloser interface {
	net.Conn
	CloseWrite() error
}

func TestZzFind2HalfClose(t *testing.T) {
	mlog.SetLvl(zerolog.Disabled)
	up := zzFind2Upstream(t, 200*time.Millisecond)
	tcpAddr, gnetAddr, tlsAddr := zzFind2FreeAddr(t), zzFind2FreeAddr(t), zzFind2FreeAddr(t)
	cfg := &Config{
		Servers: []ServerConfig{
			{Protocol: "tcp", Listen: tcpAddr},
			{Protocol: "gnet", Listen: gnetAddr},
			{Protocol: "tls", Listen: tlsAddr, Tls: TlsConfig{DebugUseTempCert: true}},
		},
		Upstreams: []UpstreamConfig{{Tag: "u", Addr: "udp://" + up}},
		Rules:     []RuleConfig{{Forward: "u"}},
	}
	r, err := run(context.Background(), cfg)
	if err != nil {
		t.Fatal(err)
	}
	defer r.close(errors.New("test done"))
	time.Sleep(200 * time.Millisecond)

	const k = 3
	for _, tc := range []struct {
		name, addr string
		tls        bool
	}{{"tcp", tcpAddr, false}, {"gnet", gnetAddr, false}, {"tls", tlsAddr, true}} {
		t.Run(tc.name, func(t *testing.T) {
			var c zzFind2HalfCloser
			if tc.tls {
				tc, err := tls.Dial("tcp", tc.addr, &tls.Config{InsecureSkipVerify: true})
				if err != nil {
					t.Fatal(err)
				}
				c = tc
			} else {
				nc, err := net.Dial("tcp", tc.addr)
				if err != nil {
					t.Fatal(err)
				}
				c = nc.(*net.TCPConn)
			}
			defer c.Close()

			var stream []byte
			for i := 0; i < k; i++ {
				q := new(dns.Msg)
				q.SetQuestion(fmt.Sprintf("q%d.example.", i), dns.TypeA)
				q.Id = uint16(100 + i)
				b, err := q.Pack()
				if err != nil {
					t.Fatal(err)
				}
				stream = binary.BigEndian.AppendUint16(stream, uint16(len(b)))
				stream = append(stream, b...)
			}
			if _, err := c.Write(stream); err != nil {
				t.Fatal(err)
			}
			// End of the client's byte stream. The client still reads.
			if err := c.CloseWrite(); err != nil {
				t.Fatal(err)
			}

			c.SetReadDeadline(time.Now().Add(5 * time.Second))
			seen := make(map[uint16]bool)
			for i := 0; i < k; i++ {
				var hdr [2]byte
				if _, err := io.ReadFull(c, hdr[:]); err != nil {
					t.Fatalf("C13 violated: %d complete queries were sent before the end of the stream, only %d responses were emitted before the listener closed the connection (read: %v)", k, i, err)
				}
				body := make([]byte, binary.BigEndian.Uint16(hdr[:]))
				if _, err := io.ReadFull(c, body); err != nil {
					t.Fatalf("response #%d cut: %v", i, err)
				}
				m := new(dns.Msg)
				if err := m.Unpack(body); err != nil {
					t.Fatalf("response #%d: %v", i, err)
				}
				seen[m.Id] = true
			}
			for i := 0; i < k; i++ {
				if !seen[uint16(100+i)] {
					t.Errorf("no response for query id %d", 100+i)
				}
			}
		})
	}
}
