// Place this file in: app/router/
// go test -mod=mod -vet=off -count=1 -run TestZzFind1QuicIdleTimeoutDropsInflightQuery ./app/router/
//
// Property C03: a query received on the DoQ (quic) listener must get exactly
// one response within the request deadline while the client keeps its
// transport open, whatever the upstream does.
//
// Configuration: quic listener with idle_timeout: 2, upstream that answers
// after 3 s (well inside the 6 s request deadline). The client opens one
// stream, sends one query (with FIN, as RFC 9250 requires) and waits. It sends
// no keep-alives (it does not have to).
//
// On the unchanged code the QUIC transport of the listener (quic.Config.
// MaxIdleTimeout = idle_timeout) silently drops the connection 2 s after the
// last packet, although a query is still being handled on it. The response
// is never delivered; the client's read fails ~5 s later.
package router

import (
	"context"
	"crypto/tls"
	"encoding/binary"
	"io"
	"net"
	"strings"
	"testing"
	"time"

	"github.com/IrineSistiana/mosproxy/internal/mlog"
	"github.com/miekg/dns"
	"github.com/quic-go/quic-go"
	"github.com/rs/zerolog"
)

func zzFind1FreeUDPAddr(t *testing.T) string {
	pc, err := net.ListenPacket("udp", "127.0.0.1:0")
	if err != nil {
		t.Fatal(err)
	}
	defer pc.Close()
	return pc.LocalAddr().String()
}

func TestZzFind1QuicIdleTimeoutDropsInflightQuery(t *testing.T) {
	mlog.SetLvl(zerolog.Disabled)

	const upstreamDelay = 3 * time.Second

	// Slow (but answering) udp upstream.
	upc, err := net.ListenPacket("udp", "127.0.0.1:0")
	if err != nil {
		t.Fatal(err)
	}
	us := &dns.Server{PacketConn: upc, Handler: dns.HandlerFunc(func(w dns.ResponseWriter, q *dns.Msg) {
		time.Sleep(upstreamDelay)
		r := new(dns.Msg)
		r.SetReply(q)
		rr, _ := dns.NewRR(q.Question[0].Name + " 60 IN A 192.0.2.1")
		r.Answer = append(r.Answer, rr)
		w.WriteMsg(r)
	})}
	go us.ActivateAndServe()
	defer us.Shutdown()

	quicAddr := zzFind1FreeUDPAddr(t)
	cfg := &Config{
		Servers: []ServerConfig{{
			Protocol:    "quic",
			Listen:      quicAddr,
			IdleTimeout: 2, // seconds
			Tls:         TlsConfig{DebugUseTempCert: true},
		}},
		Upstreams: []UpstreamConfig{{Tag: "u", Addr: "udp://" + upc.LocalAddr().String()}},
		Rules:     []RuleConfig{{Forward: "u"}},
	}
	r, err := run(context.Background(), cfg)
	if err != nil {
		t.Fatal(err)
	}
	defer r.close(nil)
	time.Sleep(100 * time.Millisecond)

	q := new(dns.Msg)
	q.SetQuestion("zzfind1.example.", dns.TypeA)
	q.Id = 0 // RFC 9250 4.2.1
	qb, err := q.Pack()
	if err != nil {
		t.Fatal(err)
	}

	// The client keeps its transport open for 10 s. That is longer than the
	// 6 s request deadline.
	ctx, cancel := context.WithTimeout(context.Background(), 10*time.Second)
	defer cancel()
	start := time.Now()
	c, err := quic.DialAddr(ctx, quicAddr, &tls.Config{InsecureSkipVerify: true, NextProtos: []string{"doq"}}, &quic.Config{})
	if err != nil {
		t.Fatal(err)
	}
	defer c.CloseWithError(0, "")
	s, err := c.OpenStreamSync(ctx)
	if err != nil {
		t.Fatal(err)
	}
	frame := binary.BigEndian.AppendUint16(nil, uint16(len(qb)))
	frame = append(frame, qb...)
	if _, err := s.Write(frame); err != nil {
		t.Fatal(err)
	}
	s.Close() // FIN of the sending side only
	s.SetReadDeadline(time.Now().Add(10 * time.Second))

	var hdr [2]byte
	if _, err := io.ReadFull(s, hdr[:]); err != nil {
		t.Fatalf("C03 violated: no response on the DoQ stream after %v (upstream answered after %v, request deadline is 6 s, listener idle_timeout is 2 s): %v",
			time.Since(start).Round(time.Millisecond), upstreamDelay, err)
	}
	body := make([]byte, binary.BigEndian.Uint16(hdr[:]))
	if _, err := io.ReadFull(s, body); err != nil {
		t.Fatalf("C03 violated: response cut: %v", err)
	}
	resp := new(dns.Msg)
	if err := resp.Unpack(body); err != nil {
		t.Fatalf("invalid response: %v", err)
	}
	if !resp.Response || len(resp.Question) != 1 || !strings.EqualFold(resp.Question[0].Name, "zzfind1.example.") {
		t.Fatalf("unexpected response: %v", resp)
	}
	if resp.Rcode != dns.RcodeSuccess || len(resp.Answer) != 1 {
		t.Fatalf("upstream answered, but the response is: %v", resp)
	}
	if el := time.Since(start); el > 6500*time.Millisecond {
		t.Fatalf("response after %v", el)
	}
}
