// Place this file in: app/router/
// go test -mod=mod -vet=off -count=1 -run TestZzFind3CompressedRdataOfOpaqueTypesIsCorrupted ./app/router/
//
// Property C04: the answer in each response is the one the selected upstream
// produced for that response's own (name, class, type), fresh or from cache.
//
// Input: query "list.sub.example.org. IN MINFO". The upstream answers (valid
// RFC 1035 message, compressed the way BIND / Unbound / miekg-dns compress):
//
//	list.sub.example.org. CNAME real.sub.example.org.
//	real.sub.example.org. MINFO admin.lists.example.org. errors.lists.example.org.
//
// RFC 1035 allows compression pointers inside the RDATA of its own types that
// hold names (NS, MD, MF, CNAME, SOA, MB, MG, MR, PTR, MINFO, MX), and
// resolvers use it. The proxy decodes the names of NS/CNAME/SOA/PTR/MX/SRV
// records, but keeps the RDATA of MINFO (and MB, MG, MR, MD, MF) as opaque
// bytes (internal/dnsmsg/rr.go unpackResource, default: NewRaw) - including
// the compression pointers, which are offsets into the UPSTREAM's message.
// Then it encodes the message again with its own (different) compression, and
// into the cache without compression. All offsets move, the copied pointers now
// point to other bytes of the new message: the client gets a MINFO record with
// different / undecodable mailbox names, not the answer of the upstream.
package router

import (
	"context"
	"net"
	"strings"
	"testing"
	"time"

	"github.com/IrineSistiana/mosproxy/internal/mlog"
	"github.com/miekg/dns"
	"github.com/rs/zerolog"
)

func TestZzFind3CompressedRdataOfOpaqueTypesIsCorrupted(t *testing.T) {
	mlog.SetLvl(zerolog.Disabled)

	const (
		qname = "list.sub.example.org."
		rmail = "admin.lists.example.org."
		email = "errors.lists.example.org."
	)

	upc, err := net.ListenPacket("udp", "127.0.0.1:0")
	if err != nil {
		t.Fatal(err)
	}
	us := &dns.Server{PacketConn: upc, Handler: dns.HandlerFunc(func(w dns.ResponseWriter, q *dns.Msg) {
		r := new(dns.Msg)
		r.SetReply(q)
		r.Compress = true
		r.Answer = append(r.Answer,
			&dns.CNAME{Hdr: dns.RR_Header{Name: q.Question[0].Name, Rrtype: dns.TypeCNAME, Class: dns.ClassINET, Ttl: 300}, Target: "real.sub.example.org."},
			&dns.MINFO{Hdr: dns.RR_Header{Name: "real.sub.example.org.", Rrtype: dns.TypeMINFO, Class: dns.ClassINET, Ttl: 300}, Rmail: rmail, Email: email},
		)
		b, err := r.Pack()
		if err != nil {
			panic(err)
		}
		// Sanity: what the upstream sends is a valid message with this answer.
		chk := new(dns.Msg)
		if err := chk.Unpack(b); err != nil || len(chk.Answer) != 2 || chk.Answer[1].(*dns.MINFO).Email != email {
			panic("test bug: upstream message is not valid")
		}
		w.Write(b)
	})}
	go us.ActivateAndServe()
	defer us.Shutdown()

	l, err := net.ListenPacket("udp", "127.0.0.1:0")
	if err != nil {
		t.Fatal(err)
	}
	udpAddr := l.LocalAddr().String()
	l.Close()

	cfg := &Config{
		Servers:   []ServerConfig{{Protocol: "udp", Listen: udpAddr}},
		Upstreams: []UpstreamConfig{{Tag: "u", Addr: "udp://" + upc.LocalAddr().String()}},
		Rules:     []RuleConfig{{Forward: "u"}},
		Cache:     CacheConfig{MemSize: 1 << 20},
	}
	r, err := run(context.Background(), cfg)
	if err != nil {
		t.Fatal(err)
	}
	defer r.close(nil)
	time.Sleep(100 * time.Millisecond)

	for _, round := range []string{"fresh", "cached"} {
		q := new(dns.Msg)
		q.SetQuestion(qname, dns.TypeMINFO)
		qb, _ := q.Pack()
		c, err := net.Dial("udp", udpAddr)
		if err != nil {
			t.Fatal(err)
		}
		c.SetDeadline(time.Now().Add(3 * time.Second))
		c.Write(qb)
		buf := make([]byte, 65535)
		n, err := c.Read(buf)
		c.Close()
		if err != nil {
			t.Fatalf("%s: no response: %v", round, err)
		}
		resp := new(dns.Msg)
		if err := resp.Unpack(buf[:n]); err != nil {
			t.Errorf("C04 violated (%s): the upstream's valid answer reaches the client as a message that cannot be decoded: %v\nwire: %x", round, err, buf[:n])
			continue
		}
		var got *dns.MINFO
		for _, rr := range resp.Answer {
			if m, ok := rr.(*dns.MINFO); ok {
				got = m
			}
		}
		if got == nil {
			t.Errorf("C04 violated (%s): no MINFO record in the response: %v", round, resp)
			continue
		}
		if !strings.EqualFold(got.Rmail, rmail) || !strings.EqualFold(got.Email, email) {
			t.Errorf("C04 violated (%s): upstream produced MINFO %q %q, client received MINFO %q %q", round, rmail, email, got.Rmail, got.Email)
		}
	}
}
