// Place this file in: app/router/
// go test -mod=mod -vet=off -count=1 -run TestZzFind2StreamListenerAbandonsInflightQueries ./app/router/
//
// Property C03: every decodable query received on the TCP / DoT listener gets
// exactly one response on that transport while the client keeps it open.
//
// History (per subtest): the client sends ONE valid query on a fresh
// connection; the (udp) upstream answers after 300 ms. While the query is
// being handled
//
//	half-close: the client shuts down only its sending direction
//	            (shutdown(SHUT_WR) / TLS close_notify via CloseWrite) and
//	            keeps reading, the way `printf ... | nc -N host 53` or any
//	            one-shot client does. RFC 1035 4.2.2: the server "should
//	            delay closing its end of the connection until all outstanding
//	            client requests have been satisfied".
//	bad-frame:  the client sends a second frame that is not a dns message
//	            (3 bytes) and keeps the connection open.
//
// On the unchanged code the read loop of the connection returns on EOF / on
// the undecodable frame and the connection is closed at once
// (server_tcp.go: run -> handleConn(c); c.Close()), under the goroutine that is
// still handling the first query. Its response is never sent; the client reads
// EOF. The HTTP listeners of the same proxy do answer a half-closed client.
package router

import (
	"context"
	"crypto/tls"
	"encoding/binary"
	"io"
	"net"
	"strings"
	"testing"
	"time"

	"github.com/IrineSistiana/mosproxy/internal/mlog"
	"github.com/miekg/dns"
	"github.com/rs/zerolog"
)

func zzFind2FreeTCPAddr(t *testing.T) string {
	l, err := net.Listen("tcp", "127.0.0.1:0")
	if err != nil {
		t.Fatal(err)
	}
	defer l.Close()
	return l.Addr().String()
}

func zzFind2ReadFrame(c net.Conn) ([]byte, error) {
	var hdr [2]byte
	if _, err := io.ReadFull(c, hdr[:]); err != nil {
		return nil, err
	}
	b := make([]byte, binary.BigEndian.Uint16(hdr[:]))
	_, err := io.ReadFull(c, b)
	return b, err
}

func TestZzFind2StreamListenerAbandonsInflightQueries(t *testing.T) {
	mlog.SetLvl(zerolog.Disabled)

	upc, err := net.ListenPacket("udp", "127.0.0.1:0")
	if err != nil {
		t.Fatal(err)
	}
	us := &dns.Server{PacketConn: upc, Handler: dns.HandlerFunc(func(w dns.ResponseWriter, q *dns.Msg) {
		time.Sleep(300 * time.Millisecond)
		r := new(dns.Msg)
		r.SetReply(q)
		rr, _ := dns.NewRR(q.Question[0].Name + " 60 IN A 192.0.2.2")
		r.Answer = append(r.Answer, rr)
		w.WriteMsg(r)
	})}
	go us.ActivateAndServe()
	defer us.Shutdown()

	tcpAddr, tlsAddr := zzFind2FreeTCPAddr(t), zzFind2FreeTCPAddr(t)
	cfg := &Config{
		Servers: []ServerConfig{
			{Protocol: "tcp", Listen: tcpAddr},
			{Protocol: "tls", Listen: tlsAddr, Tls: TlsConfig{DebugUseTempCert: true}},
		},
		Upstreams: []UpstreamConfig{{Tag: "u", Addr: "udp://" + upc.LocalAddr().String()}},
		Rules:     []RuleConfig{{Forward: "u"}},
	}
	r, err := run(context.Background(), cfg)
	if err != nil {
		t.Fatal(err)
	}
	defer r.close(nil)
	time.Sleep(100 * time.Millisecond)

	type halfCloser interface {
		net.Conn
		CloseWrite() error
	}
	dial := func(t *testing.T, proto string) halfCloser {
		if proto == "tls" {
			c, err := tls.Dial("tcp", tlsAddr, &tls.Config{InsecureSkipVerify: true})
			if err != nil {
				t.Fatal(err)
			}
			return c
		}
		c, err := net.Dial("tcp", tcpAddr)
		if err != nil {
			t.Fatal(err)
		}
		return c.(*net.TCPConn)
	}

	for _, proto := range []string{"tcp", "tls"} {
		for _, mode := range []string{"half-close", "bad-frame"} {
			t.Run(proto+"/"+mode, func(t *testing.T) {
				name := "zzfind2-" + proto + "-" + mode + ".example."
				q := new(dns.Msg)
				q.SetQuestion(name, dns.TypeA)
				qb, _ := q.Pack()
				frame := binary.BigEndian.AppendUint16(nil, uint16(len(qb)))
				frame = append(frame, qb...)

				c := dial(t, proto)
				defer c.Close()
				if _, err := c.Write(frame); err != nil {
					t.Fatal(err)
				}
				time.Sleep(50 * time.Millisecond) // the query is with the upstream now
				switch mode {
				case "half-close":
					if err := c.CloseWrite(); err != nil {
						t.Fatal(err)
					}
				case "bad-frame":
					if _, err := c.Write([]byte{0, 3, 1, 2, 3}); err != nil {
						t.Fatal(err)
					}
				}

				// The client keeps the transport open (for reading) far beyond
				// the 6 s request deadline.
				c.SetReadDeadline(time.Now().Add(8 * time.Second))
				b, err := zzFind2ReadFrame(c)
				if err != nil {
					t.Fatalf("C03 violated: the valid query that was in flight got no response (%s listener, %s): %v", proto, mode, err)
				}
				resp := new(dns.Msg)
				if err := resp.Unpack(b); err != nil {
					t.Fatal(err)
				}
				if resp.Id != q.Id || !resp.Response || len(resp.Question) != 1 || !strings.EqualFold(resp.Question[0].Name, name) {
					t.Fatalf("unexpected response %v", resp)
				}
			})
		}
	}
}
