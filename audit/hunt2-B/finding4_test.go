// Place this file in: app/router/
// go test -mod=mod -vet=off -count=1 -run TestZzFind4DynamicUpdateGetsNoResponse ./app/router/
//
// Property C03: every query gets exactly one response; "unsupported queries
// (RD=0, opcode other than QUERY, question count other than 1) get NOTIMP".
//
// Input: standard RFC 2136 UPDATE messages (opcode 5, QR=0), as `nsupdate`
// sends them for
//
//	update delete host.example.org. A       (RFC 2136 2.5.2: class ANY, TTL 0, RDLENGTH 0)
//	prereq yxrrset host.example.org. A      (RFC 2136 2.4.1: class ANY, TTL 0, RDLENGTH 0)
//
// The messages are well formed (BIND, miekg/dns, ... decode them). The proxy's
// decoder picks the RDATA layout by TYPE alone and insists on RDLENGTH == 4 for
// every record of type A (16 for AAAA, a name for NS/CNAME/PTR, ...), whatever
// the class (internal/dnsmsg/rr.go: A.unpack -> errInvalidResourceBodyLen).
// So these messages count as garbage: the UDP listener drops them silently, the
// TCP listener closes the connection. Other UPDATE messages (add a record,
// delete a name) do get the NOTIMP the property promises.
package router

import (
	"context"
	"encoding/binary"
	"io"
	"net"
	"testing"
	"time"

	"github.com/IrineSistiana/mosproxy/internal/mlog"
	"github.com/miekg/dns"
	"github.com/rs/zerolog"
)

func TestZzFind4DynamicUpdateGetsNoResponse(t *testing.T) {
	mlog.SetLvl(zerolog.Disabled)

	upc, err := net.ListenPacket("udp", "127.0.0.1:0")
	if err != nil {
		t.Fatal(err)
	}
	us := &dns.Server{PacketConn: upc, Handler: dns.HandlerFunc(func(w dns.ResponseWriter, q *dns.Msg) {
		r := new(dns.Msg)
		r.SetReply(q)
		w.WriteMsg(r)
	})}
	go us.ActivateAndServe()
	defer us.Shutdown()

	pl, err := net.ListenPacket("udp", "127.0.0.1:0")
	if err != nil {
		t.Fatal(err)
	}
	udpAddr := pl.LocalAddr().String()
	pl.Close()
	tl, err := net.Listen("tcp", "127.0.0.1:0")
	if err != nil {
		t.Fatal(err)
	}
	tcpAddr := tl.Addr().String()
	tl.Close()

	cfg := &Config{
		Servers:   []ServerConfig{{Protocol: "udp", Listen: udpAddr}, {Protocol: "tcp", Listen: tcpAddr}},
		Upstreams: []UpstreamConfig{{Tag: "u", Addr: "udp://" + upc.LocalAddr().String()}},
		Rules:     []RuleConfig{{Forward: "u"}},
	}
	r, err := run(context.Background(), cfg)
	if err != nil {
		t.Fatal(err)
	}
	defer r.close(nil)
	time.Sleep(100 * time.Millisecond)

	rr, _ := dns.NewRR("host.example.org. 300 IN A 192.0.2.1")
	msgs := map[string]func(m *dns.Msg){
		"add-record (control)": func(m *dns.Msg) { m.Insert([]dns.RR{rr}) },
		"delete-rrset":         func(m *dns.Msg) { m.RemoveRRset([]dns.RR{rr}) },
		"prereq-rrset-exists":  func(m *dns.Msg) { m.RRsetUsed([]dns.RR{rr}); m.Insert([]dns.RR{rr}) },
	}

	check := func(t *testing.T, q *dns.Msg, b []byte) {
		resp := new(dns.Msg)
		if err := resp.Unpack(b); err != nil {
			t.Fatalf("invalid response: %v", err)
		}
		if resp.Id != q.Id || !resp.Response || resp.Opcode != dns.OpcodeUpdate || resp.Rcode != dns.RcodeNotImplemented {
			t.Fatalf("want NOTIMP with the query's id and opcode, got %v", resp)
		}
	}

	for name, build := range msgs {
		q := new(dns.Msg)
		q.SetUpdate("example.org.")
		build(q)
		qb, err := q.Pack()
		if err != nil {
			t.Fatal(err)
		}
		// The message is a decodable dns message.
		if err := new(dns.Msg).Unpack(qb); err != nil {
			t.Fatalf("test bug: %v", err)
		}

		t.Run("udp/"+name, func(t *testing.T) {
			c, err := net.Dial("udp", udpAddr)
			if err != nil {
				t.Fatal(err)
			}
			defer c.Close()
			c.Write(qb)
			c.SetReadDeadline(time.Now().Add(7 * time.Second)) // > request deadline
			buf := make([]byte, 65535)
			n, err := c.Read(buf)
			if err != nil {
				t.Fatalf("C03 violated: no response to a well formed UPDATE message within 7 s: %v", err)
			}
			check(t, q, buf[:n])
		})
		t.Run("tcp/"+name, func(t *testing.T) {
			c, err := net.Dial("tcp", tcpAddr)
			if err != nil {
				t.Fatal(err)
			}
			defer c.Close()
			frame := binary.BigEndian.AppendUint16(nil, uint16(len(qb)))
			c.Write(append(frame, qb...))
			c.SetReadDeadline(time.Now().Add(7 * time.Second))
			var hdr [2]byte
			if _, err := io.ReadFull(c, hdr[:]); err != nil {
				t.Fatalf("C03 violated: no response to a well formed UPDATE message, the proxy closed the connection: %v", err)
			}
			b := make([]byte, binary.BigEndian.Uint16(hdr[:]))
			if _, err := io.ReadFull(c, b); err != nil {
				t.Fatal(err)
			}
			check(t, q, b)
		})
	}
}
