// Finding 1 (property C12): REFUSED answers produced by the overload / rate limit paths
// never carry an OPT record, even when the (supported) query carried one.
//
// Place this file in:   app/router/
// Run with:             go test -run 'TestFinding1' -count=1 ./app/router/
//
// Observed output on the unchanged code:
//
//	--- FAIL: TestFinding1_UDPLimiterRefusedHasNoOPT (0.01s)
//	    finding1_test.go:NN: query 1 (rcode REFUSED): the query carried an OPT record but the response has none
//	    ... (same for queries 2..7)
//	--- FAIL: TestFinding1_TCPMaxConcurrentRefusedHasNoOPT (0.0Xs)
//	    finding1_test.go:NN: rcode REFUSED: the query carried an OPT record but the response has none
package router

import (
	"context"
	"encoding/binary"
	"io"
	"net"
	"testing"
	"time"

	"github.com/IrineSistiana/mosproxy/internal/dnsmsg"
	"github.com/miekg/dns"
)

type f1Upstream struct {
	block chan struct{} // if not nil, ExchangeContext waits for it
}

func (u *f1Upstream) ExchangeContext(ctx context.Context, m []byte) (*dnsmsg.Msg, error) {
	if u.block != nil {
		select {
		case <-u.block:
		case <-ctx.Done():
			return nil, ctx.Err()
		}
	}
	q := new(dns.Msg)
	if err := q.Unpack(m); err != nil {
		return nil, err
	}
	r := new(dns.Msg)
	r.SetReply(q)
	r.Answer = append(r.Answer, &dns.A{Hdr: dns.RR_Header{Name: q.Question[0].Name, Rrtype: dns.TypeA, Class: 1, Ttl: 60}, A: net.IPv4(1, 2, 3, 4)})
	w, err := r.Pack()
	if err != nil {
		return nil, err
	}
	return dnsmsg.UnpackMsg(w)
}
func (u *f1Upstream) Close() error { return nil }

func f1Router(t *testing.T, cfg *Config, up *f1Upstream) *router {
	cfg.Upstreams = []UpstreamConfig{{Tag: "u", Addr: "udp://127.0.0.1:1"}}
	cfg.Rules = []RuleConfig{{Forward: "u"}}
	r, err := run(context.Background(), cfg)
	if err != nil {
		t.Fatal(err)
	}
	t.Cleanup(func() { r.close(nil) })
	r.upstreams["u"].u.Close()
	r.upstreams["u"].u = up
	return r
}

func f1Query(id uint16) []byte {
	q := new(dns.Msg)
	q.SetQuestion("example.com.", dns.TypeA) // RD=1, opcode 0, one question: a supported query
	q.Id = id
	q.SetEdns0(1232, false)
	w, _ := q.Pack()
	return w
}

// limiter.client.limit=1 burst=4: the first query is answered (and uses up the budget), the
// following ones are refused by udpServer.handleMsg via mustHaveRespB(m, nil, REFUSED, ...).
func TestFinding1_UDPLimiterRefusedHasNoOPT(t *testing.T) {
	r := f1Router(t, &Config{Limiter: LimiterConfig{Client: ClientLimiterConfig{Limit: 1, Burst: 4}}}, &f1Upstream{})
	s, err := r.startUdpServer(&ServerConfig{Listen: "127.0.0.1:0"})
	if err != nil {
		t.Fatal(err)
	}
	defer s.Close()
	c, err := net.Dial("udp", s.cs[0].c.LocalAddr().String())
	if err != nil {
		t.Fatal(err)
	}
	defer c.Close()

	refused := 0
	for i := 0; i < 8; i++ {
		c.Write(f1Query(uint16(i)))
		c.SetReadDeadline(time.Now().Add(2 * time.Second))
		b := make([]byte, 4096)
		n, err := c.Read(b)
		if err != nil {
			t.Fatal(err)
		}
		resp := new(dns.Msg)
		if err := resp.Unpack(b[:n]); err != nil {
			t.Fatal(err)
		}
		if resp.Rcode == dns.RcodeRefused {
			refused++
		}
		if resp.IsEdns0() == nil {
			t.Errorf("query %d (rcode %s): the query carried an OPT record but the response has none", i, dns.RcodeToString[resp.Rcode])
		}
	}
	if refused == 0 {
		t.Fatal("the limiter never refused a query, the test is vacuous")
	}
}

// tcp.max_concurrent_queries=1 and a slow upstream: the second pipelined query on the same
// connection is refused by tcpServer.handleConn via mustHaveRespB(m, nil, REFUSED, true, 0).
func TestFinding1_TCPMaxConcurrentRefusedHasNoOPT(t *testing.T) {
	up := &f1Upstream{block: make(chan struct{})}
	r := f1Router(t, &Config{}, up)
	s, err := r.startTcpServer(&ServerConfig{Listen: "127.0.0.1:0", Tcp: TcpConfig{MaxConcurrentQueries: 1}}, false)
	if err != nil {
		t.Fatal(err)
	}
	defer s.Close()
	defer close(up.block)
	c, err := net.Dial("tcp", s.l.Addr().String())
	if err != nil {
		t.Fatal(err)
	}
	defer c.Close()
	for i := 0; i < 2; i++ {
		w := f1Query(uint16(100 + i))
		c.Write(append(binary.BigEndian.AppendUint16(nil, uint16(len(w))), w...))
	}
	c.SetReadDeadline(time.Now().Add(3 * time.Second))
	var l [2]byte
	if _, err := io.ReadFull(c, l[:]); err != nil {
		t.Fatal(err)
	}
	b := make([]byte, binary.BigEndian.Uint16(l[:]))
	if _, err := io.ReadFull(c, b); err != nil {
		t.Fatal(err)
	}
	resp := new(dns.Msg)
	if err := resp.Unpack(b); err != nil {
		t.Fatal(err)
	}
	if resp.Id != 101 || resp.Rcode != dns.RcodeRefused {
		t.Fatalf("expected the REFUSED answer to the second query first, got id %d rcode %s", resp.Id, dns.RcodeToString[resp.Rcode])
	}
	if resp.IsEdns0() == nil {
		t.Errorf("rcode %s: the query carried an OPT record but the response has none", dns.RcodeToString[resp.Rcode])
	}
}
