// Finding 4 (property C09, same root cause as finding 2): Msg.Pack only protects an OPT
// record that sits in the additional section (PopEDNS0 scans m.Additionals only). An OPT
// record at another position - here the last record of the answer section - is treated as
// an ordinary record and is omitted when the size limit is reached, although
// "the question and the OPT record are retained" is required for "OPT at any position".
// Keeping it was possible: question (29) + first TXT (224) + OPT (11) = 264 <= 512.
//
// Place this file in:   internal/dnsmsg/
// Run with:             go test -run 'TestFinding4' -count=1 ./internal/dnsmsg/
//
// Observed output on the unchanged code:
//
//	--- FAIL: TestFinding4_OPTOutsideAdditionalOmittedOnTruncation (0.00s)
//	    finding4_test.go:NN: limit 512: TC=true, 2 of 4 answer records kept, the OPT record was omitted
package dnsmsg

import (
	"testing"

	"github.com/miekg/dns"
)

func TestFinding4_OPTOutsideAdditionalOmittedOnTruncation(t *testing.T) {
	m := new(dns.Msg)
	m.SetQuestion("example.com.", dns.TypeTXT)
	m.Response = true
	for i := 0; i < 3; i++ {
		m.Answer = append(m.Answer, &dns.TXT{Hdr: dns.RR_Header{Name: "example.com.", Rrtype: dns.TypeTXT, Class: 1, Ttl: 1}, Txt: []string{string(make([]byte, 200+i*25))}})
	}
	m.Answer = append(m.Answer, &dns.OPT{Hdr: dns.RR_Header{Name: ".", Rrtype: dns.TypeOPT, Class: 1232}})
	w, err := m.Pack()
	if err != nil {
		t.Fatal(err)
	}
	pm, err := UnpackMsg(w)
	if err != nil {
		t.Fatalf("the decoder does not accept the message: %v", err)
	}
	b := make([]byte, pm.Len())
	n, err := pm.Pack(b, false, 512)
	if err != nil {
		t.Fatal(err)
	}
	out := new(dns.Msg)
	if err := out.Unpack(b[:n]); err != nil {
		t.Fatal(err)
	}
	found := false
	for _, rs := range [][]dns.RR{out.Answer, out.Ns, out.Extra} {
		for _, rr := range rs {
			if rr.Header().Rrtype == dns.TypeOPT {
				found = true
			}
		}
	}
	if !found {
		t.Errorf("limit 512: TC=%v, %d of %d answer records kept, the OPT record was omitted", out.Truncated, len(out.Answer), len(m.Answer))
	}
}
