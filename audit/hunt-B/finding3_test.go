// Finding 3 (property C02): the reserved header bit Z (bit 6 of the flags word, mask 0x0040)
// of an accepted message is dropped by the decoder, so the re-encoding - with or without
// compression - does not decode to "the same header fields". Every other header bit,
// the opcode and the rcode survive.
//
// Place this file in:   internal/dnsmsg/
// Run with:             go test -run 'TestFinding3' -count=1 ./internal/dnsmsg/
//
// Observed output on the unchanged code:
//
//	--- FAIL: TestFinding3_HeaderZBitLost (0.00s)
//	    finding3_test.go:NN: compression=false: flags word in=0x81c0 out=0x8180; independent decoder: Zero in=true out=false
//	    finding3_test.go:NN: compression=true: flags word in=0x81c0 out=0x8180; independent decoder: Zero in=true out=false
//	    finding3_test.go:NN: 32768 of 65536 flag words are not preserved (all of them differ exactly in bit 0x0040: true)
package dnsmsg

import (
	"encoding/binary"
	"testing"

	"github.com/miekg/dns"
)

func TestFinding3_HeaderZBitLost(t *testing.T) {
	// id=0x1234, flags = QR RD RA Z, one question "a. IN A"
	wire := []byte{0x12, 0x34, 0x81, 0xC0, 0, 1, 0, 0, 0, 0, 0, 0, 1, 'a', 0, 0, 1, 0, 1}
	m, err := UnpackMsg(wire)
	if err != nil {
		t.Fatalf("the decoder does not accept the message: %v", err)
	}
	for _, comp := range []bool{false, true} {
		b := make([]byte, m.Len())
		n, err := m.Pack(b, comp, 0)
		if err != nil {
			t.Fatal(err)
		}
		in, out := new(dns.Msg), new(dns.Msg)
		if err := in.Unpack(wire); err != nil {
			t.Fatal(err)
		}
		if err := out.Unpack(b[:n]); err != nil {
			t.Fatal(err)
		}
		fi, fo := binary.BigEndian.Uint16(wire[2:]), binary.BigEndian.Uint16(b[2:])
		if fi != fo || in.Zero != out.Zero {
			t.Errorf("compression=%v: flags word in=%#04x out=%#04x; independent decoder: Zero in=%v out=%v", comp, fi, fo, in.Zero, out.Zero)
		}
	}
	ReleaseMsg(m)

	// exhaustive over the flags word: which header bits are lost?
	bad, onlyZ := 0, true
	for f := 0; f < 65536; f++ {
		binary.BigEndian.PutUint16(wire[2:], uint16(f))
		m, err := UnpackMsg(wire)
		if err != nil {
			t.Fatal(err)
		}
		b := make([]byte, m.Len())
		if _, err := m.Pack(b, false, 0); err != nil {
			t.Fatal(err)
		}
		if g := binary.BigEndian.Uint16(b[2:]); g != uint16(f) {
			bad++
			if g^uint16(f) != 0x0040 {
				onlyZ = false
			}
		}
		ReleaseMsg(m)
	}
	if bad != 0 {
		t.Errorf("%d of 65536 flag words are not preserved (all of them differ exactly in bit 0x0040: %v)", bad, onlyZ)
	}
}
