// Finding 2 (property C12): an OPT record that the upstream places outside the additional
// section (here: in the authority section; the answer section behaves the same) is not
// recognised as "the OPT record". It is relayed to the client with all its options, stored
// in the cache and replayed from there, and an EDNS client gets TWO OPT records.
// The same blind spot exists on the query side: a query whose OPT record is not in the
// additional section is answered without OPT (second test).
//
// The upstream reply contains exactly one OPT record, i.e. it is inside the stated scope
// "at most one OPT per message".
//
// Place this file in:   app/router/
// Run with:             go test -run 'TestFinding2' -count=1 ./app/router/
//
// Observed output on the unchanged code:
//
//	--- FAIL: TestFinding2_UpstreamOPTOutsideAdditionalIsRelayed (0.01s)
//	    finding2_test.go:NN: round 0 (cached=false): query has no OPT but the response has 1 OPT record(s), options: [COOKIE 0102030405060708a1a2a3a4a5a6a7a8]
//	    finding2_test.go:NN: round 1 (cached=true): query has no OPT but the response has 1 OPT record(s), options: [COOKIE 0102030405060708a1a2a3a4a5a6a7a8]
//	    finding2_test.go:NN: EDNS query: response has 2 OPT records, want exactly 1
//	    finding2_test.go:NN: EDNS query: upstream EDNS option relayed to the client: 0102030405060708a1a2a3a4a5a6a7a8
//	--- FAIL: TestFinding2_QueryOPTOutsideAdditional (0.00s)
//	    finding2_test.go:NN: the query contained an OPT record but the response contains 0
package router

import (
	"context"
	"fmt"
	"net"
	"net/netip"
	"testing"

	"github.com/IrineSistiana/mosproxy/internal/dnsmsg"
	"github.com/miekg/dns"
)

type f2Upstream struct{ optInNs bool }

func (u *f2Upstream) ExchangeContext(ctx context.Context, m []byte) (*dnsmsg.Msg, error) {
	q := new(dns.Msg)
	if err := q.Unpack(m); err != nil {
		return nil, err
	}
	r := new(dns.Msg)
	r.SetReply(q)
	r.Answer = append(r.Answer, &dns.A{Hdr: dns.RR_Header{Name: q.Question[0].Name, Rrtype: dns.TypeA, Class: 1, Ttl: 60}, A: net.IPv4(1, 2, 3, 4)})
	if u.optInNs {
		o := &dns.OPT{Hdr: dns.RR_Header{Name: ".", Rrtype: dns.TypeOPT, Class: 4096}}
		o.Option = append(o.Option, &dns.EDNS0_COOKIE{Code: dns.EDNS0COOKIE, Cookie: "0102030405060708a1a2a3a4a5a6a7a8"})
		r.Ns = append(r.Ns, o) // the only OPT record of the message
	}
	w, err := r.Pack()
	if err != nil {
		return nil, err
	}
	return dnsmsg.UnpackMsg(w)
}
func (u *f2Upstream) Close() error { return nil }

func f2Router(t *testing.T, up *f2Upstream) *router {
	cfg := &Config{
		Cache:     CacheConfig{MemSize: 1 << 20},
		Upstreams: []UpstreamConfig{{Tag: "u", Addr: "udp://127.0.0.1:1"}},
		Rules:     []RuleConfig{{Forward: "u"}},
	}
	r, err := run(context.Background(), cfg)
	if err != nil {
		t.Fatal(err)
	}
	t.Cleanup(func() { r.close(nil) })
	r.upstreams["u"].u.Close()
	r.upstreams["u"].u = up
	return r
}

// exactly what a stream listener does: unpack, handleServerReq, mustHaveRespB
func f2Handle(t *testing.T, r *router, q *dns.Msg) (resp *dns.Msg, cached bool) {
	w, err := q.Pack()
	if err != nil {
		t.Fatal(err)
	}
	m, err := dnsmsg.UnpackMsg(w)
	if err != nil {
		t.Fatal(err)
	}
	defer dnsmsg.ReleaseMsg(m)
	rc := getRequestContext()
	rc.RemoteAddr = netip.MustParseAddrPort("192.0.2.1:5353")
	defer releaseRequestContext(rc)
	r.handleServerReq(m, rc)
	b := mustHaveRespB(m, rc.Response.Msg, dnsmsg.RCodeRefused, true, 0)
	resp = new(dns.Msg)
	if err := resp.Unpack(b[2:]); err != nil {
		t.Fatalf("response does not decode: %v", err)
	}
	return resp, rc.Response.Cached
}

func f2OPTs(m *dns.Msg) (opts []*dns.OPT) {
	for _, rs := range [][]dns.RR{m.Answer, m.Ns, m.Extra} {
		for _, rr := range rs {
			if o, ok := rr.(*dns.OPT); ok {
				opts = append(opts, o)
			}
		}
	}
	return
}

func TestFinding2_UpstreamOPTOutsideAdditionalIsRelayed(t *testing.T) {
	r := f2Router(t, &f2Upstream{optInNs: true})

	q := new(dns.Msg)
	q.SetQuestion("example.com.", dns.TypeA) // no OPT
	for round := 0; round < 2; round++ {     // round 1 is served from the cache
		resp, cached := f2Handle(t, r, q)
		if opts := f2OPTs(resp); len(opts) != 0 {
			var s []string
			for _, o := range opts {
				for _, e := range o.Option {
					s = append(s, fmt.Sprintf("COOKIE %s", e.String()))
				}
			}
			t.Errorf("round %d (cached=%v): query has no OPT but the response has %d OPT record(s), options: %v", round, cached, len(opts), s)
		}
	}

	q.SetEdns0(1232, false)
	resp, _ := f2Handle(t, r, q)
	opts := f2OPTs(resp)
	if len(opts) != 1 {
		t.Errorf("EDNS query: response has %d OPT records, want exactly 1", len(opts))
	}
	for _, o := range opts {
		for _, e := range o.Option {
			t.Errorf("EDNS query: upstream EDNS option relayed to the client: %s", e.String())
		}
	}
}

func TestFinding2_QueryOPTOutsideAdditional(t *testing.T) {
	r := f2Router(t, &f2Upstream{})
	q := new(dns.Msg)
	q.SetQuestion("example.org.", dns.TypeA)
	q.Ns = append(q.Ns, &dns.OPT{Hdr: dns.RR_Header{Name: ".", Rrtype: dns.TypeOPT, Class: 1232}}) // the only OPT of the query
	resp, _ := f2Handle(t, r, q)
	if resp.Rcode != dns.RcodeSuccess || len(resp.Answer) != 1 {
		t.Fatalf("query was not treated as a supported query: %v", resp)
	}
	if n := len(f2OPTs(resp)); n != 1 {
		t.Errorf("the query contained an OPT record but the response contains %d", n)
	}
}
