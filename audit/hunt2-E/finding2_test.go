// Place this file in: internal/domain_matcher/
// go test -mod=mod -vet=off -count=1 -run TestZzFind2 ./internal/domain_matcher/
//
// Property C11: "A domain set matches a lower-cased query name iff ... some
// 'regexp:' entry matches its dotted non-FQDN text form ...; entries are
// case-insensitive ..."
//
// 'full:' and 'domain:' entries are lower-cased when they are loaded. A
// 'regexp:' entry is compiled as it is written, but it is only ever applied to
// the lower-cased name: an entry with an upper-case letter can never match,
// although the same name written as a full:/domain: entry does.
package domainmatcher

import (
	"strings"
	"testing"

	"github.com/IrineSistiana/mosproxy/internal/dnsmsg"
)

func zzFind2Wire(t *testing.T, s string) []byte {
	var b dnsmsg.NameBuilder
	if err := b.ParseReadable([]byte(s)); err != nil {
		t.Fatal(err)
	}
	n := append([]byte(nil), b.Data()...)
	dnsmsg.ToLowerName(n) // the router lower-cases the query name before it asks the matcher
	return n
}

func TestZzFind2(t *testing.T) {
	q := zzFind2Wire(t, "www.example.com")

	// Same name, same spelling, three entry types. One domain set each.
	for _, entry := range []string{
		`full:WWW.Example.COM`,
		`domain:Example.COM`,
		`Example.COM`,
		`regexp:^WWW\.Example\.COM$`,
		`regexp:(^|\.)Example\.COM$`,
	} {
		m := NewMixMatcher()
		if err := LoadMixMatcherFromReader(m, strings.NewReader("# zzFind2\n\n"+entry+"\n")); err != nil {
			t.Fatalf("load %q: %v", entry, err)
		}
		if !m.Match(q) {
			t.Errorf("entry %q does not match the query name www.example.com: entries are not case-insensitive", entry)
		}
	}

	// The lower-case spelling of the same regexp entries matches. So the only
	// difference is the case of the entry.
	for _, entry := range []string{`regexp:^www\.example\.com$`, `regexp:(^|\.)example\.com$`} {
		m := NewMixMatcher()
		if err := m.Add([]byte(entry)); err != nil {
			t.Fatal(err)
		}
		if !m.Match(q) {
			t.Fatalf("control: %q must match", entry)
		}
	}
}
