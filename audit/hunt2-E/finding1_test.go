// Place this file in: app/router/
// go test -mod=mod -vet=off -count=1 -run TestZzFind1 ./app/router/
//
// Property C15: "With client limiting configured, over any time window the
// total cost admitted for one client subnet ... never exceeds
// burst + rate x window ... A ... query refused by the limiter is answered
// REFUSED (HTTP: status 503) and is not forwarded."
//
// An http (or fasthttp) listener that has http.client_addr_header configured
// does not limit a request that comes WITHOUT that header at all: the client
// address stays invalid and router.limiterAllowN() skips invalid addresses.
// One client (127.0.0.1) gets every one of its 40 queries answered while its
// budget is burst 10 + 1/s.
package router

import (
	"bytes"
	"context"
	"encoding/binary"
	"io"
	"net"
	"net/http"
	"testing"
	"time"
)

func zzFind1FreeAddr(t *testing.T) string {
	l, err := net.Listen("tcp", "127.0.0.1:0")
	if err != nil {
		t.Fatal(err)
	}
	defer l.Close()
	return l.Addr().String()
}

// A query for "example.com. IN A" with RD=1.
func zzFind1Query() []byte {
	b := make([]byte, 12)
	b[2] = 0x01 // RD
	b[5] = 1    // QDCOUNT
	b = append(b, 7, 'e', 'x', 'a', 'm', 'p', 'l', 'e', 3, 'c', 'o', 'm', 0)
	b = append(b, 0, 1, 0, 1)
	return b
}

func zzFind1Run(t *testing.T, protocol string) {
	const (
		burst   = 10
		rate    = 1 // per second
		queries = 40
	)
	addr := zzFind1FreeAddr(t)
	cfg := &Config{
		Servers: []ServerConfig{{
			Protocol: protocol,
			Listen:   addr,
			Http:     HttpConfig{ClientAddrHeader: "X-Real-IP"},
		}},
		// Every admitted query is answered NXDOMAIN (3) by the router itself.
		Rules:   []RuleConfig{{Reject: 3}},
		Limiter: LimiterConfig{Client: ClientLimiterConfig{Limit: rate, Burst: burst}},
	}
	r, err := run(context.Background(), cfg)
	if err != nil {
		t.Fatal(err)
	}
	defer r.close(nil)

	cl := &http.Client{Transport: &http.Transport{}, Timeout: time.Second * 5}
	defer cl.CloseIdleConnections()

	start := time.Now()
	answered, refused, other := 0, 0, 0
	for i := 0; i < queries; i++ {
		req, _ := http.NewRequest(http.MethodPost, "http://"+addr+"/dns-query", bytes.NewReader(zzFind1Query()))
		req.Header.Set("Content-Type", "application/dns-message")
		// No X-Real-IP header.
		resp, err := cl.Do(req)
		if err != nil {
			other++
			continue
		}
		body, _ := io.ReadAll(resp.Body)
		resp.Body.Close()
		switch {
		case resp.StatusCode == http.StatusOK && len(body) >= 12 && binary.BigEndian.Uint16(body[2:])&0xF == 3:
			answered++ // handled by the rules: admitted
		case resp.StatusCode == http.StatusServiceUnavailable:
			refused++
		default:
			other++ // e.g. a 400 for the missing header would be fine too
		}
	}
	window := time.Since(start).Seconds()

	// Every admitted http query costs costHTTPQuery. (The cost of the
	// connection(s) and of the lookup come on top, they are not even counted here.)
	admittedCost := float64(answered * costHTTPQuery)
	budget := float64(burst) + float64(rate)*window
	t.Logf("%s: answered=%d refused(503)=%d other=%d in %.3fs, admitted cost %.0f, budget %.2f",
		protocol, answered, refused, other, window, admittedCost, budget)
	if admittedCost > budget {
		t.Errorf("%s listener with client_addr_header: client 127.0.0.1 sent %d queries without the header, %d were answered: admitted cost %.0f > burst + rate x window = %.2f",
			protocol, queries, answered, admittedCost, budget)
	}
}

func TestZzFind1(t *testing.T) {
	t.Run("http", func(t *testing.T) { zzFind1Run(t, "http") })
	t.Run("fasthttp", func(t *testing.T) { zzFind1Run(t, "fasthttp") })
}
