// Place this file in: app/router/
// go test -mod=mod -vet=off -count=1 -run TestZzFind3RedisIgnoredAfterStart ./app/router/
//
// Property C07, converse clause ("with ample capacity, a repeat of the query
// while more than one second of the entry's lifetime remains is answered from
// the cache and not by a new upstream exchange on the request path"), and the
// caching policy of C08.
//
// Configuration: redis as the (only) cache backend, redis server up and
// reachable all the time. RedisCache.connected starts as false and only the
// ping loop sets it, one second after the start at the earliest. Until then
// AsyncStore and Get return at once: an answer with ttl 300 that is relayed in
// the first second is not cached at all and the repeat, 2 s later, goes to
// the upstream again. (The same window opens for at least 1 s after every
// single failed or slow ping.)
//
// It needs no redis server, a minimal one is included.
package router

import (
	"bufio"
	"context"
	"fmt"
	"io"
	"net"
	"strconv"
	"strings"
	"sync"
	"sync/atomic"
	"testing"
	"time"

	"github.com/IrineSistiana/mosproxy/internal/mlog"
	"github.com/miekg/dns"
	"github.com/rs/zerolog"
)

func TestZzFind3RedisIgnoredAfterStart(t *testing.T) {
	mlog.SetLvl(zerolog.Disabled)
	redis := zzFind3NewRedis(t)

	var upstreamQueries atomic.Int32
	pc, err := net.ListenPacket("udp", "127.0.0.1:0")
	if err != nil {
		t.Fatal(err)
	}
	us := &dns.Server{PacketConn: pc, Handler: dns.HandlerFunc(func(w dns.ResponseWriter, q *dns.Msg) {
		upstreamQueries.Add(1)
		r := new(dns.Msg)
		r.SetReply(q)
		r.Answer = append(r.Answer, &dns.A{Hdr: dns.RR_Header{Name: q.Question[0].Name, Rrtype: dns.TypeA, Class: dns.ClassINET, Ttl: 300}, A: net.IPv4(192, 0, 2, 1)})
		w.WriteMsg(r)
	})}
	go us.ActivateAndServe()
	defer us.Shutdown()

	r, err := run(context.Background(), &Config{
		Upstreams: []UpstreamConfig{{Tag: "u", Addr: "udp://" + pc.LocalAddr().String()}},
		Rules:     []RuleConfig{{Forward: "u"}},
		Cache:     CacheConfig{Redis: "redis://" + redis.addr()},
	})
	if err != nil {
		t.Fatal(err)
	}
	defer r.close(nil)
	s, err := r.startUdpServer(&ServerConfig{Listen: "127.0.0.1:0"})
	if err != nil {
		t.Fatal(err)
	}
	defer s.Close()
	addr := s.cs[0].c.LocalAddr().String()

	ask := func() *dns.Msg {
		m := new(dns.Msg)
		m.SetQuestion("www.example.", dns.TypeA)
		c := &dns.Client{Timeout: 3 * time.Second}
		resp, _, err := c.Exchange(m, addr)
		if err != nil {
			t.Fatal(err)
		}
		return resp
	}
	ask()
	time.Sleep(2 * time.Second)
	ask()
	if n := upstreamQueries.Load(); n != 1 {
		t.Fatalf("upstream queries: %d, redis keys: %d", n, redis.keys())
	}
}

// A minimal in-process redis (RESP3) that knows HELLO, CLIENT, CLUSTER, PING, GET and SET [NX] [PX ms].
type zzFind3Redis struct {
	l  net.Listener
	mu sync.Mutex
	kv map[string]zzFind3RedisVal
	// log of executed commands
	log []string
}

type zzFind3RedisVal struct {
	v   string
	exp time.Time
}

func zzFind3NewRedis(t *testing.T) *zzFind3Redis {
	l, err := net.Listen("tcp", "127.0.0.1:0")
	if err != nil {
		t.Fatal(err)
	}
	s := &zzFind3Redis{l: l, kv: map[string]zzFind3RedisVal{}}
	go func() {
		for {
			c, err := l.Accept()
			if err != nil {
				return
			}
			go s.serve(c)
		}
	}()
	t.Cleanup(func() { l.Close() })
	return s
}

func (s *zzFind3Redis) addr() string { return s.l.Addr().String() }

func (s *zzFind3Redis) has(k string) bool {
	s.mu.Lock()
	defer s.mu.Unlock()
	v, ok := s.kv[k]
	return ok && time.Now().Before(v.exp)
}

func (s *zzFind3Redis) keys() int {
	s.mu.Lock()
	defer s.mu.Unlock()
	n := 0
	for _, v := range s.kv {
		if time.Now().Before(v.exp) {
			n++
		}
	}
	return n
}

func zzFind3ReadCmd(br *bufio.Reader) ([]string, error) {
	line, err := br.ReadString('\n')
	if err != nil {
		return nil, err
	}
	line = strings.TrimRight(line, "\r\n")
	if len(line) == 0 || line[0] != '*' {
		return nil, fmt.Errorf("bad cmd %q", line)
	}
	n, _ := strconv.Atoi(line[1:])
	args := make([]string, 0, n)
	for i := 0; i < n; i++ {
		line, err := br.ReadString('\n')
		if err != nil {
			return nil, err
		}
		l, _ := strconv.Atoi(strings.TrimRight(line, "\r\n")[1:])
		b := make([]byte, l+2)
		if _, err := io.ReadFull(br, b); err != nil {
			return nil, err
		}
		args = append(args, string(b[:l]))
	}
	return args, nil
}

func (s *zzFind3Redis) serve(c net.Conn) {
	defer c.Close()
	br := bufio.NewReader(c)
	bw := bufio.NewWriter(c)
	for {
		args, err := zzFind3ReadCmd(br)
		if err != nil {
			return
		}
		switch strings.ToUpper(args[0]) {
		case "HELLO":
			bw.WriteString("%3\r\n$6\r\nserver\r\n$5\r\nredis\r\n$7\r\nversion\r\n$5\r\n6.2.0\r\n$5\r\nproto\r\n:3\r\n")
		case "CLUSTER":
			bw.WriteString("-ERR This instance has cluster support disabled\r\n")
		case "PING":
			bw.WriteString("+PONG\r\n")
		case "GET":
			s.mu.Lock()
			v, ok := s.kv[args[1]]
			if ok && !time.Now().Before(v.exp) {
				delete(s.kv, args[1])
				ok = false
			}
			s.mu.Unlock()
			if ok {
				fmt.Fprintf(bw, "$%d\r\n%s\r\n", len(v.v), v.v)
			} else {
				bw.WriteString("_\r\n")
			}
		case "SET":
			nx := false
			var px int64 = 1 << 40
			for i := 3; i < len(args); i++ {
				switch strings.ToUpper(args[i]) {
				case "NX":
					nx = true
				case "PX":
					px, _ = strconv.ParseInt(args[i+1], 10, 64)
					i++
				}
			}
			s.mu.Lock()
			old, ok := s.kv[args[1]]
			if ok && !time.Now().Before(old.exp) {
				ok = false
			}
			if nx && ok {
				s.mu.Unlock()
				bw.WriteString("_\r\n")
			} else {
				s.kv[args[1]] = zzFind3RedisVal{v: args[2], exp: time.Now().Add(time.Duration(px) * time.Millisecond)}
				s.mu.Unlock()
				bw.WriteString("+OK\r\n")
			}
		default:
			bw.WriteString("+OK\r\n")
		}
		if br.Buffered() == 0 {
			bw.Flush()
		}
	}
}
