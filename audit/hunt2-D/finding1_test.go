// Place this file in: app/router/
// go test -mod=mod -vet=off -count=1 -run TestZzFind1FasthttpGetLeaksRecycledBuffer ./app/router/
//
// Property C20 (recycled memory is exclusively owned: "... so no request can
// observe or corrupt another's data even transiently").
//
// The fasthttp listener decodes the "dns" parameter of a GET request into a
// pooled buffer whose size is computed from the *encoded* length and then
// parses the WHOLE buffer, not only the bytes the decoder has written. The
// base64 decoder of the standard library skips '\r' and '\n', and fasthttp
// percent-decodes the query string, so "dns=<16 chars>%0A%0A..." decodes to 12
// bytes (a bare dns header that claims QDCOUNT=1) while the buffer is as long
// as the attacker wants. The rest of the buffer is whatever the previous owner
// of the recycled buffer left there, e.g. the wire query of another client.
// The proxy parses the question out of that stale memory and echoes it back.
package router

import (
	"bufio"
	"bytes"
	"context"
	"encoding/base64"
	"fmt"
	"io"
	"net"
	"net/http"
	"strings"
	"testing"
	"time"

	"github.com/IrineSistiana/mosproxy/internal/mlog"
	"github.com/miekg/dns"
	"github.com/rs/zerolog"
)

type zzFind1Client struct {
	c  net.Conn
	br *bufio.Reader
}

func zzFind1Dial(t *testing.T, addr string) *zzFind1Client {
	t.Helper()
	c, err := net.DialTimeout("tcp", addr, time.Second*3)
	if err != nil {
		t.Fatal(err)
	}
	c.SetDeadline(time.Now().Add(time.Second * 30))
	return &zzFind1Client{c: c, br: bufio.NewReader(c)}
}

// One GET request on a keep-alive connection.
func (cl *zzFind1Client) get(t *testing.T, rawQuery string) (int, []byte) {
	t.Helper()
	fmt.Fprintf(cl.c, "GET /dns-query?%s HTTP/1.1\r\nHost: x\r\nAccept: application/dns-message\r\n\r\n", rawQuery)
	resp, err := http.ReadResponse(cl.br, nil)
	if err != nil {
		t.Fatal(err)
	}
	defer resp.Body.Close()
	body, _ := io.ReadAll(resp.Body)
	return resp.StatusCode, body
}

func TestZzFind1FasthttpGetLeaksRecycledBuffer(t *testing.T) {
	mlog.SetLvl(zerolog.Disabled)
	r, err := run(context.Background(), &Config{})
	if err != nil {
		t.Fatal(err)
	}
	defer r.close(nil)
	fs, err := r.startFastHttpServer(&ServerConfig{Listen: "127.0.0.1:0"})
	if err != nil {
		t.Fatal(err)
	}
	defer fs.Close()
	addr := fs.l.Addr().String()

	// The victim's query. Its wire size is a multiple of 3 so that the
	// attacker can ask for a buffer of exactly the same size.
	const secret = "victims-private-name-0123456789"
	victim := new(dns.Msg)
	victim.SetQuestion(secret+".internal.corp.example.", dns.TypeA)
	victim.Id = 0x7777
	for {
		w, _ := victim.Pack()
		if len(w)%3 == 0 {
			break
		}
		victim.Question[0].Name = "x" + victim.Question[0].Name
	}
	victimWire, err := victim.Pack()
	if err != nil {
		t.Fatal(err)
	}
	victimQuery := "dns=" + base64.RawURLEncoding.EncodeToString(victimWire)

	// The attacker's query: only a dns header (12 bytes -> 16 base64 chars),
	// RD=1, QDCOUNT=1, and no question at all. It is followed by percent-encoded
	// newlines that the base64 decoder skips. (One newline is put into the last
	// group of four characters. That keeps the decoder away from its fast path,
	// which writes a zero byte behind the decoded data.)
	hdr := []byte{0x12, 0x34, 0x01, 0x00, 0x00, 0x01, 0, 0, 0, 0, 0, 0}
	hdr64 := base64.RawURLEncoding.EncodeToString(hdr)
	k := len(victimWire)/3*4 - 17
	attackerQuery := "dns=" + hdr64[:14] + "%0A" + hdr64[14:] + strings.Repeat("%0A", k)

	// Victim and attacker are two different clients (two connections).
	victimConn := zzFind1Dial(t, addr)
	defer victimConn.c.Close()
	attackerConn := zzFind1Dial(t, addr)
	defer attackerConn.c.Close()
	for round := 0; round < 300; round++ {
		if code, _ := victimConn.get(t, victimQuery); code != 200 {
			t.Fatalf("victim request failed: %d", code)
		}
		code, body := attackerConn.get(t, attackerQuery)
		if code != 200 {
			continue // rejected (what a correct implementation always does)
		}
		m := new(dns.Msg)
		if err := m.Unpack(body); err != nil {
			continue
		}
		if len(m.Question) > 0 && bytes.Contains([]byte(m.Question[0].Name), []byte(secret)) {
			t.Fatalf("round %d: the attacker sent a 12 byte dns header without any question, "+
				"the proxy answered (id %#x, rcode %d) with the question %q of another client's request, "+
				"read from a recycled buffer", round, m.Id, m.Rcode, m.Question[0].Name)
		}
		if len(m.Question) > 0 {
			t.Logf("round %d: answer with a question the client never sent: %q", round, m.Question[0].Name)
		}
	}
}
