// Place this file in: app/router/
// go test -mod=mod -vet=off -count=1 -run TestZzFind2NegativeShadowsLivePositiveInRedis ./app/router/
//
// Property C08, last clause: "an error response never displaces a live
// positive entry".
//
// Configuration: memory cache + redis (the documented two tier set-up). A
// positive answer that the memory tier does not hold lives in redis only. (Here:
// its cost is above mem_size/10, which the memory backend rejects. An entry
// that the smaller memory tier evicts while the refresh is in flight is in the
// same situation.) A hit in the last
// quarter of its lifetime is served from redis and starts a refresh. The
// refresh gets NXDOMAIN. cacheCtl.Store stores it set-if-absent in BOTH tiers:
// redis keeps the positive entry (NX fails), but the memory tier has no entry
// of that key, so the NXDOMAIN goes in. The memory tier is looked up first:
// from now on (30 s) clients get NXDOMAIN although the positive entry is still
// live.
//
// The test runs ~12 s. It needs no redis server, a minimal one is included.
package router

import (
	"bufio"
	"context"
	"fmt"
	"io"
	"math/rand"
	"net"
	"strconv"
	"strings"
	"sync"
	"sync/atomic"
	"testing"
	"time"

	"github.com/IrineSistiana/mosproxy/internal/mlog"
	"github.com/miekg/dns"
	"github.com/rs/zerolog"
)

func TestZzFind2NegativeShadowsLivePositiveInRedis(t *testing.T) {
	mlog.SetLvl(zerolog.Disabled)
	redis := zzFind2NewRedis(t)

	// upstream: positive answer (ttl 12) first, NXDOMAIN afterwards.
	var upstreamQueries atomic.Int32
	txt := make([]byte, 750)
	rnd := rand.New(rand.NewSource(1))
	for i := range txt {
		txt[i] = byte('a' + rnd.Intn(26))
	}
	pc, err := net.ListenPacket("udp", "127.0.0.1:0")
	if err != nil {
		t.Fatal(err)
	}
	us := &dns.Server{PacketConn: pc, Handler: dns.HandlerFunc(func(w dns.ResponseWriter, q *dns.Msg) {
		n := upstreamQueries.Add(1)
		r := new(dns.Msg)
		r.SetReply(q)
		if n == 1 {
			name := q.Question[0].Name
			r.Answer = append(r.Answer,
				&dns.TXT{Hdr: dns.RR_Header{Name: name, Rrtype: dns.TypeTXT, Class: dns.ClassINET, Ttl: 12}, Txt: []string{string(txt[:250]), string(txt[250:500]), string(txt[500:])}})
		} else {
			r.Rcode = dns.RcodeNameError
		}
		w.WriteMsg(r)
	})}
	go us.ActivateAndServe()
	defer us.Shutdown()

	r, err := run(context.Background(), &Config{
		Upstreams: []UpstreamConfig{{Tag: "u", Addr: "udp://" + pc.LocalAddr().String()}},
		Rules:     []RuleConfig{{Forward: "u"}},
		Cache:     CacheConfig{MemSize: 4096, Redis: "redis://" + redis.addr()},
	})
	if err != nil {
		t.Fatal(err)
	}
	defer r.close(nil)
	s, err := r.startUdpServer(&ServerConfig{Listen: "127.0.0.1:0"})
	if err != nil {
		t.Fatal(err)
	}
	defer s.Close()
	addr := s.cs[0].c.LocalAddr().String()

	// Wait until the redis backend is connected (its first ping, 1 s after the start).
	time.Sleep(1500 * time.Millisecond)

	ask := func() *dns.Msg {
		m := new(dns.Msg)
		m.SetQuestion("big.example.", dns.TypeTXT)
		m.SetEdns0(1232, false)
		c := &dns.Client{Timeout: 3 * time.Second}
		resp, _, err := c.Exchange(m, addr)
		if err != nil {
			t.Fatal(err)
		}
		return resp
	}

	t0 := time.Now()
	r1 := ask()
	if r1.Rcode != dns.RcodeSuccess || len(r1.Answer) != 1 {
		t.Fatalf("unexpected first answer: %v", r1)
	}
	time.Sleep(300 * time.Millisecond)
	if redis.keys() != 1 {
		t.Fatalf("positive answer not in redis, keys=%d", redis.keys())
	}

	// A hit in the last quarter of the lifetime (9 s .. 12 s). It is served from
	// redis. The refresh gets NXDOMAIN.
	time.Sleep(time.Until(t0.Add(9500 * time.Millisecond)))
	r2 := ask()
	if r2.Rcode != dns.RcodeSuccess || len(r2.Answer) != 1 {
		t.Fatalf("hit in the refresh window not served from cache: rcode %d, %d answers (upstream queries %d)", r2.Rcode, len(r2.Answer), upstreamQueries.Load())
	}
	time.Sleep(400 * time.Millisecond)
	if n := upstreamQueries.Load(); n != 2 {
		t.Fatalf("expected one refresh, upstream queries %d", n)
	}

	// The positive entry lives for another ~2 s.
	r3 := ask()
	t.Logf("t=%.1fs third answer: rcode %d, %d answers, upstream queries %d, redis keys %d", time.Since(t0).Seconds(), r3.Rcode, len(r3.Answer), upstreamQueries.Load(), redis.keys())
	if r3.Rcode != dns.RcodeSuccess || len(r3.Answer) != 1 {
		t.Fatalf("%.1f s after the positive answer (ttl 12) was cached, and while it is still live in redis, "+
			"the proxy answers rcode %d with %d answers: the NXDOMAIN of the failed refresh displaced the live positive entry",
			time.Since(t0).Seconds(), r3.Rcode, len(r3.Answer))
	}
}

// A minimal in-process redis (RESP3) that knows HELLO, CLIENT, CLUSTER, PING, GET and SET [NX] [PX ms].
type zzFind2Redis struct {
	l  net.Listener
	mu sync.Mutex
	kv map[string]zzFind2RedisVal
	// log of executed commands
	log []string
}

type zzFind2RedisVal struct {
	v   string
	exp time.Time
}

func zzFind2NewRedis(t *testing.T) *zzFind2Redis {
	l, err := net.Listen("tcp", "127.0.0.1:0")
	if err != nil {
		t.Fatal(err)
	}
	s := &zzFind2Redis{l: l, kv: map[string]zzFind2RedisVal{}}
	go func() {
		for {
			c, err := l.Accept()
			if err != nil {
				return
			}
			go s.serve(c)
		}
	}()
	t.Cleanup(func() { l.Close() })
	return s
}

func (s *zzFind2Redis) addr() string { return s.l.Addr().String() }

func (s *zzFind2Redis) has(k string) bool {
	s.mu.Lock()
	defer s.mu.Unlock()
	v, ok := s.kv[k]
	return ok && time.Now().Before(v.exp)
}

func (s *zzFind2Redis) keys() int {
	s.mu.Lock()
	defer s.mu.Unlock()
	n := 0
	for _, v := range s.kv {
		if time.Now().Before(v.exp) {
			n++
		}
	}
	return n
}

func zzFind2ReadCmd(br *bufio.Reader) ([]string, error) {
	line, err := br.ReadString('\n')
	if err != nil {
		return nil, err
	}
	line = strings.TrimRight(line, "\r\n")
	if len(line) == 0 || line[0] != '*' {
		return nil, fmt.Errorf("bad cmd %q", line)
	}
	n, _ := strconv.Atoi(line[1:])
	args := make([]string, 0, n)
	for i := 0; i < n; i++ {
		line, err := br.ReadString('\n')
		if err != nil {
			return nil, err
		}
		l, _ := strconv.Atoi(strings.TrimRight(line, "\r\n")[1:])
		b := make([]byte, l+2)
		if _, err := io.ReadFull(br, b); err != nil {
			return nil, err
		}
		args = append(args, string(b[:l]))
	}
	return args, nil
}

func (s *zzFind2Redis) serve(c net.Conn) {
	defer c.Close()
	br := bufio.NewReader(c)
	bw := bufio.NewWriter(c)
	for {
		args, err := zzFind2ReadCmd(br)
		if err != nil {
			return
		}
		switch strings.ToUpper(args[0]) {
		case "HELLO":
			bw.WriteString("%3\r\n$6\r\nserver\r\n$5\r\nredis\r\n$7\r\nversion\r\n$5\r\n6.2.0\r\n$5\r\nproto\r\n:3\r\n")
		case "CLUSTER":
			bw.WriteString("-ERR This instance has cluster support disabled\r\n")
		case "PING":
			bw.WriteString("+PONG\r\n")
		case "GET":
			s.mu.Lock()
			v, ok := s.kv[args[1]]
			if ok && !time.Now().Before(v.exp) {
				delete(s.kv, args[1])
				ok = false
			}
			s.mu.Unlock()
			if ok {
				fmt.Fprintf(bw, "$%d\r\n%s\r\n", len(v.v), v.v)
			} else {
				bw.WriteString("_\r\n")
			}
		case "SET":
			nx := false
			var px int64 = 1 << 40
			for i := 3; i < len(args); i++ {
				switch strings.ToUpper(args[i]) {
				case "NX":
					nx = true
				case "PX":
					px, _ = strconv.ParseInt(args[i+1], 10, 64)
					i++
				}
			}
			s.mu.Lock()
			old, ok := s.kv[args[1]]
			if ok && !time.Now().Before(old.exp) {
				ok = false
			}
			if nx && ok {
				s.mu.Unlock()
				bw.WriteString("_\r\n")
			} else {
				s.kv[args[1]] = zzFind2RedisVal{v: args[2], exp: time.Now().Add(time.Duration(px) * time.Millisecond)}
				s.mu.Unlock()
				bw.WriteString("+OK\r\n")
			}
		default:
			bw.WriteString("+OK\r\n")
		}
		if br.Buffered() == 0 {
			bw.Flush()
		}
	}
}
