// Finding 2 (C16): a UDP reply that has the TC flag set but is cut in the middle of a
// record (section counts of the full reply, datagram cut at 512 bytes - what a plain
// RFC 1035 server or a middlebox produces) is silently dropped by the udp read loop.
// No TCP attempt is made and the exchange waits out its deadline.
//
// Place in:   internal/upstream/   (Go package "upstream")
// Run with:   go test ./internal/upstream/ -run TestFinding2 -count=1 -v
//
// Observed on the unchanged code:
//
//	=== RUN   TestFinding2_TruncatedReplyCutMidRecord
//	    finding2_test.go:108: udp reply had TC set, expected the outcome of the tcp exchange, got err: context deadline exceeded (tcp attempts: 0)
//	--- FAIL: TestFinding2_TruncatedReplyCutMidRecord (2.00s)
//	=== RUN   TestFinding2_Control_TruncatedReplyClean
//	--- PASS: TestFinding2_Control_TruncatedReplyClean (0.00s)
package upstream

import (
	"context"
	"net"
	"sync/atomic"
	"testing"
	"time"

	"github.com/miekg/dns"
)

// f2Servers starts a raw udp server and a tcp dns server on the same port.
// The tcp server answers with 40 TXT records.
func f2Servers(t *testing.T, udpReply func(q *dns.Msg) []byte, tcpHits *atomic.Int32) (addr string, stop func()) {
	t.Helper()
	var l net.Listener
	var pc net.PacketConn
	var err error
	for i := 0; i < 20; i++ {
		l, err = net.Listen("tcp", "127.0.0.1:0")
		if err != nil {
			t.Fatal(err)
		}
		pc, err = net.ListenPacket("udp", l.Addr().String())
		if err == nil {
			break
		}
		l.Close()
	}
	if err != nil {
		t.Fatal(err)
	}
	tcpServer := &dns.Server{Listener: l, MaxTCPQueries: -1, Handler: dns.HandlerFunc(func(w dns.ResponseWriter, q *dns.Msg) {
		tcpHits.Add(1)
		r := new(dns.Msg)
		r.SetReply(q)
		for i := 0; i < 40; i++ {
			rr, _ := dns.NewRR("example.com. 60 IN TXT \"0123456789012345678901234567890123456789-tcp\"")
			r.Answer = append(r.Answer, rr)
		}
		w.WriteMsg(r)
	})}
	go tcpServer.ActivateAndServe()
	go func() {
		buf := make([]byte, 65535)
		for {
			n, from, err := pc.ReadFrom(buf)
			if err != nil {
				return
			}
			q := new(dns.Msg)
			if err := q.Unpack(buf[:n]); err != nil {
				continue
			}
			pc.WriteTo(udpReply(q), from)
		}
	}()
	return l.Addr().String(), func() { tcpServer.Shutdown(); pc.Close() }
}

func TestFinding2_TruncatedReplyCutMidRecord(t *testing.T) {
	var tcpHits atomic.Int32
	addr, stop := f2Servers(t, func(q *dns.Msg) []byte {
		r := new(dns.Msg)
		r.SetReply(q)
		for i := 0; i < 40; i++ {
			rr, _ := dns.NewRR("example.com. 60 IN TXT \"0123456789012345678901234567890123456789-udp\"")
			r.Answer = append(r.Answer, rr)
		}
		r.Truncated = true // TC
		b, err := r.Pack()
		if err != nil {
			panic(err)
		}
		return b[:512] // ANCOUNT=40, cut in the middle of the 7th record
	}, &tcpHits)
	defer stop()

	u, err := NewUpstream("udp://"+addr, Opt{})
	if err != nil {
		t.Fatal(err)
	}
	defer u.Close()

	q := new(dns.Msg)
	q.SetQuestion("example.com.", dns.TypeTXT)
	qb, _ := q.Pack()
	ctx, cancel := context.WithTimeout(context.Background(), time.Second*2)
	defer cancel()
	r, err := u.ExchangeContext(ctx, qb)
	if err != nil {
		t.Fatalf("udp reply had TC set, expected the outcome of the tcp exchange, got err: %v (tcp attempts: %d)", err, tcpHits.Load())
	}
	if len(r.Answers) != 40 || r.Header.Truncated {
		t.Fatalf("not the tcp reply: %d answers, tc=%v", len(r.Answers), r.Header.Truncated)
	}
}

// Control: a TC reply with consistent section counts is retried over tcp.
func TestFinding2_Control_TruncatedReplyClean(t *testing.T) {
	var tcpHits atomic.Int32
	addr, stop := f2Servers(t, func(q *dns.Msg) []byte {
		r := new(dns.Msg)
		r.SetReply(q)
		r.Truncated = true
		b, _ := r.Pack()
		return b
	}, &tcpHits)
	defer stop()

	u, err := NewUpstream("udp://"+addr, Opt{})
	if err != nil {
		t.Fatal(err)
	}
	defer u.Close()

	q := new(dns.Msg)
	q.SetQuestion("example.com.", dns.TypeTXT)
	qb, _ := q.Pack()
	ctx, cancel := context.WithTimeout(context.Background(), time.Second*2)
	defer cancel()
	r, err := u.ExchangeContext(ctx, qb)
	if err != nil {
		t.Fatal(err)
	}
	if len(r.Answers) != 40 || r.Header.Truncated || tcpHits.Load() != 1 {
		t.Fatalf("not the tcp reply: %d answers, tc=%v, tcp attempts %d", len(r.Answers), r.Header.Truncated, tcpHits.Load())
	}
}
