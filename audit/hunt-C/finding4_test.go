// Finding 4 (C14, weaker fit than 1-3, see README): DoQ upstream. When the reused QUIC
// connection has no stream credit left (the server allows N concurrent streams and N
// exchanges are in flight), the next exchange fails within microseconds with
// "too many open streams": the transport uses the non-blocking OpenStream(), classifies
// the error as "not a connection error" and burns its 5 retries immediately on the same
// connection. The server is healthy, the exchange's deadline is 2s away, and the failure
// happened on a reused connection - it is neither retried on another connection nor does
// it succeed.
//
// Place in:   internal/upstream/   (Go package "upstream")
// Run with:   go test ./internal/upstream/ -run TestFinding4 -count=1 -v
//
// Observed on the unchanged code:
//
//	=== RUN   TestFinding4_DoQ_StreamLimit
//	    finding4_test.go:128: exchange on the reused connection failed after 43.229µs (deadline 2s, server healthy): failed to open stream, too many open streams
//	    finding4_test.go:128: exchange on the reused connection failed after 27.948µs (deadline 2s, server healthy): failed to open stream, too many open streams
//	    finding4_test.go:128: exchange on the reused connection failed after 24.918µs (deadline 2s, server healthy): failed to open stream, too many open streams
//	    finding4_test.go:128: exchange on the reused connection failed after 53.073µs (deadline 2s, server healthy): failed to open stream, too many open streams
//	--- FAIL: TestFinding4_DoQ_StreamLimit (0.21s)
package upstream

import (
	"context"
	"crypto/tls"
	"encoding/binary"
	"io"
	"net"
	"sync"
	"testing"
	"time"

	"github.com/IrineSistiana/mosproxy/internal/utils"
	"github.com/miekg/dns"
	"github.com/quic-go/quic-go"
)

func TestFinding4_DoQ_StreamLimit(t *testing.T) {
	cert, err := utils.GenerateCertificate("test")
	if err != nil {
		t.Fatal(err)
	}
	pc, err := net.ListenPacket("udp", "127.0.0.1:0")
	if err != nil {
		t.Fatal(err)
	}
	defer pc.Close()
	qt := &quic.Transport{Conn: pc}
	defer qt.Close()
	// A DoQ server that serves 2 streams at a time and needs 100ms for a reply.
	// (quic-go's default limit is 100, the effect is the same with 101 exchanges.)
	ln, err := qt.Listen(
		&tls.Config{Certificates: []tls.Certificate{cert}, NextProtos: []string{"doq"}},
		&quic.Config{MaxIncomingStreams: 2},
	)
	if err != nil {
		t.Fatal(err)
	}
	defer ln.Close()
	handle := func(s quic.Stream) {
		defer s.Close()
		var h [2]byte
		if _, err := io.ReadFull(s, h[:]); err != nil {
			return
		}
		b := make([]byte, binary.BigEndian.Uint16(h[:]))
		if _, err := io.ReadFull(s, b); err != nil {
			return
		}
		q := new(dns.Msg)
		if err := q.Unpack(b); err != nil {
			return
		}
		time.Sleep(100 * time.Millisecond)
		r := new(dns.Msg)
		r.SetReply(q)
		out, _ := r.Pack()
		f := make([]byte, 2+len(out))
		binary.BigEndian.PutUint16(f, uint16(len(out)))
		copy(f[2:], out)
		s.Write(f)
	}
	go func() {
		for {
			c, err := ln.Accept(context.Background())
			if err != nil {
				return
			}
			go func() {
				for {
					s, err := c.AcceptStream(context.Background())
					if err != nil {
						return
					}
					go handle(s)
				}
			}()
		}
	}()

	u, err := NewUpstream("quic://"+pc.LocalAddr().String(), Opt{TLSConfig: &tls.Config{InsecureSkipVerify: true}})
	if err != nil {
		t.Fatal(err)
	}
	defer u.Close()

	exchange := func() error {
		q := new(dns.Msg)
		q.SetQuestion("example.com.", dns.TypeA)
		q.Id = 0x1234
		b, _ := q.Pack()
		ctx, cancel := context.WithTimeout(context.Background(), 2*time.Second)
		defer cancel()
		_, err := u.ExchangeContext(ctx, b)
		return err
	}

	if err := exchange(); err != nil { // dials the connection
		t.Fatal(err)
	}
	var wg sync.WaitGroup
	for i := 0; i < 6; i++ { // 6 x 100ms / 2 streams = 300ms of work, deadline is 2s
		wg.Add(1)
		go func() {
			defer wg.Done()
			start := time.Now()
			if err := exchange(); err != nil {
				t.Errorf("exchange on the reused connection failed after %v (deadline 2s, server healthy): %v", time.Since(start), err)
			}
		}()
	}
	wg.Wait()
}
