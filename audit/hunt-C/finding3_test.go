// Finding 3 (C16): a UDP reply without TC that is larger than the hard coded 4096 bytes
// read buffer of the udp read loop is not "returned as received": the kernel cuts the
// datagram to 4096 bytes, the remainder does not parse, the reply is dropped and the
// exchange waits out its deadline. (The query advertised an EDNS0 payload size of 8192,
// so the reply is legitimate.)
//
// Place in:   internal/upstream/   (Go package "upstream")
// Run with:   go test ./internal/upstream/ -run TestFinding3 -count=1 -v
//
// Observed on the unchanged code:
//
//	=== RUN   TestFinding3_BigUDPReplyWithoutTC
//	    finding3_test.go:98: udp reply (5469 bytes) without TC must be returned as received, got err: context deadline exceeded (tcp attempts: 0)
//	--- FAIL: TestFinding3_BigUDPReplyWithoutTC (2.00s)
package upstream

import (
	"context"
	"net"
	"sync/atomic"
	"testing"
	"time"

	"github.com/miekg/dns"
)

func TestFinding3_BigUDPReplyWithoutTC(t *testing.T) {
	// udp and tcp on the same port. tcp only counts the attempts.
	var l net.Listener
	var pc net.PacketConn
	var err error
	for i := 0; i < 20; i++ {
		l, err = net.Listen("tcp", "127.0.0.1:0")
		if err != nil {
			t.Fatal(err)
		}
		pc, err = net.ListenPacket("udp", l.Addr().String())
		if err == nil {
			break
		}
		l.Close()
	}
	if err != nil {
		t.Fatal(err)
	}
	defer pc.Close()
	var tcpHits atomic.Int32
	tcpServer := &dns.Server{Listener: l, Handler: dns.HandlerFunc(func(w dns.ResponseWriter, q *dns.Msg) {
		tcpHits.Add(1)
		r := new(dns.Msg)
		r.SetReply(q)
		w.WriteMsg(r)
	})}
	go tcpServer.ActivateAndServe()
	defer tcpServer.Shutdown()

	var replySize atomic.Int32
	go func() {
		buf := make([]byte, 65535)
		for {
			n, from, err := pc.ReadFrom(buf)
			if err != nil {
				return
			}
			q := new(dns.Msg)
			if err := q.Unpack(buf[:n]); err != nil {
				continue
			}
			r := new(dns.Msg)
			r.SetReply(q)
			for i := 0; i < 80; i++ {
				rr, _ := dns.NewRR("example.com. 60 IN TXT \"0123456789012345678901234567890123456789-udp\"")
				r.Answer = append(r.Answer, rr)
			}
			b, err := r.Pack()
			if err != nil {
				panic(err)
			}
			replySize.Store(int32(len(b))) // 4096 < len(b) <= 8192, no TC
			pc.WriteTo(b, from)
		}
	}()

	u, err := NewUpstream("udp://"+l.Addr().String(), Opt{})
	if err != nil {
		t.Fatal(err)
	}
	defer u.Close()

	q := new(dns.Msg)
	q.SetQuestion("example.com.", dns.TypeTXT)
	q.SetEdns0(8192, false)
	qb, _ := q.Pack()
	ctx, cancel := context.WithTimeout(context.Background(), time.Second*2)
	defer cancel()
	r, err := u.ExchangeContext(ctx, qb)
	if err != nil {
		t.Fatalf("udp reply (%d bytes) without TC must be returned as received, got err: %v (tcp attempts: %d)", replySize.Load(), err, tcpHits.Load())
	}
	if len(r.Answers) != 80 || tcpHits.Load() != 0 {
		t.Fatalf("%d answers, tcp attempts %d", len(r.Answers), tcpHits.Load())
	}
}
