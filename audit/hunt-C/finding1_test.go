// Finding 1 (C14): the DoH upstream (HTTP/2 and HTTP/3) never retries an exchange that
// failed on a reused connection.
//
// Place in:   internal/upstream/   (Go package "upstream")
// Run with:   go test ./internal/upstream/ -run TestFinding1 -count=1 -v
//
// Observed on the unchanged code:
//
//	=== RUN   TestFinding1_DoH_NoRetryOnReusedConn/h3_server_closed_the_idle_connection
//	    finding1_test.go:143: exchange on a reused connection failed although the server is healthy: http request failed: Application error 0x100 (remote)
//	=== RUN   TestFinding1_DoH_NoRetryOnReusedConn/h1_server_closed_the_busy_reused_connection
//	=== RUN   TestFinding1_DoH_NoRetryOnReusedConn/h2_server_closed_the_busy_reused_connection
//	    finding1_test.go:179: exchange on a reused connection failed although the server is healthy: http request failed: unexpected EOF
//	    (5 times)
//	=== RUN   TestFinding1_DoH_NoRetryOnReusedConn/h2_server_closed_the_idle_connection_(race)
//	    finding1_test.go:205: round 13: exchange on a reused connection failed although the server is healthy: http request failed: unexpected EOF
//	--- FAIL: TestFinding1_DoH_NoRetryOnReusedConn (0.65s)
//	    --- FAIL: .../h3_server_closed_the_idle_connection (0.22s)
//	    --- PASS: .../h1_server_closed_the_busy_reused_connection (0.27s)
//	    --- FAIL: .../h2_server_closed_the_busy_reused_connection (0.14s)
//	    --- FAIL: .../h2_server_closed_the_idle_connection_(race) (0.03s)
//
// The h1 sub test is a control: net/http itself replays a GET that died on a reused
// HTTP/1.1 connection, so it passes. The h3 and "h2 busy" sub tests are deterministic. The
// last sub test is a race between the FIN/RST of the server and the next request (another
// run failed in round 1 with "write: connection reset by peer"); it fails within a few
// rounds on loopback.
// The same scenarios pass for tcp, tcp+pipeline, tls, tls+pipeline and quic upstreams,
// because those transports retry when the failed connection was not a new one.
package upstream

import (
	"context"
	"crypto/tls"
	"encoding/base64"
	"net"
	"net/http"
	"net/http/httptest"
	"sync"
	"testing"
	"time"

	"github.com/IrineSistiana/mosproxy/internal/utils"
	"github.com/miekg/dns"
	"github.com/quic-go/quic-go"
	"github.com/quic-go/quic-go/http3"
)

func f1DoHHandler(latency time.Duration) http.Handler {
	return http.HandlerFunc(func(w http.ResponseWriter, r *http.Request) {
		b, err := base64.RawURLEncoding.DecodeString(r.URL.Query().Get("dns"))
		if err != nil {
			w.WriteHeader(400)
			return
		}
		q := new(dns.Msg)
		if err := q.Unpack(b); err != nil {
			w.WriteHeader(400)
			return
		}
		time.Sleep(latency)
		resp := new(dns.Msg)
		resp.SetReply(q)
		out, _ := resp.Pack()
		w.Header().Set("Content-Type", "application/dns-message")
		w.Write(out)
	})
}

func f1Exchange(u Upstream, timeout time.Duration) error {
	q := new(dns.Msg)
	q.SetQuestion("example.com.", dns.TypeA)
	q.Id = 0x1234
	b, _ := q.Pack()
	ctx, cancel := context.WithTimeout(context.Background(), timeout)
	defer cancel()
	r, err := u.ExchangeContext(ctx, b)
	if err != nil {
		return err
	}
	if r.Header.ID != 0x1234 {
		panic("bad id")
	}
	return nil
}

func TestFinding1_DoH_NoRetryOnReusedConn(t *testing.T) {
	const failMsg = "exchange on a reused connection failed although the server is healthy: %v"

	t.Run("h3 server closed the idle connection", func(t *testing.T) {
		cert, err := utils.GenerateCertificate("test")
		if err != nil {
			t.Fatal(err)
		}
		pc, err := net.ListenPacket("udp", "127.0.0.1:0")
		if err != nil {
			t.Fatal(err)
		}
		defer pc.Close()
		srv := &http3.Server{
			Handler:   f1DoHHandler(0),
			TLSConfig: http3.ConfigureTLSConfig(&tls.Config{Certificates: []tls.Certificate{cert}}),
		}
		qt := &quic.Transport{Conn: pc}
		defer qt.Close()
		ln, err := qt.ListenEarly(srv.TLSConfig, &quic.Config{})
		if err != nil {
			t.Fatal(err)
		}
		var mu sync.Mutex
		var conns []quic.Connection
		go func() {
			for {
				c, err := ln.Accept(context.Background())
				if err != nil {
					return
				}
				mu.Lock()
				conns = append(conns, c)
				mu.Unlock()
				go srv.ServeQUICConn(c)
			}
		}()

		u, err := NewUpstream("h3://"+pc.LocalAddr().String()+"/dns-query", Opt{TLSConfig: &tls.Config{InsecureSkipVerify: true}})
		if err != nil {
			t.Fatal(err)
		}
		defer u.Close()

		if err := f1Exchange(u, 3*time.Second); err != nil {
			t.Fatalf("first exchange (new connection): %v", err)
		}
		// The server closes the connection while it is idle. (H3_NO_ERROR, e.g. a
		// graceful restart or a server side idle policy.) It keeps listening.
		mu.Lock()
		for _, c := range conns {
			c.CloseWithError(quic.ApplicationErrorCode(0x100), "")
		}
		mu.Unlock()
		time.Sleep(200 * time.Millisecond) // the CONNECTION_CLOSE has arrived long ago
		if err := f1Exchange(u, 3*time.Second); err != nil {
			t.Errorf(failMsg, err)
		}
		// (The server is indeed healthy.)
		if err := f1Exchange(u, 3*time.Second); err != nil {
			t.Errorf("third exchange: %v", err)
		}
	})

	for _, h2 := range []bool{false, true} {
		name := "h1"
		if h2 {
			name = "h2"
		}
		t.Run(name+" server closed the busy reused connection", func(t *testing.T) {
			srv := httptest.NewUnstartedServer(f1DoHHandler(100 * time.Millisecond))
			srv.EnableHTTP2 = h2
			srv.StartTLS()
			defer srv.Close()
			u, err := NewUpstream(srv.URL+"/dns-query", Opt{TLSConfig: &tls.Config{InsecureSkipVerify: true}})
			if err != nil {
				t.Fatal(err)
			}
			defer u.Close()
			if err := f1Exchange(u, 3*time.Second); err != nil { // opens the connection
				t.Fatal(err)
			}
			var wg sync.WaitGroup
			n := 5 // h2: all of them are multiplexed on the one reused connection
			if !h2 {
				n = 1 // h1: one request on the one idle connection
			}
			for i := 0; i < n; i++ {
				wg.Add(1)
				go func() {
					defer wg.Done()
					if err := f1Exchange(u, 3*time.Second); err != nil {
						t.Errorf(failMsg, err)
					}
				}()
			}
			time.Sleep(30 * time.Millisecond) // requests are in flight on the reused connection
			srv.CloseClientConnections()      // the connection dies. The server keeps accepting.
			wg.Wait()
		})
	}

	t.Run("h2 server closed the idle connection (race)", func(t *testing.T) {
		srv := httptest.NewUnstartedServer(f1DoHHandler(0))
		srv.EnableHTTP2 = true
		srv.StartTLS()
		defer srv.Close()
		u, err := NewUpstream(srv.URL+"/dns-query", Opt{TLSConfig: &tls.Config{InsecureSkipVerify: true}})
		if err != nil {
			t.Fatal(err)
		}
		defer u.Close()
		if err := f1Exchange(u, 3*time.Second); err != nil {
			t.Fatal(err)
		}
		for i := 1; i <= 300; i++ {
			srv.CloseClientConnections() // idle connection closed by the server
			if err := f1Exchange(u, 3*time.Second); err != nil {
				t.Fatalf("round %d: "+failMsg, i, err)
			}
		}
	})
}
