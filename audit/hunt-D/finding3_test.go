//go:build verif

// Finding 3 (C07, last sentence): once a cached negative answer (NXDOMAIN, REFUSED, ...) has
// expired and is looked up before otter's cleanup has removed it (always, if fewer than 64
// cache writes happened since it was stored), no negative answer for that question is ever
// cached again: every repeat goes upstream on the request path.
//
// Place in:  app/router/
// Run:       go test -tags verif ./app/router/ -run 'TestFinding3$' -count=1 -v
// Observed on the unchanged code:
//     finding3_test.go:..: t=0.0 rcode=3 cached=false exchanges=1
//     finding3_test.go:..: t=2.5 rcode=3 cached=false exchanges=2
//     finding3_test.go:..: t=3.5 rcode=3 cached=false exchanges=3
//     finding3_test.go:..: repeat 1s after an NXDOMAIN with a 30s lifetime was not answered from the cache
//     finding3_test.go:..: t=4.5 rcode=3 cached=false exchanges=4
//     ...
//     --- FAIL: TestFinding3 (5.52s)

package router

import (
	"context"
	"net/netip"
	"strings"
	"sync"
	"testing"
	"time"

	"github.com/IrineSistiana/mosproxy/internal/dnsmsg"
	"github.com/IrineSistiana/mosproxy/internal/mlog"
	"github.com/miekg/dns"
	"github.com/rs/zerolog"
)

func TestFinding3(t *testing.T) {
	u := &f3Upstream{count: map[string]int{}}
	u.reply = func(q *dns.Msg, name string, nth int) *dns.Msg {
		// NXDOMAIN with a SOA. The SOA's ttl is 1 in the first reply (lifetime 1s, to keep the
		// test short; with the usual SOA ttl the history is: t=0, t=31, t=32) and 600 afterwards
		// (lifetime 30s).
		r := new(dns.Msg)
		r.SetRcode(q, dns.RcodeNameError)
		r.RecursionAvailable = true
		ttl := uint32(600)
		if nth == 1 {
			ttl = 1
		}
		r.Ns = append(r.Ns, &dns.SOA{
			Hdr: dns.RR_Header{Name: "test.", Rrtype: dns.TypeSOA, Class: dns.ClassINET, Ttl: ttl},
			Ns:  "ns.test.", Mbox: "root.test.", Serial: 1, Refresh: 1, Retry: 1, Expire: 1, Minttl: 600,
		})
		return r
	}
	r := f3Router(t, u, CacheConfig{MemSize: 64 << 20})
	defer r.Close()

	rc, cached, _ := f3Query(t, r, "nx.test.")
	t.Logf("t=0.0 rcode=%d cached=%v exchanges=%d", rc, cached, u.n("nx.test."))
	time.Sleep(2500 * time.Millisecond)
	rc, cached, _ = f3Query(t, r, "nx.test.") // expired. Fetched again: NXDOMAIN, lifetime 30s
	t.Logf("t=2.5 rcode=%d cached=%v exchanges=%d", rc, cached, u.n("nx.test."))
	for i := 1; i <= 3; i++ {
		time.Sleep(time.Second)
		rc, cached, _ = f3Query(t, r, "nx.test.")
		t.Logf("t=%d.5 rcode=%d cached=%v exchanges=%d", 2+i, rc, cached, u.n("nx.test."))
		if !cached {
			t.Errorf("repeat %ds after an NXDOMAIN with a 30s lifetime was not answered from the cache", i)
		}
	}
}

// ---- helpers (self-contained; names carry the finding number so that several reproducers can coexist) ----

// f3Upstream is a fake upstream. It counts the exchanges per (lower-cased) name and builds the
// reply with the reply callback (nth = 1 for the first exchange of that name).
type f3Upstream struct {
	mu    sync.Mutex
	count map[string]int
	reply func(q *dns.Msg, name string, nth int) *dns.Msg
}

func (u *f3Upstream) ExchangeContext(ctx context.Context, m []byte) (*dnsmsg.Msg, error) {
	q := new(dns.Msg)
	if err := q.Unpack(m); err != nil {
		return nil, err
	}
	name := strings.ToLower(q.Question[0].Name)
	u.mu.Lock()
	u.count[name]++
	nth := u.count[name]
	u.mu.Unlock()
	b, err := u.reply(q, name, nth).Pack()
	if err != nil {
		return nil, err
	}
	return dnsmsg.UnpackMsg(b)
}

func (u *f3Upstream) Close() error { return nil }

func (u *f3Upstream) n(name string) int {
	u.mu.Lock()
	defer u.mu.Unlock()
	return u.count[name]
}

// f3Answer is a NOERROR reply with one A record 10.0.<nth>.1 with the given ttl.
func f3Answer(q *dns.Msg, nth int, ttl uint32) *dns.Msg {
	r := new(dns.Msg)
	r.SetReply(q)
	r.RecursionAvailable = true
	r.Answer = append(r.Answer, &dns.A{
		Hdr: dns.RR_Header{Name: q.Question[0].Name, Rrtype: dns.TypeA, Class: dns.ClassINET, Ttl: ttl},
		A:   []byte{10, 0, byte(nth), 1},
	})
	return r
}

func f3Router(t *testing.T, u *f3Upstream, cache CacheConfig) *VerifRouter {
	mlog.SetLvl(zerolog.ErrorLevel)
	cfg := &Config{
		Upstreams: []UpstreamConfig{{Tag: "u", Addr: "udp://127.0.0.1:1"}}, // never dialed, replaced below
		Rules:     []RuleConfig{{Forward: "u"}},
		Cache:     cache,
	}
	r, err := VerifRun(cfg)
	if err != nil {
		t.Fatal(err)
	}
	if !r.SetUpstream("u", u) {
		t.Fatal("no upstream")
	}
	return r
}

// f3Query sends an A query for name from client 192.0.2.1 through router.handleServerReq.
func f3Query(t *testing.T, r *VerifRouter, name string) (rcode int, cached bool, ans []dns.RR) {
	q := new(dns.Msg)
	q.SetQuestion(name, dns.TypeA)
	b, _ := q.Pack()
	m, err := dnsmsg.UnpackMsg(b)
	if err != nil {
		t.Fatal(err)
	}
	defer dnsmsg.ReleaseMsg(m)
	resp, _, cached, _ := r.Handle(m, netip.MustParseAddrPort("192.0.2.1:5353"), netip.AddrPort{})
	defer dnsmsg.ReleaseMsg(resp)
	buf := make([]byte, resp.Len())
	n, err := resp.Pack(buf, false, 0)
	if err != nil {
		t.Fatal(err)
	}
	out := new(dns.Msg)
	if err := out.Unpack(buf[:n]); err != nil {
		t.Fatal(err)
	}
	return out.Rcode, cached, out.Answer
}
