//go:build verif

// Finding 4 (C07 "this holds under concurrent stores, lookups and evictions" / C19 "the hit is
// answered immediately from cache"): a lookup that runs concurrently with a store that replaces
// the entry (what a successful prefetch does) can miss although the key is in the cache with
// 3600s of lifetime all the time; the query then goes upstream on the request path.
//
// Place in:  app/router/
// Run:       go test -tags verif ./app/router/ -run 'TestFinding4$' -count=1 -v
// Observed on the unchanged code (16 CPUs):
//     finding4_test.go:..: refresh stores=284155 queries=764349 not answered from cache=1207 upstream exchanges=1208
//     finding4_test.go:..: 1207 queries for an entry that was in the cache all the time (ttl 3600) went upstream on the request path
//     --- FAIL: TestFinding4 (3.06s)
// (The same can be seen without the router in internal/cache: Get of a key that another goroutine
// keeps re-Storing with a 1h ttl misses ~5000 times in 11M lookups.)

package router

import (
	"context"
	"net/netip"
	"strings"
	"sync"
	"sync/atomic"
	"testing"
	"time"

	"github.com/IrineSistiana/mosproxy/internal/dnsmsg"
	"github.com/IrineSistiana/mosproxy/internal/mlog"
	"github.com/miekg/dns"
	"github.com/rs/zerolog"
)

func TestFinding4(t *testing.T) {
	u := &f4Upstream{count: map[string]int{}}
	u.reply = func(q *dns.Msg, name string, nth int) *dns.Msg { return f4Answer(q, 1, 3600) }
	r := f4Router(t, u, CacheConfig{MemSize: 64 << 20})
	defer r.Close()

	f4Query(t, r, "a.test.") // fetched and stored, ttl 3600

	// What doPrefetch stores after a successful refresh.
	m := new(dns.Msg)
	m.SetQuestion("a.test.", dns.TypeA)
	b, _ := f4Answer(m, 1, 3600).Pack()
	resp, err := dnsmsg.UnpackMsg(b)
	if err != nil {
		t.Fatal(err)
	}
	client := netip.MustParseAddr("192.0.2.1")

	var stop atomic.Bool
	var notCached, total atomic.Int64
	var wg sync.WaitGroup
	for g := 0; g < 8; g++ {
		wg.Add(1)
		go func() {
			defer wg.Done()
			for !stop.Load() {
				_, cached, _ := f4Query(t, r, "a.test.")
				total.Add(1)
				if !cached {
					notCached.Add(1)
				}
			}
		}()
	}
	end := time.Now().Add(3 * time.Second)
	stores := 0
	for time.Now().Before(end) {
		r.CacheStore(resp.Questions[0], client, resp) // cacheCtl.Store, as called by doPrefetch
		stores++
	}
	stop.Store(true)
	wg.Wait()
	t.Logf("refresh stores=%d queries=%d not answered from cache=%d upstream exchanges=%d", stores, total.Load(), notCached.Load(), u.n("a.test."))
	if n := u.n("a.test."); n != 1 {
		t.Errorf("%d queries for an entry that was in the cache all the time (ttl 3600) went upstream on the request path", n-1)
	}
}

// ---- helpers (self-contained; names carry the finding number so that several reproducers can coexist) ----

// f4Upstream is a fake upstream. It counts the exchanges per (lower-cased) name and builds the
// reply with the reply callback (nth = 1 for the first exchange of that name).
type f4Upstream struct {
	mu    sync.Mutex
	count map[string]int
	reply func(q *dns.Msg, name string, nth int) *dns.Msg
}

func (u *f4Upstream) ExchangeContext(ctx context.Context, m []byte) (*dnsmsg.Msg, error) {
	q := new(dns.Msg)
	if err := q.Unpack(m); err != nil {
		return nil, err
	}
	name := strings.ToLower(q.Question[0].Name)
	u.mu.Lock()
	u.count[name]++
	nth := u.count[name]
	u.mu.Unlock()
	b, err := u.reply(q, name, nth).Pack()
	if err != nil {
		return nil, err
	}
	return dnsmsg.UnpackMsg(b)
}

func (u *f4Upstream) Close() error { return nil }

func (u *f4Upstream) n(name string) int {
	u.mu.Lock()
	defer u.mu.Unlock()
	return u.count[name]
}

// f4Answer is a NOERROR reply with one A record 10.0.<nth>.1 with the given ttl.
func f4Answer(q *dns.Msg, nth int, ttl uint32) *dns.Msg {
	r := new(dns.Msg)
	r.SetReply(q)
	r.RecursionAvailable = true
	r.Answer = append(r.Answer, &dns.A{
		Hdr: dns.RR_Header{Name: q.Question[0].Name, Rrtype: dns.TypeA, Class: dns.ClassINET, Ttl: ttl},
		A:   []byte{10, 0, byte(nth), 1},
	})
	return r
}

func f4Router(t *testing.T, u *f4Upstream, cache CacheConfig) *VerifRouter {
	mlog.SetLvl(zerolog.ErrorLevel)
	cfg := &Config{
		Upstreams: []UpstreamConfig{{Tag: "u", Addr: "udp://127.0.0.1:1"}}, // never dialed, replaced below
		Rules:     []RuleConfig{{Forward: "u"}},
		Cache:     cache,
	}
	r, err := VerifRun(cfg)
	if err != nil {
		t.Fatal(err)
	}
	if !r.SetUpstream("u", u) {
		t.Fatal("no upstream")
	}
	return r
}

// f4Query sends an A query for name from client 192.0.2.1 through router.handleServerReq.
func f4Query(t *testing.T, r *VerifRouter, name string) (rcode int, cached bool, ans []dns.RR) {
	q := new(dns.Msg)
	q.SetQuestion(name, dns.TypeA)
	b, _ := q.Pack()
	m, err := dnsmsg.UnpackMsg(b)
	if err != nil {
		t.Fatal(err)
	}
	defer dnsmsg.ReleaseMsg(m)
	resp, _, cached, _ := r.Handle(m, netip.MustParseAddrPort("192.0.2.1:5353"), netip.AddrPort{})
	defer dnsmsg.ReleaseMsg(resp)
	buf := make([]byte, resp.Len())
	n, err := resp.Pack(buf, false, 0)
	if err != nil {
		t.Fatal(err)
	}
	out := new(dns.Msg)
	if err := out.Unpack(buf[:n]); err != nil {
		t.Fatal(err)
	}
	return out.Rcode, cached, out.Answer
}
