//go:build verif

// Finding 7 (C08): with the redis backend an answer is served from the cache after its lifetime
// (+2s) has elapsed when the SET that stored it was executed late (redis stalled / slow network):
// the SET carries a relative ttl (PX) computed when it was queued, and cacheCtl.Get never compares
// the expire time stored in the value with the current time.
//
// Place in:  app/router/
// Run:       go test -tags verif ./app/router/ -run 'TestFinding7$' -count=1 -v
// (needs no redis server: the test contains a 100 line RESP3 server on 127.0.0.1)
// Observed on the unchanged code:
//     finding7_test.go:..: t=0 cached=false ans=[a.test.	3	IN	A	10.0.1.1]
//     finding7_test.go:..: t=5.0s redis executed SET px=2999
//     finding7_test.go:..: t=6.6s cached=true ans=[a.test.	1	IN	A	10.0.1.1]
//     finding7_test.go:..: answer fetched at t=0 with ttl 3 served from cache at t=6.6s
//     --- FAIL: TestFinding7 (8.72s)

package router

import (
	"bufio"
	"context"
	"fmt"
	"io"
	"net"
	"net/netip"
	"strconv"
	"strings"
	"sync"
	"testing"
	"time"

	"github.com/IrineSistiana/mosproxy/internal/dnsmsg"
	"github.com/IrineSistiana/mosproxy/internal/mlog"
	"github.com/miekg/dns"
	"github.com/rs/zerolog"
)

func TestFinding7(t *testing.T) {
	l, err := net.Listen("tcp", "127.0.0.1:0")
	if err != nil {
		t.Fatal(err)
	}
	defer l.Close()
	start := time.Now()
	fr := &f7Redis{l: l, data: map[string]f7RedisVal{}, stallFor: 5 * time.Second}
	fr.log = func(f string, a ...any) { t.Logf("t=%.1fs "+f, append([]any{time.Since(start).Seconds()}, a...)...) }
	go fr.serve()

	u := &f7Upstream{count: map[string]int{}}
	u.reply = func(q *dns.Msg, name string, nth int) *dns.Msg { return f7Answer(q, nth, 3) }
	r := f7Router(t, u, CacheConfig{Redis: "redis://" + l.Addr().String()}) // same with mem_size set as well
	defer r.Close()
	time.Sleep(1500 * time.Millisecond) // the redis backend is used after its first successful ping

	start = time.Now()
	_, cached, ans := f7Query(t, r, "a.test.") // fetched at t=0, ttl 3: lifetime ends at t=3
	t.Logf("t=0 cached=%v ans=%v", cached, ans)
	time.Sleep(time.Until(start.Add(6600 * time.Millisecond)))
	_, cached, ans = f7Query(t, r, "a.test.")
	t.Logf("t=%.1fs cached=%v ans=%v", time.Since(start).Seconds(), cached, ans)
	if cached && len(ans) == 1 && strings.Contains(ans[0].String(), "10.0.1.1") {
		t.Errorf("answer fetched at t=0 with ttl 3 served from cache at t=%.1fs", time.Since(start).Seconds())
	}
}

// f7Redis is a minimal RESP3 server (HELLO, CLIENT, CLUSTER, PING, GET, SET [NX] PX). The first SET
// it receives makes the whole server stall for stallFor before the command is executed, like a
// redis server that is blocked by a slow command of another client, or a network hiccup.
type f7Redis struct {
	l        net.Listener
	mu       sync.Mutex
	data     map[string]f7RedisVal
	stallFor time.Duration
	stalled  bool
	until    time.Time
	log      func(string, ...any)
}

type f7RedisVal struct {
	v   string
	exp time.Time
}

func (s *f7Redis) serve() {
	for {
		c, err := s.l.Accept()
		if err != nil {
			return
		}
		go s.handle(c)
	}
}

func (s *f7Redis) wait(isSet bool) {
	s.mu.Lock()
	if isSet && !s.stalled && s.stallFor > 0 {
		s.stalled = true
		s.until = time.Now().Add(s.stallFor)
	}
	d := time.Until(s.until)
	s.mu.Unlock()
	if d > 0 {
		time.Sleep(d)
	}
}

func (s *f7Redis) handle(c net.Conn) {
	defer c.Close()
	br := bufio.NewReader(c)
	for {
		line, err := br.ReadString('\n')
		if err != nil {
			return
		}
		n, _ := strconv.Atoi(strings.TrimSpace(line[1:]))
		args := make([]string, n)
		for i := range args {
			l, err := br.ReadString('\n')
			if err != nil {
				return
			}
			sz, _ := strconv.Atoi(strings.TrimSpace(l[1:]))
			b := make([]byte, sz+2)
			if _, err := io.ReadFull(br, b); err != nil {
				return
			}
			args[i] = string(b[:sz])
		}
		cmd := strings.ToUpper(args[0])
		s.wait(cmd == "SET")
		var out string
		switch cmd {
		case "HELLO":
			out = "%3\r\n$6\r\nserver\r\n$5\r\nredis\r\n$7\r\nversion\r\n$5\r\n7.0.0\r\n$5\r\nproto\r\n:3\r\n"
		case "CLIENT":
			out = "+OK\r\n"
		case "CLUSTER":
			out = "-ERR This instance has cluster support disabled\r\n"
		case "PING":
			out = "+PONG\r\n"
		case "GET":
			s.mu.Lock()
			v, ok := s.data[args[1]]
			if ok && !time.Now().Before(v.exp) {
				delete(s.data, args[1])
				ok = false
			}
			s.mu.Unlock()
			if ok {
				out = fmt.Sprintf("$%d\r\n%s\r\n", len(v.v), v.v)
			} else {
				out = "_\r\n"
			}
		case "SET":
			nx := false
			var px int64
			for i := 3; i < len(args); i++ {
				switch strings.ToUpper(args[i]) {
				case "NX":
					nx = true
				case "PX":
					px, _ = strconv.ParseInt(args[i+1], 10, 64)
					i++
				}
			}
			s.mu.Lock()
			old, exists := s.data[args[1]]
			exists = exists && time.Now().Before(old.exp)
			if nx && exists {
				out = "_\r\n"
			} else {
				s.data[args[1]] = f7RedisVal{v: args[2], exp: time.Now().Add(time.Duration(px) * time.Millisecond)}
				out = "+OK\r\n"
			}
			s.mu.Unlock()
			s.log("redis executed SET px=%d", px)
		default:
			out = "-ERR unknown command\r\n"
		}
		if _, err := c.Write([]byte(out)); err != nil {
			return
		}
	}
}

// ---- helpers (self-contained; names carry the finding number so that several reproducers can coexist) ----

// f7Upstream is a fake upstream. It counts the exchanges per (lower-cased) name and builds the
// reply with the reply callback (nth = 1 for the first exchange of that name).
type f7Upstream struct {
	mu    sync.Mutex
	count map[string]int
	reply func(q *dns.Msg, name string, nth int) *dns.Msg
}

func (u *f7Upstream) ExchangeContext(ctx context.Context, m []byte) (*dnsmsg.Msg, error) {
	q := new(dns.Msg)
	if err := q.Unpack(m); err != nil {
		return nil, err
	}
	name := strings.ToLower(q.Question[0].Name)
	u.mu.Lock()
	u.count[name]++
	nth := u.count[name]
	u.mu.Unlock()
	b, err := u.reply(q, name, nth).Pack()
	if err != nil {
		return nil, err
	}
	return dnsmsg.UnpackMsg(b)
}

func (u *f7Upstream) Close() error { return nil }

func (u *f7Upstream) n(name string) int {
	u.mu.Lock()
	defer u.mu.Unlock()
	return u.count[name]
}

// f7Answer is a NOERROR reply with one A record 10.0.<nth>.1 with the given ttl.
func f7Answer(q *dns.Msg, nth int, ttl uint32) *dns.Msg {
	r := new(dns.Msg)
	r.SetReply(q)
	r.RecursionAvailable = true
	r.Answer = append(r.Answer, &dns.A{
		Hdr: dns.RR_Header{Name: q.Question[0].Name, Rrtype: dns.TypeA, Class: dns.ClassINET, Ttl: ttl},
		A:   []byte{10, 0, byte(nth), 1},
	})
	return r
}

func f7Router(t *testing.T, u *f7Upstream, cache CacheConfig) *VerifRouter {
	mlog.SetLvl(zerolog.ErrorLevel)
	cfg := &Config{
		Upstreams: []UpstreamConfig{{Tag: "u", Addr: "udp://127.0.0.1:1"}}, // never dialed, replaced below
		Rules:     []RuleConfig{{Forward: "u"}},
		Cache:     cache,
	}
	r, err := VerifRun(cfg)
	if err != nil {
		t.Fatal(err)
	}
	if !r.SetUpstream("u", u) {
		t.Fatal("no upstream")
	}
	return r
}

// f7Query sends an A query for name from client 192.0.2.1 through router.handleServerReq.
func f7Query(t *testing.T, r *VerifRouter, name string) (rcode int, cached bool, ans []dns.RR) {
	q := new(dns.Msg)
	q.SetQuestion(name, dns.TypeA)
	b, _ := q.Pack()
	m, err := dnsmsg.UnpackMsg(b)
	if err != nil {
		t.Fatal(err)
	}
	defer dnsmsg.ReleaseMsg(m)
	resp, _, cached, _ := r.Handle(m, netip.MustParseAddrPort("192.0.2.1:5353"), netip.AddrPort{})
	defer dnsmsg.ReleaseMsg(resp)
	buf := make([]byte, resp.Len())
	n, err := resp.Pack(buf, false, 0)
	if err != nil {
		t.Fatal(err)
	}
	out := new(dns.Msg)
	if err := out.Unpack(buf[:n]); err != nil {
		t.Fatal(err)
	}
	return out.Rcode, cached, out.Answer
}
