//go:build verif

// Finding 1 (C07, also C19): entries with hours of lifetime left disappear from the memory cache
// (with ample capacity) because internal/cache/mem.go returns the same *cacheEntry to its
// sync.Pool more than once; two later Stores then share one entry object.
//
// Place in:  app/router/   (package router, needs the verif_export.go helpers)
// Run:       go test -tags verif ./app/router/ -run 'TestFinding1$' -count=1 -v
// Observed on the unchanged code (16 CPUs; the count varies from run to run, 40..350):
//     finding1_test.go:..: long5.test.: repeated 0.2s after a 3600s answer: cached=false, upstream exchanges=2
//     finding1_test.go:..: long35.test.: repeated 0.2s after a 3600s answer: cached=false, upstream exchanges=2
//     finding1_test.go:..: 43 repeated queries were not answered from the cache
//     --- FAIL: TestFinding1 (2.79s)
// (`go test -race` additionally reports a data race between MemoryCache.Store (mem.go:64) and the
// cost function (mem.go:28) running in otter's set() for another key: two goroutines own one entry.)

package router

import (
	"context"
	"fmt"
	"net/netip"
	"strings"
	"sync"
	"testing"
	"time"

	"github.com/IrineSistiana/mosproxy/internal/dnsmsg"
	"github.com/IrineSistiana/mosproxy/internal/mlog"
	"github.com/miekg/dns"
	"github.com/rs/zerolog"
)

func TestFinding1(t *testing.T) {
	u := &f1Upstream{count: map[string]int{}}
	u.reply = func(q *dns.Msg, name string, nth int) *dns.Msg {
		if strings.HasPrefix(name, "short") && nth == 1 {
			return f1Answer(q, nth, 1) // first answer of the short* names: ttl 1
		}
		return f1Answer(q, nth, 3600)
	}
	r := f1Router(t, u, CacheConfig{MemSize: 256 << 20}) // 256 MiB for < 1 MB of data
	defer r.Close()

	const nShort, nLong = 300, 3000
	for i := 0; i < nShort; i++ {
		f1Query(t, r, fmt.Sprintf("short%d.test.", i))
	}
	time.Sleep(2200 * time.Millisecond)
	// The 1s entries have expired. Each query finds its expired entry (otter queues a "delete"
	// task for it), fetches a new answer (ttl 3600) and stores it (otter queues an "update" task
	// that names the same old node). Both tasks call the deletion listener with the old entry.
	for i := 0; i < nShort; i++ {
		f1Query(t, r, fmt.Sprintf("short%d.test.", i))
	}
	time.Sleep(200 * time.Millisecond)

	var wg sync.WaitGroup
	for g := 0; g < 30; g++ {
		wg.Add(1)
		go func(g int) {
			defer wg.Done()
			for i := g; i < nLong; i += 30 {
				f1Query(t, r, fmt.Sprintf("long%d.test.", i))
			}
		}(g)
	}
	wg.Wait()
	time.Sleep(200 * time.Millisecond)

	// Everything in the cache now has a lifetime of 3600s and the cache is nearly empty.
	bad := 0
	check := func(name string, wantExchanges int) {
		_, cached, _ := f1Query(t, r, name)
		if !cached || u.n(name) != wantExchanges {
			bad++
			if bad <= 5 {
				t.Logf("%s: repeated 0.2s after a 3600s answer: cached=%v, upstream exchanges=%d", name, cached, u.n(name))
			}
		}
	}
	for i := 0; i < nLong; i++ {
		check(fmt.Sprintf("long%d.test.", i), 1)
	}
	for i := 0; i < nShort; i++ {
		check(fmt.Sprintf("short%d.test.", i), 2)
	}
	if bad > 0 {
		t.Fatalf("%d repeated queries were not answered from the cache", bad)
	}
}

// ---- helpers (self-contained; names carry the finding number so that several reproducers can coexist) ----

// f1Upstream is a fake upstream. It counts the exchanges per (lower-cased) name and builds the
// reply with the reply callback (nth = 1 for the first exchange of that name).
type f1Upstream struct {
	mu    sync.Mutex
	count map[string]int
	reply func(q *dns.Msg, name string, nth int) *dns.Msg
}

func (u *f1Upstream) ExchangeContext(ctx context.Context, m []byte) (*dnsmsg.Msg, error) {
	q := new(dns.Msg)
	if err := q.Unpack(m); err != nil {
		return nil, err
	}
	name := strings.ToLower(q.Question[0].Name)
	u.mu.Lock()
	u.count[name]++
	nth := u.count[name]
	u.mu.Unlock()
	b, err := u.reply(q, name, nth).Pack()
	if err != nil {
		return nil, err
	}
	return dnsmsg.UnpackMsg(b)
}

func (u *f1Upstream) Close() error { return nil }

func (u *f1Upstream) n(name string) int {
	u.mu.Lock()
	defer u.mu.Unlock()
	return u.count[name]
}

// f1Answer is a NOERROR reply with one A record 10.0.<nth>.1 with the given ttl.
func f1Answer(q *dns.Msg, nth int, ttl uint32) *dns.Msg {
	r := new(dns.Msg)
	r.SetReply(q)
	r.RecursionAvailable = true
	r.Answer = append(r.Answer, &dns.A{
		Hdr: dns.RR_Header{Name: q.Question[0].Name, Rrtype: dns.TypeA, Class: dns.ClassINET, Ttl: ttl},
		A:   []byte{10, 0, byte(nth), 1},
	})
	return r
}

func f1Router(t *testing.T, u *f1Upstream, cache CacheConfig) *VerifRouter {
	mlog.SetLvl(zerolog.ErrorLevel)
	cfg := &Config{
		Upstreams: []UpstreamConfig{{Tag: "u", Addr: "udp://127.0.0.1:1"}}, // never dialed, replaced below
		Rules:     []RuleConfig{{Forward: "u"}},
		Cache:     cache,
	}
	r, err := VerifRun(cfg)
	if err != nil {
		t.Fatal(err)
	}
	if !r.SetUpstream("u", u) {
		t.Fatal("no upstream")
	}
	return r
}

// f1Query sends an A query for name from client 192.0.2.1 through router.handleServerReq.
func f1Query(t *testing.T, r *VerifRouter, name string) (rcode int, cached bool, ans []dns.RR) {
	q := new(dns.Msg)
	q.SetQuestion(name, dns.TypeA)
	b, _ := q.Pack()
	m, err := dnsmsg.UnpackMsg(b)
	if err != nil {
		t.Fatal(err)
	}
	defer dnsmsg.ReleaseMsg(m)
	resp, _, cached, _ := r.Handle(m, netip.MustParseAddrPort("192.0.2.1:5353"), netip.AddrPort{})
	defer dnsmsg.ReleaseMsg(resp)
	buf := make([]byte, resp.Len())
	n, err := resp.Pack(buf, false, 0)
	if err != nil {
		t.Fatal(err)
	}
	out := new(dns.Msg)
	if err := out.Unpack(buf[:n]); err != nil {
		t.Fatal(err)
	}
	return out.Rcode, cached, out.Answer
}
