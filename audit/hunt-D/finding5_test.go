//go:build verif

// Finding 5 (C07, last sentence): cache.mem_size is truncated to 32 bits. With mem_size: 4294967296
// (4 GiB) the memory cache has capacity 0 and stores nothing; with 4 GiB + 4 KiB it has 4 KiB.
//
// Place in:  app/router/
// Run:       go test -tags verif ./app/router/ -run 'TestFinding5$' -count=1 -v
// Observed on the unchanged code:
//     finding5_test.go:..: mem_size=1073741824: cached=true upstream exchanges=1
//     finding5_test.go:..: mem_size=4294967296: cached=false upstream exchanges=2
//     finding5_test.go:..: mem_size=4294967296: repeat 50ms after a 3600s answer was not served from the cache
//     --- FAIL: TestFinding5 (0.18s)

package router

import (
	"context"
	"net/netip"
	"strings"
	"sync"
	"testing"
	"time"

	"github.com/IrineSistiana/mosproxy/internal/dnsmsg"
	"github.com/IrineSistiana/mosproxy/internal/mlog"
	"github.com/miekg/dns"
	"github.com/rs/zerolog"
)

func TestFinding5(t *testing.T) {
	for _, size := range []int{1 << 30, 1 << 32} {
		u := &f5Upstream{count: map[string]int{}}
		u.reply = func(q *dns.Msg, name string, nth int) *dns.Msg { return f5Answer(q, nth, 3600) }
		r := f5Router(t, u, CacheConfig{MemSize: size})
		f5Query(t, r, "a.test.")
		time.Sleep(50 * time.Millisecond)
		_, cached, _ := f5Query(t, r, "a.test.")
		t.Logf("mem_size=%d: cached=%v upstream exchanges=%d", size, cached, u.n("a.test."))
		if !cached || u.n("a.test.") != 1 {
			t.Errorf("mem_size=%d: repeat 50ms after a 3600s answer was not served from the cache", size)
		}
		r.Close()
	}
}

// ---- helpers (self-contained; names carry the finding number so that several reproducers can coexist) ----

// f5Upstream is a fake upstream. It counts the exchanges per (lower-cased) name and builds the
// reply with the reply callback (nth = 1 for the first exchange of that name).
type f5Upstream struct {
	mu    sync.Mutex
	count map[string]int
	reply func(q *dns.Msg, name string, nth int) *dns.Msg
}

func (u *f5Upstream) ExchangeContext(ctx context.Context, m []byte) (*dnsmsg.Msg, error) {
	q := new(dns.Msg)
	if err := q.Unpack(m); err != nil {
		return nil, err
	}
	name := strings.ToLower(q.Question[0].Name)
	u.mu.Lock()
	u.count[name]++
	nth := u.count[name]
	u.mu.Unlock()
	b, err := u.reply(q, name, nth).Pack()
	if err != nil {
		return nil, err
	}
	return dnsmsg.UnpackMsg(b)
}

func (u *f5Upstream) Close() error { return nil }

func (u *f5Upstream) n(name string) int {
	u.mu.Lock()
	defer u.mu.Unlock()
	return u.count[name]
}

// f5Answer is a NOERROR reply with one A record 10.0.<nth>.1 with the given ttl.
func f5Answer(q *dns.Msg, nth int, ttl uint32) *dns.Msg {
	r := new(dns.Msg)
	r.SetReply(q)
	r.RecursionAvailable = true
	r.Answer = append(r.Answer, &dns.A{
		Hdr: dns.RR_Header{Name: q.Question[0].Name, Rrtype: dns.TypeA, Class: dns.ClassINET, Ttl: ttl},
		A:   []byte{10, 0, byte(nth), 1},
	})
	return r
}

func f5Router(t *testing.T, u *f5Upstream, cache CacheConfig) *VerifRouter {
	mlog.SetLvl(zerolog.ErrorLevel)
	cfg := &Config{
		Upstreams: []UpstreamConfig{{Tag: "u", Addr: "udp://127.0.0.1:1"}}, // never dialed, replaced below
		Rules:     []RuleConfig{{Forward: "u"}},
		Cache:     cache,
	}
	r, err := VerifRun(cfg)
	if err != nil {
		t.Fatal(err)
	}
	if !r.SetUpstream("u", u) {
		t.Fatal("no upstream")
	}
	return r
}

// f5Query sends an A query for name from client 192.0.2.1 through router.handleServerReq.
func f5Query(t *testing.T, r *VerifRouter, name string) (rcode int, cached bool, ans []dns.RR) {
	q := new(dns.Msg)
	q.SetQuestion(name, dns.TypeA)
	b, _ := q.Pack()
	m, err := dnsmsg.UnpackMsg(b)
	if err != nil {
		t.Fatal(err)
	}
	defer dnsmsg.ReleaseMsg(m)
	resp, _, cached, _ := r.Handle(m, netip.MustParseAddrPort("192.0.2.1:5353"), netip.AddrPort{})
	defer dnsmsg.ReleaseMsg(resp)
	buf := make([]byte, resp.Len())
	n, err := resp.Pack(buf, false, 0)
	if err != nil {
		t.Fatal(err)
	}
	out := new(dns.Msg)
	if err := out.Unpack(buf[:n]); err != nil {
		t.Fatal(err)
	}
	return out.Rcode, cached, out.Answer
}
