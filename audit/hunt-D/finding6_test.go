//go:build verif

// Finding 6 (C07 last sentence, for the TTL vector 2^32-1 and a configured maximum >= 2^32-1-uptime):
// the lifetime in seconds is added to otter's 32 bit clock and wraps, so the entry is already
// expired when it is stored.
//
// Place in:  app/router/
// Run:       go test -tags verif ./app/router/ -run 'TestFinding6$' -count=1 -v
// Observed on the unchanged code:
//     finding6_test.go:..: cached=false upstream exchanges=2 ans=[a.test.	4294967295	IN	A	10.0.2.1]
//     finding6_test.go:..: repeat 50ms after an answer with ttl 4294967295 (maximum_ttl 4294967295) was not served from the cache
//     --- FAIL: TestFinding6 (2.57s)

package router

import (
	"context"
	"net/netip"
	"strings"
	"sync"
	"testing"
	"time"

	"github.com/IrineSistiana/mosproxy/internal/dnsmsg"
	"github.com/IrineSistiana/mosproxy/internal/mlog"
	"github.com/miekg/dns"
	"github.com/rs/zerolog"
)

func TestFinding6(t *testing.T) {
	u := &f6Upstream{count: map[string]int{}}
	u.reply = func(q *dns.Msg, name string, nth int) *dns.Msg { return f6Answer(q, nth, 1<<32-1) }
	r := f6Router(t, u, CacheConfig{MemSize: 64 << 20, MaximumTTL: 1<<32 - 1})
	defer r.Close()
	time.Sleep(2500 * time.Millisecond) // otter's clock (seconds since the cache was created) must be >= 1
	f6Query(t, r, "a.test.")
	time.Sleep(50 * time.Millisecond)
	_, cached, ans := f6Query(t, r, "a.test.")
	t.Logf("cached=%v upstream exchanges=%d ans=%v", cached, u.n("a.test."), ans)
	if !cached {
		t.Errorf("repeat 50ms after an answer with ttl 4294967295 (maximum_ttl 4294967295) was not served from the cache")
	}
}

// ---- helpers (self-contained; names carry the finding number so that several reproducers can coexist) ----

// f6Upstream is a fake upstream. It counts the exchanges per (lower-cased) name and builds the
// reply with the reply callback (nth = 1 for the first exchange of that name).
type f6Upstream struct {
	mu    sync.Mutex
	count map[string]int
	reply func(q *dns.Msg, name string, nth int) *dns.Msg
}

func (u *f6Upstream) ExchangeContext(ctx context.Context, m []byte) (*dnsmsg.Msg, error) {
	q := new(dns.Msg)
	if err := q.Unpack(m); err != nil {
		return nil, err
	}
	name := strings.ToLower(q.Question[0].Name)
	u.mu.Lock()
	u.count[name]++
	nth := u.count[name]
	u.mu.Unlock()
	b, err := u.reply(q, name, nth).Pack()
	if err != nil {
		return nil, err
	}
	return dnsmsg.UnpackMsg(b)
}

func (u *f6Upstream) Close() error { return nil }

func (u *f6Upstream) n(name string) int {
	u.mu.Lock()
	defer u.mu.Unlock()
	return u.count[name]
}

// f6Answer is a NOERROR reply with one A record 10.0.<nth>.1 with the given ttl.
func f6Answer(q *dns.Msg, nth int, ttl uint32) *dns.Msg {
	r := new(dns.Msg)
	r.SetReply(q)
	r.RecursionAvailable = true
	r.Answer = append(r.Answer, &dns.A{
		Hdr: dns.RR_Header{Name: q.Question[0].Name, Rrtype: dns.TypeA, Class: dns.ClassINET, Ttl: ttl},
		A:   []byte{10, 0, byte(nth), 1},
	})
	return r
}

func f6Router(t *testing.T, u *f6Upstream, cache CacheConfig) *VerifRouter {
	mlog.SetLvl(zerolog.ErrorLevel)
	cfg := &Config{
		Upstreams: []UpstreamConfig{{Tag: "u", Addr: "udp://127.0.0.1:1"}}, // never dialed, replaced below
		Rules:     []RuleConfig{{Forward: "u"}},
		Cache:     cache,
	}
	r, err := VerifRun(cfg)
	if err != nil {
		t.Fatal(err)
	}
	if !r.SetUpstream("u", u) {
		t.Fatal("no upstream")
	}
	return r
}

// f6Query sends an A query for name from client 192.0.2.1 through router.handleServerReq.
func f6Query(t *testing.T, r *VerifRouter, name string) (rcode int, cached bool, ans []dns.RR) {
	q := new(dns.Msg)
	q.SetQuestion(name, dns.TypeA)
	b, _ := q.Pack()
	m, err := dnsmsg.UnpackMsg(b)
	if err != nil {
		t.Fatal(err)
	}
	defer dnsmsg.ReleaseMsg(m)
	resp, _, cached, _ := r.Handle(m, netip.MustParseAddrPort("192.0.2.1:5353"), netip.AddrPort{})
	defer dnsmsg.ReleaseMsg(resp)
	buf := make([]byte, resp.Len())
	n, err := resp.Pack(buf, false, 0)
	if err != nil {
		t.Fatal(err)
	}
	out := new(dns.Msg)
	if err := out.Unpack(buf[:n]); err != nil {
		t.Fatal(err)
	}
	return out.Rcode, cached, out.Answer
}
