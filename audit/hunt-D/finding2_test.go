//go:build verif

// Finding 2 (C08): a SERVFAIL is served from the cache long after its 1s lifetime (until the
// positive entry it "did not displace" would have expired, here up to 3600s), because of the
// entry sharing of finding 1 combined with SetIfAbsent for negative responses.
//
// Place in:  app/router/
// Run:       go test -tags verif ./app/router/ -run 'TestFinding2$' -count=1 -v
// The test pins GOMAXPROCS to 1 so that sync.Pool hands entries out in a fixed order; with more
// Ps the same history happens with some probability only.
// Observed on the unchanged code:
//     finding2_test.go:..: k.test. second query: rcode=2 cached=false upstream exchanges=2
//     finding2_test.go:..: k.test. 3.5s after the SERVFAIL was fetched: rcode=2 cached=true upstream exchanges=2
//     finding2_test.go:..: SERVFAIL served from cache 3.5s after it was fetched (lifetime 1s, +2s granularity)
//     --- FAIL: TestFinding2 (8.1s)

package router

import (
	"context"
	"fmt"
	"net/netip"
	"runtime"
	"strings"
	"sync"
	"testing"
	"time"

	"github.com/IrineSistiana/mosproxy/internal/dnsmsg"
	"github.com/IrineSistiana/mosproxy/internal/mlog"
	"github.com/miekg/dns"
	"github.com/rs/zerolog"
)

func TestFinding2(t *testing.T) {
	defer runtime.GOMAXPROCS(runtime.GOMAXPROCS(1))

	u := &f2Upstream{count: map[string]int{}}
	u.reply = func(q *dns.Msg, name string, nth int) *dns.Msg {
		switch {
		case name == "k.test." && nth == 2: // one transient failure of the upstream resolver
			r := new(dns.Msg)
			r.SetRcode(q, dns.RcodeServerFailure)
			return r
		case (name == "a.test." || name == "z.test.") && nth == 1:
			return f2Answer(q, nth, 1)
		}
		return f2Answer(q, nth, 3600)
	}
	r := f2Router(t, u, CacheConfig{MemSize: 256 << 20})
	defer r.Close()

	// otter processes its write buffer (and calls the deletion listener) after every 64th
	// write. filler issues n writes (n new names, ttl 3600) and lets otter's goroutine run.
	fill := 0
	filler := func(n int) {
		for i := 0; i < n; i++ {
			fill++
			f2Query(t, r, fmt.Sprintf("fill%d.test.", fill))
		}
		time.Sleep(100 * time.Millisecond)
	}

	f2Query(t, r, "a.test.") // write 1 (ttl 1)
	time.Sleep(2200 * time.Millisecond)
	f2Query(t, r, "a.test.") // expired: writes 2 (delete task) and 3 (update task)
	filler(61)               // write 64: a.test.'s first entry is released twice, it is in the pool twice
	f2Query(t, r, "k.test.") // write 65, ttl 3600, gets that entry
	f2Query(t, r, "z.test.") // write 66, ttl 1, gets the same entry; k.test. is lost (finding 1)
	time.Sleep(2200 * time.Millisecond)
	f2Query(t, r, "z.test.") // expired: writes 67, 68
	filler(60)               // write 128: the shared entry is released and back in the pool
	// k.test. misses (its entry is empty), the upstream answers SERVFAIL this once. Store takes
	// the entry that k.test.'s node still points to from the pool, fills it with the SERVFAIL and
	// calls SetIfAbsent, which does nothing because the node of k.test. (ttl 3600) exists.
	rc, cached, _ := f2Query(t, r, "k.test.")
	t.Logf("k.test. second query: rcode=%d cached=%v upstream exchanges=%d", rc, cached, u.n("k.test."))
	time.Sleep(3500 * time.Millisecond)
	rc, cached, _ = f2Query(t, r, "k.test.")
	t.Logf("k.test. 3.5s after the SERVFAIL was fetched: rcode=%d cached=%v upstream exchanges=%d", rc, cached, u.n("k.test."))
	if cached && rc == dns.RcodeServerFailure {
		t.Errorf("SERVFAIL served from cache 3.5s after it was fetched (lifetime 1s, +2s granularity)")
	}
}

// ---- helpers (self-contained; names carry the finding number so that several reproducers can coexist) ----

// f2Upstream is a fake upstream. It counts the exchanges per (lower-cased) name and builds the
// reply with the reply callback (nth = 1 for the first exchange of that name).
type f2Upstream struct {
	mu    sync.Mutex
	count map[string]int
	reply func(q *dns.Msg, name string, nth int) *dns.Msg
}

func (u *f2Upstream) ExchangeContext(ctx context.Context, m []byte) (*dnsmsg.Msg, error) {
	q := new(dns.Msg)
	if err := q.Unpack(m); err != nil {
		return nil, err
	}
	name := strings.ToLower(q.Question[0].Name)
	u.mu.Lock()
	u.count[name]++
	nth := u.count[name]
	u.mu.Unlock()
	b, err := u.reply(q, name, nth).Pack()
	if err != nil {
		return nil, err
	}
	return dnsmsg.UnpackMsg(b)
}

func (u *f2Upstream) Close() error { return nil }

func (u *f2Upstream) n(name string) int {
	u.mu.Lock()
	defer u.mu.Unlock()
	return u.count[name]
}

// f2Answer is a NOERROR reply with one A record 10.0.<nth>.1 with the given ttl.
func f2Answer(q *dns.Msg, nth int, ttl uint32) *dns.Msg {
	r := new(dns.Msg)
	r.SetReply(q)
	r.RecursionAvailable = true
	r.Answer = append(r.Answer, &dns.A{
		Hdr: dns.RR_Header{Name: q.Question[0].Name, Rrtype: dns.TypeA, Class: dns.ClassINET, Ttl: ttl},
		A:   []byte{10, 0, byte(nth), 1},
	})
	return r
}

func f2Router(t *testing.T, u *f2Upstream, cache CacheConfig) *VerifRouter {
	mlog.SetLvl(zerolog.ErrorLevel)
	cfg := &Config{
		Upstreams: []UpstreamConfig{{Tag: "u", Addr: "udp://127.0.0.1:1"}}, // never dialed, replaced below
		Rules:     []RuleConfig{{Forward: "u"}},
		Cache:     cache,
	}
	r, err := VerifRun(cfg)
	if err != nil {
		t.Fatal(err)
	}
	if !r.SetUpstream("u", u) {
		t.Fatal("no upstream")
	}
	return r
}

// f2Query sends an A query for name from client 192.0.2.1 through router.handleServerReq.
func f2Query(t *testing.T, r *VerifRouter, name string) (rcode int, cached bool, ans []dns.RR) {
	q := new(dns.Msg)
	q.SetQuestion(name, dns.TypeA)
	b, _ := q.Pack()
	m, err := dnsmsg.UnpackMsg(b)
	if err != nil {
		t.Fatal(err)
	}
	defer dnsmsg.ReleaseMsg(m)
	resp, _, cached, _ := r.Handle(m, netip.MustParseAddrPort("192.0.2.1:5353"), netip.AddrPort{})
	defer dnsmsg.ReleaseMsg(resp)
	buf := make([]byte, resp.Len())
	n, err := resp.Pack(buf, false, 0)
	if err != nil {
		t.Fatal(err)
	}
	out := new(dns.Msg)
	if err := out.Unpack(buf[:n]); err != nil {
		t.Fatal(err)
	}
	return out.Rcode, cached, out.Answer
}
