module github.com/IrineSistiana/mosproxy/verifharness

go 1.22.1

require (
	github.com/IrineSistiana/bytespool v0.0.0-20240303022030-cfcf97e7141f
	github.com/IrineSistiana/connpool v0.0.0-20240326131245-897b52e59cfc
	github.com/IrineSistiana/gopool v0.0.0-20240118084800-c21759e56cf2
	github.com/klauspost/compress v1.17.7
	github.com/maypok86/otter v1.2.0
	github.com/miekg/dns v1.1.58
	github.com/mitchellh/mapstructure v1.5.0
	github.com/panjf2000/gnet/v2 v2.3.6
	github.com/prometheus/client_golang v1.19.0
	github.com/puzpuzpuz/xsync/v3 v3.1.0
	github.com/quic-go/quic-go v0.42.0
	github.com/redis/rueidis v1.0.32
	github.com/rs/zerolog v1.32.0
	github.com/spf13/cobra v1.8.0
	github.com/stretchr/testify v1.9.0
	github.com/valyala/fasthttp v1.52.0
	golang.org/x/exp v0.0.0-20240325151524-a685a6edb6d8
	golang.org/x/net v0.22.0
	golang.org/x/sync v0.6.0
	golang.org/x/sys v0.18.0
	golang.org/x/time v0.5.0
	gopkg.in/yaml.v3 v3.0.1
)

require (
	github.com/andybalholm/brotli v1.1.0 // indirect
	github.com/beorn7/perks v1.0.1 // indirect
	github.com/cespare/xxhash/v2 v2.2.0 // indirect
	github.com/davecgh/go-spew v1.1.2-0.20180830191138-d8f796af33cc // indirect
	github.com/dolthub/maphash v0.1.0 // indirect
	github.com/gammazero/deque v0.2.1 // indirect
	github.com/go-task/slim-sprig v0.0.0-20230315185526-52ccab3ef572 // indirect
	github.com/google/pprof v0.0.0-20240320155624-b11c3daa6f07 // indirect
	github.com/inconshreveable/mousetrap v1.1.0 // indirect
	github.com/mattn/go-colorable v0.1.13 // indirect
	github.com/mattn/go-isatty v0.0.20 // indirect
	github.com/onsi/ginkgo/v2 v2.17.1 // indirect
	github.com/pmezard/go-difflib v1.0.1-0.20181226105442-5d4384ee4fb2 // indirect
	github.com/prometheus/client_model v0.6.0 // indirect
	github.com/prometheus/common v0.51.1 // indirect
	github.com/prometheus/procfs v0.13.0 // indirect
	github.com/quic-go/qpack v0.4.0 // indirect
	github.com/spf13/pflag v1.0.5 // indirect
	github.com/valyala/bytebufferpool v1.0.0 // indirect
	go.uber.org/mock v0.4.0 // indirect
	go.uber.org/multierr v1.11.0 // indirect
	go.uber.org/zap v1.27.0 // indirect
	golang.org/x/crypto v0.21.0 // indirect
	golang.org/x/mod v0.16.0 // indirect
	golang.org/x/text v0.14.0 // indirect
	golang.org/x/tools v0.19.0 // indirect
	google.golang.org/protobuf v1.33.0 // indirect
	gopkg.in/natefinch/lumberjack.v2 v2.2.1 // indirect
)

require github.com/IrineSistiana/mosproxy v0.0.0

replace github.com/IrineSistiana/mosproxy => /repo
