package main

// C17, histories: every exchange is judged by its own upstream's / listener's options, whatever other
// upstreams / clients did before (TLS session resumption, shared caches, shared transports).
//
// component tlshist
//   side=up proto=<dot|dotp|doh|h3|doq> peer=<valid|wrongname|unknownca|expired|selfsigned>
//           ups=<ca>:<insecure>:<s|o>,...   steps=<i>.<i>....
//       ONE router (router.VerifRun: the real initUpstream / makeTlsConfig / NewUpstream path) with one
//       upstream per entry of ups (URL host srv.test (s) or other.test (o), scheme by proto, dial_addr at
//       ONE harness server presenting the `peer` certificate, options ca / insecure_skip_verify) and a
//       plain TCP front listener; rules route q.u<i>.c17.test to upstream i. Step i sends one query for
//       upstream i -> ok (answered by the harness server) | fail, joined by '.'; refused = start-up error.
//   side=li proto=<dot|doh|doq> ca=<-|1|2> vcc=<0|1> steps=<certkind>:<cache|->,...
//       ONE listener of the router; every step is a new client connection presenting the certificate
//       (absent: none) and using the client session cache number <cache> (clients with the same number
//       share resumable sessions; -: no cache) -> ok (any DNS response) | fail.

import (
	"context"
	"crypto/tls"
	"encoding/base64"
	"encoding/binary"
	"fmt"
	"io"
	"math/rand"
	"net"
	"net/http"
	"os"
	"path/filepath"
	"strconv"
	"strings"
	"time"

	"github.com/IrineSistiana/mosproxy/app/router"
	"github.com/IrineSistiana/mosproxy/internal/mlog"
	"github.com/miekg/dns"
	"github.com/quic-go/quic-go"
	"github.com/quic-go/quic-go/http3"
	"github.com/rs/zerolog"
)

func c17histHost(h string) string {
	if h == "o" {
		return "other.test"
	}
	return c17srvName
}

func c17histUp(m map[string]string) string {
	seq := c17hsSeq.Add(1)
	srvCfg := &tls.Config{Certificates: []tls.Certificate{c17pki.leaf[m["peer"]]}}
	var dialAddr string
	var scheme, path string
	switch m["proto"] {
	case "dot", "dotp":
		l, err := net.Listen("tcp", "127.0.0.1:0")
		if err != nil {
			panic(err)
		}
		defer l.Close()
		go c17serveDoT(l, srvCfg)
		dialAddr = l.Addr().String()
		scheme = map[string]string{"dot": "tls", "dotp": "tls+pipeline"}[m["proto"]]
	case "doh":
		l, err := net.Listen("tcp", "127.0.0.1:0")
		if err != nil {
			panic(err)
		}
		hs := &http.Server{Handler: c17dohHandler{}, TLSConfig: srvCfg, ErrorLog: c17nullLogger()}
		go hs.ServeTLS(l, "", "")
		defer hs.Close()
		dialAddr, scheme, path = l.Addr().String(), "https", "/dns-query"
	case "h3":
		pc, err := net.ListenPacket("udp", "127.0.0.1:0")
		if err != nil {
			panic(err)
		}
		hs := &http3.Server{Handler: c17dohHandler{}, TLSConfig: http3.ConfigureTLSConfig(srvCfg)}
		go hs.Serve(pc)
		defer pc.Close()
		defer hs.Close()
		dialAddr, scheme, path = pc.LocalAddr().String(), "h3", "/dns-query"
	case "doq":
		srvCfg.NextProtos = []string{"doq"}
		l, err := quic.ListenAddr("127.0.0.1:0", srvCfg, &quic.Config{})
		if err != nil {
			panic(err)
		}
		defer l.Close()
		go c17serveDoQ(l)
		dialAddr, scheme = l.Addr().String(), "quic"
	default:
		return "bad-proto"
	}
	front := fmt.Sprintf("@mvh-c17-%d-hfront-%d", os.Getpid(), seq)
	cfg := &router.Config{Servers: []router.ServerConfig{{Tag: "front", Protocol: "tcp", Listen: front}}}
	for i, u := range strings.Split(m["ups"], ",") {
		f := strings.Split(u, ":")
		if len(f) != 3 {
			return "bad-case"
		}
		tag := "u" + strconv.Itoa(i)
		file := filepath.Join(c17pki.dir, fmt.Sprintf("hist-%d-%s.txt", seq, tag))
		if err := os.WriteFile(file, []byte(tag+".c17.test\n"), 0o600); err != nil {
			panic(err)
		}
		defer os.Remove(file)
		cfg.Upstreams = append(cfg.Upstreams, router.UpstreamConfig{
			Tag: tag, Addr: scheme + "://" + c17histHost(f[2]) + path, DialAddr: dialAddr,
			Tls: router.TlsConfig{CA: c17file("ca", f[0]), InsecureSkipVerify: f[1] == "1"},
		})
		cfg.DomainSets = append(cfg.DomainSets, router.DomainSetConfig{Tag: "d" + strconv.Itoa(i), Files: []string{file}})
		cfg.Rules = append(cfg.Rules, router.RuleConfig{Domain: "d" + strconv.Itoa(i), Forward: tag})
	}
	v, err := router.VerifRun(cfg)
	if err != nil {
		return "refused"
	}
	defer v.Close()
	var outs []string
	for n, st := range strings.Split(m["steps"], ".") {
		step := func() string {
			c, err := net.DialTimeout("unix", front, time.Second)
			if err != nil {
				return "front-unreachable"
			}
			defer c.Close()
			c.SetDeadline(time.Now().Add(8 * time.Second))
			got, answered := c17streamQuery(c, fmt.Sprintf("q%d-%d.u%s.c17.test.", seq, n, st))
			if !got {
				return "front-silent"
			}
			if answered {
				return "ok"
			}
			return "fail"
		}
		t0 := time.Now()
		res := step()
		if res != "ok" && time.Since(t0) > 1500*time.Millisecond {
			res = step() // a rejection is immediate; see c17hsRun
		}
		outs = append(outs, res)
		// let a session ticket arrive (it only matters to a config that has a session cache)
		time.Sleep(10 * time.Millisecond)
	}
	return strings.Join(outs, ".")
}

func c17histLi(m map[string]string) string {
	seq := c17hsSeq.Add(1)
	opts := router.TlsConfig{Cert: c17file("cert", "1"), Key: c17file("key", "1"), CA: c17file("ca", m["ca"]), VerifyClientCert: m["vcc"] == "1"}
	var target string
	var v *router.VerifRouter
	var err error
	switch m["proto"] {
	case "dot", "doh":
		target = fmt.Sprintf("@mvh-c17-%d-hli-%d", os.Getpid(), seq)
		proto := map[string]string{"dot": "tls", "doh": "https"}[m["proto"]]
		v, err = router.VerifRun(&router.Config{Servers: []router.ServerConfig{{Tag: "li", Protocol: proto, Listen: target, Tls: opts}}})
		if err != nil {
			return "refused"
		}
	case "doq":
		for attempt := 0; ; attempt++ {
			target = fmt.Sprintf("127.0.0.1:%d", c17freeUDPPort())
			v, err = router.VerifRun(&router.Config{Servers: []router.ServerConfig{{Tag: "li", Protocol: "quic", Listen: target, Tls: opts}}})
			if err == nil {
				break
			}
			if !strings.Contains(err.Error(), "listen") || attempt >= 5 {
				return "refused"
			}
		}
	default:
		return "bad-proto"
	}
	defer v.Close()
	caches := map[string]tls.ClientSessionCache{}
	var outs []string
	for n, st := range strings.Split(m["steps"], ",") {
		f := strings.Split(st, ":")
		if len(f) != 2 {
			return "bad-case"
		}
		cliCfg := &tls.Config{InsecureSkipVerify: true, ServerName: c17srvName}
		if f[0] != "absent" {
			cliCfg.Certificates = []tls.Certificate{c17pki.leaf[f[0]]}
		}
		if f[1] != "-" {
			if caches[f[1]] == nil {
				caches[f[1]] = tls.NewLRUClientSessionCache(8)
			}
			cliCfg.ClientSessionCache = caches[f[1]]
		}
		name := fmt.Sprintf("q%d-%d.c17.test.", seq, n)
		t0 := time.Now()
		res := c17liClient(m["proto"], target, cliCfg.Clone(), name)
		if res != "ok" && time.Since(t0) > 1500*time.Millisecond {
			res = c17liClient(m["proto"], target, cliCfg.Clone(), name)
		}
		outs = append(outs, res)
	}
	return strings.Join(outs, ".")
}

// c17liClient makes ONE new connection to a tls / https / quic listener and sends one query.
func c17liClient(proto, target string, cliCfg *tls.Config, name string) string {
	q := new(dns.Msg)
	q.SetQuestion(name, dns.TypeA)
	qb, _ := q.Pack()
	switch proto {
	case "dot":
		c, err := net.DialTimeout("unix", target, time.Second)
		if err != nil {
			return "unreachable"
		}
		defer c.Close()
		c.SetDeadline(time.Now().Add(5 * time.Second))
		tc := tls.Client(c, cliCfg)
		if err := tc.Handshake(); err != nil {
			return "fail"
		}
		if got, _ := c17streamQuery(tc, name); got {
			return "ok"
		}
		return "fail"
	case "doh":
		cliCfg.NextProtos = []string{"h2"}
		tr := &http.Transport{
			DialContext: func(ctx context.Context, network, addr string) (net.Conn, error) {
				return net.DialTimeout("unix", target, time.Second)
			},
			TLSClientConfig:   cliCfg,
			ForceAttemptHTTP2: true,
		}
		defer tr.CloseIdleConnections()
		ctx, cancel := context.WithTimeout(context.Background(), 5*time.Second)
		defer cancel()
		req, _ := http.NewRequestWithContext(ctx, "GET", "https://"+c17srvName+"/dns-query?dns="+base64.RawURLEncoding.EncodeToString(qb), nil)
		req.Header.Set("Accept", "application/dns-message")
		resp, err := tr.RoundTrip(req)
		if err != nil {
			return "fail"
		}
		defer resp.Body.Close()
		b, _ := io.ReadAll(io.LimitReader(resp.Body, 65536))
		r := new(dns.Msg)
		if resp.StatusCode == 200 && r.Unpack(b) == nil {
			return "ok"
		}
		return "fail"
	case "doq":
		cliCfg.NextProtos = []string{"doq"}
		ctx, cancel := context.WithTimeout(context.Background(), 5*time.Second)
		defer cancel()
		c, err := quic.DialAddr(ctx, target, cliCfg, &quic.Config{})
		if err != nil {
			return "fail"
		}
		defer c.CloseWithError(0, "")
		s, err := c.OpenStreamSync(ctx)
		if err != nil {
			return "fail"
		}
		s.SetDeadline(time.Now().Add(5 * time.Second))
		out := make([]byte, 2+len(qb))
		binary.BigEndian.PutUint16(out, uint16(len(qb)))
		copy(out[2:], qb)
		if _, err := s.Write(out); err != nil {
			return "fail"
		}
		s.Close()
		var l [2]byte
		if _, err := io.ReadFull(s, l[:]); err != nil {
			return "fail"
		}
		b := make([]byte, binary.BigEndian.Uint16(l[:]))
		if _, err := io.ReadFull(s, b); err != nil {
			return "fail"
		}
		// the session ticket follows the handshake; give it a moment before the connection is closed
		time.Sleep(20 * time.Millisecond)
		return "ok"
	}
	return "bad-proto"
}

func c17histRun(cs string) string {
	m := kv(cs)
	if m["side"] == "up" {
		return c17histUp(m)
	}
	return c17histLi(m)
}

func c17histGen(r *rand.Rand, thorough bool, emit func(c, cat string)) {
	protos := []string{"dot", "dotp", "doh", "h3", "doq"}
	peers := []string{"valid", "wrongname", "unknownca", "expired", "selfsigned"}
	cas := []string{"-", "1", "2"}
	steps := func(n, k int) string {
		var s []string
		for i := 0; i < k; i++ {
			s = append(s, strconv.Itoa(r.Intn(n)))
		}
		return strings.Join(s, ".")
	}
	// the canonical histories: a distrusting upstream before and after a trusting / non-verifying one
	for _, proto := range protos {
		for _, peer := range []string{"valid", "unknownca"} {
			trust, other := "1", "2"
			if peer == "unknownca" {
				trust, other = "2", "1"
			}
			emit(fmt.Sprintf("side=up proto=%s peer=%s ups=%s:0:s,%s:0:s steps=1.0.1.0.1", proto, peer, trust, other), "up-"+proto+"-ca-vs-ca")
			emit(fmt.Sprintf("side=up proto=%s peer=%s ups=%s:0:s,-:0:s steps=1.0.1", proto, peer, trust), "up-"+proto+"-ca-vs-system")
		}
		emit(fmt.Sprintf("side=up proto=%s peer=selfsigned ups=-:1:s,1:0:s steps=1.0.1.0.1", proto), "up-"+proto+"-insecure-vs-strict")
		emit(fmt.Sprintf("side=up proto=%s peer=expired ups=1:1:s,1:0:s steps=1.0.1", proto), "up-"+proto+"-insecure-vs-strict")
		emit(fmt.Sprintf("side=up proto=%s peer=valid ups=1:0:s,1:0:o steps=1.0.1", proto), "up-"+proto+"-names")
		emit(fmt.Sprintf("side=up proto=%s peer=wrongname ups=1:0:o,1:0:s,1:1:s steps=1.0.1.2.1", proto), "up-"+proto+"-names")
	}
	n := 6
	if thorough {
		n = 60
	}
	for i := 0; i < n; i++ {
		proto := protos[r.Intn(len(protos))]
		k := 2 + r.Intn(3)
		var ups []string
		for j := 0; j < k; j++ {
			h := "s"
			if r.Intn(5) == 0 {
				h = "o"
			}
			ups = append(ups, fmt.Sprintf("%s:%d:%s", cas[r.Intn(3)], map[bool]int{true: 1, false: 0}[r.Intn(4) == 0], h))
		}
		emit(fmt.Sprintf("side=up proto=%s peer=%s ups=%s steps=%s", proto, peers[r.Intn(len(peers))], strings.Join(ups, ","), steps(k, 4+r.Intn(4))),
			"up-"+proto+"-random")
	}
	// listener side
	liProtos := []string{"dot", "doh", "doq"}
	for _, proto := range liProtos {
		for _, vcc := range []string{"1", "0"} {
			emit(fmt.Sprintf("side=li proto=%s ca=1 vcc=%s steps=absent:0,valid:0,absent:1,absent:0,absent:-,valid:1,absent:1", proto, vcc), "li-"+proto+"-resume-vcc"+vcc)
		}
		emit(fmt.Sprintf("side=li proto=%s ca=1 vcc=1 steps=unknownca:0,absent:0,valid:1,unknownca:1,expired:2,selfsigned:1,absent:2", proto), "li-"+proto+"-resume-vcc1")
		emit(fmt.Sprintf("side=li proto=%s ca=2 vcc=1 steps=valid:0,absent:0,unknownca:0,absent:0,valid:-", proto), "li-"+proto+"-resume-vcc1")
	}
	kinds := []string{"valid", "wrongname", "unknownca", "expired", "selfsigned", "absent", "absent"}
	nl := 4
	if thorough {
		nl = 40
	}
	for i := 0; i < nl; i++ {
		proto := liProtos[r.Intn(3)]
		var st []string
		for j, k := 0, 3+r.Intn(5); j < k; j++ {
			c := "-"
			if r.Intn(5) != 0 {
				c = strconv.Itoa(r.Intn(3))
			}
			st = append(st, kinds[r.Intn(len(kinds))]+":"+c)
		}
		emit(fmt.Sprintf("side=li proto=%s ca=%s vcc=%d steps=%s", proto, cas[r.Intn(3)], map[bool]int{true: 1, false: 0}[r.Intn(4) != 0], strings.Join(st, ",")),
			"li-"+proto+"-random")
	}
}

func init() {
	register("tlshist", &component{gen: c17histGen, run: c17histRun, teardown: c17pkiCleanup, setup: func() {
		mlog.SetLvl(zerolog.Disabled)
		c17pkiInit()
	}})
}
