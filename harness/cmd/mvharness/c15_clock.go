package main

// C15 component `limiter_clock`: many goroutines doing what resourceLimiter.AllowN does —
// now := time.Now(); cl.AllowN(addr, now, 1) — on the real ClientLimiter with the real clock and
// the real scheduler, all for one client subnet.  A goroutine that is descheduled between its
// time.Now() and the bucket's lock reaches the bucket with a time stamp older than the previous
// one (hunt-E finding 1, repaired in f8b61d0).  The admitted total is compared with
// burst + rate x (end - start) where start/end are read before the first and after the last call,
// plus a margin of 0.5 % + 2 tokens for the float arithmetic of the dependency.
//
// case : goroutines=<g> ms=<duration> lim=<int> burst=<int>
// out  : within=1 | within=0

import (
	"fmt"
	"math/rand"
	"net/netip"
	"os"
	"sync"
	"sync/atomic"
	"time"

	"github.com/IrineSistiana/mosproxy/internal/limiter"
)

func c15clockRun(cs string) string {
	m := kv(cs)
	g, ms, lim, burst := atoi(m["goroutines"]), atoi(m["ms"]), atoi(m["lim"]), atoi(m["burst"])
	cl := limiter.NewClientLimiter(limiter.ClientLimiterOpts{Limit: float64(lim), Burst: burst})
	defer cl.Close()
	addrs := []netip.Addr{netip.AddrFrom4([4]byte{192, 0, 2, 7}), netip.AddrFrom4([4]byte{192, 0, 2, 200})} // one /24
	var admitted atomic.Int64
	var wg sync.WaitGroup
	start := time.Now()
	deadline := start.Add(time.Duration(ms) * time.Millisecond)
	for i := 0; i < g; i++ {
		wg.Add(1)
		go func(i int) {
			defer wg.Done()
			a := addrs[i%2]
			for {
				now := time.Now()
				if now.After(deadline) {
					return
				}
				if cl.AllowN(a, now, 1) {
					admitted.Add(1)
				}
			}
		}(i)
	}
	wg.Wait()
	end := time.Now()
	bound := float64(burst) + float64(lim)*end.Sub(start).Seconds()
	bound += bound*0.005 + 2
	if float64(admitted.Load()) <= bound {
		return "within=1"
	}
	fmt.Fprintf(os.Stderr, "limiter_clock: admitted %d, bound %.0f\n", admitted.Load(), bound)
	return "within=0"
}

func c15clockGen(r *rand.Rand, thorough bool, emit func(c, cat string)) {
	n, ms := 3, 250
	if thorough {
		n, ms = 8, 500
	}
	for i := 0; i < n; i++ {
		lim := []int{100000, 200000, 200000, 50000}[r.Intn(4)]
		emit(fmt.Sprintf("goroutines=%d ms=%d lim=%d burst=%d", 500+r.Intn(1500), ms, lim, 5+r.Intn(20)), "real-clock")
	}
}

func init() {
	register("limiter_clock", &component{gen: c15clockGen, run: c15clockRun})
}
