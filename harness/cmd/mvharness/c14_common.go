package main

// C14: shared pieces of the fault-injection harness — DNS messages whose name says which role a
// query plays, a scripted loopback stream server (TCP or TLS), a self-signed certificate, a
// listener whose backlog is never accepted, timing classes.
//
// Roles (first label of the query name, followed by a number):
//   victim  the exchange under observation; the server's script says what happens to its n-th query
//   setup   answered when the harness releases it (used to park idle connections in the pool)
//   fill    like setup (used to fill a pipelined connection during the set-up)
//   hold    never answered before the connection dies (an exchange that keeps waiting)
//   plain   answered at once
//
// Behaviours of the server for a victim query (script tokens, see Model/Retry.lean):
//   ok reply · fin close (FIN) after reading the query · rst reset · gar undecodable frame ·
//   sil silence · half half a frame, then silence

import (
	"context"
	"crypto/ecdsa"
	"crypto/elliptic"
	crand "crypto/rand"
	"crypto/tls"
	"crypto/x509"
	"crypto/x509/pkix"
	"encoding/binary"
	"fmt"
	"io"
	"math/big"
	"net"
	"os"
	"path/filepath"
	"strings"
	"sync"
	"sync/atomic"
	"syscall"
	"time"

	"github.com/miekg/dns"
)

const (
	c14Slack      = 450 * time.Millisecond // allowed beyond the context deadline
	c14LeakWait   = 1500 * time.Millisecond
	c14SetupWait  = 3 * time.Second
	c14LongDl     = 2400 // ms: deadline of exchanges that must end promptly (class "prompt": ≤ half of it)
	c14HolderDl   = 6 * time.Second
	c14ShortDlMin = 400 // ms: deadline of exchanges that can only end with their context
)

func c14query(role string, n int) []byte {
	q := new(dns.Msg)
	q.SetQuestion(fmt.Sprintf("%s%d.c14.test.", role, n), dns.TypeA)
	q.Id = uint16(n*31 + 7)
	b, err := q.Pack()
	if err != nil {
		panic(err)
	}
	return b
}

// role and number of a query
func c14role(q *dns.Msg) (string, int) {
	if len(q.Question) != 1 {
		return "", 0
	}
	l := strings.SplitN(q.Question[0].Name, ".", 2)[0]
	i := 0
	for i < len(l) && (l[i] < '0' || l[i] > '9') {
		i++
	}
	return l[:i], atoi(l[i:])
}

func c14reply(q *dns.Msg) []byte {
	r := new(dns.Msg)
	r.SetReply(q)
	r.Answer = append(r.Answer, &dns.A{
		Hdr: dns.RR_Header{Name: q.Question[0].Name, Rrtype: dns.TypeA, Class: dns.ClassINET, Ttl: 60},
		A:   net.IPv4(10, 0, 0, 1),
	})
	b, err := r.Pack()
	if err != nil {
		panic(err)
	}
	return b
}

// a 12-byte header announcing one question, followed by a label that runs past the end
// c14garbage: an undecodable reply. Two shapes, alternating: a label that runs past the end, and a question name
// that is a compression pointer to itself (C0 0C at offset 12) — a decoder that does not bound pointer chains never
// comes back, and then neither does the connection's reader.
var c14garbageN atomic.Int64

func c14garbage(id uint16) []byte {
	b := []byte{0, 0, 0x81, 0x80, 0, 1, 0, 0, 0, 0, 0, 0, 0x3f, 'x', 'y'}
	if c14garbageN.Add(1)%2 == 0 {
		b = []byte{0, 0, 0x81, 0x80, 0, 1, 0, 0, 0, 0, 0, 0, 0xC0, 0x0C, 0, 1, 0, 1}
	}
	binary.BigEndian.PutUint16(b, id)
	return b
}

func c14frame(b []byte) []byte {
	o := make([]byte, 2+len(b))
	binary.BigEndian.PutUint16(o, uint16(len(b)))
	copy(o[2:], b)
	return o
}

// waits for wg at most d
func c14waitTimeout(wg *sync.WaitGroup, d time.Duration) bool {
	done := make(chan struct{})
	go func() { wg.Wait(); close(done) }()
	select {
	case <-done:
		return true
	case <-time.After(d):
		return false
	}
}

// c14settle waits until the pair of counters read by f has not changed for 80 ms (at most 800 ms).
// The servers count what they have ACCEPTED and READ; when an exchange ends with its context (silent
// faults) its last query or connection may still be on its way to the server's goroutines, the more
// so on a loaded machine. (When the server answers, closes or resets, it has counted before.)
func c14settle(f func() (int, int)) (int, int) {
	a, b := f()
	stable := time.Now()
	limit := stable.Add(800 * time.Millisecond)
	for time.Since(stable) < 80*time.Millisecond && time.Now().Before(limit) {
		time.Sleep(10 * time.Millisecond)
		if a2, b2 := f(); a2 != a || b2 != b {
			a, b, stable = a2, b2, time.Now()
		}
	}
	return a, b
}

const c14Hard = 1500 * time.Millisecond // how long beyond deadline + slack the harness keeps waiting

func c14timeClass(el time.Duration, dlMs int) string {
	dl := time.Duration(dlMs) * time.Millisecond
	switch {
	case el <= dl/2:
		return "prompt"
	case el <= dl+c14Slack:
		return "intime"
	}
	return "late"
}

func c14silentTok(t string) bool {
	return strings.HasSuffix(t, "sil") || strings.HasSuffix(t, "half") || t == "gB"
}

func c14scriptSilent(script []string) bool {
	for _, t := range script {
		if c14silentTok(t) {
			return true
		}
	}
	return false
}

// ---- certificate

var c14certOnce sync.Once
var c14cert tls.Certificate

func c14tlsCert() tls.Certificate {
	c14certOnce.Do(func() {
		key, err := ecdsa.GenerateKey(elliptic.P256(), crand.Reader)
		if err != nil {
			panic(err)
		}
		tmpl := &x509.Certificate{
			SerialNumber: big.NewInt(14), Subject: pkix.Name{CommonName: "c14.test"},
			DNSNames: []string{"c14.test", "localhost"}, IPAddresses: []net.IP{net.IPv4(127, 0, 0, 1)},
			NotBefore: time.Now().Add(-time.Hour), NotAfter: time.Now().AddDate(5, 0, 0),
			KeyUsage: x509.KeyUsageDigitalSignature, ExtKeyUsage: []x509.ExtKeyUsage{x509.ExtKeyUsageServerAuth},
			BasicConstraintsValid: true,
		}
		der, err := x509.CreateCertificate(crand.Reader, tmpl, tmpl, &key.PublicKey, key)
		if err != nil {
			panic(err)
		}
		c14cert = tls.Certificate{Certificate: [][]byte{der}, PrivateKey: key}
	})
	return c14cert
}

// ---- a listener whose backlog is full: connect() to it never completes

type c14blackhole struct {
	fd   int
	addr string
	keep net.Conn
}

func c14newBlackhole() (*c14blackhole, error) {
	fd, err := syscall.Socket(syscall.AF_INET, syscall.SOCK_STREAM, 0)
	if err != nil {
		return nil, err
	}
	if err := syscall.Bind(fd, &syscall.SockaddrInet4{Addr: [4]byte{127, 0, 0, 1}}); err != nil {
		syscall.Close(fd)
		return nil, err
	}
	if err := syscall.Listen(fd, 0); err != nil {
		syscall.Close(fd)
		return nil, err
	}
	sa, err := syscall.Getsockname(fd)
	if err != nil {
		syscall.Close(fd)
		return nil, err
	}
	b := &c14blackhole{fd: fd, addr: fmt.Sprintf("127.0.0.1:%d", sa.(*syscall.SockaddrInet4).Port)}
	// fill the accept queue (backlog 0 admits one connection)
	for i := 0; i < 3; i++ {
		c, err := net.DialTimeout("tcp", b.addr, 150*time.Millisecond)
		if err != nil {
			return b, nil // the queue is full
		}
		if b.keep == nil {
			b.keep = c
		} else {
			defer c.Close()
		}
	}
	return b, nil
}

func (b *c14blackhole) close() {
	if b.keep != nil {
		b.keep.Close()
	}
	syscall.Close(b.fd)
}

// ---- ports. Cases run in parallel and several of them need an address on which nothing listens
// (any more). A port the kernel hands out for ":0" can be handed out again — to another case —
// as soon as it is closed, so all servers here listen on explicit ports BELOW the ephemeral range,
// taken from one counter: a port that was closed is not given to anybody else for a long while.

var c14portCtr atomic.Uint32

// Several harness processes may run at the same time (checks running in parallel). Each one claims a
// slice of the port range for its lifetime with an flock'ed file, so that a port one process regards
// as closed is never opened by another.
const (
	c14portBase   = 10000
	c14sliceSize  = 500
	c14sliceCount = 40
)

var c14sliceOnce sync.Once
var c14slice int
var c14sliceFile *os.File // kept open: the lock lives as long as the process

func c14claimSlice() {
	dir := filepath.Join(os.TempDir(), "mvharness-c14-ports")
	os.MkdirAll(dir, 0o777)
	start := int(time.Now().UnixNano()>>12) % c14sliceCount
	for i := 0; i < c14sliceCount; i++ {
		sl := (start + i) % c14sliceCount
		f, err := os.OpenFile(filepath.Join(dir, fmt.Sprintf("%d.lock", sl)), os.O_CREATE|os.O_RDWR, 0o666)
		if err != nil {
			continue
		}
		if syscall.Flock(int(f.Fd()), syscall.LOCK_EX|syscall.LOCK_NB) == nil {
			c14slice, c14sliceFile = sl, f
			return
		}
		f.Close()
	}
	c14slice = start // every slice is taken: share one
}

func c14nextPort() int {
	c14sliceOnce.Do(c14claimSlice)
	return c14portBase + c14slice*c14sliceSize + int(c14portCtr.Add(1)%c14sliceSize)
}

func c14listenTCP(lc *net.ListenConfig) net.Listener {
	if lc == nil {
		lc = &net.ListenConfig{}
	}
	var err error
	for i := 0; i < 200; i++ {
		var l net.Listener
		if l, err = lc.Listen(context.Background(), "tcp", fmt.Sprintf("127.0.0.1:%d", c14nextPort())); err == nil {
			return l
		}
	}
	panic(err)
}

func c14listenUDP() *net.UDPConn {
	var err error
	for i := 0; i < 200; i++ {
		var pc *net.UDPConn
		if pc, err = net.ListenUDP("udp", &net.UDPAddr{IP: net.IPv4(127, 0, 0, 1), Port: c14nextPort()}); err == nil {
			return pc
		}
	}
	panic(err)
}

// an address on which nothing listens, neither on tcp nor on udp
func c14closedAddr() string {
	for i := 0; i < 200; i++ {
		p := c14nextPort()
		l, err := net.Listen("tcp", fmt.Sprintf("127.0.0.1:%d", p))
		if err != nil {
			continue
		}
		pc, err := net.ListenUDP("udp", &net.UDPAddr{IP: net.IPv4(127, 0, 0, 1), Port: p})
		l.Close()
		if err != nil {
			continue
		}
		pc.Close()
		return fmt.Sprintf("127.0.0.1:%d", p)
	}
	panic("no free port")
}

// ---- scripted stream server

type c14sconn struct {
	id     int
	raw    net.Conn // the TCP connection
	c      net.Conn // raw, or the TLS connection on top of it
	wmu    sync.Mutex
	roles  map[string]bool
	killed time.Time
	closed bool
}

type c14held struct {
	sc    *c14sconn
	role  string
	reply []byte
}

type c14srv struct {
	mu sync.Mutex
	cv *sync.Cond

	ln      net.Listener
	tlsCfg  *tls.Config
	rawMode string // behaviour right after accept: "" | sil | gar | fin | rst
	// behaviours for the successive victim queries that arrive on a connection which has carried a
	// query before (a pooled connection) / on a new connection (a freshly dialled one)
	pscript []string
	fscript []string
	pi, fi  int
	// waiters scenario: the connection that has carried killAfterHolds hold queries is killed
	// (killHow); from then on hold queries are answered if answerAfterKill
	answerHolds     bool
	killAfterHolds  int
	killHow         string
	answerAfterKill bool
	killedAt        time.Time
	// idlefire scenario: replies are sent `delay` after the query; when the first delayed reply
	// was sent; the connections that carried a victim query
	delay        time.Duration
	firstDelayed time.Time
	victimConns  map[*c14sconn]bool

	conns    []*c14sconn
	accepts  int
	seen     map[string]*c14sconn // "role<n>" → connection that carried it
	nseen    map[string]int       // role → number of queries
	held     []c14held
	watchers sync.WaitGroup
	leak     int
	closing  bool
}

func c14newSrv(tlsCfg *tls.Config) *c14srv {
	ln := c14listenTCP(nil)
	s := &c14srv{ln: ln, tlsCfg: tlsCfg, seen: map[string]*c14sconn{}, nseen: map[string]int{}}
	s.cv = sync.NewCond(&s.mu)
	go s.acceptLoop()
	return s
}

func (s *c14srv) addr() string { return s.ln.Addr().String() }

func (s *c14srv) acceptLoop() {
	for {
		c, err := s.ln.Accept()
		if err != nil {
			return
		}
		s.mu.Lock()
		if s.closing {
			s.mu.Unlock()
			c.Close()
			return
		}
		sc := &c14sconn{id: len(s.conns), raw: c, c: c, roles: map[string]bool{}}
		s.conns = append(s.conns, sc)
		s.accepts++
		mode := s.rawMode
		s.cv.Broadcast()
		s.mu.Unlock()
		go s.serve(sc, mode)
	}
}

func (s *c14srv) reset(sc *c14sconn) {
	if t, ok := sc.raw.(*net.TCPConn); ok {
		t.SetLinger(0)
	}
	sc.raw.Close()
}

// the server has said all it will say on sc; the client is expected to close its side soon
// (watchers.Add must have been called BEFORE the server did anything the client can react to:
// otherwise the case may already be collecting its verdict, see leaks)
func (s *c14srv) expectClientClose(sc *c14sconn, r io.Reader) {
	go func() {
		defer s.watchers.Done()
		sc.raw.SetReadDeadline(time.Now().Add(c14LeakWait))
		_, err := io.Copy(io.Discard, r)
		if ne, ok := err.(net.Error); ok && ne.Timeout() {
			s.mu.Lock()
			closing := s.closing
			if !closing {
				s.leak++
			}
			s.mu.Unlock()
		}
		sc.raw.Close()
	}()
}

func (s *c14srv) markKilled(sc *c14sconn) {
	s.mu.Lock()
	if sc.killed.IsZero() {
		sc.killed = time.Now()
	}
	s.cv.Broadcast()
	s.mu.Unlock()
}

func (s *c14srv) closeWrite(sc *c14sconn) {
	switch c := sc.c.(type) {
	case *tls.Conn:
		c.CloseWrite()
		if t, ok := sc.raw.(*net.TCPConn); ok {
			t.CloseWrite()
		}
	case *net.TCPConn:
		c.CloseWrite()
	}
}

func (s *c14srv) write(sc *c14sconn, b []byte) {
	sc.wmu.Lock()
	sc.c.SetWriteDeadline(time.Now().Add(2 * time.Second))
	sc.c.Write(b)
	sc.wmu.Unlock()
}

// kill applies a connection-killing behaviour to sc
func (s *c14srv) kill(sc *c14sconn, how string, id uint16) {
	s.markKilled(sc)
	switch how {
	case "fin":
		s.watchers.Add(1)
		s.closeWrite(sc)
		s.expectClientClose(sc, sc.c)
	case "rst":
		s.reset(sc)
	case "gar":
		s.watchers.Add(1)
		s.write(sc, c14frame(c14garbage(id)))
		s.expectClientClose(sc, sc.c)
	}
}

func (s *c14srv) serve(sc *c14sconn, mode string) {
	switch mode {
	case "sil":
		return // keep it open, never read
	case "gar":
		s.watchers.Add(1)
		sc.raw.Write([]byte("\x00\x14this is not dns or tls\r\n\r\n"))
		s.expectClientClose(sc, sc.raw)
		return
	case "fin":
		sc.raw.Close()
		return
	case "rst":
		s.reset(sc)
		return
	}
	if s.tlsCfg != nil {
		tc := tls.Server(sc.raw, s.tlsCfg)
		sc.raw.SetDeadline(time.Now().Add(5 * time.Second))
		if err := tc.Handshake(); err != nil {
			sc.raw.Close()
			return
		}
		sc.raw.SetDeadline(time.Time{})
		sc.c = tc
	}
	for {
		var l [2]byte
		if _, err := io.ReadFull(sc.c, l[:]); err != nil {
			break
		}
		b := make([]byte, binary.BigEndian.Uint16(l[:]))
		if _, err := io.ReadFull(sc.c, b); err != nil {
			break
		}
		q := new(dns.Msg)
		if q.Unpack(b) != nil {
			continue // e.g. the oversized padding queries of the write-stall scenario
		}
		role, n := c14role(q)
		s.mu.Lock()
		firstOnConn := len(sc.roles) == 0
		s.seen[fmt.Sprintf("%s%d", role, n)] = sc
		s.nseen[role]++
		sc.roles[role] = true
		beh := ""
		switch role {
		case "victim":
			beh = "ok"
			if s.victimConns == nil {
				s.victimConns = map[*c14sconn]bool{}
			}
			s.victimConns[sc] = true
			if firstOnConn {
				if s.fi < len(s.fscript) {
					beh = s.fscript[s.fi]
				}
				s.fi++
			} else {
				if s.pi < len(s.pscript) {
					beh = s.pscript[s.pi]
				}
				s.pi++
			}
		case "plain":
			beh = "ok"
		case "setup", "fill":
			s.held = append(s.held, c14held{sc, role, c14frame(c14reply(q))})
		case "hold":
			if s.answerHolds {
				beh = "ok"
			} else if s.killAfterHolds > 0 && s.nseen["hold"] == s.killAfterHolds {
				beh = s.killHow
				s.answerHolds = s.answerAfterKill
				s.killedAt = time.Now()
			}
		}
		s.cv.Broadcast()
		s.mu.Unlock()
		switch beh {
		case "ok":
			if s.delay > 0 {
				rb := c14frame(c14reply(q))
				go func() {
					time.Sleep(s.delay)
					s.mu.Lock()
					if s.firstDelayed.IsZero() {
						s.firstDelayed = time.Now()
					}
					s.mu.Unlock()
					s.write(sc, rb)
				}()
				continue
			}
			s.write(sc, c14frame(c14reply(q)))
		case "half":
			f := c14frame(c14reply(q))
			s.write(sc, f[:len(f)/2])
		case "fin", "rst", "gar":
			s.kill(sc, beh, q.Id)
			return
		}
	}
	s.mu.Lock()
	sc.closed = true
	s.cv.Broadcast()
	s.mu.Unlock()
	sc.raw.Close()
}

// waitFor waits until pred (evaluated under the server's lock) holds
func (s *c14srv) waitFor(d time.Duration, pred func() bool) bool {
	deadline := time.Now().Add(d)
	stop := make(chan struct{})
	defer close(stop)
	go func() { // wake the waiter up periodically so that it notices the deadline
		t := time.NewTicker(10 * time.Millisecond)
		defer t.Stop()
		for {
			select {
			case <-stop:
				return
			case <-t.C:
				s.cv.Broadcast()
			}
		}
	}()
	s.mu.Lock()
	defer s.mu.Unlock()
	for !pred() {
		if time.Now().After(deadline) {
			return false
		}
		s.cv.Wait()
	}
	return true
}

func (s *c14srv) waitSeen(key string) *c14sconn {
	var sc *c14sconn
	s.waitFor(c14SetupWait, func() bool { sc = s.seen[key]; return sc != nil })
	return sc
}

// release answers the parked queries of the given role
func (s *c14srv) release(role string) {
	s.mu.Lock()
	var now []c14held
	var rest []c14held
	for _, h := range s.held {
		if h.role == role {
			now = append(now, h)
		} else {
			rest = append(rest, h)
		}
	}
	s.held = rest
	s.mu.Unlock()
	for _, h := range now {
		s.write(h.sc, h.reply)
	}
}

// closeServed closes (server side, FIN) n connections that carried a query of the given role
func (s *c14srv) closeServed(role string, n int) int {
	s.mu.Lock()
	var l []*c14sconn
	for _, sc := range s.conns {
		if sc.roles[role] && !sc.closed && sc.killed.IsZero() && len(l) < n {
			sc.killed = time.Now()
			l = append(l, sc)
		}
	}
	s.mu.Unlock()
	for _, sc := range l {
		sc.raw.Close()
	}
	return len(l)
}

// setScript takes the script's tokens: p-tokens (but `pidle`) are what happens to the victim's
// successive queries on pooled connections, f-tokens on fresh ones
func (s *c14srv) setScript(script []string) {
	s.mu.Lock()
	s.pscript, s.fscript, s.pi, s.fi = nil, nil, 0, 0
	for _, t := range script {
		switch {
		case t == "pidle" || t[0] == 'g':
		case t[0] == 'p':
			s.pscript = append(s.pscript, t[1:])
		case t[0] == 'f':
			s.fscript = append(s.fscript, t[1:])
		}
	}
	s.mu.Unlock()
}

func (s *c14srv) snapshot() (accepts, victimQueries int) {
	s.mu.Lock()
	defer s.mu.Unlock()
	return s.accepts, s.nseen["victim"]
}

// stopListening closes the listener only (new dials are refused)
func (s *c14srv) stopListening() { s.ln.Close() }

// leaks waits until the client has closed every connection on which the server has finished
// talking (or the grace period is over) and returns the number of those it did not close.
// Call it BEFORE closing the transport.
func (s *c14srv) leaks() int {
	s.watchers.Wait()
	s.mu.Lock()
	defer s.mu.Unlock()
	return s.leak
}

// close shuts everything down
func (s *c14srv) close() {
	s.mu.Lock()
	s.closing = true
	conns := append([]*c14sconn(nil), s.conns...)
	s.mu.Unlock()
	s.ln.Close()
	for _, sc := range conns {
		sc.raw.Close()
	}
	s.watchers.Wait()
}
