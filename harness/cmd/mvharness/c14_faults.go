package main

// C14 component "faults": the REAL transports built by upstream.NewUpstream (udp, tcp, tcp+pipeline,
// tls, tls+pipeline, http, https; quic and h3 in c14_quic.go) against scripted loopback servers, one
// fault placement per case.
//
//   case : tr=<scheme> fault=<name> loop=<pipeline|reuse|quic|doh> script=<tok,…> obs=<subset of ad|-> dl=<ms>
//     fault (what the server does; the script is the same placement as seen by the retry loop):
//       refuse     nothing listens                       noaccept  the listener's backlog is never accepted
//       rawsil/rawgar/rawfin/rawrst   right after accept, below TLS: silence / garbage bytes / FIN / RST
//       app        the script's behaviours, applied to the victim's successive queries
//       pooled     one exchange first (the connection goes back to the pool), then as `app`
//       idleclose  one exchange first, the server closes the idle connection, then as `app`
//       e500       (DoH) HTTP status 500
//       garok      (udp) an undecodable datagram, then the reply
//       tcsil      (udp) a truncated reply (after tcdelay ms), then a TCP side that reads the query and never answers
//       wstall     (pipelined tcp/tls) the server never reads; `n` large exchanges fill the socket buffers
//   out  : as in component "retry"; att = victim queries that reached the server, dials = connections
//          accepted during the victim exchange ("-" where the server cannot see them)

import (
	"context"
	"crypto/tls"
	"encoding/base64"
	"fmt"
	"io"
	"math/rand"
	"net"
	"net/http"
	"strings"
	"sync"
	"sync/atomic"
	"syscall"
	"time"

	"github.com/IrineSistiana/mosproxy/internal/upstream"
	"github.com/IrineSistiana/mosproxy/internal/upstream/transport"
	"github.com/miekg/dns"
)

func c14clientTLS() *tls.Config { return &tls.Config{InsecureSkipVerify: true} }

// server-visible behaviours of a script (pidle and g-tokens never reach the server)
func c14serverScript(script []string) []string {
	var sv []string
	for _, t := range script {
		if t == "pidle" || t[0] == 'g' {
			continue
		}
		sv = append(sv, t[1:])
	}
	return sv
}

func c14obsStr(o c14outcome, obs string, dl int) string {
	if o.setupFailed != "" {
		return "setup-failed:" + o.setupFailed
	}
	res := "err"
	if o.ok {
		res = "ok"
	}
	att, dials := "-", "-"
	if strings.Contains(obs, "a") {
		att = fmt.Sprint(o.att)
	}
	if strings.Contains(obs, "d") {
		dials = fmt.Sprint(o.dials)
	}
	return fmt.Sprintf("res=%s att=%s dials=%s t=%s woke=%s leak=%d ## el=%dms", res, att, dials,
		c14timeClass(o.el, dl), b2s(o.woke), o.leak, o.el.Milliseconds())
}

// ---- stream transports

func c14streamOnce(m map[string]string) c14outcome {
	tr, fault := m["tr"], m["fault"]
	script := strings.Split(m["script"], ",")
	dl := atoi(m["dl"])
	out := c14outcome{woke: true}
	var tlsCfg *tls.Config
	if strings.HasPrefix(tr, "tls") {
		tlsCfg = &tls.Config{Certificates: []tls.Certificate{c14tlsCert()}}
	}
	srv := c14newSrv(tlsCfg)
	addr := srv.addr()
	switch fault {
	case "refuse":
		srv.stopListening()
	case "noaccept":
		bh, err := c14newBlackhole()
		if err != nil {
			out.setupFailed = "blackhole"
			return out
		}
		defer bh.close()
		addr = bh.addr
	case "rawsil", "rawgar", "rawfin", "rawrst":
		srv.rawMode = fault[3:]
	}
	up, err := upstream.NewUpstream(tr+"://"+addr, upstream.Opt{TLSConfig: c14clientTLS()})
	if err != nil {
		out.setupFailed = "newupstream"
		srv.close()
		return out
	}
	defer func() {
		up.Close()
		srv.close()
	}()
	if fault == "pooled" || fault == "idleclose" {
		if !c14setupExchange(up, c14query("plain", 0)) {
			out.setupFailed = "first-exchange"
			return out
		}
		if fault == "idleclose" {
			if srv.closeServed("plain", 1) != 1 {
				out.setupFailed = "idle-close"
				return out
			}
			time.Sleep(30 * time.Millisecond)
		} else {
			time.Sleep(5 * time.Millisecond)
		}
	}
	if fault == "stale" {
		// k connections parked in the pool of a connection-reuse transport, `pidle` ones closed by the server
		k, nIdle := 0, 0
		for k < len(script) && script[k][0] == 'p' {
			if script[k] == "pidle" {
				nIdle++
			}
			k++
		}
		var okc atomic.Int64
		var swg sync.WaitGroup
		for i := 0; i < k; i++ {
			swg.Add(1)
			go func(i int) {
				defer swg.Done()
				if c14setupExchange(up, c14query("setup", i)) {
					okc.Add(1)
				}
			}(i)
		}
		if !srv.waitFor(c14SetupWait, func() bool { return srv.nseen["setup"] == k }) {
			out.setupFailed = "setup-queries"
			return out
		}
		srv.release("setup")
		swg.Wait()
		if int(okc.Load()) != k {
			out.setupFailed = "setup-exchanges"
			return out
		}
		if rt, ok := up.(*transport.ReuseConnTransport); ok && c14reuseIdle(rt) >= 0 {
			for i := 0; i < 300 && c14reuseIdle(rt) < k; i++ {
				time.Sleep(time.Millisecond)
			}
		} else {
			time.Sleep(40 * time.Millisecond)
		}
		if nIdle > 0 {
			if srv.closeServed("setup", nIdle) != nIdle {
				out.setupFailed = "idle-close"
				return out
			}
			time.Sleep(15 * time.Millisecond)
		}
	}
	srv.setScript(script)
	a0, _ := srv.snapshot()
	out.ok, out.el = c14timed(up, dl, c14query("victim", 0))
	a1, vq := srv.snapshot()
	if c14scriptSilent(script) {
		a1, vq = c14settle(srv.snapshot)
	}
	out.dials, out.att = a1-a0, vq
	out.leak = srv.leaks()
	return out
}

// ---- write stall: the server accepts and never reads

func c14smallBuf(network, address string, c syscall.RawConn) error {
	return c.Control(func(fd uintptr) {
		syscall.SetsockoptInt(int(fd), syscall.SOL_SOCKET, syscall.SO_SNDBUF, 4096)
		syscall.SetsockoptInt(int(fd), syscall.SOL_SOCKET, syscall.SO_RCVBUF, 4096)
	})
}

func c14wstallOnce(m map[string]string) c14outcome {
	tr := m["tr"]
	n, size, dl := atoi(m["n"]), atoi(m["size"]), atoi(m["dl"])
	out := c14outcome{woke: true}
	lc := net.ListenConfig{}
	opt := upstream.Opt{TLSConfig: c14clientTLS()}
	if m["buf"] == "small" {
		lc.Control = c14smallBuf
		opt.Control = c14smallBuf
	}
	ln := c14listenTCP(&lc)
	var mu sync.Mutex
	var conns []net.Conn
	go func() {
		for {
			c, err := ln.Accept()
			if err != nil {
				return
			}
			mu.Lock()
			conns = append(conns, c)
			mu.Unlock()
			if strings.HasPrefix(tr, "tls") {
				// complete the handshake, then stop reading
				go func() {
					tc := tls.Server(c, &tls.Config{Certificates: []tls.Certificate{c14tlsCert()}})
					c.SetDeadline(time.Now().Add(3 * time.Second))
					tc.Handshake()
					c.SetDeadline(time.Time{})
				}()
			}
		}
	}()
	up, err := upstream.NewUpstream(tr+"://"+ln.Addr().String(), opt)
	if err != nil {
		ln.Close()
		out.setupFailed = "newupstream"
		return out
	}
	base := c14query("victim", 0)
	var wg sync.WaitGroup
	var maxEl, nOk atomic.Int64 // maxEl: the worst (elapsed − own deadline) + dl
	mix := m["mix"] == "1"
	for i := 0; i < n; i++ {
		wg.Add(1)
		own := dl
		if mix && i%4 == 0 {
			own = 5 * dl // a few patient exchanges: the impatient ones must not wait for them
		}
		go func(own int) {
			defer wg.Done()
			q := make([]byte, size)
			copy(q, base)
			ctx, cancel := context.WithTimeout(context.Background(), time.Duration(own)*time.Millisecond)
			defer cancel()
			t0 := time.Now()
			if c14do(up, ctx, q) {
				nOk.Add(1)
			}
			el := int64(time.Since(t0)) - int64(time.Duration(own-dl)*time.Millisecond)
			for {
				old := maxEl.Load()
				if el <= old || maxEl.CompareAndSwap(old, el) {
					break
				}
			}
		}(own)
		time.Sleep(2 * time.Millisecond)
	}
	done := make(chan struct{})
	go func() { wg.Wait(); close(done) }()
	select {
	case <-done:
		out.el = time.Duration(maxEl.Load())
	case <-time.After(time.Duration(5*dl)*time.Millisecond + c14Slack + time.Second):
		// somebody is still blocked: see for how long (bounded), for the report
		select {
		case <-done:
			out.el = time.Duration(maxEl.Load())
		case <-time.After(7 * time.Second):
			out.el = time.Hour
		}
	}
	up.Close()
	ln.Close()
	mu.Lock()
	for _, c := range conns {
		c.Close()
	}
	mu.Unlock()
	<-done
	out.ok = nOk.Load() > 0
	return out
}

// ---- write stall, ordered: an exchange with an EARLIER deadline is blocked in Write (the server
// never reads, small socket buffers), exchanges with a LATER deadline / with NO deadline are queued
// behind it on the same connection. Each must return by its own deadline: the socket's write
// deadline in force while an exchange is blocked in Write must be that exchange's own.
//   case : tr=<tcp+pipeline|tls+pipeline> fault=wqueue later=<0|1> nodl=<0|1> size=65000 … dl=<ms of the first exchange>
//   the reported elapsed time is dl + the worst (elapsed − own deadline) over the exchanges that have one

func c14wqueueOnce(m map[string]string) c14outcome {
	tr := m["tr"]
	size, dl := atoi(m["size"]), atoi(m["dl"])
	out := c14outcome{woke: true}
	lc := net.ListenConfig{Control: c14smallBuf}
	opt := upstream.Opt{TLSConfig: c14clientTLS(), Control: c14smallBuf}
	ln := c14listenTCP(&lc)
	var mu sync.Mutex
	var conns []net.Conn
	go func() {
		for {
			c, err := ln.Accept()
			if err != nil {
				return
			}
			mu.Lock()
			conns = append(conns, c)
			mu.Unlock()
			if strings.HasPrefix(tr, "tls") {
				go func() {
					tc := tls.Server(c, &tls.Config{Certificates: []tls.Certificate{c14tlsCert()}})
					c.SetDeadline(time.Now().Add(3 * time.Second))
					tc.Handshake()
					c.SetDeadline(time.Time{})
				}()
			}
		}
	}()
	up, err := upstream.NewUpstream(tr+"://"+ln.Addr().String(), opt)
	if err != nil {
		ln.Close()
		out.setupFailed = "newupstream"
		return out
	}
	const startGap, laterBy = 100, 900 // ms
	var wg sync.WaitGroup
	var worst atomic.Int64 // worst (elapsed − own deadline), ns; starts very negative
	worst.Store(-int64(time.Hour))
	run := func(own int, q []byte) {
		wg.Add(1)
		go func() {
			defer wg.Done()
			ctx, cancel := context.WithTimeout(context.Background(), time.Duration(own)*time.Millisecond)
			defer cancel()
			t0 := time.Now()
			c14do(up, ctx, q)
			over := int64(time.Since(t0)) - int64(time.Duration(own)*time.Millisecond)
			for {
				old := worst.Load()
				if over <= old || worst.CompareAndSwap(old, over) {
					break
				}
			}
		}()
	}
	big := make([]byte, size)
	copy(big, c14query("victim", 0))
	run(dl, big) // blocks in Write at once
	time.Sleep(startGap * time.Millisecond)
	if m["later"] == "1" {
		run(dl+laterBy, c14query("victim", 1))
	}
	nodlCtx, nodlCancel := context.WithCancel(context.Background())
	nodlDone := make(chan struct{})
	if m["nodl"] == "1" {
		time.Sleep(10 * time.Millisecond)
		go func() { // no deadline at all: not measured, only there to queue behind the writer
			c14do(up, nodlCtx, c14query("victim", 2))
			close(nodlDone)
		}()
	} else {
		close(nodlDone)
	}
	limit := time.Duration(dl+laterBy+startGap)*time.Millisecond + c14Slack + c14Hard
	if c14waitTimeout(&wg, limit) {
		out.el = time.Duration(dl)*time.Millisecond + time.Duration(worst.Load())
	} else {
		out.el = time.Hour // somebody with a deadline is still blocked
	}
	nodlCancel()
	up.Close()
	ln.Close()
	mu.Lock()
	for _, c := range conns {
		c.Close()
	}
	mu.Unlock()
	c14waitTimeout(&wg, 8*time.Second)
	select {
	case <-nodlDone:
	case <-time.After(8 * time.Second):
	}
	return out
}

// ---- the idle deadline of a pooled connection fires while a query is in flight on it, the server
// is healthy (it just answers after `delay` ms): the exchange must be retried on a new connection
// and succeed.
//   case : tr=<tcp+pipeline|tls+pipeline|udp> fault=idlefire idle=<ms> delay=<ms> … dl=<ms>
//   tcp/tls: upstream.NewUpstream with Opt.IdleTimeout; udp: transport.NewPipelineTransport over a udp
//   socket (NewUpstream fixes the udp idle time-out at one minute).
//   The read deadline is armed before each read only, so it fires `idle` after the first reply; the
//   victim is sent delay/2 before that. If the race did not happen as scripted (the victim's query
//   was not seen on both connections) the run is repeated, a few times.

func c14idlefireOnce(m map[string]string) (out c14outcome, scripted bool) {
	tr := m["tr"]
	idle := time.Duration(atoi(m["idle"])) * time.Millisecond
	delay := time.Duration(atoi(m["delay"])) * time.Millisecond
	dl := atoi(m["dl"])
	out = c14outcome{woke: true}
	var up c14exchanger
	var firstReply func() time.Time
	var victimConns func() int
	var cleanup func()
	if tr == "udp" {
		pc := c14listenUDP()
		var mu sync.Mutex
		var t1 time.Time
		from := map[string]bool{}
		go func() {
			buf := make([]byte, 4096)
			for {
				n, addr, err := pc.ReadFromUDP(buf)
				if err != nil {
					return
				}
				q := new(dns.Msg)
				if q.Unpack(buf[:n]) != nil {
					continue
				}
				role, _ := c14role(q)
				rb := c14reply(q)
				go func() {
					time.Sleep(delay)
					mu.Lock()
					if role == "plain" && t1.IsZero() {
						t1 = time.Now()
					}
					if role == "victim" {
						from[addr.String()] = true
					}
					mu.Unlock()
					pc.WriteToUDP(rb, addr)
				}()
				if role == "victim" {
					mu.Lock()
					from[addr.String()] = true
					mu.Unlock()
				}
			}
		}()
		addr := pc.LocalAddr().String()
		up = transport.NewPipelineTransport(transport.PipelineOpts{
			DialContext: func(ctx context.Context) (net.Conn, error) {
				return (&net.Dialer{}).DialContext(ctx, "udp", addr)
			},
			IsTCP: false, IdleTimeout: idle, MaxConcurrentQuery: 4096,
		})
		firstReply = func() time.Time { mu.Lock(); defer mu.Unlock(); return t1 }
		victimConns = func() int { mu.Lock(); defer mu.Unlock(); return len(from) }
		cleanup = func() { pc.Close() }
	} else {
		var tlsCfg *tls.Config
		if strings.HasPrefix(tr, "tls") {
			tlsCfg = &tls.Config{Certificates: []tls.Certificate{c14tlsCert()}}
		}
		srv := c14newSrv(tlsCfg)
		srv.delay = delay
		u, err := upstream.NewUpstream(tr+"://"+srv.addr(), upstream.Opt{TLSConfig: c14clientTLS(), IdleTimeout: idle})
		if err != nil {
			srv.close()
			out.setupFailed = "newupstream"
			return out, false
		}
		up = u
		firstReply = func() time.Time { srv.mu.Lock(); defer srv.mu.Unlock(); return srv.firstDelayed }
		victimConns = func() int { srv.mu.Lock(); defer srv.mu.Unlock(); return len(srv.victimConns) }
		cleanup = srv.close
	}
	defer func() {
		up.Close()
		cleanup()
	}()
	if !c14setupExchange(up, c14query("plain", 0)) {
		out.setupFailed = "first-exchange"
		return out, false
	}
	t1 := firstReply()
	if t1.IsZero() {
		out.setupFailed = "first-reply-time"
		return out, false
	}
	// the idle deadline fires at about t1 + idle; send the victim delay/2 before that
	if d := time.Until(t1.Add(idle - delay/2)); d > 0 {
		time.Sleep(d)
	}
	out.ok, out.el = c14timed(up, dl, c14query("victim", 0))
	return out, victimConns() == 2
}

func c14idlefireRun(m map[string]string) c14outcome {
	var out c14outcome
	for i := 0; i < 4; i++ {
		var scripted bool
		out, scripted = c14idlefireOnce(m)
		if scripted && out.setupFailed == "" {
			break
		}
	}
	return out
}

// ---- udp

func c14udpOnce(m map[string]string) c14outcome {
	fault := m["fault"]
	script := strings.Split(m["script"], ",")
	dl := atoi(m["dl"])
	out := c14outcome{woke: true}
	pc := c14listenUDP()
	addr := pc.LocalAddr().String()
	sv := c14serverScript(script)
	var vq atomic.Int64
	if fault == "tcsil" {
		// the victim's reply is truncated (TC, after tcdelay ms) and the TCP side of the same address accepts,
		// reads the query and never answers: the retry over TCP is part of the same exchange, so the exchange
		// still ends by the caller's deadline
		tl, err := net.Listen("tcp", addr)
		if err != nil {
			out.setupFailed = "tcp-listen"
			return out
		}
		defer tl.Close()
		go func() {
			for {
				c, err := tl.Accept()
				if err != nil {
					return
				}
				go func() { defer c.Close(); io.Copy(io.Discard, c) }()
			}
		}()
	}
	if fault == "refuse" {
		pc.Close()
	} else {
		defer pc.Close()
		go func() {
			buf := make([]byte, 65535)
			vi := 0
			for {
				n, from, err := pc.ReadFromUDP(buf)
				if err != nil {
					return
				}
				q := new(dns.Msg)
				if q.Unpack(buf[:n]) != nil {
					continue
				}
				role, _ := c14role(q)
				beh := "ok"
				if role == "victim" {
					vq.Add(1)
					if vi < len(sv) {
						beh = sv[vi]
					}
					vi++
					if fault == "garok" || fault == "gar" {
						beh = fault
					}
					if fault == "tcsil" {
						beh = "tc"
					}
				}
				switch beh {
				case "ok":
					pc.WriteToUDP(c14reply(q), from)
				case "gar":
					pc.WriteToUDP(c14garbage(q.Id), from)
				case "garok":
					pc.WriteToUDP(c14garbage(q.Id), from)
					pc.WriteToUDP(c14reply(q), from)
				case "half":
					pc.WriteToUDP(c14reply(q)[:7], from)
				case "tc":
					rb := c14reply(q)
					rb[2] |= 0x02
					d := time.Duration(atoi(m["tcdelay"])) * time.Millisecond
					go func() { time.Sleep(d); pc.WriteToUDP(rb, from) }()
				}
			}
		}()
	}
	up, err := upstream.NewUpstream(addr, upstream.Opt{})
	if err != nil {
		out.setupFailed = "newupstream"
		return out
	}
	defer up.Close()
	if fault == "pooled" {
		if !c14setupExchange(up, c14query("plain", 0)) {
			out.setupFailed = "first-exchange"
			return out
		}
	}
	out.ok, out.el = c14timed(up, dl, c14query("victim", 0))
	out.att = int(vq.Load())
	if c14scriptSilent(script) {
		out.att, _ = c14settle(func() (int, int) { return int(vq.Load()), 0 })
	}
	return out
}

// ---- DoH (http = HTTP/1.1 in clear, https = TLS, h2)

type c14rawListener struct {
	net.Listener
	mu    sync.Mutex
	mode  string
	conns []net.Conn
	n     int
}

func (l *c14rawListener) Accept() (net.Conn, error) {
	for {
		c, err := l.Listener.Accept()
		if err != nil {
			return nil, err
		}
		l.mu.Lock()
		l.conns = append(l.conns, c)
		l.n++
		mode := l.mode
		l.mu.Unlock()
		switch mode {
		case "sil":
			continue
		case "gar":
			c.Write([]byte("\x00\x14this is not http or tls\r\n\r\n"))
			continue
		case "fin":
			c.Close()
			continue
		case "rst":
			if t, ok := c.(*net.TCPConn); ok {
				t.SetLinger(0)
			}
			c.Close()
			continue
		}
		return c, nil
	}
}

func (l *c14rawListener) closeConns() {
	l.mu.Lock()
	defer l.mu.Unlock()
	for _, c := range l.conns {
		c.Close()
	}
	l.conns = nil
}

func c14dohOnce(m map[string]string) c14outcome {
	tr, fault := m["tr"], m["fault"]
	script := strings.Split(m["script"], ",")
	dl := atoi(m["dl"])
	out := c14outcome{woke: true}
	base := c14listenTCP(nil)
	ln := &c14rawListener{Listener: base}
	addr := base.Addr().String()
	sv := c14serverScript(script)
	stop := make(chan struct{})
	var mu sync.Mutex
	vi := 0
	handler := http.HandlerFunc(func(w http.ResponseWriter, r *http.Request) {
		b, err := base64.RawURLEncoding.DecodeString(r.URL.Query().Get("dns"))
		q := new(dns.Msg)
		if err != nil || q.Unpack(b) != nil {
			w.WriteHeader(400)
			return
		}
		role, _ := c14role(q)
		beh := "ok"
		if role == "victim" {
			mu.Lock()
			if vi < len(sv) {
				beh = sv[vi]
			}
			vi++
			mu.Unlock()
			if fault == "e500" {
				beh = "e500"
			}
		}
		switch beh {
		case "ok":
			w.Header().Set("Content-Type", "application/dns-message")
			w.Write(c14reply(q))
		case "gar", "resp":
			w.Header().Set("Content-Type", "application/dns-message")
			w.Write(c14garbage(0))
		case "e500":
			w.WriteHeader(500)
		case "half":
			rb := c14reply(q)
			w.Header().Set("Content-Type", "application/dns-message")
			w.Header().Set("Content-Length", fmt.Sprint(len(rb)))
			w.Write(rb[:len(rb)/2])
			if f, ok := w.(http.Flusher); ok {
				f.Flush()
			}
			select {
			case <-r.Context().Done():
			case <-stop:
			}
		case "sil":
			select {
			case <-r.Context().Done():
			case <-stop:
			}
		case "fin", "rst":
			if m["cut"] == "1" { // the connection dies after the response header and half of the body
				rb := c14reply(q)
				w.Header().Set("Content-Type", "application/dns-message")
				w.Header().Set("Content-Length", fmt.Sprint(len(rb)))
				w.Write(rb[:len(rb)/2])
				if f, ok := w.(http.Flusher); ok {
					f.Flush()
				}
			}
			panic(http.ErrAbortHandler)
		}
	})
	hs := &http.Server{Handler: handler}
	if tr == "https" {
		hs.TLSConfig = &tls.Config{Certificates: []tls.Certificate{c14tlsCert()}}
		go hs.ServeTLS(ln, "", "")
	} else {
		go hs.Serve(ln)
	}
	var bh *c14blackhole
	var err error
	switch fault {
	case "refuse":
		hs.Close()
	case "noaccept":
		if bh, err = c14newBlackhole(); err != nil {
			out.setupFailed = "blackhole"
			hs.Close()
			return out
		}
		addr = bh.addr
	case "rawsil", "rawgar", "rawfin", "rawrst":
		ln.mu.Lock()
		ln.mode = fault[3:]
		ln.mu.Unlock()
	}
	up, err := upstream.NewUpstream(tr+"://"+addr+"/dns-query", upstream.Opt{TLSConfig: c14clientTLS()})
	if err != nil {
		hs.Close()
		out.setupFailed = "newupstream"
		return out
	}
	defer func() {
		close(stop)
		up.Close()
		hs.Close()
		ln.closeConns()
		if bh != nil {
			bh.close()
		}
	}()
	if fault == "pooled" || fault == "idleclose" {
		if !c14setupExchange(up, c14query("plain", 0)) {
			out.setupFailed = "first-exchange"
			return out
		}
		if fault == "idleclose" {
			ln.closeConns()
			time.Sleep(30 * time.Millisecond)
		}
	}
	out.ok, out.el = c14timed(up, dl, c14query("victim", 0))
	return out
}

// ---- dispatch

func c14faultsOnce(m map[string]string) c14outcome {
	switch {
	case m["fault"] == "wstall":
		return c14wstallOnce(m)
	case m["fault"] == "wqueue":
		return c14wqueueOnce(m)
	case m["fault"] == "idlefire":
		return c14idlefireRun(m)
	case m["tr"] == "udp":
		return c14udpOnce(m)
	case m["tr"] == "https" && (m["fault"] == "busyclose" || (m["fault"] == "idleclose" && m["k"] != "")):
		return c14dohStaleOnce(m)
	case m["tr"] == "http" || m["tr"] == "https":
		return c14dohOnce(m)
	case m["tr"] == "quic" || m["tr"] == "h3":
		return c14quicOnce(m)
	}
	return c14streamOnce(m)
}

func c14faultsExec(cs string) string {
	m := kv(cs)
	script := strings.Split(m["script"], ",")
	dl := atoi(m["dl"])
	o := c14faultsOnce(m)
	if o.setupFailed != "" || c14timingOdd(script, c14timeClass(o.el, dl)) {
		o = c14faultsOnce(m)
	}
	return c14obsStr(o, m["obs"], dl)
}

var c14faultsCache c14cache

func c14faultsRun(cs string) string { return c14faultsCache.run(cs, c14faultsExec) }

// ---- generator: the fault × transport matrix

type c14fault struct {
	fault, script, obs string
}

func c14loopOf(tr string) string {
	switch tr {
	case "udp", "tcp+pipeline", "tls+pipeline":
		return "pipeline"
	case "tcp", "tls":
		return "reuse"
	case "quic":
		return "quic"
	}
	return "doh"
}

func c14matrix(tr string) []c14fault {
	var l []c14fault
	add := func(f, s, o string) { l = append(l, c14fault{f, s, o}) }
	switch tr {
	case "udp":
		add("app", "fok", "a")
		add("refuse", "frst", "-") // ICMP port unreachable: the socket's read fails
		add("app", "fsil", "a")
		add("app", "fhalf", "a") // a truncated datagram is skipped
		add("gar", "fsil", "a")  // an undecodable datagram alone is skipped: silence
		add("garok", "fok", "a") // … and does not end the exchange
		add("pooled", "pok", "a")
		add("pooled", "psil", "a")
		add("tcsil", "fsil", "-") // truncated reply, then a TCP side that never answers: still the caller's deadline
	case "http", "https":
		add("app", "fok", "-")
		add("refuse", "gR", "-")
		add("noaccept", "gB", "-")
		add("app", "fsil", "-")
		add("app", "fhalf", "-")
		add("app", "fresp", "-")
		add("e500", "fresp", "-")
		add("app", "ffin", "-")
		add("rawfin", "gR", "-")
		add("rawrst", "gR", "-")
		add("rawgar", "gR", "-")
		add("rawsil", "gB", "-")
		add("idleclose", "fok", "-") // net/http redials by itself
		add("pooled", "fok", "-")
		add("pooled", "fsil", "-")
		// the server kills the reused connection under the victim's request: before any response, or after the
		// response header in the middle of the body (cut=1); the exchange is retried on a new connection
		add("pooled", "pfin,fok", "-")
		add("pooledcut", "pfin,fok", "-")
	default: // tcp, tls, with and without pipelining
		isTLS := strings.HasPrefix(tr, "tls")
		add("app", "fok", "ad")
		add("refuse", "gR", "-")
		add("noaccept", "gB", "-")
		for _, b := range []string{"sil", "half", "gar", "fin", "rst"} {
			add("app", "f"+b, "ad")
		}
		if isTLS {
			add("rawsil", "gB", "d")
			add("rawgar", "gR", "d")
			add("rawfin", "gR", "d")
			add("rawrst", "gR", "d")
		} else {
			add("rawfin", "ffin", "d")
			add("rawrst", "frst", "d")
		}
		add("idleclose", "pidle,fok", "d")
		add("pooled", "pok", "ad")
		for _, b := range []string{"fin", "rst", "gar"} {
			add("pooled", "p"+b+",fok", "ad")
			add("pooled", "p"+b+",f"+b, "ad")
		}
		add("pooled", "pfin,fsil", "ad")
		add("pooled", "psil", "ad")
		add("pooled", "phalf", "ad")
		if tr == "tcp" || tr == "tls" {
			// several stale connections in the pool of the real upstream: up to and beyond the budget
			rep := func(tok string, k int, tail string) string {
				return strings.TrimSuffix(strings.Repeat(tok+",", k)+tail, ",")
			}
			add("stale", rep("pidle", 3, "fok"), "d")
			add("stale", rep("pidle", 6, "fok"), "d")
			add("stale", rep("pidle", 7, "fok"), "d")
			add("stale", rep("pidle", 12, "fok"), "d")
			add("stale", rep("pfin", 8, "ffin"), "ad")
			add("stale", rep("pfin", 6, "fok"), "ad")
			add("stale", rep("prst", 7, "fok"), "ad")
			add("stale", "pgar,pidle,pfin,prst,ffin", "d")
			add("stale", rep("pgar", 2, "pok"), "ad")
		}
	}
	return l
}

func c14faultCase(r *rand.Rand, tr string, f c14fault) c14case {
	script := strings.Split(f.script, ",")
	cs := fmt.Sprintf("tr=%s fault=%s loop=%s script=%s obs=%s dl=%d", tr, f.fault, c14loopOf(tr), f.script, f.obs, c14dlFor(r, script))
	if f.fault == "pooledcut" {
		cs = strings.Replace(cs, "fault=pooledcut", "fault=pooled cut=1", 1)
	}
	if f.fault == "tcsil" {
		cs += fmt.Sprintf(" tcdelay=%d", []int{0, 40, 150}[r.Intn(3)])
	}
	return c14case{cs, tr + "/" + f.fault + "/" + f.script}
}

func c14faultsGen(r *rand.Rand, thorough bool, emit func(c, cat string)) {
	var cases []c14case
	trs := []string{"udp", "tcp", "tcp+pipeline", "tls", "tls+pipeline", "http", "https"}
	for _, tr := range trs {
		mx := c14matrix(tr)
		if !thorough {
			// quick: every prompt placement, a rotating third of the ones that cost a deadline
			var keep []c14fault
			ns := 0
			off := r.Intn(3)
			for _, f := range mx {
				if f.fault != "tcsil" && c14scriptSilent(strings.Split(f.script, ",")) {
					ns++
					if (ns+off)%3 != 0 {
						continue
					}
				}
				keep = append(keep, f)
			}
			mx = keep
		}
		for _, f := range mx {
			cases = append(cases, c14faultCase(r, tr, f))
		}
	}
	cases = append(cases, c14quicCases(r, thorough)...)
	// the write stall (fixed by b2d058a): small socket buffers in quick, the default ones in thorough
	cases = append(cases, c14case{fmt.Sprintf("tr=tcp+pipeline fault=wstall buf=small n=24 size=65000 loop=pipeline script=fsil obs=- dl=%d", 300+r.Intn(60)), "wstall-small-tcp"})
	cases = append(cases, c14case{fmt.Sprintf("tr=tls+pipeline fault=wstall buf=small n=24 size=65000 loop=pipeline script=fsil obs=- dl=%d", 300+r.Intn(60)), "wstall-small-tls"})
	cases = append(cases, c14case{fmt.Sprintf("tr=tcp+pipeline fault=wstall buf=small mix=1 n=24 size=65000 loop=pipeline script=fsil obs=- dl=%d", 240+r.Intn(40)), "wstall-mixed-deadlines"})
	// the write deadline in force belongs to the exchange that is writing: an earlier-deadline exchange
	// blocked in Write, later-deadline / no-deadline exchanges queued behind it
	cases = append(cases, c14case{fmt.Sprintf("tr=tcp+pipeline fault=wqueue later=1 nodl=1 size=65000 loop=pipeline script=fsil obs=- dl=%d", 280+r.Intn(60)), "wqueue-tcp"})
	// the idle deadline of a pooled connection fires under a query in flight, healthy (slow) server
	cases = append(cases, c14case{fmt.Sprintf("tr=tcp+pipeline fault=idlefire idle=%d delay=300 loop=pipeline script=pfin,fok obs=- dl=2400", 480+r.Intn(60)), "idlefire-tcp"})
	if thorough {
		for _, tr := range []string{"tcp+pipeline", "tls+pipeline"} {
			for _, v := range []string{"later=1 nodl=0", "later=0 nodl=1", "later=1 nodl=1"} {
				cases = append(cases, c14case{fmt.Sprintf("tr=%s fault=wqueue %s size=%d loop=pipeline script=fsil obs=- dl=%d", tr, v, 40000+r.Intn(25000), 260+r.Intn(100)), "wqueue-" + tr})
			}
		}
		for _, tr := range []string{"tls+pipeline", "udp", "tcp+pipeline"} {
			cases = append(cases, c14case{fmt.Sprintf("tr=%s fault=idlefire idle=%d delay=%d loop=pipeline script=pfin,fok obs=- dl=2400", tr, 450+r.Intn(150), 260+r.Intn(80)), "idlefire-" + tr})
		}
		cases = append(cases, c14case{"tr=tls+pipeline fault=wstall buf=default n=400 size=65000 loop=pipeline script=fsil obs=- dl=350", "wstall-default-tls"})
		cases = append(cases, c14case{"tr=tcp+pipeline fault=wstall buf=default n=400 size=65000 loop=pipeline script=fsil obs=- dl=350", "wstall-default-tcp"})
	}
	var list []string
	for _, c := range cases {
		list = append(list, c.cs)
	}
	workers := 8
	c14faultsCache.precompute(list, workers, c14faultsExec)
	for _, c := range cases {
		emit(c.cs, c.cat)
	}
}

func init() {
	register("faults", &component{gen: c14faultsGen, run: c14faultsRun})
}
