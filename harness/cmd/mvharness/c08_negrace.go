package main

// C08 component "negrace": an error response never displaces a live positive entry — under concurrency.
// The history (replayed `rounds` times by each of `workers` goroutines, each round with a fresh name) is the one
// of Model/StoreRace: the memory cache still holds the EXPIRED entry of the name (the backend keeps it until its
// clean-up gets there), and two fetches of the name complete at the same moment — one brought the address
// (ttl 300, a plain store), the other NXDOMAIN (a set-if-absent store). After both stores have returned the
// name is looked up: it must be the address, whatever the interleaving of the two stores was
// (`Lemmas/StoreRace.locked_final_is_plain`).
//
//   case : rounds=<n> workers=<w> seed=<s>
//   out  : displaced=<lookups that did not return the positive answer> setupbad=<rounds in which the expired entry was served>

import (
	"fmt"
	"math/rand"
	"runtime"
	"sync"
	"sync/atomic"
	"time"

	"github.com/IrineSistiana/mosproxy/internal/dnsmsg"
	"github.com/miekg/dns"
)

func c08negraceRun(cs string) string {
	m := kv(cs)
	rounds, workers := atoi(m["rounds"]), atoi(m["workers"])
	if workers < 1 {
		workers = 1
	}
	r := c08router(0, false)
	var displaced, setupbad atomic.Int64
	var wg sync.WaitGroup
	for w := 0; w < workers; w++ {
		wg.Add(1)
		go func() {
			defer wg.Done()
			for i := 0; i < rounds && displaced.Load() == 0; i++ {
				nonce := c08nonce.Add(1)
				q := c08question(nonce)
				name := c08name(nonce, 0)
				pos := c08mkMsg(name, 1, dns.RcodeSuccess, false, []c08rr{{typ: dns.TypeA, ttl: 300}}, nil, nil)
				neg := c08mkMsg(name, 2, dns.RcodeNameError, false, nil, nil, nil)
				// 1. the expired leftover
				now := time.Now()
				if !r.CacheStoreAt(q, c08remote.Addr(), pos, now.Add(-10*time.Second), now.Add(-time.Millisecond)) {
					setupbad.Add(1)
					return
				}
				if g, _, _ := r.CacheGet(q, c08remote); g != nil {
					dnsmsg.ReleaseMsg(g)
					setupbad.Add(1)
				}
				// 2. both fetches complete now
				var start, done sync.WaitGroup
				var gate atomic.Bool
				start.Add(2)
				done.Add(2)
				for _, resp := range []*dnsmsg.Msg{pos, neg} {
					resp := resp
					go func() {
						defer done.Done()
						start.Done()
						for !gate.Load() {
						}
						r.CacheStore(q, c08remote.Addr(), resp)
					}()
				}
				start.Wait()
				gate.Store(true)
				done.Wait()
				// 3. the lookup
				g, _, _ := r.CacheGet(q, c08remote)
				if g == nil || g.Header.RCode != dnsmsg.RCodeSuccess || len(g.Answers) != 1 {
					displaced.Add(1)
				}
				if g != nil {
					dnsmsg.ReleaseMsg(g)
				}
				dnsmsg.ReleaseMsg(pos)
				dnsmsg.ReleaseMsg(neg)
				dnsmsg.ReleaseQuestion(q)
			}
		}()
	}
	wg.Wait()
	return fmt.Sprintf("displaced=%d setupbad=%d", displaced.Load(), setupbad.Load())
}

func c08negraceGen(r *rand.Rand, thorough bool, emit func(c, cat string)) {
	if runtime.GOMAXPROCS(0) < 2 {
		return // the two stores have to run at the same time
	}
	rounds := 1500
	if thorough {
		rounds = 40000
	}
	emit(fmt.Sprintf("rounds=%d workers=4 seed=%d", rounds, r.Intn(1<<30)), "negrace")
}

func init() {
	register("negrace", &component{gen: c08negraceGen, run: c08negraceRun, setup: c08setup})
}
