package main

// C18: local servers of every upstream kind (they hold every reply until the script releases it) and the
// `auto` mode of the closeproto component: upstream.NewUpstream against these servers.

import (
	"context"
	"crypto/tls"
	"encoding/base64"
	"encoding/binary"
	"errors"
	"fmt"
	"io"
	"math/rand"
	"net"
	"net/http"
	"sort"
	"strconv"
	"strings"
	"sync"
	"time"

	"github.com/IrineSistiana/mosproxy/internal/testutils"
	"github.com/IrineSistiana/mosproxy/internal/upstream"
	"github.com/quic-go/quic-go"
	"github.com/quic-go/quic-go/http3"
)

type c18pending struct {
	query []byte
	reply func([]byte) bool
}

type c18servers struct {
	once    sync.Once
	mu      sync.Mutex
	pending map[int]*c18pending // nonce -> held query
	hold    bool                // false: answer at once
	addr    map[string]string   // upstream kind -> address for NewUpstream
	seq     int
}

var c18up c18servers

func (s *c18servers) got(msg []byte, reply func([]byte) bool) {
	n := c18Nonce(msg)
	s.mu.Lock()
	hold := s.hold
	if hold {
		s.pending[n] = &c18pending{query: msg, reply: reply}
	}
	s.mu.Unlock()
	if !hold {
		reply(c18Reply(msg))
	}
}

func (s *c18servers) seen(nonce int) bool {
	s.mu.Lock()
	defer s.mu.Unlock()
	return s.pending[nonce] != nil
}

func (s *c18servers) release(nonce int) bool {
	s.mu.Lock()
	p := s.pending[nonce]
	delete(s.pending, nonce)
	s.mu.Unlock()
	if p == nil {
		return false
	}
	return p.reply(c18Reply(p.query))
}

// releaseTC answers the held UDP query with TC=1 (the udp upstream then retries over TCP)
func (s *c18servers) releaseTC(nonce int) bool {
	s.mu.Lock()
	p := s.pending[nonce]
	delete(s.pending, nonce)
	s.mu.Unlock()
	if p == nil {
		return false
	}
	r := c18Reply(p.query)
	r[2] |= 0x02
	return p.reply(r)
}

func (s *c18servers) serveStream(c net.Conn) {
	defer c.Close()
	var wm sync.Mutex
	for {
		var lb [2]byte
		if _, err := io.ReadFull(c, lb[:]); err != nil {
			return
		}
		b := make([]byte, binary.BigEndian.Uint16(lb[:]))
		if _, err := io.ReadFull(c, b); err != nil {
			return
		}
		s.got(b, func(rep []byte) bool {
			f := make([]byte, 2+len(rep))
			binary.BigEndian.PutUint16(f, uint16(len(rep)))
			copy(f[2:], rep)
			wm.Lock()
			defer wm.Unlock()
			c.SetWriteDeadline(time.Now().Add(time.Second))
			_, err := c.Write(f)
			return err == nil
		})
	}
}

func (s *c18servers) httpHandler() http.Handler {
	return http.HandlerFunc(func(w http.ResponseWriter, r *http.Request) {
		b, err := base64.RawURLEncoding.DecodeString(r.URL.Query().Get("dns"))
		if err != nil {
			w.WriteHeader(400)
			return
		}
		ch := make(chan []byte, 1)
		s.got(b, func(rep []byte) bool {
			select {
			case ch <- rep:
				return true
			default:
				return false
			}
		})
		select {
		case rep := <-ch:
			w.Header().Set("Content-Type", "application/dns-message")
			w.Write(rep)
		case <-r.Context().Done():
		case <-time.After(20 * time.Second):
		}
	})
}

func c18ServersSetup() {
	c18Setup()
	s := &c18up
	s.once.Do(func() {
		s.pending = map[int]*c18pending{}
		s.addr = map[string]string{}
		s.hold = true
		cert, err := testutils.GenerateCertificate("test.test")
		if err != nil {
			panic(err)
		}
		tlsCfg := &tls.Config{Certificates: []tls.Certificate{cert}}
		// udp, and a tcp listener on the same port for the TC fallback of the udp upstream
		var uc *net.UDPConn
		var fl net.Listener
		for i := 0; ; i++ {
			uc, err = net.ListenUDP("udp", &net.UDPAddr{IP: net.IPv4(127, 0, 0, 1)})
			if err != nil {
				panic(err)
			}
			fl, err = net.Listen("tcp", uc.LocalAddr().String())
			if err == nil {
				break
			}
			uc.Close()
			if i > 50 {
				panic(err)
			}
		}
		go func() {
			buf := make([]byte, 4096)
			for {
				n, a, err := uc.ReadFromUDP(buf)
				if err != nil {
					return
				}
				m := append([]byte(nil), buf[:n]...)
				s.got(m, func(rep []byte) bool { _, err := uc.WriteToUDP(rep, a); return err == nil })
			}
		}()
		s.addr["udp"] = "udp://" + uc.LocalAddr().String()
		// tcp, tls
		listen := func(l net.Listener) {
			go func() {
				for {
					c, err := l.Accept()
					if err != nil {
						return
					}
					go s.serveStream(c)
				}
			}()
		}
		listen(fl)
		tl, err := net.Listen("tcp", "127.0.0.1:0")
		if err != nil {
			panic(err)
		}
		listen(tl)
		s.addr["tcp"] = "tcp://" + tl.Addr().String()
		s.addr["tcp+pipeline"] = "tcp+pipeline://" + tl.Addr().String()
		sl, err := tls.Listen("tcp", "127.0.0.1:0", tlsCfg)
		if err != nil {
			panic(err)
		}
		listen(sl)
		s.addr["tls"] = "tls://" + sl.Addr().String()
		s.addr["tls+pipeline"] = "tls+pipeline://" + sl.Addr().String()
		// http, https
		hl, err := net.Listen("tcp", "127.0.0.1:0")
		if err != nil {
			panic(err)
		}
		go (&http.Server{Handler: s.httpHandler()}).Serve(hl)
		s.addr["http"] = "http://" + hl.Addr().String() + "/dns-query"
		hsl, err := net.Listen("tcp", "127.0.0.1:0")
		if err != nil {
			panic(err)
		}
		go (&http.Server{Handler: s.httpHandler(), TLSConfig: tlsCfg.Clone()}).ServeTLS(hsl, "", "")
		s.addr["https"] = "https://" + hsl.Addr().String() + "/dns-query"
		// h3
		h3c, err := net.ListenUDP("udp", &net.UDPAddr{IP: net.IPv4(127, 0, 0, 1)})
		if err != nil {
			panic(err)
		}
		go (&http3.Server{Handler: s.httpHandler(), TLSConfig: http3.ConfigureTLSConfig(tlsCfg.Clone())}).Serve(h3c)
		s.addr["h3"] = "h3://" + h3c.LocalAddr().String() + "/dns-query"
		// quic (DoQ)
		qcfg := tlsCfg.Clone()
		qcfg.NextProtos = []string{"doq"}
		ql, err := quic.ListenAddr("127.0.0.1:0", qcfg, &quic.Config{MaxIdleTimeout: 30 * time.Second})
		if err != nil {
			panic(err)
		}
		go func() {
			for {
				c, err := ql.Accept(context.Background())
				if err != nil {
					return
				}
				go func() {
					for {
						st, err := c.AcceptStream(context.Background())
						if err != nil {
							return
						}
						go func() {
							var lb [2]byte
							if _, err := io.ReadFull(st, lb[:]); err != nil {
								return
							}
							b := make([]byte, binary.BigEndian.Uint16(lb[:]))
							if _, err := io.ReadFull(st, b); err != nil {
								return
							}
							s.got(b, func(rep []byte) bool {
								f := make([]byte, 2+len(rep))
								binary.BigEndian.PutUint16(f, uint16(len(rep)))
								copy(f[2:], rep)
								_, err := st.Write(f)
								st.Close()
								return err == nil
							})
						}()
					}
				}()
			}
		}()
		s.addr["quic"] = "quic://" + ql.Addr().String()
	})
}

// kind of close protocol (Model/Close.lean) behind every upstream kind
var c18UpModelKind = map[string]string{
	"udp": "pipe", "tcp": "reuse", "tls": "reuse", "tcp+pipeline": "pipe", "tls+pipeline": "pipe",
	"http": "reuse", "https": "reuse", "h3": "quic", "quic": "quic",
}

type c18aex struct {
	cancel    context.CancelFunc
	cancelled bool
	done      bool
	res       string
}

func c18RunAuto(m map[string]string, ops []string) string {
	c18ServersSetup()
	s := &c18up
	addr := s.addr[m["up"]]
	if addr == "" {
		return "bad-case"
	}
	if c18UpstreamCrashes(m["up"]) {
		return "panic"
	}
	s.mu.Lock()
	s.seq++
	nbase := s.seq * 100
	s.hold = true
	s.mu.Unlock()
	base := c18Baseline()
	u, err := upstream.NewUpstream(addr, upstream.Opt{TLSConfig: &tls.Config{InsecureSkipVerify: true}})
	if err != nil {
		return "newupstream-failed ## " + err.Error()
	}
	var mu sync.Mutex
	exs := map[int]*c18aex{}
	blocked := func() []int {
		mu.Lock()
		defer mu.Unlock()
		var l []int
		for e, x := range exs {
			if !x.done {
				l = append(l, e)
			}
		}
		sort.Ints(l)
		return l
	}
	closes, clRes, atc, first := 0, "", "-", true
	doClose := func() {
		r := c18Call(c18CallMax, func() { u.Close() })
		if r == "ok" {
			closes++
		} else if clRes == "" {
			clRes = r
		}
		if first {
			first = false
			c18Wait(func() bool { return len(blocked()) == 0 })
			atc = c18Ids(blocked())
		}
	}
	for _, op := range append(append([]string(nil), ops...), "C") {
		if op == "" {
			continue
		}
		e := 0
		if len(op) > 1 {
			e = atoi(op[1:])
		}
		switch op[0] {
		case 's', 'S':
			mu.Lock()
			if exs[e] != nil {
				mu.Unlock()
				continue
			}
			ctx, cancel := context.WithCancel(context.Background())
			x := &c18aex{cancel: cancel}
			exs[e] = x
			mu.Unlock()
			id := uint16(0x4000 + e)
			q := c18Query(nbase+e, id)
			go func() {
				r, err := u.ExchangeContext(ctx, q)
				res := "err"
				if err == nil && r != nil && c18RespNonce(r) == nbase+e && r.Header.ID == id {
					res = "ok"
				} else if err == nil {
					res = "badmsg"
				}
				mu.Lock()
				if err != nil && x.cancelled && errors.Is(err, context.Canceled) {
					res = "ctx"
				}
				x.done, x.res = true, res
				mu.Unlock()
			}()
			c18Wait(func() bool { mu.Lock(); d := x.done; mu.Unlock(); return d || s.seen(nbase+e) })
		case 'r':
			mu.Lock()
			x := exs[e]
			mu.Unlock()
			if x == nil || !s.release(nbase+e) {
				continue
			}
			c18Wait(func() bool { mu.Lock(); defer mu.Unlock(); return x.done })
		case 'T':
			mu.Lock()
			x := exs[e]
			mu.Unlock()
			if m["up"] != "udp" || x == nil || !s.releaseTC(nbase+e) {
				continue
			}
			c18Wait(func() bool { mu.Lock(); d := x.done; mu.Unlock(); return d || s.seen(nbase+e) })
		case 'c':
			mu.Lock()
			x := exs[e]
			if x == nil || x.done {
				mu.Unlock()
				continue
			}
			x.cancelled = true
			mu.Unlock()
			x.cancel()
			c18Wait(func() bool { mu.Lock(); defer mu.Unlock(); return x.done })
		case 'C':
			doClose()
		}
	}
	c18Wait(func() bool { return len(blocked()) == 0 })
	leak := c18Leak(base)
	mu.Lock()
	var ids []int
	for e := range exs {
		ids = append(ids, e)
	}
	sort.Ints(ids)
	var parts []string
	for _, e := range ids {
		r := "pend"
		if exs[e].done {
			r = exs[e].res
		}
		parts = append(parts, fmt.Sprintf("%d:%s", e, r))
	}
	for _, x := range exs {
		x.cancel()
	}
	mu.Unlock()
	res := "-"
	if len(parts) > 0 {
		res = strings.Join(parts, ",")
	}
	cl := strconv.Itoa(closes)
	if clRes != "" {
		cl = clRes
	}
	// drop what the servers still hold for this case
	s.mu.Lock()
	for n := range s.pending {
		if n >= nbase && n < nbase+100 {
			delete(s.pending, n)
		}
	}
	s.mu.Unlock()
	return fmt.Sprintf("res=%s cl=%s open=%d atc=%s dials=-", res, cl, leak, atc)
}

func c18AutoGen(r *rand.Rand, thorough bool, emit func(c, cat string)) {
	kinds := []string{"udp", "tcp", "tls", "tcp+pipeline", "tls+pipeline", "http", "https", "h3", "quic"}
	fixed := []string{"-", "C,C", "s1,r1", "s1,r1,C,s2", "s1,C", "s1,r1,s2,C,s3", "s1,s2,r1,C,r2,C", "s1,c1,C", "s1,r1,s2,c2,s3,C,s4"}
	for _, k := range kinds {
		for i, ops := range fixed {
			if !thorough && i%3 != len(k)%3 && i != 3 && i != 5 {
				continue
			}
			emit("k="+c18UpModelKind[k]+" auto=1 up="+k+" ops="+ops, "up-"+k+"/fixed")
		}
	}
	for _, ops := range []string{"s1,T1,C", "s1,T1,r1,C,s2", "s1,r1,s2,T2,s3,C", "s1,T1,c1,s2,T2,r2,C"} {
		emit("k=pipe auto=1 up=udp ops="+ops, "up-udp/tc-fallback")
	}
	n := 18
	if thorough {
		n = 270
	}
	for i := 0; i < n; i++ {
		k := kinds[i%len(kinds)]
		var ops []string
		started := map[int]bool{}
		nops := 2 + r.Intn(8)
		closedAt := r.Intn(nops + 2)
		for j := 0; j < nops; j++ {
			if j == closedAt {
				ops = append(ops, "C")
				continue
			}
			e := 1 + r.Intn(4)
			switch x := r.Intn(10); {
			case x < 4 || !started[e]:
				ops = append(ops, "s"+strconv.Itoa(e))
				started[e] = true
			case x < 8:
				if k == "udp" && r.Intn(2) == 0 {
					ops = append(ops, "T"+strconv.Itoa(e))
				}
				ops = append(ops, "r"+strconv.Itoa(e))
			default:
				ops = append(ops, "c"+strconv.Itoa(e))
			}
		}
		emit("k="+c18UpModelKind[k]+" auto=1 up="+k+" ops="+strings.Join(ops, ","), "up-"+k+"/random")
	}
}

// ---------------------------------------------------------------- dials that are stuck in the handshake
//
// stall=1: the upstream (tls, tls+pipeline, https: a TCP server that accepts and never answers the
// ClientHello; quic, h3: a UDP socket that never answers) is closed while its dials are inside the TLS /
// QUIC handshake. Such a dial is a pending, context-honouring dial of the manual model (auto=0): Close
// must abort it — within a short bound after Close has returned every connection the server accepted is
// closed and every exchange in flight has failed.

type c18stall struct {
	once     sync.Once
	mu       sync.Mutex
	accepted int
	open     map[int]bool
	packets  int
	tcpAddr  string
	udpAddr  string
}

var c18st c18stall

const c18StallBound = 1500 * time.Millisecond

func c18StallSetup() {
	c18Setup()
	s := &c18st
	s.once.Do(func() {
		s.open = map[int]bool{}
		l, err := net.Listen("tcp", "127.0.0.1:0")
		if err != nil {
			panic(err)
		}
		s.tcpAddr = l.Addr().String()
		go func() {
			for {
				c, err := l.Accept()
				if err != nil {
					return
				}
				s.mu.Lock()
				s.accepted++
				id := s.accepted
				s.open[id] = true
				s.mu.Unlock()
				go func() {
					io.Copy(io.Discard, c) // until the client closes
					c.Close()
					s.mu.Lock()
					delete(s.open, id)
					s.mu.Unlock()
				}()
			}
		}()
		uc, err := net.ListenUDP("udp", &net.UDPAddr{IP: net.IPv4(127, 0, 0, 1)})
		if err != nil {
			panic(err)
		}
		s.udpAddr = uc.LocalAddr().String()
		go func() {
			b := make([]byte, 4096)
			for {
				if _, _, err := uc.ReadFromUDP(b); err != nil {
					return
				}
				s.mu.Lock()
				s.packets++
				s.mu.Unlock()
			}
		}()
	})
}

func (s *c18stall) progress() int { s.mu.Lock(); defer s.mu.Unlock(); return s.accepted + s.packets }
func (s *c18stall) openSince(id int) int {
	s.mu.Lock()
	defer s.mu.Unlock()
	n := 0
	for k := range s.open {
		if k > id {
			n++
		}
	}
	return n
}

func c18RunStall(m map[string]string, ops []string) string {
	c18StallSetup()
	s := &c18st
	var addr string
	shared := false // one dial for all exchanges
	switch m["up"] {
	case "tls":
		addr = "tls://" + s.tcpAddr
	case "tls+pipeline":
		addr, shared = "tls+pipeline://"+s.tcpAddr, true
	case "https":
		addr = "https://" + s.tcpAddr + "/dns-query"
	case "quic":
		addr, shared = "quic://"+s.udpAddr, true
	case "h3":
		addr, shared = "h3://"+s.udpAddr+"/dns-query", true
	default:
		return "bad-case"
	}
	hasClose := false
	for _, op := range ops {
		if op == "C" {
			hasClose = true
		}
	}
	if !hasClose {
		return "bad-case"
	}
	if c18UpstreamCrashes(m["up"]) {
		return "panic"
	}
	base := c18Baseline()
	s.mu.Lock()
	firstConn := s.accepted
	s.mu.Unlock()
	u, err := upstream.NewUpstream(addr, upstream.Opt{TLSConfig: &tls.Config{InsecureSkipVerify: true}})
	if err != nil {
		return "newupstream-failed ## " + err.Error()
	}
	var mu sync.Mutex
	exs := map[int]*c18aex{}
	blocked := func() []int {
		mu.Lock()
		defer mu.Unlock()
		var l []int
		for e, x := range exs {
			if !x.done {
				l = append(l, e)
			}
		}
		sort.Ints(l)
		return l
	}
	bound := func(cond func() bool) bool {
		ok := c18Until(c18StallBound, cond)
		if !ok {
			c18Timeouts.Add(1)
		}
		return ok
	}
	closed := false
	openAtClose := 0
	closes, clRes, atc := 0, "", "-"
	for _, op := range ops {
		if op == "" {
			continue
		}
		e := 0
		if len(op) > 1 {
			e = atoi(op[1:])
		}
		switch op[0] {
		case 's', 'S':
			mu.Lock()
			if exs[e] != nil {
				mu.Unlock()
				continue
			}
			ctx, cancel := context.WithCancel(context.Background())
			x := &c18aex{cancel: cancel}
			exs[e] = x
			mu.Unlock()
			dialing := shared && len(blocked()) > 1
			p0 := s.progress()
			go func() {
				_, err := u.ExchangeContext(ctx, c18Query(e, uint16(0x4000+e)))
				res := "err"
				if err == nil {
					res = "ok"
				}
				mu.Lock()
				if err != nil && x.cancelled && errors.Is(err, context.Canceled) {
					res = "ctx"
				}
				x.done, x.res = true, res
				mu.Unlock()
			}()
			ev := func() bool { mu.Lock(); d := x.done; mu.Unlock(); return d || s.progress() > p0 }
			if dialing || closed {
				c18Until(c18Grace, ev) // joins the dial in progress: nothing to see
			} else {
				c18Wait(ev)
			}
		case 'c':
			mu.Lock()
			x := exs[e]
			if x == nil || x.done {
				mu.Unlock()
				continue
			}
			x.cancelled = true
			mu.Unlock()
			x.cancel()
			c18Wait(func() bool { mu.Lock(); defer mu.Unlock(); return x.done })
		case 'C':
			r := c18Call(c18CallMax, func() { u.Close() })
			if r == "ok" {
				closes++
			} else if clRes == "" {
				clRes = r
			}
			if !closed {
				closed = true
				bound(func() bool { return len(blocked()) == 0 && s.openSince(firstConn) == 0 })
				atc = c18Ids(blocked())
				openAtClose = s.openSince(firstConn)
			}
		}
	}
	bound(func() bool { return s.openSince(firstConn) == 0 })
	open := s.openSince(firstConn)
	if openAtClose > open {
		open = openAtClose // still open when the bound after Close had passed
	}
	c18Wait(func() bool { return len(blocked()) == 0 })
	if l := c18Leak(base); l > open {
		open = l
	}
	mu.Lock()
	var ids []int
	for e := range exs {
		ids = append(ids, e)
	}
	sort.Ints(ids)
	var parts []string
	for _, e := range ids {
		r := "pend"
		if exs[e].done {
			r = exs[e].res
		}
		parts = append(parts, fmt.Sprintf("%d:%s", e, r))
	}
	for _, x := range exs {
		x.cancel()
	}
	mu.Unlock()
	res := "-"
	if len(parts) > 0 {
		res = strings.Join(parts, ",")
	}
	cl := strconv.Itoa(closes)
	if clRes != "" {
		cl = clRes
	}
	return fmt.Sprintf("res=%s cl=%s open=%d atc=%s dials=-", res, cl, open, atc)
}

func c18StallGen(r *rand.Rand, thorough bool, emit func(c, cat string)) {
	kinds := []string{"tls", "tls+pipeline", "https", "quic", "h3"}
	fixed := []string{"s1,C", "s1,s2,C,s3", "s1,c1,C", "s1,s2,c1,C,C", "s1,C,s2,C"}
	for ki, k := range kinds {
		for i, ops := range fixed {
			if !thorough && i != ki%2 && i != 3 {
				continue
			}
			emit("k="+c18UpModelKind[k]+" auto=0 stall=1 up="+k+" ops="+ops, "stall-"+k)
		}
	}
	n := 0
	if thorough {
		n = 40
	}
	for i := 0; i < n; i++ {
		k := kinds[i%len(kinds)]
		var ops []string
		started := map[int]bool{}
		nops := 2 + r.Intn(5)
		closedAt := 1 + r.Intn(nops)
		for j := 0; j <= nops; j++ {
			if j == closedAt {
				ops = append(ops, "C")
				continue
			}
			e := 1 + r.Intn(3)
			if !started[e] || r.Intn(3) > 0 {
				ops = append(ops, "s"+strconv.Itoa(e))
				started[e] = true
			} else {
				ops = append(ops, "c"+strconv.Itoa(e))
			}
		}
		emit("k="+c18UpModelKind[k]+" auto=0 stall=1 up="+k+" ops="+strings.Join(ops, ","), "stall-"+k)
	}
}
