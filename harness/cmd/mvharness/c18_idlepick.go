package main

// Component `idlepick` (C18, C06): the real ReuseConnTransport with several connections that go idle together and
// an idle time-out of 60 ms. An exchange then picks one of them, X, whose "still usable?" check
// (`SetReadDeadline(time.Time{})` in exitIdle, which getIdleConn calls with the transport's mutex held) takes four
// idle time-outs and then reports X dead (dead=1) or alive (dead=0): the idle timers of the other connections fire
// while the exchange is inside getIdleConn, which then goes on to look at them. After that Close, and one more
// exchange. Only the injected dialer is used. (The model of the lock protocol is Model/LockOrder.lean.)
//
// case : conns=<n> dead=<0|1> seed=<s>
// out  : ex=<ok|err|hang> close=<ok|hang> after=<fail|ok|hang> open=<connections still open> ## picked=<0|1> dialed=<k>

import (
	"context"
	"fmt"
	"math/rand"
	"net"
	"sync"
	"sync/atomic"
	"time"

	"github.com/IrineSistiana/mosproxy/internal/dnsmsg"
	"github.com/IrineSistiana/mosproxy/internal/upstream/transport"
)

const (
	c18ipIdle = 60 * time.Millisecond
	c18ipSlow = 240 * time.Millisecond
)

type c18ipShared struct {
	armed atomic.Int32 // 1: the next "usable?" check is slow (and fails if dead)
	dead  bool
	mu    sync.Mutex
	conns []*c18ipConn
}

type c18ipConn struct {
	net.Conn
	sh     *c18ipShared
	closed atomic.Bool
}

func (c *c18ipConn) SetReadDeadline(t time.Time) error {
	if t.IsZero() && c.sh.armed.CompareAndSwap(1, 2) {
		time.Sleep(c18ipSlow)
		if c.sh.dead {
			c.Close()
		}
	}
	return c.Conn.SetReadDeadline(t)
}

func (c *c18ipConn) Close() error {
	c.closed.Store(true)
	return c.Conn.Close()
}

func c18ipOnce(n int, dead bool) (string, bool) {
	sh := &c18ipShared{dead: dead}
	var slowServer atomic.Bool
	slowServer.Store(true)
	rt := transport.NewReuseConnTransport(transport.ReuseConnOpts{
		DialContext: func(ctx context.Context) (net.Conn, error) {
			c, s := net.Pipe()
			go func() { // echo server: the query comes back as its own reply
				defer s.Close()
				b := make([]byte, 4096)
				for {
					k, err := s.Read(b)
					if err != nil {
						return
					}
					if slowServer.Load() {
						time.Sleep(30 * time.Millisecond)
					}
					if _, err := s.Write(b[:k]); err != nil {
						return
					}
				}
			}()
			tc := &c18ipConn{Conn: c, sh: sh}
			sh.mu.Lock()
			sh.conns = append(sh.conns, tc)
			sh.mu.Unlock()
			return tc, nil
		},
		IdleTimeout: c18ipIdle,
	})
	closeDone := make(chan struct{})
	var closeOnce sync.Once
	closeAsync := func() {
		closeOnce.Do(func() {
			go func() {
				rt.Close()
				close(closeDone)
			}()
		})
	}
	defer closeAsync()
	exchange := func(e int, d time.Duration) error {
		ctx, cancel := context.WithTimeout(context.Background(), d)
		defer cancel()
		r, err := rt.ExchangeContext(ctx, c06query(e))
		if r != nil {
			dnsmsg.ReleaseMsg(r)
		}
		return err
	}
	// n exchanges at the same time (the server takes 30 ms) make n connections that become idle together
	var wg sync.WaitGroup
	var setupErr atomic.Bool
	for i := 0; i < n; i++ {
		wg.Add(1)
		go func(i int) {
			defer wg.Done()
			if exchange(1+i, 2*time.Second) != nil {
				setupErr.Store(true)
			}
		}(i)
	}
	wg.Wait()
	sh.mu.Lock()
	dialed := len(sh.conns)
	sh.mu.Unlock()
	if setupErr.Load() || dialed != n {
		return "", false
	}
	slowServer.Store(false)
	time.Sleep(5 * time.Millisecond) // let the connections be put back

	sh.armed.Store(1)
	const exTimeout = 1500 * time.Millisecond
	exDone := make(chan error, 1)
	go func() { exDone <- exchange(100, exTimeout) }()
	ex := "hang"
	select {
	case err := <-exDone:
		if sh.armed.Load() != 2 {
			return "", false // no idle connection was picked (timers were faster than the harness)
		}
		ex = "ok"
		if err != nil {
			ex = "err"
		}
	case <-time.After(exTimeout + time.Second):
	}
	closeAsync()
	cl := "hang"
	select {
	case <-closeDone:
		cl = "ok"
	case <-time.After(2 * time.Second):
	}
	after := "hang"
	subDone := make(chan error, 1)
	go func() { subDone <- exchange(101, 500*time.Millisecond) }()
	select {
	case err := <-subDone:
		after = "fail"
		if err == nil {
			after = "ok"
		}
	case <-time.After(1500 * time.Millisecond):
	}
	time.Sleep(2 * time.Millisecond)
	open := 0
	sh.mu.Lock()
	for _, c := range sh.conns {
		if !c.closed.Load() {
			open++
		}
	}
	dialed = len(sh.conns)
	sh.mu.Unlock()
	return fmt.Sprintf("ex=%s close=%s after=%s open=%d ## picked=%d dialed=%d", ex, cl, after, open, b2i(sh.armed.Load() == 2), dialed), true
}

func b2i(b bool) int {
	if b {
		return 1
	}
	return 0
}

func runIdlePick(cs string) string {
	m := kv(cs)
	for try := 0; try < 4; try++ {
		if r, ok := c18ipOnce(atoi(m["conns"]), m["dead"] == "1"); ok {
			return r
		}
	}
	return "setup-failed"
}

func genIdlePick(r *rand.Rand, thorough bool, emit func(c, cat string)) {
	rounds := 1
	if thorough {
		rounds = 12
	}
	for i := 0; i < rounds; i++ {
		for _, n := range []int{2, 3, 5} {
			for _, dead := range []int{1, 0} {
				emit(fmt.Sprintf("conns=%d dead=%d seed=%d", n, dead, r.Intn(1<<30)), fmt.Sprintf("conns%d-dead%d", n, dead))
			}
		}
	}
}

func init() {
	register("idlepick", &component{gen: genIdlePick, run: runIdlePick})
}
