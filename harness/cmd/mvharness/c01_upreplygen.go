package main

// Component `upreply` (C01): case generator. See c01_upreply.go for the case format.

import (
	"bufio"
	"bytes"
	"fmt"
	"math/rand"
	"os"
	"os/exec"
	"strconv"
	"strings"
	"sync"
	"time"

	"github.com/IrineSistiana/mosproxy/internal/dnsmsg"
	"github.com/miekg/dns"
)

func c01upValid(id uint16, name string) []byte { return c01upReply(c01upQuery(id, name)) }

// a valid reply of about `size` octets (TXT records)
func c01upBigReply(id uint16, size int) []byte {
	q := new(dns.Msg)
	q.SetQuestion(c01upFirstName, dns.TypeA)
	q.Id = id
	r := new(dns.Msg)
	r.SetReply(q)
	for i := 0; r.Len() < size-230; i++ {
		r.Answer = append(r.Answer, &dns.TXT{
			Hdr: dns.RR_Header{Name: c01upFirstName, Rrtype: dns.TypeTXT, Class: dns.ClassINET, Ttl: 60},
			Txt: []string{strings.Repeat(string(rune('a'+i%26)), 200)},
		})
	}
	b, err := r.Pack()
	if err != nil {
		panic(err)
	}
	return b
}

// a well-formed message of more than 65535 octets whose last record crosses octet 65535: it decodes as a whole,
// its first 65535 octets do not
func c01upOversized() []byte {
	v0 := c01upValid(0, c01upFirstName)
	k := 310
	b := append([]byte(nil), v0[:12+len(c01upWireName(c01upFirstName))+1+4]...)
	b[6], b[7] = byte(k>>8), byte(k)
	for i := 0; i < k; i++ {
		b = append(b, 0xC0, 12, 0, 16, 0, 1, 0, 0, 0, 60, 0, 201, 200)
		for j := 0; j < 200; j++ {
			b = append(b, byte('a'+i%26))
		}
	}
	return b
}

// a well-formed reply (id, question first.up.test. A, TXT answers) of exactly `size` octets; returns it and the
// number of its answer records
func c01upSizedReply(id uint16, size int) ([]byte, int) {
	v0 := c01upValid(id, c01upFirstName)
	b := append([]byte(nil), v0[:12+len(c01upWireName(c01upFirstName))+1+4]...)
	k := 0
	rec := func(rdlen int) {
		b = append(b, 0xC0, 12, 0, 16, 0, 1, 0, 0, 0, 60, byte(rdlen>>8), byte(rdlen))
		for j := 0; j < rdlen; j++ {
			x := byte('a' + k%26)
			if j%201 == 0 {
				x = 200
			}
			b = append(b, x)
		}
		k++
	}
	for size-len(b) >= 2*213 {
		rec(201)
	}
	if rest := size - len(b); rest >= 12 {
		rec(rest - 12)
	}
	b[6], b[7] = byte(k>>8), byte(k)
	return b, k
}

func c01upLie(l int, body []byte) []byte {
	return append([]byte{byte(l >> 8), byte(l)}, body...)
}

func c01upDecodes(b []byte) (ok bool, id uint16, tc bool) {
	m, err := dnsmsg.UnpackMsg(b)
	if err != nil {
		return false, 0, false
	}
	id, tc = m.Header.ID, m.Header.Truncated
	dnsmsg.ReleaseMsg(m)
	return true, id, tc
}

// what the first exchange is expected to return (resp | err | any): only used to choose the deadline of the
// first exchange (short when nothing can be delivered); the authoritative prediction is the Lean model's
func c01upExpect(tr string, script []string) string {
	var main, tsc []string
	for _, t := range script {
		if strings.HasPrefix(t, "T") {
			tsc = append(tsc, t[1:])
		} else {
			main = append(main, t)
		}
	}
	reuse := func(sc []string, checkID bool) string {
		st := c01upParseStream(sc)
		if len(st.frames) == 0 {
			return "err"
		}
		if ok, id, _ := c01upDecodes(st.frames[0]); !ok || (checkID && id != 0) {
			return "err"
		}
		if st.term == "r" || st.term == "k" {
			return "any"
		}
		return "resp"
	}
	switch tr {
	case "tcp", "tls":
		return reuse(main, true)
	case "quic":
		return reuse(main, false)
	case "tcp+pipeline", "tls+pipeline":
		st := c01upParseStream(main)
		delivered := false
		for _, f := range st.frames {
			ok, id, _ := c01upDecodes(f)
			if !ok {
				if delivered {
					return "any"
				}
				return "err"
			}
			if id == 0 {
				delivered = true
			}
		}
		if !delivered {
			return "err"
		}
		if st.term == "c" || st.term == "r" {
			return "any"
		}
		return "resp"
	case "udp":
		delivered, tc := false, false
		for _, t := range main {
			if t == "" || t[0] != 'd' {
				continue
			}
			d := unhex(t[1:])
			if len(d) > 65535 {
				d = d[:65535]
			}
			if len(d) == 0 {
				if delivered {
					return "any"
				}
				return "err"
			}
			ok, id, tcb := c01upDecodes(d)
			if !ok && len(d) >= 12 && d[2]&2 != 0 { // an undecodable TC reply stands for a header-only one
				ok, id, tcb = true, uint16(d[0])<<8|uint16(d[1]), true
			}
			if ok && id == 0 && !delivered {
				delivered, tc = true, tcb
			}
		}
		if !delivered {
			return "err"
		}
		if tc {
			if len(tsc) == 0 {
				return "resp"
			}
			return reuse(tsc, true)
		}
		return "resp"
	}
	return c01upExpectDoH(tr, main)
}

func c01upExpectDoH(tr string, script []string) string {
	h := &c01upHTTP{st: 200, ct: 1}
	var body []byte
	term := ""
	for _, t := range script {
		if t == "" {
			continue
		}
		if t == "c" || t == "r" || t == "z" {
			term = t
			break
		}
		switch t[0] {
		case 'p':
		case 'g':
			h.sawG = true
		case 'b', 'x', 'y':
			body = append(body, c01upBody(t)...)
		default:
			h.header(t)
		}
	}
	if h.sawG || term == "r" || (tr == "h3" && (term == "c" || h.st < 100 || h.st > 999)) {
		return "any"
	}
	if h.st != 200 {
		return "err"
	}
	complete := term == "" // the response was ended properly
	view, cut := body, false
	if h.te && tr == "http" {
		cut = !complete
	} else if h.hasCL {
		n, err := strconv.ParseUint(h.cl, 10, 63)
		valid := err == nil && h.cl[0] != '+'
		switch {
		case !valid && tr == "http":
			return "err"
		case !valid:
			cut = !complete
		case n > uint64(len(body)):
			cut = !(tr == "h3" && complete)
		case n < uint64(len(body)):
			if tr == "https" {
				if n < 65535 {
					return "err"
				}
				return "any"
			}
			if tr == "h3" {
				return "any"
			}
			view = body[:n]
		default:
			if tr != "http" && !complete {
				return "any"
			}
		}
	} else if !complete && !(tr == "http" && term == "c") {
		cut = true
	}
	if cut && len(view) < 65535 {
		return "err"
	}
	if len(view) > 65535 {
		view = view[:65535]
	}
	if ok, _, _ := c01upDecodes(view); ok {
		return "resp"
	}
	return "err"
}

type c01upCase struct{ tr, sc, cat string }

func c01upMutate(r *rand.Rand, v []byte) []byte {
	b := append([]byte(nil), v...)
	switch r.Intn(4) {
	case 0:
		b = b[:r.Intn(len(b))]
	case 1:
		for j := 0; j < 1+r.Intn(3); j++ {
			b[r.Intn(len(b))] = byte(r.Intn(256))
		}
	case 2:
		if len(b) > 13 {
			p := 12 + r.Intn(len(b)-13)
			b[p], b[p+1] = 0xC0|byte(r.Intn(64)), byte(r.Intn(256))
		}
	default: // counts that lie
		b[4+2*r.Intn(4)+1] += byte(1 + r.Intn(3))
	}
	return b
}

// one DNS payload: valid for id 0, valid for another id, truncated flag, mutated, adversarial, random
func c01upPayload(r *rand.Rand, adv [][]byte) ([]byte, string) {
	b, cat := c01upPayload0(r, adv)
	return c01upSafeID(b), cat
}

// The ids 1..63 are the ones the connection will use for the following queries: a decodable frame that
// carries one of them and is still unread when that query is sent is a (wrong) answer to it, not malformed input.
func c01upSafeID(b []byte) []byte {
	if len(b) >= 2 && b[0] == 0 && b[1] >= 1 && b[1] < 64 {
		b = append([]byte(nil), b...)
		b[1] = 0
	}
	return b
}

func c01upPayload0(r *rand.Rand, adv [][]byte) ([]byte, string) {
	v0 := c01upValid(0, c01upFirstName)
	switch x := r.Intn(12); {
	case x < 3:
		return v0, "valid"
	case x < 4:
		return c01upValid(uint16(100+r.Intn(900)), c01upFirstName), "otherid"
	case x < 7:
		return c01upMutate(r, v0), "mutated"
	case x < 9:
		b := append([]byte(nil), adv[r.Intn(len(adv))]...)
		if len(b) >= 2 && r.Intn(2) == 0 && b[0] != 0xC0 {
			b[0], b[1] = 0, 0
		}
		return b, "adversarial"
	case x < 10:
		b := make([]byte, r.Intn(80))
		r.Read(b)
		if len(b) >= 2 && r.Intn(2) == 0 {
			b[0], b[1] = 0, 0
		}
		return b, "random"
	case x < 11:
		return c01upBigReply(0, 600+r.Intn(2500)), "bigvalid"
	}
	b := append([]byte(nil), v0...)
	b[2] |= 0x02
	return b, "tc"
}

func c01upStreamFixed(r *rand.Rand, adv [][]byte, quic bool) [][2]string {
	v0 := c01upValid(0, c01upFirstName)
	v7 := c01upValid(777, c01upFirstName)
	f0, f7 := frame(v0), frame(v7)
	gar := c14garbage(0)
	w := func(bs ...[]byte) string {
		var all []byte
		for _, b := range bs {
			all = append(all, b...)
		}
		return "w" + hexs(all)
	}
	k := 3 + r.Intn(len(f0)-4)
	l := [][2]string{
		{"valid", w(f0)},
		{"valid-close", w(f0) + ",c"},
		{"valid-pause-close", w(f0) + ",p150,c"},
		{"valid-reset", w(f0) + ",r"},
		{"otherid", w(f7)},
		{"otherid-then-valid", w(f7, f0)},
		{"valid-then-otherid", w(f0, f7)},
		{"dup2", w(f0, f0)},
		{"dup3", w(f0) + "," + w(f0) + "," + w(f0)},
		{"dup2-close", w(f0, f0) + ",c"},
		{"garbage", w(frame(gar))},
		{"garbage-then-valid", w(frame(gar), f0)},
		{"valid-then-garbage", w(f0, frame(gar))},
		{"valid-pause-garbage", w(f0) + ",p150," + w(frame(gar))},
		{"len-plus1", w(c01upLie(len(v0)+1, v0))},
		{"len-plus1-close", w(c01upLie(len(v0)+1, v0)) + ",c"},
		{"len-plus1-stall", w(c01upLie(len(v0)+1, v0)) + ",z"},
		{"len-minus1", w(c01upLie(len(v0)-1, v0))},
		{"len-minus1-close", w(c01upLie(len(v0)-1, v0)) + ",c"},
		{"len-zero-then-valid", w([]byte{0, 0}, f0)},
		{"len-zero-only", w([]byte{0, 0})},
		{"len-65535", w(c01upLie(65535, v0))},
		{"len-65535-close", w(c01upLie(65535, v0)) + ",c"},
		{"len-65535-stall", w(c01upLie(65535, v0)) + ",z"},
		{"len-12-header-only", w(c01upLie(12, v0))},
		{"cut-close", w(f0[:k]) + ",c"},
		{"cut-reset", w(f0[:k]) + ",r"},
		{"cut-stall", w(f0[:k]) + ",z"},
		{"cut-continue", w(f0[:k])},
		{"cut-pause-rest", w(f0[:k]) + ",p60," + w(f0[k:])},
		{"one-octet", w(f0[:1])},
		{"one-octet-close", w(f0[:1]) + ",c"},
		{"bytewise", w(f0[:1]) + ",p5," + w(f0[1:2]) + ",p5," + w(f0[2:3]) + ",p5," + w(f0[3:])},
		{"nothing", "p10"},
		{"close-at-once", "c"},
		{"reset-at-once", "r"},
		{"stall-at-once", "z"},
		{"big-valid", w(frame(c01upBigReply(0, 40000)))},
		{"many-otherid-then-valid", w(bytesRepeat(f7, 60), f0)},
		{"tc-flag", w(frame(func() []byte { b := append([]byte(nil), v0...); b[2] |= 2; return b }()))},
		{"header-only-message", w(frame(v0[:12]))},
		{"zeros", w(frame(make([]byte, 40)))},
	}
	big := make([]byte, 65535)
	r.Read(big)
	l = append(l, [2]string{"frame-65535-random", w(frame(big))})
	if quic {
		l = append(l, [2]string{"valid-connclose", w(f0) + ",k"}, [2]string{"connclose-at-once", "k"},
			[2]string{"garbage-connclose", w(frame(gar)) + ",k"})
	}
	for i, a := range adv {
		b := append([]byte(nil), a...)
		if len(b) >= 2 && b[0] != 0xC0 {
			b[0], b[1] = 0, 0
		}
		l = append(l, [2]string{"adversarial/" + strconv.Itoa(i), w(frame(b))})
	}
	return l
}

func bytesRepeat(b []byte, n int) []byte {
	var o []byte
	for i := 0; i < n; i++ {
		o = append(o, b...)
	}
	return o
}

func c01upStreamRandom(r *rand.Rand, adv [][]byte, quic bool) (string, string) {
	var toks []string
	var all []byte
	nu := 1 + r.Intn(4)
	cat := "random"
	for i := 0; i < nu; i++ {
		p, _ := c01upPayload(r, adv)
		switch x := r.Intn(10); {
		case x < 6:
			all = append(all, frame(p)...)
		case x < 7:
			all = append(all, c01upLie(len(p)+1+r.Intn(40), p)...)
		case x < 8:
			if len(p) > 0 {
				all = append(all, c01upLie(r.Intn(len(p)), p)...)
			}
		case x < 9:
			all = append(all, c01upLie([]int{0, 1, 11, 12, 65535}[r.Intn(5)], p)...)
		default:
			f := frame(p)
			all = append(all, f[:r.Intn(len(f))]...)
		}
	}
	// split the octets into one to four writes
	cuts := r.Intn(4)
	pauses := 0
	for i := 0; i < cuts && len(all) > 1; i++ {
		c := 1 + r.Intn(len(all)-1)
		toks = append(toks, "w"+hexs(all[:c]))
		if r.Intn(2) == 0 && pauses < 3 {
			toks = append(toks, "p"+strconv.Itoa(5+r.Intn(30)))
			pauses++
		}
		all = all[c:]
	}
	if len(all) > 0 {
		toks = append(toks, "w"+hexs(all))
	}
	terms := []string{"", "", "", "c", "c", "r", "z"}
	if quic {
		terms = append(terms, "k")
	}
	if t := terms[r.Intn(len(terms))]; t != "" {
		toks = append(toks, t)
	}
	return strings.Join(toks, ","), cat
}

func c01upUDPFixed(r *rand.Rand, adv [][]byte) [][2]string {
	v0 := c01upValid(0, c01upFirstName)
	v7 := c01upValid(777, c01upFirstName)
	tc0 := append([]byte(nil), v0...)
	tc0[2] |= 2
	gar := c14garbage(0)
	d := func(b []byte) string { return "d" + hexs(b) }
	tw := func(bs ...[]byte) string {
		var all []byte
		for _, b := range bs {
			all = append(all, b...)
		}
		return "Tw" + hexs(all)
	}
	l := [][2]string{
		{"valid", d(v0)},
		{"otherid", d(v7)},
		{"otherid-then-valid", d(v7) + "," + d(v0)},
		{"dup2", d(v0) + "," + d(v0)},
		{"dup3", d(v0) + "," + d(v0) + "," + d(v0)},
		{"garbage", d(gar)},
		{"garbage-then-valid", d(gar) + "," + d(v0)},
		{"valid-then-garbage", d(v0) + "," + d(gar)},
		{"empty", "d-"},
		{"empty-then-valid", "d-," + d(v0)},
		{"valid-then-empty", d(v0) + ",d-"},
		{"valid-pause-empty", d(v0) + ",p150,d-"},
		{"half", d(v0[:len(v0)/2])},
		{"half-then-valid", d(v0[:len(v0)/2]) + ",p20," + d(v0)},
		{"header-only", d(v0[:12])},
		{"one-octet", d(v0[:1])},
		{"nothing", "p10"},
		{"big-3000", d(c01upBigReply(0, 3000))},
		{"big-20000", d(c01upBigReply(0, 20000))},
		{"many-otherid-then-valid", strings.TrimSuffix(strings.Repeat(d(v7)+",", 40), ",") + "," + d(v0)},
		{"tc-fallback", d(tc0)},
		{"tc-fallback-garbage", d(tc0) + "," + tw(frame(gar))},
		{"tc-fallback-valid", d(tc0) + "," + tw(frame(v0))},
		{"tc-fallback-close", d(tc0) + ",Tc"},
		{"tc-fallback-stall", d(tc0) + ",Tz"},
		{"tc-fallback-lying-length", d(tc0) + "," + tw(c01upLie(65535, v0)) + ",Tc"},
		{"tc-fallback-dup2", d(tc0) + "," + tw(frame(v0), frame(v0))},
		{"tc-otherid", d(func() []byte { b := append([]byte(nil), v7...); b[2] |= 2; return b }())},
		{"zeros", d(make([]byte, 40))},
	}
	// (8cbdefd) valid replies without TC of every size a datagram can have are returned as received
	for _, size := range []int{512, 1232, 4000, 4095, 4096, 4097, 4098, 5000, 8192, 16384, 32768, 65000, 65506, 65507} {
		b, _ := c01upSizedReply(0, size)
		l = append(l, [2]string{"sized-valid/" + strconv.Itoa(size), d(b)})
	}
	{
		b, _ := c01upSizedReply(0, 4000+r.Intn(61507))
		l = append(l, [2]string{"sized-valid/random", d(b)})
		b, _ = c01upSizedReply(777, 6000)
		l = append(l, [2]string{"sized-otherid", d(b)})
	}
	// (82eb250) TC replies that do not decode — cut in the middle of a record with the counts of the full answer,
	// garbage behind the header — are answered by the TCP retry; without TC they are dropped
	{
		full, _ := c01upSizedReply(0, 3000)
		cut := append([]byte(nil), full[:512]...)
		cut[2] |= 2
		hdrGar := append(append([]byte(nil), cut[:12]...), 0x3f, 'x', 'y', 0xff, 0xc0)
		hdrOnly := append([]byte(nil), cut[:12]...) // announces records that are not there
		eleven := append([]byte(nil), cut[:11]...)
		noTC := append([]byte(nil), full[:512]...)
		other := append([]byte(nil), cut...)
		other[0], other[1] = 3, 9
		query := append([]byte(nil), cut...)
		query[2] &^= 0x80 // QR=0 with TC
		v0f := frame(v0)
		l = append(l,
			[2]string{"tc-cut-midrecord", d(cut)},
			[2]string{"tc-cut-midrecord-tcpvalid", d(cut) + "," + tw(v0f)},
			[2]string{"tc-cut-midrecord-tcpgarbage", d(cut) + "," + tw(frame(gar))},
			[2]string{"tc-cut-midrecord-tcpclose", d(cut) + ",Tc"},
			[2]string{"tc-cut-midrecord-tcplying", d(cut) + "," + tw(c01upLie(65535, v0)) + ",Tc"},
			[2]string{"tc-garbage-after-header", d(hdrGar)},
			[2]string{"tc-garbage-after-header-tcpgarbage", d(hdrGar) + "," + tw(frame(gar)) + ",Tc"},
			[2]string{"tc-header-only-with-counts", d(hdrOnly)},
			[2]string{"tc-eleven-octets", d(eleven)},
			[2]string{"cut-midrecord-without-tc", d(noTC)},
			[2]string{"tc-cut-otherid", d(other)},
			[2]string{"tc-cut-otherid-then-own", d(other) + "," + d(cut)},
			[2]string{"tc-cut-qr0", d(query)},
			[2]string{"tc-cut-then-valid", d(cut) + "," + d(v0)},
			[2]string{"garbage-then-tc-cut", d(gar) + "," + d(cut)},
			[2]string{"tc-cut-65507", d(func() []byte {
				b, _ := c01upSizedReply(0, 65507)
				b = append([]byte(nil), b...)
				b[2] |= 2
				b[7]++
				return b
			}())},
		)
	}
	for i, a := range adv {
		b := append([]byte(nil), a...)
		if len(b) >= 2 && b[0] != 0xC0 {
			b[0], b[1] = 0, 0
		}
		l = append(l, [2]string{"adversarial/" + strconv.Itoa(i), d(b)})
	}
	return l
}

func c01upUDPRandom(r *rand.Rand, adv [][]byte) string {
	var toks []string
	nu := 1 + r.Intn(5)
	for i := 0; i < nu; i++ {
		p, _ := c01upPayload(r, adv)
		if len(p) > 2 && r.Intn(4) == 0 {
			p = append([]byte(nil), p...)
			p[2] |= 2
			if r.Intn(2) == 0 {
				p = p[:2+r.Intn(len(p)-2)]
			}
		}
		toks = append(toks, "d"+hexs(p))
		if r.Intn(4) == 0 {
			toks = append(toks, "p"+strconv.Itoa(5+r.Intn(30)))
		}
	}
	if r.Intn(3) == 0 { // a TCP leg, in case a TC reply is delivered
		p, _ := c01upPayload(r, adv)
		toks = append(toks, "Tw"+hexs(frame(p)))
		if r.Intn(2) == 0 {
			toks = append(toks, "Tc")
		}
	}
	return strings.Join(toks, ",")
}

func c01upDoHFixed(r *rand.Rand, adv [][]byte, tr string) [][2]string {
	v0 := c01upValid(0, c01upFirstName)
	gar := c14garbage(0)
	b := func(x []byte) string { return "b" + hexs(x) }
	n := len(v0)
	k := 1 + r.Intn(n-1)
	l := [][2]string{
		{"valid-nolength", b(v0)},
		{"valid-length", fmt.Sprintf("cl%d,%s", n, b(v0))},
		{"valid-two-writes", fmt.Sprintf("cl%d,%s,p30,%s", n, b(v0[:k]), b(v0[k:]))},
		{"head-pause-body", fmt.Sprintf("cl%d,b-,p60,%s", n, b(v0))},
		{"length-2^62", "cl4611686018427387904," + b(v0)},
		{"length-2^62-close", "cl4611686018427387904," + b(v0) + ",c"},
		{"length-2^62-stall", "cl4611686018427387904," + b(v0) + ",z"},
		{"length-2^62-nobody", "cl4611686018427387904,b-,c"},
		{"length-2^40", "cl1099511627776," + b(v0) + ",c"},
		{"length-1GiB", "cl1073741824," + b(v0) + ",c"},
		{"length-maxint64", "cl9223372036854775807," + b(v0) + ",c"},
		{"length-2^64", "cl18446744073709551616," + b(v0)},
		{"length-plus1", fmt.Sprintf("cl%d,%s", n+1, b(v0))},
		{"length-plus1-close", fmt.Sprintf("cl%d,%s,c", n+1, b(v0))},
		{"length-minus1", fmt.Sprintf("cl%d,%s", n-1, b(v0))},
		{"length-12", "cl12," + b(v0)},
		{"length-zero-with-body", "cl0," + b(v0)},
		{"length-negative", "cl-5," + b(v0)},
		{"length-plus-sign", fmt.Sprintf("cl+%d,%s", n, b(v0))},
		{"length-text", "clabc," + b(v0)},
		{"length-65536-body-short", "cl65536," + b(v0) + ",c"},
		{"status-500", "st500," + b(v0)},
		{"status-404-html", "st404,ct2,b" + hexs([]byte("<html>not found</html>"))},
		{"status-204", "st204"},
		{"status-206", "st206," + b(v0)},
		{"status-301", "st301," + b(v0)},
		{"status-500-bigbody", "st500,x70000"},
		{"wrong-content-type", "ct2," + b(v0)},
		{"no-content-type", "ct0," + b(v0)},
		{"empty-body", "b-"},
		{"empty-body-length0", "cl0,b-"},
		{"garbage-body", b(gar)},
		{"half-body", b(v0[:n/2])},
		{"header-only-body", b(v0[:12])},
		{"body-valid-plus-70000", b(v0) + ",x70000"},
		{"body-70000-zeros", "x70000"},
		{"body-65535-zeros-then-valid", "x65535," + b(v0)},
		{"body-65536-length-honest", "cl65536,x65536"},
		{"body-300000", "x300000"},
		{"cut-body-close", fmt.Sprintf("cl%d,%s,c", n, b(v0[:k]))},
		{"cut-body-stall", fmt.Sprintf("cl%d,%s,z", n, b(v0[:k]))},
		{"cut-body-reset", fmt.Sprintf("cl%d,%s,r", n, b(v0[:k]))},
		{"more-than-declared", fmt.Sprintf("cl%d,%s,%s", n, b(v0), b(v0))},
		{"close-at-once", "c"},
		{"reset-at-once", "r"},
		{"stall-at-once", "z"},
		{"head-then-stall", fmt.Sprintf("cl%d,b-,z", n)},
		{"head-then-close", fmt.Sprintf("cl%d,b-,c", n)},
		{"nolength-stall", b(v0) + ",z"},
		{"nolength-reset", b(v0) + ",r"},
		{"big-valid-40000", b(c01upBigReply(0, 40000))},
		{"valid-only-beyond-the-limit", b(c01upOversized())},
	}
	if tr == "http" {
		g := func(s string) string { return "g" + hexs([]byte(s)) }
		l = append(l,
			[2]string{"endless-body", "y64"},
			[2]string{"chunked-valid", "te," + b(v0)},
			[2]string{"chunked-two", "te," + b(v0[:k]) + "," + b(v0[k:])},
			[2]string{"chunked-cut", "te," + b(v0) + ",c"},
			[2]string{"chunked-stall", "te," + b(v0) + ",z"},
			[2]string{"chunked-and-length", fmt.Sprintf("te,cl%d,%s", n+5, b(v0))},
			[2]string{"chunked-garbage-size", g("HTTP/1.1 200 OK\r\nTransfer-Encoding: chunked\r\n\r\nzz\r\nabc\r\n") + ",c"},
			[2]string{"chunked-huge-size", g("HTTP/1.1 200 OK\r\nTransfer-Encoding: chunked\r\n\r\nffffffffffffffff\r\nabc") + ",c"},
			[2]string{"chunked-size-overflow", g("HTTP/1.1 200 OK\r\nTransfer-Encoding: chunked\r\n\r\n7fffffffffffffff\r\n"+string(v0)) + ",c"},
			[2]string{"raw-not-http", g("\x00\x1bthis is not http at all\r\n\r\n")},
			[2]string{"raw-bad-status-line", g("HTTP/1.1 two hundred OK\r\n\r\n") + ",c"},
			[2]string{"raw-http09", g(string(v0)) + ",c"},
			[2]string{"raw-two-lengths", g(fmt.Sprintf("HTTP/1.1 200 OK\r\nContent-Length: %d\r\nContent-Length: 5\r\n\r\n%s", n, v0))},
			[2]string{"raw-long-header", g("HTTP/1.1 200 OK\r\nX-A: "+strings.Repeat("a", 2<<20)+"\r\n\r\n") + ",c"},
			[2]string{"raw-cut-head", g("HTTP/1.1 200 OK\r\nContent-Le") + ",c"},
			[2]string{"raw-100-continue-then-valid", g("HTTP/1.1 100 Continue\r\n\r\n") + fmt.Sprintf(",cl%d,%s", n, b(v0))},
			[2]string{"raw-unsolicited-second-response", fmt.Sprintf("cl%d,%s,", n, b(v0)) + g(fmt.Sprintf("HTTP/1.1 200 OK\r\nContent-Length: %d\r\n\r\n%s", n, v0))},
		)
	}
	if tr == "https" {
		rnd := make([]byte, 64)
		r.Read(rnd)
		l = append(l,
			[2]string{"raw-random-octets", "g" + hexs(rnd)},
			[2]string{"raw-frame-too-long", "g" + hexs([]byte{0xff, 0xff, 0xff, 0, 0, 0, 0, 0, 1})},
			[2]string{"raw-data-on-stream-0", "g" + hexs([]byte{0, 0, 1, 0, 0, 0, 0, 0, 0, 0x41})},
			[2]string{"raw-http1-text", "g" + hexs([]byte("HTTP/1.1 200 OK\r\nContent-Length: 0\r\n\r\n"))},
			[2]string{"raw-goaway", "g" + hexs([]byte{0, 0, 8, 7, 0, 0, 0, 0, 0, 0, 0, 0, 0, 0, 0, 0, 2})},
			[2]string{"raw-window-update-zero", "g" + hexs([]byte{0, 0, 4, 8, 0, 0, 0, 0, 1, 0, 0, 0, 0})},
			[2]string{"raw-after-valid", fmt.Sprintf("cl%d,%s,p100,g%s", n, b(v0), hexs(rnd))},
		)
	}
	for i, a := range adv {
		if i%3 != 0 {
			continue
		}
		l = append(l, [2]string{"adversarial/" + strconv.Itoa(i), b(a)})
	}
	return l
}

func c01upDoHRandom(r *rand.Rand, adv [][]byte, tr string) string {
	var toks []string
	p, _ := c01upPayload(r, adv)
	if r.Intn(8) == 0 {
		toks = append(toks, "st"+strconv.Itoa([]int{200, 200, 400, 500, 503, 302, 100, 0, 999}[r.Intn(9)]))
	}
	if r.Intn(5) == 0 {
		toks = append(toks, "ct"+strconv.Itoa(r.Intn(3)))
	}
	switch x := r.Intn(10); {
	case x < 3:
	case x < 6:
		toks = append(toks, "cl"+strconv.Itoa(len(p)))
	case x < 7:
		toks = append(toks, "cl"+strconv.Itoa(len(p)+1+r.Intn(100000)))
	case x < 8:
		if len(p) > 0 {
			toks = append(toks, "cl"+strconv.Itoa(r.Intn(len(p))))
		}
	case x < 9:
		toks = append(toks, "cl"+[]string{"4611686018427387904", "9223372036854775807", "9223372036854775808", "-1", "0x10", "1e3", "", "99999999999999999999999"}[r.Intn(8)])
	default:
		if tr == "http" {
			toks = append(toks, "te")
		}
	}
	if len(p) > 1 && r.Intn(3) == 0 {
		c := 1 + r.Intn(len(p)-1)
		toks = append(toks, "b"+hexs(p[:c]), "p"+strconv.Itoa(5+r.Intn(20)), "b"+hexs(p[c:]))
	} else {
		toks = append(toks, "b"+hexs(p))
	}
	if r.Intn(12) == 0 {
		toks = append(toks, "x"+strconv.Itoa(60000+r.Intn(20000)))
	}
	if t := []string{"", "", "", "", "c", "c", "r", "z"}[r.Intn(8)]; t != "" {
		toks = append(toks, t)
	}
	return strings.Join(toks, ",")
}

func c01upWstallCases(r *rand.Rand, thorough bool) []c01upCase {
	v1 := frame(c01upValid(1, "second.up.test."))
	v0 := frame(c01upValid(0, c01upFirstName))
	v9 := frame(c01upValid(9, c01upFirstName))
	gar := frame(c14garbage(1))
	w := func(bs ...[]byte) string {
		var all []byte
		for _, b := range bs {
			all = append(all, b...)
		}
		return "w" + hexs(all)
	}
	l := [][2]string{
		{"dup2", w(v1, v1)},
		{"dup3", w(v1) + ",p20," + w(v1) + ",p20," + w(v1)},
		{"single", w(v1)},
		{"both-dup", w(v0, v1, v0, v1)},
		{"unasked", w(v9, v9)},
		{"dup2-then-garbage", w(v1, v1, gar)},
		{"garbage", w(gar)},
		{"nothing", "p10"},
	}
	var out []c01upCase
	for i, tr := range []string{"tcp+pipeline", "tls+pipeline"} {
		for j, c := range l {
			if !thorough && j >= 2 && (j+i)%3 != int(r.Int31n(3)) {
				continue
			}
			out = append(out, c01upCase{tr, c[1], "wstall/" + tr + "/" + c[0]})
		}
	}
	return out
}

func c01upGen(r *rand.Rand, thorough bool, emit func(c, cat string)) {
	adv := adversarial()
	var cases []c01upCase
	streamTrs := []string{"tcp", "tls", "tcp+pipeline", "tls+pipeline", "quic"}
	for ti, tr := range streamTrs {
		fixed := c01upStreamFixed(r, adv, tr == "quic")
		off := r.Intn(5)
		for i, c := range fixed {
			// quick: the framing cases on every transport, a rotating fifth of the adversarial payloads
			if !thorough && strings.HasPrefix(c[0], "adversarial/") && (i+ti+off)%5 != 0 {
				continue
			}
			cases = append(cases, c01upCase{tr, c[1], tr + "/" + c[0]})
		}
		n := 6
		if thorough {
			n = 120
		}
		for i := 0; i < n; i++ {
			sc, cat := c01upStreamRandom(r, adv, tr == "quic")
			cases = append(cases, c01upCase{tr, sc, tr + "/" + cat})
		}
	}
	{
		fixed := c01upUDPFixed(r, adv)
		off := r.Intn(3)
		for i, c := range fixed {
			if !thorough && strings.HasPrefix(c[0], "adversarial/") && (i+off)%3 != 0 {
				continue
			}
			cases = append(cases, c01upCase{"udp", c[1], "udp/" + c[0]})
		}
		n := 10
		if thorough {
			n = 200
		}
		for i := 0; i < n; i++ {
			cases = append(cases, c01upCase{"udp", c01upUDPRandom(r, adv), "udp/random"})
		}
	}
	for ti, tr := range []string{"http", "https", "h3"} {
		fixed := c01upDoHFixed(r, adv, tr)
		off := r.Intn(4)
		for i, c := range fixed {
			if !thorough && strings.HasPrefix(c[0], "adversarial/") && (i+ti+off)%4 != 0 {
				continue
			}
			cases = append(cases, c01upCase{tr, c[1], tr + "/" + c[0]})
		}
		n := 5
		if thorough {
			n = 100
		}
		for i := 0; i < n; i++ {
			cases = append(cases, c01upCase{tr, c01upDoHRandom(r, adv, tr), tr + "/random"})
		}
	}
	cases = append(cases, c01upWstallCases(r, thorough)...)
	var lines []string
	for _, c := range cases {
		if c.sc == "" {
			c.sc = "-"
		}
		if strings.HasPrefix(c.cat, "wstall/") {
			lines = append(lines, fmt.Sprintf("tr=%s wstall=1 sc=%s n=3", c.tr, c.sc))
			continue
		}
		dl := 2500
		// the expectation decodes the scripted payloads with the code under test: a decoder that does not
		// terminate must show as a hang of THIS case, not of the generator
		expc := make(chan string, 1)
		go func(tr, sc string) { expc <- c01upExpect(tr, c01upSplit(sc)) }(c.tr, c.sc)
		select {
		case e := <-expc:
			if e != "resp" {
				dl = 220 + r.Intn(60)
			}
		case <-time.After(20 * time.Second):
			line := fmt.Sprintf("tr=%s sc=%s dl=%d n=2", c.tr, c.sc, dl)
			fmt.Fprintf(os.Stderr, "#running\t%s\n", line)
			outMu.Lock()
			out.WriteString(line + "\thang\n")
			out.Flush()
			os.Exit(3)
		}
		n := 2
		if strings.Contains(c.tr, "pipeline") || c.tr == "udp" {
			n = 3
		}
		lines = append(lines, fmt.Sprintf("tr=%s sc=%s dl=%d n=%d", c.tr, c.sc, dl, n))
	}
	c01upPrecompute(lines, 6)
	for i, c := range cases {
		emit(lines[i], c.cat)
	}
}

// The cases are carried out by child processes (`mvharness replay upreply`, several at a time, each one
// sequentially): a reply that kills the process (a panic on a goroutine of the code under test) kills one child,
// the case it was running gets the output `panic` (exit by the watchdog: `hang`) and the others go on.
var c01upCache = struct {
	sync.Mutex
	m map[string]string
}{m: map[string]string{}}

func c01upChild(cases []string) {
	exe, err := os.Executable()
	if err != nil {
		return
	}
	for len(cases) > 0 {
		cmd := exec.Command(exe, "replay", "upreply")
		cmd.Env = append(os.Environ(), "C01UP_CHILD=1")
		cmd.Stdin = strings.NewReader(strings.Join(cases, "\n") + "\n")
		var stderr bytes.Buffer
		cmd.Stderr = &stderr
		stdout, err := cmd.StdoutPipe()
		if err != nil || cmd.Start() != nil {
			return
		}
		got := 0
		sc := bufio.NewScanner(stdout)
		sc.Buffer(make([]byte, 1<<20), 1<<26)
		for sc.Scan() {
			parts := strings.SplitN(sc.Text(), "\t", 2)
			if len(parts) != 2 || got >= len(cases) || parts[0] != cases[got] {
				continue
			}
			c01upCache.Lock()
			c01upCache.m[parts[0]] = parts[1]
			c01upCache.Unlock()
			got++
		}
		werr := cmd.Wait()
		if got >= len(cases) {
			return
		}
		if werr == nil {
			return // the child stopped early without dying: leave the rest to the in-process path
		}
		res := "panic"
		if ee, ok := werr.(*exec.ExitError); ok && ee.ExitCode() == 3 {
			res = "hang"
		}
		tail := stderr.String()
		if len(tail) > 1500 {
			tail = tail[len(tail)-1500:]
		}
		fmt.Fprintf(os.Stderr, "upreply: child died on case %q:\n%s\n", cases[got], tail)
		c01upCache.Lock()
		c01upCache.m[cases[got]] = res
		c01upCache.Unlock()
		cases = cases[got+1:]
	}
}

func c01upPrecompute(cases []string, workers int) {
	if os.Getenv("C01UP_CHILD") != "" {
		return
	}
	var wg sync.WaitGroup
	for w := 0; w < workers; w++ {
		var mine []string
		for i := w; i < len(cases); i += workers {
			mine = append(mine, cases[i])
		}
		wg.Add(1)
		go func() {
			defer wg.Done()
			c01upChild(mine)
		}()
	}
	wg.Wait()
}

func c01upRunCached(cs string) string {
	c01upCache.Lock()
	res, ok := c01upCache.m[cs]
	c01upCache.Unlock()
	if ok {
		if res == "panic" {
			panic("the process died on this case (see stderr)")
		}
		return res
	}
	return c01upRun(cs)
}

// Component `uprecords` (C08, C02): every transport kind delivers the records of a valid reply as the server sent
// them (address and ttl; the DoH servers answer like an HTTP cache, with an `Age` beyond the ttl): the `valid`
// cases of `upreply`, three probes each.
func c01upRecordsGen(r *rand.Rand, thorough bool, emit func(c, cat string)) {
	adv := adversarial()
	rounds := 1
	if thorough {
		rounds = 4
	}
	for i := 0; i < rounds; i++ {
		for _, tr := range []string{"tcp", "tls", "tcp+pipeline", "tls+pipeline", "quic"} {
			emit(fmt.Sprintf("tr=%s sc=%s dl=2500 n=3", tr, c01upStreamFixed(r, adv, tr == "quic")[0][1]), tr+"/valid")
		}
		emit(fmt.Sprintf("tr=udp sc=%s dl=2500 n=3", c01upUDPFixed(r, adv)[0][1]), "udp/valid")
		for _, tr := range []string{"http", "https", "h3"} {
			f := c01upDoHFixed(r, adv, tr)
			emit(fmt.Sprintf("tr=%s sc=%s dl=2500 n=3", tr, f[i%2][1]), tr+"/"+f[i%2][0])
		}
	}
}

func init() {
	register("upreply", &component{gen: c01upGen, run: c01upRunCached})
	register("uprecords", &component{gen: c01upRecordsGen, run: c01upRun})
}
