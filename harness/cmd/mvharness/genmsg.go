package main

// Type-directed generator of DNS messages in the canonical text form (msgtext.go).
// The label / name pools are designed to interact with name compression: shared suffixes,
// nested suffix chains, labels that contain length-like octets, maximal labels and names.

import (
	"fmt"
	"math/rand"
	"strings"
)

type msgGen struct {
	r     *rand.Rand
	names [][]byte // wire form without terminator
	// eligible for comparison with independent decoders (miekg, x/net)
	indep bool
	// knobs
	arbitraryOctets bool
	maxRR           int
}

func newMsgGen(r *rand.Rand) *msgGen {
	return &msgGen{r: r, indep: true, arbitraryOctets: r.Intn(3) == 0, maxRR: 1 + r.Intn(6)}
}

var smallLabels = [][]byte{[]byte("a"), []byte("b"), []byte("com"), []byte("example"), []byte("www"), {1, 'a'}, {'a', 1, 'b'}, {3, 'a', 1, 'b'}, []byte("A"), []byte("Com")}

func (g *msgGen) label() []byte {
	switch k := g.r.Intn(10); {
	case k < 5:
		return smallLabels[g.r.Intn(len(smallLabels))]
	case k < 7 || !g.arbitraryOctets:
		n := 1 + g.r.Intn(12)
		b := make([]byte, n)
		for i := range b {
			b[i] = "abcdefghijklmnopqrstuvwxyzABCXYZ0123456789-_"[g.r.Intn(44)]
		}
		return b
	case k < 9:
		n := 1 + g.r.Intn(8)
		b := make([]byte, n)
		for i := range b {
			b[i] = byte(g.r.Intn(256))
			if b[i] == '.' || b[i] == '\\' {
				g.indep = false // x/net cannot represent such labels unambiguously
			}
		}
		return b
	default:
		n := []int{63, 62, 24, 23, 25, 40}[g.r.Intn(6)]
		b := make([]byte, n)
		for i := range b {
			b[i] = byte('a' + g.r.Intn(26))
		}
		return b
	}
}

func wireLabels(ls ...[]byte) []byte {
	var o []byte
	for _, l := range ls {
		o = append(o, byte(len(l)))
		o = append(o, l...)
	}
	return o
}

// name returns a well-formed name (≤ 254 octets without terminator).
func (g *msgGen) name() []byte {
	var n []byte
	switch k := g.r.Intn(20); {
	case k == 0:
		n = nil // root
	case k < 7 && len(g.names) > 0: // reuse
		n = g.names[g.r.Intn(len(g.names))]
	case k < 13 && len(g.names) > 0: // extend an existing name by one or two labels (nested suffix chain)
		base := g.names[g.r.Intn(len(g.names))]
		n = append(wireLabels(g.label()), base...)
		if g.r.Intn(3) == 0 {
			n = append(wireLabels(g.label()), n...)
		}
	case k < 15 && len(g.names) > 0: // share a proper suffix of an existing name
		base := g.names[g.r.Intn(len(g.names))]
		if len(base) > 0 {
			// drop the first label
			base = base[1+int(base[0]):]
		}
		n = append(wireLabels(g.label()), base...)
	case k == 15: // long name
		for len(n) < 200 {
			n = append(n, wireLabels(g.label())...)
		}
	default:
		cnt := 1 + g.r.Intn(4)
		for i := 0; i < cnt; i++ {
			n = append(n, wireLabels(g.label())...)
		}
	}
	for len(n) > 254 {
		n = n[1+int(n[0]):]
	}
	g.names = append(g.names, n)
	return n
}

func (g *msgGen) u16() int {
	switch g.r.Intn(6) {
	case 0:
		return 0
	case 1:
		return 65535
	case 2:
		return 1 << uint(g.r.Intn(16))
	}
	return g.r.Intn(65536)
}

func (g *msgGen) u32() uint32 {
	switch g.r.Intn(6) {
	case 0:
		return 0
	case 1:
		return 0xFFFFFFFF
	case 2:
		return uint32(g.r.Intn(4000))
	}
	return g.r.Uint32()
}

func (g *msgGen) bytes(n int) []byte {
	b := make([]byte, n)
	g.r.Read(b)
	return b
}

// types no decoder in the comparison interprets
var unknownTypes = []int{65280, 65281, 65399, 1000, 1500, 2000, 65534}

func (g *msgGen) optData() []byte {
	var d []byte
	for i := g.r.Intn(3); i > 0; i-- {
		code := []int{8, 10, 12, 15, 65001}[g.r.Intn(5)]
		l := g.r.Intn(12)
		if code == 8 { // a well-formed ECS option
			l = 4 + 3
			d = append(d, 0, 8, 0, byte(l), 0, 1, 24, 0)
			d = append(d, g.bytes(3)...)
			continue
		}
		if code == 10 { // cookie: 8 bytes client cookie
			l = 8
		}
		if code == 15 && l < 2 { // extended DNS error: miekg insists on the 2-byte info code
			l = 2 + g.r.Intn(10)
		}
		d = append(d, byte(code>>8), byte(code), byte(l>>8), byte(l))
		d = append(d, g.bytes(l)...)
	}
	return d
}

func (g *msgGen) rr(sec string) string {
	name := g.name()
	class := 1
	if g.r.Intn(8) == 0 {
		class = g.u16()
	}
	ttl := g.u32()
	var typ int
	var rd string
	switch k := g.r.Intn(14); k {
	case 0, 1:
		typ, rd = 1, "a,"+hexs(g.bytes(4))
	case 2:
		typ, rd = 28, "aaaa,"+hexs(g.bytes(16))
	case 3:
		typ, rd = 2, "name,"+hexs(g.name())
	case 4:
		typ, rd = 5, "name,"+hexs(g.name())
	case 5:
		typ, rd = 12, "name,"+hexs(g.name())
	case 6:
		typ, rd = 15, fmt.Sprintf("mx,%d,%s", g.u16(), hexs(g.name()))
	case 7:
		typ, rd = 6, fmt.Sprintf("soa,%s,%s,%d,%d,%d,%d,%d", hexs(g.name()), hexs(g.name()), g.u32(), g.u32(), g.u32(), g.u32(), g.u32())
	case 8:
		typ, rd = 33, fmt.Sprintf("srv,%d,%d,%d,%s", g.u16(), g.u16(), g.u16(), hexs(g.name()))
	case 9: // TXT with well-formed character strings
		var d []byte
		for i := 1 + g.r.Intn(3); i > 0; i-- {
			l := g.r.Intn(40)
			d = append(d, byte(l))
			d = append(d, g.bytes(l)...)
		}
		typ, rd = 16, "raw,"+hexs(d)
	case 10: // unknown type, arbitrary data incl. empty
		typ = unknownTypes[g.r.Intn(len(unknownTypes))]
		l := 0
		if g.r.Intn(4) > 0 {
			l = g.r.Intn(60)
		}
		rd = "raw," + hexs(g.bytes(l))
	case 11: // OPT (only meaningful in additionals, but the codec does not care)
		typ, rd = 41, "raw,"+hexs(g.optData())
		if sec != "ar" || len(name) != 0 {
			// independent decoders insist on a root owner for OPT / placement rules
			if len(name) != 0 {
				g.indep = false
			}
		}
		class = []int{512, 1232, 4096, 65535, 0}[g.r.Intn(5)]
	case 12: // raw record of a type other decoders interpret: not comparable
		typ = []int{16, 13, 99, 43, 46, 257}[g.r.Intn(6)]
		rd = "raw," + hexs(g.bytes(g.r.Intn(30)))
		g.indep = false
	default: // big raw record (pushes offsets up)
		typ = unknownTypes[g.r.Intn(len(unknownTypes))]
		rd = "raw," + hexs(g.bytes(100+g.r.Intn(400)))
	}
	return fmt.Sprintf("%s=%s,%d,%d,%d,%s", sec, hexs(name), typ, class, ttl, rd)
}

func (g *msgGen) header() string {
	bit := func() int { return g.r.Intn(2) }
	op, rc := 0, 0
	if g.r.Intn(4) == 0 {
		op = g.r.Intn(16)
	}
	if g.r.Intn(3) == 0 {
		rc = g.r.Intn(16)
	}
	z := 0 // the reserved bit Z is set in a quarter of the headers
	if g.r.Intn(4) == 0 {
		z = 1
	}
	return fmt.Sprintf("h=%d,%d,%d,%d,%d,%d,%d,%d,%d,%d,%d", g.u16(), bit(), op, bit(), bit(), bit(), bit(), bit(), bit(), rc, z)
}

// msg returns the message tokens.
func (g *msgGen) msg() string {
	toks := []string{g.header()}
	nq := []int{1, 1, 1, 0, 2, 3}[g.r.Intn(6)]
	for i := 0; i < nq; i++ {
		qt := []int{1, 28, 15, 255, 65, g.u16()}[g.r.Intn(6)]
		qc := 1
		if g.r.Intn(6) == 0 {
			qc = g.u16()
		}
		toks = append(toks, fmt.Sprintf("q=%s,%d,%d", hexs(g.name()), qt, qc))
	}
	for _, sec := range []string{"an", "ns", "ar"} {
		n := g.r.Intn(g.maxRR + 1)
		if g.r.Intn(3) == 0 {
			n = 0
		}
		for i := 0; i < n; i++ {
			toks = append(toks, g.rr(sec))
		}
	}
	return strings.Join(toks, " ")
}

// nestedChain builds a message whose answer names form a nested suffix chain of the given depth
// (l1, l2.l1, l3.l2.l1, …): the shape that used to produce pointer chains.
func nestedChain(depth int) string {
	toks := []string{"h=1,1,0,0,0,1,1,0,0,0", "q=" + hexs(wireLabels([]byte("x"))) + ",1,1"}
	var n []byte
	for i := 0; i < depth; i++ {
		n = append(wireLabels([]byte{byte('a' + i%26)}), n...)
		toks = append(toks, fmt.Sprintf("an=%s,1,1,60,a,0a000001", hexs(n)))
	}
	return strings.Join(toks, " ")
}
