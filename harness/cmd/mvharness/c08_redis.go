package main

// C08, redis backend: the real cacheCtl.Store / cacheCtl.Get with `cache: {redis: ...}` (and optionally the
// memory cache in front of it) against an in-process RESP3 server (after audit/hunt-D/finding7_test.go).
// The server acknowledges a SET at once and applies it `lag` ms later — the effect of the proxy's own SET queue
// (the relative PX ttl is computed when the SET is queued and counts from when it is applied).
//
// component rediscache, cases:
//
//	op=rhist mem=<0|1> max=<int> lag=<ms> uoff=<ms> ev=<ev>;<ev>;...   events as in c08_ttlpolicy.go (s, n, g, q)
//	   -> one observation per g/q event as in `hist`, or "skip"
//	uoff: history time 0 is `uoff` ms after a Unix second (redis values carry Unix seconds); with mem=1 history
//	time 0 is also 500 ms after a tick of otter's clock, so uoff is what this process happens to have: the
//	generator measures it, a replay with another value is skipped.

import (
	"bufio"
	"fmt"
	"io"
	"math/rand"
	"net"
	"sort"
	"strconv"
	"strings"
	"sync"
	"time"

	"github.com/IrineSistiana/mosproxy/app/router"
	"github.com/IrineSistiana/mosproxy/internal/dnsmsg"
	"github.com/IrineSistiana/mosproxy/internal/pool"
	"github.com/miekg/dns"
)

type c08rval struct {
	v   string
	exp time.Time
}

type c08rset struct {
	at       time.Time
	key, val string
	nx       bool
	px       int64
}

type c08redis struct {
	l       net.Listener
	mu      sync.Mutex
	data    map[string]c08rval
	pending []c08rset
	lag     time.Duration
	sets    int
	getLag  time.Duration // a GET is answered this much later (a slow server / network)
	down    bool          // PING is answered with an error: the proxy's ping loop marks the server as lost
}

func c08newRedis(lag time.Duration) *c08redis {
	l, err := net.Listen("tcp", "127.0.0.1:0")
	if err != nil {
		panic("harness: listen: " + err.Error())
	}
	s := &c08redis{l: l, data: map[string]c08rval{}, lag: lag}
	go func() {
		for {
			c, err := l.Accept()
			if err != nil {
				return
			}
			go s.handle(c)
		}
	}()
	return s
}

// applyDue executes the acknowledged SETs whose time has come (called with mu held).
func (s *c08redis) applyDue(now time.Time) {
	for len(s.pending) > 0 && !now.Before(s.pending[0].at) {
		p := s.pending[0]
		s.pending = s.pending[1:]
		old, exists := s.data[p.key]
		exists = exists && p.at.Before(old.exp)
		if p.nx && exists {
			continue
		}
		s.data[p.key] = c08rval{v: p.val, exp: p.at.Add(time.Duration(p.px) * time.Millisecond)}
	}
}

func (s *c08redis) handle(c net.Conn) {
	defer c.Close()
	br := bufio.NewReader(c)
	for {
		line, err := br.ReadString('\n')
		if err != nil {
			return
		}
		n, _ := strconv.Atoi(strings.TrimSpace(line[1:]))
		args := make([]string, n)
		for i := range args {
			l, err := br.ReadString('\n')
			if err != nil {
				return
			}
			sz, _ := strconv.Atoi(strings.TrimSpace(l[1:]))
			b := make([]byte, sz+2)
			if _, err := io.ReadFull(br, b); err != nil {
				return
			}
			args[i] = string(b[:sz])
		}
		if len(args) == 0 {
			continue
		}
		var out string
		switch strings.ToUpper(args[0]) {
		case "HELLO":
			out = "%3\r\n$6\r\nserver\r\n$5\r\nredis\r\n$7\r\nversion\r\n$5\r\n7.0.0\r\n$5\r\nproto\r\n:3\r\n"
		case "CLIENT":
			out = "+OK\r\n"
		case "CLUSTER":
			out = "-ERR This instance has cluster support disabled\r\n"
		case "PING":
			s.mu.Lock()
			down := s.down
			s.mu.Unlock()
			out = "+PONG\r\n"
			if down {
				out = "-ERR down\r\n"
			}
		case "GET":
			s.mu.Lock()
			gl := s.getLag
			s.mu.Unlock()
			time.Sleep(gl)
			now := time.Now()
			s.mu.Lock()
			s.applyDue(now)
			v, ok := s.data[args[1]]
			if ok && !now.Before(v.exp) {
				delete(s.data, args[1])
				ok = false
			}
			s.mu.Unlock()
			if ok {
				out = fmt.Sprintf("$%d\r\n%s\r\n", len(v.v), v.v)
			} else {
				out = "_\r\n"
			}
		case "SET":
			p := c08rset{at: time.Now().Add(s.lag), key: args[1], val: args[2]}
			for i := 3; i < len(args); i++ {
				switch strings.ToUpper(args[i]) {
				case "NX":
					p.nx = true
				case "PX":
					if i+1 < len(args) {
						p.px, _ = strconv.ParseInt(args[i+1], 10, 64)
						i++
					}
				}
			}
			s.mu.Lock()
			s.applyDue(time.Now())
			s.pending = append(s.pending, p)
			s.sets++
			s.mu.Unlock()
			out = "+OK\r\n"
		default:
			out = "-ERR unknown command\r\n"
		}
		if _, err := c.Write([]byte(out)); err != nil {
			return
		}
	}
}

func (s *c08redis) setCount() int {
	s.mu.Lock()
	defer s.mu.Unlock()
	return s.sets
}

func (s *c08redis) close() { s.l.Close() }

func c08newRedisRouter(max int, mem bool, rs *c08redis) *router.VerifRouter {
	memSize := 0
	if mem {
		memSize = 1 << 22
	}
	cfg := &router.Config{
		Upstreams: []router.UpstreamConfig{{Tag: "u", Addr: "udp://127.0.0.1:9"}},
		Rules:     []router.RuleConfig{{Forward: "u"}},
		Cache:     router.CacheConfig{MemSize: memSize, MaximumTTL: max, Redis: "redis://" + rs.l.Addr().String()},
	}
	r, err := router.VerifRun(cfg)
	if err != nil {
		panic("harness: VerifRun(redis): " + err.Error())
	}
	up := c08newUp()
	r.SetUpstream("u", up)
	c08mu.Lock()
	c08ups[r] = up
	c08mu.Unlock()
	return r
}

// the Unix-second phase at which a history of this process starts when it is aligned to otter's tick (+500 ms)
func c08uoffOfProcess() int {
	// c08tick is an instant of a tick; history time 0 = tick + 500 ms
	t := c08tick.Add(500 * time.Millisecond)
	return int(t.UnixNano() % int64(time.Second) / int64(time.Millisecond))
}

func c08rhistOnce(m map[string]string, evs []c08ev) (string, bool) {
	mem := m["mem"] == "1"
	uoff := atoi(m["uoff"])
	rs := c08newRedis(time.Duration(atoi(m["lag"])) * time.Millisecond)
	defer rs.close()
	r := c08newRedisRouter(atoi(m["max"]), mem, rs)
	defer func() {
		r.Close()
		c08mu.Lock()
		delete(c08ups, r)
		c08mu.Unlock()
	}()
	// the redis backend is used after its first successful ping (ticker: 1 s); wait until a probe is stored
	t0 := time.Now()
	for rs.setCount() == 0 {
		if time.Since(t0) > 4*time.Second {
			return "", false
		}
		nonce := c08nonce.Add(1)
		q := c08question(nonce)
		resp := c08mkMsg(c08name(nonce, 0), 1, 0, false, []c08rr{{1, 60}}, nil, nil)
		r.CacheStore(q, c08remote.Addr(), resp)
		time.Sleep(50 * time.Millisecond)
	}
	// start: `uoff` ms after a Unix second (with the memory cache: that is 500 ms after a tick, see c08uoffOfProcess)
	now := time.Now()
	w := time.Duration(uoff)*time.Millisecond - time.Duration(now.UnixNano()%int64(time.Second))
	if w < 20*time.Millisecond {
		w += time.Second
	}
	start := now.Add(w)
	return c08runEvents(r, evs, start)
}

func c08rhist(m map[string]string) string {
	mem := m["mem"] == "1"
	if mem {
		if !c08calibrate() {
			return "skip"
		}
		d := c08uoffOfProcess() - atoi(m["uoff"])
		if d < 0 {
			d = -d
		}
		if d > 3 && d < 997 {
			return "skip" // generated in a process with another phase between otter's clock and the Unix second
		}
	}
	evs := c08parseEvs(m["ev"])
	for attempt := 0; attempt < 3; attempt++ {
		if res, ok := c08rhistOnce(m, evs); ok {
			return res
		}
	}
	return "skip"
}

func c08redisRun(cs string) string {
	m := kv(cs)
	if m["op"] == "rhist" {
		if res, ok := c08rpre[cs]; ok {
			delete(c08rpre, cs)
			return res
		}
		return c08rhist(m)
	}
	if m["op"] == "twotier" {
		return c08twoTier(m)
	}
	if m["op"] == "rstart" {
		return c08redisStart(m)
	}
	if m["op"] == "restore" {
		return c08restore(m)
	}
	if m["op"] == "slowget" {
		return c08slowGet(m)
	}
	if m["op"] == "outage" {
		return c08outage(m)
	}
	return "bad-op"
}

// op=twotier big=<octets of TXT data> rcode=<error rcode>: memory cache (mem_size 4096: an entry above a tenth of
// it is rejected) in front of redis. A positive answer of `big` octets is stored (redis holds it, the memory cache
// may not), then an error response for the same question: the lookup that follows must still be the positive
// answer — "absent in the memory cache" is not "absent in the cache" (D61, e6d2a98).   out: got=<pos|neg|miss>
func c08twoTier(m map[string]string) string {
	rs := c08newRedis(0)
	defer rs.close()
	cfg := &router.Config{
		Upstreams: []router.UpstreamConfig{{Tag: "u", Addr: "udp://127.0.0.1:9"}},
		Rules:     []router.RuleConfig{{Forward: "u"}},
		Cache:     router.CacheConfig{MemSize: 4096, Redis: "redis://" + rs.l.Addr().String()},
	}
	r, err := router.VerifRun(cfg)
	if err != nil {
		return "fixture-error"
	}
	defer r.Close()
	time.Sleep(1100 * time.Millisecond) // (before 78c2f26 the redis cache was not used during its first second)
	nonce := c08nonce.Add(1)
	q := c08question(nonce)
	name := c08name(nonce, 0)
	pos := c08mkMsg(name, 1, dns.RcodeSuccess, false, []c08rr{{typ: dns.TypeA, ttl: 300}}, nil, nil)
	for n := atoi(m["big"]); n > 0; n -= 200 { // pad with TXT-like records of 200 octets
		rr := dnsmsg.NewRaw()
		rr.Name = nameBuf(pos.Answers[0].Hdr().Name)
		rr.Type, rr.Class, rr.TTL = 16, 1, 300
		d := make([]byte, 200)
		rand.New(rand.NewSource(nonce*1000 + int64(n))).Read(d) // incompressible: the cache value is compressed
		d[0] = 199
		rr.Data = pool.GetBuf(len(d))
		copy(rr.Data, d)
		pos.Additionals = append(pos.Additionals, rr)
	}
	neg := c08mkMsg(name, 2, atoi(m["rcode"]), false, nil, nil, nil)
	r.CacheStore(q, c08remote.Addr(), pos)
	for i := 0; i < 100 && rs.setCount() < 1; i++ {
		time.Sleep(10 * time.Millisecond)
	}
	r.CacheStore(q, c08remote.Addr(), neg)
	time.Sleep(60 * time.Millisecond)
	g, _, _ := r.CacheGet(q, c08remote)
	defer func() { dnsmsg.ReleaseMsg(pos); dnsmsg.ReleaseMsg(neg); dnsmsg.ReleaseQuestion(q) }()
	if g == nil {
		return "got=miss"
	}
	defer dnsmsg.ReleaseMsg(g)
	if g.Header.RCode == dnsmsg.RCodeSuccess && len(g.Answers) == 1 {
		return "got=pos"
	}
	return "got=neg"
}

// op=restore mem=<0|1> redis=<0|1> t1=<ttl> t2=<ttl>: a positive answer with ttl t1 is stored, 1.2 s later a
// positive answer with ttl t2 for the same question (what a successful refresh does): a plain store REPLACES the
// entry in every tier — the lookup that follows carries the second answer's ttl (t2, minus at most 2 s), whether t2
// is longer or shorter than what was left of t1.                      out: got=<new|old|miss> ## ttl=<n>
func c08restore(m map[string]string) string {
	t1, t2 := uint32(atoi(m["t1"])), uint32(atoi(m["t2"]))
	memSize := 0
	if m["mem"] == "1" {
		memSize = 1 << 22
	}
	cfg := &router.Config{
		Upstreams: []router.UpstreamConfig{{Tag: "u", Addr: "udp://127.0.0.1:9"}},
		Rules:     []router.RuleConfig{{Forward: "u"}},
		Cache:     router.CacheConfig{MemSize: memSize},
	}
	var rs *c08redis
	if m["redis"] == "1" {
		rs = c08newRedis(0)
		defer rs.close()
		cfg.Cache.Redis = "redis://" + rs.l.Addr().String()
	}
	r, err := router.VerifRun(cfg)
	if err != nil {
		return "fixture-error"
	}
	defer r.Close()
	nonce := c08nonce.Add(1)
	q := c08question(nonce)
	name := c08name(nonce, 0)
	a1 := c08mkMsg(name, 1, dns.RcodeSuccess, false, []c08rr{{typ: dns.TypeA, ttl: t1}}, nil, nil)
	a2 := c08mkMsg(name, 2, dns.RcodeSuccess, false, []c08rr{{typ: dns.TypeA, ttl: t2}}, nil, nil)
	if m["nodata"] == "1" { // the refresh says NOERROR without answers (SOA in the authority section): also a replacement
		dnsmsg.ReleaseMsg(a2)
		a2 = c08mkMsg(name, 2, dns.RcodeSuccess, false, nil, []c08rr{{typ: dns.TypeSOA, ttl: t2}}, nil)
	}
	defer func() { dnsmsg.ReleaseMsg(a1); dnsmsg.ReleaseMsg(a2); dnsmsg.ReleaseQuestion(q) }()
	r.CacheStore(q, c08remote.Addr(), a1)
	time.Sleep(1200 * time.Millisecond)
	r.CacheStore(q, c08remote.Addr(), a2)
	time.Sleep(150 * time.Millisecond)
	g, _, _ := r.CacheGet(q, c08remote)
	if g == nil {
		return "got=miss"
	}
	defer dnsmsg.ReleaseMsg(g)
	ttl := uint32(0)
	if len(g.Answers) == 1 {
		ttl = g.Answers[0].Hdr().TTL
	}
	if m["nodata"] == "1" {
		if len(g.Answers) == 0 && len(g.Authorities) == 1 {
			return "got=new ## nodata"
		}
		return fmt.Sprintf("got=old ## answers=%d", len(g.Answers))
	}
	if ttl <= t2 && ttl+2 >= t2 {
		return fmt.Sprintf("got=new ## ttl=%d", ttl)
	}
	return fmt.Sprintf("got=old ## ttl=%d", ttl)
}

// op=slowget ttl=<n> lag=<ms>: redis only; an answer with ttl n is stored, then looked up while the server takes
// `lag` ms to answer the GET. The ttl of what the lookup returns is judged at the moment it RETURNS: at most
// n - whole seconds since the store (an answer ages while it travels).      out: ok=<0|1> ## ttl=<t> age_ms=<a>
func c08slowGet(m map[string]string) string {
	rs := c08newRedis(0)
	defer rs.close()
	r := c08newRedisRouter(0, false, rs)
	defer r.Close()
	time.Sleep(1100 * time.Millisecond)
	ttl := uint32(atoi(m["ttl"]))
	nonce := c08nonce.Add(1)
	q := c08question(nonce)
	pos := c08mkMsg(c08name(nonce, 0), 1, dns.RcodeSuccess, false, []c08rr{{typ: dns.TypeA, ttl: ttl}}, nil, nil)
	defer func() { dnsmsg.ReleaseMsg(pos); dnsmsg.ReleaseQuestion(q) }()
	t0 := time.Now()
	r.CacheStore(q, c08remote.Addr(), pos)
	for i := 0; i < 100 && rs.setCount() < 1; i++ {
		time.Sleep(10 * time.Millisecond)
	}
	time.Sleep(100 * time.Millisecond)
	rs.mu.Lock()
	rs.getLag = time.Duration(atoi(m["lag"])) * time.Millisecond
	rs.mu.Unlock()
	g, _, _ := r.CacheGet(q, c08remote)
	age := time.Since(t0)
	if g == nil {
		return fmt.Sprintf("ok=1 ## miss age_ms=%d", age.Milliseconds()) // a miss is not a wrong ttl
	}
	defer dnsmsg.ReleaseMsg(g)
	got := uint32(0)
	if len(g.Answers) == 1 {
		got = g.Answers[0].Hdr().TTL
	}
	// whole seconds between the store and the return of the lookup; the stored time has a resolution of 1 s
	maxTTL := int64(ttl) - int64(age/time.Second) + 1
	ok := 1
	if int64(got) > maxTTL {
		ok = 0
	}
	return fmt.Sprintf("ok=%d ## ttl=%d age_ms=%d", ok, got, age.Milliseconds())
}

// op=outage rcode=<error rcode>: memory cache (4096: rejects the big entry) in front of redis. A positive answer is
// stored (redis only), the redis server stops answering PING (the proxy marks it lost), an error response for the
// question is stored during the outage, the server comes back: the lookup is the positive answer — what is absent
// in the memory cache is not absent in the cache, whether or not redis can be asked right now.   out: got=<pos|neg|miss>
func c08outage(m map[string]string) string {
	rs := c08newRedis(0)
	defer rs.close()
	cfg := &router.Config{
		Upstreams: []router.UpstreamConfig{{Tag: "u", Addr: "udp://127.0.0.1:9"}},
		Rules:     []router.RuleConfig{{Forward: "u"}},
		Cache:     router.CacheConfig{MemSize: 4096, Redis: "redis://" + rs.l.Addr().String()},
	}
	r, err := router.VerifRun(cfg)
	if err != nil {
		return "fixture-error"
	}
	defer r.Close()
	time.Sleep(1100 * time.Millisecond)
	nonce := c08nonce.Add(1)
	q := c08question(nonce)
	name := c08name(nonce, 0)
	pos := c08mkMsg(name, 1, dns.RcodeSuccess, false, []c08rr{{typ: dns.TypeA, ttl: 300}}, nil, nil)
	for n := 800; n > 0; n -= 200 {
		rr := dnsmsg.NewRaw()
		rr.Name = nameBuf(pos.Answers[0].Hdr().Name)
		rr.Type, rr.Class, rr.TTL = 16, 1, 300
		d := make([]byte, 200)
		rand.New(rand.NewSource(nonce*1000 + int64(n))).Read(d) // incompressible: the cache value is compressed
		d[0] = 199
		rr.Data = pool.GetBuf(len(d))
		copy(rr.Data, d)
		pos.Additionals = append(pos.Additionals, rr)
	}
	neg := c08mkMsg(name, 2, atoi(m["rcode"]), false, nil, nil, nil)
	defer func() { dnsmsg.ReleaseMsg(pos); dnsmsg.ReleaseMsg(neg); dnsmsg.ReleaseQuestion(q) }()
	r.CacheStore(q, c08remote.Addr(), pos)
	for i := 0; i < 100 && rs.setCount() < 1; i++ {
		time.Sleep(10 * time.Millisecond)
	}
	rs.mu.Lock()
	rs.down = true
	rs.mu.Unlock()
	time.Sleep(2200 * time.Millisecond) // at least one ping fails
	r.CacheStore(q, c08remote.Addr(), neg)
	rs.mu.Lock()
	rs.down = false
	rs.mu.Unlock()
	time.Sleep(2200 * time.Millisecond) // at least one ping succeeds
	g, _, _ := r.CacheGet(q, c08remote)
	if g == nil {
		return "got=miss"
	}
	defer dnsmsg.ReleaseMsg(g)
	if g.Header.RCode == dnsmsg.RCodeSuccess && len(g.Answers) == 1 {
		return "got=pos"
	}
	return "got=neg"
}

// op=rstart wait=<ms>: redis only; an answer stored `wait` ms after start-up and looked up 150 ms later is a hit —
// the cache works from the moment the client has connected (D62, 78c2f26).   out: got=<hit|miss>
func c08redisStart(m map[string]string) string {
	rs := c08newRedis(0)
	defer rs.close()
	r := c08newRedisRouter(0, false, rs)
	defer r.Close()
	time.Sleep(time.Duration(atoi(m["wait"])) * time.Millisecond)
	nonce := c08nonce.Add(1)
	q := c08question(nonce)
	pos := c08mkMsg(c08name(nonce, 0), 1, dns.RcodeSuccess, false, []c08rr{{typ: dns.TypeA, ttl: 300}}, nil, nil)
	defer func() { dnsmsg.ReleaseMsg(pos); dnsmsg.ReleaseQuestion(q) }()
	r.CacheStore(q, c08remote.Addr(), pos)
	time.Sleep(150 * time.Millisecond)
	g, _, _ := r.CacheGet(q, c08remote)
	if g == nil {
		return "got=miss"
	}
	dnsmsg.ReleaseMsg(g)
	return "got=hit"
}

// results of the histories the generator already ran concurrently
var c08rpre = map[string]string{}

// ---------------------------------------------------------------- generator

// c08genRHist places events away from: Unix-second boundaries (redis values carry whole seconds), otter's ticks
// (mem=1), whole seconds of age of any earlier store, and the instants at which a SET is applied / a redis key ends.
func c08genRHist(r *rand.Rand, mem bool, uoff int, durMs int, nEv int, lagPool []int) string {
	max := []int{0, 0, 2, 3}[r.Intn(4)]
	lag := lagPool[r.Intn(len(lagPool))]
	nKeys := 1 + r.Intn(2)
	type pl struct {
		t    int
		kind string
		key  int
		body string
		life int
	}
	var evs []pl
	near := func(x, m, margin int) bool { // is x within margin of a multiple of 1000 shifted by m
		d := ((x-m)%1000 + 1000) % 1000
		return d < margin || d > 1000-margin
	}
	okTime := func(t int, kind string, key, life int) bool {
		if near(t, -uoff, 170) { // Unix second boundary: history time ≡ -uoff (mod 1000)
			return false
		}
		if mem && near(t, 500, 170) {
			return false
		}
		storeish := func(k string) bool { return k == "s" || k == "q" }
		getish := func(k string) bool { return k == "g" || k == "q" }
		for _, e := range evs {
			d := t - e.t
			if d < 0 {
				d = -d
			}
			if d < 60 {
				return false
			}
			// the SET of a store is applied at e.t+lag; the redis key ends at e.t+lag+life*1000-(small)
			if storeish(e.kind) {
				for _, x := range []int{e.t + lag, e.t + lag + e.life*1000} {
					if dd := t - x; dd > -170 && dd < 170 {
						return false
					}
				}
			}
			if storeish(kind) {
				for _, x := range []int{t + lag, t + lag + life*1000} {
					if dd := e.t - x; dd > -170 && dd < 170 {
						return false
					}
				}
			}
			if e.key != key {
				continue
			}
			// whole seconds of age of an entry of the memory cache (its stored time is the store's instant)
			if (storeish(e.kind) && getish(kind) && e.t < t) || (storeish(kind) && getish(e.kind) && t < e.t) {
				if dm := d % 1000; dm < 170 || dm > 830 {
					return false
				}
			}
			if kind == "q" && storeish(e.kind) && e.t < t { // keep client queries out of the prefetch window (C19)
				if t >= e.t+e.life*750-300 && t < e.t+e.life*1000+1300 {
					return false
				}
			}
			if e.kind == "q" && storeish(kind) && t < e.t {
				if e.t >= t+life*750-300 && e.t < t+life*1000+1300 {
					return false
				}
			}
		}
		return true
	}
	for tries := 0; len(evs) < nEv && tries < 4000; tries++ {
		kind := []string{"s", "s", "g", "g", "g", "g", "q", "q", "n"}[r.Intn(9)]
		key := 1 + r.Intn(nKeys)
		body, life := "", 0
		if kind == "s" || kind == "q" {
			var rc int
			an, ns, ar := "-", "-", "-"
			switch r.Intn(8) {
			case 0, 1, 2, 3, 4:
				rc, an = 0, fmt.Sprintf("1:%d", 1+r.Intn(5))
				if r.Intn(4) == 0 {
					an += fmt.Sprintf(",1:%d", 1+r.Intn(5))
				}
			case 5:
				rc = 3
				if r.Intn(2) == 0 {
					ns = fmt.Sprintf("6:%d", r.Intn(4))
				}
			case 6:
				rc = 2
			default:
				rc = []int{0, 5}[r.Intn(2)]
			}
			tc := 0
			if r.Intn(10) == 0 {
				tc = 1
			}
			if kind == "q" && r.Intn(6) == 0 {
				body = "err"
			} else {
				body = fmt.Sprintf("%d/%d/%s/%s/%s", rc, tc, an, ns, ar)
				if tc == 0 {
					life = c08genLife(rc, c08parseRRs(an), c08parseRRs(ns), c08parseRRs(ar), max)
				}
			}
		}
		t := 50 * r.Intn(durMs/50+1)
		if !okTime(t, kind, key, life) {
			continue
		}
		evs = append(evs, pl{t, kind, key, body, life})
	}
	sort.SliceStable(evs, func(i, j int) bool { return evs[i].t < evs[j].t })
	var parts []string
	for _, e := range evs {
		s := fmt.Sprintf("%d/%s/%d", e.t, e.kind, e.key)
		if e.body != "" {
			s += "/" + e.body
		}
		parts = append(parts, s)
	}
	return fmt.Sprintf("op=rhist mem=%s max=%d lag=%d uoff=%d ev=%s", b2s(mem), max, lag, uoff, strings.Join(parts, ";"))
}

// hand-written redis-only histories that are always run:
//  1. audit hunt-D finding 7: the SET (PX 1000, computed when queued) is applied 2.6 s late, redis keeps the value
//     until 3.6 s; the expire time carried by the value (history time 0.7 s) decides: miss at 3.3 s
//  2. ageing by whole Unix seconds of the stored time, expiry at the Unix second of the expire time
//  3. an error response does not displace the positive value in redis (SET NX), nor one still waiting to be applied
var c08fixedRedis = []string{
	"op=rhist mem=0 max=0 lag=2600 uoff=300 ev=0/s/1/0/0/1:1/-/-;400/g/1;3300/g/1;3400/q/1/0/0/1:9/-/-;3450/g/1",
	"op=rhist mem=0 max=0 lag=0 uoff=900 ev=650/s/1/0/0/1:2,1:3/-/-;900/g/1;1400/g/1;1850/g/1;2300/g/1",
	"op=rhist mem=0 max=0 lag=400 uoff=500 ev=0/s/1/0/0/1:4/-/-;100/s/1/3/0/-/-/-;800/g/1;1000/s/1/2/0/-/-/-;1800/g/1",
}

func c08redisGen(r *rand.Rand, thorough bool, emit func(c, cat string)) {
	n, dur := 6, 3500
	if thorough {
		n, dur = 24, 6500
	}
	cal := c08calibrate()
	cases := append([]string{}, c08fixedRedis...)
	cats := []string{"fixed", "fixed", "fixed"}
	for i := 0; i < n; i++ {
		mem := i%2 == 1 && cal
		uoff := 300
		if mem {
			uoff = c08uoffOfProcess()
		} else {
			uoff = 100 * r.Intn(10)
		}
		lagPool := []int{0, 0, 400, 1300, 2600}
		cases = append(cases, c08genRHist(r, mem, uoff, dur, 8+r.Intn(10), lagPool))
		cat := "redis-only"
		if mem {
			cat = "memory+redis"
		}
		cats = append(cats, cat)
	}
	// the histories run concurrently (each has its own router and redis server)
	res := make([]string, len(cases))
	var wg sync.WaitGroup
	for i := range cases {
		wg.Add(1)
		go func(i int) {
			defer wg.Done()
			res[i] = c08rhist(kv(cases[i]))
		}(i)
	}
	wg.Wait()
	for i, cs := range cases {
		c08rpre[cs] = res[i]
		emit(cs, cats[i])
	}
	// two tiers that disagree (the memory cache rejects an entry above a tenth of its size); the first second
	for _, big := range []int{0, 800} {
		emit(fmt.Sprintf("op=twotier big=%d rcode=%d", big, []int{3, 2, 5}[r.Intn(3)]), fmt.Sprintf("twotier-big%d", big))
	}
	emit(fmt.Sprintf("op=rstart wait=%d", []int{0, 100, 400}[r.Intn(3)]), "first-second")
	emit(fmt.Sprintf("op=slowget ttl=%d lag=%d", 50+r.Intn(100), 2200+r.Intn(600)), "slow-get")
	emit(fmt.Sprintf("op=outage rcode=%d", []int{3, 5}[r.Intn(2)]), "outage") // lifetimes 30 s / 5 s: alive when the server is back
	// a successful refresh replaces the entry in every tier, with a longer and with a shorter ttl
	for _, c := range []string{"mem=1 redis=0", "mem=1 redis=1", "mem=0 redis=1"} {
		emit(fmt.Sprintf("op=restore %s t1=%d t2=300", c, 8+r.Intn(8)), "restore-longer")
		emit(fmt.Sprintf("op=restore %s t1=300 t2=%d", c, 5+r.Intn(8)), "restore-shorter")
		emit(fmt.Sprintf("op=restore %s t1=%d t2=300 nodata=1", c, 8+r.Intn(8)), "restore-nodata")
	}
}

func init() {
	register("rediscache", &component{gen: c08redisGen, run: c08redisRun, setup: c08setup})
}
