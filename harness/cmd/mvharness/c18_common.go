package main

// C18: helpers shared by the components `startup`, `shutdown` and `closeproto`.

import (
	"context"
	"fmt"
	"net"
	"os"
	"os/exec"
	"runtime"
	"runtime/debug"
	"sort"
	"strconv"
	"strings"
	"sync"
	"sync/atomic"
	"time"

	"github.com/IrineSistiana/mosproxy/internal/mlog"
	"github.com/rs/zerolog"
)

const (
	c18Settle   = 2500 * time.Millisecond // asynchronous closes are awaited this long before they count as missing
	c18CallMax  = 8 * time.Second         // a call that did not return by then is reported as `hang`
	c18PollStep = 5 * time.Millisecond
)

var c18once sync.Once

func c18Setup() {
	c18once.Do(func() { mlog.SetLvl(zerolog.Disabled) }) // the console logger writes to stdout
}

// c18Sockets counts the sockets this process owns.
func c18Sockets() int {
	es, err := os.ReadDir("/proc/self/fd")
	if err != nil {
		return -1
	}
	n := 0
	for _, e := range es {
		l, err := os.Readlink("/proc/self/fd/" + e.Name())
		if err == nil && strings.HasPrefix(l, "socket:") {
			n++
		}
	}
	return n
}

// c18Baseline waits until the socket count is stable (left-overs of an earlier case) and returns it.
func c18Baseline() int {
	last := c18Sockets()
	stable := 0
	for i := 0; i < 200 && stable < 3; i++ {
		time.Sleep(c18PollStep)
		n := c18Sockets()
		if n == last {
			stable++
		} else {
			stable, last = 0, n
		}
	}
	return last
}

// c18Until polls cond until it holds or the settle time is over.
func c18Until(max time.Duration, cond func() bool) bool {
	deadline := time.Now().Add(max)
	for {
		if cond() {
			return true
		}
		if time.Now().After(deadline) {
			return false
		}
		time.Sleep(c18PollStep)
	}
}

// Every bounded wait of the C18 components is for something that must happen on a correct implementation.
// A wait that runs into its time-out therefore means a violation (it will happen again) or a machine that
// was too slow this time: the case is run once more before its outcome is reported (at most c18RetryBudget
// cases per process, so that a broken tree is not tested three times as slowly).
var (
	c18Timeouts    atomic.Int64
	c18RetriesLeft atomic.Int64
)

func init() { c18RetriesLeft.Store(8) }

func c18Wait(cond func() bool) bool {
	ok := c18Until(c18Settle, cond)
	if !ok {
		c18Timeouts.Add(1)
	}
	return ok
}

// c18NoGC runs f with the garbage collector switched off. A socket that the code under test forgot to close
// is closed by the finalizer of its net.Listener / net.Conn as soon as a collection happens to run, which
// would hide the leak from the probes (re-bind, /proc/net/tcp, /proc/self/fd) at random. The collector runs
// once after the case.
func c18NoGC(f func() string) string {
	old := debug.SetGCPercent(-1)
	defer func() {
		debug.SetGCPercent(old)
		runtime.GC()
	}()
	return f()
}

func c18Retry(f func() string) string {
	before := c18Timeouts.Load()
	out := f()
	if c18Timeouts.Load() != before && c18RetriesLeft.Add(-1) >= 0 {
		out = f()
	}
	return out
}

// c18Leak: sockets above the baseline once things have settled.
func c18Leak(base int) int {
	n := 0
	c18Wait(func() bool { n = c18Sockets() - base; return n <= 0 })
	if n < 0 {
		n = 0
	}
	return n
}

func c18FreePort(udp bool) int {
	for i := 0; i < 50; i++ {
		if udp {
			c, err := net.ListenPacket("udp", "127.0.0.1:0")
			if err != nil {
				continue
			}
			p := c.LocalAddr().(*net.UDPAddr).Port
			c.Close()
			// must be free for tcp as well (keeps the bookkeeping simple)
			if l, err := net.Listen("tcp", "127.0.0.1:"+strconv.Itoa(p)); err == nil {
				l.Close()
				return p
			}
			continue
		}
		l, err := net.Listen("tcp", "127.0.0.1:0")
		if err != nil {
			continue
		}
		p := l.Addr().(*net.TCPAddr).Port
		l.Close()
		if c, err := net.ListenPacket("udp", "127.0.0.1:"+strconv.Itoa(p)); err == nil {
			c.Close()
			return p
		}
	}
	panic("c18: no free port")
}

// c18Listening: a socket in LISTEN state on the tcp port (any address), from /proc/net/tcp{,6}.
func c18Listening(port int) bool {
	want := fmt.Sprintf(":%04X", port)
	for _, f := range []string{"/proc/net/tcp", "/proc/net/tcp6"} {
		raw, err := os.ReadFile(f)
		if err != nil {
			continue
		}
		for _, line := range strings.Split(string(raw), "\n")[1:] {
			fs := strings.Fields(line)
			if len(fs) > 3 && strings.HasSuffix(fs[1], want) && fs[3] == "0A" {
				return true
			}
		}
	}
	return false
}

// c18CanBind reports whether the listening address was released (with retries for asynchronous closes).
// udp: the address can be bound again. tcp: it can be bound again, or at least no socket listens on it any
// more — connections that the proxy closed first linger in TIME_WAIT and block a new bind for a minute when
// the listener had no SO_REUSEADDR (gnet's listeners); that is kernel state, not an open socket.
func c18CanBind(udp bool, port int) bool {
	addr := "127.0.0.1:" + strconv.Itoa(port)
	return c18Wait(func() bool {
		if udp {
			c, err := net.ListenPacket("udp", addr)
			if err != nil {
				return false
			}
			c.Close()
			return true
		}
		l, err := net.Listen("tcp", addr)
		if err != nil {
			return !c18Listening(port)
		}
		l.Close()
		return true
	})
}

// c18Call runs f in its own goroutine: "ok", "panic" or "hang".
func c18Call(max time.Duration, f func()) string {
	done := make(chan string, 1)
	go func() {
		defer func() {
			if r := recover(); r != nil {
				fmt.Fprintf(os.Stderr, "c18: panic: %v\n", r)
				done <- "panic"
			}
		}()
		f()
		done <- "ok"
	}()
	select {
	case s := <-done:
		return s
	case <-time.After(max):
		return "hang"
	}
}

func c18Ids(l []int) string {
	if len(l) == 0 {
		return "-"
	}
	sort.Ints(l)
	s := make([]string, len(l))
	for i, x := range l {
		s[i] = strconv.Itoa(x)
	}
	return strings.Join(s, ",")
}

func c18List(s string) []string {
	if s == "" || s == "-" {
		return nil
	}
	return strings.Split(s, ",")
}

// c18UpstreamCrashes: a fatal runtime error (e.g. the stack overflow of a Close that calls itself) cannot be
// recovered and would take the whole harness down without naming a case. So, once per process and
// upstream kind, one exchange + Close of that kind is tried in a child process first; if the child dies,
// every case that would close such an upstream reports `panic` instead of running it.
var (
	c18canaryMu sync.Mutex
	c18canary   = map[string]bool{}
)

func c18UpstreamCrashes(kind string) bool {
	if os.Getenv("C18_CANARY") != "" {
		return false
	}
	c18canaryMu.Lock()
	defer c18canaryMu.Unlock()
	if v, ok := c18canary[kind]; ok {
		return v
	}
	ctx, cancel := context.WithTimeout(context.Background(), 60*time.Second)
	defer cancel()
	cmd := exec.CommandContext(ctx, os.Args[0], "replay", "closeproto")
	cmd.Env = append(os.Environ(), "C18_CANARY=1")
	cmd.Stdin = strings.NewReader("k=" + c18UpModelKind[kind] + " auto=1 up=" + kind + " ops=s1,r1,s2,C,s3\n")
	err := cmd.Run()
	crashed := err != nil && ctx.Err() == nil
	if crashed {
		fmt.Fprintf(os.Stderr, "c18: closing a %s upstream kills the process: %v\n", kind, err)
	}
	c18canary[kind] = crashed
	return crashed
}
