package main

// C14, component "faults": DoQ (quic://) and DoH3 (h3://) upstreams built by upstream.NewUpstream
// against local quic-go servers.
//
// DoQ server: every query is one stream. Behaviours for the victim's successive streams:
//   ok reply + FIN · fin FIN without data · rst stream reset · gar undecodable frame + FIN ·
//   sil nothing · half half a frame, no FIN
// fault=connkill: `rst` closes the whole QUIC connection instead (the retry must redial);
// fault=idleclose: the server closes the connection while it is idle.

import (
	"context"
	"crypto/tls"
	"encoding/base64"
	"encoding/binary"
	"fmt"
	"io"
	"math/rand"
	"net/http"
	"strings"
	"sync"
	"sync/atomic"
	"time"

	"github.com/IrineSistiana/mosproxy/internal/upstream"
	"github.com/IrineSistiana/mosproxy/internal/upstream/transport"
	"github.com/miekg/dns"
	"github.com/quic-go/quic-go"
	"github.com/quic-go/quic-go/http3"
)

type c14qsrv struct {
	mu      sync.Mutex
	ln      *quic.Listener
	script  []string
	vi      int
	conns   []quic.Connection
	accepts int
	vq      int
	fault   string
	delay   time.Duration
}

func c14newQsrv(fault string) (*c14qsrv, error) { return c14newQsrvOpt(fault, 0, 0) }

// maxStreams > 0: the server grants only that many concurrent streams; delay: it answers that late
func c14newQsrvOpt(fault string, maxStreams int64, delay time.Duration) (*c14qsrv, error) {
	tlsCfg := &tls.Config{Certificates: []tls.Certificate{c14tlsCert()}, NextProtos: []string{"doq"}}
	var ln *quic.Listener
	var err error
	for i := 0; i < 200; i++ {
		if ln, err = quic.ListenAddr(fmt.Sprintf("127.0.0.1:%d", c14nextPort()), tlsCfg, &quic.Config{MaxIdleTimeout: 30 * time.Second, MaxIncomingStreams: maxStreams}); err == nil {
			break
		}
	}
	if err != nil {
		return nil, err
	}
	s := &c14qsrv{ln: ln, fault: fault, delay: delay}
	go func() {
		for {
			c, err := ln.Accept(context.Background())
			if err != nil {
				return
			}
			s.mu.Lock()
			s.conns = append(s.conns, c)
			s.accepts++
			s.mu.Unlock()
			go s.serveConn(c)
		}
	}()
	return s, nil
}

func (s *c14qsrv) serveConn(c quic.Connection) {
	for {
		st, err := c.AcceptStream(context.Background())
		if err != nil {
			return
		}
		go s.serveStream(c, st)
	}
}

func (s *c14qsrv) serveStream(c quic.Connection, st quic.Stream) {
	var l [2]byte
	if _, err := io.ReadFull(st, l[:]); err != nil {
		return
	}
	b := make([]byte, binary.BigEndian.Uint16(l[:]))
	if _, err := io.ReadFull(st, b); err != nil {
		return
	}
	q := new(dns.Msg)
	if q.Unpack(b) != nil {
		return
	}
	role, _ := c14role(q)
	beh := "ok"
	if role == "victim" {
		s.mu.Lock()
		s.vq++
		if s.vi < len(s.script) {
			beh = s.script[s.vi]
		}
		s.vi++
		s.mu.Unlock()
	}
	if s.delay > 0 {
		time.Sleep(s.delay)
	}
	switch beh {
	case "ok":
		st.Write(c14frame(c14reply(q)))
		st.Close()
	case "fin":
		st.Close()
	case "rst":
		if s.fault == "connkill" {
			c.CloseWithError(0, "")
			return
		}
		st.CancelWrite(1)
	case "gar":
		st.Write(c14frame(c14garbage(0)))
		st.Close()
	case "half":
		f := c14frame(c14reply(q))
		st.Write(f[:len(f)/2])
	}
}

func (s *c14qsrv) closeConns() {
	s.mu.Lock()
	defer s.mu.Unlock()
	for _, c := range s.conns {
		c.CloseWithError(0, "")
	}
	s.conns = nil
}

func (s *c14qsrv) close() {
	s.closeConns()
	s.ln.Close()
}

func c14doqOnce(m map[string]string) c14outcome {
	fault := m["fault"]
	script := strings.Split(m["script"], ",")
	dl := atoi(m["dl"])
	out := c14outcome{woke: true}
	srv, err := c14newQsrv(fault)
	if err != nil {
		out.setupFailed = "listen"
		return out
	}
	addr := srv.ln.Addr().String()
	if fault == "refuse" {
		srv.close()
	} else {
		defer srv.close()
	}
	up, err := upstream.NewUpstream("quic://"+addr, upstream.Opt{TLSConfig: c14clientTLS()})
	if err != nil {
		out.setupFailed = "newupstream"
		return out
	}
	defer up.Close()
	if fault == "pooled" || fault == "idleclose" || fault == "connkill" {
		if !c14setupExchange(up, c14query("plain", 0)) {
			out.setupFailed = "first-exchange"
			return out
		}
		if fault == "idleclose" {
			srv.closeConns()
			time.Sleep(60 * time.Millisecond)
		}
	}
	srv.mu.Lock()
	srv.script, srv.vi = c14serverScript(script), 0
	a0 := srv.accepts
	srv.mu.Unlock()
	out.ok, out.el = c14timed(up, dl, c14query("victim", 0))
	snap := func() (int, int) { srv.mu.Lock(); defer srv.mu.Unlock(); return srv.accepts, srv.vq }
	a1, vq := snap()
	if c14scriptSilent(script) {
		a1, vq = c14settle(snap)
	}
	out.dials, out.att = a1-a0, vq
	return out
}

func c14h3Once(m map[string]string) c14outcome {
	fault := m["fault"]
	script := strings.Split(m["script"], ",")
	dl := atoi(m["dl"])
	out := c14outcome{woke: true}
	pc := c14listenUDP()
	addr := pc.LocalAddr().String()
	sv := c14serverScript(script)
	stop := make(chan struct{})
	var mu sync.Mutex
	vi := 0
	hs := &http3.Server{
		TLSConfig: http3.ConfigureTLSConfig(&tls.Config{Certificates: []tls.Certificate{c14tlsCert()}}),
		Handler: http.HandlerFunc(func(w http.ResponseWriter, r *http.Request) {
			b, err := base64.RawURLEncoding.DecodeString(r.URL.Query().Get("dns"))
			q := new(dns.Msg)
			if err != nil || q.Unpack(b) != nil {
				w.WriteHeader(400)
				return
			}
			role, _ := c14role(q)
			beh := "ok"
			if role == "victim" {
				mu.Lock()
				if vi < len(sv) {
					beh = sv[vi]
				}
				vi++
				mu.Unlock()
				if fault == "e500" {
					beh = "e500"
				}
			}
			switch beh {
			case "ok":
				w.Header().Set("Content-Type", "application/dns-message")
				w.Write(c14reply(q))
			case "gar", "resp":
				w.Write(c14garbage(0))
			case "e500":
				w.WriteHeader(500)
			case "sil":
				select {
				case <-r.Context().Done():
				case <-stop:
				}
			}
		}),
	}
	if fault == "refuse" {
		pc.Close()
	} else {
		go hs.Serve(pc)
	}
	up, err := upstream.NewUpstream("h3://"+addr+"/dns-query", upstream.Opt{TLSConfig: c14clientTLS()})
	if err != nil {
		out.setupFailed = "newupstream"
		return out
	}
	defer func() {
		close(stop)
		up.Close()
		hs.Close()
		pc.Close()
	}()
	if fault == "pooled" {
		if !c14setupExchange(up, c14query("plain", 0)) {
			out.setupFailed = "first-exchange"
			return out
		}
	}
	out.ok, out.el = c14timed(up, dl, c14query("victim", 0))
	return out
}

// ---- D34 (fixed 69d4cbf), deterministically: a QUIC connection that is DYING — its streams fail with
// a connection-level error while its context is not done yet (quic-go fails the streams first and
// cancels the context afterwards) — must not be handed out again: the retry has to dial.
//   case : tr=quic fault=dyingconn mode=<pooled|fresh> … script=<tok,…> obs=d
//   the REAL transport.NewQuicTransport with a dialer that wraps the real connections:
//   mode=pooled: one exchange first; then the pooled connection starts dying after as many OpenStream
//     calls as the script has p-tokens before `pkill` (those streams get the server's behaviours);
//   mode=fresh : the first connection is dying from the start (the first exchange fails on it), the
//     victim must dial.
//   the victim's dial is refused if the script's dial token is gR.

type c14dyingConn struct {
	quic.Connection
	okStreams *atomic.Int64 // OpenStream calls that still pass; below zero: dying
}

func (c *c14dyingConn) OpenStream() (quic.Stream, error) {
	if c.okStreams.Add(-1) < 0 {
		return nil, &quic.ApplicationError{Remote: true, ErrorCode: 0}
	}
	return c.Connection.OpenStream()
}

func (c *c14dyingConn) OpenStreamSync(ctx context.Context) (quic.Stream, error) {
	if c.okStreams.Add(-1) < 0 {
		return nil, &quic.ApplicationError{Remote: true, ErrorCode: 0}
	}
	return c.Connection.OpenStreamSync(ctx)
}

func c14dyingOnce(m map[string]string) c14outcome {
	script := strings.Split(m["script"], ",")
	dl := atoi(m["dl"])
	out := c14outcome{woke: true}
	srv, err := c14newQsrv("")
	if err != nil {
		out.setupFailed = "listen"
		return out
	}
	defer srv.close()
	addr := srv.ln.Addr().String()
	var sv []string
	pre, dialTok := 0, ""
	seenKill := false
	for _, t := range script {
		switch {
		case t == "pkill":
			seenKill = true
		case t[0] == 'g':
			if dialTok == "" {
				dialTok = t
			}
		default:
			sv = append(sv, t[1:])
			if t[0] == 'p' && !seenKill {
				pre++
			}
		}
	}
	var dials atomic.Int64
	var refuse atomic.Bool
	var first atomic.Pointer[atomic.Int64]
	dial := func(ctx context.Context) (quic.Connection, error) {
		n := dials.Add(1)
		if refuse.Load() {
			return nil, fmt.Errorf("refused")
		}
		c, err := quic.DialAddr(ctx, addr, &tls.Config{InsecureSkipVerify: true, NextProtos: []string{"doq"}},
			&quic.Config{MaxIdleTimeout: 30 * time.Second})
		if err != nil {
			return nil, err
		}
		if n == 1 {
			cnt := new(atomic.Int64)
			cnt.Store(1 << 40)
			if m["mode"] == "fresh" {
				cnt.Store(0)
			}
			first.Store(cnt)
			return &c14dyingConn{Connection: c, okStreams: cnt}, nil
		}
		return c, nil
	}
	tr := transport.NewQuicTransport(transport.QuicTransportOpts{DialContext: dial})
	defer tr.Close()
	ok1 := c14setupExchange(tr, c14query("plain", 0))
	if ok1 != (m["mode"] != "fresh") {
		out.setupFailed = "first-exchange"
		return out
	}
	if cnt := first.Load(); cnt != nil && m["mode"] != "fresh" {
		cnt.Store(int64(pre))
	}
	srv.mu.Lock()
	srv.script, srv.vi = sv, 0
	srv.mu.Unlock()
	refuse.Store(dialTok == "gR")
	d0 := dials.Load()
	out.ok, out.el = c14timed(tr, dl, c14query("victim", 0))
	out.dials = int(dials.Load() - d0)
	return out
}

// ---- several exchanges at once (used by the credit and the busy-close scenarios): all must succeed;
// the reported time is that of the slowest

func c14many(up c14exchanger, n, dl int) (allOk bool, slowest time.Duration) {
	var wg sync.WaitGroup
	var mu sync.Mutex
	allOk = true
	for i := 0; i < n; i++ {
		wg.Add(1)
		go func(i int) {
			defer wg.Done()
			ok, el := c14timed(up, dl, c14query("victim", i))
			mu.Lock()
			if !ok {
				allOk = false
			}
			if el > slowest {
				slowest = el
			}
			mu.Unlock()
		}(i)
	}
	wg.Wait()
	return
}

// ---- DoQ, stream credit (43a2a92): the server grants `streams` concurrent streams and answers after
// `delay` ms; one exchange first, then `n` > streams exchanges at once on the pooled connection. They
// wait for credit (OpenStreamSync) and all succeed well within their deadline.
//   case : tr=quic fault=credit streams=<s> n=<n> delay=<ms> loop=quic script=pok obs=- dl=<ms>

func c14creditOnce(m map[string]string) c14outcome {
	out := c14outcome{woke: true}
	srv, err := c14newQsrvOpt("", int64(atoi(m["streams"])), time.Duration(atoi(m["delay"]))*time.Millisecond)
	if err != nil {
		out.setupFailed = "listen"
		return out
	}
	defer srv.close()
	up, err := upstream.NewUpstream("quic://"+srv.ln.Addr().String(), upstream.Opt{TLSConfig: c14clientTLS()})
	if err != nil {
		out.setupFailed = "newupstream"
		return out
	}
	defer up.Close()
	if !c14setupExchange(up, c14query("plain", 0)) {
		out.setupFailed = "first-exchange"
		return out
	}
	out.ok, out.el = c14many(up, atoi(m["n"]), atoi(m["dl"]))
	return out
}

// ---- DoH over h2 / h3, stale pooled connection (941027f): one exchange first (the connection goes to
// the http library's pool), then
//   fault=idleclose: the server closes the idle connection; `gap` ms later the victim is sent;
//   fault=busyclose: k victims are sent at once on the reused connection; when the k-th request has
//     arrived the server closes the connection under them (and keeps serving new ones).
// The server is healthy all the time: every victim must succeed (a retry on a new connection).
//   case : tr=<https|h3> fault=<idleclose|busyclose> k=<n> gap=<ms> loop=doh script=<pfin|pkill>,fok obs=- dl=<ms>

type c14h3Listener struct {
	http3.QUICEarlyListener
	mu    sync.Mutex
	conns []quic.EarlyConnection
}

func (l *c14h3Listener) Accept(ctx context.Context) (quic.EarlyConnection, error) {
	c, err := l.QUICEarlyListener.Accept(ctx)
	if err == nil {
		l.mu.Lock()
		l.conns = append(l.conns, c)
		l.mu.Unlock()
	}
	return c, err
}

func (l *c14h3Listener) closeConns() {
	l.mu.Lock()
	cs := l.conns
	l.conns = nil
	l.mu.Unlock()
	for _, c := range cs {
		c.CloseWithError(0x100, "") // H3_NO_ERROR: what a graceful restart sends
	}
}

func c14dohStaleOnce(m map[string]string) c14outcome {
	tr, fault := m["tr"], m["fault"]
	k, dl := atoi(m["k"]), atoi(m["dl"])
	if k < 1 {
		k = 1
	}
	out := c14outcome{woke: true}
	var mu sync.Mutex
	hold := false
	arrived := 0
	var closeConns func()
	handler := http.HandlerFunc(func(w http.ResponseWriter, r *http.Request) {
		b, err := base64.RawURLEncoding.DecodeString(r.URL.Query().Get("dns"))
		q := new(dns.Msg)
		if err != nil || q.Unpack(b) != nil {
			w.WriteHeader(400)
			return
		}
		role, _ := c14role(q)
		mu.Lock()
		held := false
		if role == "victim" && hold {
			held = true
			arrived++
			if arrived == k {
				hold = false
				go closeConns()
			}
		}
		mu.Unlock()
		if held {
			select { // the connection is about to be closed under this request
			case <-r.Context().Done():
			case <-time.After(3 * time.Second):
			}
			return
		}
		w.Header().Set("Content-Type", "application/dns-message")
		w.Write(c14reply(q))
	})
	var addr string
	var shutdown func()
	if tr == "h3" {
		pc := c14listenUDP()
		addr = pc.LocalAddr().String()
		ql, err := quic.ListenEarly(pc, http3.ConfigureTLSConfig(&tls.Config{Certificates: []tls.Certificate{c14tlsCert()}}), &quic.Config{MaxIdleTimeout: 30 * time.Second})
		if err != nil {
			pc.Close()
			out.setupFailed = "listen"
			return out
		}
		ln := &c14h3Listener{QUICEarlyListener: ql}
		hs := &http3.Server{Handler: handler}
		go hs.ServeListener(ln)
		closeConns = ln.closeConns
		shutdown = func() { hs.Close(); ql.Close(); pc.Close() }
	} else {
		ln := &c14rawListener{Listener: c14listenTCP(nil)}
		addr = ln.Addr().String()
		hs := &http.Server{Handler: handler, TLSConfig: &tls.Config{Certificates: []tls.Certificate{c14tlsCert()}}}
		go hs.ServeTLS(ln, "", "")
		closeConns = ln.closeConns
		shutdown = func() { hs.Close(); ln.closeConns() }
	}
	up, err := upstream.NewUpstream(tr+"://"+addr+"/dns-query", upstream.Opt{TLSConfig: c14clientTLS()})
	if err != nil {
		shutdown()
		out.setupFailed = "newupstream"
		return out
	}
	defer func() {
		up.Close()
		shutdown()
	}()
	if !c14setupExchange(up, c14query("plain", 0)) {
		out.setupFailed = "first-exchange"
		return out
	}
	if fault == "idleclose" {
		closeConns()
		time.Sleep(time.Duration(atoi(m["gap"])) * time.Millisecond)
	} else {
		mu.Lock()
		hold = true
		mu.Unlock()
	}
	out.ok, out.el = c14many(up, k, dl)
	return out
}

func c14quicOnce(m map[string]string) c14outcome {
	if m["fault"] == "credit" {
		return c14creditOnce(m)
	}
	if m["tr"] == "h3" && (m["fault"] == "idleclose" || m["fault"] == "busyclose") {
		return c14dohStaleOnce(m)
	}
	if m["fault"] == "dyingconn" {
		return c14dyingOnce(m)
	}
	if m["tr"] == "h3" {
		return c14h3Once(m)
	}
	return c14doqOnce(m)
}

func c14quicCases(r *rand.Rand, thorough bool) []c14case {
	var l []c14case
	add := func(tr, fault, script, obs string) {
		l = append(l, c14faultCase(r, tr, c14fault{fault, script, obs}))
	}
	rep := func(tok string, k int, tail string) string {
		var p []string
		for i := 0; i < k; i++ {
			p = append(p, tok)
		}
		if tail != "" {
			p = append(p, tail)
		}
		return strings.Join(p, ",")
	}
	// DoQ
	add("quic", "app", "fok", "ad")
	add("quic", "app", "ffin", "ad")
	add("quic", "app", "frst", "ad")
	add("quic", "app", "fgar", "ad")
	add("quic", "pooled", "pok", "ad")
	add("quic", "pooled", rep("prst", 1, "pok"), "ad")
	add("quic", "pooled", rep("prst", 5, "pok"), "ad") // the budget boundary: 5 retries
	add("quic", "pooled", rep("prst", 6, ""), "ad")
	add("quic", "pooled", "pfin,pgar,prst,pok", "ad")
	add("quic", "connkill", "prst,fok", "ad") // the connection dies under the exchange: redial
	add("quic", "idleclose", "fok", "d")
	// a dying connection (streams fail with a connection-level error, context not done yet)
	l = append(l, c14case{"tr=quic fault=dyingconn mode=pooled loop=quic script=pkill,fok obs=d dl=2400", "quic/dyingconn/pooled"})
	l = append(l, c14case{"tr=quic fault=dyingconn mode=fresh loop=quic script=fok obs=d dl=2400", "quic/dyingconn/fresh"})
	l = append(l, c14case{"tr=quic fault=dyingconn mode=pooled loop=quic script=prst,pfin,pkill,fok obs=d dl=2400", "quic/dyingconn/pooled"})
	l = append(l, c14case{"tr=quic fault=dyingconn mode=pooled loop=quic script=pkill,gR obs=d dl=2400", "quic/dyingconn/refused"})
	add("quic", "app", "fsil", "ad")
	add("quic", "pooled", "prst,psil", "ad")
	if thorough {
		for k := 1; k <= 4; k++ {
			l = append(l, c14case{fmt.Sprintf("tr=quic fault=dyingconn mode=pooled loop=quic script=%s obs=d dl=2400", rep("prst", k, "pkill,fok")), "quic/dyingconn/pooled"})
		}
		l = append(l, c14case{"tr=quic fault=dyingconn mode=pooled loop=quic script=pgar,pkill,ffin obs=d dl=2400", "quic/dyingconn/ffin"})
		add("quic", "refuse", "gB", "-") // nothing answers the handshake: the dial hangs
		add("quic", "app", "fhalf", "ad")
		add("quic", "pooled", "phalf", "ad")
		for k := 2; k <= 4; k++ {
			add("quic", "pooled", rep("pfin", k, "pok"), "ad")
		}
		add("quic", "pooled", rep("pgar", 5, "psil"), "ad")
	}
	// stream credit: more concurrent exchanges than the server grants streams
	l = append(l, c14case{fmt.Sprintf("tr=quic fault=credit streams=2 n=%d delay=60 loop=quic script=pok obs=- dl=2400", 5+r.Intn(4)), "quic/credit"})
	// DoH over h2 / h3: a stale pooled connection and a healthy server
	l = append(l, c14case{"tr=h3 fault=idleclose k=1 gap=100 loop=doh script=pkill,fok obs=- dl=2400", "h3/idleclose"})
	l = append(l, c14case{fmt.Sprintf("tr=https fault=busyclose k=%d gap=0 loop=doh script=pfin,fok obs=- dl=2400", 2+r.Intn(5)), "https/busyclose"})
	l = append(l, c14case{fmt.Sprintf("tr=h3 fault=busyclose k=%d gap=0 loop=doh script=pkill,fok obs=- dl=2400", 2+r.Intn(5)), "h3/busyclose"})
	l = append(l, c14case{"tr=https fault=idleclose k=1 gap=0 loop=doh script=pfin,fok obs=- dl=2400", "https/idleclose-race"})
	if thorough {
		for _, st := range []int{1, 2, 3} {
			l = append(l, c14case{fmt.Sprintf("tr=quic fault=credit streams=%d n=%d delay=40 loop=quic script=pok obs=- dl=2400", st, st*3+r.Intn(4)), "quic/credit"})
		}
		for i := 0; i < 6; i++ {
			tr := []string{"https", "h3"}[i%2]
			tok := []string{"pfin", "pkill"}[i%2]
			l = append(l, c14case{fmt.Sprintf("tr=%s fault=busyclose k=%d gap=0 loop=doh script=%s,fok obs=- dl=2400", tr, 1+r.Intn(8), tok), tr + "/busyclose"})
			l = append(l, c14case{fmt.Sprintf("tr=%s fault=idleclose k=%d gap=%d loop=doh script=%s,fok obs=- dl=2400", tr, 1+r.Intn(3), []int{0, 5, 60, 150}[r.Intn(4)], tok), tr + "/idleclose"})
		}
	}
	// DoH3
	add("h3", "app", "fok", "-")
	add("h3", "app", "fresp", "-")
	add("h3", "e500", "fresp", "-")
	add("h3", "pooled", "fok", "-")
	add("h3", "app", "fsil", "-")
	if thorough {
		add("h3", "refuse", "gB", "-")
		add("h3", "pooled", "fsil", "-")
	}
	return l
}
