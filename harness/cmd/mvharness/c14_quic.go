package main

// C14, component "faults": DoQ (quic://) and DoH3 (h3://) upstreams built by upstream.NewUpstream
// against local quic-go servers.
//
// DoQ server: every query is one stream. Behaviours for the victim's successive streams:
//   ok reply + FIN · fin FIN without data · rst stream reset · gar undecodable frame + FIN ·
//   sil nothing · half half a frame, no FIN
// fault=connkill: `rst` closes the whole QUIC connection instead (the retry must redial);
// fault=idleclose: the server closes the connection while it is idle.

import (
	"context"
	"crypto/tls"
	"encoding/base64"
	"encoding/binary"
	"fmt"
	"io"
	"math/rand"
	"net/http"
	"strings"
	"sync"
	"sync/atomic"
	"time"

	"github.com/IrineSistiana/mosproxy/internal/upstream"
	"github.com/IrineSistiana/mosproxy/internal/upstream/transport"
	"github.com/miekg/dns"
	"github.com/quic-go/quic-go"
	"github.com/quic-go/quic-go/http3"
)

type c14qsrv struct {
	mu      sync.Mutex
	ln      *quic.Listener
	script  []string
	vi      int
	conns   []quic.Connection
	accepts int
	vq      int
	fault   string
}

func c14newQsrv(fault string) (*c14qsrv, error) {
	tlsCfg := &tls.Config{Certificates: []tls.Certificate{c14tlsCert()}, NextProtos: []string{"doq"}}
	var ln *quic.Listener
	var err error
	for i := 0; i < 200; i++ {
		if ln, err = quic.ListenAddr(fmt.Sprintf("127.0.0.1:%d", c14nextPort()), tlsCfg, &quic.Config{MaxIdleTimeout: 30 * time.Second}); err == nil {
			break
		}
	}
	if err != nil {
		return nil, err
	}
	s := &c14qsrv{ln: ln, fault: fault}
	go func() {
		for {
			c, err := ln.Accept(context.Background())
			if err != nil {
				return
			}
			s.mu.Lock()
			s.conns = append(s.conns, c)
			s.accepts++
			s.mu.Unlock()
			go s.serveConn(c)
		}
	}()
	return s, nil
}

func (s *c14qsrv) serveConn(c quic.Connection) {
	for {
		st, err := c.AcceptStream(context.Background())
		if err != nil {
			return
		}
		go s.serveStream(c, st)
	}
}

func (s *c14qsrv) serveStream(c quic.Connection, st quic.Stream) {
	var l [2]byte
	if _, err := io.ReadFull(st, l[:]); err != nil {
		return
	}
	b := make([]byte, binary.BigEndian.Uint16(l[:]))
	if _, err := io.ReadFull(st, b); err != nil {
		return
	}
	q := new(dns.Msg)
	if q.Unpack(b) != nil {
		return
	}
	role, _ := c14role(q)
	beh := "ok"
	if role == "victim" {
		s.mu.Lock()
		s.vq++
		if s.vi < len(s.script) {
			beh = s.script[s.vi]
		}
		s.vi++
		s.mu.Unlock()
	}
	switch beh {
	case "ok":
		st.Write(c14frame(c14reply(q)))
		st.Close()
	case "fin":
		st.Close()
	case "rst":
		if s.fault == "connkill" {
			c.CloseWithError(0, "")
			return
		}
		st.CancelWrite(1)
	case "gar":
		st.Write(c14frame(c14garbage(0)))
		st.Close()
	case "half":
		f := c14frame(c14reply(q))
		st.Write(f[:len(f)/2])
	}
}

func (s *c14qsrv) closeConns() {
	s.mu.Lock()
	defer s.mu.Unlock()
	for _, c := range s.conns {
		c.CloseWithError(0, "")
	}
	s.conns = nil
}

func (s *c14qsrv) close() {
	s.closeConns()
	s.ln.Close()
}

func c14doqOnce(m map[string]string) c14outcome {
	fault := m["fault"]
	script := strings.Split(m["script"], ",")
	dl := atoi(m["dl"])
	out := c14outcome{woke: true}
	srv, err := c14newQsrv(fault)
	if err != nil {
		out.setupFailed = "listen"
		return out
	}
	addr := srv.ln.Addr().String()
	if fault == "refuse" {
		srv.close()
	} else {
		defer srv.close()
	}
	up, err := upstream.NewUpstream("quic://"+addr, upstream.Opt{TLSConfig: c14clientTLS()})
	if err != nil {
		out.setupFailed = "newupstream"
		return out
	}
	defer up.Close()
	if fault == "pooled" || fault == "idleclose" || fault == "connkill" {
		if !c14setupExchange(up, c14query("plain", 0)) {
			out.setupFailed = "first-exchange"
			return out
		}
		if fault == "idleclose" {
			srv.closeConns()
			time.Sleep(60 * time.Millisecond)
		}
	}
	srv.mu.Lock()
	srv.script, srv.vi = c14serverScript(script), 0
	a0 := srv.accepts
	srv.mu.Unlock()
	out.ok, out.el = c14timed(up, dl, c14query("victim", 0))
	snap := func() (int, int) { srv.mu.Lock(); defer srv.mu.Unlock(); return srv.accepts, srv.vq }
	a1, vq := snap()
	if c14scriptSilent(script) {
		a1, vq = c14settle(snap)
	}
	out.dials, out.att = a1-a0, vq
	return out
}

func c14h3Once(m map[string]string) c14outcome {
	fault := m["fault"]
	script := strings.Split(m["script"], ",")
	dl := atoi(m["dl"])
	out := c14outcome{woke: true}
	pc := c14listenUDP()
	addr := pc.LocalAddr().String()
	sv := c14serverScript(script)
	stop := make(chan struct{})
	var mu sync.Mutex
	vi := 0
	hs := &http3.Server{
		TLSConfig: http3.ConfigureTLSConfig(&tls.Config{Certificates: []tls.Certificate{c14tlsCert()}}),
		Handler: http.HandlerFunc(func(w http.ResponseWriter, r *http.Request) {
			b, err := base64.RawURLEncoding.DecodeString(r.URL.Query().Get("dns"))
			q := new(dns.Msg)
			if err != nil || q.Unpack(b) != nil {
				w.WriteHeader(400)
				return
			}
			role, _ := c14role(q)
			beh := "ok"
			if role == "victim" {
				mu.Lock()
				if vi < len(sv) {
					beh = sv[vi]
				}
				vi++
				mu.Unlock()
				if fault == "e500" {
					beh = "e500"
				}
			}
			switch beh {
			case "ok":
				w.Header().Set("Content-Type", "application/dns-message")
				w.Write(c14reply(q))
			case "gar":
				w.Write(c14garbage(0))
			case "e500":
				w.WriteHeader(500)
			case "sil":
				select {
				case <-r.Context().Done():
				case <-stop:
				}
			}
		}),
	}
	if fault == "refuse" {
		pc.Close()
	} else {
		go hs.Serve(pc)
	}
	up, err := upstream.NewUpstream("h3://"+addr+"/dns-query", upstream.Opt{TLSConfig: c14clientTLS()})
	if err != nil {
		out.setupFailed = "newupstream"
		return out
	}
	defer func() {
		close(stop)
		up.Close()
		hs.Close()
		pc.Close()
	}()
	if fault == "pooled" {
		if !c14setupExchange(up, c14query("plain", 0)) {
			out.setupFailed = "first-exchange"
			return out
		}
	}
	out.ok, out.el = c14timed(up, dl, c14query("victim", 0))
	return out
}

// ---- D34 (fixed 69d4cbf), deterministically: a QUIC connection that is DYING — its streams fail with
// a connection-level error while its context is not done yet (quic-go fails the streams first and
// cancels the context afterwards) — must not be handed out again: the retry has to dial.
//   case : tr=quic fault=dyingconn mode=<pooled|fresh> … script=<tok,…> obs=d
//   the REAL transport.NewQuicTransport with a dialer that wraps the real connections:
//   mode=pooled: one exchange first; then the pooled connection starts dying after as many OpenStream
//     calls as the script has p-tokens before `pkill` (those streams get the server's behaviours);
//   mode=fresh : the first connection is dying from the start (the first exchange fails on it), the
//     victim must dial.
//   the victim's dial is refused if the script's dial token is gR.

type c14dyingConn struct {
	quic.Connection
	okStreams *atomic.Int64 // OpenStream calls that still pass; below zero: dying
}

func (c *c14dyingConn) OpenStream() (quic.Stream, error) {
	if c.okStreams.Add(-1) < 0 {
		return nil, &quic.ApplicationError{Remote: true, ErrorCode: 0}
	}
	return c.Connection.OpenStream()
}

func c14dyingOnce(m map[string]string) c14outcome {
	script := strings.Split(m["script"], ",")
	dl := atoi(m["dl"])
	out := c14outcome{woke: true}
	srv, err := c14newQsrv("")
	if err != nil {
		out.setupFailed = "listen"
		return out
	}
	defer srv.close()
	addr := srv.ln.Addr().String()
	var sv []string
	pre, dialTok := 0, ""
	seenKill := false
	for _, t := range script {
		switch {
		case t == "pkill":
			seenKill = true
		case t[0] == 'g':
			if dialTok == "" {
				dialTok = t
			}
		default:
			sv = append(sv, t[1:])
			if t[0] == 'p' && !seenKill {
				pre++
			}
		}
	}
	var dials atomic.Int64
	var refuse atomic.Bool
	var first atomic.Pointer[atomic.Int64]
	dial := func(ctx context.Context) (quic.Connection, error) {
		n := dials.Add(1)
		if refuse.Load() {
			return nil, fmt.Errorf("refused")
		}
		c, err := quic.DialAddr(ctx, addr, &tls.Config{InsecureSkipVerify: true, NextProtos: []string{"doq"}},
			&quic.Config{MaxIdleTimeout: 30 * time.Second})
		if err != nil {
			return nil, err
		}
		if n == 1 {
			cnt := new(atomic.Int64)
			cnt.Store(1 << 40)
			if m["mode"] == "fresh" {
				cnt.Store(0)
			}
			first.Store(cnt)
			return &c14dyingConn{Connection: c, okStreams: cnt}, nil
		}
		return c, nil
	}
	tr := transport.NewQuicTransport(transport.QuicTransportOpts{DialContext: dial})
	defer tr.Close()
	ok1 := c14setupExchange(tr, c14query("plain", 0))
	if ok1 != (m["mode"] != "fresh") {
		out.setupFailed = "first-exchange"
		return out
	}
	if cnt := first.Load(); cnt != nil && m["mode"] != "fresh" {
		cnt.Store(int64(pre))
	}
	srv.mu.Lock()
	srv.script, srv.vi = sv, 0
	srv.mu.Unlock()
	refuse.Store(dialTok == "gR")
	d0 := dials.Load()
	out.ok, out.el = c14timed(tr, dl, c14query("victim", 0))
	out.dials = int(dials.Load() - d0)
	return out
}

func c14quicOnce(m map[string]string) c14outcome {
	if m["fault"] == "dyingconn" {
		return c14dyingOnce(m)
	}
	if m["tr"] == "h3" {
		return c14h3Once(m)
	}
	return c14doqOnce(m)
}

func c14quicCases(r *rand.Rand, thorough bool) []c14case {
	var l []c14case
	add := func(tr, fault, script, obs string) {
		l = append(l, c14faultCase(r, tr, c14fault{fault, script, obs}))
	}
	rep := func(tok string, k int, tail string) string {
		var p []string
		for i := 0; i < k; i++ {
			p = append(p, tok)
		}
		if tail != "" {
			p = append(p, tail)
		}
		return strings.Join(p, ",")
	}
	// DoQ
	add("quic", "app", "fok", "ad")
	add("quic", "app", "ffin", "ad")
	add("quic", "app", "frst", "ad")
	add("quic", "app", "fgar", "ad")
	add("quic", "pooled", "pok", "ad")
	add("quic", "pooled", rep("prst", 1, "pok"), "ad")
	add("quic", "pooled", rep("prst", 5, "pok"), "ad") // the budget boundary: 5 retries
	add("quic", "pooled", rep("prst", 6, ""), "ad")
	add("quic", "pooled", "pfin,pgar,prst,pok", "ad")
	add("quic", "connkill", "prst,fok", "ad") // the connection dies under the exchange: redial
	add("quic", "idleclose", "fok", "d")
	// a dying connection (streams fail with a connection-level error, context not done yet)
	l = append(l, c14case{"tr=quic fault=dyingconn mode=pooled loop=quic script=pkill,fok obs=d dl=2400", "quic/dyingconn/pooled"})
	l = append(l, c14case{"tr=quic fault=dyingconn mode=fresh loop=quic script=fok obs=d dl=2400", "quic/dyingconn/fresh"})
	l = append(l, c14case{"tr=quic fault=dyingconn mode=pooled loop=quic script=prst,pfin,pkill,fok obs=d dl=2400", "quic/dyingconn/pooled"})
	l = append(l, c14case{"tr=quic fault=dyingconn mode=pooled loop=quic script=pkill,gR obs=d dl=2400", "quic/dyingconn/refused"})
	add("quic", "app", "fsil", "ad")
	add("quic", "pooled", "prst,psil", "ad")
	if thorough {
		for k := 1; k <= 4; k++ {
			l = append(l, c14case{fmt.Sprintf("tr=quic fault=dyingconn mode=pooled loop=quic script=%s obs=d dl=2400", rep("prst", k, "pkill,fok")), "quic/dyingconn/pooled"})
		}
		l = append(l, c14case{"tr=quic fault=dyingconn mode=pooled loop=quic script=pgar,pkill,ffin obs=d dl=2400", "quic/dyingconn/ffin"})
		add("quic", "refuse", "gB", "-") // nothing answers the handshake: the dial hangs
		add("quic", "app", "fhalf", "ad")
		add("quic", "pooled", "phalf", "ad")
		for k := 2; k <= 4; k++ {
			add("quic", "pooled", rep("pfin", k, "pok"), "ad")
		}
		add("quic", "pooled", rep("pgar", 5, "psil"), "ad")
	}
	// DoH3
	add("h3", "app", "fok", "-")
	add("h3", "app", "fgar", "-")
	add("h3", "e500", "fgar", "-")
	add("h3", "pooled", "fok", "-")
	add("h3", "app", "fsil", "-")
	if thorough {
		add("h3", "refuse", "gB", "-")
		add("h3", "pooled", "fsil", "-")
	}
	return l
}
