package main

// C14, component "faults": DoQ (quic://) and DoH3 (h3://) upstreams built by upstream.NewUpstream
// against local quic-go servers.
//
// DoQ server: every query is one stream. Behaviours for the victim's successive streams:
//   ok reply + FIN · fin FIN without data · rst stream reset · gar undecodable frame + FIN ·
//   sil nothing · half half a frame, no FIN
// fault=connkill: `rst` closes the whole QUIC connection instead (the retry must redial);
// fault=idleclose: the server closes the connection while it is idle.

import (
	"context"
	"crypto/tls"
	"encoding/base64"
	"encoding/binary"
	"fmt"
	"io"
	"math/rand"
	"net/http"
	"strings"
	"sync"
	"time"

	"github.com/IrineSistiana/mosproxy/internal/upstream"
	"github.com/miekg/dns"
	"github.com/quic-go/quic-go"
	"github.com/quic-go/quic-go/http3"
)

type c14qsrv struct {
	mu      sync.Mutex
	ln      *quic.Listener
	script  []string
	vi      int
	conns   []quic.Connection
	accepts int
	vq      int
	fault   string
}

func c14newQsrv(fault string) (*c14qsrv, error) {
	tlsCfg := &tls.Config{Certificates: []tls.Certificate{c14tlsCert()}, NextProtos: []string{"doq"}}
	var ln *quic.Listener
	var err error
	for i := 0; i < 200; i++ {
		if ln, err = quic.ListenAddr(fmt.Sprintf("127.0.0.1:%d", c14nextPort()), tlsCfg, &quic.Config{MaxIdleTimeout: 30 * time.Second}); err == nil {
			break
		}
	}
	if err != nil {
		return nil, err
	}
	s := &c14qsrv{ln: ln, fault: fault}
	go func() {
		for {
			c, err := ln.Accept(context.Background())
			if err != nil {
				return
			}
			s.mu.Lock()
			s.conns = append(s.conns, c)
			s.accepts++
			s.mu.Unlock()
			go s.serveConn(c)
		}
	}()
	return s, nil
}

func (s *c14qsrv) serveConn(c quic.Connection) {
	for {
		st, err := c.AcceptStream(context.Background())
		if err != nil {
			return
		}
		go s.serveStream(c, st)
	}
}

func (s *c14qsrv) serveStream(c quic.Connection, st quic.Stream) {
	var l [2]byte
	if _, err := io.ReadFull(st, l[:]); err != nil {
		return
	}
	b := make([]byte, binary.BigEndian.Uint16(l[:]))
	if _, err := io.ReadFull(st, b); err != nil {
		return
	}
	q := new(dns.Msg)
	if q.Unpack(b) != nil {
		return
	}
	role, _ := c14role(q)
	beh := "ok"
	if role == "victim" {
		s.mu.Lock()
		s.vq++
		if s.vi < len(s.script) {
			beh = s.script[s.vi]
		}
		s.vi++
		s.mu.Unlock()
	}
	switch beh {
	case "ok":
		st.Write(c14frame(c14reply(q)))
		st.Close()
	case "fin":
		st.Close()
	case "rst":
		if s.fault == "connkill" {
			c.CloseWithError(0, "")
			return
		}
		st.CancelWrite(1)
	case "gar":
		st.Write(c14frame(c14garbage(0)))
		st.Close()
	case "half":
		f := c14frame(c14reply(q))
		st.Write(f[:len(f)/2])
	}
}

func (s *c14qsrv) closeConns() {
	s.mu.Lock()
	defer s.mu.Unlock()
	for _, c := range s.conns {
		c.CloseWithError(0, "")
	}
	s.conns = nil
}

func (s *c14qsrv) close() {
	s.closeConns()
	s.ln.Close()
}

func c14doqOnce(m map[string]string) c14outcome {
	fault := m["fault"]
	script := strings.Split(m["script"], ",")
	dl := atoi(m["dl"])
	out := c14outcome{woke: true}
	srv, err := c14newQsrv(fault)
	if err != nil {
		out.setupFailed = "listen"
		return out
	}
	addr := srv.ln.Addr().String()
	if fault == "refuse" {
		srv.close()
	} else {
		defer srv.close()
	}
	up, err := upstream.NewUpstream("quic://"+addr, upstream.Opt{TLSConfig: c14clientTLS()})
	if err != nil {
		out.setupFailed = "newupstream"
		return out
	}
	defer up.Close()
	if fault == "pooled" || fault == "idleclose" || fault == "connkill" {
		if !c14setupExchange(up, c14query("plain", 0)) {
			out.setupFailed = "first-exchange"
			return out
		}
		if fault == "idleclose" {
			srv.closeConns()
			time.Sleep(60 * time.Millisecond)
		}
	}
	srv.mu.Lock()
	srv.script, srv.vi = c14serverScript(script), 0
	a0 := srv.accepts
	srv.mu.Unlock()
	out.ok, out.el = c14timed(up, dl, c14query("victim", 0))
	srv.mu.Lock()
	out.dials, out.att = srv.accepts-a0, srv.vq
	srv.mu.Unlock()
	return out
}

func c14h3Once(m map[string]string) c14outcome {
	fault := m["fault"]
	script := strings.Split(m["script"], ",")
	dl := atoi(m["dl"])
	out := c14outcome{woke: true}
	pc := c14listenUDP()
	addr := pc.LocalAddr().String()
	sv := c14serverScript(script)
	stop := make(chan struct{})
	var mu sync.Mutex
	vi := 0
	hs := &http3.Server{
		TLSConfig: http3.ConfigureTLSConfig(&tls.Config{Certificates: []tls.Certificate{c14tlsCert()}}),
		Handler: http.HandlerFunc(func(w http.ResponseWriter, r *http.Request) {
			b, err := base64.RawURLEncoding.DecodeString(r.URL.Query().Get("dns"))
			q := new(dns.Msg)
			if err != nil || q.Unpack(b) != nil {
				w.WriteHeader(400)
				return
			}
			role, _ := c14role(q)
			beh := "ok"
			if role == "victim" {
				mu.Lock()
				if vi < len(sv) {
					beh = sv[vi]
				}
				vi++
				mu.Unlock()
				if fault == "e500" {
					beh = "e500"
				}
			}
			switch beh {
			case "ok":
				w.Header().Set("Content-Type", "application/dns-message")
				w.Write(c14reply(q))
			case "gar":
				w.Write(c14garbage(0))
			case "e500":
				w.WriteHeader(500)
			case "sil":
				select {
				case <-r.Context().Done():
				case <-stop:
				}
			}
		}),
	}
	if fault == "refuse" {
		pc.Close()
	} else {
		go hs.Serve(pc)
	}
	up, err := upstream.NewUpstream("h3://"+addr+"/dns-query", upstream.Opt{TLSConfig: c14clientTLS()})
	if err != nil {
		out.setupFailed = "newupstream"
		return out
	}
	defer func() {
		close(stop)
		up.Close()
		hs.Close()
		pc.Close()
	}()
	if fault == "pooled" {
		if !c14setupExchange(up, c14query("plain", 0)) {
			out.setupFailed = "first-exchange"
			return out
		}
	}
	out.ok, out.el = c14timed(up, dl, c14query("victim", 0))
	return out
}

func c14quicOnce(m map[string]string) c14outcome {
	if m["tr"] == "h3" {
		return c14h3Once(m)
	}
	return c14doqOnce(m)
}

func c14quicCases(r *rand.Rand, thorough bool) []c14case {
	var l []c14case
	add := func(tr, fault, script, obs string) {
		l = append(l, c14faultCase(r, tr, c14fault{fault, script, obs}))
	}
	rep := func(tok string, k int, tail string) string {
		var p []string
		for i := 0; i < k; i++ {
			p = append(p, tok)
		}
		if tail != "" {
			p = append(p, tail)
		}
		return strings.Join(p, ",")
	}
	// DoQ
	add("quic", "app", "fok", "ad")
	add("quic", "app", "ffin", "ad")
	add("quic", "app", "frst", "ad")
	add("quic", "app", "fgar", "ad")
	add("quic", "pooled", "pok", "ad")
	add("quic", "pooled", rep("prst", 1, "pok"), "ad")
	add("quic", "pooled", rep("prst", 5, "pok"), "ad") // the budget boundary: 5 retries
	add("quic", "pooled", rep("prst", 6, ""), "ad")
	add("quic", "pooled", "pfin,pgar,prst,pok", "ad")
	add("quic", "connkill", "prst,fok", "ad") // the connection dies under the exchange: redial
	add("quic", "idleclose", "fok", "d")
	add("quic", "app", "fsil", "ad")
	add("quic", "pooled", "prst,psil", "ad")
	if thorough {
		add("quic", "refuse", "gB", "-") // nothing answers the handshake: the dial hangs
		add("quic", "app", "fhalf", "ad")
		add("quic", "pooled", "phalf", "ad")
		for k := 2; k <= 4; k++ {
			add("quic", "pooled", rep("pfin", k, "pok"), "ad")
		}
		add("quic", "pooled", rep("pgar", 5, "psil"), "ad")
	}
	// DoH3
	add("h3", "app", "fok", "-")
	add("h3", "app", "fgar", "-")
	add("h3", "e500", "fgar", "-")
	add("h3", "pooled", "fok", "-")
	add("h3", "app", "fsil", "-")
	if thorough {
		add("h3", "refuse", "gB", "-")
		add("h3", "pooled", "fsil", "-")
	}
	return l
}

