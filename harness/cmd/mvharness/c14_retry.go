package main

// C14 component "retry": the REAL transport.NewPipelineTransport / transport.NewReuseConnTransport
// with a counting dialer over real loopback TCP, against the scripted server of c14_common.go.
// The world is arranged so that the attempts of ONE observed exchange (the "victim") meet exactly
// the fault placement of the script:
//
//   case : loop=<pipeline|reuse> mode=<busy|idle> script=<tok,…> obs=ad dl=<ms>
//   script tokens: see Model/Retry.lean. The leading p-tokens say how many pooled connections the
//     pool offers before it has to dial (reuse: that many idle connections, `pidle` ones closed by
//     the server while idle; pipeline/busy: that many connections shared with an exchange that keeps
//     waiting ("holder"), MaxConcurrentQuery = 2; pipeline/idle: one idle connection); the server
//     treats the victim's n-th query that reaches it as the n-th non-idle token says; the first
//     g-token makes the victim's dial fail (R: refused) or hang (B).
//   out  : res=<ok|err> att=<Write calls during the victim> dials=<DialContext calls during the
//          victim> t=<prompt|intime|late> woke=<every holder on a connection the server killed
//          returned within 1.2 s> leak=<dead connections not closed by the client> ## el=<ms>

import (
	"context"
	"encoding/binary"
	"fmt"
	"math/rand"
	"net"
	"os"
	"reflect"
	"runtime/debug"
	"strings"
	"sync"
	"sync/atomic"
	"time"
	"unsafe"

	"github.com/IrineSistiana/mosproxy/internal/dnsmsg"
	"github.com/IrineSistiana/mosproxy/internal/upstream/transport"
)

type c14world struct {
	srv        *c14srv
	dials      atomic.Int64
	writes     atomic.Int64
	dialMode   atomic.Value // string: "" | gR | gB
	closedAddr string
}

type c14cconn struct {
	net.Conn
	w *c14world
}

func (c *c14cconn) Write(b []byte) (int, error) {
	c.w.writes.Add(1)
	return c.Conn.Write(b)
}

func (w *c14world) dial(ctx context.Context) (net.Conn, error) {
	w.dials.Add(1)
	switch w.dialMode.Load().(string) {
	case "gR":
		return (&net.Dialer{}).DialContext(ctx, "tcp", w.closedAddr)
	case "gB":
		<-ctx.Done()
		return nil, context.Cause(ctx)
	}
	c, err := (&net.Dialer{}).DialContext(ctx, "tcp", w.srv.addr())
	if err != nil {
		return nil, err
	}
	return &c14cconn{Conn: c, w: w}, nil
}

type c14exchanger interface {
	ExchangeContext(ctx context.Context, m []byte) (*dnsmsg.Msg, error)
	Close() error
}

// one exchange; ok = a reply carrying the query's own ID came back
func c14do(tr c14exchanger, ctx context.Context, q []byte) bool {
	r, err := tr.ExchangeContext(ctx, q)
	if err != nil || r == nil {
		return false
	}
	ok := r.Header.ID == binary.BigEndian.Uint16(q)
	dnsmsg.ReleaseMsg(r)
	return ok
}

// one exchange with a deadline of dlMs; the harness stops waiting c14Hard after deadline + slack
// (the elapsed time is then reported as one hour: class "late")
func c14timed(tr c14exchanger, dlMs int, q []byte) (bool, time.Duration) {
	dl := time.Duration(dlMs) * time.Millisecond
	ctx, cancel := context.WithTimeout(context.Background(), dl)
	defer cancel()
	done := make(chan bool, 1)
	t0 := time.Now()
	go func() { done <- c14do(tr, ctx, q) }()
	select {
	case ok := <-done:
		return ok, time.Since(t0)
	case <-time.After(dl + c14Slack + c14Hard):
		return false, time.Hour
	}
}

func c14setupExchange(tr c14exchanger, q []byte) bool {
	ok, _ := c14timed(tr, int(c14SetupWait/time.Millisecond), q)
	return ok
}

func c14reuseIdle(t *transport.ReuseConnTransport) int {
	v := reflect.ValueOf(t).Elem()
	m, idle := v.FieldByName("m"), v.FieldByName("idleConns")
	if !m.IsValid() || !idle.IsValid() || idle.Kind() != reflect.Map {
		return -1
	}
	mu := (*sync.Mutex)(unsafe.Pointer(m.UnsafeAddr()))
	mu.Lock()
	defer mu.Unlock()
	return idle.Len()
}

type c14outcome struct {
	ok          bool
	att, dials  int
	el          time.Duration
	woke        bool
	leak        int
	setupFailed string
}

func c14retryOnce(m map[string]string) c14outcome {
	script := strings.Split(m["script"], ",")
	dl := atoi(m["dl"])
	P, nIdle := 0, 0
	for P < len(script) && script[P][0] == 'p' {
		if script[P] == "pidle" {
			nIdle++
		}
		P++
	}
	// what a dial meets in this world: the first f- or g-token (a healthy server if there is none)
	dialTok := ""
	for _, t := range script {
		if t[0] == 'g' {
			dialTok = t
			break
		}
		if t[0] == 'f' {
			break
		}
	}

	w := &c14world{srv: c14newSrv(nil), closedAddr: c14closedAddr()}
	w.dialMode.Store("")
	var tr c14exchanger
	var rt *transport.ReuseConnTransport
	if m["loop"] == "reuse" {
		rt = transport.NewReuseConnTransport(transport.ReuseConnOpts{DialContext: w.dial})
		tr = rt
	} else {
		tr = transport.NewPipelineTransport(transport.PipelineOpts{DialContext: w.dial, IsTCP: true, MaxConcurrentQuery: 2})
	}
	out := c14outcome{woke: true}
	var wg sync.WaitGroup
	hctx, hcancel := context.WithTimeout(context.Background(), c14HolderDl)
	hdone := make([]atomic.Int64, P+1) // unix nanos at which holder i returned
	hconn := make([]*c14sconn, P+1)
	defer func() {
		hcancel()
		tr.Close()
		w.srv.close()
		c14waitTimeout(&wg, 8*time.Second)
	}()
	fail := func(why string) c14outcome { out.setupFailed = why; return out }

	// ---- set-up: P pooled connections
	switch {
	case m["loop"] == "reuse":
		var okc atomic.Int64
		var swg sync.WaitGroup
		for i := 0; i < P; i++ {
			swg.Add(1)
			go func(i int) {
				defer swg.Done()
				if c14setupExchange(tr, c14query("setup", i)) {
					okc.Add(1)
				}
			}(i)
		}
		if !w.srv.waitFor(c14SetupWait, func() bool { return w.srv.nseen["setup"] == P }) {
			return fail("setup-queries")
		}
		w.srv.release("setup")
		swg.Wait()
		if int(okc.Load()) != P {
			return fail("setup-exchanges")
		}
		for i := 0; i < 300 && c14reuseIdle(rt) >= 0 && c14reuseIdle(rt) < P; i++ {
			time.Sleep(time.Millisecond)
		}
		if c14reuseIdle(rt) < 0 {
			time.Sleep(30 * time.Millisecond)
		}
		if nIdle > 0 {
			if w.srv.closeServed("setup", nIdle) != nIdle {
				return fail("idle-close")
			}
			time.Sleep(15 * time.Millisecond)
		}
	case m["mode"] == "idle":
		for i := 0; i < P; i++ {
			done := make(chan bool, 1)
			go func() { done <- c14setupExchange(tr, c14query("setup", i)) }()
			if w.srv.waitSeen(fmt.Sprintf("setup%d", i)) == nil {
				return fail("setup-query")
			}
			w.srv.release("setup")
			if !<-done {
				return fail("setup-exchange")
			}
		}
	default: // pipeline, busy connections
		var fwg sync.WaitGroup
		var okc atomic.Int64
		for i := 0; i < P; i++ {
			wg.Add(1)
			go func(i int) {
				defer wg.Done()
				c14do(tr, hctx, c14query("hold", i))
				hdone[i].Store(time.Now().UnixNano())
			}(i)
			if hconn[i] = w.srv.waitSeen(fmt.Sprintf("hold%d", i)); hconn[i] == nil {
				return fail("holder-query")
			}
			fwg.Add(1)
			go func(i int) {
				defer fwg.Done()
				if c14setupExchange(tr, c14query("fill", i)) {
					okc.Add(1)
				}
			}(i)
			if w.srv.waitSeen(fmt.Sprintf("fill%d", i)) == nil {
				return fail("filler-query")
			}
		}
		w.srv.release("fill")
		fwg.Wait()
		if int(okc.Load()) != P {
			return fail("filler-exchanges")
		}
	}

	// ---- the victim
	w.srv.setScript(script)
	w.dialMode.Store(dialTok)
	d0, w0 := w.dials.Load(), w.writes.Load()
	out.ok, out.el = c14timed(tr, dl, c14query("victim", 0))
	out.att, out.dials = int(w.writes.Load()-w0), int(w.dials.Load()-d0)

	// ---- holders on connections the server killed must have been woken
	for i := 0; i < P; i++ {
		sc := hconn[i]
		if sc == nil {
			continue
		}
		w.srv.mu.Lock()
		killed := sc.killed
		w.srv.mu.Unlock()
		if killed.IsZero() {
			continue
		}
		limit := killed.Add(1200 * time.Millisecond)
		for hdone[i].Load() == 0 && time.Now().Before(limit) {
			time.Sleep(2 * time.Millisecond)
		}
		if d := hdone[i].Load(); d == 0 || time.Unix(0, d).After(limit) {
			out.woke = false
		}
	}
	out.leak = w.srv.leaks()
	return out
}

func c14fmt(o c14outcome, dl int) string {
	if o.setupFailed != "" {
		return "setup-failed:" + o.setupFailed
	}
	res := "err"
	if o.ok {
		res = "ok"
	}
	return fmt.Sprintf("res=%s att=%d dials=%d t=%s woke=%s leak=%d ## el=%dms", res, o.att, o.dials,
		c14timeClass(o.el, dl), b2s(o.woke), o.leak, o.el.Milliseconds())
}

// a timing class that the script does not explain is measured a second time before it is reported
func c14timingOdd(script []string, t string) bool {
	return t == "late" || (!c14scriptSilent(script) && t != "prompt")
}

func c14retryExec(cs string) string {
	m := kv(cs)
	script := strings.Split(m["script"], ",")
	dl := atoi(m["dl"])
	o := c14retryOnce(m)
	if o.setupFailed != "" || c14timingOdd(script, c14timeClass(o.el, dl)) || !o.woke {
		o = c14retryOnce(m)
	}
	return c14fmt(o, dl)
}

// ---- running generated cases in parallel: results are computed up front, `run` looks them up

type c14cache struct {
	m sync.Map
}

func (c *c14cache) precompute(cases []string, workers int, exec func(string) string) {
	ch := make(chan string)
	var wg sync.WaitGroup
	for i := 0; i < workers; i++ {
		wg.Add(1)
		go func() {
			defer wg.Done()
			for cs := range ch {
				func() {
					defer func() {
						if r := recover(); r != nil {
							fmt.Fprintf(os.Stderr, "panic on case %q: %v\n%s\n", cs, r, debug.Stack())
							c.m.Store(cs, "panic")
						}
					}()
					c.m.Store(cs, exec(cs))
				}()
			}
		}()
	}
	for _, cs := range cases {
		if _, ok := c.m.Load(cs); !ok {
			ch <- cs
		}
	}
	close(ch)
	wg.Wait()
}

func (c *c14cache) run(cs string, exec func(string) string) string {
	if v, ok := c.m.LoadAndDelete(cs); ok {
		return v.(string)
	}
	return exec(cs)
}

var c14retryCache c14cache

func c14retryRun(cs string) string { return c14retryCache.run(cs, c14retryExec) }

// ---- generator

var c14poolFails = []string{"fin", "rst", "gar"}

func c14dlFor(r *rand.Rand, script []string) int {
	if c14scriptSilent(script) {
		return c14ShortDlMin + r.Intn(80)
	}
	return c14LongDl
}

type c14case struct{ cs, cat string }

func c14retryCase(r *rand.Rand, loop, mode string, k int, term string) c14case {
	var script []string
	hasIdle := false
	for i := 0; i < k; i++ {
		f := c14poolFails[r.Intn(len(c14poolFails))]
		if loop == "reuse" && (term == "" || term[0] != 'p') && r.Intn(4) == 0 {
			f, hasIdle = "idle", true
		}
		script = append(script, "p"+f)
	}
	_ = hasIdle
	if term != "" {
		script = append(script, term)
	}
	cs := fmt.Sprintf("loop=%s mode=%s script=%s obs=ad dl=%d", loop, mode, strings.Join(script, ","), c14dlFor(r, script))
	cat := fmt.Sprintf("%s-%s-k%d-%s", loop, mode, k, term)
	return c14case{cs, cat}
}

var c14promptTerms = []string{"fok", "pok", "ffin", "frst", "fgar", "gR"}
var c14silentTerms = []string{"fsil", "fhalf", "gB", "psil", "phalf"}

func c14retryGen(r *rand.Rand, thorough bool, emit func(c, cat string)) {
	var cases []c14case
	add := func(c c14case) { cases = append(cases, c) }
	maxK := map[string]int{"pipeline": 5, "reuse": 6}
	for _, loop := range []string{"pipeline", "reuse"} {
		mk := maxK[loop]
		// the budget boundary: mk stale connections are survived, mk+1 are not
		add(c14retryCase(r, loop, "busy", mk, "fok"))
		add(c14retryCase(r, loop, "busy", mk, "pok"))
		add(c14retryCase(r, loop, "busy", mk+1, ""))
		add(c14retryCase(r, loop, "busy", mk, "ffin"))
		add(c14retryCase(r, loop, "busy", mk, "gR"))
		if loop == "reuse" {
			// more stale pooled connections than the retry budget: the last attempt dials
			add(c14retryCase(r, loop, "busy", mk+2, ""))
			add(c14retryCase(r, loop, "busy", mk+1, "fok"))
			add(c14retryCase(r, loop, "busy", mk+3, "ffin"))
			add(c14retryCase(r, loop, "busy", mk+2, "gR"))
			add(c14retryCase(r, loop, "busy", mk+1, "gB"))
			add(c14case{"loop=reuse mode=busy script=pidle,pidle,pidle,pidle,pidle,pidle,pidle,pidle,fok obs=ad dl=2400", "reuse-idleclose8"})
			add(c14case{"loop=reuse mode=busy script=pidle,pidle,pidle,pidle,pidle,pidle,pidle,pidle,pidle,pidle,pidle,pidle,fok obs=ad dl=2400", "reuse-idleclose12"})
			add(c14case{"loop=reuse mode=busy script=pidle,fok obs=ad dl=2400", "reuse-idleclose"})
			add(c14case{"loop=reuse mode=busy script=pidle,pidle,pidle,pidle,pidle,pidle,fok obs=ad dl=2400", "reuse-idleclose6"})
			add(c14case{"loop=reuse mode=busy script=pidle,pidle,pidle,pidle,pidle,pidle,pidle,fok obs=ad dl=2400", "reuse-idleclose7"})
		}
		// a fresh connection that fails is reported, not retried
		for _, t := range c14promptTerms {
			add(c14retryCase(r, loop, "busy", 0, t))
			add(c14retryCase(r, loop, "busy", 1, t))
		}
		if loop == "pipeline" {
			for _, b := range []string{"ok", "fin", "rst", "gar"} {
				add(c14case{fmt.Sprintf("loop=pipeline mode=idle script=p%s,fok obs=ad dl=2400", b), "pipeline-idle-" + b})
			}
			add(c14case{"loop=pipeline mode=idle script=pfin,ffin obs=ad dl=2400", "pipeline-idle-fin-ffin"})
			add(c14case{"loop=pipeline mode=idle script=psil obs=ad dl=420", "pipeline-idle-sil"})
		}
		nSilent, nRandom := 3, 14
		if thorough {
			nSilent, nRandom = len(c14silentTerms)*3, 700
			for k := 0; k <= mk; k++ {
				for _, t := range c14promptTerms {
					add(c14retryCase(r, loop, "busy", k, t))
				}
			}
		}
		for i := 0; i < nSilent; i++ {
			t := c14silentTerms[(i+r.Intn(2))%len(c14silentTerms)]
			if thorough {
				t = c14silentTerms[i%len(c14silentTerms)]
			}
			add(c14retryCase(r, loop, "busy", []int{0, 1, mk}[i%3], t))
		}
		for i := 0; i < nRandom; i++ {
			k := r.Intn(mk + 2)
			if k == mk+1 && loop == "pipeline" {
				add(c14retryCase(r, loop, "busy", k, ""))
				continue
			}
			if k == mk+1 {
				k += r.Intn(5) // reuse: any number of stale pooled connections
			}
			terms := c14promptTerms
			if r.Intn(12) == 0 {
				terms = c14silentTerms
			}
			add(c14retryCase(r, loop, "busy", k, terms[r.Intn(len(terms))]))
		}
	}
	var list []string
	seen := map[string]bool{}
	var uniq []c14case
	for _, c := range cases {
		if !seen[c.cs] {
			seen[c.cs] = true
			uniq = append(uniq, c)
			list = append(list, c.cs)
		}
	}
	c14retryCache.precompute(list, 8, c14retryExec)
	for _, c := range uniq {
		emit(c.cs, c.cat)
	}
}

func init() {
	register("retry", &component{gen: c14retryGen, run: c14retryRun})
}
