package main

// C17, TLS side.
//
// component tlscfg: router.VerifMakeTlsConfig on every combination of options; files live in a
// temporary directory (CA 1, CA 2, key pairs 1 and 2, a garbage file "bad").
//   req=<0|1> cert=<-|1|2|bad> key=<-|1|2|bad> ca=<-|1|2|bad> insecure=<0|1> vcc=<0|1> temp=<0|1>
//   -> insecure=<0|1> root=<nil|1|2> client=<nil|1|2> auth=<n> certs=<none|temp|1|2> cache=<nil|set> | err:<missing|ca|cert>
//
// component handshake: real handshakes through the real router (router.VerifRun).
//   side=up proto=<dot|doh|doq> peer=<valid|wrongname|unknownca|expired|selfsigned> swc=<0|1> <options>
//       an upstream "tls|https|quic://srv.test" with dial_addr at a harness server presenting the
//       `peer` certificate (swc: the server demands a client certificate signed by CA 1); a query is
//       sent through a plain TCP listener of the router -> ok (answered by the upstream) | fail | refused
//   side=li proto=<dot|doh|doq> peer=<valid|...|absent|plain> swc=0 <options>
//       a tls|https|quic listener of the router with the options; a harness client presenting the
//       `peer` client certificate (absent: none; plain: no TLS at all) sends one query -> ok (any DNS response) | fail | refused (start-up error)

import (
	"context"
	"crypto/ecdsa"
	"crypto/elliptic"
	crand "crypto/rand"
	"crypto/tls"
	"crypto/x509"
	"crypto/x509/pkix"
	"encoding/base64"
	"encoding/binary"
	"encoding/pem"
	"fmt"
	"io"
	"log"
	"math/big"
	"math/rand"
	"net"
	"net/http"
	"os"
	"path/filepath"
	"strings"
	"sync"
	"sync/atomic"
	"time"

	"github.com/IrineSistiana/mosproxy/app/router"
	"github.com/IrineSistiana/mosproxy/internal/mlog"
	"github.com/miekg/dns"
	"github.com/quic-go/quic-go"
	"github.com/rs/zerolog"
)

func c17nullLogger() *log.Logger { return log.New(io.Discard, "", 0) }

func c17base64url(s string) ([]byte, error) { return base64.RawURLEncoding.DecodeString(s) }

type c17pkiT struct {
	once  sync.Once
	dir   string
	pool  map[string]*x509.CertPool // "1", "2"
	caPEM map[string][]byte
	leaf  map[string]tls.Certificate // valid wrongname unknownca expired selfsigned
	der   map[string][]byte          // pair id -> leaf DER
}

var c17pki c17pkiT

const c17srvName = "srv.test"

func c17newCert(tmpl *x509.Certificate, parent *x509.Certificate, parentKey *ecdsa.PrivateKey) (tls.Certificate, *x509.Certificate, *ecdsa.PrivateKey, []byte, []byte) {
	key, err := ecdsa.GenerateKey(elliptic.P256(), crand.Reader)
	if err != nil {
		panic(err)
	}
	sn, _ := crand.Int(crand.Reader, new(big.Int).Lsh(big.NewInt(1), 100))
	tmpl.SerialNumber = sn
	if parent == nil {
		parent, parentKey = tmpl, key
	}
	der, err := x509.CreateCertificate(crand.Reader, tmpl, parent, &key.PublicKey, parentKey)
	if err != nil {
		panic(err)
	}
	cert, _ := x509.ParseCertificate(der)
	kb, _ := x509.MarshalPKCS8PrivateKey(key)
	certPEM := pem.EncodeToMemory(&pem.Block{Type: "CERTIFICATE", Bytes: der})
	keyPEM := pem.EncodeToMemory(&pem.Block{Type: "PRIVATE KEY", Bytes: kb})
	tc, err := tls.X509KeyPair(certPEM, keyPEM)
	if err != nil {
		panic(err)
	}
	return tc, cert, key, certPEM, keyPEM
}

func c17pkiInit() {
	c17pki.once.Do(func() {
		p := &c17pki
		dir, err := os.MkdirTemp("", "mvh-c17-")
		if err != nil {
			panic(err)
		}
		p.dir = dir
		p.pool, p.caPEM, p.leaf, p.der = map[string]*x509.CertPool{}, map[string][]byte{}, map[string]tls.Certificate{}, map[string][]byte{}
		now := time.Now()
		caT := func(cn string) *x509.Certificate {
			return &x509.Certificate{Subject: pkix.Name{CommonName: cn}, NotBefore: now.Add(-time.Hour), NotAfter: now.AddDate(5, 0, 0),
				IsCA: true, BasicConstraintsValid: true, KeyUsage: x509.KeyUsageCertSign | x509.KeyUsageDigitalSignature}
		}
		leafT := func(name string, notAfter time.Time) *x509.Certificate {
			return &x509.Certificate{Subject: pkix.Name{CommonName: name}, DNSNames: []string{name},
				NotBefore: now.AddDate(0, 0, -30), NotAfter: notAfter,
				KeyUsage:    x509.KeyUsageDigitalSignature,
				ExtKeyUsage: []x509.ExtKeyUsage{x509.ExtKeyUsageServerAuth, x509.ExtKeyUsageClientAuth}, BasicConstraintsValid: true}
		}
		type ca struct {
			cert *x509.Certificate
			key  *ecdsa.PrivateKey
		}
		cas := map[string]ca{}
		for _, id := range []string{"1", "2"} {
			_, c, k, cpem, _ := c17newCert(caT("mvh C17 test CA "+id), nil, nil)
			cas[id] = ca{c, k}
			pool := x509.NewCertPool()
			pool.AddCert(c)
			p.pool[id] = pool
			p.caPEM[id] = cpem
			os.WriteFile(filepath.Join(dir, "ca"+id+".pem"), cpem, 0o600)
		}
		// the process's SYSTEM roots: one unrelated CA of our own (crypto/x509 reads SSL_CERT_FILE / SSL_CERT_DIR on
		// first use), so that "the configured ca pins trust" is observable: a pool built from a `ca` file must not
		// contain it, and a peer certified by it must be refused where a `ca` is configured
		{
			_, c, k, cpem, _ := c17newCert(caT("mvh C17 SYSTEM root"), nil, nil)
			cas["sys"] = ca{c, k}
			os.WriteFile(filepath.Join(dir, "sysroots.pem"), cpem, 0o600)
			os.Setenv("SSL_CERT_FILE", filepath.Join(dir, "sysroots.pem"))
			os.Setenv("SSL_CERT_DIR", filepath.Join(dir, "no-such-dir"))
		}
		good := now.AddDate(1, 0, 0)
		mk := func(kind, caID, name string, notAfter time.Time, pair string) {
			var tc tls.Certificate
			var cpem, kpem []byte
			if caID == "" {
				tc, _, _, cpem, kpem = c17newCert(leafT(name, notAfter), nil, nil)
			} else {
				tc, _, _, cpem, kpem = c17newCert(leafT(name, notAfter), cas[caID].cert, cas[caID].key)
			}
			p.leaf[kind] = tc
			if pair != "" {
				os.WriteFile(filepath.Join(dir, "pair"+pair+".crt"), cpem, 0o600)
				os.WriteFile(filepath.Join(dir, "pair"+pair+".key"), kpem, 0o600)
				p.der[pair] = tc.Certificate[0]
			}
		}
		mk("valid", "1", c17srvName, good, "1")
		mk("wrongname", "1", "other.test", good, "")
		mk("unknownca", "2", c17srvName, good, "2")
		mk("expired", "1", c17srvName, now.AddDate(0, 0, -1), "")
		mk("selfsigned", "", c17srvName, good, "")
		os.WriteFile(filepath.Join(dir, "bad"), []byte("this is not PEM\n"), 0o600)
	})
}

func c17pkiCleanup() {
	if c17pki.dir != "" {
		os.RemoveAll(c17pki.dir)
	}
}

func c17file(kind, ref string) string {
	switch ref {
	case "-", "":
		return ""
	case "bad":
		if kind == "ca" {
			return filepath.Join(c17pki.dir, "bad")
		}
		return filepath.Join(c17pki.dir, "bad")
	}
	switch kind {
	case "ca":
		return filepath.Join(c17pki.dir, "ca"+ref+".pem")
	case "cert":
		return filepath.Join(c17pki.dir, "pair"+ref+".crt")
	default:
		return filepath.Join(c17pki.dir, "pair"+ref+".key")
	}
}

func c17tlsOptions(m map[string]string) router.TlsConfig {
	return router.TlsConfig{
		Cert: c17file("cert", m["cert"]), Key: c17file("key", m["key"]), CA: c17file("ca", m["ca"]),
		InsecureSkipVerify: m["insecure"] == "1", VerifyClientCert: m["vcc"] == "1", DebugUseTempCert: m["temp"] == "1",
	}
}

func c17poolName(p *x509.CertPool) string {
	if p == nil {
		return "nil"
	}
	for _, id := range []string{"1", "2"} {
		if p.Equal(c17pki.pool[id]) {
			return id
		}
	}
	return "other"
}

func c17cfgRun(cs string) string {
	m := kv(cs)
	opts := c17tlsOptions(m)
	c, err := router.VerifMakeTlsConfig(&opts, m["req"] == "1")
	if err != nil {
		s := err.Error()
		switch {
		case strings.HasPrefix(s, "missing required"):
			return "err:missing"
		case strings.HasPrefix(s, "failed to load ca"):
			return "err:ca"
		default:
			return "err:cert"
		}
	}
	certs := "none"
	if len(c.Certificates) > 1 {
		certs = "many"
	} else if len(c.Certificates) == 1 {
		certs = "other"
		if len(c.Certificates[0].Certificate) > 0 {
			der := c.Certificates[0].Certificate[0]
			for id, d := range c17pki.der {
				if string(d) == string(der) {
					certs = id
				}
			}
			if x, err := x509.ParseCertificate(der); err == nil && x.Subject.CommonName == "test.test" {
				certs = "temp"
			}
		}
	}
	cache := "nil"
	if c.ClientSessionCache != nil {
		cache = "set"
	}
	return fmt.Sprintf("insecure=%s root=%s client=%s auth=%d certs=%s cache=%s", b2s(c.InsecureSkipVerify), c17poolName(c.RootCAs),
		c17poolName(c.ClientCAs), int(c.ClientAuth), certs, cache)
}

func c17cfgGen(r *rand.Rand, thorough bool, emit func(c, cat string)) {
	refs := []string{"-", "1", "2", "bad"}
	n := 0
	for _, req := range []string{"0", "1"} {
		for _, cert := range refs {
			for _, key := range refs {
				for _, ca := range refs {
					for _, ins := range []string{"0", "1"} {
						for _, vcc := range []string{"0", "1"} {
							for _, tmp := range []string{"0", "1"} {
								n++
								if !thorough && tmp == "1" && n%4 != 0 {
									continue // the temp certificate costs a key generation
								}
								emit(fmt.Sprintf("req=%s cert=%s key=%s ca=%s insecure=%s vcc=%s temp=%s", req, cert, key, ca, ins, vcc, tmp),
									"req"+req+"-vcc"+vcc+"-ins"+ins)
							}
						}
					}
				}
			}
		}
	}
}

// ---------------------------------------------------------------- handshake

var c17hsSeq atomic.Int64

func c17freeUDPPort() int {
	pc, err := net.ListenPacket("udp", "127.0.0.1:0")
	if err != nil {
		panic(err)
	}
	defer pc.Close()
	return pc.LocalAddr().(*net.UDPAddr).Port
}

func c17serveDoQ(l *quic.Listener) {
	for {
		c, err := l.Accept(context.Background())
		if err != nil {
			return
		}
		go func() {
			for {
				s, err := c.AcceptStream(context.Background())
				if err != nil {
					return
				}
				go func() {
					defer s.Close()
					var l [2]byte
					if _, err := io.ReadFull(s, l[:]); err != nil {
						return
					}
					b := make([]byte, binary.BigEndian.Uint16(l[:]))
					if _, err := io.ReadFull(s, b); err != nil {
						return
					}
					q := new(dns.Msg)
					if q.Unpack(b) != nil {
						return
					}
					rb, _ := c17dnsReply(q).Pack()
					out := make([]byte, 2+len(rb))
					binary.BigEndian.PutUint16(out, uint16(len(rb)))
					copy(out[2:], rb)
					s.Write(out)
				}()
			}
		}()
	}
}

// c17tcpQuery sends one query over a DNS/TCP style stream and reports whether a response came back
// and whether it carries the harness' answer.
func c17streamQuery(c io.ReadWriter, name string) (got bool, answered bool) {
	q := new(dns.Msg)
	q.SetQuestion(name, dns.TypeA)
	qb, _ := q.Pack()
	out := make([]byte, 2+len(qb))
	binary.BigEndian.PutUint16(out, uint16(len(qb)))
	copy(out[2:], qb)
	if _, err := c.Write(out); err != nil {
		return false, false
	}
	var l [2]byte
	if _, err := io.ReadFull(c, l[:]); err != nil {
		return false, false
	}
	b := make([]byte, binary.BigEndian.Uint16(l[:]))
	if _, err := io.ReadFull(c, b); err != nil {
		return false, false
	}
	r := new(dns.Msg)
	if r.Unpack(b) != nil {
		return false, false
	}
	return true, r.Rcode == dns.RcodeSuccess && len(r.Answer) == 1
}

func c17hsUpstream(m map[string]string) string {
	seq := c17hsSeq.Add(1)
	srvCfg := &tls.Config{Certificates: []tls.Certificate{c17pki.leaf[m["peer"]]}}
	if m["swc"] == "1" {
		srvCfg.ClientAuth = tls.RequireAndVerifyClientCert
		srvCfg.ClientCAs = c17pki.pool["1"]
	}
	var addr, dialAddr string
	switch m["proto"] {
	case "dot":
		l, err := net.Listen("tcp", "127.0.0.1:0")
		if err != nil {
			panic(err)
		}
		defer l.Close()
		go c17serveDoT(l, srvCfg)
		addr, dialAddr = "tls://"+c17srvName, l.Addr().String()
	case "doh":
		l, err := net.Listen("tcp", "127.0.0.1:0")
		if err != nil {
			panic(err)
		}
		hs := &http.Server{Handler: c17dohHandler{}, TLSConfig: srvCfg, ErrorLog: c17nullLogger()}
		go hs.ServeTLS(l, "", "")
		defer hs.Close()
		addr, dialAddr = "https://"+c17srvName+"/dns-query", l.Addr().String()
	case "doq":
		srvCfg.NextProtos = []string{"doq"}
		l, err := quic.ListenAddr("127.0.0.1:0", srvCfg, &quic.Config{})
		if err != nil {
			panic(err)
		}
		defer l.Close()
		go c17serveDoQ(l)
		addr, dialAddr = "quic://"+c17srvName, l.Addr().String()
	default:
		return "bad-proto"
	}
	front := fmt.Sprintf("@mvh-c17-%d-front-%d", os.Getpid(), seq)
	cfg := &router.Config{
		Servers:   []router.ServerConfig{{Tag: "front", Protocol: "tcp", Listen: front}},
		Upstreams: []router.UpstreamConfig{{Tag: "u", Addr: addr, DialAddr: dialAddr, Tls: c17tlsOptions(m)}},
		Rules:     []router.RuleConfig{{Forward: "u"}},
	}
	v, err := router.VerifRun(cfg)
	if err != nil {
		return "refused"
	}
	defer v.Close()
	c, err := net.DialTimeout("unix", front, time.Second)
	if err != nil {
		return "front-unreachable"
	}
	defer c.Close()
	c.SetDeadline(time.Now().Add(8 * time.Second))
	got, answered := c17streamQuery(c, fmt.Sprintf("q%d.c17.test.", seq))
	if !got {
		return "front-silent"
	}
	if answered {
		return "ok"
	}
	return "fail"
}

func c17hsListener(m map[string]string) string {
	seq := c17hsSeq.Add(1)
	opts := c17tlsOptions(m)
	cliCfg := &tls.Config{InsecureSkipVerify: true, ServerName: c17srvName}
	if m["peer"] != "absent" {
		cliCfg.Certificates = []tls.Certificate{c17pki.leaf[m["peer"]]}
	}
	name := fmt.Sprintf("q%d.c17.test.", seq)
	switch m["proto"] {
	case "dot", "doh":
		un := fmt.Sprintf("@mvh-c17-%d-li-%d", os.Getpid(), seq)
		proto := map[string]string{"dot": "tls", "doh": "https"}[m["proto"]]
		v, err := router.VerifRun(&router.Config{Servers: []router.ServerConfig{{Tag: "li", Protocol: proto, Listen: un, Tls: opts}}})
		if err != nil {
			return "refused"
		}
		defer v.Close()
		if m["proto"] == "dot" {
			c, err := net.DialTimeout("unix", un, time.Second)
			if err != nil {
				return "unreachable"
			}
			defer c.Close()
			c.SetDeadline(time.Now().Add(5 * time.Second))
			if m["peer"] == "plain" { // plaintext DNS over TCP to the TLS listener
				c.SetDeadline(time.Now().Add(time.Second))
				if got, _ := c17streamQuery(c, name); got {
					return "ok"
				}
				return "fail"
			}
			tc := tls.Client(c, cliCfg)
			if err := tc.Handshake(); err != nil {
				return "fail"
			}
			if got, _ := c17streamQuery(tc, name); got {
				return "ok"
			}
			return "fail"
		}
		scheme := "https"
		if m["peer"] == "plain" { // plaintext HTTP to the https listener
			scheme = "http"
		}
		cliCfg.NextProtos = []string{"h2"}
		tr := &http.Transport{
			DialContext: func(ctx context.Context, network, addr string) (net.Conn, error) {
				return net.DialTimeout("unix", un, time.Second)
			},
			TLSClientConfig:   cliCfg,
			ForceAttemptHTTP2: true,
		}
		defer tr.CloseIdleConnections()
		q := new(dns.Msg)
		q.SetQuestion(name, dns.TypeA)
		qb, _ := q.Pack()
		ctx, cancel := context.WithTimeout(context.Background(), 5*time.Second)
		defer cancel()
		req, _ := http.NewRequestWithContext(ctx, "GET", scheme+"://"+c17srvName+"/dns-query?dns="+base64.RawURLEncoding.EncodeToString(qb), nil)
		req.Header.Set("Accept", "application/dns-message")
		resp, err := tr.RoundTrip(req)
		if err != nil {
			return "fail"
		}
		defer resp.Body.Close()
		b, _ := io.ReadAll(io.LimitReader(resp.Body, 65536))
		r := new(dns.Msg)
		if resp.StatusCode == 200 && r.Unpack(b) == nil {
			return "ok"
		}
		return "fail"
	case "doq":
		for attempt := 0; ; attempt++ {
			port := c17freeUDPPort()
			listen := fmt.Sprintf("127.0.0.1:%d", port)
			v, err := router.VerifRun(&router.Config{Servers: []router.ServerConfig{{Tag: "li", Protocol: "quic", Listen: listen, Tls: opts}}})
			if err != nil {
				if strings.Contains(err.Error(), "listen") && attempt < 5 {
					continue // somebody took the port in between
				}
				return "refused"
			}
			defer v.Close()
			cliCfg.NextProtos = []string{"doq"}
			ctx, cancel := context.WithTimeout(context.Background(), 5*time.Second)
			defer cancel()
			c, err := quic.DialAddr(ctx, listen, cliCfg, &quic.Config{})
			if err != nil {
				return "fail"
			}
			defer c.CloseWithError(0, "")
			s, err := c.OpenStreamSync(ctx)
			if err != nil {
				return "fail"
			}
			s.SetDeadline(time.Now().Add(5 * time.Second))
			q := new(dns.Msg)
			q.SetQuestion(name, dns.TypeA)
			qb, _ := q.Pack()
			out := make([]byte, 2+len(qb))
			binary.BigEndian.PutUint16(out, uint16(len(qb)))
			copy(out[2:], qb)
			if _, err := s.Write(out); err != nil {
				return "fail"
			}
			s.Close()
			var l [2]byte
			if _, err := io.ReadFull(s, l[:]); err != nil {
				return "fail"
			}
			b := make([]byte, binary.BigEndian.Uint16(l[:]))
			if _, err := io.ReadFull(s, b); err != nil {
				return "fail"
			}
			return "ok"
		}
	}
	return "bad-proto"
}

func c17hsRun(cs string) string {
	m := kv(cs)
	f := c17hsListener
	if m["side"] == "up" {
		f = c17hsUpstream
	}
	// a rejection is immediate; a "fail" that took long smells of a starved machine: once more
	t0 := time.Now()
	res := f(m)
	if res != "ok" && res != "refused" && time.Since(t0) > 1500*time.Millisecond {
		res = f(m)
	}
	return res
}

func c17hsGen(r *rand.Rand, thorough bool, emit func(c, cat string)) {
	type opt struct{ cert, key, ca, ins, vcc, temp string }
	line := func(side, proto, peer, swc string, o opt) string {
		return fmt.Sprintf("side=%s proto=%s peer=%s swc=%s cert=%s key=%s ca=%s insecure=%s vcc=%s temp=%s",
			side, proto, peer, swc, o.cert, o.key, o.ca, o.ins, o.vcc, o.temp)
	}
	protos := []string{"dot", "doh", "doq"}
	upPeers := []string{"valid", "wrongname", "unknownca", "expired", "selfsigned"}
	liPeers := []string{"valid", "wrongname", "unknownca", "expired", "selfsigned", "absent", "plain"}
	// upstream side
	var upOpts []opt
	for _, ca := range []string{"-", "1", "2"} {
		for _, ins := range []string{"0", "1"} {
			upOpts = append(upOpts, opt{"-", "-", ca, ins, "0", "0"})
		}
	}
	upOpts = append(upOpts, opt{"-", "-", "1", "0", "1", "0"}) // verify_client_cert is a listener option: no effect
	for pi, proto := range protos {
		for i, peer := range upPeers {
			for j, o := range upOpts {
				if !thorough && (i+j+pi)%3 != 0 && !(peer == "valid" && o.ca == "1") {
					continue
				}
				emit(line("up", proto, peer, "0", o), "up-"+proto+"-"+peer)
			}
		}
		// the server demands a client certificate: cert/key options
		for k, ck := range []string{"-", "1", "2"} {
			if !thorough && (k+pi)%2 != 0 {
				continue
			}
			emit(line("up", proto, "valid", "1", opt{ck, ck, "1", "0", "0", "0"}), "up-"+proto+"-clientcert")
		}
	}
	emit(line("up", "dot", "valid", "0", opt{"-", "-", "bad", "0", "0", "0"}), "up-refused")
	// listener side
	var liOpts []opt
	for _, ca := range []string{"-", "1", "2"} {
		for _, vcc := range []string{"0", "1"} {
			liOpts = append(liOpts, opt{"1", "1", ca, "0", vcc, "0"})
		}
	}
	liOpts = append(liOpts, opt{"1", "1", "1", "1", "1", "0"}) // insecure_skip_verify must not weaken a listener
	liOpts = append(liOpts, opt{"-", "-", "1", "0", "1", "1"}) // temp certificate
	for pi, proto := range protos {
		for i, peer := range liPeers {
			for j, o := range liOpts {
				if peer == "plain" && proto == "doq" {
					continue // there is no plaintext QUIC
				}
				if !thorough && (i+j+pi)%3 != 0 && !(o.vcc == "1" && o.ca == "1" && (peer == "absent" || peer == "valid" || peer == "plain")) {
					continue
				}
				emit(line("li", proto, peer, "0", o), "li-"+proto+"-"+peer+"-vcc"+o.vcc)
			}
		}
	}
	emit(line("li", "dot", "valid", "0", opt{"-", "-", "1", "0", "1", "0"}), "li-refused")
	emit(line("li", "doh", "valid", "0", opt{"1", "2", "1", "0", "1", "0"}), "li-refused")
}

func init() {
	register("tlscfg", &component{gen: c17cfgGen, run: c17cfgRun, setup: c17pkiInit, teardown: c17pkiCleanup})
	register("handshake", &component{gen: c17hsGen, run: c17hsRun, teardown: c17pkiCleanup, setup: func() {
		mlog.SetLvl(zerolog.Disabled) // the router logs to stdout
		c17pkiInit()
	}})
}
