package main

// C18 component `shutdown`: the real router (router.VerifRun) with several listeners of any kind and
// one upstream of any kind that talks to a local server of the harness (c18_upservers.go, replies are
// held until released). A warm-up query is answered; n queries are in flight (blocked in the upstream
// exchange) when the router is closed; it is closed a second time; one more query is handled afterwards.
// Observed: Close returns (twice, within the time-out), the in-flight and the later queries are
// answered SERVFAIL promptly instead of hanging, every listening address can be bound again, and the
// process owns no more sockets than before the router was started (/proc/self/fd, with retries).
//
// case : it=<items as in `startup`, all +> srv=<listener kinds> up=<upstream kind> k=<its close protocol>
//        warm=<0|1> n=<queries in flight at close> cli=<silent|half>: every stream listener has one client that is
//        connected and silent / has sent half a request when the router is closed
// out  : res=<ok|err|panic|hang> warm=<ok|fail|hang|-> cl=<n|hang|panic|slow (a Close took more than 2 s)> infl=<fail|ok|hang> after=<fail|ok|hang>
//        busy=<ids|-> leak=<n>

import (
	"context"
	"crypto/tls"
	"fmt"
	"math/rand"
	"net"
	"net/netip"
	"strconv"
	"strings"
	"sync"
	"time"

	"github.com/IrineSistiana/mosproxy/app/router"
	"github.com/IrineSistiana/mosproxy/internal/dnsmsg"
	"github.com/quic-go/quic-go"
)

// Close must not wait for clients: a Close that returns, but only after this long, is reported as `slow`.
const c18ClosePrompt = 2 * time.Second

// c18client is a client of one listener that is connected and silent, or has sent half a request, when
// the router is closed. sawClose: the proxy closed its side (informational: the tcp and tls listeners do
// not close accepted connections on Close; that is outside the property text).
type c18client struct {
	closeFn  func()
	sawClose chan struct{}
}

func c18Attach(kind string, port int, half bool) *c18client {
	addr := "127.0.0.1:" + strconv.Itoa(port)
	cl := &c18client{sawClose: make(chan struct{})}
	if kind == "quic" {
		ctx, cancel := context.WithTimeout(context.Background(), 3*time.Second)
		defer cancel()
		qc, err := quic.DialAddr(ctx, addr, &tls.Config{InsecureSkipVerify: true, NextProtos: []string{"doq"}}, &quic.Config{})
		if err != nil {
			return nil
		}
		if half {
			if st, err := qc.OpenStream(); err == nil {
				st.Write([]byte{0})
			}
		}
		go func() { <-qc.Context().Done(); close(cl.sawClose) }()
		cl.closeFn = func() { qc.CloseWithError(0, "") }
		return cl
	}
	c, err := net.DialTimeout("tcp", addr, 3*time.Second)
	if err != nil {
		return nil
	}
	var cc net.Conn = c
	if half {
		if kind == "tls" || kind == "https" {
			tc := tls.Client(c, &tls.Config{InsecureSkipVerify: true, NextProtos: []string{"http/1.1"}})
			c.SetDeadline(time.Now().Add(3 * time.Second))
			if tc.Handshake() == nil {
				cc = tc
			}
			c.SetDeadline(time.Time{})
		}
		switch kind {
		case "tcp", "gnet", "tls":
			cc.Write([]byte{0, 40, 1, 2, 3}) // 5 bytes of a 42 byte frame
		default:
			cc.Write([]byte("POST /dns-query HTTP/1.1\r\nHost: x\r\nContent-Type: application/dns-message\r\nContent-Length: 100\r\n\r\nabc"))
		}
	}
	go func() {
		b := make([]byte, 256)
		for {
			if _, err := cc.Read(b); err != nil {
				close(cl.sawClose)
				return
			}
		}
	}()
	cl.closeFn = func() { cc.Close() }
	return cl
}

func init() {
	register("shutdown", &component{gen: c18ShutdownGen, run: c18ShutdownRun, setup: c18ServersSetup})
}

// one query through handleServerReq: the RCODE, or -1
func c18Handle(r *router.VerifRouter, nonce int) int {
	q, err := dnsmsg.UnpackMsg(c18Query(nonce, uint16(nonce)))
	if err != nil {
		return -1
	}
	defer dnsmsg.ReleaseMsg(q)
	resp, _, _, _ := r.Handle(q, netip.MustParseAddrPort("127.0.0.1:5353"), netip.MustParseAddrPort("127.0.0.1:53"))
	if resp == nil {
		return -1
	}
	rc := int(resp.Header.RCode)
	dnsmsg.ReleaseMsg(resp)
	return rc
}

func c18ShutdownRun(c string) string {
	return c18Retry(func() string { return c18NoGC(func() string { return c18ShutdownOnce(c) }) })
}

func c18ShutdownOnce(c string) string {
	c18ServersSetup()
	m := kv(c)
	items := c18ParseItems(m["it"])
	if items == nil {
		return "bad-case"
	}
	s := &c18up
	upKind := m["up"]
	if s.addr[upKind] == "" {
		return "bad-case"
	}
	if c18UpstreamCrashes(upKind) {
		return "panic"
	}
	s.mu.Lock()
	s.seq++
	nbase := s.seq * 100
	s.hold = true
	s.mu.Unlock()
	defer func() {
		s.mu.Lock()
		for n := range s.pending {
			if n >= nbase && n < nbase+100 {
				delete(s.pending, n)
			}
		}
		s.mu.Unlock()
	}()

	base := c18Baseline()
	gbase := c18OtterGoroutines()
	var b *c18built
	var r *router.VerifRouter
	var err error
	var res string
	for try := 0; try < 4; try++ {
		b = c18Build(items, c18List(m["srv"]), []string{upKind}, 0, func(int, string) string { return s.addr[upKind] })
		res = c18Call(c18CallMax, func() { r, err = router.VerifRun(b.cfg) })
		if res == "ok" && err != nil {
			res = "err"
		}
		// another process of this machine grabbed one of the ports in the meantime: noise, try other ports
		if res == "err" && strings.Contains(err.Error(), "address already in use") {
			b.cleanup()
			continue
		}
		break
	}
	defer b.cleanup()
	if res != "ok" {
		d := ""
		if err != nil {
			d = " ## " + strings.ReplaceAll(err.Error(), "\t", " ")
		}
		return fmt.Sprintf("res=%s warm=- cl=0 infl=- after=- busy=- leak=%d%s", res, c18Leak(base), d)
	}

	type call struct {
		mu   sync.Mutex
		done bool
		rc   int
	}
	handle := func(nonce int) *call {
		cl := &call{}
		go func() {
			rc := c18Handle(r, nonce)
			cl.mu.Lock()
			cl.done, cl.rc = true, rc
			cl.mu.Unlock()
		}()
		return cl
	}
	finished := func(cl *call) bool { cl.mu.Lock(); defer cl.mu.Unlock(); return cl.done }

	warm := "-"
	if m["warm"] == "1" {
		cl := handle(nbase)
		c18Wait(func() bool { return finished(cl) || s.seen(nbase) })
		s.release(nbase)
		if !c18Wait(func() bool { return finished(cl) }) {
			warm = "hang"
		} else if cl.rc == 0 {
			warm = "ok"
		} else {
			warm = "fail"
		}
	}
	n := atoi(m["n"])
	var infl []*call
	for i := 1; i <= n; i++ {
		cl := handle(nbase + i)
		infl = append(infl, cl)
		nonce := nbase + i
		c18Wait(func() bool { return finished(cl) || s.seen(nonce) })
	}
	// clients that are connected and silent / have sent half a request when the router is closed
	var clients []*c18client
	if mode := m["cli"]; mode == "silent" || mode == "half" {
		si := 0
		kinds := c18List(m["srv"])
		for id, it := range items {
			if it.kind != 's' {
				continue
			}
			kind := "udp"
			if si < len(kinds) {
				kind = kinds[si]
			}
			si++
			if kind == "udp" || kind == "udp2" {
				continue
			}
			if cl := c18Attach(kind, b.ports[id], mode == "half"); cl != nil {
				clients = append(clients, cl)
			}
		}
		time.Sleep(50 * time.Millisecond) // let the listeners see them
	}
	closes, clRes := 0, ""
	for i := 0; i < 2; i++ {
		t0 := time.Now()
		if x := c18Call(c18CallMax, func() { r.Close() }); x != "ok" {
			if clRes == "" {
				clRes = x
			}
		} else if time.Since(t0) > c18ClosePrompt {
			if clRes == "" {
				clRes = "slow"
			}
			c18Timeouts.Add(1)
		} else {
			closes++
		}
	}
	cconns := 0
	grace := time.After(300 * time.Millisecond)
	for _, cl := range clients {
		select {
		case <-cl.sawClose:
		case <-grace:
			grace = time.After(0)
			cconns++
		}
	}
	for _, cl := range clients {
		cl.closeFn()
	}
	inflRes := "fail"
	for _, cl := range infl {
		if !c18Wait(func() bool { return finished(cl) }) {
			inflRes = "hang"
			break
		}
		if cl.rc != 2 && inflRes == "fail" {
			inflRes = "ok"
		}
	}
	after := "fail"
	t0 := time.Now()
	cl := handle(nbase + n + 1)
	if !c18Wait(func() bool { return finished(cl) }) {
		after = "hang"
		s.release(nbase + n + 1)
	} else if cl.rc != 2 {
		after = "ok"
	}
	_ = t0
	b.cleanup()
	var busy []int
	for id, p := range b.ports {
		if !c18CanBind(b.udp[id], p) {
			busy = append(busy, id)
		}
	}
	leak := c18Leak(base)
	g := 0
	c18Wait(func() bool { g = c18OtterGoroutines() - gbase; return g <= 0 }) // the memory cache owns goroutines
	if g > 0 {
		leak += (g + 1) / 2
	}
	cls := strconv.Itoa(closes)
	if clRes != "" {
		cls = clRes
	}
	out := fmt.Sprintf("res=ok warm=%s cl=%s infl=%s after=%s busy=%s leak=%d", warm, cls, inflRes, after, c18Ids(busy), leak)
	if len(clients) > 0 {
		out += fmt.Sprintf(" ## clients=%d not-closed-by-the-proxy=%d", len(clients), cconns)
	}
	return out
}

func c18ShutdownGen(r *rand.Rand, thorough bool, emit func(c, cat string)) {
	ups := []string{"udp", "tcp", "tls", "tcp+pipeline", "tls+pipeline", "http", "https", "h3", "quic"}
	// every listener kind with a silent client and with a half-sent request when the router is closed
	for i, mode := range []string{"silent", "half"} {
		srv := "tcp,tls,http,fasthttp,https,quic"
		it := "u+0,r+0,c+0,s+1,s+1,s+1,s+1,s+1,s+1"
		if thorough {
			srv += ",gnet"
			it += ",s+1"
		}
		emit(fmt.Sprintf("it=%s srv=%s up=udp k=pipe warm=%d n=%d cli=%s", it, srv, i, 1+i, mode), "clients-"+mode)
		emit(fmt.Sprintf("it=u+0,r+0,c+0,s+1 srv=fasthttp up=tcp k=reuse warm=0 n=0 cli=%s", mode), "clients-"+mode)
	}
	n := 12
	if thorough {
		n = 150
	}
	for i := 0; i < n; i++ {
		up := ups[i%len(ups)]
		var items, srv []string
		if r.Intn(3) == 0 {
			items = append(items, "m+1")
		}
		items = append(items, "u+"+b2s(c18UpSock(up)), "r+0")
		if r.Intn(2) == 0 {
			items = append(items, "M+1")
		}
		items = append(items, "c+0")
		for k := 1 + r.Intn(4); k > 0; k-- {
			kinds := c18SrvKinds
			if !thorough || r.Intn(4) > 0 {
				kinds = kinds[:len(kinds)-1]
			}
			srv = append(srv, kinds[r.Intn(len(kinds))])
			items = append(items, "s+1")
		}
		c := fmt.Sprintf("it=%s srv=%s up=%s k=%s warm=%d n=%d", strings.Join(items, ","), strings.Join(srv, ","),
			up, c18UpModelKind[up], r.Intn(2), r.Intn(4))
		if x := r.Intn(3); x > 0 {
			c += " cli=" + []string{"", "silent", "half"}[x]
		}
		emit(c, "up-"+up)
	}
}
