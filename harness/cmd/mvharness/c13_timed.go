package main

// C13 (iii): TIMED segmentation on the real tcp, tls and gnet listeners started with idle_timeout: 1 (second).
// The segments of a stream are separated by real pauses. What the listeners promise (read off the code, modelled
// in Model/Framing.lean `idleLoop` / `gnetIdle`): the goroutine listener re-arms the read deadline before it reads
// each message, so a query is lost to the idle timeout only if its last octet arrives later than idle_timeout after
// the previous query was complete (or after the connection was accepted); the gnet listener re-arms its timer on
// every segment. The scripts keep every such interval at or below 0.65 x idle_timeout while the pauses add up to
// more than idle_timeout, with the pause falling inside a length prefix / inside a body / after several frames in
// one segment. The specification is the untimed one: every query decoded once and answered, connection open.
//
// case : proto=<tcp|tls|gnet> max=100 hold=4 base=<b> fr=<len>,... segs=<n>,... gaps=<ms>,... [late=1]
//        frame i carries DNS id and question class base+i; gaps[i] = pause before segment i is written.
//        The client measures the intervals it actually produced; when one exceeds 0.80 x idle_timeout (a loaded
//        machine, or a script marked late=1 whose pause is longer than the timeout on purpose: the listener MAY
//        close then) the run is retried and finally reported as "notjudged", which the model driver echoes.
// out  : as for the other tcpframes cases, or "notjudged".
//
// The cases of one generator run are executed concurrently (one connection each) before they are emitted, so
// that the wall time is that of the longest script.

import (
	"crypto/tls"
	"fmt"
	"math/rand"
	"net"
	"strconv"
	"strings"
	"sync"
	"time"
)

const c13IdleSec = 1

var c13Idle = time.Duration(c13IdleSec) * time.Second

var c13TimedCache = struct {
	mu sync.Mutex
	m  map[string]string
}{m: map[string]string{}}

func c13StreamBase(fs []c13frame, base int) []byte {
	var s []byte
	for i, f := range fs {
		var body []byte
		if f.valid {
			body = c13Query(base+i+1, f.l)
		} else {
			body = c13Garbage(base+i+1, f.l)
		}
		s = append(s, byte(f.l>>8), byte(f.l))
		s = append(s, body...)
	}
	return s
}

// c13TimedRun runs one timed case (from the cache when the generator pre-ran it concurrently).
func c13TimedRun(cs string) string {
	c13TimedCache.mu.Lock()
	res, ok := c13TimedCache.m[cs]
	delete(c13TimedCache.m, cs)
	c13TimedCache.mu.Unlock()
	if ok {
		return res
	}
	c13t.up.reset(false, 0)
	return c13TimedWithRetry(cs)
}

func c13TimedWithRetry(cs string) (res string) {
	defer func() {
		if r := recover(); r != nil {
			res = "panic"
		}
	}()
	late := kv(cs)["late"] == "1"
	for try := 0; ; try++ {
		res = c13TimedOnce(cs, try)
		if late || try >= 2 || !(res == "notjudged" || strings.Contains(res, "stall=1") || res == "dial-error") {
			return res
		}
		time.Sleep(50 * time.Millisecond)
	}
}

func c13TimedOnce(cs string, try int) string {
	m := kv(cs)
	// a retry uses fresh ids: a query of the abandoned attempt may still reach the upstream later
	proto, base := m["proto"], atoi(m["base"])+20*try
	fs := c13ParseFrames(m["fr"])
	stream := c13StreamBase(fs, base)
	c13t.up.forget(base, base+len(fs))
	var segs, gaps []int
	for _, t := range strings.Split(m["segs"], ",") {
		segs = append(segs, atoi(t))
	}
	var waitFirst []bool // gap token w<ms>: first read every response that is due, then pause
	for _, t := range strings.Split(m["gaps"], ",") {
		w := strings.HasPrefix(t, "w")
		if w {
			t = t[1:]
		}
		waitFirst = append(waitFirst, w)
		gaps = append(gaps, atoi(t))
	}
	slow := time.Duration(atoi(m["slow"])) * time.Millisecond // the upstream's answer to query 1 takes this long
	pclose := -1                                              // segments before a pause longer than the idle timeout
	if v, ok := m["pclose"]; ok {
		pclose = atoi(v)
	}
	if slow > 0 {
		slowID := 1
		if v, ok := m["slowid"]; ok {
			slowID = atoi(v)
		}
		c13t.up.setSlow(base+slowID, slow)
	}
	port, ok := c13t.ports[proto+"idle"]
	if !ok || len(gaps) != len(segs) {
		return "bad-case"
	}
	tc, err := net.DialTimeout("tcp", "127.0.0.1:"+strconv.Itoa(port), 2*time.Second)
	if err != nil {
		return "dial-error"
	}
	tc.(*net.TCPConn).SetNoDelay(true)
	var conn net.Conn = tc
	if proto == "tls" {
		t := tls.Client(tc, &tls.Config{InsecureSkipVerify: true})
		tc.SetDeadline(time.Now().Add(3 * time.Second))
		if err = t.Handshake(); err != nil {
			tc.Close()
			return "dial-error"
		}
		tc.SetDeadline(time.Time{})
		conn = t
	}
	// from here on the listener's idle clock runs
	mark := time.Now() // when the previous query was complete (client side)
	rd := &c13reader{done: make(chan struct{})}
	go rd.loop(conn)

	ends := map[int]bool{} // stream offsets where a frame ends
	{
		o := 0
		for _, f := range fs {
			o += 2 + f.l
			ends[o] = true
		}
	}
	judged := true
	limit := c13Idle * 80 / 100
	pos, complete, frameEnd := 0, 0, 0
	var firstWrite time.Time
	afterPause := false
	lost := false
	for i, s := range segs {
		if waitFirst[i] {
			nfr := complete
			if !c13WaitFor(slow+3*time.Second, func() bool { f, _, _ := rd.frames(); return len(f) >= nfr }) {
				lost = true // an answer that is due never came: this is judged (and wrong), not a timing problem
			}
		}
		t0 := time.Now()
		time.Sleep(time.Duration(gaps[i]) * time.Millisecond)
		if i == pclose {
			// the deliberate over-long pause: the listener is expected to have closed the connection
			if time.Since(t0) < c13Idle*13/10 {
				judged = false
			}
			afterPause = true
		}
		if _, err := conn.Write(stream[pos : pos+s]); err != nil {
			break
		}
		now := time.Now()
		if i == 0 {
			firstWrite = now
		}
		if afterPause || lost {
			// nothing is judged by the clock any more (the listener closed as expected / an answer is missing)
			for o := pos + 1; o <= pos+s; o++ {
				if ends[o] && lost {
					complete++
				}
			}
			pos += s
			continue
		}
		if waitFirst[i] && !lost {
			// the follow-up of a query that was answered late must arrive before the deadline that was re-armed
			// while it was outstanding expires: query 1 + slow + at most half the idle timeout
			if now.Sub(firstWrite) > slow+c13Idle/2 {
				judged = false
			}
			mark = now.Add(-time.Millisecond)
		}
		// frames completed by this segment
		done := 0
		for o := pos + 1; o <= pos+s; o++ {
			if ends[o] {
				done++
				frameEnd = o
			}
		}
		pos += s
		if done > 0 {
			if now.Sub(mark) > limit {
				judged = false
			}
			complete += done
			mark = now
		} else if now.Sub(mark) > limit {
			// the frame in progress is already later than the script intended
			judged = false
		}
	}
	_ = frameEnd
	if _, ok := m["lost"]; ok {
		complete-- // the answer of that query goes down with the connection the listener closes
	}
	stall := false
	if judged && lost {
		stall = true
	} else if judged {
		if !c13WaitFor(c13WaitD(), func() bool { f, _, _ := rd.frames(); return len(f) >= complete }) {
			stall = true
		}
		time.Sleep(10 * time.Millisecond)
	}
	frames, leftover, eof := rd.frames()
	conn.Close()
	<-rd.done
	if !judged {
		return "notjudged"
	}
	ws := make([][2]int, 0, len(frames)+1)
	for _, b := range frames {
		id, k := c13Kind(b)
		if k != 3 {
			id -= base
		}
		ws = append(ws, [2]int{id, k})
	}
	if leftover > 0 {
		ws = append(ws, [2]int{0, 3})
	}
	var ups []int
	for _, id := range c13t.up.arrivedSorted() {
		if id > base && id <= base+len(fs) {
			ups = append(ups, id-base)
		}
	}
	res := fmt.Sprintf("w=%s up=%s closed=%s", c13FmtW(ws, true), c13FmtInts(ups), b2s(eof))
	if stall {
		c13Stalled()
		res += " stall=1"
	}
	return res
}

// c13TimedPrefetch runs the cases concurrently and caches their outputs.
func c13TimedPrefetch(cases []string) {
	c13t.up.reset(false, 0)
	sem := make(chan struct{}, 32)
	var wg sync.WaitGroup
	for _, cs := range cases {
		wg.Add(1)
		sem <- struct{}{}
		go func(cs string) {
			defer wg.Done()
			res := c13TimedWithRetry(cs)
			c13TimedCache.mu.Lock()
			c13TimedCache.m[cs] = res
			c13TimedCache.mu.Unlock()
			<-sem
		}(cs)
	}
	wg.Wait()
}

type c13timed struct {
	cat  string
	fs   []c13frame
	segs []int
	gaps []int
	late bool
	// gapStr (when set) replaces gaps: tokens <ms> or w<ms>; extra is appended to the case (slow=, pclose=)
	gapStr string
	extra  string
}

// c13TimedScripts: hand-written shapes plus (thorough) random ones. Every interval between the completion of
// consecutive frames is <= 650 ms; the pauses add up to more than the 1 s idle timeout.
func c13TimedScripts(r *rand.Rand, thorough bool) []c13timed {
	F := func(ls ...int) []c13frame {
		fs := make([]c13frame, len(ls))
		for i, l := range ls {
			fs[i] = c13frame{l, true}
		}
		return fs
	}
	var out []c13timed
	// A: a whole query; quiet; one segment = whole query 2 + the first octets of the body of query 3; later the rest
	out = append(out, c13timed{cat: "timed-frame+bodystart", fs: F(30, 28, 33), segs: []int{32, 30 + 7, 28}, gaps: []int{100, 650, 620}, late: false})
	// B: ... + the first octet of the length prefix of query 3
	out = append(out, c13timed{cat: "timed-frame+halfprefix", fs: F(30, 28, 33), segs: []int{32, 30 + 1, 34}, gaps: []int{50, 640, 630}, late: false})
	// C: several frames per segment, each segment ends inside a frame (prefix only / inside the body)
	out = append(out, c13timed{cat: "timed-multi", fs: F(17, 19, 40, 25, 17, 31), segs: []int{19 + 21 + 42 + 2, 25 + 19 + 10, 23}, gaps: []int{600, 600, 620}, late: false})
	// D: quiet right after the accept, then a query and the start of the next one in one segment
	out = append(out, c13timed{cat: "timed-quietstart", fs: F(24, 45), segs: []int{26 + 20, 27}, gaps: []int{650, 600}, late: false})
	// E: a long stream in which EVERY segment ends inside a frame
	out = append(out, c13timed{cat: "timed-alwayssplit", fs: F(20, 20, 20, 20, 20, 20), segs: []int{22 + 5, 22, 22, 22, 22, 17}, gaps: []int{300, 420, 430, 440, 450, 460}, late: false})
	// F: every frame split in two, pause inside and between
	out = append(out, c13timed{cat: "timed-splitall", fs: F(26, 26, 26), segs: []int{1, 27, 2, 26, 15, 13}, gaps: []int{300, 320, 310, 330, 300, 340}, late: false})
	if thorough {
		for i := 0; i < 14; i++ {
			k := 2 + r.Intn(6)
			fs := make([]c13frame, k)
			for j := range fs {
				fs[j] = c13frame{19 + r.Intn(60), true}
			}
			total := c13Total(fs)
			// cuts: mostly inside frames, right after a frame boundary
			var cuts []int
			off := 0
			for j, f := range fs {
				if j > 0 && r.Intn(3) > 0 {
					cuts = append(cuts, off+1+r.Intn(1+f.l)) // inside the prefix or the body of frame j
				} else if r.Intn(3) == 0 {
					cuts = append(cuts, off+1+r.Intn(1+f.l))
				}
				off += 2 + f.l
			}
			segs := c13SegsFromCuts(cuts, total)
			// pauses: the time since the last frame completion never exceeds 650 ms
			gaps := make([]int, len(segs))
			ends := map[int]bool{}
			o := 0
			for _, f := range fs {
				o += 2 + f.l
				ends[o] = true
			}
			pos, since := 0, 0
			for j, s := range segs {
				g := 200 + r.Intn(451)
				if since+g > 650 {
					g = 650 - since
				}
				gaps[j] = g
				since += g
				for o := pos + 1; o <= pos+s; o++ {
					if ends[o] {
						since = 0
					}
				}
				pos += s
			}
			out = append(out, c13timed{cat: "timed-rand", fs: fs, segs: segs, gaps: gaps})
		}
		// not judged: a pause longer than the idle timeout (the listener may close the connection)
		out = append(out, c13timed{cat: "timed-late-notjudged", fs: F(30, 28), segs: []int{32, 30}, gaps: []int{100, 1400}, late: true})
		// the answer takes 2.3 idle timeouts (the deadline fires twice while the client waits)
		out = append(out, c13timed{cat: "timed-slow-answer-2", fs: F(30, 28, 17), segs: []int{32, 30, 19}, gapStr: "100,w200,300", extra: "slow=2300"})
		// a slow and a fast query pipelined in one segment, a third one after both answers
		out = append(out, c13timed{cat: "timed-slow-pipelined", fs: F(30, 28, 20), segs: []int{62, 22}, gapStr: "100,w200", extra: "slow=1300"})
	}
	// the upstream answers after 1.3 x idle: the client is WAITING, not idle; it is answered, the connection stays
	// open and takes another query
	out = append(out, c13timed{cat: "timed-slow-answer", fs: F(30, 28), segs: []int{32, 30}, gapStr: "100,w200", extra: "slow=1300"})
	// tcp/tls only (the gnet timer re-arms while anything is in flight): query 2 is still at the slow upstream, query 3
	// is half sent, then silence for 1.6 x idle: the deadline passes with n > 0, the connection is closed although
	// a query is in flight (its answer is lost with the connection); "lost=2" tells the model driver
	out = append(out, c13timed{cat: "timed-partial-while-busy", fs: F(30, 28, 26), segs: []int{32, 30, 5, 23},
		gapStr: "100,100,100,1600", extra: "pclose=3 slow=1500 slowid=2 lost=2 notgnet=1"})
	// nothing in flight, a frame half sent, then silence for 1.6 x idle: the listener closes (n > 0 / timer)
	out = append(out, c13timed{cat: "timed-partial-then-silence", fs: F(30, 28), segs: []int{32, 7, 23}, gapStr: "100,200,1600", extra: "pclose=2"})
	return out
}

func c13TimedGen(r *rand.Rand, thorough bool, emit func(c, cat string)) {
	scripts := c13TimedScripts(r, thorough)
	var cases, cats []string
	base := 1000
	for _, proto := range []string{"tcp", "tls", "gnet"} {
		for _, sc := range scripts {
			if proto == "gnet" && strings.Contains(sc.extra, "notgnet=1") {
				continue
			}
			ss := make([]string, len(sc.segs))
			gs := make([]string, len(sc.gaps))
			for i := range sc.segs {
				ss[i] = strconv.Itoa(sc.segs[i])
			}
			for i := range sc.gaps {
				gs[i] = strconv.Itoa(sc.gaps[i])
			}
			gstr := strings.Join(gs, ",")
			if sc.gapStr != "" {
				gstr = sc.gapStr
			}
			cs := fmt.Sprintf("proto=%s max=100 hold=4 base=%d fr=%s segs=%s gaps=%s", proto, base, c13FrStr(sc.fs),
				strings.Join(ss, ","), gstr)
			if sc.extra != "" {
				cs += " " + sc.extra
			}
			if sc.late {
				cs += " late=1"
			}
			base += 60
			cases = append(cases, cs)
			cats = append(cats, proto+"-"+sc.cat)
		}
	}
	c13TimedPrefetch(cases)
	for i, cs := range cases {
		emit(cs, cats[i])
	}
}
