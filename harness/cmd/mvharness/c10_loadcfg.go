package main

// Component `loadcfg` (C10 start-up part).
// (nsk=<1|2|3> with via=bin: a mapping with a non-string key somewhere in the file)
// case : unk=<0|1> ups=<tag:hasaddr,…|-> dss=<tag,…|-> rules=<domain/forward/reject;…|-> via=<run|bin> [docs=2]   ("_" = empty string)
// out  : ok | rejected
// via=run : the real router.run through the VerifRun hook (fast).
// via=bin : the REAL binary (`mosproxy router -c <yaml>`, built by /verif/check from /repo, path in $MOSPROXY_BIN):
//           exercises the YAML + strict mapstructure decoding; "ok" = the process logs "router is up and running",
//           "rejected" = it exits with a non-zero status before that.

import (
	"bufio"
	"fmt"
	"math/rand"
	"os"
	"os/exec"
	"path/filepath"
	"reflect"
	"strings"
	"sync/atomic"
	"time"

	"github.com/IrineSistiana/mosproxy/app/router"
)

// setReject sets RuleConfig.Reject whatever integer type the field has in the tree under test (it was uint16
// before the range check was added), wrapping like the configuration decoder did.
func setReject(rc *router.RuleConfig, v int) {
	f := reflect.ValueOf(rc).Elem().FieldByName("Reject")
	switch f.Kind() {
	case reflect.Int, reflect.Int16, reflect.Int32, reflect.Int64:
		f.SetInt(int64(v))
	default:
		f.SetUint(uint64(v) & (1<<uint(f.Type().Bits()) - 1))
	}
}

func unq(s string) string {
	if s == "_" {
		return ""
	}
	return s
}

func runLoadCfg(cs string) string {
	m := kv(cs)
	tmp, _ := os.MkdirTemp("", "mvh-loadcfg")
	defer os.RemoveAll(tmp)
	dsFile := filepath.Join(tmp, "ds.txt")
	os.WriteFile(dsFile, []byte("domain:example.com\n"), 0o600)

	type up struct {
		tag     string
		hasAddr bool
	}
	var ups []up
	if m["ups"] != "-" {
		for _, t := range strings.Split(m["ups"], ",") {
			f := strings.Split(t, ":")
			ups = append(ups, up{unq(f[0]), f[1] == "1"})
		}
	}
	var dss []string
	if m["dss"] != "-" {
		for _, t := range strings.Split(m["dss"], ",") {
			dss = append(dss, unq(t))
		}
	}
	type rule struct {
		d, f   string
		reject int
	}
	var rules []rule
	if m["rules"] != "-" {
		for _, t := range strings.Split(m["rules"], ";") {
			f := strings.Split(t, "/")
			rj := 0
			if len(f) > 2 {
				rj = atoi(f[2])
			}
			rules = append(rules, rule{unq(f[0]), unq(f[1]), rj})
		}
	}
	if m["via"] == "bin" {
		bin := os.Getenv("MOSPROXY_BIN")
		if bin == "" {
			return "no-binary"
		}
		var y strings.Builder
		y.WriteString("upstreams:\n")
		for _, u := range ups {
			fmt.Fprintf(&y, "  - tag: %q\n", u.tag)
			if u.hasAddr {
				y.WriteString("    addr: \"udp://127.0.0.1:9\"\n")
			}
		}
		y.WriteString("domain_sets:\n")
		for _, d := range dss {
			fmt.Fprintf(&y, "  - tag: %q\n    files: [%q]\n", d, dsFile)
		}
		y.WriteString("rules:\n")
		for i, r := range rules {
			fmt.Fprintf(&y, "  - domain: %q\n    forward: %q\n    reject: %d\n", r.d, r.f, r.reject)
			if m["unk"] == "1" && i == 0 {
				y.WriteString("    forwrad: \"typo\"\n") // an unknown key inside a rule
			}
		}
		if m["unk"] == "1" && len(rules) == 0 {
			y.WriteString("no_such_section:\n  x: 1\n")
		}
		switch m["nsk"] { // a mapping with a key that is not a string: a decode error, not a panic (D63)
		case "1":
			y.WriteString("cache:\n  1: 2\n")
		case "2":
			y.WriteString("log:\n  true: 1\n")
		case "3":
			y.WriteString("servers:\n  - tag: \"s\"\n    protocol: \"udp\"\n    listen: \"127.0.0.1:0\"\n    ~: 1\n")
		}
		if m["docs"] == "2" { // a second YAML document: valid settings, or an unknown key, after a "---" line
			if len(rules)%2 == 0 {
				y.WriteString("---\nrules:\n  - reject: 3\n")
			} else {
				y.WriteString("---\nno_such_key: 1\n")
			}
		}
		cfgPath := filepath.Join(tmp, "cfg.yaml")
		os.WriteFile(cfgPath, []byte(y.String()), 0o600)
		cmd := exec.Command(bin, "router", "-c", cfgPath)
		cmd.Env = append(os.Environ(), "MOSPROXY_JSONLOGGER=1")
		stderr, _ := cmd.StderrPipe()
		stdout, _ := cmd.StdoutPipe()
		if err := cmd.Start(); err != nil {
			return "exec-error"
		}
		up := make(chan bool, 2)
		var panicked atomic.Bool
		scan := func(sc *bufio.Scanner) {
			for sc.Scan() {
				if strings.Contains(sc.Text(), "router is up and running") {
					up <- true
				}
				if strings.HasPrefix(sc.Text(), "panic:") || strings.HasPrefix(sc.Text(), "goroutine ") {
					panicked.Store(true) // the process died with a Go panic instead of reporting an error
				}
			}
		}
		go scan(bufio.NewScanner(stderr))
		go scan(bufio.NewScanner(stdout))
		done := make(chan error, 1)
		go func() { done <- cmd.Wait() }()
		select {
		case <-up:
			cmd.Process.Kill()
			<-done
			return "ok"
		case err := <-done:
			time.Sleep(20 * time.Millisecond) // let the scanners see the rest of the output
			if panicked.Load() {
				return "panic"
			}
			if err != nil {
				return "rejected"
			}
			return "exited-zero"
		case <-time.After(10 * time.Second):
			cmd.Process.Kill()
			<-done
			return "timeout"
		}
	}
	cfg := &router.Config{}
	for _, u := range ups {
		uc := router.UpstreamConfig{Tag: u.tag}
		if u.hasAddr {
			uc.Addr = "udp://127.0.0.1:9"
		}
		cfg.Upstreams = append(cfg.Upstreams, uc)
	}
	for _, d := range dss {
		cfg.DomainSets = append(cfg.DomainSets, router.DomainSetConfig{Tag: d, Files: []string{dsFile}})
	}
	for _, r := range rules {
		rcfg := router.RuleConfig{Domain: r.d, Forward: r.f}
		setReject(&rcfg, int(r.reject))
		cfg.Rules = append(cfg.Rules, rcfg)
	}
	v, err := router.VerifRun(cfg)
	if err != nil {
		return "rejected"
	}
	v.Close()
	return "ok"
}

func genLoadCfg(r *rand.Rand, thorough bool, emit func(c, cat string)) {
	n, nbin := 300, 12
	if thorough {
		n, nbin = 5000, 120
	}
	tags := []string{"a", "b", "c", "d", "_"}
	pick := func(k int) string { return tags[r.Intn(k)] }
	mk := func(via string, unk int) string {
		var ups, dss, rules []string
		for i := r.Intn(4); i > 0; i-- {
			tag := pick(4)
			if r.Intn(12) == 0 {
				tag = "_"
			}
			ha := 1
			if r.Intn(10) == 0 {
				ha = 0
			}
			ups = append(ups, fmt.Sprintf("%s:%d", tag, ha))
		}
		for i := r.Intn(3); i > 0; i-- {
			tag := pick(4)
			if r.Intn(12) == 0 {
				tag = "_"
			}
			dss = append(dss, tag)
		}
		for i := r.Intn(4); i > 0; i-- {
			rej := []int{0, 0, 3, 5}[r.Intn(4)]
			if r.Intn(8) == 0 { // values that are not rcodes
				rej = []int{15, 16, 17, 255, 512, 2048, 4095, 4096, 65535, 65536, 65541, 1 << 20}[r.Intn(12)]
			}
			rules = append(rules, fmt.Sprintf("%s/%s/%d", pick(5), pick(5), rej))
		}
		j := func(l []string, sep string) string {
			if len(l) == 0 {
				return "-"
			}
			return strings.Join(l, sep)
		}
		return fmt.Sprintf("unk=%d ups=%s dss=%s rules=%s via=%s", unk, j(ups, ","), j(dss, ","), j(rules, ";"), via)
	}
	for i := 0; i < n; i++ {
		emit(mk("run", 0), "run")
	}
	for i := 0; i < nbin; i++ {
		emit(mk("bin", i%2), fmt.Sprintf("bin-unk%d", i%2))
	}
	for i := 0; i < 2+nbin/6; i++ {
		emit(mk("bin", 0)+" docs=2", "bin-twodocs")
	}
	for i := 1; i <= 3; i++ {
		emit(mk("bin", 0)+fmt.Sprintf(" nsk=%d", i), "bin-nonstring-key")
	}
}

func init() {
	register("loadcfg", &component{gen: genLoadCfg, run: runLoadCfg})
}
