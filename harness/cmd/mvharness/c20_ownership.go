package main

// Component `ownership` (C20): scenarios on the REAL code with the pool hook switched on
// (internal/pool verif hook: buffers are overwritten with 0xA5 when handed out and with 0xEE when
// released, released buffers sit in a quarantine whose poison pattern is checked before they go back
// to the pool; double releases are counted; get/release events are recorded).
//
// case : scenario=<stress|cancel|cache> seed=<n> …
// out  : double=<n> waf=<n> corrupt=<n> ## gets=<n> releases=<n> foreign=<n> pre=<ids|-> trace=<G|R><id>,…
//
// corrupt = observations of released memory by a peer: wrong/undecodable answers seen by clients,
// frames received by the fake upstream that are not a query the harness sent.

import (
	"context"
	"encoding/base64"
	"encoding/binary"
	"errors"
	"fmt"
	"io"
	"math/rand"
	"net"
	"net/http"
	"net/netip"
	"strings"
	"sync"
	"sync/atomic"
	"time"

	"github.com/IrineSistiana/mosproxy/app/router"
	"github.com/IrineSistiana/mosproxy/internal/dnsmsg"
	"github.com/IrineSistiana/mosproxy/internal/pool"
	"github.com/IrineSistiana/mosproxy/internal/upstream"
	"github.com/IrineSistiana/mosproxy/internal/upstream/transport"
)

func poolReport(corrupt int) string {
	rep := pool.VerifPoolTake()
	ids := map[uintptr]int{}
	var pre []string
	var tr []string
	seenGet := map[uintptr]bool{}
	for _, e := range rep.Trace {
		id, ok := ids[e.Buf]
		if !ok {
			id = len(ids) + 1
			ids[e.Buf] = id
		}
		if e.Get {
			seenGet[e.Buf] = true
			tr = append(tr, fmt.Sprintf("G%d", id))
		} else {
			if !seenGet[e.Buf] {
				pre = append(pre, fmt.Sprint(id))
				seenGet[e.Buf] = true // handed out before recording started
			}
			tr = append(tr, fmt.Sprintf("R%d", id))
		}
	}
	ps, ts := "-", "-"
	if len(pre) > 0 {
		ps = strings.Join(pre, ",")
	}
	if len(tr) > 0 {
		ts = strings.Join(tr, ",")
	}
	return fmt.Sprintf("double=%d waf=%d corrupt=%d ## gets=%d releases=%d foreign=%d pre=%s trace=%s",
		rep.DoubleRelease, rep.WriteAfterRelease, corrupt, rep.Gets, rep.Releases, rep.ForeignRelease, ps, ts)
}

// gatedConn delays Write until the gate is opened.
type gatedConn struct {
	net.Conn
	gate chan struct{}
}

func (c *gatedConn) Write(b []byte) (int, error) {
	<-c.gate
	return c.Conn.Write(b)
}

// scenario cancel: one-at-a-time (reuse) transport; the caller's context ends while the worker goroutine
// is still about to write the payload; meanwhile other buffers of the same size class are obtained,
// filled with a different pattern and released. The server must only ever see queries that were sent.
func ownCancel(seed int64) int {
	r := rand.New(rand.NewSource(seed))
	var corrupt atomic.Int64
	l, err := net.Listen("tcp", "127.0.0.1:0")
	if err != nil {
		return -1
	}
	defer l.Close()
	var smu sync.Mutex
	sent := map[string]bool{}
	go func() {
		for {
			c, err := l.Accept()
			if err != nil {
				return
			}
			go func() {
				defer c.Close()
				for {
					var lb [2]byte
					if _, err := io.ReadFull(c, lb[:]); err != nil {
						return
					}
					if n := binary.BigEndian.Uint16(lb[:]); n > 512 {
						corrupt.Add(1) // no query of the harness is that long: garbage on the wire
						return
					}
					q := make([]byte, binary.BigEndian.Uint16(lb[:]))
					if _, err := io.ReadFull(c, q); err != nil {
						return
					}
					m, err := dnsmsg.UnpackMsg(q)
					ok := false
					if err == nil && len(m.Questions) == 1 {
						smu.Lock()
						ok = sent[string(m.Questions[0].Name)]
						smu.Unlock()
					}
					if m != nil {
						dnsmsg.ReleaseMsg(m)
					}
					if !ok {
						corrupt.Add(1)
						continue
					}
					// answer
					rb := append([]byte(nil), q...)
					rb[2] |= 0x80
					c.Write(frame(rb))
				}
			}()
		}
	}()
	var gmu sync.Mutex
	var gates []chan struct{}
	t := transport.NewReuseConnTransport(transport.ReuseConnOpts{
		DialContext: func(ctx context.Context) (net.Conn, error) {
			c, err := net.Dial("tcp", l.Addr().String())
			if err != nil {
				return nil, err
			}
			g := make(chan struct{})
			gmu.Lock()
			gates = append(gates, g)
			gmu.Unlock()
			return &gatedConn{Conn: c, gate: g}, nil
		},
		IdleTimeout: time.Second,
	})
	defer t.Close()
	for i := 0; i < 40; i++ {
		name := wireLabels([]byte(fmt.Sprintf("c%d", r.Intn(1<<30))), []byte("own"))
		smu.Lock()
		sent[string(name)] = true
		smu.Unlock()
		q := buildQuery(uint16(i+1), name, 1, false, 0)
		ctx, cancel := context.WithTimeout(context.Background(), 20*time.Millisecond)
		_, _ = t.ExchangeContext(ctx, q) // returns at the deadline: the write is still gated
		cancel()
		// churn the size class of the payload so a released payload would be reused and rewritten
		for k := 0; k < 50; k++ {
			b := pool.GetBuf(len(q) + 2)
			for j := range b {
				b[j] = 0x5A
			}
			pool.ReleaseBuf(b)
		}
		gmu.Lock()
		for _, g := range gates {
			close(g)
		}
		gates = nil
		gmu.Unlock()
		time.Sleep(3 * time.Millisecond)
	}
	time.Sleep(50 * time.Millisecond)
	return int(corrupt.Load())
}

// scenario cache: store/get with eviction pressure on the real router's cache; every hit must be the
// response stored for that question.
func ownCache(seed int64) int {
	r := rand.New(rand.NewSource(seed))
	cfg := &router.Config{}
	cfg.Cache.MemSize = 8 * 1024
	v, err := router.VerifRun(cfg)
	if err != nil {
		return -1
	}
	defer v.Close()
	corrupt := 0
	var wg sync.WaitGroup
	var cmu sync.Mutex
	for g := 0; g < 8; g++ {
		wg.Add(1)
		rr := rand.New(rand.NewSource(r.Int63()))
		go func() {
			defer wg.Done()
			for i := 0; i < 400; i++ {
				name := wireLabels([]byte(fmt.Sprintf("k%d", rr.Intn(300))), []byte("cache"))
				q := dnsmsg.NewQuestion()
				q.Name, q.Type, q.Class = nameBuf(name), dnsmsg.TypeA, dnsmsg.ClassINET
				if k := rr.Intn(6); k < 2 {
					// negative answers are stored set-if-absent: repeated stores of one key are rejected
					name = wireLabels([]byte(fmt.Sprintf("n%d", rr.Intn(40))), []byte("cache"))
					dnsmsg.ReleaseName(q.Name)
					q.Name = nameBuf(name)
					resp := dnsmsg.NewMsg()
					resp.Header.Response = true
					resp.Header.RCode = dnsmsg.RCodeNameError
					resp.Questions = append(resp.Questions, q.Copy())
					v.CacheStore(q, netipAddrNone, resp)
					dnsmsg.ReleaseMsg(resp)
				} else if k < 4 {
					resp := dnsmsg.NewMsg()
					resp.Header.Response = true
					resp.Questions = append(resp.Questions, q.Copy())
					a := dnsmsg.NewA()
					a.Name = nameBuf(name)
					a.Type, a.Class, a.TTL = dnsmsg.TypeA, dnsmsg.ClassINET, 30
					a.A = answerFor(name, 1, 1)
					resp.Answers = append(resp.Answers, a)
					v.CacheStore(q, netipAddrNone, resp)
					dnsmsg.ReleaseMsg(resp)
				} else {
					m, _, _ := v.CacheGet(q, netipAddrPortNone)
					if m != nil {
						ok := len(m.Answers) == 1 && len(m.Questions) == 1 && string(m.Questions[0].Name) == string(name)
						if ok {
							if a, isA := m.Answers[0].(*dnsmsg.A); !isA || a.A != answerFor(name, 1, 1) {
								ok = false
							}
						}
						if !ok {
							cmu.Lock()
							corrupt++
							cmu.Unlock()
						}
						dnsmsg.ReleaseMsg(m)
					}
				}
				dnsmsg.ReleaseQuestion(q)
			}
		}()
	}
	wg.Wait()
	return corrupt
}

// scenario stress: the mixstress load (all listeners, real upstream transports, small cache).
func ownStress(seed int64, per, clients int) int {
	out := runMixStress(fmt.Sprintf("rounds=1 per=%d clients=%d cache=1 seed=%d", per, clients, seed))
	m := kv(out)
	n := atoi(m["sent"])
	if out == "fixture-error" {
		return -1
	}
	bad := 0
	for _, k := range []string{"answered", "once", "idok", "own", "rcodeok"} {
		if atoi(m[k]) != n {
			bad += n - atoi(m[k])
		}
	}
	if bad < 0 {
		bad = -bad
	}
	return bad
}

// scenario handlemix: the concurrent handler load of C04 (small cache, unsupported queries mixed in): pooled
// objects (messages, questions) that are released twice or used after release show up as wrong responses.
func ownHandleMix(seed int64, per int) int {
	out := runHandleMix(fmt.Sprintf("workers=16 per=%d names=300 notimp=20 seed=%d", per, seed))
	m := kv(out)
	if out == "fixture-error" {
		return -1
	}
	n := atoi(m["sent"])
	bad := 0
	for _, k := range []string{"answered", "idok", "own", "rcodeok"} {
		if d := n - atoi(m[k]); d > bad {
			bad = d
		}
	}
	return bad
}

// scenario prefetch: cache hits inside the refresh window; the background refresh must ask the upstream for the
// client's own question (it works on a copy taken before the handler releases the pooled question).
func ownPrefetch(seed int64, n int) int {
	cfg := &router.Config{}
	cfg.Upstreams = []router.UpstreamConfig{{Tag: "u0", Addr: "udp://127.0.0.1:9"}}
	cfg.Rules = []router.RuleConfig{{Forward: "u0"}}
	cfg.Cache.MemSize = 1 << 20
	v, err := router.VerifRun(cfg)
	if err != nil {
		return -1
	}
	defer v.Close()
	up := &scriptUp{perName: map[string]int{}}
	v.SetUpstream("u0", up)
	asked := map[string]bool{}
	for i := 0; i < n; i++ {
		name := wireLabels([]byte(fmt.Sprintf("ok%d-%d", seed%1000, i)), []byte("pf"))
		asked[string(name)] = true
		lq := dnsmsg.NewQuestion()
		lq.Name, lq.Type, lq.Class = nameBuf(name), dnsmsg.TypeA, dnsmsg.ClassINET
		resp := dnsmsg.NewMsg()
		resp.Header.Response = true
		resp.Questions = append(resp.Questions, lq.Copy())
		a := dnsmsg.NewA()
		a.Name = nameBuf(name)
		a.Type, a.Class, a.TTL = dnsmsg.TypeA, dnsmsg.ClassINET, 300
		a.A = answerFor(name, 1, 1)
		resp.Answers = append(resp.Answers, a)
		now := time.Now()
		v.CacheStoreAt(lq, netipAddrNone, resp, now.Add(-10*time.Second), now.Add(2*time.Second))
		dnsmsg.ReleaseMsg(resp)
		dnsmsg.ReleaseQuestion(lq)
	}
	time.Sleep(50 * time.Millisecond)
	var wg sync.WaitGroup
	for i := 0; i < n; i++ {
		wg.Add(1)
		go func(i int) {
			defer wg.Done()
			name := wireLabels([]byte(fmt.Sprintf("ok%d-%d", seed%1000, i)), []byte("pf"))
			q := dnsmsg.NewMsg()
			q.Header.ID, q.Header.RecursionDesired = uint16(i), true
			qq := dnsmsg.NewQuestion()
			qq.Name, qq.Type, qq.Class = nameBuf(name), dnsmsg.TypeA, dnsmsg.ClassINET
			q.Questions = append(q.Questions, qq)
			resp, _, _, _ := v.Handle(q, netip.AddrPort{}, netip.AddrPort{})
			if resp != nil {
				dnsmsg.ReleaseMsg(resp)
			}
			dnsmsg.ReleaseMsg(q)
		}(i)
	}
	wg.Wait()
	time.Sleep(300 * time.Millisecond)
	corrupt := 0
	up.mu.Lock()
	for name := range up.perName {
		if !asked[name] {
			corrupt++ // the upstream was asked for a question no client asked
		}
	}
	up.mu.Unlock()
	return corrupt
}

// scenario cachehot: many writers keep REPLACING the entries of a few hot keys (each replacement releases the old
// entry's buffer) while many readers read the raw stored bytes of the same keys. Bytes handed to a reader must
// be a stored value of that key: decodable and carrying that key's answer (a reader that copies a buffer the
// cache has already released sees poison or another key's value).
func ownCacheHot(seed int64, ops int) int {
	cfg := &router.Config{}
	cfg.Cache.MemSize = 256 * 1024
	v, err := router.VerifRun(cfg)
	if err != nil {
		return -1
	}
	defer v.Close()
	const hot = 24
	names := make([][]byte, hot)
	for i := range names {
		names[i] = wireLabels([]byte(fmt.Sprintf("h%02d", i)), []byte("hot"))
	}
	mkq := func(name []byte) *dnsmsg.Question {
		q := dnsmsg.NewQuestion()
		q.Name, q.Type, q.Class = nameBuf(name), dnsmsg.TypeA, dnsmsg.ClassINET
		return q
	}
	var corrupt atomic.Int64
	var wg sync.WaitGroup
	stop := make(chan struct{})
	for g := 0; g < 12; g++ {
		wg.Add(1)
		rr := rand.New(rand.NewSource(seed + int64(g)))
		go func() {
			defer wg.Done()
			for i := 0; i < ops; i++ {
				name := names[rr.Intn(hot)]
				q := mkq(name)
				resp := dnsmsg.NewMsg()
				resp.Header.Response = true
				resp.Questions = append(resp.Questions, q.Copy())
				a := dnsmsg.NewA()
				a.Name = nameBuf(name)
				a.Type, a.Class, a.TTL = dnsmsg.TypeA, dnsmsg.ClassINET, 30
				a.A = answerFor(name, 1, 1)
				resp.Answers = append(resp.Answers, a)
				v.CacheStore(q, netipAddrNone, resp)
				dnsmsg.ReleaseMsg(resp)
				dnsmsg.ReleaseQuestion(q)
			}
		}()
	}
	var rwg sync.WaitGroup
	for g := 0; g < 24; g++ {
		rwg.Add(1)
		rr := rand.New(rand.NewSource(seed + 1000 + int64(g)))
		go func() {
			defer rwg.Done()
			for {
				select {
				case <-stop:
					return
				default:
				}
				name := names[rr.Intn(hot)]
				q := mkq(name)
				raw := v.CacheGetRaw(q, netipAddrNone)
				dnsmsg.ReleaseQuestion(q)
				if raw == nil {
					continue
				}
				m, err := router.VerifUnpackCacheMsg(raw)
				pool.ReleaseBuf(raw)
				ok := err == nil && len(m.Answers) == 1 && len(m.Questions) == 1 && string(m.Questions[0].Name) == string(name)
				if ok {
					if a, isA := m.Answers[0].(*dnsmsg.A); !isA || a.A != answerFor(name, 1, 1) {
						ok = false
					}
				}
				if m != nil {
					dnsmsg.ReleaseMsg(m)
				}
				if !ok {
					corrupt.Add(1)
				}
			}
		}()
	}
	wg.Wait()
	close(stop)
	rwg.Wait()
	return int(corrupt.Load())
}

// scenario malformed: undecodable messages (record header parses, RDATA does not; lying RDLENGTH; cut inside a
// record) interleaved with valid ones. Error paths must release every pooled object exactly once: a valid message
// decoded afterwards must still read back as itself.
func ownMalformed(seed int64, n int) int {
	r := rand.New(rand.NewSource(seed))
	corrupt := 0
	for i := 0; i < n; i++ {
		g := newMsgGen(r)
		txt := g.msg()
		mm := parseMsg(txt)
		buf := make([]byte, mm.Len())
		k, err := mm.Pack(buf, false, 0)
		want := msgText(mm)
		dnsmsg.ReleaseMsg(mm)
		if err != nil || k < 13 {
			continue
		}
		w := buf[:k]
		// a few broken variants of w
		for j := 0; j < 3; j++ {
			b := append([]byte(nil), w...)
			switch r.Intn(3) {
			case 0:
				b = b[:12+r.Intn(len(b)-12)]
			case 1:
				p := 12 + r.Intn(len(b)-12)
				b[p] = byte(r.Intn(256))
			default: // shorten the message by a few octets at the end: the last record's RDATA is cut
				cut := 1 + r.Intn(4)
				if cut < len(b)-12 {
					b = b[:len(b)-cut]
				}
			}
			if bm, err := dnsmsg.UnpackMsg(b); err == nil {
				dnsmsg.ReleaseMsg(bm)
			}
		}
		m2, err := dnsmsg.UnpackMsg(w)
		if err != nil {
			corrupt++
			continue
		}
		m3, err3 := dnsmsg.UnpackMsg(w) // two live copies of the same names at once
		if msgText(m2) != want || err3 != nil || msgText(m3) != want {
			corrupt++
		}
		dnsmsg.ReleaseMsg(m2)
		if m3 != nil {
			dnsmsg.ReleaseMsg(m3)
		}
	}
	return corrupt
}

// scenario dohcancel: a DoH upstream whose round trip is still pending when the caller's context ends. The worker
// goroutine of the transport outlives the call by design; whatever it (and net/http) still reads must not have
// been released by the returning caller. Other requests take and return buffers of all size classes in between;
// the round tripper then checks the request it was given.
type gateRT struct {
	gate chan struct{}
	mu   sync.Mutex
	seen []string
}

func (g *gateRT) RoundTrip(req *http.Request) (*http.Response, error) {
	<-g.gate
	g.mu.Lock()
	g.seen = append(g.seen, req.URL.RawQuery)
	g.mu.Unlock()
	return nil, errors.New("scripted: no reply")
}

func ownDohCancel(seed int64, n int) int {
	r := rand.New(rand.NewSource(seed))
	corrupt := 0
	for i := 0; i < n; i++ {
		rt := &gateRT{gate: make(chan struct{})}
		tr, err := transport.NewDoHTransport(transport.DoHTransportOpts{EndPointUrl: "https://doh.test/dns-query", RoundTripper: rt})
		if err != nil {
			return -1
		}
		k := 1 + r.Intn(3)
		want := map[string]bool{}
		var wg sync.WaitGroup
		for j := 0; j < k; j++ {
			name := wireLabels([]byte(fmt.Sprintf("d%d-%d-%s", i, j, strings.Repeat("x", r.Intn(40)))), []byte("doh"))
			q := buildQuery(uint16(r.Intn(65536)), name, 1, r.Intn(2) == 0, 1232)
			z := append([]byte(nil), q...)
			z[0], z[1] = 0, 0
			want["dns="+base64.RawURLEncoding.EncodeToString(z)] = true
			wg.Add(1)
			dl := time.Duration(1+r.Intn(5)) * time.Millisecond
			go func() {
				defer wg.Done()
				ctx, cancel := context.WithTimeout(context.Background(), dl)
				defer cancel()
				tr.ExchangeContext(ctx, q)
			}()
		}
		wg.Wait() // every caller has given up
		// other requests use the pool
		var bufs []pool.Buffer
		for _, sz := range []int{16, 40, 64, 100, 128, 200, 256, 400, 512, 1024} {
			b := pool.GetBuf(sz)
			for x := range b {
				b[x] = 'X'
			}
			bufs = append(bufs, b)
		}
		for _, b := range bufs {
			pool.ReleaseBuf(b)
		}
		close(rt.gate)
		deadline := time.Now().Add(2 * time.Second)
		for time.Now().Before(deadline) {
			rt.mu.Lock()
			done := len(rt.seen) == k
			rt.mu.Unlock()
			if done {
				break
			}
			time.Sleep(time.Millisecond)
		}
		rt.mu.Lock()
		if len(rt.seen) != k {
			corrupt++
		}
		for _, s := range rt.seen {
			if !want[s] {
				corrupt++
			}
		}
		rt.mu.Unlock()
		tr.Close()
	}
	return corrupt
}

// scenario staleretry: a one-at-a-time tcp upstream whose server closes the connection after every reply, so every
// later exchange first picks a dead pooled connection, fails on it and retries on a new one. The retry path must
// neither reuse a buffer it has released nor release one twice; every caller gets its own answer with its own id.
func ownStaleRetry(seed int64, n int) int {
	l, err := net.Listen("tcp", "127.0.0.1:0")
	if err != nil {
		return -1
	}
	defer l.Close()
	go func() {
		for {
			c, err := l.Accept()
			if err != nil {
				return
			}
			go func() {
				defer c.Close()
				q, err := readFrame(c)
				if err != nil {
					return
				}
				m, err := dnsmsg.UnpackMsg(q)
				if err != nil || len(m.Questions) != 1 {
					return
				}
				defer dnsmsg.ReleaseMsg(m)
				r := dnsmsg.NewMsg()
				defer dnsmsg.ReleaseMsg(r)
				r.Header.ID, r.Header.Response = m.Header.ID, true
				r.Questions = append(r.Questions, m.Questions[0].Copy())
				a := dnsmsg.NewA()
				a.Name = nameBuf(m.Questions[0].Name)
				a.Type, a.Class, a.TTL = dnsmsg.TypeA, dnsmsg.ClassINET, 30
				a.A = answerFor(m.Questions[0].Name, 1, 1)
				r.Answers = append(r.Answers, a)
				b := make([]byte, r.Len())
				k, _ := r.Pack(b, false, 0)
				c.Write(frame(b[:k]))
				time.Sleep(2 * time.Millisecond) // one query per connection
			}()
		}
	}()
	up, err := upstream.NewUpstream("tcp://"+l.Addr().String(), upstream.Opt{})
	if err != nil {
		return -1
	}
	defer up.Close()
	r := rand.New(rand.NewSource(seed))
	var corrupt atomic.Int64
	for i := 0; i < n; i++ {
		par := 1 + r.Intn(4)
		var wg sync.WaitGroup
		for j := 0; j < par; j++ {
			name := wireLabels([]byte(fmt.Sprintf("s%d-%d", i, j)), []byte("stale"))
			id := uint16(r.Intn(65536))
			wg.Add(1)
			go func() {
				defer wg.Done()
				q := buildQuery(id, name, 1, false, 0)
				ctx, cancel := context.WithTimeout(context.Background(), 2*time.Second)
				defer cancel()
				m, err := up.ExchangeContext(ctx, q)
				if err != nil || m == nil {
					corrupt.Add(1) // a healthy server is reachable: the exchange must survive the stale connection
					return
				}
				ok := m.Header.ID == id && len(m.Questions) == 1 && string(m.Questions[0].Name) == string(name) && len(m.Answers) == 1
				if ok {
					if a, isA := m.Answers[0].(*dnsmsg.A); !isA || a.A != answerFor(name, 1, 1) {
						ok = false
					}
				}
				if !ok {
					corrupt.Add(1)
				}
				dnsmsg.ReleaseMsg(m)
			}()
		}
		wg.Wait()
		time.Sleep(5 * time.Millisecond) // let the server close the pooled connections
	}
	return int(corrupt.Load())
}

func runOwnership(cs string) string {
	m := kv(cs)
	seed := int64(atoi(m["seed"]))
	pool.VerifPoison(true, 3000)
	defer pool.VerifPoison(false, 0)
	corrupt := 0
	switch m["scenario"] {
	case "cancel":
		corrupt = ownCancel(seed)
	case "cache":
		corrupt = ownCache(seed)
	case "stress":
		corrupt = ownStress(seed, atoi(m["per"]), atoi(m["clients"]))
	case "handlemix":
		corrupt = ownHandleMix(seed, atoi(m["per"]))
	case "prefetch":
		corrupt = ownPrefetch(seed, atoi(m["n"]))
	case "dohcancel":
		corrupt = ownDohCancel(seed, atoi(m["n"]))
	case "staleretry":
		corrupt = ownStaleRetry(seed, atoi(m["n"]))
	case "redisstall":
		corrupt = ownRedisStall(seed, atoi(m["n"]))
	case "cachehot":
		corrupt = ownCacheHot(seed, atoi(m["ops"]))
	case "malformed":
		corrupt = ownMalformed(seed, atoi(m["n"]))
	default:
		return "bad-case"
	}
	if corrupt < 0 {
		return "fixture-error"
	}
	time.Sleep(20 * time.Millisecond)
	return poolReport(corrupt)
}

func genOwnership(r *rand.Rand, thorough bool, emit func(c, cat string)) {
	n := 1
	per, clients := 20, 2
	if thorough {
		n, per, clients = 4, 60, 4
	}
	for i := 0; i < n; i++ {
		emit(fmt.Sprintf("scenario=cancel seed=%d", r.Intn(1<<30)), "cancel")
		emit(fmt.Sprintf("scenario=cache seed=%d", r.Intn(1<<30)), "cache")
		emit(fmt.Sprintf("scenario=stress per=%d clients=%d seed=%d", per, clients, r.Intn(1<<30)), "stress")
		emit(fmt.Sprintf("scenario=handlemix per=%d seed=%d", per*100, r.Intn(1<<30)), "handlemix")
		emit(fmt.Sprintf("scenario=prefetch n=%d seed=%d", per*10, r.Intn(1<<30)), "prefetch")
		emit(fmt.Sprintf("scenario=cachehot ops=%d seed=%d", per*150, r.Intn(1<<30)), "cachehot")
		emit(fmt.Sprintf("scenario=malformed n=%d seed=%d", per*15, r.Intn(1<<30)), "malformed")
		emit(fmt.Sprintf("scenario=dohcancel n=%d seed=%d", per*2, r.Intn(1<<30)), "dohcancel")
		emit(fmt.Sprintf("scenario=staleretry n=%d seed=%d", per, r.Intn(1<<30)), "staleretry")
		emit(fmt.Sprintf("scenario=redisstall n=%d seed=%d", per*300, r.Intn(1<<30)), "redisstall")
	}
}

var netipAddrNone netip.Addr
var netipAddrPortNone netip.AddrPort

var _ = binary.BigEndian
var _ = io.EOF

func init() {
	register("ownership", &component{gen: genOwnership, run: runOwnership})
}
