package main

// C07 / component "cachekey": the real router.cacheKey (through VerifCacheKey), called after the
// size class of the buffer it is going to get from the pool has been dirtied.
//
// case: n1=<hex> c1=<n> t1=<n> m1=<hex> n2=<hex> c2=<n> t2=<n> m2=<hex> lower=<0|1> d=<n>
//   (n = wire name without the terminating zero; m = group label; lower=1: dnsmsg.ToLowerName is applied
//    to a copy of the name first, as handleReqMsg does; d = dirt byte)
// out : k1=<hex> k1b=<hex> k2=<hex>
//   k1  = key(q1,m1) after the pool was dirtied with d, k1b = the same query after dirtying with ^d,
//   k2  = key(q2,m2) after dirtying with d.

import (
	"fmt"
	"math/rand"

	"github.com/IrineSistiana/mosproxy/app/router"
	"github.com/IrineSistiana/mosproxy/internal/dnsmsg"
	"github.com/IrineSistiana/mosproxy/internal/pool"
)

// c07dirty fills several pooled buffers of the size class `size` with d and puts them back, so
// that the next GetBuf(size) on this goroutine returns an array full of d.
func c07dirty(size int, d byte) {
	if size <= 0 {
		return
	}
	var bs []pool.Buffer
	for i := 0; i < 4; i++ {
		b := pool.GetBuf(size)
		full := b[:cap(b)]
		for j := range full {
			full[j] = d
		}
		bs = append(bs, b)
	}
	for _, b := range bs {
		pool.ReleaseBuf(b)
	}
}

func c07key(name []byte, class, typ int, mark string, lower bool, d byte) []byte {
	n := append([]byte(nil), name...)
	if lower {
		dnsmsg.ToLowerName(n) // error ignored, as in handleReqMsg
	}
	q := &dnsmsg.Question{Name: n, Class: dnsmsg.Class(class), Type: dnsmsg.Type(typ)}
	c07dirty(len(n)+1+4+len(mark), d)
	k := router.VerifCacheKey(q, mark)
	out := append([]byte(nil), k...)
	pool.ReleaseBuf(k)
	return out
}

func c07keyRun(cs string) string {
	m := kv(cs)
	lower := m["lower"] == "1"
	d := byte(atoi(m["d"]))
	n1, n2 := unhex(m["n1"]), unhex(m["n2"])
	m1, m2 := string(unhex(m["m1"])), string(unhex(m["m2"]))
	k1 := c07key(n1, atoi(m["c1"]), atoi(m["t1"]), m1, lower, d)
	k1b := c07key(n1, atoi(m["c1"]), atoi(m["t1"]), m1, lower, ^d)
	k2 := c07key(n2, atoi(m["c2"]), atoi(m["t2"]), m2, lower, d)
	return fmt.Sprintf("k1=%s k1b=%s k2=%s", hexs(k1), hexs(k1b), hexs(k2))
}

// ---- generators shared by the C07 components

const c07labelChars = "abcdefghijklmnopqrstuvwxyzABCDEFGHIJKLMNOPQRSTUVWXYZ0123456789-_"

// c07name: a valid wire name (labels of 1..63 octets, at most maxLen octets in total).
func c07name(r *rand.Rand, maxLen int) []byte {
	var n []byte
	labels := r.Intn(5)
	if r.Intn(12) == 0 {
		labels = 0 // the root
	}
	for i := 0; i < labels; i++ {
		l := 1 + r.Intn(8)
		switch r.Intn(10) {
		case 0:
			l = 63
		case 1:
			l = 1
		}
		if len(n)+1+l > maxLen {
			break
		}
		n = append(n, byte(l))
		for j := 0; j < l; j++ {
			switch r.Intn(20) {
			case 0:
				n = append(n, byte(r.Intn(256))) // any octet, incl. 0 and length-like values
			case 1:
				n = append(n, byte(r.Intn(4))) // small values that look like label lengths / the terminator
			default:
				n = append(n, c07labelChars[r.Intn(len(c07labelChars))])
			}
		}
	}
	return n
}

func c07flipCase(r *rand.Rand, n []byte) []byte {
	o := append([]byte(nil), n...)
	i := 0
	for i < len(o) {
		l := int(o[i])
		for j := i + 1; j <= i+l && j < len(o); j++ {
			c := o[j]
			if r.Intn(2) == 0 {
				if 'a' <= c && c <= 'z' {
					o[j] = c - 32
				} else if 'A' <= c && c <= 'Z' {
					o[j] = c + 32
				}
			}
		}
		i += l + 1
	}
	return o
}

func c07u16(r *rand.Rand) int {
	switch r.Intn(8) {
	case 0:
		return []int{0, 1, 3, 4, 255, 256, 257, 0x0161, 0xffff, 0xff00, 0x00ff, 28, 5, 15, 16, 65}[r.Intn(16)]
	case 1:
		return r.Intn(65536)
	case 2:
		return (1 + r.Intn(63)) << 8 // high octet looks like a label length
	case 3:
		return r.Intn(256)
	default:
		return []int{1, 1, 1, 28, 5, 15, 16, 255}[r.Intn(8)]
	}
}

func c07mark(r *rand.Rand) []byte {
	switch r.Intn(6) {
	case 0, 1:
		return nil
	case 2:
		return []byte{0, 1, byte('a' + r.Intn(26))}
	case 3:
		b := make([]byte, 1+r.Intn(6))
		for i := range b {
			b[i] = byte(r.Intn(256))
		}
		return b
	default:
		return []byte([]string{"lan", "wan", "cn", "eu", "a", "ab", "office-1", "x,y"}[r.Intn(8)])
	}
}

func c07keyCase(n1 []byte, c1, t1 int, m1 []byte, n2 []byte, c2, t2 int, m2 []byte, lower bool, d int) string {
	return fmt.Sprintf("n1=%s c1=%d t1=%d m1=%s n2=%s c2=%d t2=%d m2=%s lower=%s d=%d",
		hexs(n1), c1, t1, hexs(m1), hexs(n2), c2, t2, hexs(m2), b2s(lower), d)
}

func c07keyGen(r *rand.Rand, thorough bool, emit func(c, cat string)) {
	n := 3000
	if thorough {
		n = 60000
	}
	for i := 0; i < n; i++ {
		n1 := c07name(r, 200)
		c1, t1, m1 := c07u16(r), c07u16(r), c07mark(r)
		n2, c2, t2, m2 := append([]byte(nil), n1...), c1, t1, append([]byte(nil), m1...)
		lower := r.Intn(2) == 0
		d := []int{0xee, 0x00, 0xff, 0x01, 0x61, r.Intn(256)}[r.Intn(6)]
		cat := "same"
		switch r.Intn(14) {
		case 0: // identical
		case 1: // name differs in case only
			n2 = c07flipCase(r, n1)
			cat = "case-only"
		case 2: // one octet of the name differs
			if len(n1) > 1 {
				j := 1 + r.Intn(len(n1)-1)
				// keep the name well formed: only touch label content
				n2 = append([]byte(nil), n1...)
				if !c07isLenPos(n1, j) {
					n2[j] ^= byte(1 << uint(r.Intn(8)))
				}
			}
			cat = "name-octet"
		case 3: // class differs
			c2 = c07u16(r)
			cat = "class"
		case 4: // class differs in exactly one octet
			if r.Intn(2) == 0 {
				c2 = c1 ^ (1 << uint(r.Intn(8)))
			} else {
				c2 = c1 ^ (1 << uint(8+r.Intn(8)))
			}
			cat = "class-bit"
		case 5: // type differs
			t2 = c07u16(r)
			cat = "type"
		case 6:
			t2 = t1 ^ (1 << uint(r.Intn(16)))
			cat = "type-bit"
		case 7: // group differs
			m2 = c07mark(r)
			cat = "mark"
		case 8: // class and type swapped
			c2, t2 = t1, c1
			cat = "swap"
		case 9: // a label moved between the name and the class (the D21 shape)
			x := c07labelChars[r.Intn(26)]
			cc, tt, mm := c07u16(r), c07u16(r), c07mark(r)
			n2 = append(append([]byte(nil), n1...), 1, x)
			c2, t2, m2 = cc, tt, mm
			c1, t1 = 0x0100|int(x), cc
			m1 = append([]byte{byte(tt >> 8), byte(tt)}, mm...)
			cat = "d21-shape"
		case 10: // the last label of the name moved into the mark side / name prefix
			n2 = c07name(r, 200)
			cat = "other-name"
		case 11: // name is a prefix of the other one
			extra := c07name(r, 40)
			n2 = append(append([]byte(nil), n1...), extra...)
			cat = "name-prefix"
		case 12: // mark bytes shifted into the type / zero label tricks
			m2 = append([]byte{0}, m1...)
			cat = "mark-zero-prefix"
		case 13: // everything random
			n2, c2, t2, m2 = c07name(r, 200), c07u16(r), c07u16(r), c07mark(r)
			cat = "random"
		}
		if len(n2) > 254 {
			n2 = n2[:0]
		}
		emit(c07keyCase(n1, c1, t1, m1, n2, c2, t2, m2, lower, d), cat)
	}
}

// c07isLenPos reports whether index j of the wire name n is a label length octet.
func c07isLenPos(n []byte, j int) bool {
	i := 0
	for i < len(n) {
		if i == j {
			return true
		}
		i += int(n[i]) + 1
	}
	return false
}

func init() {
	register("cachekey", &component{gen: c07keyGen, run: c07keyRun})
}
