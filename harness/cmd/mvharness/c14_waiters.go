package main

// C14 component "waiters": several exchanges wait on ONE pipelined connection of a REAL transport
// built by upstream.NewUpstream when the server kills it.
//
//   case : tr=<tcp+pipeline|tls+pipeline|udp> kill=<fin|rst|gar|close> next=<ok|refuse> fresh=1,0,0,… dl=<ms>
//     waiter 0 is started alone (it dials: fresh), the others once its query has reached the server
//     (they find the busy connection in the pool); when the last query has arrived the server kills
//     the connection (udp: closes its socket). next=ok: it keeps serving new connections and now
//     answers; next=refuse: nothing listens any more.
//   out  : res=<o|e per waiter> woke=<all returned within deadline/2 of the kill> t=<class of the
//          slowest return, measured from the kill> leak=<n> ## slowest=<ms>

import (
	"context"
	"crypto/tls"
	"fmt"
	"math/rand"
	"strings"
	"sync"
	"time"

	"github.com/IrineSistiana/mosproxy/internal/upstream"
	"github.com/miekg/dns"
)

type c14wres struct {
	ok   bool
	done time.Time
}

func c14waitersOnce(m map[string]string) string {
	tr, kill, next := m["tr"], m["kill"], m["next"]
	n := len(strings.Split(m["fresh"], ","))
	dl := atoi(m["dl"])
	res := make([]c14wres, n)
	var rmu sync.Mutex
	var wg sync.WaitGroup
	var up upstream.Upstream
	var killedAt func() time.Time
	var leaks func() int
	var cleanup func()
	var waitSeen func(i int) bool
	var udpKill func()
	start := func(i int) {
		wg.Add(1)
		go func() {
			defer wg.Done()
			ctx, cancel := context.WithTimeout(context.Background(), time.Duration(dl)*time.Millisecond)
			defer cancel()
			ok := c14do(up, ctx, c14query("hold", i))
			rmu.Lock()
			res[i] = c14wres{ok, time.Now()}
			rmu.Unlock()
		}()
	}

	if tr == "udp" {
		pc := c14listenUDP()
		var err error
		var mu sync.Mutex
		seen := map[int]bool{}
		var kt time.Time
		go func() {
			buf := make([]byte, 4096)
			for {
				nn, _, err := pc.ReadFromUDP(buf)
				if err != nil {
					return
				}
				q := new(dns.Msg)
				if q.Unpack(buf[:nn]) != nil {
					continue
				}
				_, i := c14role(q)
				mu.Lock()
				seen[i] = true
				if len(seen) == n-1 {
					// from now on: ICMP port unreachable — which only the NEXT datagram provokes, so the
					// last waiter is started after this (a connected UDP socket learns of its peer's
					// death only by sending)
					mu.Unlock()
					pc.Close()
					return
				}
				mu.Unlock()
			}
		}()
		up, err = upstream.NewUpstream(pc.LocalAddr().String(), upstream.Opt{})
		if err != nil {
			return "setup-failed:newupstream"
		}
		waitSeen = func(i int) bool {
			for k := 0; k < 1500; k++ {
				mu.Lock()
				ok := seen[i]
				mu.Unlock()
				if ok {
					return true
				}
				time.Sleep(2 * time.Millisecond)
			}
			return false
		}
		killedAt = func() time.Time { mu.Lock(); defer mu.Unlock(); return kt }
		udpKill = func() { mu.Lock(); kt = time.Now(); mu.Unlock() }
		leaks = func() int { return 0 }
		cleanup = func() { pc.Close() }
	} else {
		var tlsCfg *tls.Config
		if strings.HasPrefix(tr, "tls") {
			tlsCfg = &tls.Config{Certificates: []tls.Certificate{c14tlsCert()}}
		}
		srv := c14newSrv(tlsCfg)
		srv.killAfterHolds, srv.killHow, srv.answerAfterKill = n, kill, next == "ok"
		var err error
		up, err = upstream.NewUpstream(tr+"://"+srv.addr(), upstream.Opt{TLSConfig: c14clientTLS()})
		if err != nil {
			srv.close()
			return "setup-failed:newupstream"
		}
		waitSeen = func(i int) bool { return srv.waitSeen(fmt.Sprintf("hold%d", i)) != nil }
		killedAt = func() time.Time { srv.mu.Lock(); defer srv.mu.Unlock(); return srv.killedAt }
		leaks = srv.leaks
		cleanup = srv.close
		if next == "refuse" {
			// stop listening once the first connection exists
			defer func() {}()
			origStart := start
			start = func(i int) {
				if i == n-1 && i > 0 {
					srv.stopListening()
				}
				origStart(i)
			}
		}
	}
	defer func() {
		up.Close()
		cleanup()
		c14waitTimeout(&wg, 8*time.Second)
	}()

	start(0)
	if !waitSeen(0) {
		return "setup-failed:first-query"
	}
	if tr == "udp" {
		for i := 1; i < n-1; i++ {
			start(i)
		}
		for i := 1; i < n-1; i++ {
			if !waitSeen(i) {
				return "setup-failed:query"
			}
		}
		time.Sleep(20 * time.Millisecond) // the server's socket is closed by now
		udpKill()
		start(n - 1)
	} else {
		for i := 1; i < n; i++ {
			start(i)
		}
	}
	c14waitTimeout(&wg, time.Duration(dl)*time.Millisecond+c14Slack+c14Hard)
	kt := killedAt()
	if kt.IsZero() {
		return "setup-failed:no-kill"
	}
	var sb strings.Builder
	slowest := time.Duration(0)
	rmu.Lock()
	snap := append([]c14wres(nil), res...)
	rmu.Unlock()
	for _, r := range snap {
		if r.done.IsZero() { // still blocked
			r.done = kt.Add(time.Hour)
		}
		if r.ok {
			sb.WriteByte('o')
		} else {
			sb.WriteByte('e')
		}
		if d := r.done.Sub(kt); d > slowest {
			slowest = d
		}
	}
	t := c14timeClass(slowest, dl)
	return fmt.Sprintf("res=%s woke=%s t=%s leak=%d ## slowest=%dms", sb.String(), b2s(t == "prompt"), t, leaks(), slowest.Milliseconds())
}

func c14waitersExec(cs string) string {
	m := kv(cs)
	o := c14waitersOnce(m)
	if !strings.Contains(o, "t=prompt") {
		o = c14waitersOnce(m)
	}
	return o
}

var c14waitersCache c14cache

func c14waitersRun(cs string) string { return c14waitersCache.run(cs, c14waitersExec) }

func c14waitersGen(r *rand.Rand, thorough bool, emit func(c, cat string)) {
	var cases []c14case
	add := func(tr, kill, next string, n int) {
		fresh := []string{"1"}
		for i := 1; i < n; i++ {
			fresh = append(fresh, "0")
		}
		cases = append(cases, c14case{fmt.Sprintf("tr=%s kill=%s next=%s fresh=%s dl=%d", tr, kill, next, strings.Join(fresh, ","), c14LongDl),
			fmt.Sprintf("%s-%s-%s", tr, kill, next)})
	}
	kills := []string{"fin", "rst", "gar"}
	for _, tr := range []string{"tcp+pipeline", "tls+pipeline"} {
		for _, k := range kills {
			for _, nx := range []string{"ok", "refuse"} {
				if !thorough && r.Intn(2) == 0 && !(k == "fin" && nx == "ok") {
					continue
				}
				add(tr, k, nx, 2+r.Intn(7))
			}
		}
		add(tr, kills[r.Intn(3)], "ok", 40+r.Intn(20)) // many waiters (below the 64 streams of one connection)
		add(tr, kills[r.Intn(3)], "ok", 1)
	}
	add("udp", "close", "refuse", 2+r.Intn(8))
	if thorough {
		for i := 0; i < 120; i++ {
			tr := []string{"tcp+pipeline", "tls+pipeline"}[r.Intn(2)]
			add(tr, kills[r.Intn(3)], []string{"ok", "refuse"}[r.Intn(2)], 1+r.Intn(60))
		}
		add("udp", "close", "refuse", 30)
	}
	var list []string
	for _, c := range cases {
		list = append(list, c.cs)
	}
	c14waitersCache.precompute(list, 6, c14waitersExec)
	for _, c := range cases {
		emit(c.cs, c.cat)
	}
}

func init() {
	register("waiters", &component{gen: c14waitersGen, run: c14waitersRun})
}
