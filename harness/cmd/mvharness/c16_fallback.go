package main

// C16: the real upstream.NewUpstream("127.0.0.1:<port>") (udpWithFallback) against
// a fake UDP server and a fake TCP server sharing one port number.
// case : q=<nonce> u=<err|ok:tag:tc> t=<err|ok:tag:tc>
// out  : res=<err|ok:tag:tc> tcp=<queries seen by the TCP server> tq=<nonce carried by the TCP query|none>

import (
	"context"
	"encoding/binary"
	"fmt"
	"io"
	"math/rand"
	"net"
	"strconv"
	"strings"
	"sync"
	"time"

	"github.com/IrineSistiana/mosproxy/internal/dnsmsg"
	"github.com/IrineSistiana/mosproxy/internal/upstream"
	"github.com/miekg/dns"
)

type c16srv struct {
	mu      sync.Mutex
	u, t    string // scripted outcomes
	tcpSeen []int  // nonces carried by queries seen on TCP
	udpRaw  []byte // last UDP query with the id zeroed
	tcpSame bool
	// close the TCP connection after each reply (a server that serves one query per connection)
	closeAfterReply bool
	slowReply       time.Duration // the TCP server answers this much later
	overlap         int           // queries that arrived on a TCP connection which still owed a reply
	port            int
	uc              *net.UDPConn
	tl              net.Listener
}

var c16 c16srv

func c16reply(q *dns.Msg, leg string) *dns.Msg {
	p := strings.Split(leg, ":")
	r := new(dns.Msg)
	r.SetReply(q)
	tag := atoi(p[1])
	if p[1] == "auto" { // the answer identifies the question it was produced for
		tag = c16nonce(q) & 0xFFFFFF
	}
	r.Truncated = p[2] == "1"
	r.Answer = append(r.Answer, &dns.A{
		Hdr: dns.RR_Header{Name: q.Question[0].Name, Rrtype: dns.TypeA, Class: dns.ClassINET, Ttl: 60},
		A:   net.IPv4(10, byte(tag>>16), byte(tag>>8), byte(tag)),
	})
	return r
}

func c16nonce(q *dns.Msg) int {
	var n int
	if len(q.Question) == 1 {
		fmt.Sscanf(q.Question[0].Name, "q%d.test.", &n)
	}
	return n
}

func c16setup() {
	for {
		tl, err := net.Listen("tcp", "127.0.0.1:0")
		if err != nil {
			panic(err)
		}
		port := tl.Addr().(*net.TCPAddr).Port
		uc, err := net.ListenUDP("udp", &net.UDPAddr{IP: net.IPv4(127, 0, 0, 1), Port: port})
		if err != nil {
			tl.Close()
			continue
		}
		c16.port, c16.uc, c16.tl = port, uc, tl
		break
	}
	go func() { // udp
		buf := make([]byte, 4096)
		for {
			n, addr, err := c16.uc.ReadFromUDP(buf)
			if err != nil {
				return
			}
			q := new(dns.Msg)
			if q.Unpack(buf[:n]) != nil {
				continue
			}
			c16.mu.Lock()
			leg := c16.u
			raw := append([]byte(nil), buf[:n]...)
			raw[0], raw[1] = 0, 0
			c16.udpRaw = raw
			c16.mu.Unlock()
			if leg == "err" {
				continue // silence: the exchange ends with the caller's deadline
			}
			rm := c16reply(q, leg)
			lp := strings.Split(leg, ":")
			if len(lp) > 3 { // "big": a reply of more than 4096 octets; "cut": cut in the middle of a record at 512 octets
				for i := 0; i < 24; i++ {
					rm.Extra = append(rm.Extra, &dns.TXT{Hdr: dns.RR_Header{Name: q.Question[0].Name, Rrtype: dns.TypeTXT, Class: dns.ClassINET, Ttl: 60},
						Txt: []string{strings.Repeat("x", 200)}})
				}
			}
			b, _ := rm.Pack()
			if len(lp) > 3 && strings.HasPrefix(lp[3], "cut") { // "cut": at 512 octets; "cut<N>": at N octets (N >= 12)
				at := 512
				if n, err := strconv.Atoi(lp[3][3:]); err == nil && n >= 12 {
					at = n
				}
				if len(b) > at {
					b = b[:at]
				}
			}
			c16.uc.WriteToUDP(b, addr)
		}
	}()
	go func() { // tcp
		for {
			c, err := c16.tl.Accept()
			if err != nil {
				return
			}
			go func() {
				defer c.Close()
				pending := 0 // queries received on this connection and not yet answered (guarded by c16.mu)
				for {
					var l [2]byte
					if _, err := io.ReadFull(c, l[:]); err != nil {
						return
					}
					b := make([]byte, binary.BigEndian.Uint16(l[:]))
					if _, err := io.ReadFull(c, b); err != nil {
						return
					}
					q := new(dns.Msg)
					if q.Unpack(b) != nil {
						return
					}
					c16.mu.Lock()
					leg := c16.t
					if pending > 0 {
						c16.overlap++ // a second query on a connection that still owes a reply (not a pipelining transport)
					}
					pending++
					slow := c16.slowReply
					c16.tcpSeen = append(c16.tcpSeen, c16nonce(q))
					raw := append([]byte(nil), b...)
					raw[0], raw[1] = 0, 0
					c16.tcpSame = string(raw) == string(c16.udpRaw)
					c16.mu.Unlock()
					if leg == "err" {
						return // close without replying
					}
					if leg == "hang" { // the query is read, no reply ever comes, the connection stays open
						io.Copy(io.Discard, c)
						return
					}
					rb, _ := c16reply(q, leg).Pack()
					out := make([]byte, 2+len(rb))
					binary.BigEndian.PutUint16(out, uint16(len(rb)))
					copy(out[2:], rb)
					if slow > 0 { // the reply comes late; the reader goes on (a second query may arrive meanwhile)
						go func() {
							time.Sleep(slow)
							c.Write(out)
							c16.mu.Lock()
							pending--
							c16.mu.Unlock()
						}()
						continue
					}
					c.Write(out)
					c16.mu.Lock()
					pending--
					c16.mu.Unlock()
					c16.mu.Lock()
					cl := c16.closeAfterReply
					c16.mu.Unlock()
					if cl {
						return
					}
				}
			}()
		}
	}()
}

func c16run(cs string) string {
	m := kv(cs)
	c16.mu.Lock()
	c16.u, c16.t = m["u"], m["t"]
	c16.tcpSeen = nil
	c16.tcpSame = false
	c16.mu.Unlock()

	up, err := upstream.NewUpstream(fmt.Sprintf("127.0.0.1:%d", c16.port), upstream.Opt{})
	if err != nil {
		return "newupstream-error"
	}
	defer up.Close()
	q := new(dns.Msg)
	q.SetQuestion(fmt.Sprintf("q%s.test.", m["q"]), dns.TypeA)
	q.Id = uint16(atoi(m["q"])*7 + 1)
	qb, _ := q.Pack()
	ctx, cancel := context.WithTimeout(context.Background(), 250*time.Millisecond)
	defer cancel()
	r, err := up.ExchangeContext(ctx, qb)
	res := "err"
	if err == nil && r == nil {
		res = "nilnil" // neither a message nor an error
	}
	if err == nil && r != nil {
		tag := -1
		// decode the nonce from the A record through a re-pack (the A type is internal)
		b := make([]byte, r.Len())
		if n, perr := r.Pack(b, false, 0); perr == nil {
			mm := new(dns.Msg)
			if mm.Unpack(b[:n]) == nil && len(mm.Answer) == 1 {
				if a, ok := mm.Answer[0].(*dns.A); ok {
					ip := a.A.To4()
					tag = int(ip[1])<<16 | int(ip[2])<<8 | int(ip[3])
				}
			}
			if r.Header.ID != q.Id {
				tag = -2
			}
		}
		res = fmt.Sprintf("ok:%d:%s", tag, b2s(r.Header.Truncated))
	}
	time.Sleep(2 * time.Millisecond)
	c16.mu.Lock()
	defer c16.mu.Unlock()
	tq := "none"
	if len(c16.tcpSeen) > 0 {
		tq = fmt.Sprint(c16.tcpSeen[0])
		if !c16.tcpSame {
			tq = "0" // the TCP query differs from the UDP query in more than the ID
		}
	}
	return fmt.Sprintf("res=%s tcp=%d tq=%s", res, len(c16.tcpSeen), tq)
}

func c16gen(r *rand.Rand, thorough bool, emit func(c, cat string)) {
	n := 40
	if thorough {
		n = 400
	}
	tag := 1
	legs := func(kind int) string {
		tag++
		switch kind {
		case 0:
			return "err"
		case 1:
			return fmt.Sprintf("ok:%d:0", tag)
		default:
			return fmt.Sprintf("ok:%d:1", tag)
		}
	}
	// all 3x3 combinations first, then random
	q := 1
	for u := 0; u < 3; u++ {
		for t := 0; t < 3; t++ {
			q++
			emit(fmt.Sprintf("q=%d u=%s t=%s", q, legs(u), legs(t)), fmt.Sprintf("u%d-t%d", u, t))
		}
	}
	for i := 0; i < 2+n/40; i++ { // large UDP replies: returned as received; TC replies cut mid-record: retried over TCP
		q = 1 + r.Intn(1<<20)
		tag++
		emit(fmt.Sprintf("q=%d u=ok:%d:0:big t=%s", q, tag, legs(1)), "ubig-t1")
		q = 1 + r.Intn(1<<20)
		tag++
		emit(fmt.Sprintf("q=%d u=ok:%d:1:cut t=%s", q, tag, legs(1)), "ucut-t1")
	}
	// the cut may fall anywhere from the end of the header on (a server with a small limit, a path that cuts
	// datagrams): every length from 12 octets up is a truncated reply and has to be retried over TCP
	for _, at := range []int{12, 13, 29, 100, 511, 513, 12 + r.Intn(500), 12 + r.Intn(500), 513 + r.Intn(3500)} {
		q = 1 + r.Intn(1<<20)
		tag++
		emit(fmt.Sprintf("q=%d u=ok:%d:1:cut%d t=%s", q, tag, at, legs(1)), "ucutN-t1")
	}
	// a reply WITHOUT TC that is cut (undecodable): not a truncated reply — it is dropped, no TCP attempt, the
	// exchange ends with the caller's deadline
	for _, at := range []int{12, 40, 12 + r.Intn(400)} {
		q = 1 + r.Intn(1<<20)
		tag++
		emit(fmt.Sprintf("q=%d u=ok:%d:0:cut%d t=%s", q, tag, at, legs(1)), "ucutN-notc")
	}
	for i := 0; i < 2+n/40; i++ { // a TCP leg that never answers: the caller gets the leg's error at its deadline
		q = 1 + r.Intn(1<<20)
		emit(fmt.Sprintf("q=%d u=%s t=hang", q, legs(2)), "u2-thang")
	}
	for i := 0; i < n; i++ {
		u, t := r.Intn(8), r.Intn(3)
		if u > 2 {
			u = 1 + u%2 // few silent-UDP cases: each costs the 250 ms deadline
		}
		q = 1 + r.Intn(1<<20)
		emit(fmt.Sprintf("q=%d u=%s t=%s", q, legs(u), legs(t)), fmt.Sprintf("u%d-t%d", u, t))
	}
}

// fallbackseq: several truncated queries in a row on ONE upstream; with close=1 the TCP server closes the
// connection after every reply, so the 2nd, 3rd … query finds a stale pooled TCP connection (the leg must retry
// on a fresh one and the caller must still get the TCP reply, not an error and not the truncated message).
// case : seq=<k> par=<p> close=<0|1> gap=<ms> [fail=<f>] q=<nonce>      out : res=<ok|tc|err|wrong>,… (k rounds of p concurrent queries)
func c16runSeq(cs string) string {
	m := kv(cs)
	k, gap, par := atoi(m["seq"]), atoi(m["gap"]), atoi(m["par"])
	if par < 1 {
		par = 1
	}
	c16.mu.Lock()
	c16.closeAfterReply = m["close"] == "1"
	c16.u, c16.t = "ok:auto:1", "ok:auto:0"
	if m["cutat"] != "" { // the truncated replies are cut (undecodable): the header-only stand-in carries the wire id
		c16.u = "ok:auto:1:cut" + m["cutat"]
	}
	c16.mu.Unlock()
	defer func() { c16.mu.Lock(); c16.closeAfterReply = false; c16.mu.Unlock() }()
	up, err := upstream.NewUpstream(fmt.Sprintf("127.0.0.1:%d", c16.port), upstream.Opt{})
	if err != nil {
		return "newupstream-error"
	}
	defer up.Close()
	// warm=<n>: n ordinary exchanges first (complete replies, no TC), so that the wire ids of the UDP socket are
	// beyond one octet when the truncated replies come
	if w := atoi(m["warm"]); w > 0 {
		c16.mu.Lock()
		saveU := c16.u
		c16.u = "ok:auto:0"
		c16.mu.Unlock()
		for i := 0; i < w; i++ {
			q := new(dns.Msg)
			q.SetQuestion(fmt.Sprintf("q%d.test.", 7000000+i), dns.TypeA)
			qb, _ := q.Pack()
			ctx, cancel := context.WithTimeout(context.Background(), time.Second)
			if r, err := up.ExchangeContext(ctx, qb); err == nil && r != nil {
				dnsmsg.ReleaseMsg(r)
			}
			cancel()
		}
		c16.mu.Lock()
		c16.u = saveU
		c16.mu.Unlock()
	}
	long := atoi(m["long"]) // octets of EDNS0 padding in every query (a query of 256 octets or more)
	res := make([]string, k*par)
	fail := atoi(m["fail"]) // during the first `fail` rounds the TCP server closes without replying
	// during the first `giveup` rounds the TCP server answers after 400 ms and the caller's deadline is 150 ms: the
	// caller gets an error; the connection still owes its reply, so the next exchange must not be put on it
	giveup := atoi(m["giveup"])
	c16.mu.Lock()
	c16.overlap = 0
	c16.mu.Unlock()
	for i := 0; i < k; i++ {
		c16.mu.Lock()
		if i < fail {
			c16.t = "err"
		} else {
			c16.t = "ok:auto:0"
		}
		c16.slowReply = 0
		if i < giveup {
			c16.slowReply = 400 * time.Millisecond
		}
		c16.mu.Unlock()
		timeout := 2 * time.Second
		if i < giveup {
			timeout = 150 * time.Millisecond
		}
		var wg sync.WaitGroup
		for j := 0; j < par; j++ {
			idx := i*par + j
			nonce := (atoi(m["q"]) + idx) & 0xFFFFFF
			wg.Add(1)
			go func() {
				defer wg.Done()
				q := new(dns.Msg)
				q.SetQuestion(fmt.Sprintf("q%d.test.", nonce), dns.TypeA)
				q.Id = uint16(0x2222 + idx)
				if long > 0 {
					o := new(dns.OPT)
					o.Hdr.Name, o.Hdr.Rrtype = ".", dns.TypeOPT
					o.SetUDPSize(1232)
					o.Option = append(o.Option, &dns.EDNS0_PADDING{Padding: make([]byte, long)})
					q.Extra = append(q.Extra, o)
				}
				qb, _ := q.Pack()
				ctx, cancel := context.WithTimeout(context.Background(), timeout)
				r, err := up.ExchangeContext(ctx, qb)
				cancel()
				switch {
				case err != nil || r == nil:
					res[idx] = "err"
				case r.Header.Truncated:
					res[idx] = "tc"
				default:
					res[idx] = "ok"
					// the caller's own id, its own question, and the answer produced for that question
					b := make([]byte, r.Len())
					n, perr := r.Pack(b, false, 0)
					mm := new(dns.Msg)
					if perr != nil || mm.Unpack(b[:n]) != nil || len(mm.Answer) != 1 || len(mm.Question) != 1 {
						res[idx] = "wrong"
					} else if a, ok := mm.Answer[0].(*dns.A); !ok || r.Header.ID != q.Id || mm.Question[0].Name != q.Question[0].Name {
						res[idx] = "wrong"
					} else if ip := a.A.To4(); int(ip[1])<<16|int(ip[2])<<8|int(ip[3]) != nonce {
						res[idx] = "wrong"
					}
				}
			}()
		}
		wg.Wait()
		time.Sleep(time.Duration(gap) * time.Millisecond)
	}
	time.Sleep(time.Duration(giveup) * 50 * time.Millisecond)
	c16.mu.Lock()
	ov := c16.overlap
	c16.slowReply = 0
	c16.mu.Unlock()
	return fmt.Sprintf("res=%s ## overlap=%d", strings.Join(res, ","), ov)
}

func c16genSeq(r *rand.Rand, thorough bool, emit func(c, cat string)) {
	n := 4
	if thorough {
		n = 40
	}
	for i := 0; i < n; i++ {
		emit(fmt.Sprintf("seq=%d par=%d close=%d gap=%d q=%d", 2+r.Intn(3), []int{1, 1, 4, 8}[r.Intn(4)], i%2, []int{5, 30, 100}[r.Intn(3)], 1+r.Intn(1<<20)), fmt.Sprintf("close%d", i%2))
	}
	// a TCP leg that fails for a while and then works again: the upstream must try it again for the very next
	// truncated reply (no memory of the failure)
	// cut truncated replies after a few hundred exchanges on the socket (wire ids above 255); queries of 256 octets
	// and more (the TCP frame's length prefix needs both octets)
	emit(fmt.Sprintf("seq=3 par=1 close=0 gap=5 warm=%d cutat=%d q=%d", 260+r.Intn(300), 20+r.Intn(60), 1+r.Intn(1<<20)), "warm-cut")
	emit(fmt.Sprintf("seq=3 par=%d close=%d gap=5 long=%d q=%d", []int{1, 3}[r.Intn(2)], r.Intn(2), 230+r.Intn(300), 1+r.Intn(1<<20)), "long-query")
	// a caller that gives up while the TCP leg's reply is still outstanding: the next truncated query goes to a
	// connection that owes nothing (one-at-a-time connections, C06)
	for i := 0; i < 1+n/20; i++ {
		emit(fmt.Sprintf("seq=%d par=1 close=0 gap=%d giveup=1 q=%d", 2+r.Intn(2), []int{5, 30}[r.Intn(2)], 1+r.Intn(1<<20)), "giveup-then-ok")
	}
	for i := 0; i < 2+n/8; i++ {
		f := 1 + r.Intn(2)
		emit(fmt.Sprintf("seq=%d par=%d close=%d gap=%d fail=%d q=%d", f+1+r.Intn(3), []int{1, 1, 3}[r.Intn(3)], i%2, []int{5, 30, 100}[r.Intn(3)], f, 1+r.Intn(1<<20)), "tcpfail-then-ok")
	}
}

func init() {
	register("fallback", &component{gen: c16gen, run: c16run, setup: c16setup})
	register("fallbackseq", &component{gen: c16genSeq, run: c16runSeq, setup: c16setup})
}
