package main

// Component `handlemix` (C04): many goroutines drive the REAL request handler (router.handleServerReq through the
// verif hook) concurrently on a router with a SMALL memory cache (constant eviction and entry recycling), a scripted
// upstream that answers every question with answerFor(question) after a tiny random delay, a working set larger
// than the cache, hot and cold names, and a sprinkling of unsupported queries (RD=0: answered NOTIMP from the
// query itself). Every response is checked against its own query.
//
// case : workers=<w> per=<queries per worker> names=<working set> notimp=<per mille> seed=<s>
// out  : sent=<n> answered=<n> once=<n> idok=<n> own=<n> rcodeok=<n>

import (
	"fmt"
	"math/rand"
	"net/netip"
	"sync"

	"github.com/IrineSistiana/mosproxy/app/router"
	"github.com/IrineSistiana/mosproxy/internal/dnsmsg"
)

func runHandleMix(cs string) string {
	m := kv(cs)
	workers, per, names, notimp := atoi(m["workers"]), atoi(m["per"]), atoi(m["names"]), atoi(m["notimp"])
	seed := int64(atoi(m["seed"]))
	cfg := &router.Config{}
	cfg.Upstreams = []router.UpstreamConfig{{Tag: "u0", Addr: "udp://127.0.0.1:9"}}
	cfg.Rules = []router.RuleConfig{{Forward: "u0"}}
	cfg.Cache.MemSize = 16 * 1024
	v, err := router.VerifRun(cfg)
	if err != nil {
		return "fixture-error"
	}
	defer v.Close()
	v.SetUpstream("u0", &scriptUp{})
	var cnt stressCounts
	var wg sync.WaitGroup
	for w := 0; w < workers; w++ {
		wg.Add(1)
		r := rand.New(rand.NewSource(seed*7919 + int64(w)))
		go func(w int) {
			defer wg.Done()
			remote := netip.AddrPortFrom(netip.AddrFrom4([4]byte{10, 0, byte(w), 1}), 5353)
			for i := 0; i < per; i++ {
				name := wireLabels([]byte(fmt.Sprintf("ok%d", r.Intn(names))), []byte("mix"))
				id := uint16(r.Intn(65536))
				typ := dnsmsg.Type([]uint16{1, 28}[r.Intn(2)])
				q := dnsmsg.NewMsg()
				q.Header.ID = id
				unsupported := r.Intn(1000) < notimp
				q.Header.RecursionDesired = !unsupported
				qq := dnsmsg.NewQuestion()
				qq.Name, qq.Type, qq.Class = nameBuf(name), typ, dnsmsg.ClassINET
				q.Questions = append(q.Questions, qq)
				resp, _, _, _ := v.Handle(q, remote, netip.AddrPort{})
				cnt.mu.Lock()
				cnt.sent++
				if resp != nil {
					cnt.answered++
					cnt.once++
					if resp.Header.ID == id && resp.Header.Response && resp.Header.RecursionAvailable && resp.Header.RecursionDesired == !unsupported {
						cnt.idok++
					}
					sameQ := len(resp.Questions) == 1 && string(resp.Questions[0].Name) == string(name) && resp.Questions[0].Type == typ
					if unsupported {
						if resp.Header.RCode == dnsmsg.RCodeNotImplemented {
							cnt.rcodeok++
						}
						if sameQ && len(resp.Answers) == 0 {
							cnt.own++
						}
					} else {
						if resp.Header.RCode == dnsmsg.RCodeSuccess {
							cnt.rcodeok++
						}
						if sameQ && len(resp.Answers) == 1 {
							if a, ok := resp.Answers[0].(*dnsmsg.A); ok && a.A == answerFor(name, uint16(typ), 1) && string(a.Name) == string(name) {
								cnt.own++
							}
						}
					}
				}
				cnt.mu.Unlock()
				if resp != nil {
					dnsmsg.ReleaseMsg(resp)
				}
				dnsmsg.ReleaseMsg(q)
			}
		}(w)
	}
	wg.Wait()
	return fmt.Sprintf("sent=%d answered=%d once=%d idok=%d own=%d rcodeok=%d", cnt.sent, cnt.answered, cnt.once, cnt.idok, cnt.own, cnt.rcodeok)
}

func genHandleMix(r *rand.Rand, thorough bool, emit func(c, cat string)) {
	n, per := 2, 4000
	if thorough {
		n, per = 6, 40000
	}
	for i := 0; i < n; i++ {
		emit(fmt.Sprintf("workers=32 per=%d names=%d notimp=%d seed=%d", per, []int{4000, 300}[i%2], []int{10, 0, 50}[i%3], r.Intn(1<<30)), fmt.Sprintf("names%d", []int{4000, 300}[i%2]))
	}
}

func init() {
	register("handlemix", &component{gen: genHandleMix, run: runHandleMix})
}
