package main

// Component `handlemix` (C04): many goroutines drive the REAL request handler (router.handleServerReq through the
// verif hook) concurrently on a router with a SMALL memory cache (constant eviction and entry recycling), a scripted
// upstream that answers every question with answerFor(question) after a tiny random delay, a working set larger
// than the cache, hot and cold names, and a sprinkling of unsupported queries (RD=0: answered NOTIMP from the
// query itself). Every response is checked against its own query.
//
// With classes=1 a tenth of the queries ask for the same names in class CH or HS (the answer depends on the class).
// With malformed=<per mille> a worker now and then decodes a message that the decoder rejects half way through a
// record (RDLENGTH that does not match the encoded name of a CNAME/NS/PTR/MX/SRV/SOA record, a cut message), as a
// listener does with what a client or an upstream sends: the error paths release what they had built, and a release
// too many hands one buffer to two later owners — seen as another query's name or answer in a response.
//
// case : workers=<w> per=<queries per worker> names=<working set> notimp=<per mille> [classes=1] [malformed=<per mille>] seed=<s>
// out  : sent=<n> answered=<n> once=<n> idok=<n> own=<n> rcodeok=<n>

import (
	"fmt"
	"math/rand"
	"net/netip"
	"sync"

	"github.com/IrineSistiana/mosproxy/app/router"
	"github.com/IrineSistiana/mosproxy/internal/dnsmsg"
)

func runHandleMix(cs string) string {
	m := kv(cs)
	workers, per, names, notimp := atoi(m["workers"]), atoi(m["per"]), atoi(m["names"]), atoi(m["notimp"])
	seed := int64(atoi(m["seed"]))
	cfg := &router.Config{}
	cfg.Upstreams = []router.UpstreamConfig{{Tag: "u0", Addr: "udp://127.0.0.1:9"}}
	cfg.Rules = []router.RuleConfig{{Forward: "u0"}}
	cfg.Cache.MemSize = 16 * 1024
	v, err := router.VerifRun(cfg)
	if err != nil {
		return "fixture-error"
	}
	defer v.Close()
	v.SetUpstream("u0", &scriptUp{})
	var cnt stressCounts
	var wg sync.WaitGroup
	classes, malformed := m["classes"] == "1", atoi(m["malformed"])
	for w := 0; w < workers; w++ {
		wg.Add(1)
		r := rand.New(rand.NewSource(seed*7919 + int64(w)))
		go func(w int) {
			defer wg.Done()
			remote := netip.AddrPortFrom(netip.AddrFrom4([4]byte{10, 0, byte(w), 1}), 5353)
			for i := 0; i < per; i++ {
				name := wireLabels([]byte(fmt.Sprintf("ok%d", r.Intn(names))), []byte("mix"))
				id := uint16(r.Intn(65536))
				typ := dnsmsg.Type([]uint16{1, 28}[r.Intn(2)])
				class := dnsmsg.Class(1)
				if classes && r.Intn(10) == 0 {
					class = dnsmsg.Class([]uint16{3, 4}[r.Intn(2)])
				}
				if malformed > 0 && r.Intn(1000) < malformed {
					if bad, err := dnsmsg.UnpackMsg(malformedUnit(r, name)); err == nil {
						dnsmsg.ReleaseMsg(bad)
					}
				}
				q := dnsmsg.NewMsg()
				q.Header.ID = id
				unsupported := r.Intn(1000) < notimp
				q.Header.RecursionDesired = !unsupported
				qq := dnsmsg.NewQuestion()
				qq.Name, qq.Type, qq.Class = nameBuf(name), typ, class
				q.Questions = append(q.Questions, qq)
				resp, _, _, _ := v.Handle(q, remote, netip.AddrPort{})
				cnt.mu.Lock()
				cnt.sent++
				if resp != nil {
					cnt.answered++
					cnt.once++
					if resp.Header.ID == id && resp.Header.Response && resp.Header.RecursionAvailable && resp.Header.RecursionDesired == !unsupported {
						cnt.idok++
					}
					sameQ := len(resp.Questions) == 1 && string(resp.Questions[0].Name) == string(name) && resp.Questions[0].Type == typ && resp.Questions[0].Class == class
					if unsupported {
						if resp.Header.RCode == dnsmsg.RCodeNotImplemented {
							cnt.rcodeok++
						}
						if sameQ && len(resp.Answers) == 0 {
							cnt.own++
						}
					} else {
						if resp.Header.RCode == dnsmsg.RCodeSuccess {
							cnt.rcodeok++
						}
						if sameQ && len(resp.Answers) == 1 {
							if a, ok := resp.Answers[0].(*dnsmsg.A); ok && a.A == answerFor(name, uint16(typ), uint16(class)) && string(a.Name) == string(name) && a.Class == class {
								cnt.own++
							}
						}
					}
				}
				cnt.mu.Unlock()
				if resp != nil {
					dnsmsg.ReleaseMsg(resp)
				}
				dnsmsg.ReleaseMsg(q)
			}
		}(w)
	}
	wg.Wait()
	return fmt.Sprintf("sent=%d answered=%d once=%d idok=%d own=%d rcodeok=%d", cnt.sent, cnt.answered, cnt.once, cnt.idok, cnt.own, cnt.rcodeok)
}

// malformedUnit: a response-shaped message for `name` whose single answer record breaks off inside its RDATA:
// a name-carrying record type with an RDLENGTH one more or one less than its encoded names, or the message cut
// somewhere inside the record.
func malformedUnit(r *rand.Rand, name []byte) []byte {
	b := []byte{byte(r.Intn(256)), byte(r.Intn(256)), 0x81, 0x80, 0, 1, 0, 1, 0, 0, 0, 0}
	b = append(b, name...)
	b = append(b, 0, 0, 1, 0, 1)
	typ := []byte{5, 2, 12, 15, 33, 6}[r.Intn(6)]
	target := append(wireLabels([]byte(fmt.Sprintf("t%d", r.Intn(1000))), []byte("mix")), 0)
	var rd []byte
	switch typ {
	case 15:
		rd = append([]byte{0, 10}, target...)
	case 33:
		rd = append([]byte{0, 1, 0, 2, 0, 53}, target...)
	case 6:
		rd = append(append(append([]byte{}, target...), target...), make([]byte, 20)...)
	default:
		rd = target
	}
	l := len(rd) + []int{1, -1, 2}[r.Intn(3)]
	b = append(b, 0xC0, 12, 0, typ, 0, 1, 0, 0, 0, 60, byte(l>>8), byte(l))
	b = append(b, rd...)
	b = append(b, 0) // room for the record that claims one octet more
	if r.Intn(4) == 0 {
		b = b[:len(b)-1-r.Intn(len(rd))]
	}
	return b
}

func genHandleMix(r *rand.Rand, thorough bool, emit func(c, cat string)) {
	n, per := 2, 4000
	if thorough {
		n, per = 6, 40000
	}
	for i := 0; i < n; i++ {
		emit(fmt.Sprintf("workers=32 per=%d names=%d notimp=%d seed=%d", per, []int{4000, 300}[i%2], []int{10, 0, 50}[i%3], r.Intn(1<<30)), fmt.Sprintf("names%d", []int{4000, 300}[i%2]))
	}
	// the same names in several classes; malformed messages decoded between the queries
	emit(fmt.Sprintf("workers=32 per=%d names=300 notimp=10 classes=1 malformed=20 seed=%d", per, r.Intn(1<<30)), "classes-malformed")
}

func init() {
	register("handlemix", &component{gen: genHandleMix, run: runHandleMix})
}
