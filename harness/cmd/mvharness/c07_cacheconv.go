package main

// C07 / component "cacheconv": the CONVERSE clause — "with ample capacity, a repeat of the query while
// more than one second of the entry's lifetime remains is answered from the cache and not by a new
// upstream exchange on the request path" — on the real router (handleServerReq, cacheCtl, MemoryCache on
// otter) with 256 MiB of capacity.
//
// case: id=<n> cfg=<std|big|maxttl> p=<GOMAXPROCS, 0 = unchanged> ops=<op>;<op>;…
//   cfg: std = mem_size 256 MiB; big = mem_size 4 GiB; maxttl = maximum_ttl 4294967295
//   x,<k>            the entry of key k is replaced by one whose lifetime has just ended (CacheStoreAt, expire = now):
//                    the backend now holds an expired node for k, exactly as after the expiry of a short-ttl answer
//   h,<k>,<r>,<kind> client query for key k through handleServerReq; if the upstream is asked it gives response
//                    number r of kind p (NOERROR, ttl 3600) | n (NXDOMAIN, SOA ttl 600 → 30 s) | f (REFUSED → 5 s) |
//                    t (NOERROR, ttl 1) | q (NOERROR, ttl 5) | m (NOERROR, ttl 2^32-1)
//   s,<k>,<r>,<kind> cacheCtl.Store of such a response (what a prefetch does)
//   g,<k>            cacheCtl.Get
//   w,<n>            n more cache writes (fresh long-lived keys, each checked later by v), then the backend's
//                    write buffer is given time to drain (otter works in batches of 64 tasks)
//   v                every key written by w so far in this case is looked up
//   z,<ms>           sleep
//   r,<k>,<stores>,<getters>  <getters> goroutines query key k through handleServerReq while one goroutine
//                    replaces its entry <stores> times (ttl 3600 each time)
// out: x | s | c:<r> (from cache, upstream not asked) | u:<r> (upstream asked once) | hit:<r> | miss |
//      w | v:<number of w-keys that missed> | z | up:<request-path upstream exchanges during r> | bad

import (
	"fmt"
	"math/rand"
	"net/netip"
	"runtime"
	"strings"
	"sync"
	"sync/atomic"
	"time"

	"github.com/IrineSistiana/mosproxy/app/router"
	"github.com/IrineSistiana/mosproxy/internal/cache"
	"github.com/IrineSistiana/mosproxy/internal/dnsmsg"
)

var c07convRouters = map[string]*c07shared{}
var c07convStart time.Time
var c07convKeep *cache.MemoryCache

func c07convSetup() {
	c07quiet()
	// keeps otter's clock (seconds since the first cache of the process was made) running from now on
	c07convKeep, _ = cache.NewMemoryCache(1 << 20)
	c07convStart = time.Now()
}

func c07convTeardown() {
	for k, s := range c07convRouters {
		s.vr.Close()
		delete(c07convRouters, k)
	}
	if c07convKeep != nil {
		c07convKeep.Close()
		c07convKeep = nil
	}
}

func c07convRouter(cfgName string) (*c07shared, error) {
	if s, ok := c07convRouters[cfgName]; ok {
		return s, nil
	}
	cfg := &router.Config{
		Upstreams: []router.UpstreamConfig{{Tag: "up", Addr: "127.0.0.1:9"}},
		Rules:     []router.RuleConfig{{Forward: "up"}},
		Cache:     router.CacheConfig{MemSize: 256 << 20},
	}
	switch cfgName {
	case "big":
		cfg.Cache.MemSize = 4294967296
	case "maxttl":
		cfg.Cache.MaximumTTL = 4294967295
	}
	vr, err := router.VerifRun(cfg)
	if err != nil {
		return nil, err
	}
	up := &c07upstream{}
	if !vr.SetUpstream("up", up) {
		vr.Close()
		return nil, fmt.Errorf("no upstream")
	}
	s := &c07shared{vr, up}
	c07convRouters[cfgName] = s
	return s, nil
}

// c07conv: response number r of the given kind to question name/IN/A.
func c07conv(r int, name []byte, kind string) *dnsmsg.Msg {
	m := dnsmsg.NewMsg()
	m.Header = dnsmsg.Header{Response: true, RecursionDesired: true, RecursionAvailable: true}
	q := dnsmsg.NewQuestion()
	q.Name, q.Class, q.Type = c07pname(name), dnsmsg.ClassINET, dnsmsg.TypeA
	m.Questions = append(m.Questions, q)
	tag := func(ttl uint32) dnsmsg.Resource {
		a := dnsmsg.NewA()
		a.ResourceHdr = c07hdr(name, dnsmsg.TypeA, dnsmsg.ClassINET, ttl)
		a.A = [4]byte{byte(r >> 24), byte(r >> 16), byte(r >> 8), byte(r)}
		return a
	}
	soa := func() dnsmsg.Resource {
		s := dnsmsg.NewSOA()
		s.ResourceHdr = c07hdr([]byte("\x04test"), dnsmsg.TypeSOA, dnsmsg.ClassINET, 600)
		s.NS, s.MBox = c07pname([]byte("\x02ns\x04test")), c07pname([]byte("\x04root\x04test"))
		s.Serial, s.MinTTL = uint32(r), 600
		return s
	}
	switch kind {
	case "p":
		m.Answers = append(m.Answers, tag(3600))
	case "q":
		m.Answers = append(m.Answers, tag(5))
	case "t":
		m.Answers = append(m.Answers, tag(1))
	case "m":
		m.Answers = append(m.Answers, tag(^uint32(0)))
	case "n":
		m.Header.RCode = dnsmsg.RCodeNameError
		m.Authorities = append(m.Authorities, soa())
	case "f":
		m.Header.RCode = dnsmsg.RCodeRefused
		m.Authorities = append(m.Authorities, soa())
	}
	return m
}

func c07convRun(cs string) string {
	m := kv(cs)
	sh, err := c07convRouter(m["cfg"])
	if err != nil {
		return "router-error"
	}
	if m["cfg"] == "maxttl" {
		// the wrap of the backend's clock needs the clock to be past its first tick
		if d := 1300*time.Millisecond - time.Since(c07convStart); d > 0 {
			time.Sleep(d)
		}
	}
	if p := atoi(m["p"]); p > 0 {
		defer runtime.GOMAXPROCS(runtime.GOMAXPROCS(p))
	}
	vr, up := sh.vr, sh.up
	id := atoi(m["id"])
	client := netip.MustParseAddr("192.0.2.1")
	local := netip.AddrPortFrom(netip.MustParseAddr("127.0.0.1"), 53)
	nameOf := func(k string) []byte {
		l := fmt.Sprintf("c%dk%s", id, k)
		return append(append([]byte{byte(len(l))}, l...), "\x04test"...)
	}
	quest := func(name []byte) *dnsmsg.Question {
		return &dnsmsg.Question{Name: name, Class: dnsmsg.ClassINET, Type: dnsmsg.TypeA}
	}
	fps := map[uint64]string{}
	ttlOf := map[uint64][]uint32{}
	note := func(r int, name []byte, kind string) {
		bm := c07conv(r, name, kind)
		fp := c07fp(bm)
		fps[fp], ttlOf[fp] = fmt.Sprint(r), c07ttls(bm)
		dnsmsg.ReleaseMsg(bm)
	}
	who := func(msg *dnsmsg.Msg) string {
		fp := c07fp(msg)
		r, ok := fps[fp]
		got, orig := c07ttls(msg), ttlOf[fp]
		if !ok || len(got) != len(orig) {
			return "?"
		}
		for i := range got {
			if got[i] > orig[i] || uint64(got[i])+30 < uint64(orig[i]) {
				return "?"
			}
		}
		return r
	}
	handle := func(name []byte, qid uint16) (*dnsmsg.Msg, bool) {
		qm := dnsmsg.NewMsg()
		qm.Header = dnsmsg.Header{ID: qid, RecursionDesired: true}
		qq := dnsmsg.NewQuestion()
		qq.Name, qq.Class, qq.Type = c07pname(name), dnsmsg.ClassINET, dnsmsg.TypeA
		qm.Questions = append(qm.Questions, qq)
		resp, _, cached, _ := vr.Handle(qm, netip.AddrPortFrom(client, 5353), local)
		dnsmsg.ReleaseMsg(qm)
		if resp != nil && resp.Header.ID != qid {
			dnsmsg.ReleaseMsg(resp)
			return nil, false
		}
		return resp, cached
	}
	var fillers [][]byte
	nfill := 0
	var outs []string
	for _, op := range strings.Split(m["ops"], ";") {
		f := strings.Split(op, ",")
		switch f[0] {
		case "x":
			name := nameOf(f[1])
			note(0, name, "p")
			resp := c07conv(0, name, "p")
			now := time.Now()
			vr.CacheStoreAt(quest(name), client, resp, now.Add(-10*time.Second), now)
			dnsmsg.ReleaseMsg(resp)
			outs = append(outs, "x")
		case "s":
			name, r, kind := nameOf(f[1]), atoi(f[2]), f[3]
			note(r, name, kind)
			resp := c07conv(r, name, kind)
			vr.CacheStore(quest(name), client, resp)
			dnsmsg.ReleaseMsg(resp)
			outs = append(outs, "s")
		case "g":
			resp, _, _ := vr.CacheGet(quest(nameOf(f[1])), netip.AddrPortFrom(client, 5353))
			if resp == nil {
				outs = append(outs, "miss")
			} else {
				outs = append(outs, "hit:"+who(resp))
				dnsmsg.ReleaseMsg(resp)
			}
		case "h":
			name, r, kind := nameOf(f[1]), atoi(f[2]), f[3]
			note(r, name, kind)
			up.mu.Lock()
			up.calls = 0
			up.next = func(q *dnsmsg.Question) *dnsmsg.Msg { return c07conv(r, q.Name, kind) }
			up.mu.Unlock()
			resp, cached := handle(name, uint16(r*31+7))
			up.mu.Lock()
			calls := up.calls
			up.mu.Unlock()
			switch {
			case resp == nil:
				outs = append(outs, "bad")
			case cached && calls == 0:
				outs = append(outs, "c:"+who(resp))
			case !cached && calls == 1:
				outs = append(outs, "u:"+who(resp))
			default:
				outs = append(outs, "bad")
			}
			if resp != nil {
				dnsmsg.ReleaseMsg(resp)
			}
		case "w":
			for i, n := 0, atoi(f[1]); i < n; i++ {
				nfill++
				name := nameOf(fmt.Sprintf("w%d", nfill))
				resp := c07conv(0, name, "p")
				now := time.Now()
				vr.CacheStoreAt(quest(name), client, resp, now, now.Add(time.Hour))
				dnsmsg.ReleaseMsg(resp)
				fillers = append(fillers, name)
			}
			// let the backend's worker run its batch (and call the deletion listener)
			for i := 0; i < 4; i++ {
				runtime.Gosched()
				time.Sleep(2 * time.Millisecond)
			}
			outs = append(outs, "w")
		case "v":
			missed := 0
			for _, name := range fillers {
				resp, _, _ := vr.CacheGet(quest(name), netip.AddrPortFrom(client, 5353))
				if resp == nil {
					missed++
				} else {
					dnsmsg.ReleaseMsg(resp)
				}
			}
			outs = append(outs, fmt.Sprintf("v:%d", missed))
		case "z":
			time.Sleep(time.Duration(atoi(f[1])) * time.Millisecond)
			outs = append(outs, "z")
		case "r":
			name, stores, getters := nameOf(f[1]), atoi(f[2]), atoi(f[3])
			note(0, name, "p")
			up.mu.Lock()
			up.calls = 0
			up.next = func(q *dnsmsg.Question) *dnsmsg.Msg { return c07conv(0, q.Name, "p") }
			up.mu.Unlock()
			var stop atomic.Bool
			var wg sync.WaitGroup
			for g := 0; g < getters; g++ {
				wg.Add(1)
				go func(g int) {
					defer wg.Done()
					for i := 0; !stop.Load(); i++ {
						resp, _ := handle(name, uint16(g*1000+i))
						if resp != nil {
							dnsmsg.ReleaseMsg(resp)
						}
					}
				}(g)
			}
			resp := c07conv(0, name, "p")
			for i := 0; i < stores; i++ {
				now := time.Now()
				vr.CacheStoreAt(quest(name), client, resp, now, now.Add(time.Hour))
				if i%64 == 0 {
					runtime.Gosched()
				}
			}
			dnsmsg.ReleaseMsg(resp)
			stop.Store(true)
			wg.Wait()
			up.mu.Lock()
			calls := up.calls
			up.mu.Unlock()
			outs = append(outs, fmt.Sprintf("up:%d", calls))
		default:
			outs = append(outs, "bad")
		}
	}
	return strings.Join(outs, ";")
}

func c07convGen(r *rand.Rand, thorough bool, emit func(c, cat string)) {
	id := 0
	rid := 0
	nr := func() int { rid++; return rid }
	mk := func(cfg string, p int, cat string, ops ...string) {
		id++
		emit(fmt.Sprintf("id=%d cfg=%s p=%d ops=%s", id, cfg, p, strings.Join(ops, ";")), cat)
	}
	h := func(k int, kind string) string { return fmt.Sprintf("h,%d,%d,%s", k, nr(), kind) }
	s := func(k int, kind string) string { return fmt.Sprintf("s,%d,%d,%s", k, nr(), kind) }
	x := func(k int) string { return fmt.Sprintf("x,%d", k) }
	g := func(k int) string { return fmt.Sprintf("g,%d", k) }

	procs := []int{1, 0}
	// --- fixed scenarios (one per repaired defect, for both GOMAXPROCS settings)
	for _, p := range procs {
		// an expired positive entry is looked up and refreshed; > 64 writes later every long-lived key still hits
		mk("std", p, "expired-refresh-then-writes", x(0), h(0, "p"), "w,70", h(1, "p"), h(2, "p"), h(3, "p"), "w,70",
			h(1, "p"), h(2, "p"), h(3, "p"), h(0, "p"), "v")
		// several expired names polled repeatedly (every poll of an expired node queues another deletion)
		mk("std", p, "expired-polled", x(0), x(1), x(2), g(0), g(0), g(1), g(0), g(2), h(0, "n"), h(1, "p"), "w,130",
			h(0, "n"), h(1, "p"), h(4, "p"), h(5, "p"), "w,66", h(4, "p"), h(5, "p"), h(0, "n"), "v")
		// a negative answer after the expiry of an earlier entry of the same key is cached
		mk("std", p, "negative-after-expiry", x(0), h(0, "n"), h(0, "n"), h(0, "n"), g(0), x(1), h(1, "f"), h(1, "f"),
			x(2), s(2, "n"), g(2), h(2, "n"))
		// a negative answer never displaces a live entry, and is stored when there is none
		mk("std", p, "negative-vs-live", h(0, "p"), s(0, "n"), h(0, "p"), g(0), s(1, "n"), s(1, "n"), g(1), s(1, "p"), g(1))
	}
	// the converse near the end of a short lifetime: answers with ttl 5 are repeated 3.65 s later — 1.35 s of the
	// lifetime remain (the backend's clock has a resolution of one second: the real lifetime is in (4, 5] s)
	// (three keys a third of a second apart: whatever the phase of the backend's clock, each is 3.65 s old at its repeat)
	mk("std", 0, "repeat-near-end-of-life", h(10, "q"), "z,330", h(11, "q"), "z,330", h(12, "q"), "z,2990",
		h(10, "p"), "z,330", h(11, "p"), "z,330", h(12, "p"))
	// lookups concurrent with replacing stores
	stores := 4000
	if thorough {
		stores = 40000
	}
	mk("std", 0, "race-replace", h(0, "p"), fmt.Sprintf("r,0,%d,6", stores), h(0, "p"))
	mk("std", 2, "race-replace", h(0, "p"), fmt.Sprintf("r,0,%d,3", stores), h(0, "p"))
	// extreme configurations
	mk("big", 0, "mem-4GiB", h(0, "p"), h(0, "p"), x(1), h(1, "n"), h(1, "n"), "w,70", h(0, "p"), "v")
	mk("maxttl", 0, "ttl-2^32-1", h(0, "m"), h(0, "m"), h(1, "p"), h(1, "p"), g(0))

	// --- random histories without sleeping
	n := 60
	if thorough {
		n = 1500
	}
	for i := 0; i < n; i++ {
		var ops []string
		nk := 2 + r.Intn(5)
		for j, m := 0, 6+r.Intn(30); j < m; j++ {
			k := r.Intn(nk)
			switch r.Intn(12) {
			case 0, 1:
				ops = append(ops, x(k))
			case 2, 3, 4:
				ops = append(ops, h(k, []string{"p", "p", "n", "n", "f"}[r.Intn(5)]))
			case 5:
				ops = append(ops, s(k, []string{"p", "n", "f"}[r.Intn(3)]))
			case 6, 7:
				ops = append(ops, g(k))
			case 8:
				ops = append(ops, fmt.Sprintf("w,%d", []int{1, 3, 30, 64, 65, 130}[r.Intn(6)]))
			case 9:
				ops = append(ops, "v")
			default:
				ops = append(ops, h(k, "p"))
			}
		}
		ops = append(ops, "w,64", "v")
		for k := 0; k < nk; k++ {
			ops = append(ops, g(k))
		}
		mk("std", procs[r.Intn(2)], "random", ops...)
	}

	// --- real expiry: short-ttl names that expire and are asked / stored again (one sleep per case)
	ns := 1
	if thorough {
		ns = 6
	}
	for i := 0; i < ns; i++ {
		var ops []string
		nk := 6 + r.Intn(6)
		for k := 0; k < nk; k++ {
			ops = append(ops, h(k, "t")) // ttl 1
		}
		ops = append(ops, h(100, "p"), fmt.Sprintf("w,%d", []int{0, 70}[r.Intn(2)]), "z,2600")
		for k := 0; k < nk; k++ {
			kind := []string{"p", "n", "f", "p"}[(k+i)%4]
			ops = append(ops, h(k, kind), h(k, kind)) // refetched once, then from the cache
			if r.Intn(2) == 0 {
				ops = append(ops, g(k))
			}
		}
		ops = append(ops, "w,70", h(100, "p"))
		for k := 0; k < nk; k++ {
			ops = append(ops, h(k, "p")) // whatever kind it was: it is live
		}
		ops = append(ops, "v")
		mk("std", procs[i%2], "real-expiry", ops...)
	}
}

func init() {
	register("cacheconv", &component{gen: c07convGen, run: c07convRun, setup: c07convSetup, teardown: c07convTeardown})
}
