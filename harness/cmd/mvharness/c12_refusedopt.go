package main

// Component `refusedopt` (C12): answers that do not come from the request handler — the REFUSED answers of the
// client limiter (udp, tcp, gnet) and of the per-connection concurrency limit (tcp, gnet) — obey the OPT rule
// too: exactly one OPT (the proxy's size, no options) iff the query had one.
//
// case : kind=<udp|udpmr|tcp|gnet> why=<limiter|overload> n=<queries> [nq=<questions per query>] seed=<s>
// out  : refused=<some|none> optok=<1|0> ## refused=<k> answered=<k> bad=<detail>

import (
	"fmt"
	"math/rand"
	"net"
	"time"

	"github.com/IrineSistiana/mosproxy/app/router"
	"github.com/IrineSistiana/mosproxy/internal/dnsmsg"
)

func runRefusedOpt(cs string) string {
	m := kv(cs)
	kind, why, n := m["kind"], m["why"], atoi(m["n"])
	r := rand.New(rand.NewSource(int64(atoi(m["seed"]))))
	f, err := newFixture([]string{kind}, func(cfg *router.Config) {
		if why == "limiter" {
			cfg.Limiter.Client.Limit, cfg.Limiter.Client.Burst = 1, 6 // a connection and one or two queries pass
		} else {
			for i := range cfg.Servers {
				cfg.Servers[i].Tcp.MaxConcurrentQueries = 1
			}
		}
	})
	if err != nil {
		return "fixture-error"
	}
	defer f.close()
	type sent struct {
		id      uint16
		withOpt bool
	}
	var qs []sent
	var frames [][]byte
	for i := 0; i < n; i++ {
		withOpt := r.Intn(3) > 0
		first := "ok"
		if why == "overload" {
			first = "slow" // the upstream takes 150 ms: the pipelined queries overlap
		}
		name := wireLabels([]byte(fmt.Sprintf("%s%d", first, i)), []byte("refopt"))
		id := uint16(1000 + i)
		qs = append(qs, sent{id, withOpt})
		qb := buildQuery(id, name, 1, withOpt, 1232)
		if nq := atoi(m["nq"]); nq > 1 { // nq questions with incompressible names (an unsupported query, about 25 octets each)
			mq, err := dnsmsg.UnpackMsg(qb)
			if err == nil {
				for j := 1; j < nq; j++ {
					qq := dnsmsg.NewQuestion()
					qq.Name = nameBuf(wireLabels([]byte(fmt.Sprintf("q%dx%dabcdefghij", i, j)), []byte(fmt.Sprintf("z%d", j))))
					qq.Type, qq.Class = 1, 1
					mq.Questions = append(mq.Questions, qq)
				}
				b := make([]byte, mq.Len())
				if k, err := mq.Pack(b, false, 0); err == nil {
					qb = b[:k]
				}
				dnsmsg.ReleaseMsg(mq)
			}
		}
		frames = append(frames, qb)
	}
	resps := map[uint16][]byte{}
	switch kind {
	case "udp", "udpmr":
		ip := net.IPv4(127, 0, 0, 1)
		if kind == "udpmr" {
			ip = net.IPv4(127, 0, 0, 2)
		}
		c, err := net.DialUDP("udp", nil, &net.UDPAddr{IP: ip, Port: f.ports[kind]})
		if err != nil {
			return "dial-error"
		}
		defer c.Close()
		for _, q := range frames {
			c.Write(q)
		}
		buf := make([]byte, 4096)
		for len(resps) < n {
			c.SetReadDeadline(time.Now().Add(1500 * time.Millisecond))
			k, err := c.Read(buf)
			if err != nil {
				break
			}
			if k >= 2 {
				resps[uint16(buf[0])<<8|uint16(buf[1])] = append([]byte(nil), buf[:k]...)
			}
		}
	default:
		c, err := f.dialStream(kind)
		if err != nil {
			return "dial-error"
		}
		defer c.Close()
		var all []byte
		for _, q := range frames {
			all = append(all, frame(q)...)
		}
		c.Write(all)
		for len(resps) < n {
			c.SetReadDeadline(time.Now().Add(1500 * time.Millisecond))
			b, err := readFrame(c)
			if err != nil {
				break
			}
			if len(b) >= 2 {
				resps[uint16(b[0])<<8|uint16(b[1])] = b
			}
		}
	}
	refused, answered, bad := 0, 0, ""
	for _, q := range qs {
		b, ok := resps[q.id]
		if !ok {
			continue
		}
		if kind == "udp" || kind == "udpmr" { // C09: a UDP response fits max(512, advertised size) whoever produced it
			lim := 512
			if q.withOpt {
				lim = 1232
			}
			if len(b) > lim {
				bad += fmt.Sprintf("id%d:size%d>%d,", q.id, len(b), lim)
			}
		}
		rm, err := dnsmsg.UnpackMsg(b)
		if err != nil {
			bad += fmt.Sprintf("undecodable:%d,", q.id)
			continue
		}
		if rm.Header.RCode == dnsmsg.RCodeRefused {
			refused++
		} else {
			answered++
		}
		nopt, okOpt := 0, true
		for _, sec := range [][]dnsmsg.Resource{rm.Answers, rm.Authorities, rm.Additionals} {
			for _, rr := range sec {
				if rr.Hdr().Type == dnsmsg.TypeOPT {
					nopt++
					raw, isRaw := rr.(*dnsmsg.RawResource)
					if !isRaw || len(raw.Data) != 0 || rr.Hdr().Class != 1200 {
						okOpt = false
					}
				}
			}
		}
		want := 0
		if q.withOpt {
			want = 1
		}
		// "exactly one OPT iff the query had one" is stated for supported queries; a query with several questions is
		// not one (NOTIMP): there only "never an OPT unless the query had one"
		if atoi(m["nq"]) > 1 {
			if nopt > want || !okOpt {
				bad += fmt.Sprintf("id%d:rcode%d:opt%d/%d,", q.id, rm.Header.RCode, nopt, want)
			}
		} else if nopt != want || !okOpt {
			bad += fmt.Sprintf("id%d:rcode%d:opt%d/%d,", q.id, rm.Header.RCode, nopt, want)
		}
		dnsmsg.ReleaseMsg(rm)
	}
	some := "none"
	if refused > 0 {
		some = "some"
	}
	if bad == "" {
		bad = "-"
	}
	return fmt.Sprintf("refused=%s optok=%s ## refused=%d answered=%d bad=%s", some, b2s(bad == "-"), refused, answered, bad)
}

func genRefusedOpt(r *rand.Rand, thorough bool, emit func(c, cat string)) {
	rounds := 1
	if thorough {
		rounds = 6
	}
	for i := 0; i < rounds; i++ {
		for _, kind := range []string{"udp", "udpmr", "tcp", "gnet"} { // udpmr: udp on the wildcard address with multi_routes
			emit(fmt.Sprintf("kind=%s why=limiter n=12 seed=%d", kind, r.Intn(1<<30)), kind+"-limiter")
			if kind == "udp" { // refused (and NOTIMP) answers to a query with many questions stay within the UDP limit
				emit(fmt.Sprintf("kind=%s why=limiter n=12 nq=%d seed=%d", kind, 30+r.Intn(30), r.Intn(1<<30)), kind+"-limiter-manyq")
			}
			if kind != "udp" && kind != "udpmr" {
				emit(fmt.Sprintf("kind=%s why=overload n=8 seed=%d", kind, r.Intn(1<<30)), kind+"-overload")
			}
		}
	}
}

func init() {
	register("refusedopt", &component{gen: genRefusedOpt, run: runRefusedOpt})
}
