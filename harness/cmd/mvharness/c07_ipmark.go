package main

// C07 / component "ipmark": the real loadIpMarkerFromReader + ipMarker.Mark (through
// VerifLoadIpMarker / Mark).
//
// case: f=<hex of the range file> a=<addr>;<addr>;…   (address text as netip.ParseAddr takes it, or "invalid")
// out : err=parse|range|overlap      the loader's error class
//       m=<hex label>,<hex label>,…  the label of every address ("-" = no group)

import (
	"bytes"
	"fmt"
	"math/big"
	"math/rand"
	"net/netip"
	"strings"

	"github.com/IrineSistiana/mosproxy/app/router"
)

func c07markRun(cs string) string {
	m := kv(cs)
	file := unhex(m["f"])
	mk, err := router.VerifLoadIpMarker(bytes.NewReader(file))
	if err != nil {
		s := err.Error()
		switch {
		case strings.Contains(s, "invalid line"):
			return "err=parse"
		case strings.Contains(s, "invalid range"):
			return "err=range"
		case strings.Contains(s, "failed to build"):
			return "err=overlap"
		}
		return "err=other"
	}
	var out []string
	for _, a := range strings.Split(m["a"], ";") {
		var addr netip.Addr
		if a != "invalid" {
			var perr error
			addr, perr = netip.ParseAddr(a)
			if perr != nil {
				return "bad-client-addr"
			}
		}
		out = append(out, hexs([]byte(mk.Mark(addr))))
	}
	return "m=" + strings.Join(out, ",")
}

// ---- generator: ranges are built over 128-bit numbers, then rendered in assorted textual forms

var c07two128 = new(big.Int).Lsh(big.NewInt(1), 128)
var c07v4base = new(big.Int).SetUint64(0xffff00000000)

func c07addrOf(v *big.Int) netip.Addr {
	var b [16]byte
	v.FillBytes(b[:])
	return netip.AddrFrom16(b)
}

func c07isV4(v *big.Int) bool {
	d := new(big.Int).Sub(v, c07v4base)
	return d.Sign() >= 0 && d.BitLen() <= 32
}

// c07render picks one of the textual forms netip.ParseAddr accepts for the 128-bit value v.
func c07render(r *rand.Rand, v *big.Int) string {
	a := c07addrOf(v)
	if c07isV4(v) {
		switch r.Intn(3) {
		case 0:
			return a.Unmap().String() // dotted quad
		case 1:
			return a.String() // ::ffff:a.b.c.d
		default:
			b := a.As16()
			return fmt.Sprintf("::ffff:%x:%x", uint16(b[12])<<8|uint16(b[13]), uint16(b[14])<<8|uint16(b[15]))
		}
	}
	if r.Intn(25) == 0 {
		return a.String() + "%eth" + fmt.Sprint(r.Intn(3)) // a zone does not change the 128-bit address
	}
	switch r.Intn(4) {
	case 0:
		return a.String()
	case 1:
		return a.StringExpanded()
	case 2:
		return strings.ToUpper(a.String())
	default:
		b := a.As16()
		var g []string
		for i := 0; i < 16; i += 2 {
			g = append(g, fmt.Sprintf("%x", uint16(b[i])<<8|uint16(b[i+1])))
		}
		return strings.Join(g, ":")
	}
}

func c07randVal(r *rand.Rand) *big.Int {
	switch r.Intn(10) {
	case 0, 1, 2, 3: // IPv4 space
		return new(big.Int).Add(c07v4base, new(big.Int).SetUint64(uint64(r.Uint32())))
	case 4: // small IPv4 neighbourhood (many collisions / adjacency)
		return new(big.Int).Add(c07v4base, new(big.Int).SetUint64(uint64(0x0a000000+r.Intn(64))))
	case 5: // small IPv6 neighbourhood
		v, _ := new(big.Int).SetString("20010db8000000000000000000000000", 16)
		return v.Add(v, big.NewInt(int64(r.Intn(64))))
	case 6: // around the 64-bit boundary of the two halves
		v := new(big.Int).Lsh(big.NewInt(int64(1+r.Intn(4))), 64)
		return v.Add(v, big.NewInt(int64(r.Intn(5)-2)))
	case 7: // extremes
		switch r.Intn(4) {
		case 0:
			return big.NewInt(int64(r.Intn(3)))
		case 1:
			return new(big.Int).Sub(c07two128, big.NewInt(int64(1+r.Intn(3))))
		case 2:
			return new(big.Int).Sub(c07v4base, big.NewInt(int64(1+r.Intn(2)))) // just below the v4-mapped block
		default:
			return new(big.Int).Add(c07v4base, new(big.Int).SetUint64(0xffffffff+uint64(r.Intn(2)))) // top of it / just above
		}
	default:
		v := new(big.Int).Rand(r, c07two128)
		return v
	}
}

type c07range struct {
	lo, hi *big.Int
	label  string
}

func c07clamp(v *big.Int) *big.Int {
	if v.Sign() < 0 {
		return big.NewInt(0)
	}
	if v.Cmp(c07two128) >= 0 {
		return new(big.Int).Sub(c07two128, big.NewInt(1))
	}
	return v
}

func c07markGen(r *rand.Rand, thorough bool, emit func(c, cat string)) {
	n := 1500
	if thorough {
		n = 30000
	}
	labels := []string{"lan", "wan", "a", "b", "office,2", "x y", "", "lan", "Z"}
	for i := 0; i < n; i++ {
		var rs []c07range
		nr := r.Intn(7)
		if r.Intn(10) == 0 {
			nr = 8 + r.Intn(24)
		}
		kind := r.Intn(10) // 0..5 disjoint, 6 adjacent, 7 overlapping, 8 reversed range, 9 syntax error
		cat := "disjoint"
		manyLabels := i%60 == 7 // more than 256 distinct labels in one file (the label table has no small limit)
		if manyLabels {
			nr, kind = 420, 0
		}
		for j := 0; j < nr; j++ {
			lo := c07randVal(r)
			var span *big.Int
			sk := r.Intn(5)
			if manyLabels && sk == 3 {
				sk = 4 // no huge ranges here: most of the 420 must survive the disjointness filter
			}
			switch sk {
			case 0:
				span = big.NewInt(0) // single address
			case 1:
				span = big.NewInt(int64(r.Intn(4)))
			case 2:
				span = big.NewInt(int64(r.Intn(70000)))
			case 3:
				span = new(big.Int).Lsh(big.NewInt(1), uint(r.Intn(100)))
			default:
				span = big.NewInt(255)
			}
			hi := c07clamp(new(big.Int).Add(lo, span))
			if manyLabels {
				rs = append(rs, c07range{lo, hi, fmt.Sprintf("g%d", j)})
				continue
			}
			rs = append(rs, c07range{lo, hi, labels[r.Intn(len(labels))]})
		}
		// make the set disjoint first: drop ranges that intersect an earlier one
		var ds []c07range
		for _, x := range rs {
			ok := true
			for _, y := range ds {
				if x.lo.Cmp(y.hi) <= 0 && y.lo.Cmp(x.hi) <= 0 {
					ok = false
					break
				}
			}
			if ok {
				ds = append(ds, x)
			}
		}
		rs = ds
		switch kind {
		case 6: // adjacent: a range starting right after another one ends (legal)
			if len(rs) > 0 {
				x := rs[r.Intn(len(rs))]
				lo := new(big.Int).Add(x.hi, big.NewInt(1))
				if lo.Cmp(c07two128) < 0 {
					y := c07range{lo, c07clamp(new(big.Int).Add(lo, big.NewInt(int64(r.Intn(3))))), labels[r.Intn(len(labels))]}
					ok := true
					for _, z := range rs {
						if y.lo.Cmp(z.hi) <= 0 && z.lo.Cmp(y.hi) <= 0 {
							ok = false
						}
					}
					if ok {
						rs = append(rs, y)
						cat = "adjacent"
					}
				}
			}
		case 7: // overlapping: must be rejected
			if len(rs) > 0 {
				x := rs[r.Intn(len(rs))]
				var y c07range
				switch r.Intn(5) {
				case 0: // shares exactly the end point
					y = c07range{x.hi, c07clamp(new(big.Int).Add(x.hi, big.NewInt(int64(r.Intn(5))))), "ov"}
				case 1: // shares exactly the start point
					y = c07range{c07clamp(new(big.Int).Sub(x.lo, big.NewInt(int64(r.Intn(5))))), x.lo, "ov"}
				case 2: // identical
					y = c07range{x.lo, x.hi, x.label}
				case 3: // contains it
					y = c07range{c07clamp(new(big.Int).Sub(x.lo, big.NewInt(1))), c07clamp(new(big.Int).Add(x.hi, big.NewInt(1))), "ov"}
				default: // a single address inside
					y = c07range{x.lo, x.lo, "ov"}
				}
				rs = append(rs, y)
				cat = "overlap"
			}
		case 8: // start > end: Add must refuse
			lo := c07randVal(r)
			if lo.Sign() > 0 {
				rs = append(rs, c07range{lo, new(big.Int).Sub(lo, big.NewInt(int64(1+r.Intn(2)))), "rev"})
				cat = "reversed"
			}
		}
		r.Shuffle(len(rs), func(a, b int) { rs[a], rs[b] = rs[b], rs[a] })
		var f strings.Builder
		for j, x := range rs {
			if r.Intn(6) == 0 {
				f.WriteString([]string{"# comment\n", "\n", "   \n", "#\n", "\t# 1.1.1.1,1.1.1.2,x\n"}[r.Intn(5)])
			}
			line := c07render(r, x.lo) + "," + c07render(r, x.hi) + "," + x.label
			if kind == 9 && j == len(rs)/2 {
				cat = "syntax"
				switch r.Intn(8) {
				case 0:
					line = c07render(r, x.lo) + "," + c07render(r, x.hi) // no second comma
				case 1:
					line = c07render(r, x.lo) // no comma
				case 2:
					line = "1.2.3," + c07render(r, x.hi) + ",l"
				case 3:
					line = c07render(r, x.lo) + ",1.2.3.256,l"
				case 4:
					line = "01.2.3.4,1.2.3.5,l"
				case 5:
					line = "1::2::3,1::2:4,l"
				case 6:
					line = c07render(r, x.lo) + " ," + c07render(r, x.hi) + ",l" // blank inside the address field
				default:
					line = "12345::,12346::,l"
				}
			}
			switch r.Intn(8) {
			case 0:
				line = "  " + line + "  "
			case 1:
				line = line + " # trailing comment"
			case 2:
				line = "\t" + line + "\r"
			}
			f.WriteString(line)
			if j != len(rs)-1 || r.Intn(4) != 0 {
				f.WriteString("\n")
			}
		}
		// client addresses: boundaries ±1 of every range, v4-mapped forms, random ones
		var as []string
		add := func(v *big.Int) {
			if v.Sign() < 0 || v.Cmp(c07two128) >= 0 {
				return
			}
			as = append(as, c07render(r, v))
		}
		look := rs
		if manyLabels && len(rs) > 260 {
			// the label table is filled in file order: look up ranges whose label is the 257th, 258th, … and the last
			// ones of the file first, then the first ones (C07-m12: an 8-bit label index wraps to the labels of the
			// first lines)
			look = append([]c07range{rs[256], rs[257], rs[len(rs)-1], rs[len(rs)-2], rs[255]}, rs[:2]...)
		}
		for _, x := range look {
			if len(as) > 40 {
				break
			}
			for _, b := range []*big.Int{x.lo, x.hi} {
				add(b)
				add(new(big.Int).Sub(b, big.NewInt(1)))
				add(new(big.Int).Add(b, big.NewInt(1)))
			}
			if x.hi.Cmp(x.lo) > 0 {
				d := new(big.Int).Sub(x.hi, x.lo)
				add(new(big.Int).Add(x.lo, new(big.Int).Rand(r, d)))
			}
		}
		for j := 0; j < 4; j++ {
			add(c07randVal(r))
		}
		if r.Intn(5) == 0 {
			as = append(as, "invalid")
		}
		if len(as) == 0 {
			as = append(as, "10.0.0.1")
		}
		emit("f="+hexs([]byte(f.String()))+" a="+strings.Join(as, ";"), cat)
	}
}

func init() {
	register("ipmark", &component{gen: c07markGen, run: c07markRun})
}
