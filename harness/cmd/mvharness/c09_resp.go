package main

// Components `packresp` and `packtcp` (C09): the router's response packers
// (app/router/server_utils.go packResp / packRespTCP via the verif hooks).
//
// packresp: case = c=<0|1> size=<n> <message tokens>   → err | out=<hex>
// packtcp : case = c=<0|1> <message tokens>            → err | out=<hex incl. the 2-byte prefix>

import (
	"fmt"
	"math/rand"
	"strings"

	"github.com/IrineSistiana/mosproxy/app/router"
	"github.com/IrineSistiana/mosproxy/internal/dnsmsg"
)

func runPackResp(cs string) string {
	m := parseMsg(cs)
	defer dnsmsg.ReleaseMsg(m)
	kvs := kv(cs)
	b, err := router.VerifPackResp(m, kvs["c"] == "1", atoi(kvs["size"]))
	if err != nil {
		return "err"
	}
	return "out=" + hexs(b)
}

func runPackTCP(cs string) string {
	m := parseMsg(cs)
	defer dnsmsg.ReleaseMsg(m)
	kvs := kv(cs)
	b, err := router.VerifPackRespTCP(m, kvs["c"] == "1")
	if err != nil {
		return "err"
	}
	return "out=" + hexs(b)
}

// bigResp builds a response of roughly `target` uncompressed octets out of raw records of
// mixed sizes (so that small later records still fit after big ones were skipped), with an OPT
// record at a random position of the additional section (or none).
func bigResp(r *rand.Rand, target int) string {
	g := newMsgGen(r)
	toks := []string{g.header(), fmt.Sprintf("q=%s,16,1", hexs(g.name()))}
	total := 12 + 20
	secs := []string{"an", "an", "an", "ns", "ar"}
	optAt := r.Intn(4)
	nAr := 0
	for total < target {
		sec := secs[r.Intn(len(secs))]
		var l int
		switch r.Intn(4) {
		case 0:
			l = r.Intn(30)
		case 1:
			l = 200 + r.Intn(300)
		case 2:
			l = 1000 + r.Intn(3000)
		default:
			l = r.Intn(65536 / 8)
		}
		name := g.name()
		toks = append(toks, fmt.Sprintf("%s=%s,%d,1,%d,raw,%s", sec, hexs(name), unknownTypes[r.Intn(len(unknownTypes))], r.Intn(1000), hexs(g.bytes(l))))
		total += len(name) + 1 + 10 + l
		if sec == "ar" {
			nAr++
			if nAr == optAt {
				toks = append(toks, fmt.Sprintf("ar=-,41,%d,0,raw,%s", []int{512, 1232, 4096}[r.Intn(3)], hexs(g.optData())))
			}
		}
	}
	if optAt == 0 || r.Intn(3) == 0 && nAr < optAt {
		toks = append(toks, "ar=-,41,1232,0,raw,-")
	}
	return strings.Join(toks, " ")
}

func genPackResp(r *rand.Rand, thorough bool, emit func(c, cat string)) {
	n := 400
	if thorough {
		n = 8000
	}
	for i := 0; i < n; i++ {
		g := newMsgGen(r)
		msg := g.msg()
		m := parseMsg(msg)
		l := m.Len()
		dnsmsg.ReleaseMsg(m)
		var size int
		switch r.Intn(6) {
		case 0:
			size = []int{0, 512, 513, 1232, 4096, 65535, 65536, 70000, 1, 100}[r.Intn(10)]
		case 1:
			size = l + r.Intn(5) - 2
		case 2:
			size = 512 + r.Intn(l+1)
		case 3:
			size = 512
		default:
			size = 1 + r.Intn(l+20)
		}
		if size < 0 {
			size = 0
		}
		emit(fmt.Sprintf("c=%d size=%d %s", r.Intn(2), size, msg), "resp")
	}
	// responses around and beyond the 65535 cap (the DoH path passes size=65535; a size above is capped)
	nb := 6
	if thorough {
		nb = 60
	}
	for i := 0; i < nb; i++ {
		target := []int{60000, 65000, 65535, 66000, 80000, 140000}[i%6]
		size := []int{65535, 65536, 100000, 1232, 4096}[r.Intn(5)]
		emit(fmt.Sprintf("c=%d size=%d %s", r.Intn(2), size, bigResp(r, target)), "resp-big")
	}
}

func genPackTCP(r *rand.Rand, thorough bool, emit func(c, cat string)) {
	n := 300
	if thorough {
		n = 5000
	}
	for i := 0; i < n; i++ {
		g := newMsgGen(r)
		emit(fmt.Sprintf("c=%d %s", r.Intn(2), g.msg()), "tcp")
	}
	nb := 8
	if thorough {
		nb = 80
	}
	for i := 0; i < nb; i++ {
		target := []int{60000, 65000, 65520, 65536, 66000, 70000, 90000, 150000}[i%8]
		emit(fmt.Sprintf("c=%d %s", r.Intn(2), bigResp(r, target)), "tcp-big")
	}
}

func init() {
	register("packresp", &component{gen: genPackResp, run: runPackResp})
	register("packtcp", &component{gen: genPackTCP, run: runPackTCP})
}
