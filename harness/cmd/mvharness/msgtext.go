package main

// Canonical text form of DNS messages shared by the codec / router components.
// See lean/MosVerif/Model/WireIO.lean for the grammar.

import (
	"fmt"
	"reflect"
	"strconv"
	"strings"

	"github.com/IrineSistiana/mosproxy/internal/dnsmsg"
	"github.com/IrineSistiana/mosproxy/internal/pool"
)

// The reserved header bit Z lives in dnsmsg.Header.Zero. It is accessed by name so that the harness
// also builds against a tree whose Header has no such field (there the bit cannot be represented:
// it reads as 0 and cannot be set — which is what the `reencode` and `pack` oracles then report).
func hdrZero(h *dnsmsg.Header) bool {
	f := reflect.ValueOf(h).Elem().FieldByName("Zero")
	return f.IsValid() && f.Kind() == reflect.Bool && f.Bool()
}

func setHdrZero(h *dnsmsg.Header, v bool) {
	f := reflect.ValueOf(h).Elem().FieldByName("Zero")
	if f.IsValid() && f.Kind() == reflect.Bool && f.CanSet() {
		f.SetBool(v)
	}
}

func hdrText(h dnsmsg.Header) string {
	return fmt.Sprintf("h=%d,%s,%d,%s,%s,%s,%s,%s,%s,%d,%s", h.ID, b2s(h.Response), h.OpCode, b2s(h.Authoritative),
		b2s(h.Truncated), b2s(h.RecursionDesired), b2s(h.RecursionAvailable), b2s(h.AuthenticData), b2s(h.CheckingDisabled), h.RCode, b2s(hdrZero(&h)))
}

func rrText(sec string, r dnsmsg.Resource) string {
	h := r.Hdr()
	var rd string
	switch v := r.(type) {
	case *dnsmsg.A:
		rd = "a," + hexs(v.A[:])
	case *dnsmsg.AAAA:
		rd = "aaaa," + hexs(v.AAAA[:])
	case *dnsmsg.NAMEResource:
		rd = "name," + hexs(v.NameData)
	case *dnsmsg.MX:
		rd = fmt.Sprintf("mx,%d,%s", v.Pref, hexs(v.MX))
	case *dnsmsg.SOA:
		rd = fmt.Sprintf("soa,%s,%s,%d,%d,%d,%d,%d", hexs(v.NS), hexs(v.MBox), v.Serial, v.Refresh, v.Retry, v.Expire, v.MinTTL)
	case *dnsmsg.SRV:
		rd = fmt.Sprintf("srv,%d,%d,%d,%s", v.Priority, v.Weight, v.Port, hexs(v.Target))
	case *dnsmsg.RawResource:
		rd = "raw," + hexs(v.Data)
	default:
		rd = "unknown"
	}
	return fmt.Sprintf("%s=%s,%d,%d,%d,%s", sec, hexs(h.Name), h.Type, h.Class, h.TTL, rd)
}

func msgText(m *dnsmsg.Msg) string {
	var sb strings.Builder
	sb.WriteString(hdrText(m.Header))
	for _, q := range m.Questions {
		fmt.Fprintf(&sb, " q=%s,%d,%d", hexs(q.Name), q.Type, q.Class)
	}
	for _, r := range m.Answers {
		sb.WriteByte(' ')
		sb.WriteString(rrText("an", r))
	}
	for _, r := range m.Authorities {
		sb.WriteByte(' ')
		sb.WriteString(rrText("ns", r))
	}
	for _, r := range m.Additionals {
		sb.WriteByte(' ')
		sb.WriteString(rrText("ar", r))
	}
	return sb.String()
}

func nameBuf(b []byte) dnsmsg.Name {
	n := pool.GetBuf(len(b))
	copy(n, b)
	return dnsmsg.Name(n)
}

func u(s string) uint64 {
	n, _ := strconv.ParseUint(s, 10, 64)
	return n
}

func parseRR(v string) dnsmsg.Resource {
	f := strings.Split(v, ",")
	if len(f) < 6 {
		return nil
	}
	hdr := dnsmsg.ResourceHdr{Name: nameBuf(unhex(f[0])), Type: dnsmsg.Type(u(f[1])), Class: dnsmsg.Class(u(f[2])), TTL: uint32(u(f[3]))}
	switch f[4] {
	case "a":
		r := dnsmsg.NewA()
		r.ResourceHdr = hdr
		copy(r.A[:], unhex(f[5]))
		return r
	case "aaaa":
		r := dnsmsg.NewAAAA()
		r.ResourceHdr = hdr
		copy(r.AAAA[:], unhex(f[5]))
		return r
	case "name":
		r := dnsmsg.NewNAME()
		r.ResourceHdr = hdr
		r.NameData = nameBuf(unhex(f[5]))
		return r
	case "mx":
		r := dnsmsg.NewMX()
		r.ResourceHdr = hdr
		r.Pref = uint16(u(f[5]))
		r.MX = nameBuf(unhex(f[6]))
		return r
	case "soa":
		r := dnsmsg.NewSOA()
		r.ResourceHdr = hdr
		r.NS, r.MBox = nameBuf(unhex(f[5])), nameBuf(unhex(f[6]))
		r.Serial, r.Refresh, r.Retry, r.Expire, r.MinTTL = uint32(u(f[7])), uint32(u(f[8])), uint32(u(f[9])), uint32(u(f[10])), uint32(u(f[11]))
		return r
	case "srv":
		r := dnsmsg.NewSRV()
		r.ResourceHdr = hdr
		r.Priority, r.Weight, r.Port = uint16(u(f[5])), uint16(u(f[6])), uint16(u(f[7]))
		r.Target = nameBuf(unhex(f[8]))
		return r
	case "raw":
		r := dnsmsg.NewRaw()
		r.ResourceHdr = hdr
		d := unhex(f[5])
		r.Data = pool.GetBuf(len(d))
		copy(r.Data, d)
		return r
	}
	return nil
}

// parseMsg builds a *dnsmsg.Msg from the message tokens in c (other k=v tokens are ignored).
func parseMsg(c string) *dnsmsg.Msg {
	m := dnsmsg.NewMsg()
	for _, t := range strings.Fields(c) {
		i := strings.IndexByte(t, '=')
		if i < 0 {
			continue
		}
		k, v := t[:i], t[i+1:]
		switch k {
		case "h":
			f := strings.Split(v, ",")
			if len(f) != 10 && len(f) != 11 { // the 11th field (reserved bit Z) may be omitted = 0
				continue
			}
			m.Header = dnsmsg.Header{ID: uint16(u(f[0])), Response: f[1] == "1", OpCode: dnsmsg.OpCode(u(f[2])), Authoritative: f[3] == "1",
				Truncated: f[4] == "1", RecursionDesired: f[5] == "1", RecursionAvailable: f[6] == "1", AuthenticData: f[7] == "1",
				CheckingDisabled: f[8] == "1", RCode: dnsmsg.RCode(u(f[9]))}
			if len(f) == 11 {
				setHdrZero(&m.Header, f[10] == "1")
			}
		case "q":
			f := strings.Split(v, ",")
			if len(f) != 3 {
				continue
			}
			q := dnsmsg.NewQuestion()
			q.Name, q.Type, q.Class = nameBuf(unhex(f[0])), dnsmsg.Type(u(f[1])), dnsmsg.Class(u(f[2]))
			m.Questions = append(m.Questions, q)
		case "an":
			if r := parseRR(v); r != nil {
				m.Answers = append(m.Answers, r)
			}
		case "ns":
			if r := parseRR(v); r != nil {
				m.Authorities = append(m.Authorities, r)
			}
		case "ar":
			if r := parseRR(v); r != nil {
				m.Additionals = append(m.Additionals, r)
			}
		}
	}
	return m
}
