package main

// A third listener fixture whose upstream is REAL (upstream.NewUpstream of "udp://…", i.e. the pipelined UDP
// transport with its TCP fallback) and talks to a scripted server on loopback, so that the request deadline of
// the listeners (C03) is exercised through the upstream code as well. Behaviour by the first label:
//
//	ok…     UDP: the answer
//	tcok…   UDP: a truncated reply; TCP: the answer
//	tcsil…  UDP: a truncated reply after 3 s; TCP: the query is read, no reply ever comes
//	silent… nothing at all

import (
	"encoding/binary"
	"fmt"
	"io"
	"net"
	"strings"
	"time"

	"github.com/IrineSistiana/mosproxy/app/router"
	"github.com/miekg/dns"
)

var lfixReal *fixture
var realUpClosers []io.Closer

func realUpReply(q *dns.Msg, tc bool) []byte {
	r := new(dns.Msg)
	r.SetReply(q)
	r.RecursionAvailable = true
	if tc {
		r.Truncated = true
	} else {
		qq := q.Question[0]
		wire := make([]byte, 256)
		off, _ := dns.PackDomainName(qq.Name, wire, 0, nil, false)
		ip := answerFor(wire[:off-1], qq.Qtype, qq.Qclass)
		r.Answer = append(r.Answer, &dns.A{Hdr: dns.RR_Header{Name: qq.Name, Rrtype: dns.TypeA, Class: qq.Qclass, Ttl: 300}, A: net.IP(ip[:])})
	}
	b, _ := r.Pack()
	return b
}

func realUpSetup() {
	var uc *net.UDPConn
	var tl net.Listener
	for i := 0; i < 100; i++ {
		l, err := net.Listen("tcp", "127.0.0.1:0")
		if err != nil {
			continue
		}
		p := l.Addr().(*net.TCPAddr).Port
		c, err := net.ListenUDP("udp", &net.UDPAddr{IP: net.IPv4(127, 0, 0, 1), Port: p})
		if err != nil {
			l.Close()
			continue
		}
		uc, tl = c, l
		break
	}
	if uc == nil {
		panic("realup: no port")
	}
	realUpClosers = append(realUpClosers, uc, tl)
	first := func(q *dns.Msg) string {
		if len(q.Question) != 1 {
			return "silent"
		}
		return strings.ToLower(q.Question[0].Name)
	}
	go func() {
		buf := make([]byte, 65535)
		for {
			n, from, err := uc.ReadFromUDP(buf)
			if err != nil {
				return
			}
			q := new(dns.Msg)
			if q.Unpack(buf[:n]) != nil {
				continue
			}
			f := first(q)
			switch {
			case strings.HasPrefix(f, "ok"):
				uc.WriteToUDP(realUpReply(q, false), from)
			case strings.HasPrefix(f, "tcok"):
				uc.WriteToUDP(realUpReply(q, true), from)
			case strings.HasPrefix(f, "tcsil"):
				b := realUpReply(q, true)
				go func() { time.Sleep(3 * time.Second); uc.WriteToUDP(b, from) }()
			}
		}
	}()
	go func() {
		for {
			c, err := tl.Accept()
			if err != nil {
				return
			}
			go func() {
				defer c.Close()
				for {
					var l [2]byte
					if _, err := io.ReadFull(c, l[:]); err != nil {
						return
					}
					b := make([]byte, binary.BigEndian.Uint16(l[:]))
					if _, err := io.ReadFull(c, b); err != nil {
						return
					}
					q := new(dns.Msg)
					if q.Unpack(b) != nil {
						return
					}
					if f := first(q); strings.HasPrefix(f, "tcok") || strings.HasPrefix(f, "ok") {
						c.Write(frame(realUpReply(q, false)))
					} // else: read on, never reply
				}
			}()
		}
	}()
	port := uc.LocalAddr().(*net.UDPAddr).Port
	f, err := newFixture([]string{"udp", "tcp", "https"}, func(cfg *router.Config) {
		cfg.Upstreams[0].Addr = fmt.Sprintf("udp://127.0.0.1:%d", port)
	})
	if err != nil {
		panic(err)
	}
	lfixReal = f
}

func realUpTeardown() {
	if lfixReal != nil {
		lfixReal.close()
	}
	for _, c := range realUpClosers {
		c.Close()
	}
}
