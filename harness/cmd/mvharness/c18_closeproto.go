package main

// C18 component `closeproto`: the close protocol of the REAL upstream transports.
//
// manual mode (auto=0): transport.NewReuseConnTransport / NewPipelineTransport / NewQuicTransport with an
// injected DialContext. Every dial is a gate owned by the harness (completed by the script with a
// connection or an error; an ordinary gate also returns when its context is cancelled, a `stubborn` one
// ignores its context — that is how a dial that completes after Close is produced). The connections are
// in-memory fakes that record Close and carry the queries to a scripted server. After every op the
// harness waits (bounded) until the effect the op must have is visible, so the script order is the
// order of the events.
// auto mode (auto=1): upstream.NewUpstream of every kind (udp tcp tls tcp+pipeline tls+pipeline http
// https h3 quic) against local servers of the harness that hold every reply until the script releases
// it; sockets are counted through /proc/self/fd. (c18_upservers.go)
//
// case : k=<reuse|pipe|quic> auto=<0|1> [up=<upstream kind>] [fr=<tcp|udp>] ops=<op>,...
//        s<e> start exchange e            S<e> the same, its dial (if any) ignores its context
//        d<e> / f<e>  the dial started by e returns a connection / an error
//        r<e> the server answers e        c<e> e's context is cancelled
//        t    the idle time-out passes (only while no caller is blocked)     C  Close
//        L    (quic) the peer's stream limit is reached: OpenStreamSync blocks until its context ends
//        B<k> (pipe) answered exchanges use up the wire ids of the live connection until k of the 65536 are left
// out  : res=<e>:<ok|err|ctx|pend>,.. cl=<Close calls that returned|hang|panic> open=<connections/sockets still open>
//        atc=<exchanges still blocked after the first Close had settled> dials=<DialContext calls|->

import (
	"context"
	"encoding/binary"
	"errors"
	"fmt"
	"math/rand"
	"net"
	"os"
	"reflect"
	"sort"
	"strconv"
	"strings"
	"sync"
	"time"
	"unsafe"

	"github.com/IrineSistiana/connpool"
	"github.com/IrineSistiana/mosproxy/internal/dnsmsg"
	"github.com/IrineSistiana/mosproxy/internal/upstream/transport"
	"github.com/quic-go/quic-go"
)

func init() {
	register("closeproto", &component{gen: c18CloseGen, run: c18CloseRun, setup: c18Setup})
}

const (
	c18IdleLong  = 60 * time.Second
	c18IdleShort = 250 * time.Millisecond // only for scripts that contain `t`
	c18SegMax    = 70 * time.Millisecond  // such a script is repeated if a segment between two ops took longer
	c18Grace     = 25 * time.Millisecond
)

// ---------------------------------------------------------------- queries

// c18Query: header + one question `e<nonce>. IN A`; the nonce identifies the exchange at the server.
func c18Query(nonce int, id uint16) []byte {
	label := "e" + strconv.Itoa(nonce)
	b := make([]byte, 12, 12+len(label)+6)
	binary.BigEndian.PutUint16(b, id)
	b[2] = 1 // RD
	b[5] = 1 // QDCOUNT
	b = append(b, byte(len(label)))
	b = append(b, label...)
	b = append(b, 0, 0, 1, 0, 1)
	return b
}

func c18Nonce(msg []byte) int {
	if len(msg) < 14 || msg[12] == 0 || int(msg[12]) > len(msg)-13 || msg[13] != 'e' {
		return -1
	}
	n, err := strconv.Atoi(string(msg[14 : 13+int(msg[12])]))
	if err != nil {
		return -1
	}
	return n
}

func c18Reply(q []byte) []byte {
	r := append([]byte(nil), q...)
	r[2] |= 0x80
	return r
}

func c18RespNonce(m *dnsmsg.Msg) int {
	if m == nil || len(m.Questions) != 1 {
		return -1
	}
	n := m.Questions[0].Name
	if len(n) < 3 || n[1] != 'e' {
		return -1
	}
	v, err := strconv.Atoi(string(n[2 : 1+int(n[0])]))
	if err != nil {
		return -1
	}
	return v
}

// ---------------------------------------------------------------- fake net.Conn

type c18addr struct{}

func (c18addr) Network() string { return "fake" }
func (c18addr) String() string  { return "fake" }

type c18fconn struct {
	h      *c18man
	id     int
	tcp    bool
	mu     sync.Mutex
	wake   chan struct{}
	rq     [][]byte
	closed bool
	rdl    time.Time
	wbuf   []byte
	used   int // queries written = wire ids taken (pipelined transport)
}

func (c *c18fconn) signal() {
	close(c.wake)
	c.wake = make(chan struct{})
}

func (c *c18fconn) isClosed() bool { c.mu.Lock(); defer c.mu.Unlock(); return c.closed }

func (c *c18fconn) Read(b []byte) (int, error) {
	for {
		c.mu.Lock()
		if c.closed {
			c.mu.Unlock()
			return 0, net.ErrClosed
		}
		if len(c.rq) > 0 {
			n := copy(b, c.rq[0])
			if n < len(c.rq[0]) && c.tcp {
				c.rq[0] = c.rq[0][n:]
			} else {
				c.rq = c.rq[1:]
			}
			c.mu.Unlock()
			return n, nil
		}
		dl, wake := c.rdl, c.wake
		c.mu.Unlock()
		var tc <-chan time.Time
		if !dl.IsZero() {
			d := time.Until(dl)
			if d <= 0 {
				return 0, os.ErrDeadlineExceeded
			}
			tm := time.NewTimer(d)
			tc = tm.C
			select {
			case <-wake:
			case <-tc:
			}
			tm.Stop()
			continue
		}
		<-wake
	}
}

func (c *c18fconn) Write(b []byte) (int, error) {
	c.mu.Lock()
	if c.closed {
		c.mu.Unlock()
		return 0, net.ErrClosed
	}
	var msgs [][]byte
	if c.tcp {
		c.wbuf = append(c.wbuf, b...)
		for len(c.wbuf) >= 2 {
			l := int(binary.BigEndian.Uint16(c.wbuf))
			if len(c.wbuf) < 2+l {
				break
			}
			msgs = append(msgs, append([]byte(nil), c.wbuf[2:2+l]...))
			c.wbuf = c.wbuf[2+l:]
		}
	} else {
		msgs = append(msgs, append([]byte(nil), b...))
	}
	c.used += len(msgs)
	c.mu.Unlock()
	for _, m := range msgs {
		c.h.gotQuery(c, c18Nonce(m), m, func(reply []byte) bool {
			c.mu.Lock()
			defer c.mu.Unlock()
			if c.closed {
				return false
			}
			if c.tcp {
				f := make([]byte, 2+len(reply))
				binary.BigEndian.PutUint16(f, uint16(len(reply)))
				copy(f[2:], reply)
				reply = f
			}
			c.rq = append(c.rq, reply)
			c.signal()
			return true
		})
	}
	return len(b), nil
}

func (c *c18fconn) Close() error {
	c.mu.Lock()
	was := c.closed
	c.closed = true
	c.signal()
	c.mu.Unlock()
	if was {
		return net.ErrClosed
	}
	return nil
}

func (c *c18fconn) LocalAddr() net.Addr  { return c18addr{} }
func (c *c18fconn) RemoteAddr() net.Addr { return c18addr{} }
func (c *c18fconn) SetDeadline(t time.Time) error {
	return c.SetReadDeadline(t)
}
func (c *c18fconn) SetReadDeadline(t time.Time) error {
	c.mu.Lock()
	defer c.mu.Unlock()
	if c.closed {
		return net.ErrClosed
	}
	c.rdl = t
	c.signal()
	return nil
}
func (c *c18fconn) SetWriteDeadline(t time.Time) error {
	if c.isClosed() {
		return net.ErrClosed
	}
	return nil
}

// ---------------------------------------------------------------- fake quic.Connection / quic.Stream

type c18qconn struct {
	quic.Connection // nil: only the methods below are used by QuicTransport
	h               *c18man
	id              int
	ctx             context.Context
	cancel          context.CancelFunc
	mu              sync.Mutex
	closed          bool
	limit           bool // op L: no more stream credit
	streams         []*c18qstream
}

func (c *c18qconn) isClosed() bool { c.mu.Lock(); defer c.mu.Unlock(); return c.closed }

func (c *c18qconn) OpenStream() (quic.Stream, error) {
	c.mu.Lock()
	defer c.mu.Unlock()
	if c.closed {
		return nil, net.ErrClosed
	}
	s := &c18qstream{c: c, wake: make(chan struct{})}
	c.streams = append(c.streams, s)
	return s, nil
}

// OpenStreamSync: once the script has said `L` (the peer's stream limit is reached) it blocks until the caller's
// context ends or the connection is closed, like quic-go does; the connection itself stays healthy.
func (c *c18qconn) OpenStreamSync(ctx context.Context) (quic.Stream, error) {
	c.mu.Lock()
	lim := c.limit
	c.mu.Unlock()
	if lim {
		select {
		case <-ctx.Done():
			return nil, context.Cause(ctx)
		case <-c.ctx.Done():
			return nil, net.ErrClosed
		}
	}
	return c.OpenStream()
}

func (c *c18qconn) CloseWithError(quic.ApplicationErrorCode, string) error {
	c.mu.Lock()
	c.closed = true
	ss := c.streams
	c.mu.Unlock()
	c.cancel()
	for _, s := range ss {
		s.abort()
	}
	return nil
}
func (c *c18qconn) Context() context.Context { return c.ctx }
func (c *c18qconn) LocalAddr() net.Addr      { return c18addr{} }
func (c *c18qconn) RemoteAddr() net.Addr     { return c18addr{} }

type c18qstream struct {
	quic.Stream // nil
	c           *c18qconn
	mu          sync.Mutex
	wake        chan struct{}
	wbuf        []byte
	rbuf        []byte
	dead        bool // connection closed or read cancelled
	wdead       bool
}

func (s *c18qstream) signal() { close(s.wake); s.wake = make(chan struct{}) }
func (s *c18qstream) abort() {
	s.mu.Lock()
	s.dead, s.wdead = true, true
	s.signal()
	s.mu.Unlock()
}
func (s *c18qstream) Write(b []byte) (int, error) {
	s.mu.Lock()
	if s.wdead {
		s.mu.Unlock()
		return 0, net.ErrClosed
	}
	s.wbuf = append(s.wbuf, b...)
	var msg []byte
	if len(s.wbuf) >= 2 {
		if l := int(binary.BigEndian.Uint16(s.wbuf)); len(s.wbuf) >= 2+l {
			msg = append([]byte(nil), s.wbuf[2:2+l]...)
			s.wbuf = s.wbuf[2+l:]
		}
	}
	s.mu.Unlock()
	if msg != nil {
		s.c.h.gotQuery(nil, c18Nonce(msg), msg, func(reply []byte) bool {
			s.mu.Lock()
			defer s.mu.Unlock()
			if s.dead {
				return false
			}
			f := make([]byte, 2+len(reply))
			binary.BigEndian.PutUint16(f, uint16(len(reply)))
			copy(f[2:], reply)
			s.rbuf = append(s.rbuf, f...)
			s.signal()
			return true
		})
	}
	return len(b), nil
}
func (s *c18qstream) Read(b []byte) (int, error) {
	for {
		s.mu.Lock()
		if s.dead {
			s.mu.Unlock()
			return 0, net.ErrClosed
		}
		if len(s.rbuf) > 0 {
			n := copy(b, s.rbuf)
			s.rbuf = s.rbuf[n:]
			s.mu.Unlock()
			return n, nil
		}
		wake := s.wake
		s.mu.Unlock()
		<-wake
	}
}
func (s *c18qstream) Close() error { s.mu.Lock(); s.wdead = true; s.mu.Unlock(); return nil }
func (s *c18qstream) CancelRead(quic.StreamErrorCode) {
	s.mu.Lock()
	s.dead = true
	s.signal()
	s.mu.Unlock()
}
func (s *c18qstream) CancelWrite(quic.StreamErrorCode) { s.mu.Lock(); s.wdead = true; s.mu.Unlock() }
func (s *c18qstream) SetDeadline(time.Time) error      { return nil }
func (s *c18qstream) SetReadDeadline(time.Time) error  { return nil }
func (s *c18qstream) SetWriteDeadline(time.Time) error { return nil }
func (s *c18qstream) StreamID() quic.StreamID          { return 0 }
func (s *c18qstream) Context() context.Context         { return s.c.ctx }

// ---------------------------------------------------------------- one manual case

type c18gate struct {
	e        int
	stubborn bool
	ch       chan bool
	gone     bool
}

type c18ex struct {
	id        int
	ctx       context.Context
	cancel    context.CancelFunc
	cancelled bool
	done      bool
	res       string
	querySeen bool
	answered  bool
	reply     func([]byte) bool
	query     []byte
	conn      *c18fconn
}

type c18xchg interface {
	ExchangeContext(ctx context.Context, q []byte) (*dnsmsg.Msg, error)
	Close() error
}

type c18man struct {
	mu         sync.Mutex
	kind       string
	tcp        bool
	idle       time.Duration
	t          c18xchg
	gates      map[int]*c18gate
	exs        map[int]*c18ex
	order      []int
	conns      []interface{ isClosed() bool }
	ndials     int
	curStarter int
	curStub    bool
	base       int // nonce base
	autoAnswer bool
}

func (h *c18man) gotQuery(c *c18fconn, nonce int, msg []byte, reply func([]byte) bool) {
	h.mu.Lock()
	if h.autoAnswer {
		h.mu.Unlock()
		reply(c18Reply(msg))
		return
	}
	defer h.mu.Unlock()
	if x := h.exs[nonce-h.base]; x != nil && nonce >= h.base {
		x.querySeen, x.reply, x.query, x.answered, x.conn = true, reply, msg, false, c
	}
}

const c18IdSpace = 65536

func (c *c18fconn) usedIds() int { c.mu.Lock(); defer c.mu.Unlock(); return c.used }

// burn: answered exchanges take wire ids of the live pipelined connection until k are left (only while no
// caller is blocked and no dial is pending; nothing happens if the connection has fewer than k left).
func (h *c18man) burn(k int) {
	if h.kind != "pipe" || len(h.blockedIds(false)) > 0 {
		return
	}
	h.mu.Lock()
	ngates := len(h.gates)
	var live *c18fconn
	for _, c := range h.conns {
		if fc, ok := c.(*c18fconn); ok && !fc.isClosed() && fc.usedIds() < c18IdSpace {
			live = fc
			break
		}
	}
	h.mu.Unlock()
	if ngates > 0 || live == nil || h.isClosed() {
		return
	}
	n := c18IdSpace - k - live.usedIds()
	if n < 0 {
		return
	}
	h.mu.Lock()
	h.autoAnswer = true
	h.mu.Unlock()
	for i := 0; i < n; i++ {
		ctx, cancel := context.WithTimeout(context.Background(), c18CallMax)
		_, err := h.t.ExchangeContext(ctx, c18Query(h.base+10000+i, 7))
		cancel()
		if err != nil {
			fmt.Fprintf(os.Stderr, "c18: burn exchange %d failed: %v\n", i, err)
			break
		}
	}
	h.mu.Lock()
	h.autoAnswer = false
	h.mu.Unlock()
	h.eolSettle()
}

// a pipelined connection without wire ids closes itself when its last query is done (asynchronously)
func (h *c18man) eolSettle() {
	if h.kind != "pipe" {
		return
	}
	h.mu.Lock()
	var eol []*c18fconn
	for _, c := range h.conns {
		if fc, ok := c.(*c18fconn); ok && fc.usedIds() >= c18IdSpace {
			busy := false
			for _, x := range h.exs {
				if !x.done && x.querySeen && !x.answered && x.conn == fc {
					busy = true
				}
			}
			if !busy {
				eol = append(eol, fc)
			}
		}
	}
	h.mu.Unlock()
	for _, fc := range eol {
		c18Wait(fc.isClosed)
	}
}

// the injected DialContext: returns (id, ok) once the gate is released
func (h *c18man) gate(ctx context.Context) (int, error) {
	h.mu.Lock()
	g := &c18gate{e: h.curStarter, stubborn: h.curStub, ch: make(chan bool, 1)}
	h.gates[g.e] = g
	h.ndials++
	h.mu.Unlock()
	var ok bool
	if g.stubborn {
		ok = <-g.ch
	} else {
		select {
		case ok = <-g.ch:
		case <-ctx.Done():
			h.mu.Lock()
			g.gone = true
			if h.gates[g.e] == g {
				delete(h.gates, g.e)
			}
			h.mu.Unlock()
			return 0, context.Cause(ctx)
		}
	}
	if !ok {
		return 0, errors.New("c18: dial refused")
	}
	return g.e, nil
}

func (h *c18man) dialNet(ctx context.Context) (net.Conn, error) {
	id, err := h.gate(ctx)
	if err != nil {
		return nil, err
	}
	c := &c18fconn{h: h, id: id, tcp: h.tcp, wake: make(chan struct{})}
	h.mu.Lock()
	h.conns = append(h.conns, c)
	h.mu.Unlock()
	return c, nil
}

func (h *c18man) dialQuic(ctx context.Context) (quic.Connection, error) {
	id, err := h.gate(ctx)
	if err != nil {
		return nil, err
	}
	cctx, cancel := context.WithCancel(context.Background())
	c := &c18qconn{h: h, id: id, ctx: cctx, cancel: cancel}
	h.mu.Lock()
	h.conns = append(h.conns, c)
	h.mu.Unlock()
	return c, nil
}

func (h *c18man) openConns() int {
	h.mu.Lock()
	cs := append([]interface{ isClosed() bool }(nil), h.conns...)
	h.mu.Unlock()
	n := 0
	for _, c := range cs {
		if !c.isClosed() {
			n++
		}
	}
	return n
}

// unexported state of the transports, read under their own locks
func c18Field(obj any, name string) reflect.Value {
	v := reflect.ValueOf(obj).Elem().FieldByName(name)
	return reflect.NewAt(v.Type(), unsafe.Pointer(v.UnsafeAddr())).Elem()
}

func (h *c18man) reuseIdle() int {
	t := h.t.(*transport.ReuseConnTransport)
	mu := c18Field(t, "m").Addr().Interface().(*sync.Mutex)
	mu.Lock()
	defer mu.Unlock()
	return c18Field(t, "idleConns").Len()
}

func (h *c18man) dialsRegistered() bool {
	switch t := h.t.(type) {
	case *transport.PipelineTransport:
		p := c18Field(t, "pool").Interface().(*connpool.Pool)
		st := p.Status()
		h.mu.Lock()
		n := len(h.gates)
		h.mu.Unlock()
		return st.Closed || st.Dialing <= n
	case *transport.QuicTransport:
		mu := c18Field(t, "m").Addr().Interface().(*sync.Mutex)
		mu.Lock()
		defer mu.Unlock()
		h.mu.Lock()
		n := len(h.gates)
		h.mu.Unlock()
		return n > 0 || c18Field(t, "dialingCall").IsNil()
	}
	return true
}

// settled: every caller that has not returned is visibly parked (its own dial gate is pending, or its
// query is at the server unanswered, or — shared dials — some dial is pending).
func (h *c18man) settled() bool {
	h.mu.Lock()
	defer h.mu.Unlock()
	for _, x := range h.exs {
		if x.done {
			continue
		}
		if g := h.gates[x.id]; g != nil && !g.gone {
			continue
		}
		if x.querySeen && !x.answered {
			continue
		}
		if h.kind != "reuse" && len(h.gates) > 0 {
			continue
		}
		return false
	}
	return true
}

func (h *c18man) ordinaryGates() int {
	h.mu.Lock()
	defer h.mu.Unlock()
	n := 0
	for _, g := range h.gates {
		if !g.stubborn && !g.gone {
			n++
		}
	}
	return n
}

func (h *c18man) blockedIds(exceptOnGates bool) []int {
	h.mu.Lock()
	defer h.mu.Unlock()
	var l []int
	for _, x := range h.exs {
		if x.done {
			continue
		}
		if exceptOnGates {
			if g := h.gates[x.id]; g != nil && g.stubborn && h.kind == "reuse" {
				continue
			}
			if h.kind == "quic" && len(h.gates) > 0 {
				continue
			}
		}
		l = append(l, x.id)
	}
	sort.Ints(l)
	return l
}

func (h *c18man) start(e int, stub bool) {
	h.mu.Lock()
	if h.exs[e] != nil {
		h.mu.Unlock()
		return
	}
	ctx, cancel := context.WithCancel(context.Background())
	x := &c18ex{id: e, ctx: ctx, cancel: cancel}
	h.exs[e] = x
	h.order = append(h.order, e)
	h.curStarter, h.curStub = e, stub
	pendingShared := h.kind != "reuse" && len(h.gates) > 0
	nd := h.ndials
	h.mu.Unlock()
	q := c18Query(h.base+e, uint16(0x4000+e))
	go func() {
		m, err := h.t.ExchangeContext(ctx, q)
		res := "err"
		if err == nil && m != nil && c18RespNonce(m) == h.base+e && m.Header.ID == uint16(0x4000+e) {
			res = "ok"
		} else if err == nil {
			res = "badmsg"
		}
		h.mu.Lock()
		if err != nil && x.cancelled && errors.Is(err, context.Canceled) {
			res = "ctx"
		}
		x.done, x.res = true, res
		h.mu.Unlock()
	}()
	ev := func() bool {
		h.mu.Lock()
		defer h.mu.Unlock()
		return x.done || x.querySeen || h.ndials > nd
	}
	if pendingShared {
		c18Until(c18Grace, ev) // the caller joins the pending dial: nothing to see
	} else {
		c18Wait(ev)
	}
}

func (h *c18man) release(e int, ok bool) {
	h.mu.Lock()
	g := h.gates[e]
	if g == nil || g.gone {
		h.mu.Unlock()
		return
	}
	delete(h.gates, e)
	x := h.exs[e]
	abandoned := h.kind == "reuse" && x != nil && x.done
	nconns := len(h.conns)
	h.mu.Unlock()
	idle0 := 0
	if abandoned {
		idle0 = h.reuseIdle()
	}
	closed := h.isClosed()
	g.ch <- ok
	c18Wait(func() bool {
		if !h.settled() || !h.dialsRegistered() {
			return false
		}
		if ok {
			h.mu.Lock()
			n := len(h.conns)
			h.mu.Unlock()
			if n <= nconns {
				return false
			}
			if closed {
				return h.openConns() == 0 // the property: a late connection gets closed
			}
			if abandoned && h.reuseIdle() <= idle0 {
				return false
			}
		}
		return true
	})
}

func (h *c18man) isClosed() bool {
	switch t := h.t.(type) {
	case *transport.ReuseConnTransport:
		mu := c18Field(t, "m").Addr().Interface().(*sync.Mutex)
		mu.Lock()
		defer mu.Unlock()
		return c18Field(t, "closed").Bool()
	case *transport.PipelineTransport:
		return c18Field(t, "pool").Interface().(*connpool.Pool).Status().Closed
	case *transport.QuicTransport:
		mu := c18Field(t, "m").Addr().Interface().(*sync.Mutex)
		mu.Lock()
		defer mu.Unlock()
		return c18Field(t, "closed").Bool()
	}
	return false
}

func (h *c18man) reply(e int) {
	h.mu.Lock()
	x := h.exs[e]
	if x == nil || !x.querySeen || x.answered {
		h.mu.Unlock()
		return
	}
	x.answered = true
	rep, q, wasDone := x.reply, x.query, x.done
	h.mu.Unlock()
	idle0 := 0
	closed := h.isClosed()
	if h.kind == "reuse" && !closed {
		idle0 = h.reuseIdle()
	}
	if !rep(c18Reply(q)) {
		return // the connection is gone
	}
	c18Wait(func() bool {
		h.mu.Lock()
		d := x.done
		h.mu.Unlock()
		if !d {
			return false
		}
		if h.kind == "reuse" && !closed && h.reuseIdle() <= idle0 {
			return false
		}
		_ = wasDone
		return true
	})
}

func (h *c18man) cancelEx(e int) {
	h.mu.Lock()
	x := h.exs[e]
	if x == nil || x.done {
		h.mu.Unlock()
		return
	}
	x.cancelled = true
	h.mu.Unlock()
	x.cancel()
	c18Wait(func() bool { h.mu.Lock(); defer h.mu.Unlock(); return x.done })
}

func (h *c18man) timer() {
	if len(h.blockedIds(false)) > 0 {
		return
	}
	if h.kind == "quic" {
		return
	}
	time.Sleep(h.idle + h.idle/2)
	c18Wait(func() bool {
		want := 0
		if h.kind == "reuse" {
			// connections on which an abandoned worker still waits for its reply are not idle
			h.mu.Lock()
			for _, x := range h.exs {
				if x.querySeen && !x.answered {
					want++
				}
			}
			h.mu.Unlock()
		}
		return h.openConns() <= want
	})
}

func c18RunManual(m map[string]string, ops []string, withTimer bool) (out string, slow bool) {
	h := &c18man{kind: m["k"], tcp: m["fr"] != "udp", gates: map[int]*c18gate{}, exs: map[int]*c18ex{}, base: 1000}
	h.idle = c18IdleLong
	if withTimer {
		h.idle = c18IdleShort
	}
	switch h.kind {
	case "reuse":
		h.tcp = true
		h.t = transport.NewReuseConnTransport(transport.ReuseConnOpts{DialContext: h.dialNet, DialTimeout: time.Minute, IdleTimeout: h.idle})
	case "pipe":
		h.t = transport.NewPipelineTransport(transport.PipelineOpts{DialContext: h.dialNet, DialTimeout: time.Minute,
			IsTCP: h.tcp, IdleTimeout: h.idle, MaxConcurrentQuery: 64})
	case "quic":
		h.t = transport.NewQuicTransport(transport.QuicTransportOpts{DialContext: h.dialQuic, DialTimeout: time.Minute})
	default:
		return "bad-case", false
	}
	closes, clRes := 0, ""
	atc := "-"
	firstClose := true
	last := time.Now()
	for _, op := range ops {
		if op == "" {
			continue
		}
		if withTimer && time.Since(last) > c18SegMax {
			slow = true
		}
		n := 0
		if len(op) > 1 {
			n = atoi(op[1:])
		}
		switch op[0] {
		case 's':
			h.start(n, false)
		case 'S':
			h.start(n, true)
		case 'd':
			h.release(n, true)
		case 'f':
			h.release(n, false)
		case 'r':
			h.reply(n)
		case 'c':
			h.cancelEx(n)
		case 't':
			h.timer()
		case 'B':
			h.burn(n)
		case 'L': // (quic) every live connection is at its peer's stream limit from now on
			h.mu.Lock()
			for _, cc := range h.conns {
				if qc, ok := cc.(*c18qconn); ok {
					qc.mu.Lock()
					qc.limit = true
					qc.mu.Unlock()
				}
			}
			h.mu.Unlock()
		case 'C':
			r := c18Call(c18CallMax, func() { h.t.Close() })
			if r != "ok" {
				if clRes == "" {
					clRes = r
				}
			} else {
				closes++
			}
			if firstClose {
				firstClose = false
				// ordinary gates return when the transport's context is cancelled
				c18Wait(func() bool { return h.ordinaryGates() == 0 })
				c18Wait(func() bool { return len(h.blockedIds(true)) == 0 && h.settled() })
				atc = c18Ids(h.blockedIds(false))
			}
		}
		last = time.Now()
	}
	h.eolSettle()
	closedAtEnd := h.isClosed()
	if closedAtEnd {
		// epilogue: every dial that is still pending completes with a connection (late dial)
		h.mu.Lock()
		var pend []int
		for e := range h.gates {
			pend = append(pend, e)
		}
		h.mu.Unlock()
		sort.Ints(pend)
		for _, e := range pend {
			h.release(e, true)
		}
		c18Wait(func() bool { return h.openConns() == 0 && len(h.blockedIds(false)) == 0 })
	}
	h.mu.Lock()
	var parts []string
	ids := append([]int(nil), h.order...)
	sort.Ints(ids)
	for _, e := range ids {
		x := h.exs[e]
		r := "pend"
		if x.done {
			r = x.res
		}
		parts = append(parts, fmt.Sprintf("%d:%s", e, r))
	}
	nd := h.ndials
	h.mu.Unlock()
	res := "-"
	if len(parts) > 0 {
		res = strings.Join(parts, ",")
	}
	cl := strconv.Itoa(closes)
	if clRes != "" {
		cl = clRes
	}
	out = fmt.Sprintf("res=%s cl=%s open=%d atc=%s dials=%d", res, cl, h.openConns(), atc, nd)
	// clean up: let every goroutine go
	h.mu.Lock()
	for _, g := range h.gates {
		select {
		case g.ch <- false:
		default:
		}
	}
	for _, x := range h.exs {
		x.cancel()
	}
	h.mu.Unlock()
	go func() {
		defer func() { recover() }()
		h.t.Close()
	}()
	return out, slow
}

func c18CloseRun(c string) string {
	m := kv(c)
	ops := c18List(m["ops"])
	if m["auto"] == "1" {
		return c18Retry(func() string { return c18NoGC(func() string { return c18RunAuto(m, ops) }) })
	}
	if m["stall"] == "1" {
		return c18Retry(func() string { return c18NoGC(func() string { return c18RunStall(m, ops) }) })
	}
	withTimer := false
	for _, op := range ops {
		if op == "t" {
			withTimer = true
		}
	}
	return c18Retry(func() string {
		var out string
		for try := 0; try < 3; try++ {
			var slow bool
			out, slow = c18RunManual(m, ops, withTimer)
			if !slow {
				break
			}
		}
		return out
	})
}

// ---------------------------------------------------------------- generator

func c18CloseGen(r *rand.Rand, thorough bool, emit func(c, cat string)) {
	kinds := []string{"reuse", "pipe", "quic"}
	// fixed scenarios: Close before / during / after dial, exchange, idle timer; late dials; repeated Close
	fixed := []string{
		"C", "C,C", "s1,C", "S1,C,d1", "S1,C,f1", "s1,d1,C", "s1,d1,r1,C", "s1,d1,r1,C,s2", "s1,d1,r1,C,C,s2,C",
		"s1,d1,r1,s2,C", "s1,d1,r1,s2,r2,C,s3", "s1,d1,c1,C", "s1,c1,C", "S1,c1,C,d1", "S1,c1,d1,C", "s1,c1,d1,s2,C",
		"s1,d1,r1,t,C", "s1,d1,r1,t,s2,d2,C", "s1,d1,r1,t,s2,C", "S1,S2,C,d1,d2", "S1,S2,C,d2,f1", "s1,s2,d1,C", "s1,s2,d1,d2,r1,C,r2",
		"s1,d1,s2,d2,r1,r2,C", "S1,s2,C,d1,s3", "s1,d1,c1,r1,C", "s1,d1,c1,C,r1", "s1,f1,C", "S1,C,C,d1,C", "s1,d1,r1,s2,c2,C",
	}
	for _, k := range kinds {
		for i, ops := range fixed {
			if !thorough && strings.Contains(ops, "t") && (i+len(k))%3 != 0 {
				continue
			}
			c := "k=" + k + " auto=0"
			if k == "pipe" && i%3 == 1 {
				c += " fr=udp"
			}
			emit(c+" ops="+ops, k+"/fixed")
		}
	}
	// wire-id exhaustion of a pipelined connection (65536 ids): the connection that ran out of ids still has
	// queries in flight, the pool is used once more (cancel / another exchange), then Close
	burn := []string{
		"s1,d1,r1,B2,s2,s3,s4,c2,C", "s1,d1,r1,B3,s2,s3,s4,s5,C,d5", "s1,d1,r1,B0,s2,d2,r2,C",
		"s1,d1,r1,B1,s2,r2", "s1,d1,r1,B2,s2,s3,c2,s4,d4,r4,C,r3", "s1,d1,B3,r1,B1,s2,s3,d3,c2,C,C",
		"s1,d1,r1,B2,s2,s3,r3,s4,d4,C", "s1,d1,r1,B1,s2,c2,s3,d3,r3,t,C",
	}
	for i, ops := range burn {
		if !thorough && i > 2 {
			break
		}
		c := "k=pipe auto=0"
		if i%2 == 0 {
			c += " fr=udp"
		}
		emit(c+" ops="+ops, "pipe/id-exhaustion")
		if thorough {
			c = "k=pipe auto=0"
			if i%2 == 1 {
				c += " fr=udp"
			}
			emit(c+" ops="+ops, "pipe/id-exhaustion")
		}
	}
	// (quic) exchanges waiting for stream credit on a healthy connection that has a query in flight: their contexts
	// end, then Close — the connection is still the transport's to close, the query in flight fails
	for _, ops := range []string{"s1,d1,L,s2,c2,C", "s1,d1,L,s2,s3,c3,c2,C,C", "s1,d1,r1,L,s2,c2,s3,C"} {
		emit("k=quic auto=0 ops="+ops, "quic/stream-limit")
	}
	n := 60
	if thorough {
		n = 700
	}
	for i := 0; i < n; i++ {
		k := kinds[r.Intn(len(kinds))]
		ne := 1 + r.Intn(4)
		if thorough {
			ne = 1 + r.Intn(6)
		}
		var ops []string
		started := map[int]bool{}
		nops := 3 + r.Intn(10)
		closedAt := -1
		if r.Intn(8) > 0 {
			closedAt = r.Intn(nops)
		}
		timers := 0
		for j := 0; j < nops; j++ {
			if j == closedAt {
				ops = append(ops, "C")
				continue
			}
			e := 1 + r.Intn(ne)
			switch x := r.Intn(16); {
			case x < 4 || !started[e]:
				if r.Intn(3) == 0 {
					ops = append(ops, "S"+strconv.Itoa(e))
				} else {
					ops = append(ops, "s"+strconv.Itoa(e))
				}
				started[e] = true
			case x < 8:
				ops = append(ops, "d"+strconv.Itoa(e))
			case x < 9:
				ops = append(ops, "f"+strconv.Itoa(e))
			case x < 12:
				ops = append(ops, "r"+strconv.Itoa(e))
			case x < 14:
				ops = append(ops, "c"+strconv.Itoa(e))
			case x < 15 && thorough && k == "pipe" && i%9 == 0:
				ops = append(ops, "B"+strconv.Itoa(r.Intn(4)))
			case x < 15:
				if timers == 0 && ((thorough && i%4 == 0) || i%6 == 0) {
					ops = append(ops, "t")
					timers++
				} else {
					ops = append(ops, "d"+strconv.Itoa(e))
				}
			default:
				ops = append(ops, "C")
			}
		}
		c := "k=" + k + " auto=0"
		if k == "pipe" && r.Intn(3) == 0 {
			c += " fr=udp"
		}
		cat := k + "/random"
		if closedAt < 0 {
			cat = k + "/random-maybe-open"
		}
		emit(c+" ops="+strings.Join(ops, ","), cat)
	}
	c18AutoGen(r, thorough, emit)
	c18StallGen(r, thorough, emit)
}
