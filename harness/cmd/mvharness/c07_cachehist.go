package main

// C07 / components "cachehist", "cachestress", "cacheval".
//
// cachehist — histories on a real router (VerifRun, memory cache with ample capacity, a range file,
// one rule forwarding everything to a scripted upstream):
//   case: f=<hex range file> ops=<op>;<op>;…
//     s,<key>,<r>,<nx>,<namehex>,<class>,<type>,<addr>   CacheStore of response #r (nx=1: NXDOMAIN → SetIfAbsent)
//     g,<key>,<namehex>,<class>,<type>,<addr>            CacheGet
//     h,<key>,<r>,<namehex>,<class>,<type>,<addr>        client query through handleServerReq; if the upstream
//                                                        is asked it answers with response #r
//   <key> names the tuple (lower-cased name, class, type, group label) *by construction* in the generator;
//   <r> is unique per op.  The name is sent with the given (mixed) case.
//   out: s | hit:<r> | miss | c:<r> (answered from cache, upstream not asked) | u:<r> (upstream asked once) | bad
//   where <r> is recovered from the fingerprint (ID and TTLs masked) of the message that was served;
//   "?" when it matches no response of this history.
//
// cachestress — goroutines storing / getting on the real MemoryCache (mode=mem) or through
// cacheCtl.Store/Get (mode=ctl) with a tiny capacity; every value embeds the key it was stored under.
//   case: mode=<mem|ctl> g=<goroutines> n=<ops per goroutine> keys=<n> cap=<bytes> seed=<n>
//   out : bad=<hits whose value embeds another key> live=<1 iff hits and misses both occurred>
//
// cacheval — unpackCacheMsg(packCacheMsg(m)) on generated messages: rt=1 iff the result re-packs to the same octets.

import (
	"bytes"
	"context"
	"encoding/binary"
	"fmt"
	"hash/fnv"
	"math/rand"
	"net/netip"
	"os"
	"strings"
	"sync"
	"sync/atomic"
	"time"

	"github.com/IrineSistiana/mosproxy/app/router"
	"github.com/IrineSistiana/mosproxy/internal/cache"
	"github.com/IrineSistiana/mosproxy/internal/dnsmsg"
	"github.com/IrineSistiana/mosproxy/internal/mlog"
	"github.com/IrineSistiana/mosproxy/internal/pool"
	"github.com/rs/zerolog"
)

// ---- message construction

func c07pname(b []byte) dnsmsg.Name { return dnsmsg.Name(pool.CopyBuf(b)) }

func c07hdr(name []byte, typ dnsmsg.Type, class dnsmsg.Class, ttl uint32) dnsmsg.ResourceHdr {
	return dnsmsg.ResourceHdr{Name: c07pname(name), Type: typ, Class: class, TTL: ttl}
}

func c07rr(r *rand.Rand, owner []byte, minTTL uint32) dnsmsg.Resource {
	ttl := minTTL + uint32(r.Intn(80000))
	if r.Intn(10) == 0 {
		ttl = minTTL
	}
	switch r.Intn(7) {
	case 0:
		a := dnsmsg.NewA()
		a.ResourceHdr = c07hdr(owner, dnsmsg.TypeA, dnsmsg.ClassINET, ttl)
		r.Read(a.A[:])
		return a
	case 1:
		a := dnsmsg.NewAAAA()
		a.ResourceHdr = c07hdr(owner, dnsmsg.TypeAAAA, dnsmsg.ClassINET, ttl)
		r.Read(a.AAAA[:])
		return a
	case 2:
		n := dnsmsg.NewNAME()
		n.ResourceHdr = c07hdr(owner, []dnsmsg.Type{dnsmsg.TypeCNAME, dnsmsg.TypeNS, dnsmsg.TypePTR}[r.Intn(3)], dnsmsg.ClassINET, ttl)
		n.NameData = c07pname(c07name(r, 60))
		return n
	case 3:
		m := dnsmsg.NewMX()
		m.ResourceHdr = c07hdr(owner, dnsmsg.TypeMX, dnsmsg.ClassINET, ttl)
		m.Pref = uint16(r.Intn(65536))
		m.MX = c07pname(c07name(r, 60))
		return m
	case 4:
		s := dnsmsg.NewSOA()
		s.ResourceHdr = c07hdr(owner, dnsmsg.TypeSOA, dnsmsg.ClassINET, ttl)
		s.NS = c07pname(c07name(r, 40))
		s.MBox = c07pname(c07name(r, 40))
		s.Serial, s.Refresh, s.Retry, s.Expire, s.MinTTL = r.Uint32(), r.Uint32(), r.Uint32(), r.Uint32(), r.Uint32()
		return s
	case 5:
		s := dnsmsg.NewSRV()
		s.ResourceHdr = c07hdr(owner, dnsmsg.TypeSRV, dnsmsg.ClassINET, ttl)
		s.Priority, s.Weight, s.Port = uint16(r.Intn(65536)), uint16(r.Intn(65536)), uint16(r.Intn(65536))
		s.Target = c07pname(c07name(r, 60))
		return s
	default:
		x := dnsmsg.NewRaw()
		x.ResourceHdr = c07hdr(owner, []dnsmsg.Type{dnsmsg.TypeTXT, 99, 257, 65}[r.Intn(4)], dnsmsg.Class([]int{1, 3, 254}[r.Intn(3)]), ttl)
		d := make([]byte, r.Intn(40))
		r.Read(d)
		x.Data = pool.CopyBuf(d)
		return x
	}
}

// c07build: response #id to question (name, class, typ). Deterministic in its arguments.
// Header: QR RD RA set (what the router would set anyway), AA/AD/CD and the section contents vary.
func c07build(id int, name []byte, class, typ int, nx bool, minTTL uint32) *dnsmsg.Msg {
	r := rand.New(rand.NewSource(int64(id)*104729 + 17))
	m := dnsmsg.NewMsg()
	m.Header = dnsmsg.Header{Response: true, RecursionDesired: true, RecursionAvailable: true,
		Authoritative: r.Intn(2) == 0, AuthenticData: r.Intn(2) == 0, CheckingDisabled: r.Intn(4) == 0}
	if nx {
		m.Header.RCode = dnsmsg.RCodeNameError
	}
	q := dnsmsg.NewQuestion()
	q.Name, q.Class, q.Type = c07pname(name), dnsmsg.Class(class), dnsmsg.Type(typ)
	m.Questions = append(m.Questions, q)
	// the id is embedded so that two different responses never look alike
	tag := dnsmsg.NewA()
	tag.ResourceHdr = c07hdr(name, dnsmsg.TypeA, dnsmsg.ClassINET, minTTL+uint32(r.Intn(1000)))
	binary.BigEndian.PutUint32(tag.A[:], uint32(id))
	if nx {
		m.Authorities = append(m.Authorities, tag)
	} else {
		m.Answers = append(m.Answers, tag)
	}
	for i, n := 0, r.Intn(4); i < n; i++ {
		m.Answers = append(m.Answers, c07rr(r, name, minTTL))
	}
	for i, n := 0, r.Intn(3); i < n; i++ {
		m.Authorities = append(m.Authorities, c07rr(r, c07name(r, 50), minTTL))
	}
	for i, n := 0, r.Intn(3); i < n; i++ {
		m.Additionals = append(m.Additionals, c07rr(r, c07name(r, 50), minTTL))
	}
	return m
}

func c07packPlain(m *dnsmsg.Msg) []byte {
	b := make([]byte, m.Len()+64)
	n, err := m.Pack(b, false, 0)
	if err != nil {
		return nil
	}
	return b[:n]
}

// c07fp: fingerprint of a message with the transaction ID and every TTL (OPT excluded) masked.
func c07fp(m *dnsmsg.Msg) uint64 {
	id := m.Header.ID
	m.Header.ID = 0
	var ttls []uint32
	for _, rs := range [][]dnsmsg.Resource{m.Answers, m.Authorities, m.Additionals} {
		for _, rr := range rs {
			h := rr.Hdr()
			if h.Type != dnsmsg.TypeOPT {
				ttls = append(ttls, h.TTL)
				h.TTL = 0
			}
		}
	}
	b := c07packPlain(m)
	m.Header.ID = id
	i := 0
	for _, rs := range [][]dnsmsg.Resource{m.Answers, m.Authorities, m.Additionals} {
		for _, rr := range rs {
			h := rr.Hdr()
			if h.Type != dnsmsg.TypeOPT {
				h.TTL = ttls[i]
				i++
			}
		}
	}
	h := fnv.New64a()
	h.Write(b)
	if b == nil {
		return 0
	}
	return h.Sum64()
}

func c07ttls(m *dnsmsg.Msg) []uint32 {
	var ttls []uint32
	for _, rs := range [][]dnsmsg.Resource{m.Answers, m.Authorities, m.Additionals} {
		for _, rr := range rs {
			ttls = append(ttls, rr.Hdr().TTL)
		}
	}
	return ttls
}

// ---- scripted upstream

type c07upstream struct {
	mu    sync.Mutex
	calls int
	next  func(q *dnsmsg.Question) *dnsmsg.Msg
}

func (u *c07upstream) ExchangeContext(ctx context.Context, m []byte) (*dnsmsg.Msg, error) {
	q, err := dnsmsg.UnpackMsg(m)
	if err != nil {
		return nil, err
	}
	defer dnsmsg.ReleaseMsg(q)
	u.mu.Lock()
	defer u.mu.Unlock()
	u.calls++
	if len(q.Questions) != 1 || u.next == nil {
		return nil, fmt.Errorf("no script")
	}
	return u.next(q.Questions[0]), nil
}

func (u *c07upstream) Close() error { return nil }

var c07once sync.Once

func c07quiet() {
	c07once.Do(func() { mlog.SetLvl(zerolog.Disabled) })
}

func c07router(rangeFile []byte, memSize int) (*router.VerifRouter, *c07upstream, func(), error) {
	c07quiet()
	cfg := &router.Config{
		Upstreams: []router.UpstreamConfig{{Tag: "up", Addr: "udp://127.0.0.1:9"}},
		Rules:     []router.RuleConfig{{Forward: "up"}},
		Cache:     router.CacheConfig{MemSize: memSize},
	}
	var tmp string
	if rangeFile != nil {
		f, err := os.CreateTemp("", "c07-ranges-*")
		if err != nil {
			return nil, nil, nil, err
		}
		f.Write(rangeFile)
		f.Close()
		tmp = f.Name()
		cfg.Cache.IpMarker = tmp
	}
	vr, err := router.VerifRun(cfg)
	if tmp != "" {
		os.Remove(tmp)
	}
	if err != nil {
		return nil, nil, nil, err
	}
	up := &c07upstream{}
	if !vr.SetUpstream("up", up) {
		vr.Close()
		return nil, nil, nil, fmt.Errorf("no upstream")
	}
	return vr, up, func() { vr.Close() }, nil
}

// ---- cachehist

const c07minTTL = 600

// Routers are shared by all histories of a run (one per range file); every history uses names
// under its own first label, so histories cannot see each other's entries.
type c07shared struct {
	vr *router.VerifRouter
	up *c07upstream
}

var c07routers = map[string]*c07shared{}

func c07sharedRouter(file []byte, key string) (*c07shared, error) {
	if s, ok := c07routers[key]; ok {
		return s, nil
	}
	vr, up, _, err := c07router(file, 256<<20)
	if err != nil {
		return nil, err
	}
	s := &c07shared{vr, up}
	c07routers[key] = s
	return s, nil
}

func c07histTeardown() {
	for k, s := range c07routers {
		s.vr.Close()
		delete(c07routers, k)
	}
}

func c07histRun(cs string) string {
	m := kv(cs)
	var file []byte
	if f, ok := m["f"]; ok && f != "none" {
		file = unhex(f)
		if file == nil {
			file = []byte{}
		}
	}
	sh, err := c07sharedRouter(file, m["f"])
	if err != nil {
		return "router-error"
	}
	vr, up := sh.vr, sh.up

	fps := map[uint64]string{}     // fingerprint → response number
	ttlOf := map[uint64][]uint32{} // fingerprint → the TTLs of the response as first produced
	lower := func(n []byte) []byte {
		o := append([]byte(nil), n...)
		dnsmsg.ToLowerName(o)
		return o
	}
	note := func(r int, name []byte, class, typ int, nx bool) {
		bm := c07build(r, lower(name), class, typ, nx, c07minTTL)
		fp := c07fp(bm)
		fps[fp] = fmt.Sprint(r)
		ttlOf[fp] = c07ttls(bm)
		dnsmsg.ReleaseMsg(bm)
	}
	// who: the number of the response a served message is a copy of — same octets once the ID and
	// the TTLs are masked, and every TTL aged by at most a few seconds and never increased.
	who := func(msg *dnsmsg.Msg) string {
		fp := c07fp(msg)
		r, ok := fps[fp]
		if !ok {
			return "?"
		}
		got, orig := c07ttls(msg), ttlOf[fp]
		if len(got) != len(orig) {
			return "?"
		}
		for i := range got {
			if got[i] > orig[i] || got[i]+30 < orig[i] {
				return "?"
			}
		}
		return r
	}
	var outs []string
	for _, op := range strings.Split(m["ops"], ";") {
		f := strings.Split(op, ",")
		switch f[0] {
		case "s":
			r, nx := atoi(f[2]), f[3] == "1"
			name, class, typ := unhex(f[4]), atoi(f[5]), atoi(f[6])
			addr, _ := netip.ParseAddr(f[7])
			note(r, name, class, typ, nx)
			q := &dnsmsg.Question{Name: lower(name), Class: dnsmsg.Class(class), Type: dnsmsg.Type(typ)}
			resp := c07build(r, q.Name, class, typ, nx, c07minTTL)
			vr.CacheStore(q, addr, resp)
			dnsmsg.ReleaseMsg(resp)
			outs = append(outs, "s")
		case "g":
			name, class, typ := unhex(f[2]), atoi(f[3]), atoi(f[4])
			addr, _ := netip.ParseAddr(f[5])
			q := &dnsmsg.Question{Name: lower(name), Class: dnsmsg.Class(class), Type: dnsmsg.Type(typ)}
			resp, _, _ := vr.CacheGet(q, netip.AddrPortFrom(addr, 5353))
			if resp == nil {
				outs = append(outs, "miss")
			} else {
				outs = append(outs, "hit:"+who(resp))
				dnsmsg.ReleaseMsg(resp)
			}
		case "h":
			r := atoi(f[2])
			name, class, typ := unhex(f[3]), atoi(f[4]), atoi(f[5])
			addr, _ := netip.ParseAddr(f[6])
			note(r, name, class, typ, false)
			up.mu.Lock()
			up.calls = 0
			up.next = func(q *dnsmsg.Question) *dnsmsg.Msg {
				return c07build(r, q.Name, int(q.Class), int(q.Type), false, c07minTTL)
			}
			up.mu.Unlock()
			qm := dnsmsg.NewMsg()
			qm.Header = dnsmsg.Header{ID: uint16(r*31 + 7), RecursionDesired: true}
			qq := dnsmsg.NewQuestion()
			qq.Name, qq.Class, qq.Type = c07pname(name), dnsmsg.Class(class), dnsmsg.Type(typ)
			qm.Questions = append(qm.Questions, qq)
			resp, _, cached, _ := vr.Handle(qm, netip.AddrPortFrom(addr, 5353), netip.AddrPortFrom(netip.MustParseAddr("127.0.0.1"), 53))
			up.mu.Lock()
			calls := up.calls
			up.mu.Unlock()
			switch {
			case resp == nil || resp.Header.ID != qm.Header.ID:
				outs = append(outs, "bad")
			case cached && calls == 0:
				outs = append(outs, "c:"+who(resp))
			case !cached && calls == 1:
				outs = append(outs, "u:"+who(resp))
			default:
				outs = append(outs, "bad")
			}
			if resp != nil {
				dnsmsg.ReleaseMsg(resp)
			}
			dnsmsg.ReleaseMsg(qm)
		default:
			outs = append(outs, "bad")
		}
	}
	return strings.Join(outs, ";")
}

type c07group struct {
	label string
	addrs []string // textual client addresses inside the group's ranges (by construction)
}

func c07histGen(r *rand.Rand, thorough bool, emit func(c, cat string)) {
	n := 250
	if thorough {
		n = 4000
	}
	// Ranges and, by construction, addresses inside / outside them. Two ranges share the label "lan":
	// they are one client group.
	file := "# client groups\n" +
		"10.1.0.0,10.1.255.255,lan\n" +
		"192.168.7.7,192.168.7.7,lan\n" +
		"  2001:db8::,2001:db8::ffff,v6net  # v6\n" +
		"172.16.0.0,172.16.0.255,dmz\n" +
		"::ffff:203.0.113.0,::ffff:203.0.113.9,edge\n"
	groups := []c07group{
		{"", []string{"10.2.0.1", "10.0.255.255", "192.168.7.6", "192.168.7.8", "2001:db8::1:0", "2001:db7:ffff:ffff:ffff:ffff:ffff:ffff", "8.8.8.8", "::1", "203.0.113.10", "172.16.1.0"}},
		{"lan", []string{"10.1.0.0", "10.1.255.255", "10.1.2.3", "::ffff:10.1.9.9", "192.168.7.7", "::ffff:192.168.7.7", "::ffff:a01:203"}},
		{"v6net", []string{"2001:db8::", "2001:db8::ffff", "2001:db8::7", "2001:0db8:0000:0000:0000:0000:0000:00aa"}},
		{"dmz", []string{"172.16.0.0", "172.16.0.255", "::ffff:172.16.0.77"}},
		{"edge", []string{"203.0.113.0", "203.0.113.9", "::ffff:203.0.113.5"}},
	}
	for i := 0; i < n; i++ {
		useFile := r.Intn(8) != 0
		// a small pool of tuples that differ in exactly one component from a base tuple
		base := append([]byte{0}, []byte(fmt.Sprintf("h%dx%d", i, r.Intn(1000)))...)
		base[0] = byte(len(base) - 1)
		base = c07lowerAll(append(base, c07name(r, 60)...))
		type tuple struct {
			name       []byte
			class, typ int
			group      int
		}
		b := tuple{base, []int{1, 1, 1, 3, 255, 0x0161}[r.Intn(6)], []int{1, 28, 5, 15, 16, 255, 65}[r.Intn(7)], r.Intn(len(groups))}
		pool := []tuple{b}
		// other name (one octet of label content changed, still lower case, or an extra label)
		on := append([]byte(nil), base...)
		if len(on) > 1 && r.Intn(2) == 0 {
			on[len(on)-1] = byte('a' + (int(on[len(on)-1])+1)%26)
		} else {
			on = append(on, 1, byte('a'+r.Intn(26)))
		}
		pool = append(pool, tuple{on, b.class, b.typ, b.group})
		pool = append(pool, tuple{base, b.class ^ (1 << uint(r.Intn(16))), b.typ, b.group})
		pool = append(pool, tuple{base, b.class, b.typ ^ (1 << uint(r.Intn(16))), b.group})
		pool = append(pool, tuple{base, b.typ, b.class, b.group}) // class and type swapped
		pool = append(pool, tuple{base, b.class, b.typ, (b.group + 1 + r.Intn(len(groups)-1)) % len(groups)})
		if !useFile {
			for j := range pool {
				pool[j].group = 0
			}
		}
		keyOf := func(t tuple) string {
			g := groups[t.group].label
			if !useFile {
				g = ""
			}
			return fmt.Sprintf("%s/%d/%d/%s", hexs(t.name), t.class, t.typ, g)
		}
		var ops []string
		nops := 4 + r.Intn(24)
		cat := "mixed"
		for j := 0; j < nops; j++ {
			t := pool[r.Intn(len(pool))]
			if r.Intn(3) == 0 {
				t = pool[0]
			}
			name := c07flipCase(r, t.name)
			var addr string
			if useFile {
				g := groups[t.group]
				addr = g.addrs[r.Intn(len(g.addrs))]
			} else {
				all := groups[r.Intn(len(groups))]
				addr = all.addrs[r.Intn(len(all.addrs))] // no marker configured: the address must not matter
			}
			id := i*64 + j + 1
			switch r.Intn(6) {
			case 0:
				ops = append(ops, fmt.Sprintf("s,%s,%d,%s,%s,%d,%d,%s", keyOf(t), id, b2s(r.Intn(3) == 0), hexs(name), t.class, t.typ, addr))
			case 1, 2:
				ops = append(ops, fmt.Sprintf("g,%s,%s,%d,%d,%s", keyOf(t), hexs(name), t.class, t.typ, addr))
			default:
				ops = append(ops, fmt.Sprintf("h,%s,%d,%s,%d,%d,%s", keyOf(t), id, hexs(name), t.class, t.typ, addr))
			}
		}
		f := "none"
		if useFile {
			f = hexs([]byte(file))
		} else {
			cat = "no-marker"
		}
		emit("f="+f+" ops="+strings.Join(ops, ";"), cat)
	}
}

func c07lowerAll(n []byte) []byte {
	o := append([]byte(nil), n...)
	i := 0
	for i < len(o) {
		l := int(o[i])
		for j := i + 1; j <= i+l && j < len(o); j++ {
			if 'A' <= o[j] && o[j] <= 'Z' {
				o[j] += 32
			}
		}
		i += l + 1
	}
	return o
}

// ---- cachestress

func c07stressRun(cs string) string {
	m := kv(cs)
	g, n, keys, capacity, seed := atoi(m["g"]), atoi(m["n"]), atoi(m["keys"]), atoi(m["cap"]), int64(atoi(m["seed"]))
	var bad, hits, misses atomic.Int64
	var wg sync.WaitGroup
	switch m["mode"] {
	case "mem":
		c, err := cache.NewMemoryCache(capacity)
		if err != nil {
			return "cache-error"
		}
		defer c.Close()
		for t := 0; t < g; t++ {
			wg.Add(1)
			go func(t int) {
				defer wg.Done()
				r := rand.New(rand.NewSource(seed*1000 + int64(t)))
				for i := 0; i < n; i++ {
					// keys of assorted lengths; some are prefixes of others
					k := []byte(fmt.Sprintf("k%0*d", 1+r.Intn(3)*7, r.Intn(keys)))
					if r.Intn(3) == 0 {
						v := make([]byte, len(k)+1+r.Intn(48))
						copy(v, k)
						v[len(k)] = '|'
						for j := len(k) + 1; j < len(v); j++ {
							v[j] = byte(r.Intn(256))
						}
						now := time.Now()
						c.Store(k, now, now.Add(time.Duration(1+r.Intn(3))*time.Second), v, r.Intn(2) == 0)
					} else {
						v, _, _ := c.Get(k)
						if v == nil {
							misses.Add(1)
							continue
						}
						hits.Add(1)
						if len(v) <= len(k) || !bytes.Equal(v[:len(k)], k) || v[len(k)] != '|' {
							bad.Add(1)
						}
						pool.ReleaseBuf(v)
					}
				}
			}(t)
		}
	case "ctl":
		vr, _, closeFn, err := c07router([]byte("10.1.0.0,10.1.255.255,lan\n10.2.0.0,10.2.255.255,wan\n"), capacity)
		if err != nil {
			return "router-error"
		}
		defer closeFn()
		addrs := []netip.Addr{netip.MustParseAddr("10.1.0.5"), netip.MustParseAddr("10.2.0.5"), netip.MustParseAddr("10.3.0.5"), netip.MustParseAddr("::ffff:10.1.7.7")}
		groupOf := []byte{1, 2, 0, 1}
		for t := 0; t < g; t++ {
			wg.Add(1)
			go func(t int) {
				defer wg.Done()
				r := rand.New(rand.NewSource(seed*1000 + int64(t)))
				for i := 0; i < n; i++ {
					kn := r.Intn(keys)
					name := []byte(fmt.Sprintf("\x04k%03d\x04test", kn%1000))
					class, typ := 1+kn%2, []int{1, 28}[(kn/2)%2]
					ai := r.Intn(len(addrs))
					q := &dnsmsg.Question{Name: name, Class: dnsmsg.Class(class), Type: dnsmsg.Type(typ)}
					// the tuple is embedded in a TXT-like record of the response
					want := append(append([]byte(nil), name...), byte(class), byte(typ), groupOf[ai])
					if r.Intn(3) == 0 {
						resp := dnsmsg.NewMsg()
						resp.Header = dnsmsg.Header{Response: true}
						qq := dnsmsg.NewQuestion()
						qq.Name, qq.Class, qq.Type = c07pname(name), q.Class, q.Type
						resp.Questions = append(resp.Questions, qq)
						x := dnsmsg.NewRaw()
						x.ResourceHdr = c07hdr(name, dnsmsg.TypeTXT, dnsmsg.ClassINET, 600)
						pad := make([]byte, r.Intn(64))
						x.Data = pool.CopyBuf(append(append([]byte(nil), want...), pad...))
						resp.Answers = append(resp.Answers, x)
						vr.CacheStore(q, addrs[ai], resp)
						dnsmsg.ReleaseMsg(resp)
					} else {
						resp, _, _ := vr.CacheGet(q, netip.AddrPortFrom(addrs[ai], 53))
						if resp == nil {
							misses.Add(1)
							continue
						}
						hits.Add(1)
						ok := len(resp.Answers) == 1 && len(resp.Questions) == 1 && bytes.Equal(resp.Questions[0].Name, name)
						if ok {
							x, isRaw := resp.Answers[0].(*dnsmsg.RawResource)
							ok = isRaw && len(x.Data) >= len(want) && bytes.Equal(x.Data[:len(want)], want)
						}
						if !ok {
							bad.Add(1)
						}
						dnsmsg.ReleaseMsg(resp)
					}
				}
			}(t)
		}
	default:
		return "bad-mode"
	}
	wg.Wait()
	live := 0
	if hits.Load() > 0 && misses.Load() > 0 {
		live = 1
	}
	return fmt.Sprintf("bad=%d live=%d", bad.Load(), live)
}

func c07stressGen(r *rand.Rand, thorough bool, emit func(c, cat string)) {
	type cfg struct{ g, n, keys, cap int }
	sets := []cfg{{8, 4000, 48, 1024}, {16, 3000, 200, 4096}}
	rounds := 1
	if thorough {
		sets = []cfg{{8, 30000, 48, 1024}, {32, 20000, 200, 4096}, {64, 10000, 1000, 16384}, {16, 40000, 16, 512}}
		rounds = 3
	}
	for i := 0; i < rounds; i++ {
		for _, s := range sets {
			for _, mode := range []string{"mem", "ctl"} {
				c := s.cap
				if mode == "ctl" {
					c *= 8 // entries are whole compressed messages; smaller capacities reject every Set
				}
				emit(fmt.Sprintf("mode=%s g=%d n=%d keys=%d cap=%d seed=%d", mode, s.g, s.n, s.keys, c, r.Intn(1<<30)), mode)
			}
		}
	}
}

// ---- cacheval

func c07valRun(cs string) string {
	c07quiet()
	m := kv(cs)
	id := atoi(m["id"])
	r := rand.New(rand.NewSource(int64(id)))
	name := c07name(r, 200)
	if m["big"] == "2" { // a long owner name: three labels of 60 octets
		name = nil
		for i := 0; i < 3; i++ {
			name = append(name, 60)
			for j := 0; j < 60; j++ {
				name = append(name, byte('a'+r.Intn(26)))
			}
		}
	}
	msg := c07build(id, name, c07u16(r), c07u16(r), m["nx"] == "1", uint32(r.Intn(3)))
	if m["big"] == "1" {
		for i := 0; i < 200; i++ {
			msg.Answers = append(msg.Answers, c07rr(r, name, 0))
		}
	}
	if m["big"] == "2" { // more than 65535 octets without compression (the cache's own form), legal on the wire with it
		for i := 0; i < 420; i++ {
			msg.Answers = append(msg.Answers, c07rr(r, name, 0))
		}
	}
	msg.Header.ID = uint16(r.Intn(65536))
	msg.Header.OpCode = dnsmsg.OpCode(r.Intn(16))
	defer dnsmsg.ReleaseMsg(msg)
	want := c07packPlain(msg)
	b, err := router.VerifPackCacheMsg(msg)
	if err != nil || want == nil {
		return "pack-error"
	}
	got, err := router.VerifUnpackCacheMsg(b)
	if err != nil {
		return "rt=0"
	}
	defer dnsmsg.ReleaseMsg(got)
	if !bytes.Equal(c07packPlain(got), want) || !bytes.Equal(c07packPlain(msg), want) {
		return "rt=0"
	}
	return "rt=1"
}

func c07valGen(r *rand.Rand, thorough bool, emit func(c, cat string)) {
	n := 400
	if thorough {
		n = 8000
	}
	for i := 0; i < n; i++ {
		big := r.Intn(40) == 0
		emit(fmt.Sprintf("id=%d nx=%s big=%s", r.Intn(1<<30), b2s(r.Intn(4) == 0), b2s(big)), map[bool]string{true: "big", false: "plain"}[big])
	}
	for i := 0; i < 2+n/400; i++ {
		emit(fmt.Sprintf("id=%d nx=0 big=2", r.Intn(1<<30)), "huge")
	}
}

func init() {
	register("cachehist", &component{gen: c07histGen, run: c07histRun, teardown: c07histTeardown})
	register("cachestress", &component{gen: c07stressGen, run: c07stressRun})
	register("cacheval", &component{gen: c07valGen, run: c07valRun})
}
