package main

// Component `upreply` (C01, upstream side): the REAL upstreams built by upstream.NewUpstream (udp, tcp, tls,
// tcp+pipeline, tls+pipeline, http, https (h2), h3, quic) against scripted loopback servers that answer the
// FIRST query with arbitrary bytes at the transport's unit level, then behave correctly.
//
//   case : tr=<scheme> sc=<tok,…> dl=<ms> n=<N>            (one scripted reaction, then N valid exchanges)
//          tr=<tcp+pipeline|tls+pipeline> wstall=1 sc=<tok,…> n=<N>   (see c01upWstall)
//   out  : next=<ok|fail> first=<resp|err|nil|hang> mem=<ok|big> lost=<k> an=<answer records of the reply|-> ## detail
//
//   script tokens
//     stream transports (tcp, tls, tcp+pipeline, tls+pipeline; quic: the query's stream)
//       w<hex> raw bytes written on the connection (length prefixes are part of the bytes, so they can lie)
//       p<ms>  pause            c close (FIN)        r reset (TCP RST / QUIC stream reset)
//       z      this connection/stream goes silent for ever        k (quic) close the whole QUIC connection
//       no terminal token: the connection keeps being served correctly (quic: the stream is FINed)
//     udp
//       d<hex> one datagram (d- = empty)      p<ms>
//       T<tok> a stream token for the TCP leg (the udp upstream retries over TCP when the reply has TC=1)
//     DoH (http = raw HTTP/1.1, https = raw h2 frames, h3 = quic-go's http3 server)
//       st<code> cl<text> (Content-Length header value, any text) te (chunked, http only) ct<0|1|2>
//       b<hex> body bytes (b- = none, flushes the head)   x<n> n zero octets of body   y<n> n MiB of zero octets (http)
//       g<hex> raw bytes written below HTTP (http: on the TCP connection, https: inside TLS, outside h2 framing)
//       p<ms>  c close the connection   r reset (http: TCP RST, https: RST_STREAM, h3: stream reset)   z stall
//       no terminal token: the response is ended properly (terminating chunk / END_STREAM)
//
// After the scripted reaction every further query is answered properly (A record = answerFor(name)). The
// harness then performs N exchanges with fresh names on the same upstream object; `next=ok` iff every one
// returns the right answer (own id, own question, own address) within its deadline.

import (
	"bufio"
	"bytes"
	"context"
	"crypto/tls"
	"encoding/base64"
	"encoding/binary"
	"fmt"
	"io"
	"net"
	"net/http"
	"net/url"
	"os"
	"runtime"
	"strconv"
	"strings"
	"sync"
	"sync/atomic"
	"time"

	"github.com/IrineSistiana/mosproxy/internal/dnsmsg"
	"github.com/IrineSistiana/mosproxy/internal/upstream"
	"github.com/miekg/dns"
	"github.com/quic-go/quic-go"
	"github.com/quic-go/quic-go/http3"
	"golang.org/x/net/http2"
	"golang.org/x/net/http2/hpack"
)

const (
	c01upIdle      = 1000 * time.Millisecond // Opt.IdleTimeout of tcp/tls upstreams
	c01upH1Settle  = 150 * time.Millisecond
	c01upProbeDl   = 2500 * time.Millisecond
	c01upBigAlloc  = 48 << 20
	c01upFirstName = "first.up.test."
)

func c01upWireName(s string) []byte {
	var o []byte
	for _, l := range strings.Split(strings.TrimSuffix(s, "."), ".") {
		if l == "" {
			continue
		}
		o = append(o, byte(len(l)))
		o = append(o, l...)
	}
	return o
}

func c01upQuery(id uint16, name string) []byte {
	q := new(dns.Msg)
	q.SetQuestion(name, dns.TypeA)
	q.Id = id
	b, err := q.Pack()
	if err != nil {
		panic(err)
	}
	return b
}

// the proper reply to a query (built with miekg/dns, independently of the code under test); nil if q is no query
func c01upReply(qb []byte) []byte {
	q := new(dns.Msg)
	if err := q.Unpack(qb); err != nil || len(q.Question) != 1 {
		// the padded query of the write-stall scenario: a query followed by octets that are no records
		if len(qb) > 12 {
			qq := new(dns.Msg)
			for end := 17; end <= len(qb) && end < 300; end++ {
				if qq.Unpack(qb[:end]) == nil && len(qq.Question) == 1 {
					q = qq
					break
				}
			}
		}
		if len(q.Question) != 1 {
			return nil
		}
	}
	r := new(dns.Msg)
	r.SetReply(q)
	r.RecursionAvailable = true
	qu := q.Question[0]
	a := answerFor(c01upWireName(qu.Name), qu.Qtype, qu.Qclass)
	r.Answer = append(r.Answer, &dns.A{
		Hdr: dns.RR_Header{Name: qu.Name, Rrtype: dns.TypeA, Class: dns.ClassINET, Ttl: 300},
		A:   net.IPv4(a[0], a[1], a[2], a[3]),
	})
	b, err := r.Pack()
	if err != nil {
		return nil
	}
	return b
}

func c01upRightAnswer(r *dnsmsg.Msg, id uint16, name string) bool {
	wn := c01upWireName(name)
	if r.Header.ID != id || !r.Header.Response || len(r.Questions) != 1 || len(r.Answers) != 1 {
		return false
	}
	q := r.Questions[0]
	if !bytes.EqualFold(q.Name, wn) || q.Type != dnsmsg.TypeA || q.Class != dnsmsg.ClassINET {
		return false
	}
	a, ok := r.Answers[0].(*dnsmsg.A)
	// the record as the server sent it, its ttl (300) included: a transport delivers what it decoded (C08: nothing
	// between the upstream's reply and the cache may lengthen a ttl; the DoH servers send `Age` and `Cache-Control`)
	return ok && a.A == answerFor(wn, 1, 1) && a.TTL == 300
}

// ---- the scripted servers

type c01upSrv struct {
	tr      string
	script  []string
	tscript []string // TCP leg of a udp case
	took    atomic.Bool
	tookT   atomic.Bool
	done    chan struct{}
	once    sync.Once
	stop    chan struct{}
	mu      sync.Mutex
	closers []func()
	url     string
	// write-stall scenario
	resume chan struct{}
	conns  chan net.Conn
}

func (s *c01upSrv) finish() { s.once.Do(func() { close(s.done) }) }

// the script is the reaction to the query of the first exchange (recognised by its name), once
func (s *c01upSrv) isFirst(q []byte, took *atomic.Bool) bool {
	return bytes.Contains(q, append(c01upWireName(c01upFirstName), 0)) && took.CompareAndSwap(false, true)
}

func (s *c01upSrv) onClose(f func()) {
	s.mu.Lock()
	s.closers = append(s.closers, f)
	s.mu.Unlock()
}

func (s *c01upSrv) close() {
	close(s.stop)
	s.mu.Lock()
	cl := s.closers
	s.closers = nil
	s.mu.Unlock()
	for i := len(cl) - 1; i >= 0; i-- {
		cl[i]()
	}
}

func c01upPause(t string) {
	ms := atoi(t[1:])
	if ms > 2000 {
		ms = 2000
	}
	time.Sleep(time.Duration(ms) * time.Millisecond)
}

func c01upRST(raw net.Conn) {
	if tc, ok := raw.(*net.TCPConn); ok {
		tc.SetLinger(0)
	}
	raw.Close()
}

// carries out stream tokens on c; returns the terminal behaviour "" | c | r | z
func (s *c01upSrv) streamScript(script []string, raw, c net.Conn) string {
	for _, t := range script {
		switch {
		case t == "":
		case t == "c":
			c.Close()
			return "c"
		case t == "r":
			c01upRST(raw)
			return "r"
		case t == "z":
			return "z"
		case t[0] == 'p':
			c01upPause(t)
		case t[0] == 'w':
			c.SetWriteDeadline(time.Now().Add(2 * time.Second))
			c.Write(unhex(t[1:]))
		}
	}
	return ""
}

func (s *c01upSrv) serveStream(raw, c net.Conn, script []string, took *atomic.Bool, main bool) {
	defer raw.Close()
	for {
		q, err := readFrame(c)
		if err != nil {
			return
		}
		if s.isFirst(q, took) {
			end := s.streamScript(script, raw, c)
			if main {
				s.finish()
			}
			switch end {
			case "c", "r":
				return
			case "z":
				<-s.stop
				return
			}
			continue
		}
		if rep := c01upReply(q); rep != nil {
			c.SetWriteDeadline(time.Now().Add(2 * time.Second))
			c.Write(frame(rep))
		}
	}
}

func (s *c01upSrv) acceptStream(ln net.Listener, tlsCfg *tls.Config, script []string, took *atomic.Bool, main bool) {
	s.onClose(func() { ln.Close() })
	go func() {
		for {
			raw, err := ln.Accept()
			if err != nil {
				return
			}
			s.onClose(func() { raw.Close() })
			go func() {
				var c net.Conn = raw
				if tlsCfg != nil {
					tc := tls.Server(raw, tlsCfg)
					raw.SetDeadline(time.Now().Add(5 * time.Second))
					if err := tc.Handshake(); err != nil {
						raw.Close()
						return
					}
					raw.SetDeadline(time.Time{})
					c = tc
				}
				s.serveStream(raw, c, script, took, main)
			}()
		}
	}()
}

func (s *c01upSrv) startUDP() {
	var uc *net.UDPConn
	var tl net.Listener
	for i := 0; ; i++ {
		uc = c14listenUDP()
		var err error
		if tl, err = net.Listen("tcp", uc.LocalAddr().String()); err == nil {
			break
		}
		uc.Close()
		if i > 100 {
			panic(err)
		}
	}
	s.onClose(func() { uc.Close() })
	s.acceptStream(tl, nil, s.tscript, &s.tookT, false)
	if len(s.tscript) == 0 {
		s.tookT.Store(true)
	}
	s.url = "udp://" + uc.LocalAddr().String()
	go func() {
		buf := make([]byte, 65535)
		for {
			n, from, err := uc.ReadFromUDP(buf)
			if err != nil {
				return
			}
			q := append([]byte(nil), buf[:n]...)
			if s.isFirst(q, &s.took) {
				for _, t := range s.script {
					switch {
					case t == "":
					case t[0] == 'p':
						c01upPause(t)
					case t[0] == 'd':
						uc.WriteToUDP(unhex(t[1:]), from)
					}
				}
				s.finish()
				continue
			}
			if rep := c01upReply(q); rep != nil {
				uc.WriteToUDP(rep, from)
			}
		}
	}()
}

// ---- DoH: the description of the response

type c01upHTTP struct {
	st     int
	cl     string
	hasCL  bool
	te     bool
	ct     int
	sawG   bool
	headed bool
}

func (h *c01upHTTP) header(t string) bool {
	switch {
	case strings.HasPrefix(t, "st"):
		h.st = atoi(t[2:])
	case strings.HasPrefix(t, "cl"):
		h.cl, h.hasCL = t[2:], true
	case t == "te":
		h.te = true
	case strings.HasPrefix(t, "ct"):
		h.ct = atoi(t[2:])
	default:
		return false
	}
	return true
}

func (h *c01upHTTP) contentType() string {
	switch h.ct {
	case 1:
		return "application/dns-message"
	case 2:
		return "text/html; charset=utf-8"
	}
	return ""
}

func c01upBody(t string) []byte {
	if t[0] == 'y' { // y<n>: n MiB of zero octets; whoever only needs to know "more than the limit" takes 70000
		return make([]byte, 70000)
	}
	if t[0] == 'x' {
		n := atoi(t[1:])
		if n > 1<<20 {
			n = 1 << 20
		}
		return make([]byte, n)
	}
	return unhex(t[1:])
}

func c01upDNSParam(target string) []byte {
	u, err := url.ParseRequestURI(target)
	if err != nil {
		return nil
	}
	b, err := base64.RawURLEncoding.DecodeString(u.Query().Get("dns"))
	if err != nil {
		return nil
	}
	return b
}

// raw HTTP/1.1
func (s *c01upSrv) serveH1(raw net.Conn) {
	defer raw.Close()
	br := bufio.NewReader(raw)
	for {
		line, err := br.ReadString('\n')
		if err != nil {
			return
		}
		fs := strings.Fields(line)
		for {
			l, err := br.ReadString('\n')
			if err != nil {
				return
			}
			if strings.TrimSpace(l) == "" {
				break
			}
		}
		if len(fs) < 2 {
			return
		}
		q := c01upDNSParam(fs[1])
		if s.isFirst(q, &s.took) {
			end := s.h1Script(raw)
			s.finish()
			switch end {
			case "c", "r":
				return
			case "z":
				<-s.stop
				return
			}
			continue
		}
		rep := c01upReply(q)
		if rep == nil {
			fmt.Fprintf(raw, "HTTP/1.1 400 Bad Request\r\nContent-Length: 0\r\n\r\n")
			continue
		}
		raw.SetWriteDeadline(time.Now().Add(2 * time.Second))
		// as if served by an HTTP cache: the reply is older than its records' ttl
		fmt.Fprintf(raw, "HTTP/1.1 200 OK\r\nContent-Type: application/dns-message\r\nAge: 86400\r\nCache-Control: max-age=300\r\nContent-Length: %d\r\n\r\n", len(rep))
		raw.Write(rep)
	}
}

func (s *c01upSrv) h1Script(c net.Conn) string {
	h := &c01upHTTP{st: 200, ct: 1}
	head := func() {
		if h.headed {
			return
		}
		h.headed = true
		var b strings.Builder
		fmt.Fprintf(&b, "HTTP/1.1 %d X\r\n", h.st)
		if ct := h.contentType(); ct != "" {
			b.WriteString("Content-Type: " + ct + "\r\n")
		}
		if h.hasCL {
			b.WriteString("Content-Length: " + h.cl + "\r\n")
		}
		if h.te {
			b.WriteString("Transfer-Encoding: chunked\r\n")
		}
		if !h.hasCL && !h.te {
			b.WriteString("Connection: close\r\n")
		}
		b.WriteString("\r\n")
		c.Write([]byte(b.String()))
	}
	c.SetWriteDeadline(time.Now().Add(4 * time.Second))
	for _, t := range s.script {
		switch {
		case t == "":
		case t == "c":
			c.Close()
			return "c"
		case t == "r":
			c01upRST(c)
			return "r"
		case t == "z":
			return "z"
		case t[0] == 'p':
			c01upPause(t)
		case t[0] == 'g':
			h.sawG = true
			c.Write(unhex(t[1:]))
		case t[0] == 'y':
			head()
			chunk := make([]byte, 1<<16)
			for i := 0; i < atoi(t[1:])*16; i++ {
				c.SetWriteDeadline(time.Now().Add(2 * time.Second))
				if _, err := c.Write(chunk); err != nil {
					break
				}
			}
		case t[0] == 'b' || t[0] == 'x':
			head()
			d := c01upBody(t)
			if h.te {
				if len(d) > 0 {
					fmt.Fprintf(c, "%x\r\n", len(d))
					c.Write(d)
					c.Write([]byte("\r\n"))
				}
			} else {
				c.Write(d)
			}
		default:
			h.header(t)
		}
	}
	if h.sawG {
		return ""
	}
	head()
	if h.te {
		c.Write([]byte("0\r\n\r\n"))
		return ""
	}
	if !h.hasCL {
		c.Close()
		return "c"
	}
	return ""
}

// raw h2 (frames written with x/net/http2's Framer)
func (s *c01upSrv) serveH2(raw net.Conn, c *tls.Conn) {
	defer raw.Close()
	pre := make([]byte, len(http2.ClientPreface))
	if _, err := io.ReadFull(c, pre); err != nil || string(pre) != http2.ClientPreface {
		return
	}
	fr := http2.NewFramer(c, c)
	var wmu sync.Mutex
	var hb bytes.Buffer
	enc := hpack.NewEncoder(&hb)
	dec := hpack.NewDecoder(4096, nil)
	wmu.Lock()
	fr.WriteSettings()
	wmu.Unlock()
	writeHead := func(id uint32, st int, fields [][2]string, end bool) {
		wmu.Lock()
		defer wmu.Unlock()
		hb.Reset()
		enc.WriteField(hpack.HeaderField{Name: ":status", Value: strconv.Itoa(st)})
		for _, f := range fields {
			enc.WriteField(hpack.HeaderField{Name: f[0], Value: f[1]})
		}
		fr.WriteHeaders(http2.HeadersFrameParam{StreamID: id, BlockFragment: hb.Bytes(), EndHeaders: true, EndStream: end})
	}
	writeData := func(id uint32, d []byte, end bool) {
		wmu.Lock()
		defer wmu.Unlock()
		for len(d) > 16000 {
			fr.WriteData(id, false, d[:16000])
			d = d[16000:]
		}
		fr.WriteData(id, end, d)
	}
	var block []byte
	for {
		f, err := fr.ReadFrame()
		if err != nil {
			return
		}
		var id uint32
		complete := false
		switch f := f.(type) {
		case *http2.SettingsFrame:
			if !f.IsAck() {
				wmu.Lock()
				fr.WriteSettingsAck()
				wmu.Unlock()
			}
		case *http2.PingFrame:
			if !f.IsAck() {
				wmu.Lock()
				fr.WritePing(true, f.Data)
				wmu.Unlock()
			}
		case *http2.GoAwayFrame:
			return
		case *http2.HeadersFrame:
			block = append(block[:0], f.HeaderBlockFragment()...)
			id, complete = f.StreamID, f.HeadersEnded()
		case *http2.ContinuationFrame:
			block = append(block, f.HeaderBlockFragment()...)
			id, complete = f.StreamID, f.HeadersEnded()
		}
		if !complete {
			continue
		}
		fields, err := dec.DecodeFull(block)
		if err != nil {
			return
		}
		path := ""
		for _, hf := range fields {
			if hf.Name == ":path" {
				path = hf.Value
			}
		}
		q := c01upDNSParam(path)
		if s.isFirst(q, &s.took) {
			go func() {
				s.h2Script(id, raw, c, &wmu, fr, writeHead, writeData)
				s.finish()
			}()
			continue
		}
		rep := c01upReply(q)
		if rep == nil {
			writeHead(id, 400, nil, true)
			continue
		}
		writeHead(id, 200, [][2]string{{"content-type", "application/dns-message"}, {"age", "86400"}, {"cache-control", "max-age=300"}, {"content-length", strconv.Itoa(len(rep))}}, false)
		writeData(id, rep, true)
	}
}

func (s *c01upSrv) h2Script(id uint32, raw net.Conn, c *tls.Conn, wmu *sync.Mutex, fr *http2.Framer,
	writeHead func(uint32, int, [][2]string, bool), writeData func(uint32, []byte, bool)) {
	h := &c01upHTTP{st: 200, ct: 1}
	head := func(end bool) {
		if h.headed {
			return
		}
		h.headed = true
		var fields [][2]string
		if ct := h.contentType(); ct != "" {
			fields = append(fields, [2]string{"content-type", ct})
		}
		if h.hasCL {
			fields = append(fields, [2]string{"content-length", h.cl})
		}
		writeHead(id, h.st, fields, end)
	}
	raw.SetWriteDeadline(time.Now().Add(4 * time.Second))
	for _, t := range s.script {
		switch {
		case t == "":
		case t == "c":
			raw.Close()
			return
		case t == "r":
			wmu.Lock()
			fr.WriteRSTStream(id, http2.ErrCodeInternal)
			wmu.Unlock()
			return
		case t == "z":
			return
		case t[0] == 'p':
			c01upPause(t)
		case t[0] == 'g':
			h.sawG = true
			wmu.Lock()
			c.Write(unhex(t[1:]))
			wmu.Unlock()
		case t[0] == 'b' || t[0] == 'x' || t[0] == 'y':
			head(false)
			writeData(id, c01upBody(t), false)
		default:
			h.header(t)
		}
	}
	if h.sawG {
		return
	}
	if !h.headed {
		head(true)
		return
	}
	writeData(id, nil, true)
}

func (s *c01upSrv) h3Handler() http.Handler {
	return http.HandlerFunc(func(w http.ResponseWriter, r *http.Request) {
		q, err := base64.RawURLEncoding.DecodeString(r.URL.Query().Get("dns"))
		if err != nil {
			w.WriteHeader(400)
			return
		}
		if s.isFirst(q, &s.took) {
			defer s.finish()
			h := &c01upHTTP{st: 200, ct: 1}
			head := func() {
				if h.headed {
					return
				}
				h.headed = true
				if ct := h.contentType(); ct != "" {
					w.Header().Set("Content-Type", ct)
				}
				if h.hasCL {
					w.Header().Set("Content-Length", h.cl)
				}
				w.WriteHeader(h.st)
				if f, ok := w.(http.Flusher); ok {
					f.Flush()
				}
			}
			for _, t := range s.script {
				switch {
				case t == "":
				case t == "c" || t == "r":
					s.finish()
					panic(http.ErrAbortHandler)
				case t == "z":
					s.finish()
					select {
					case <-s.stop:
					case <-r.Context().Done():
					}
					return
				case t[0] == 'p':
					c01upPause(t)
				case t[0] == 'g':
				case t[0] == 'b' || t[0] == 'x' || t[0] == 'y':
					head()
					w.Write(c01upBody(t))
					if f, ok := w.(http.Flusher); ok {
						f.Flush()
					}
				default:
					h.header(t)
				}
			}
			head()
			return
		}
		rep := c01upReply(q)
		if rep == nil {
			w.WriteHeader(400)
			return
		}
		w.Header().Set("Content-Type", "application/dns-message")
		w.Header().Set("Age", "86400")
		w.Header().Set("Cache-Control", "max-age=300")
		w.Write(rep)
	})
}

func (s *c01upSrv) startQUIC() error {
	tlsCfg := &tls.Config{Certificates: []tls.Certificate{c14tlsCert()}, NextProtos: []string{"doq"}}
	var ln *quic.Listener
	var err error
	for i := 0; i < 200; i++ {
		if ln, err = quic.ListenAddr(fmt.Sprintf("127.0.0.1:%d", c14nextPort()), tlsCfg, &quic.Config{MaxIdleTimeout: 30 * time.Second}); err == nil {
			break
		}
	}
	if err != nil {
		return err
	}
	s.onClose(func() { ln.Close() })
	s.url = "quic://" + ln.Addr().String()
	go func() {
		for {
			c, err := ln.Accept(context.Background())
			if err != nil {
				return
			}
			s.onClose(func() { c.CloseWithError(0, "") })
			go func() {
				for {
					st, err := c.AcceptStream(context.Background())
					if err != nil {
						return
					}
					go s.serveQStream(c, st)
				}
			}()
		}
	}()
	return nil
}

func (s *c01upSrv) serveQStream(c quic.Connection, st quic.Stream) {
	q, err := readFrame(st)
	if err != nil {
		return
	}
	if s.isFirst(q, &s.took) {
		defer s.finish()
		for _, t := range s.script {
			switch {
			case t == "":
			case t == "c":
				st.Close()
				return
			case t == "r":
				st.CancelWrite(2)
				return
			case t == "k":
				c.CloseWithError(2, "scripted")
				return
			case t == "z":
				return
			case t[0] == 'p':
				c01upPause(t)
			case t[0] == 'w':
				st.SetWriteDeadline(time.Now().Add(2 * time.Second))
				st.Write(unhex(t[1:]))
			}
		}
		st.Close()
		return
	}
	if rep := c01upReply(q); rep != nil {
		st.Write(frame(rep))
	}
	st.Close()
}

func c01upStart(tr string, script []string) (*c01upSrv, error) {
	s := &c01upSrv{tr: tr, done: make(chan struct{}), stop: make(chan struct{})}
	for _, t := range script {
		if strings.HasPrefix(t, "T") {
			s.tscript = append(s.tscript, t[1:])
		} else {
			s.script = append(s.script, t)
		}
	}
	srvTLS := &tls.Config{Certificates: []tls.Certificate{c14tlsCert()}}
	switch tr {
	case "udp":
		s.startUDP()
	case "tcp", "tcp+pipeline":
		ln := c14listenTCP(nil)
		s.url = tr + "://" + ln.Addr().String()
		s.acceptStream(ln, nil, s.script, &s.took, true)
	case "tls", "tls+pipeline":
		ln := c14listenTCP(nil)
		s.url = tr + "://" + ln.Addr().String()
		s.acceptStream(ln, srvTLS, s.script, &s.took, true)
	case "http":
		ln := c14listenTCP(nil)
		s.url = "http://" + ln.Addr().String() + "/dns-query"
		s.onClose(func() { ln.Close() })
		go func() {
			for {
				c, err := ln.Accept()
				if err != nil {
					return
				}
				s.onClose(func() { c.Close() })
				go s.serveH1(c)
			}
		}()
	case "https":
		ln := c14listenTCP(nil)
		s.url = "https://" + ln.Addr().String() + "/dns-query"
		s.onClose(func() { ln.Close() })
		cfg := srvTLS.Clone()
		cfg.NextProtos = []string{"h2"}
		go func() {
			for {
				raw, err := ln.Accept()
				if err != nil {
					return
				}
				s.onClose(func() { raw.Close() })
				go func() {
					tc := tls.Server(raw, cfg)
					raw.SetDeadline(time.Now().Add(5 * time.Second))
					if err := tc.Handshake(); err != nil {
						raw.Close()
						return
					}
					raw.SetDeadline(time.Time{})
					s.serveH2(raw, tc)
				}()
			}
		}()
	case "h3":
		pc := c14listenUDP()
		hs := &http3.Server{Handler: s.h3Handler(), TLSConfig: http3.ConfigureTLSConfig(srvTLS.Clone())}
		go hs.Serve(pc)
		s.onClose(func() { hs.Close(); pc.Close() })
		s.url = "h3://" + pc.LocalAddr().String() + "/dns-query"
	case "quic":
		if err := s.startQUIC(); err != nil {
			return nil, err
		}
	default:
		return nil, fmt.Errorf("unknown transport %q", tr)
	}
	return s, nil
}

// ---- the client side

func c01upTotalAlloc() uint64 {
	var ms runtime.MemStats
	runtime.ReadMemStats(&ms)
	return ms.TotalAlloc
}

// one exchange; "resp" (detail: right|other), "err", "nil" (neither a reply nor an error), or "hang" if the call has
// not returned 3 s after its deadline
func c01upExchange(up upstream.Upstream, q []byte, name string, dl time.Duration) (string, string) {
	ctx, cancel := context.WithTimeout(context.Background(), dl)
	defer cancel()
	type res struct{ a, b string }
	ch := make(chan res, 1)
	go func() {
		r, err := up.ExchangeContext(ctx, q)
		if err == nil && r == nil {
			ch <- res{"nil", "-"} // neither a reply nor an error
			return
		}
		if err != nil || r == nil {
			if os.Getenv("C01UP_DEBUG") != "" {
				fmt.Fprintf(os.Stderr, "exchange %s: %v\n", name, err)
			}
			ch <- res{"err", "-"}
			return
		}
		d := "other"
		if c01upRightAnswer(r, binary.BigEndian.Uint16(q), name) {
			d = "right"
		}
		d += fmt.Sprintf("/%d", len(r.Answers))
		dnsmsg.ReleaseMsg(r)
		ch <- res{"resp", d}
	}()
	select {
	case r := <-ch:
		return r.a, r.b
	case <-time.After(dl + 3*time.Second):
		return "hang", "-"
	}
}

// number of answer records of the returned reply ("-" if none was returned)
func c01upAn(first, detail string) string {
	if i := strings.IndexByte(detail, '/'); first == "resp" && i >= 0 {
		return detail[i+1:]
	}
	return "-"
}

var c01upSeq atomic.Uint32

// up to n+2 exchanges with fresh names; ok iff n consecutive ones returned the right answer (one or two may be
// lost on a connection that still held unread scripted octets); lost = number of exchanges that did not
func c01upProbes(up upstream.Upstream, n int) (bool, int, string) {
	var det []string
	run, lost := 0, 0
	for i := 0; i < n+2 && run < n; i++ {
		k := c01upSeq.Add(1)
		name := fmt.Sprintf("n%d.p%d.up.test.", k, i)
		id := uint16(0x1000 + (k*37)%0xE000)
		a, d := c01upExchange(up, c01upQuery(id, name), name, c01upProbeDl)
		if a == "resp" && strings.HasPrefix(d, "right/") {
			run++
		} else {
			run = 0
			lost++
		}
		det = append(det, a+":"+d)
	}
	return run >= n, lost, strings.Join(det, ",")
}

func c01upOpt(tr string) upstream.Opt {
	opt := upstream.Opt{TLSConfig: &tls.Config{InsecureSkipVerify: true}}
	switch tr {
	case "tcp", "tls", "tcp+pipeline", "tls+pipeline":
		opt.IdleTimeout = c01upIdle
	}
	return opt
}

func c01upSplit(sc string) []string {
	if sc == "" || sc == "-" {
		return nil
	}
	return strings.Split(sc, ",")
}

// Under load the first exchange's (short) deadline can expire before its query is even sent (connection set-up,
// handshake). Then the scripted reaction never happened: the case is carried out again with a longer deadline.
func c01upRun(cs string) string {
	res, arrived := c01upRunOnce(cs, 1)
	for k := 0; !arrived && k < 2; k++ {
		res, arrived = c01upRunOnce(cs, 8)
	}
	if !arrived && !strings.HasPrefix(res, "setup-failed") && !strings.HasPrefix(res, "bad-case") {
		return "setup-failed ## the first query never reached the server: " + res
	}
	return res
}

func c01upRunOnce(cs string, dlFactor int) (string, bool) {
	m := kv(cs)
	tr := m["tr"]
	script := c01upSplit(m["sc"])
	n := atoi(m["n"])
	if n < 1 {
		n = 2
	}
	if m["wstall"] == "1" {
		return c01upWstall(tr, script, n), true
	}
	dl := time.Duration(atoi(m["dl"])) * time.Millisecond
	if dl <= 0 {
		dl = 2 * time.Second
	}
	if dlFactor > 1 && dl < 1500*time.Millisecond {
		dl *= time.Duration(dlFactor)
	}
	srv, err := c01upStart(tr, script)
	if err != nil {
		return "setup-failed ## " + err.Error(), true
	}
	defer srv.close()
	up, err := upstream.NewUpstream(srv.url, c01upOpt(tr))
	if err != nil {
		return "setup-failed ## newupstream", true
	}
	defer up.Close()
	mem0 := c01upTotalAlloc()
	t0 := time.Now()
	first, fd := c01upExchange(up, c01upQuery(0, c01upFirstName), c01upFirstName, dl)
	select {
	case <-srv.done:
	case <-time.After(1500 * time.Millisecond):
		if !srv.took.Load() {
			return "first-query-lost", false
		}
		select {
		case <-srv.done:
		case <-time.After(2 * time.Second):
		}
	}
	if tr == "http" {
		// net/http closes an idle HTTP/1.1 connection on which unsolicited octets arrive; give it the time to notice
		time.Sleep(c01upH1Settle)
	}
	ok, lost, det := c01upProbes(up, n)
	mem := "ok"
	grown := c01upTotalAlloc() - mem0
	if grown > c01upBigAlloc {
		mem = "big"
	}
	next := "fail"
	if ok {
		next = "ok"
	}
	return fmt.Sprintf("next=%s first=%s mem=%s lost=%d an=%s ## first=%s probes=%s alloc=%dk exp=%s el=%dms", next, first, mem, lost, c01upAn(first, fd), fd, det, grown>>10, c01upExpect(tr, script), time.Since(t0).Milliseconds()), true
}

// ---- what the script amounts to at the framing level (also used by the generator to pick deadlines)

type c01upStream struct {
	frames  [][]byte
	partial bool   // octets that are no complete frame are left at the end
	term    string // "" | c | r | z | k
}

func c01upParseStream(script []string) c01upStream {
	var all []byte
	var st c01upStream
	for _, t := range script {
		if t == "" {
			continue
		}
		if t == "c" || t == "r" || t == "z" || t == "k" {
			st.term = t
			break
		}
		if t[0] == 'w' {
			all = append(all, unhex(t[1:])...)
		}
	}
	for {
		if len(all) < 2 {
			st.partial = len(all) > 0
			break
		}
		l := int(binary.BigEndian.Uint16(all))
		if len(all)-2 < l {
			st.partial = true
			break
		}
		st.frames = append(st.frames, all[2:2+l])
		all = all[2+l:]
	}
	return st
}

// ---- the write-stall scenario (pipelined tcp/tls)
//
// Exchange A (wire id 0, a 60000 octet query) blocks in Write holding the connection's write lock because the
// server does not read; exchange B (wire id 1, 300 ms deadline) queues behind it; the server writes the
// script's bytes (typically the reply for id 1 two or three times); B's deadline expires; the server starts
// reading and answers everything properly. first = outcome of A (it must get its reply once the server reads).

func c01upWstall(tr string, script []string, n int) string {
	if tr != "tcp+pipeline" && tr != "tls+pipeline" {
		return "bad-case"
	}
	s := &c01upSrv{tr: tr, done: make(chan struct{}), stop: make(chan struct{}), resume: make(chan struct{}), conns: make(chan net.Conn, 16)}
	ln := c14listenTCP(&net.ListenConfig{Control: c14smallBuf})
	s.onClose(func() { ln.Close() })
	defer s.close()
	var tlsCfg *tls.Config
	if tr == "tls+pipeline" {
		tlsCfg = &tls.Config{Certificates: []tls.Certificate{c14tlsCert()}}
	}
	go func() {
		for {
			raw, err := ln.Accept()
			if err != nil {
				return
			}
			s.onClose(func() { raw.Close() })
			go func() {
				var c net.Conn = raw
				if tlsCfg != nil {
					tc := tls.Server(raw, tlsCfg)
					raw.SetDeadline(time.Now().Add(5 * time.Second))
					if err := tc.Handshake(); err != nil {
						raw.Close()
						return
					}
					raw.SetDeadline(time.Time{})
					c = tc
				}
				select {
				case s.conns <- c:
				default:
				}
				<-s.resume
				for {
					q, err := readFrame(c)
					if err != nil {
						return
					}
					if rep := c01upReply(q); rep != nil {
						c.SetWriteDeadline(time.Now().Add(2 * time.Second))
						c.Write(frame(rep))
					}
				}
			}()
		}
	}()
	opt := upstream.Opt{TLSConfig: &tls.Config{InsecureSkipVerify: true}, Control: c14smallBuf}
	up, err := upstream.NewUpstream(tr+"://"+ln.Addr().String(), opt)
	if err != nil {
		return "setup-failed ## newupstream"
	}
	defer up.Close()
	mem0 := c01upTotalAlloc()
	big := make([]byte, 60000)
	copy(big, c01upQuery(0, c01upFirstName))
	type res struct{ a, b string }
	ra, rb := make(chan res, 1), make(chan res, 1)
	go func() {
		a, d := c01upExchange(up, big, c01upFirstName, 2500*time.Millisecond)
		ra <- res{a, d}
	}()
	var sc net.Conn
	select {
	case sc = <-s.conns:
	case <-time.After(3 * time.Second):
		return "setup-failed ## no-connection"
	}
	time.Sleep(120 * time.Millisecond)
	go func() {
		a, d := c01upExchange(up, c01upQuery(0x2222, "second.up.test."), "second.up.test.", 300*time.Millisecond)
		rb <- res{a, d}
	}()
	time.Sleep(100 * time.Millisecond)
	for _, t := range script {
		switch {
		case t == "":
		case t[0] == 'p':
			c01upPause(t)
		case t[0] == 'w':
			sc.SetWriteDeadline(time.Now().Add(time.Second))
			sc.Write(unhex(t[1:]))
		}
	}
	b := <-rb
	close(s.resume)
	a := <-ra
	ok, lost, det := c01upProbes(up, n)
	mem := "ok"
	grown := c01upTotalAlloc() - mem0
	if grown > c01upBigAlloc {
		mem = "big"
	}
	next := "fail"
	if ok {
		next = "ok"
	}
	return fmt.Sprintf("next=%s first=%s mem=%s lost=%d an=%s ## first=%s second=%s:%s probes=%s alloc=%dk", next, a.a, mem, lost, c01upAn(a.a, a.b), a.b, b.a, b.b, det, grown>>10)
}
