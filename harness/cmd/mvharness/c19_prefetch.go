package main

// C19: needPrefetch, prefetchCtl and the prefetch path of handleReq (asyncSingleFlightPrefetch / doPrefetch)
// on the real router (router.VerifRun + hooks). Helpers shared with c08_ttlpolicy.go.
//
// component needprefetch : st=<ns the entry was stored before now> ex=<ns until it expires, may be negative> slack=<ns>
//                          -> 0|1                                (VerifNeedPrefetch(now-st, now+ex))
// component prefetchctl  : ops=r<k>,d<k>,p<k>x<n>,...           (reserve, done, n concurrent reserves of k)
//                          -> result of each r (0/1) and number of successful reserves of each p, comma separated
// component prefetch_e2e : mode=<0 ok|1 upstream fails|2 upstream says NXDOMAIN> n=<hits per wave> d=<upstream delay ms>
//                          -> w1=<cached>:<ttl> w2=<cached>:<ttl> fast=<0|1> up=<exchanges> maxconc=<n> probe=<c|u>:<ttl> probe2=..
//                          several scenarios separated by '|' run concurrently (one output per scenario, '|' separated)

import (
	"context"
	"errors"
	"fmt"
	"math/rand"
	"net/netip"
	"strconv"
	"strings"
	"sync"
	"sync/atomic"
	"time"

	"github.com/IrineSistiana/mosproxy/app/router"
	"github.com/IrineSistiana/mosproxy/internal/dnsmsg"
	"github.com/miekg/dns"
)

// ---------------------------------------------------------------- needprefetch

func c19needRun(cs string) string {
	m := kv(cs)
	st, _ := strconv.ParseInt(m["st"], 10, 64)
	ex, _ := strconv.ParseInt(m["ex"], 10, 64)
	now := time.Now()
	return b2s(router.VerifNeedPrefetch(now.Add(-time.Duration(st)), now.Add(time.Duration(ex))))
}

func c19needGen(r *rand.Rand, thorough bool, emit func(c, cat string)) {
	n := 4000
	if thorough {
		n = 40000
	}
	const slack = int64(5 * time.Millisecond)
	lifePool := []int64{int64(time.Second), 2 * int64(time.Second), 4 * int64(time.Second), 5 * int64(time.Second),
		30 * int64(time.Second), 60 * int64(time.Second), 300 * int64(time.Second), 3600 * int64(time.Second),
		21600 * int64(time.Second), 86400 * int64(time.Second), 365 * 86400 * int64(time.Second)}
	for i := 0; i < n; i++ {
		var life int64
		switch r.Intn(4) {
		case 0:
			life = lifePool[r.Intn(len(lifePool))]
		case 1:
			life = int64(time.Second) * int64(1+r.Intn(100))
		case 2:
			life = int64(time.Millisecond) * int64(100+r.Intn(100000))
		default:
			life = int64(100*time.Millisecond) + r.Int63n(int64(48*time.Hour))
		}
		q := life >> 2
		var remain int64
		cat := ""
		switch r.Intn(8) {
		case 0: // just inside the window
			remain = q - 2*slack - r.Int63n(slack)
			cat = "edge-in"
		case 1: // just outside
			remain = q + 2*slack + r.Int63n(slack)
			cat = "edge-out"
		case 2: // near half / an eighth: wrong shift amounts
			remain = life>>1 - 2*slack - r.Int63n(slack)
			cat = "near-half"
		case 3:
			remain = life>>3 + 2*slack + r.Int63n(slack)
			cat = "near-eighth"
		case 4: // already expired
			remain = -r.Int63n(life)
			cat = "expired"
		default:
			remain = r.Int63n(life)
			if d := remain - q; d < 2*slack && d > -2*slack {
				remain = q + 3*slack
			}
			cat = "random"
		}
		if d := remain - q; d < 2*slack && d > -2*slack {
			continue // lifetimes too short for the margins
		}
		st := life - remain // stored st ns ago, expires in remain ns
		emit(fmt.Sprintf("st=%d ex=%d slack=%d", st, remain, slack), cat)
	}
}

// ---------------------------------------------------------------- prefetchctl

var c19ctlRouter *router.VerifRouter
var c19ctlNonce uint64

func c19ctlSetup() {
	c08setup()
	c19ctlRouter = c08router(0, false)
}

func c19ctlRun(cs string) string {
	m := kv(cs)
	base := atomic.AddUint64(&c19ctlNonce, 1) << 20
	var out []string
	used := map[uint64]bool{}
	for _, op := range strings.Split(m["ops"], ",") {
		switch op[0] {
		case 'r':
			k := base + uint64(atoi(op[1:]))
			used[k] = true
			out = append(out, b2s(c19ctlRouter.PrefetchReserve(k)))
		case 'd':
			k := base + uint64(atoi(op[1:]))
			c19ctlRouter.PrefetchDone(k)
		case 'p':
			p := strings.Split(op[1:], "x")
			k := base + uint64(atoi(p[0]))
			used[k] = true
			n := atoi(p[1])
			var granted int32
			var wg sync.WaitGroup
			start := make(chan struct{})
			for i := 0; i < n; i++ {
				wg.Add(1)
				go func() {
					defer wg.Done()
					<-start
					if c19ctlRouter.PrefetchReserve(k) {
						atomic.AddInt32(&granted, 1)
					}
				}()
			}
			close(start)
			wg.Wait()
			out = append(out, fmt.Sprint(granted))
		}
	}
	for k := range used {
		c19ctlRouter.PrefetchDone(k)
	}
	if len(out) == 0 {
		return "-"
	}
	return strings.Join(out, ",")
}

func c19ctlGen(r *rand.Rand, thorough bool, emit func(c, cat string)) {
	n := 1500
	if thorough {
		n = 15000
	}
	emit("ops=r1,r1,d1,r1", "basic")
	emit("ops=p1x64,r1,d1,p1x64", "basic")
	for i := 0; i < n; i++ {
		nk := 1 + r.Intn(4)
		l := 1 + r.Intn(14)
		var ops []string
		par := false
		for j := 0; j < l; j++ {
			k := 1 + r.Intn(nk)
			switch r.Intn(8) {
			case 0, 1, 2, 3:
				ops = append(ops, fmt.Sprintf("r%d", k))
			case 4, 5, 6:
				ops = append(ops, fmt.Sprintf("d%d", k))
			default:
				ops = append(ops, fmt.Sprintf("p%dx%d", k, 1+r.Intn(100)))
				par = true
			}
		}
		cat := "script"
		if par {
			cat = "script-par"
		}
		emit("ops="+strings.Join(ops, ","), cat)
	}
}

// ---------------------------------------------------------------- prefetch_e2e

// upstream that answers the one question of a scenario after a delay and keeps a log
type c19up struct {
	mu       sync.Mutex
	name     string
	mode     int
	negRcode int
	delay    time.Duration
	primed   bool
	calls    int
	cur      int
	maxConc  int
}

func (u *c19up) ExchangeContext(ctx context.Context, m []byte) (*dnsmsg.Msg, error) {
	q := new(dns.Msg)
	if err := q.Unpack(m); err != nil || len(q.Question) != 1 {
		return nil, errors.New("bad query")
	}
	u.mu.Lock()
	u.calls++
	first := !u.primed
	u.primed = true
	if !first {
		u.cur++
		if u.cur > u.maxConc {
			u.maxConc = u.cur
		}
	}
	u.mu.Unlock()
	if first { // the priming query is answered at once
		return c08mkMsg(u.name, q.Id, 0, false, []c08rr{{1, 4}}, nil, []c08rr{{41, 0}}), nil
	}
	defer func() {
		u.mu.Lock()
		u.cur--
		u.mu.Unlock()
	}()
	select {
	case <-time.After(u.delay):
	case <-ctx.Done():
		return nil, ctx.Err()
	}
	switch u.mode {
	case 0:
		return c08mkMsg(u.name, q.Id, 0, false, []c08rr{{1, 4}}, nil, []c08rr{{41, 0}}), nil
	case 2:
		// an error answer: NXDOMAIN, or (every other scenario) REFUSED / NOTIMP — every rcode other than 0 is a
		// negative answer, stored set-if-absent, so the prediction is the same
		return c08mkMsg(u.name, q.Id, u.negRcode, false, nil, nil, nil), nil
	}
	return nil, errors.New("scripted failure")
}
func (u *c19up) Close() error { return nil }

type c19hit struct {
	cached bool
	ttl    int
	lat    time.Duration
	ok     bool
}

// the clients of one wave come from different addresses (all of the same client group: no ip marker is configured)
// (the marker file puts all of 10.1.0.0/16 into one group; the addresses are spread over several /24 — with ECS
// enabled they differ in what is sent upstream, the group and therefore the entry and its refresh are one)
func c19remote(i int) netip.AddrPort {
	return netip.AddrPortFrom(netip.AddrFrom4([4]byte{10, 1, byte(i % 7), byte(1 + i%250)}), uint16(10000+i))
}

func c19query(r *router.VerifRouter, nonce int64, id uint16) c19hit {
	return c19queryFrom(r, nonce, id, c08remote)
}

func c19queryFrom(r *router.VerifRouter, nonce int64, id uint16, remote netip.AddrPort) c19hit {
	qm := c08query(nonce, id)
	t0 := time.Now()
	resp, _, cached, _ := r.Handle(qm, remote, c08local)
	lat := time.Since(t0)
	dnsmsg.ReleaseMsg(qm)
	h := c19hit{cached: cached, lat: lat}
	if resp != nil {
		h.ok = resp.Header.ID == id
		if len(resp.Answers) == 1 {
			h.ttl = int(resp.Answers[0].Hdr().TTL)
		}
		dnsmsg.ReleaseMsg(resp)
	}
	return h
}

func c19wave(r *router.VerifRouter, nonce int64, n int) (cached int, ttl int, slowest time.Duration) {
	res := make([]c19hit, n)
	var wg sync.WaitGroup
	start := make(chan struct{})
	for i := 0; i < n; i++ {
		wg.Add(1)
		go func(i int) {
			defer wg.Done()
			<-start
			res[i] = c19queryFrom(r, nonce, uint16(2000+i), c19remote(i))
		}(i)
	}
	close(start)
	wg.Wait()
	ttl = -1
	for _, h := range res {
		if h.cached && h.ok {
			cached++
		}
		if ttl == -1 {
			ttl = h.ttl
		} else if ttl != h.ttl {
			ttl = 0
		}
		if h.lat > slowest {
			slowest = h.lat
		}
	}
	if ttl < 0 {
		ttl = 0
	}
	return
}

func c19probeStr(h c19hit) string {
	c := "u"
	if h.cached {
		c = "c"
	}
	return fmt.Sprintf("%s:%d", c, h.ttl)
}

// one attempt; ok=false when the schedule slipped by more than tol

func c19scenarioOnce(mode, n, d int) (string, bool) {
	const tol = 90 * time.Millisecond
	r := c08newRouter(0, 1<<22)
	defer func() {
		r.Close()
		c08mu.Lock()
		delete(c08ups, r)
		c08mu.Unlock()
	}()
	nonce := c08nonce.Add(1)
	up := &c19up{name: c08name(nonce, 0), mode: mode, delay: time.Duration(d) * time.Millisecond, negRcode: []int{5, 3, 4, 5}[(n+d/100)%4]}
	r.SetUpstream("u", up)

	// time 0 = 100 ms after a tick of the cache clock
	w := 100*time.Millisecond - c08sinceTick(time.Now())
	if w < 0 {
		w += time.Second
	}
	start := time.Now().Add(w)
	at := func(ms int) bool {
		t := start.Add(time.Duration(ms) * time.Millisecond)
		if dd := time.Until(t); dd > 0 {
			time.Sleep(dd)
		}
		return time.Since(t) <= tol
	}
	if !at(0) {
		return "", false
	}
	if h := c19query(r, nonce, 1); h.cached || h.ttl != 4 {
		return "prime-failed", true
	}
	fastLimit := time.Duration(d) * time.Millisecond / 2
	fast := true
	t1 := 3300
	if !at(t1) {
		return "", false
	}
	c1, l1, s1 := c19wave(r, nonce, n)
	if s1 > fastLimit {
		fast = false
	}
	c2, l2 := 0, 0
	var probe, probe2 string = "-", "-"
	if mode == 0 {
		if !at(t1 + d/2) {
			return "", false
		}
		var s2 time.Duration
		c2, l2, s2 = c19wave(r, nonce, n)
		if s2 > fastLimit {
			fast = false
		}
		if !at(t1 + d + 150) {
			return "", false
		}
		h := c19query(r, nonce, 3)
		if h.lat > fastLimit {
			fast = false
		}
		probe = c19probeStr(h)
		time.Sleep(50 * time.Millisecond)
	} else {
		if !at(t1 + d + 100) {
			return "", false
		}
		h := c19query(r, nonce, 3)
		if h.lat > fastLimit {
			fast = false
		}
		probe = c19probeStr(h)
		if mode == 1 {
			if !at(4600) {
				return "", false
			}
			probe2 = c19probeStr(c19query(r, nonce, 4))
		} else {
			// let the second refresh finish
			if !at(t1 + 2*d + 250) {
				return "", false
			}
		}
	}
	// wait for outstanding refreshes before reading the log
	for i := 0; i < 100; i++ {
		up.mu.Lock()
		cur := up.cur
		up.mu.Unlock()
		if cur == 0 {
			break
		}
		time.Sleep(20 * time.Millisecond)
	}
	up.mu.Lock()
	calls, maxc := up.calls, up.maxConc
	up.mu.Unlock()
	return fmt.Sprintf("w1=%d:%d w2=%d:%d fast=%s up=%d maxconc=%d probe=%s probe2=%s", c1, l1, c2, l2, b2s(fast), calls, maxc, probe, probe2), true
}

func c19scenario(mode, n, d int) string {
	for attempt := 0; attempt < 3; attempt++ {
		if res, ok := c19scenarioOnce(mode, n, d); ok {
			return res
		}
	}
	return "skip"
}

func c19e2eRun(cs string) string {
	if !c08calibrate() {
		return "skip"
	}
	m := kv(cs)
	return c19scenario(atoi(m["mode"]), atoi(m["n"]), atoi(m["d"]))
}

func c19e2eGen(r *rand.Rand, thorough bool, emit func(c, cat string)) {
	// the framework runs cases one after the other; the scenarios of one batch run concurrently
	type sc struct{ mode, n, d int }
	var batch []sc
	ns := []int{1, 2, 3, 5, 10, 25, 50, 100}
	pick := func() int {
		if r.Intn(2) == 0 {
			return ns[r.Intn(len(ns))]
		}
		return 1 + r.Intn(100)
	}
	if thorough {
		for i := 0; i < 30; i++ {
			mode := i % 3
			d := 500
			if mode != 0 {
				d = 300
			}
			batch = append(batch, sc{mode, pick(), d})
		}
	} else {
		batch = []sc{{0, pick(), 500}, {1, pick(), 300}, {2, pick(), 300}}
	}
	res := make([]string, len(batch))
	if c08calibrate() {
		var wg sync.WaitGroup
		for i, s := range batch {
			wg.Add(1)
			go func(i int, s sc) {
				defer wg.Done()
				res[i] = c19scenario(s.mode, s.n, s.d)
			}(i, s)
		}
		wg.Wait()
	} else {
		for i := range res {
			res[i] = "skip"
		}
	}
	c19pre = map[string]string{}
	for i, s := range batch {
		cs := fmt.Sprintf("mode=%d n=%d d=%d run=%d", s.mode, s.n, s.d, i)
		c19pre[cs] = res[i]
		emit(cs, fmt.Sprintf("mode%d", s.mode))
	}
}

// results of the scenarios the generator already ran concurrently
var c19pre map[string]string

func c19e2eRunOrPre(cs string) string {
	if res, ok := c19pre[cs]; ok {
		delete(c19pre, cs)
		return res
	}
	return c19e2eRun(cs)
}

func init() {
	register("needprefetch", &component{gen: c19needGen, run: c19needRun})
	register("prefetchctl", &component{gen: c19ctlGen, run: c19ctlRun, setup: c19ctlSetup})
	register("prefetch_e2e", &component{gen: c19e2eGen, run: c19e2eRunOrPre, setup: c08setup})
}
