// Command mvharness drives the real mosproxy code (built from /repo's working
// tree with -tags verif) on generated or replayed cases and prints one line
// per case: "<case>\t<impl output>". The same cases are fed to the Lean model
// driver (mvmodel) and the outputs are compared by /verif/check.
//
//	mvharness gen <component> <quick|thorough> <seed>
//	mvharness replay <component>            (cases on stdin, one per line)
//	mvharness list
package main

import (
	"bufio"
	"fmt"
	"math/rand"
	"os"
	"sort"
	"strconv"
	"strings"
	"sync"
	"time"

	"github.com/rs/zerolog"
)

type component struct {
	// gen produces cases by calling emit(case, category).
	gen func(r *rand.Rand, thorough bool, emit func(c, cat string))
	// run executes one case on the real code and returns the canonical output.
	run func(c string) string
	// setup/teardown are optional.
	setup    func()
	teardown func()
	// timeout of one case (default 180 s)
	timeout time.Duration
}

var components = map[string]*component{}

func register(name string, c *component) { components[name] = c }

var outMu sync.Mutex
var out = bufio.NewWriterSize(os.Stdout, 1<<16)

// safeRun runs one case with a recover (a panic is the output "panic") and a watchdog: a case that does
// not finish in time is the output "hang"; a spinning goroutine cannot be stopped, so the process then
// prints what it has and exits. The case being run is announced on stderr first, so that /verif/check can
// name it if the whole process dies (a panic on a goroutine of the code under test).
func safeRun(c *component, cs string) string {
	fmt.Fprintf(os.Stderr, "#running\t%s\n", cs)
	done := make(chan string, 1)
	go func() {
		defer func() {
			if r := recover(); r != nil {
				fmt.Fprintf(os.Stderr, "panic on case %q: %v\n", cs, r)
				done <- "panic"
			}
		}()
		done <- c.run(cs)
	}()
	limit := c.timeout
	if limit == 0 {
		limit = 180 * time.Second
	}
	select {
	case res := <-done:
		return res
	case <-time.After(limit):
		outMu.Lock()
		out.WriteString(cs + "\thang\n")
		out.Flush()
		os.Exit(3)
		return "hang"
	}
}

func main() {
	// mosproxy's console logger writes to stdout, which carries the line protocol
	zerolog.SetGlobalLevel(zerolog.Disabled)
	if len(os.Args) < 2 {
		fmt.Fprintln(os.Stderr, "usage: mvharness gen|replay|list ...")
		os.Exit(2)
	}
	switch os.Args[1] {
	case "list":
		var names []string
		for n := range components {
			names = append(names, n)
		}
		sort.Strings(names)
		fmt.Println(strings.Join(names, "\n"))
	case "gen":
		if len(os.Args) < 5 {
			fmt.Fprintln(os.Stderr, "usage: mvharness gen <component> <tier> <seed>")
			os.Exit(2)
		}
		c := components[os.Args[2]]
		if c == nil {
			fmt.Fprintln(os.Stderr, "unknown component", os.Args[2])
			os.Exit(2)
		}
		seed, _ := strconv.ParseInt(os.Args[4], 10, 64)
		r := rand.New(rand.NewSource(seed))
		if c.setup != nil {
			c.setup()
		}
		cats := map[string]int{}
		n := 0
		c.gen(r, os.Args[3] == "thorough", func(cs, cat string) {
			res := safeRun(c, cs)
			out.WriteString(cs)
			out.WriteByte('\t')
			out.WriteString(res)
			out.WriteByte('\n')
			cats[cat]++
			n++
			if n%256 == 0 {
				out.Flush()
			}
		})
		var keys []string
		for k := range cats {
			keys = append(keys, k)
		}
		sort.Strings(keys)
		for _, k := range keys {
			fmt.Fprintf(out, "#cat\t%s\t%d\n", k, cats[k])
		}
		out.Flush()
		if c.teardown != nil {
			c.teardown()
		}
	case "replay":
		c := components[os.Args[2]]
		if c == nil {
			fmt.Fprintln(os.Stderr, "unknown component", os.Args[2])
			os.Exit(2)
		}
		if c.setup != nil {
			c.setup()
		}
		sc := bufio.NewScanner(os.Stdin)
		sc.Buffer(make([]byte, 1<<20), 1<<26)
		for sc.Scan() {
			cs := sc.Text()
			if cs == "" || strings.HasPrefix(cs, "#") {
				continue
			}
			if i := strings.IndexByte(cs, '\t'); i >= 0 {
				cs = cs[:i]
			}
			res := safeRun(c, cs)
			fmt.Fprintf(out, "%s\t%s\n", cs, res)
			out.Flush()
		}
		if c.teardown != nil {
			c.teardown()
		}
	default:
		fmt.Fprintln(os.Stderr, "unknown command", os.Args[1])
		os.Exit(2)
	}
}

// helpers shared by components

func kv(c string) map[string]string {
	m := map[string]string{}
	for _, t := range strings.Fields(c) {
		if i := strings.IndexByte(t, '='); i >= 0 {
			m[t[:i]] = t[i+1:]
		}
	}
	return m
}

func atoi(s string) int {
	n, _ := strconv.Atoi(s)
	return n
}

func b2s(b bool) string {
	if b {
		return "1"
	}
	return "0"
}

func hexs(b []byte) string {
	if len(b) == 0 {
		return "-"
	}
	const d = "0123456789abcdef"
	o := make([]byte, 0, len(b)*2)
	for _, x := range b {
		o = append(o, d[x>>4], d[x&15])
	}
	return string(o)
}

func unhex(s string) []byte {
	if s == "-" || s == "" {
		return nil
	}
	o := make([]byte, 0, len(s)/2)
	v := func(c byte) byte {
		switch {
		case c >= '0' && c <= '9':
			return c - '0'
		case c >= 'a' && c <= 'f':
			return c - 'a' + 10
		case c >= 'A' && c <= 'F':
			return c - 'A' + 10
		}
		return 0
	}
	for i := 0; i+1 < len(s); i += 2 {
		o = append(o, v(s[i])<<4|v(s[i+1]))
	}
	return o
}
