package main

// Listener-level components on the REAL router with every listener kind (listeners.go).
//
// `malformed` (C01): case = kind=<k> via=<get|post|-> bytes=<hex>
//    send the unit to that listener, then a valid query to the same listener.
//    out  = first=<resp|none|closed|http:400|…> next=<ok|fail>
//
// `serve` (C03, C04): case = kind=<k> n=<count> conc=<c> mix=<ok|mixed> seed=<s>
//    n concurrent queries (distinct and repeated names, mixed upstream outcomes) through that listener;
//    every response is matched against its own query.
//    out  = sent=<n> answered=<n> once=<n> idok=<n> own=<n> rcodeok=<n>

import (
	"encoding/binary"
	"fmt"
	"math/rand"
	"os"
	"strings"
	"sync"
	"time"

	"github.com/IrineSistiana/mosproxy/app/router"
	"github.com/IrineSistiana/mosproxy/internal/dnsmsg"
	"github.com/IrineSistiana/mosproxy/internal/pool"
)

var lfix *fixture

// lfixIdle: stream listeners with idle_timeout 2 s (shorter than the "late" upstream answer of 3.5 s)
var lfixIdle *fixture

func listenersSetup() {
	f, err := newFixture(append(append([]string{}, listenerKinds...), "udpmr"), nil)
	if err != nil {
		panic(err)
	}
	lfix = f
	fi, err := newFixture([]string{"tcp", "gnet", "tls", "quic"}, func(cfg *router.Config) {
		for i := range cfg.Servers {
			cfg.Servers[i].IdleTimeout = 2
		}
	})
	if err != nil {
		panic(err)
	}
	lfixIdle = fi
	realUpSetup()
	time.Sleep(50 * time.Millisecond)
}

func listenersTeardown() {
	if lfix != nil {
		lfix.close()
	}
	if lfixIdle != nil {
		lfixIdle.close()
	}
	realUpTeardown()
}

var validSeq uint32

func validProbe(kind string) bool {
	validSeq++
	name := wireLabels([]byte(fmt.Sprintf("ok%d", validSeq)), []byte("probe"))
	id := uint16(validSeq*31 + 7)
	for attempt := 0; attempt < 2; attempt++ {
		r := lfix.exchange(kind, buildQuery(id, name, 1, false, 0), "post", 2*time.Second)
		if r.status == "resp" && len(r.resp) >= 12 && binary.BigEndian.Uint16(r.resp) == id {
			m, err := dnsmsg.UnpackMsg(r.resp)
			if err == nil {
				ok := m.Header.RCode == 0 && len(m.Answers) == 1
				if ok {
					if a, isA := m.Answers[0].(*dnsmsg.A); !isA || a.A != answerFor(name, 1, 1) {
						ok = false
					}
				}
				dnsmsg.ReleaseMsg(m)
				if ok {
					return true
				}
			}
		}
	}
	return false
}

func runMalformed(cs string) string {
	m := kv(cs)
	kind := m["kind"]
	b := unhex(m["bytes"])
	wait := 300 * time.Millisecond
	r := lfix.exchange(kind, b, m["via"], wait)
	first := r.status
	next := "fail"
	if validProbe(kind) {
		next = "ok"
	}
	if m["via"] == "raw" && len(b) >= 2 && len(b) > 2+int(binary.BigEndian.Uint16(b)) {
		// octets follow the first frame: whether its response is written before the rest of the stream gets the
		// connection closed is a race, so the reaction is reported but not compared
		return fmt.Sprintf("first=any next=%s ## first=%s", next, first)
	}
	return fmt.Sprintf("first=%s next=%s", first, next)
}

func genMalformed(r *rand.Rand, thorough bool, emit func(c, cat string)) {
	per := 10
	if thorough {
		per = 60
	}
	adv := adversarial()
	for _, kind := range listenerKinds {
		for i := 0; i < per; i++ {
			var b []byte
			cat := "mutated"
			switch r.Intn(5) {
			case 0:
				b = adv[r.Intn(len(adv))]
				cat = "adversarial"
			case 1:
				b = make([]byte, r.Intn(64))
				r.Read(b)
				cat = "random"
			case 2: // valid message
				g := newMsgGen(r)
				mm := parseMsg(g.msg())
				buf := make([]byte, mm.Len())
				n, err := mm.Pack(buf, true, 0)
				dnsmsg.ReleaseMsg(mm)
				if err != nil || n > 1400 {
					continue
				}
				b = buf[:n]
				cat = "valid"
			default:
				g := newMsgGen(r)
				mm := parseMsg(g.msg())
				buf := make([]byte, mm.Len())
				n, err := mm.Pack(buf, true, 0)
				dnsmsg.ReleaseMsg(mm)
				if err != nil || n > 1400 || n == 0 {
					continue
				}
				b = buf[:n]
				switch r.Intn(3) {
				case 0:
					b = b[:r.Intn(len(b))]
				case 1:
					b[r.Intn(len(b))] = byte(r.Intn(256))
				default:
					if len(b) > 13 {
						p := 12 + r.Intn(len(b)-13)
						b[p], b[p+1] = 0xC0|byte(r.Intn(64)), byte(r.Intn(256))
					}
				}
			}
			if kind == "udp" && r.Intn(4) == 0 { // datagrams larger than the usual 512..2048: a padded valid query, or garbage
				if r.Intn(2) == 0 {
					b = buildPaddedQuery(uint16(r.Intn(65536)), wireLabels([]byte("ok"), []byte("bigdatagram")), 1, 2100+r.Intn(20000))
					cat = "bigvalid"
				} else {
					b = make([]byte, 2049+r.Intn(30000))
					r.Read(b)
					cat = "bigrandom"
				}
			}
			via := "-"
			if kind == "http" || kind == "https" || kind == "fasthttp" {
				via = []string{"get", "post"}[r.Intn(2)]
			}
			if kind == "tcp" || kind == "gnet" || kind == "tls" {
				via = []string{"-", "split1", "split2", "split3"}[r.Intn(4)]
			}
			if (kind == "tcp" || kind == "gnet" || kind == "tls" || kind == "quic") && r.Intn(3) == 0 {
				// the stream as the client writes it: a length prefix that lies about what follows
				via = "raw"
				var l int
				switch r.Intn(6) {
				case 0:
					l = 0
				case 1:
					l = len(b) + 1 + r.Intn(40) // more than what follows
				case 2:
					l = 65535
				case 3:
					l = r.Intn(len(b) + 1) // less: the rest looks like the next frame
				default:
					l = len(b)
				}
				fr := frame(b)
				binary.BigEndian.PutUint16(fr, uint16(l))
				if r.Intn(8) == 0 {
					fr = fr[:r.Intn(3)] // not even a whole prefix
				}
				b = fr
				cat = "rawstream"
			}
			emit(fmt.Sprintf("kind=%s via=%s bytes=%s", kind, via, hexs(b)), kind+"-"+cat)
		}
	}
}

// ---- serve

// mix=linger (kind=all): on every connection-oriented listener at once, ONE client connection carries a query
// whose upstream answer takes 3.5 s and then, on the same connection (now older than 3.5 s), a second query.
// mix=huge: the first query's upstream answer re-packs to more than 65535 octets (700 records of 112 octets);
// the response must still be one decodable message (a truncated, intact prefix) and the stream stays usable.
func runLinger(m map[string]string) string {
	firstLabel, huge := "late", false
	if m["mix"] == "huge" {
		firstLabel, huge = "big700", true
	}
	var answered, once, idok, own, rcodeok int
	var mu sync.Mutex
	judge := func(id uint16, name []byte, resp []byte) {
		mu.Lock()
		defer mu.Unlock()
		answered++
		once++
		rm, err := dnsmsg.UnpackMsg(resp)
		if err != nil {
			return
		}
		defer dnsmsg.ReleaseMsg(rm)
		if rm.Header.ID == id && rm.Header.Response && rm.Header.RecursionAvailable && rm.Header.RecursionDesired {
			idok++
		}
		if rm.Header.RCode == dnsmsg.RCodeSuccess {
			rcodeok++
		}
		if huge && name[1] == 'b' {
			intact := len(rm.Answers) > 0 && len(rm.Questions) <= 1
			for i, rr := range rm.Answers {
				raw, ok := rr.(*dnsmsg.RawResource)
				if !ok || len(raw.Data) != 100 || raw.Data[0] != 99 || raw.Data[1] != byte(i) {
					intact = false
				}
			}
			if intact {
				own++
			}
			return
		}
		if len(rm.Questions) <= 1 && len(rm.Answers) == 1 {
			if a, isA := rm.Answers[0].(*dnsmsg.A); isA && a.A == answerFor(name, 1, 1) {
				own++
			}
		}
	}
	seed := atoi(m["seed"])
	var wg sync.WaitGroup
	kinds := []string{"tcp", "gnet", "tls", "http", "https", "fasthttp", "quic"}
	for ki, kind := range kinds {
		ki, kind := ki, kind
		wg.Add(1)
		go func() {
			defer wg.Done()
			n1 := wireLabels([]byte(firstLabel), []byte(fmt.Sprintf("s%d", seed)), []byte("linger"), []byte(kind))
			if !huge {
				n1 = wireLabels([]byte(fmt.Sprintf("late%d", seed)), []byte("linger"), []byte(kind))
			}
			n2 := wireLabels([]byte(fmt.Sprintf("ok%d", seed)), []byte("linger"), []byte(kind))
			id1, id2 := uint16(seed+ki*2+1), uint16(seed+ki*2+2)
			switch kind {
			case "tcp", "gnet", "tls":
				c, err := lfix.dialStream(kind)
				if err != nil {
					return
				}
				defer c.Close()
				for _, q := range []struct {
					id   uint16
					name []byte
				}{{id1, n1}, {id2, n2}} {
					c.Write(frame(buildQuery(q.id, q.name, 1, false, 0)))
					c.SetReadDeadline(time.Now().Add(8 * time.Second))
					b, err := readFrame(c)
					if err != nil {
						return
					}
					judge(q.id, q.name, b)
				}
			default:
				for _, q := range []struct {
					id   uint16
					name []byte
				}{{id1, n1}, {id2, n2}} {
					res := lfix.exchange(kind, buildQuery(q.id, q.name, 1, false, 0), "post", 8*time.Second)
					if res.status == "resp" {
						judge(q.id, q.name, res.resp)
					}
				}
			}
		}()
	}
	extra := 0
	if !huge {
		// a connection is not idle while its query is being handled: idle_timeout 2 s, answer after 3.5 s
		for ki, kind := range []string{"tcp", "gnet", "tls", "quic"} {
			ki, kind := ki, kind
			extra++
			wg.Add(1)
			go func() {
				defer wg.Done()
				name := wireLabels([]byte(fmt.Sprintf("late%d", seed)), []byte("busyidle"), []byte(kind))
				id := uint16(seed + 100 + ki)
				res := lfixIdle.exchange(kind, buildQuery(id, name, 1, false, 0), "whole", 8*time.Second)
				if res.status == "resp" {
					judge(id, name, res.resp)
				} else if os.Getenv("MIXDEBUG") != "" {
					fmt.Fprintln(os.Stderr, "busyidle", kind, res.status)
				}
			}()
		}
		// a UDP query larger than 2048 octets (padding option)
		extra++
		wg.Add(1)
		go func() {
			defer wg.Done()
			name := wireLabels([]byte(fmt.Sprintf("ok%d", seed)), []byte("bigquery"))
			id := uint16(seed + 200)
			res := lfix.exchange("udp", buildPaddedQuery(id, name, 1, 2200+seed%1500), "-", 4*time.Second)
			if res.status == "resp" {
				judge(id, name, res.resp)
			} else if os.Getenv("MIXDEBUG") != "" {
				fmt.Fprintln(os.Stderr, "bigquery", res.status)
			}
		}()
	}
	late := 0
	if !huge {
		// a silent upstream on every listener kind: SERVFAIL, and within the request deadline (6 s) plus slack
		for ki, kind := range append(append([]string{}, listenerKinds...), "udpmr") {
			ki, kind := ki, kind
			extra++
			wg.Add(1)
			go func() {
				defer wg.Done()
				name := wireLabels([]byte(fmt.Sprintf("silent%d", seed)), []byte("deadline"), []byte(kind))
				id := uint16(seed + 300 + ki)
				via := "post"
				if kind == "tcp" || kind == "gnet" || kind == "tls" {
					via = "whole"
				}
				withOpt := ki%2 == 0 // every other listener kind is asked with EDNS0: the SERVFAIL at the deadline is the
				// answer to a supported query and carries one OPT iff the query had one (C12)
				t0 := time.Now()
				res := lfix.exchange(kind, buildQuery(id, name, 1, withOpt, 1232), via, 10*time.Second)
				el := time.Since(t0)
				if res.status != "resp" {
					if os.Getenv("MIXDEBUG") != "" {
						fmt.Fprintln(os.Stderr, "silent", kind, res.status, el)
					}
					return
				}
				mu.Lock()
				defer mu.Unlock()
				answered++
				once++
				if el > 7500*time.Millisecond {
					late++
				}
				rm, err := dnsmsg.UnpackMsg(res.resp)
				if err != nil {
					return
				}
				defer dnsmsg.ReleaseMsg(rm)
				if rm.Header.ID == id && rm.Header.Response && rm.Header.RecursionAvailable && rm.Header.RecursionDesired {
					idok++
				}
				if rm.Header.RCode == dnsmsg.RCodeServerFailure {
					rcodeok++
				}
				nopt := 0
				for _, rr := range rm.Additionals {
					if rr.Hdr().Type == dnsmsg.TypeOPT {
						nopt++
					}
				}
				if len(rm.Questions) <= 1 && len(rm.Answers) == 0 && nopt == map[bool]int{true: 1, false: 0}[withOpt] {
					own++
				}
			}()
		}
	}
	if !huge {
		// the same through a REAL udp:// upstream (pipelined UDP transport + TCP fallback) and a scripted server:
		// a truncated reply retried over TCP is answered (tcok); a truncated reply that comes after 3 s followed
		// by a TCP side that never answers is SERVFAIL within the request deadline (tcsil)
		for ki, kind := range []string{"udp", "tcp", "https"} {
			for si, beh := range []string{"tcok", "tcsil"} {
				ki, kind, si, beh := ki, kind, si, beh
				extra++
				wg.Add(1)
				go func() {
					defer wg.Done()
					name := wireLabels([]byte(fmt.Sprintf("%s%d", beh, seed)), []byte("realup"), []byte(kind))
					id := uint16(seed + 400 + ki*2 + si)
					via := "post"
					if kind == "tcp" {
						via = "whole"
					}
					t0 := time.Now()
					res := lfixReal.exchange(kind, buildQuery(id, name, 1, false, 0), via, 10*time.Second)
					el := time.Since(t0)
					if res.status != "resp" {
						if os.Getenv("MIXDEBUG") != "" {
							fmt.Fprintln(os.Stderr, "realup", beh, kind, res.status, el)
						}
						return
					}
					mu.Lock()
					defer mu.Unlock()
					answered++
					once++
					if el > 7500*time.Millisecond {
						late++
					}
					rm, err := dnsmsg.UnpackMsg(res.resp)
					if err != nil {
						return
					}
					defer dnsmsg.ReleaseMsg(rm)
					if rm.Header.ID == id && rm.Header.Response && rm.Header.RecursionAvailable && rm.Header.RecursionDesired {
						idok++
					}
					if beh == "tcsil" {
						if rm.Header.RCode == dnsmsg.RCodeServerFailure {
							rcodeok++
						}
						if len(rm.Questions) <= 1 && len(rm.Answers) == 0 {
							own++
						}
						return
					}
					if rm.Header.RCode == dnsmsg.RCodeSuccess {
						rcodeok++
					}
					if len(rm.Questions) <= 1 && len(rm.Answers) == 1 {
						if a, isA := rm.Answers[0].(*dnsmsg.A); isA && a.A == answerFor(name, 1, 1) {
							own++
						}
					}
				}()
			}
		}
	}
	wg.Wait()
	return fmt.Sprintf("sent=%d answered=%d once=%d idok=%d own=%d rcodeok=%d ## late=%d", 2*len(kinds)+extra, answered, once, idok, own, rcodeok, late)
}

// buildPaddedQuery: an RD query with an OPT record carrying a padding option (RFC 7830) of pad octets.
func buildPaddedQuery(id uint16, name []byte, typ uint16, pad int) []byte {
	m := dnsmsg.NewMsg()
	defer dnsmsg.ReleaseMsg(m)
	m.Header.ID = id
	m.Header.RecursionDesired = true
	q := dnsmsg.NewQuestion()
	q.Name, q.Type, q.Class = nameBuf(name), dnsmsg.Type(typ), dnsmsg.ClassINET
	m.Questions = append(m.Questions, q)
	o := dnsmsg.NewRaw()
	o.Type, o.Class = dnsmsg.TypeOPT, 4096
	d := make([]byte, 4+pad)
	d[1] = 12
	d[2], d[3] = byte(pad>>8), byte(pad)
	o.Data = pool.GetBuf(len(d))
	copy(o.Data, d)
	m.Additionals = append(m.Additionals, o)
	b := make([]byte, m.Len())
	n, _ := m.Pack(b, false, 0)
	return b[:n]
}

func runServe(cs string) string {
	m := kv(cs)
	if m["mix"] == "linger" || m["mix"] == "huge" {
		return runLinger(m)
	}
	kind := m["kind"]
	n, conc := atoi(m["n"]), atoi(m["conc"])
	r := rand.New(rand.NewSource(int64(atoi(m["seed"]))))
	type job struct {
		id    uint16
		name  []byte
		typ   uint16
		first string
	}
	jobs := make([]job, n)
	firsts := []string{"ok"}
	if m["mix"] == "mixed" {
		firsts = []string{"ok", "ok", "ok", "slow", "nx", "fail", "evil"}
	}
	if m["mix"] == "silent" { // the upstream never answers: SERVFAIL at the 6 s request deadline
		firsts = []string{"silent"}
	}
	for i := range jobs {
		f := firsts[r.Intn(len(firsts))]
		// a few repeated names (same question from several clients) and many distinct ones
		k := i
		if r.Intn(4) == 0 {
			k = r.Intn(i + 1)
		}
		jobs[i] = job{id: uint16(r.Intn(65536)), name: wireLabels([]byte(fmt.Sprintf("%s%d", f, k)), []byte("serve"), []byte(kind)), typ: []uint16{1, 28, 15}[r.Intn(3)], first: f}
	}
	var answered, once, idok, own, rcodeok int
	var mu sync.Mutex
	sem := make(chan struct{}, conc)
	var wg sync.WaitGroup
	for _, j := range jobs {
		j := j
		wg.Add(1)
		sem <- struct{}{}
		go func() {
			defer func() { <-sem; wg.Done() }()
			via := "post"
			if kind == "tcp" || kind == "gnet" || kind == "tls" {
				via = []string{"whole", "split1", "split2", "split3"}[int(j.id)%4]
			}
			res := lfix.exchange(kind, buildQuery(j.id, j.name, j.typ, false, 0), via, 8*time.Second)
			if res.status != "resp" {
				return
			}
			mu.Lock()
			defer mu.Unlock()
			answered++
			once++ // one unit per exchange by construction of the clients (stream/HTTP); UDP duplicates are looked for below
			rm, err := dnsmsg.UnpackMsg(res.resp)
			if err != nil {
				return
			}
			defer dnsmsg.ReleaseMsg(rm)
			if rm.Header.ID == j.id && rm.Header.Response && rm.Header.RecursionAvailable && rm.Header.RecursionDesired {
				idok++
			}
			wantRcode := dnsmsg.RCodeSuccess
			switch j.first {
			case "nx":
				wantRcode = dnsmsg.RCodeNameError
			case "fail", "evil", "silent":
				wantRcode = dnsmsg.RCodeServerFailure
			}
			if rm.Header.RCode == wantRcode {
				rcodeok++
			}
			// the answer must be the one the upstream produced for THIS question
			good := true
			if len(rm.Questions) > 1 {
				good = false
			}
			if wantRcode == dnsmsg.RCodeSuccess {
				if len(rm.Answers) != 1 {
					good = false
				} else if a, isA := rm.Answers[0].(*dnsmsg.A); !isA || a.A != answerFor(j.name, j.typ, 1) {
					good = false
				}
			} else if len(rm.Answers) != 0 {
				good = false
			}
			if good {
				own++
			}
		}()
	}
	wg.Wait()
	return fmt.Sprintf("sent=%d answered=%d once=%d idok=%d own=%d rcodeok=%d", n, answered, once, idok, own, rcodeok)
}

func genServe(r *rand.Rand, thorough bool, emit func(c, cat string)) {
	rounds := 1
	n := 40
	if thorough {
		rounds, n = 6, 400
	}
	for i := 0; i < rounds; i++ {
		for _, kind := range append(append([]string{}, listenerKinds...), "udpmr") {
			mix := []string{"ok", "mixed"}[r.Intn(2)]
			if i == 0 {
				mix = "mixed"
			}
			emit(fmt.Sprintf("kind=%s n=%d conc=%d mix=%s seed=%d", kind, n, []int{1, 8, 32}[r.Intn(3)], mix, r.Intn(1<<30)), kind+"-"+mix)
		}
	}
	emit(fmt.Sprintf("kind=all n=34 conc=7 mix=linger seed=%d", r.Intn(30000)), "all-linger")
	emit(fmt.Sprintf("kind=all n=14 conc=7 mix=huge seed=%d", r.Intn(30000)), "all-huge")
	if thorough {
		for _, kind := range listenerKinds {
			emit(fmt.Sprintf("kind=%s n=6 conc=6 mix=silent seed=%d", kind, r.Intn(1<<30)), kind+"-silent")
		}
	}
}

// ---- udpsize (C09 at the listener): UDP responses respect max(512, advertised size) and truncate well-formedly
// case : opt=<0|1> size=<advertised> k=<number of 100-octet answer records the upstream returns>
// out  : len_ok=<0|1> tc=<0|1> an=<records present> decodes=<0|1> opt=<OPT records in the response> q=<questions>

func runUdpSize(cs string) string {
	m := kv(cs)
	withOpt := m["opt"] == "1"
	size, k := atoi(m["size"]), atoi(m["k"])
	seq := atoi(m["seq"])
	name := wireLabels([]byte(fmt.Sprintf("big%d", k)), []byte(fmt.Sprintf("u%d", seq)))
	if pad := atoi(m["pad"]); pad > 0 { // a longer question shifts where the record boundaries fall relative to the limit
		name = wireLabels([]byte(fmt.Sprintf("big%d", k)), []byte(fmt.Sprintf("u%d", seq)), []byte(strings.Repeat("x", pad)))
	}
	id := uint16(seq*17 + 3)
	res := lfix.exchange("udp", buildQuery(id, name, 16, withOpt, size), "-", 2*time.Second)
	if res.status != "resp" {
		return "no-response"
	}
	limit := 512
	if withOpt && size > limit {
		limit = size
	}
	rm, err := dnsmsg.UnpackMsg(res.resp)
	if err != nil {
		return fmt.Sprintf("len_ok=%s tc=- an=- decodes=0 opt=- q=-", b2s(len(res.resp) <= limit))
	}
	defer dnsmsg.ReleaseMsg(rm)
	nopt := 0
	for _, rr := range rm.Additionals {
		if rr.Hdr().Type == dnsmsg.TypeOPT {
			nopt++
		}
	}
	intact := 1
	for i, rr := range rm.Answers {
		raw, ok := rr.(*dnsmsg.RawResource)
		if !ok || len(raw.Data) != 100 || raw.Data[0] != 99 || (i > 0 && raw.Data[1] != rm.Answers[i-1].(*dnsmsg.RawResource).Data[1]+1) {
			intact = 0
		}
	}
	return fmt.Sprintf("len_ok=%s tc=%s an=%d decodes=1 opt=%d q=%d intact=%d", b2s(len(res.resp) <= limit), b2s(rm.Header.Truncated), len(rm.Answers), nopt, len(rm.Questions), intact)
}

func genUdpSize(r *rand.Rand, thorough bool, emit func(c, cat string)) {
	n := 40
	if thorough {
		n = 600
	}
	for _, size := range []int{65535, 65508, 65507, 65000} { // around the largest UDP payload
		emit(fmt.Sprintf("opt=1 size=%d k=%d seq=%d", size, 570+r.Intn(140), r.Intn(1000000)), "opt1-huge")
		// with a 63-octet label in the question a whole number of records ends between 65508 and 65535
		emit(fmt.Sprintf("opt=1 size=%d k=%d seq=%d pad=63", size, 590+r.Intn(100), 100000+r.Intn(900000)), "opt1-huge")
		if !thorough {
			break
		}
	}
	for i := 0; i < n; i++ {
		opt := r.Intn(3) > 0
		size := []int{0, 100, 512, 513, 600, 1232, 1400, 2000, 4096}[r.Intn(9)]
		if r.Intn(3) == 0 {
			size = 400 + r.Intn(1800)
		}
		k := r.Intn(22)
		emit(fmt.Sprintf("opt=%s size=%d k=%d seq=%d", b2s(opt), size, k, r.Intn(1000000)), fmt.Sprintf("opt%s", b2s(opt)))
	}
}

func init() {
	register("malformed", &component{gen: genMalformed, run: runMalformed, setup: listenersSetup, teardown: listenersTeardown})
	register("serve", &component{gen: genServe, run: runServe, setup: listenersSetup, teardown: listenersTeardown})
	register("udpsize", &component{gen: genUdpSize, run: runUdpSize, setup: listenersSetup, teardown: listenersTeardown})
}
