package main

// Listener-level components on the REAL router with every listener kind (listeners.go).
//
// `malformed` (C01): case = kind=<k> via=<get|post|-> bytes=<hex>
//    send the unit to that listener, then a valid query to the same listener.
//    out  = first=<resp|none|closed|http:400|…> next=<ok|fail>
//
// `serve` (C03, C04): case = kind=<k> n=<count> conc=<c> mix=<ok|mixed> seed=<s>
//    n concurrent queries (distinct and repeated names, mixed upstream outcomes) through that listener;
//    every response is matched against its own query.
//    out  = sent=<n> answered=<n> once=<n> idok=<n> own=<n> rcodeok=<n>

import (
	"encoding/binary"
	"fmt"
	"math/rand"
	"sync"
	"time"

	"github.com/IrineSistiana/mosproxy/internal/dnsmsg"
)

var lfix *fixture

func listenersSetup() {
	f, err := newFixture(listenerKinds, nil)
	if err != nil {
		panic(err)
	}
	lfix = f
	time.Sleep(50 * time.Millisecond)
}

func listenersTeardown() {
	if lfix != nil {
		lfix.close()
	}
}

var validSeq uint32

func validProbe(kind string) bool {
	validSeq++
	name := wireLabels([]byte(fmt.Sprintf("ok%d", validSeq)), []byte("probe"))
	id := uint16(validSeq*31 + 7)
	for attempt := 0; attempt < 2; attempt++ {
		r := lfix.exchange(kind, buildQuery(id, name, 1, false, 0), "post", 2*time.Second)
		if r.status == "resp" && len(r.resp) >= 12 && binary.BigEndian.Uint16(r.resp) == id {
			m, err := dnsmsg.UnpackMsg(r.resp)
			if err == nil {
				ok := m.Header.RCode == 0 && len(m.Answers) == 1
				if ok {
					if a, isA := m.Answers[0].(*dnsmsg.A); !isA || a.A != answerFor(name, 1, 1) {
						ok = false
					}
				}
				dnsmsg.ReleaseMsg(m)
				if ok {
					return true
				}
			}
		}
	}
	return false
}

func runMalformed(cs string) string {
	m := kv(cs)
	kind := m["kind"]
	b := unhex(m["bytes"])
	wait := 300 * time.Millisecond
	r := lfix.exchange(kind, b, m["via"], wait)
	first := r.status
	next := "fail"
	if validProbe(kind) {
		next = "ok"
	}
	return fmt.Sprintf("first=%s next=%s", first, next)
}

func genMalformed(r *rand.Rand, thorough bool, emit func(c, cat string)) {
	per := 6
	if thorough {
		per = 60
	}
	adv := adversarial()
	for _, kind := range listenerKinds {
		for i := 0; i < per; i++ {
			var b []byte
			cat := "mutated"
			switch r.Intn(5) {
			case 0:
				b = adv[r.Intn(len(adv))]
				cat = "adversarial"
			case 1:
				b = make([]byte, r.Intn(64))
				r.Read(b)
				cat = "random"
			case 2: // valid message
				g := newMsgGen(r)
				mm := parseMsg(g.msg())
				buf := make([]byte, mm.Len())
				n, err := mm.Pack(buf, true, 0)
				dnsmsg.ReleaseMsg(mm)
				if err != nil || n > 1400 {
					continue
				}
				b = buf[:n]
				cat = "valid"
			default:
				g := newMsgGen(r)
				mm := parseMsg(g.msg())
				buf := make([]byte, mm.Len())
				n, err := mm.Pack(buf, true, 0)
				dnsmsg.ReleaseMsg(mm)
				if err != nil || n > 1400 || n == 0 {
					continue
				}
				b = buf[:n]
				switch r.Intn(3) {
				case 0:
					b = b[:r.Intn(len(b))]
				case 1:
					b[r.Intn(len(b))] = byte(r.Intn(256))
				default:
					if len(b) > 13 {
						p := 12 + r.Intn(len(b)-13)
						b[p], b[p+1] = 0xC0|byte(r.Intn(64)), byte(r.Intn(256))
					}
				}
			}
			via := "-"
			if kind == "http" || kind == "https" || kind == "fasthttp" {
				via = []string{"get", "post"}[r.Intn(2)]
			}
			emit(fmt.Sprintf("kind=%s via=%s bytes=%s", kind, via, hexs(b)), kind+"-"+cat)
		}
	}
}

// ---- serve

func runServe(cs string) string {
	m := kv(cs)
	kind := m["kind"]
	n, conc := atoi(m["n"]), atoi(m["conc"])
	r := rand.New(rand.NewSource(int64(atoi(m["seed"]))))
	type job struct {
		id    uint16
		name  []byte
		typ   uint16
		first string
	}
	jobs := make([]job, n)
	firsts := []string{"ok"}
	if m["mix"] == "mixed" {
		firsts = []string{"ok", "ok", "ok", "slow", "nx", "fail", "evil"}
	}
	for i := range jobs {
		f := firsts[r.Intn(len(firsts))]
		// a few repeated names (same question from several clients) and many distinct ones
		k := i
		if r.Intn(4) == 0 {
			k = r.Intn(i + 1)
		}
		jobs[i] = job{id: uint16(r.Intn(65536)), name: wireLabels([]byte(fmt.Sprintf("%s%d", f, k)), []byte("serve"), []byte(kind)), typ: []uint16{1, 28, 15}[r.Intn(3)], first: f}
	}
	var answered, once, idok, own, rcodeok int
	var mu sync.Mutex
	sem := make(chan struct{}, conc)
	var wg sync.WaitGroup
	for _, j := range jobs {
		j := j
		wg.Add(1)
		sem <- struct{}{}
		go func() {
			defer func() { <-sem; wg.Done() }()
			res := lfix.exchange(kind, buildQuery(j.id, j.name, j.typ, false, 0), "post", 8*time.Second)
			if res.status != "resp" {
				return
			}
			mu.Lock()
			defer mu.Unlock()
			answered++
			once++ // one unit per exchange by construction of the clients (stream/HTTP); UDP duplicates are looked for below
			rm, err := dnsmsg.UnpackMsg(res.resp)
			if err != nil {
				return
			}
			defer dnsmsg.ReleaseMsg(rm)
			if rm.Header.ID == j.id && rm.Header.Response && rm.Header.RecursionAvailable && rm.Header.RecursionDesired {
				idok++
			}
			wantRcode := dnsmsg.RCodeSuccess
			switch j.first {
			case "nx":
				wantRcode = dnsmsg.RCodeNameError
			case "fail", "evil":
				wantRcode = dnsmsg.RCodeServerFailure
			}
			if rm.Header.RCode == wantRcode {
				rcodeok++
			}
			// the answer must be the one the upstream produced for THIS question
			good := true
			if len(rm.Questions) > 1 {
				good = false
			}
			if wantRcode == dnsmsg.RCodeSuccess {
				if len(rm.Answers) != 1 {
					good = false
				} else if a, isA := rm.Answers[0].(*dnsmsg.A); !isA || a.A != answerFor(j.name, j.typ, 1) {
					good = false
				}
			} else if len(rm.Answers) != 0 {
				good = false
			}
			if good {
				own++
			}
		}()
	}
	wg.Wait()
	return fmt.Sprintf("sent=%d answered=%d once=%d idok=%d own=%d rcodeok=%d", n, answered, once, idok, own, rcodeok)
}

func genServe(r *rand.Rand, thorough bool, emit func(c, cat string)) {
	rounds := 1
	n := 40
	if thorough {
		rounds, n = 6, 400
	}
	for i := 0; i < rounds; i++ {
		for _, kind := range listenerKinds {
			mix := []string{"ok", "mixed"}[r.Intn(2)]
			if i == 0 {
				mix = "mixed"
			}
			emit(fmt.Sprintf("kind=%s n=%d conc=%d mix=%s seed=%d", kind, n, []int{1, 8, 32}[r.Intn(3)], mix, r.Intn(1<<30)), kind+"-"+mix)
		}
	}
}

func init() {
	register("malformed", &component{gen: genMalformed, run: runMalformed, setup: listenersSetup, teardown: listenersTeardown})
	register("serve", &component{gen: genServe, run: runServe, setup: listenersSetup, teardown: listenersTeardown})
}
