package main

// C08: the real cacheCtl.Store / cacheCtl.Get (through router.VerifRun + the CacheStore/CacheGet/Handle
// hooks), dnsutils.SubtractTTL and dnsutils.GetMinimalTTL.
//
// component ttlpolicy, cases:
//
//	op=store max=<int> nb=<0|1> rc=<n> tc=<0|1> an=<rrs> ns=<rrs> ar=<rrs>
//	      -> miss | life=<whole seconds of expire-stored>[+<ns>] ttls=<an>/<ns>/<ar>     (Store, then Get at once)
//	op=subttl d=<u32> an= ns= ar=            -> <an>/<ns>/<ar>
//	op=minttl an= ns= ar=                    -> min=<n> ok=<0|1>
//	op=hist max=<int> ev=<ev>;<ev>;...       -> one observation per g/q event joined by ';' (or "skip": timing not met)
//	   ev: <t_ms>/s/<key>/<rc>/<tc>/<an>/<ns>/<ar>   CacheStore of that response (its index in ev, from 1, is its identity)
//	       <t_ms>/n/<key>                            CacheStore(nil)
//	       <t_ms>/g/<key>                            CacheGet           obs: m | h:<from>:<life>:<an>/<ns>/<ar>
//	       <t_ms>/q/<key>/err                        client query through Handle, the upstream fails
//	       <t_ms>/q/<key>/<rc>/<tc>/<an>/<ns>/<ar>   client query through Handle, the upstream answers this
//	                                                 obs: c:<from>:<rc>:<tc>:<rrs> (served from cache) | u:<from>:<rc>:<tc>:<rrs>
//	rrs: "-" or "<type>:<ttl>,..."; type 41 is OPT.
//
// Identity of a stored message: the case pattern of the 8 letters "abcdefgh" in the question name of the
// *message* (the cache key is the lower-cased name), so it survives both CacheGet and Handle.

import (
	"context"
	"errors"
	"fmt"
	"math/rand"
	"net"
	"net/netip"
	"os"
	"runtime"
	"runtime/debug"
	"sort"
	"strconv"
	"strings"
	"sync"
	"sync/atomic"
	"time"

	"github.com/IrineSistiana/mosproxy/app/router"
	"github.com/IrineSistiana/mosproxy/internal/dnsmsg"
	"github.com/IrineSistiana/mosproxy/internal/dnsutils"
	"github.com/IrineSistiana/mosproxy/internal/mlog"
	"github.com/miekg/dns"
	"github.com/rs/zerolog"
)

var (
	c08mu      sync.Mutex
	c08routers = map[string]*router.VerifRouter{}
	c08nonce   atomic.Int64
	c08remote  = netip.MustParseAddrPort("127.0.0.1:5353")
	c08local   = netip.MustParseAddrPort("127.0.0.1:53")
	// an instant at which otter's one-second clock ticked (boundaries are c08tick + k s)
	c08tick     time.Time
	c08tickOnce sync.Once
)

type c08rr struct {
	typ uint16
	ttl uint32
}

func c08parseRRs(s string) []c08rr {
	if s == "-" || s == "" {
		return nil
	}
	var out []c08rr
	for _, t := range strings.Split(s, ",") {
		p := strings.Split(t, ":")
		ty, _ := strconv.ParseUint(p[0], 10, 16)
		tt, _ := strconv.ParseUint(p[1], 10, 32)
		out = append(out, c08rr{uint16(ty), uint32(tt)})
	}
	return out
}

func c08fmtRRs(rs []dnsmsg.Resource) string {
	if len(rs) == 0 {
		return "-"
	}
	var sb strings.Builder
	for i, r := range rs {
		if i > 0 {
			sb.WriteByte(',')
		}
		h := r.Hdr()
		fmt.Fprintf(&sb, "%d:%d", uint16(h.Type), h.TTL)
	}
	return sb.String()
}

func c08fmtMsgRRs(m *dnsmsg.Msg) string {
	return c08fmtRRs(m.Answers) + "/" + c08fmtRRs(m.Authorities) + "/" + c08fmtRRs(m.Additionals)
}

// c08name: "k<nonce>-abcdefgh.test." with the letters upper-cased according to the bits of id.
func c08name(nonce int64, id int) string {
	l := []byte("abcdefgh")
	for i := range l {
		if id&(1<<i) != 0 {
			l[i] -= 'a' - 'A'
		}
	}
	return fmt.Sprintf("k%d-%s.test.", nonce, l)
}

func c08idOfName(n []byte) int {
	// wire-ish or readable: find the 8 letters after the first '-'
	i := strings.IndexByte(string(n), '-')
	if i < 0 || i+9 > len(n) {
		return -1
	}
	id := 0
	for j := 0; j < 8; j++ {
		c := n[i+1+j]
		if c >= 'A' && c <= 'Z' {
			id |= 1 << j
		}
	}
	return id
}

func c08mkRR(name string, rr c08rr, n int) dns.RR {
	h := dns.RR_Header{Name: name, Rrtype: rr.typ, Class: dns.ClassINET, Ttl: rr.ttl}
	switch rr.typ {
	case dns.TypeA:
		return &dns.A{Hdr: h, A: net.IPv4(10, 0, byte(n>>8), byte(n))}
	case dns.TypeAAAA:
		return &dns.AAAA{Hdr: h, AAAA: net.ParseIP(fmt.Sprintf("2001:db8::%x", n+1))}
	case dns.TypeSOA:
		return &dns.SOA{Hdr: h, Ns: "ns.test.", Mbox: "h.test.", Serial: uint32(n), Refresh: 1, Retry: 2, Expire: 3, Minttl: 4}
	case dns.TypeCNAME:
		return &dns.CNAME{Hdr: h, Target: "t.test."}
	// every record struct of the proxy has its own header accessor: each kind must age
	case dns.TypeNS:
		return &dns.NS{Hdr: h, Ns: "ns.test."}
	case dns.TypePTR:
		return &dns.PTR{Hdr: h, Ptr: "p.test."}
	case dns.TypeMX:
		return &dns.MX{Hdr: h, Preference: uint16(n), Mx: "mx.test."}
	case dns.TypeSRV:
		return &dns.SRV{Hdr: h, Priority: 1, Weight: 2, Port: uint16(n), Target: "srv.test."}
	case dns.TypeOPT:
		o := &dns.OPT{Hdr: dns.RR_Header{Name: ".", Rrtype: dns.TypeOPT, Class: 1232, Ttl: rr.ttl}}
		return o
	default:
		return &dns.RFC3597{Hdr: h, Rdata: "c0ffee"}
	}
}

// c08mkMsg builds the response through miekg/dns and the real unpacker.
func c08mkMsg(qname string, id uint16, rc int, tc bool, an, ns, ar []c08rr) *dnsmsg.Msg {
	m := new(dns.Msg)
	m.Id = id
	m.Response = true
	m.RecursionDesired = true
	m.RecursionAvailable = true
	m.Rcode = rc
	m.Truncated = tc
	m.Question = []dns.Question{{Name: qname, Qtype: dns.TypeA, Qclass: dns.ClassINET}}
	n := 0
	for _, r := range an {
		n++
		m.Answer = append(m.Answer, c08mkRR(strings.ToLower(qname), r, n))
	}
	for _, r := range ns {
		n++
		m.Ns = append(m.Ns, c08mkRR("test.", r, n))
	}
	for _, r := range ar {
		n++
		m.Extra = append(m.Extra, c08mkRR("ns.test.", r, n))
	}
	b, err := m.Pack()
	if err != nil {
		panic("harness: miekg pack: " + err.Error())
	}
	dm, err := dnsmsg.UnpackMsg(b)
	if err != nil {
		panic("harness: dnsmsg unpack: " + err.Error())
	}
	// miekg rewrites the "TTL" of an OPT record in the additional section; put the exact values back
	if len(dm.Answers) != len(an) || len(dm.Authorities) != len(ns) || len(dm.Additionals) != len(ar) {
		panic("harness: section sizes changed")
	}
	for i, r := range an {
		dm.Answers[i].Hdr().TTL = r.ttl
	}
	for i, r := range ns {
		dm.Authorities[i].Hdr().TTL = r.ttl
	}
	for i, r := range ar {
		dm.Additionals[i].Hdr().TTL = r.ttl
	}
	return dm
}

func c08question(nonce int64) *dnsmsg.Question {
	m := new(dns.Msg)
	m.SetQuestion(c08name(nonce, 0), dns.TypeA)
	b, _ := m.Pack()
	dm, err := dnsmsg.UnpackMsg(b)
	if err != nil {
		panic("harness: question unpack")
	}
	q := dm.Questions[0].Copy()
	dnsmsg.ReleaseMsg(dm)
	return q
}

func c08query(nonce int64, id uint16) *dnsmsg.Msg {
	m := new(dns.Msg)
	m.SetQuestion(c08name(nonce, 0), dns.TypeA)
	m.Id = id
	b, _ := m.Pack()
	dm, err := dnsmsg.UnpackMsg(b)
	if err != nil {
		panic("harness: query unpack")
	}
	return dm
}

// scripted upstream: answer per lower-cased question name.
type c08up struct {
	mu     sync.Mutex
	script map[string]func(q *dns.Msg) (*dnsmsg.Msg, error)
	calls  map[string]int
}

func (u *c08up) ExchangeContext(ctx context.Context, m []byte) (*dnsmsg.Msg, error) {
	q := new(dns.Msg)
	if err := q.Unpack(m); err != nil || len(q.Question) != 1 {
		return nil, errors.New("bad query")
	}
	k := strings.ToLower(q.Question[0].Name)
	u.mu.Lock()
	f := u.script[k]
	u.calls[k]++
	u.mu.Unlock()
	if f == nil {
		return nil, errors.New("no script")
	}
	return f(q)
}
func (u *c08up) Close() error { return nil }

func c08newUp() *c08up {
	return &c08up{script: map[string]func(q *dns.Msg) (*dnsmsg.Msg, error){}, calls: map[string]int{}}
}

var c08ups = map[*router.VerifRouter]*c08up{}

// c08markerFile: an ip marker that puts every client address the C08/C19 harness uses into ONE group with a
// non-empty label ("lan"): what is stored for a client (by the request path or by a background refresh) must be
// stored under the client's group, not under the unmarked one.
func c08markerFile() string {
	f, err := os.CreateTemp("", "mvh-c08-marker-*.txt")
	if err != nil {
		panic("harness: marker file: " + err.Error())
	}
	defer f.Close()
	f.WriteString("10.1.0.0,10.1.255.255,lan\n127.0.0.1,127.0.0.1,lan\n")
	return f.Name()
}

func c08newRouter(max int, mem int) *router.VerifRouter {
	cfg := &router.Config{
		Upstreams: []router.UpstreamConfig{{Tag: "u", Addr: "udp://127.0.0.1:9"}},
		Rules:     []router.RuleConfig{{Forward: "u"}},
		Cache:     router.CacheConfig{MemSize: mem, MaximumTTL: max, IpMarker: c08markerFile()},
		ECS:       router.ECSConfig{Enabled: true},
	}
	r, err := router.VerifRun(cfg)
	os.Remove(cfg.Cache.IpMarker) // read at start-up only
	if err != nil {
		panic("harness: VerifRun: " + err.Error())
	}
	up := c08newUp()
	if !r.SetUpstream("u", up) {
		panic("harness: SetUpstream")
	}
	c08mu.Lock()
	c08ups[r] = up
	c08mu.Unlock()
	return r
}

func c08router(max int, nb bool) *router.VerifRouter {
	key := fmt.Sprintf("%d/%v", max, nb)
	c08mu.Lock()
	r := c08routers[key]
	c08mu.Unlock()
	if r != nil {
		return r
	}
	mem := 1 << 26
	if nb {
		mem = 0
	}
	r = c08newRouter(max, mem)
	c08mu.Lock()
	c08routers[key] = r
	c08mu.Unlock()
	return r
}

func c08setup() {
	mlog.SetLvl(zerolog.ErrorLevel)
	c08router(0, false) // keeps otter's clock running for the whole process
}

// c08tickOnceMeasure finds an instant at which otter's clock ticks: a 1 s entry (SERVFAIL) disappears exactly then.
func c08tickOnceMeasure(r *router.VerifRouter) (time.Time, bool) {
	for attempt := 0; attempt < 5; attempt++ {
		nonce := c08nonce.Add(1)
		q := c08question(nonce)
		m := c08mkMsg(c08name(nonce, 0), 1, dns.RcodeServerFailure, false, nil, nil, nil)
		r.CacheStore(q, c08remote.Addr(), m)
		t0 := time.Now()
		seen := false
		last := t0
		for time.Since(t0) < 1500*time.Millisecond {
			g, _, _ := r.CacheGet(q, c08remote)
			now := time.Now()
			if g == nil {
				if seen && now.Sub(last) < 2*time.Millisecond {
					return now, true
				}
				break // never seen (a tick fell between store and get) or we were descheduled: try again
			}
			seen = true
			last = now
			dnsmsg.ReleaseMsg(g)
			time.Sleep(200 * time.Microsecond)
		}
	}
	return time.Time{}, false
}

// c08calibrate: two independent measurements of the tick phase must agree within 3 ms. When that cannot be had
// (overloaded machine, or a tree under test that does not cache at all) the real-time cases report "skip".
var c08calibrated bool

func c08calibrate() bool {
	c08tickOnce.Do(func() {
		r := c08router(0, false)
		for attempt := 0; attempt < 8; attempt++ {
			t1, ok1 := c08tickOnceMeasure(r)
			t2, ok2 := c08tickOnceMeasure(r)
			if !ok1 || !ok2 {
				continue
			}
			d := t2.Sub(t1) % time.Second
			if d > time.Second/2 {
				d = time.Second - d
			}
			if d < 3*time.Millisecond {
				c08tick = t2
				c08calibrated = true
				return
			}
		}
	})
	return c08calibrated
}

// c08sinceTick: time since the last tick boundary.
func c08sinceTick(t time.Time) time.Duration {
	d := t.Sub(c08tick) % time.Second
	if d < 0 {
		d += time.Second
	}
	return d
}

// c08awayFromTick sleeps until we are at least lo after and at least hi before a boundary.
func c08awayFromTick(lo, hi time.Duration) {
	if !c08calibrated {
		return
	}
	d := c08sinceTick(time.Now())
	if d < lo {
		time.Sleep(lo - d)
	} else if d > time.Second-hi {
		time.Sleep(time.Second - d + lo)
	}
}

func c08lifeStr(stored, expire time.Time) string {
	d := expire.Sub(stored)
	s := fmt.Sprintf("%d", int64(d/time.Second))
	if r := d % time.Second; r != 0 {
		s += fmt.Sprintf("+%d", int64(r))
	}
	return s
}

func c08store(m map[string]string) string {
	c08calibrate()
	r := c08router(atoi(m["max"]), m["nb"] == "1")
	res := "miss"
	for attempt := 0; attempt < 2 && res == "miss"; attempt++ {
		c08awayFromTick(2*time.Millisecond, 8*time.Millisecond)
		nonce := c08nonce.Add(1)
		q := c08question(nonce)
		resp := c08mkMsg(c08name(nonce, 0), 7, atoi(m["rc"]), m["tc"] == "1",
			c08parseRRs(m["an"]), c08parseRRs(m["ns"]), c08parseRRs(m["ar"]))
		r.CacheStore(q, c08remote.Addr(), resp)
		dnsmsg.ReleaseMsg(resp)
		g, stored, expire := r.CacheGet(q, c08remote)
		if g != nil {
			res = "life=" + c08lifeStr(stored, expire) + " ttls=" + c08fmtMsgRRs(g)
			dnsmsg.ReleaseMsg(g)
		}
		dnsmsg.ReleaseQuestion(q)
	}
	return res
}

func c08subttl(m map[string]string) string {
	d, _ := strconv.ParseUint(m["d"], 10, 32)
	msg := c08mkMsg(c08name(0, 0), 7, 0, false, c08parseRRs(m["an"]), c08parseRRs(m["ns"]), c08parseRRs(m["ar"]))
	defer dnsmsg.ReleaseMsg(msg)
	dnsutils.SubtractTTL(msg, uint32(d))
	return c08fmtMsgRRs(msg)
}

func c08minttl(m map[string]string) string {
	msg := c08mkMsg(c08name(0, 0), 7, 0, false, c08parseRRs(m["an"]), c08parseRRs(m["ns"]), c08parseRRs(m["ar"]))
	defer dnsmsg.ReleaseMsg(msg)
	u, ok := dnsutils.GetMinimalTTL(msg)
	return fmt.Sprintf("min=%d ok=%s", u, b2s(ok))
}

type c08ev struct {
	t    int // ms
	kind string
	key  int
	err  bool
	rc   int
	tc   bool
	an   []c08rr
	ns   []c08rr
	ar   []c08rr
}

func c08parseEvs(s string) []c08ev {
	var evs []c08ev
	for _, e := range strings.Split(s, ";") {
		p := strings.Split(e, "/")
		ev := c08ev{t: atoi(p[0]), kind: p[1], key: atoi(p[2])}
		if len(p) == 4 && p[3] == "err" {
			ev.err = true
		} else if len(p) >= 8 {
			ev.rc, ev.tc = atoi(p[3]), p[4] == "1"
			ev.an, ev.ns, ev.ar = c08parseRRs(p[5]), c08parseRRs(p[6]), c08parseRRs(p[7])
		}
		evs = append(evs, ev)
	}
	return evs
}

// one attempt at a history; ok=false when an event started more than tol late.
func c08histOnce(r *router.VerifRouter, evs []c08ev, timed bool) (string, bool) {
	var start time.Time
	if timed {
		// history time 0 = 500 ms after a tick boundary
		d := c08sinceTick(time.Now())
		w := 500*time.Millisecond - d
		if w < 0 {
			w += time.Second
		}
		start = time.Now().Add(w)
		return c08runEvents(r, evs, start)
	}
	c08awayFromTick(2*time.Millisecond, 60*time.Millisecond)
	start = time.Now()
	res, ok := c08runEvents(r, evs, time.Time{})
	// the whole untimed history must lie inside one clock second
	if ok && time.Since(start) > 50*time.Millisecond {
		return "", false
	}
	return res, ok
}

// c08runEvents runs the events at start+t (at once when start is the zero time).
func c08runEvents(r *router.VerifRouter, evs []c08ev, start time.Time) (string, bool) {
	timed := !start.IsZero()
	c08mu.Lock()
	up := c08ups[r]
	c08mu.Unlock()
	nonces := map[int]int64{}
	nonceOf := func(k int) int64 {
		if n, ok := nonces[k]; ok {
			return n
		}
		n := c08nonce.Add(1)
		nonces[k] = n
		return n
	}
	var obs []string
	const tol = 120 * time.Millisecond
	for i, ev := range evs {
		if timed {
			at := start.Add(time.Duration(ev.t) * time.Millisecond)
			if d := time.Until(at); d > 0 {
				time.Sleep(d)
			}
			if time.Since(at) > tol {
				return "", false
			}
		}
		nonce := nonceOf(ev.key)
		id := i + 1
		switch ev.kind {
		case "s":
			q := c08question(nonce)
			resp := c08mkMsg(c08name(nonce, id), uint16(id), ev.rc, ev.tc, ev.an, ev.ns, ev.ar)
			r.CacheStore(q, c08remote.Addr(), resp)
			dnsmsg.ReleaseMsg(resp)
			dnsmsg.ReleaseQuestion(q)
		case "n":
			q := c08question(nonce)
			r.CacheStore(q, c08remote.Addr(), nil)
			dnsmsg.ReleaseQuestion(q)
		case "g":
			q := c08question(nonce)
			g, stored, expire := r.CacheGet(q, c08remote)
			if g == nil {
				obs = append(obs, "m")
			} else {
				from := -1
				if len(g.Questions) == 1 {
					from = c08idOfName(g.Questions[0].Name)
				}
				obs = append(obs, fmt.Sprintf("h:%d:%s:%s", from, c08lifeStr(stored, expire), c08fmtMsgRRs(g)))
				dnsmsg.ReleaseMsg(g)
			}
			dnsmsg.ReleaseQuestion(q)
		case "q":
			ev := ev
			name := c08name(nonce, id)
			up.mu.Lock()
			up.script[c08name(nonce, 0)] = func(q *dns.Msg) (*dnsmsg.Msg, error) {
				if ev.err {
					return nil, errors.New("scripted failure")
				}
				return c08mkMsg(name, q.Id, ev.rc, ev.tc, ev.an, ev.ns, ev.ar), nil
			}
			up.mu.Unlock()
			qm := c08query(nonce, uint16(1000+id))
			resp, _, cached, _ := r.Handle(qm, c08remote, c08local)
			dnsmsg.ReleaseMsg(qm)
			if resp == nil {
				obs = append(obs, "nil")
				break
			}
			from := -1
			if len(resp.Questions) == 1 {
				from = c08idOfName(resp.Questions[0].Name)
			}
			c := "u"
			if cached {
				c = "c"
			}
			if resp.Header.ID != uint16(1000+id) {
				c += "!id"
			}
			obs = append(obs, fmt.Sprintf("%s:%d:%d:%s:%s", c, from, uint16(resp.Header.RCode), b2s(resp.Header.Truncated), c08fmtMsgRRs(resp)))
			dnsmsg.ReleaseMsg(resp)
		}
	}
	if len(obs) == 0 {
		return "-", true
	}
	return strings.Join(obs, ";"), true
}

func c08hist(m map[string]string) string {
	cal := c08calibrate()
	evs := c08parseEvs(m["ev"])
	timed := false
	for _, e := range evs {
		if e.t != 0 {
			timed = true
		}
	}
	if timed && !cal {
		return "skip"
	}
	if m["procs"] == "1" {
		// one P makes sync.Pool LIFO and the order of otter's background work repeatable (audit hunt-D finding 2:
		// histories in which a recycled cache entry would be handed out twice); no GC so that the pool is not emptied
		defer runtime.GOMAXPROCS(runtime.GOMAXPROCS(1))
		defer debug.SetGCPercent(debug.SetGCPercent(-1))
	}
	for attempt := 0; attempt < 3; attempt++ {
		var r *router.VerifRouter
		if timed {
			// a private cache: fewer than 64 pending write tasks, so otter never runs its clean-up on it and
			// the presence of an expired node is deterministic (see Model/Ttl.lean)
			r = c08newRouter(atoi(m["max"]), 1<<22)
		} else {
			r = c08router(atoi(m["max"]), false)
		}
		res, ok := c08histOnce(r, evs, timed)
		if timed {
			r.Close()
			c08mu.Lock()
			delete(c08ups, r)
			c08mu.Unlock()
		}
		if ok {
			return res
		}
	}
	return "skip"
}

func c08run(cs string) string {
	m := kv(cs)
	switch m["op"] {
	case "store":
		return c08store(m)
	case "subttl":
		return c08subttl(m)
	case "minttl":
		return c08minttl(m)
	case "hist":
		if res, ok := c08pre[cs]; ok {
			delete(c08pre, cs)
			return res
		}
		return c08hist(m)
	}
	return "bad-op"
}

// ---------------------------------------------------------------- generators

var c08ttlPool = []uint32{0, 0, 1, 1, 2, 3, 4, 5, 6, 29, 30, 31, 59, 60, 299, 300, 3600, 21599, 21600, 21601, 86400,
	1<<31 - 1, 1 << 31, 1<<32 - 2, 1<<32 - 1}

func c08genTTL(r *rand.Rand) uint32 {
	switch r.Intn(10) {
	case 0, 1, 2, 3, 4:
		return c08ttlPool[r.Intn(len(c08ttlPool))]
	case 5, 6, 7:
		return uint32(r.Intn(40))
	case 8:
		return uint32(r.Intn(100000))
	default:
		return r.Uint32()
	}
}

func c08genSec(r *rand.Rand, sec int, allowOpt bool) string {
	n := 0
	switch r.Intn(6) {
	case 0, 1:
		n = 0
	case 2, 3:
		n = 1
	case 4:
		n = 2
	default:
		n = 1 + r.Intn(4)
	}
	var parts []string
	for i := 0; i < n; i++ {
		var ty int
		switch sec {
		case 0:
			ty = []int{1, 1, 1, 28, 5, 16, 99, 15, 33, 12}[r.Intn(10)]
		case 1:
			ty = []int{6, 6, 2 + 14, 99, 2}[r.Intn(5)]
		default:
			ty = []int{1, 28, 16, 41, 41, 33}[r.Intn(6)]
		}
		if allowOpt && r.Intn(12) == 0 {
			ty = 41
		}
		if !allowOpt && ty == 41 {
			ty = 1
		}
		parts = append(parts, fmt.Sprintf("%d:%d", ty, c08genTTL(r)))
	}
	if len(parts) == 0 {
		return "-"
	}
	return strings.Join(parts, ",")
}

// maximum_ttl is limited to ten years (315360000 s) by initCache
var c08maxPool = []int{0, 0, 0, -3, 1, 2, 5, 10, 29, 30, 31, 60, 300, 21600, 86400, 315359999, 315360000, 315360001, 1 << 31, 1<<32 - 1, 5000000000}

func c08genRcode(r *rand.Rand) int {
	switch r.Intn(10) {
	case 0, 1, 2, 3:
		return 0
	case 4, 5:
		return 3
	case 6, 7:
		return 2
	default:
		return r.Intn(16)
	}
}

func c08rcCat(rc int) string {
	switch rc {
	case 0:
		return "success"
	case 2:
		return "servfail"
	case 3:
		return "nxdomain"
	}
	return "other"
}

// --- the generator's own idea of the policy, used only to place timed events away from the instants at which the
// outcome legitimately depends on sub-second timing (never used as an oracle).
func c08genLife(rc int, an, ns, ar []c08rr, max int) int {
	min, has := uint32(1<<32-1), false
	for _, s := range [][]c08rr{an, ns, ar} {
		for _, r := range s {
			if r.typ == 41 {
				continue
			}
			has = true
			if r.ttl < min {
				min = r.ttl
			}
		}
	}
	var l int64
	def := int64(5)
	switch rc {
	case 3:
		def = 30
	case 2:
		def = 1
	case 0:
		def = 30
	}
	l = def
	if has {
		if rc == 0 || int64(min) < def {
			l = int64(min)
		}
	}
	if l <= 0 {
		l = 1
	}
	c := int64(max)
	if c <= 0 {
		c = 21600
	}
	if l > c {
		l = c
	}
	return int(l)
}

type c08planned struct {
	t    int
	kind string
	key  int
	body string
	life int // for store-ish events
}

func c08genHist(r *rand.Rand, timed bool, durMs int, nEv int) string {
	max := []int{0, 0, 2, 3, 30}[r.Intn(5)]
	nKeys := 1 + r.Intn(3)
	var evs []c08planned
	okTime := func(t int, kind string, key int, life int) bool {
		res := t % 1000
		if res > 300 && res < 700 {
			return false
		}
		for _, e := range evs {
			d := t - e.t
			if d < 0 {
				d = -d
			}
			if d < 50 {
				return false
			}
			if e.key != key {
				continue
			}
			storeish := func(k string) bool { return k == "s" || k == "q" }
			getish := func(k string) bool { return k == "g" || k == "q" }
			if (storeish(e.kind) && getish(kind) && e.t < t) || (storeish(kind) && getish(e.kind) && t < e.t) {
				dm := d % 1000
				if dm < 150 || dm > 850 {
					return false
				}
			}
			// a client query must not fall into the prefetch window (last quarter, C19) of any entry of its key
			chk := func(st c08planned, qt int) bool {
				lo := st.t + st.life*750 - 300
				hi := st.t + st.life*1000 + 300
				return qt >= lo && qt < hi
			}
			if kind == "q" && storeish(e.kind) && e.t < t && chk(e, t) {
				return false
			}
			if e.kind == "q" && storeish(kind) && t < e.t && chk(c08planned{t: t, life: life}, e.t) {
				return false
			}
		}
		return true
	}
	for len(evs) < nEv {
		kind := []string{"s", "s", "g", "g", "g", "q", "q", "n"}[r.Intn(8)]
		if timed && r.Intn(3) == 0 {
			kind = "g" // real-time histories are about ageing and expiry: look more often
		}
		key := 1 + r.Intn(nKeys)
		body := ""
		life := 0
		if kind == "s" || kind == "q" {
			var rc int
			var an, ns, ar string
			tc := 0
			ttl := func() uint32 {
				if timed {
					return uint32(r.Intn(5))
				}
				return c08genTTL(r)
			}
			switch r.Intn(8) {
			case 0, 1, 2, 3: // positive
				rc, an, ns, ar = 0, fmt.Sprintf("1:%d", ttl()), "-", "-"
				if r.Intn(3) == 0 {
					an += fmt.Sprintf(",1:%d", ttl())
				}
				switch r.Intn(8) {
				case 0, 1:
					ar = "41:0" // OPT last
				case 2:
					if kind == "q" { // forward() removes every OPT, wherever it is
						ar = fmt.Sprintf("41:0,1:%d", 5+ttl())
						ns = "41:7"
					}
				}
			case 4:
				rc, an, ns, ar = 3, "-", "-", "-"
				if r.Intn(2) == 0 {
					ns = fmt.Sprintf("6:%d", ttl())
				}
			case 5:
				rc, an, ns, ar = 2, "-", "-", "-"
			case 6:
				rc, an, ns, ar = []int{0, 5, 4}[r.Intn(3)], "-", "-", "-"
			default:
				rc, an, ns, ar = c08genRcode(r), fmt.Sprintf("1:%d", ttl()), "-", "-"
			}
			if r.Intn(8) == 0 {
				tc = 1
			}
			if kind == "q" && r.Intn(5) == 0 {
				body = "err"
			} else {
				body = fmt.Sprintf("%d/%d/%s/%s/%s", rc, tc, an, ns, ar)
				if tc == 0 {
					life = c08genLife(rc, c08parseRRs(an), c08parseRRs(ns), c08parseRRs(ar), max)
				}
			}
		}
		t := 0
		if timed {
			placed := false
			for try := 0; try < 40 && !placed; try++ {
				t = 50 * r.Intn(durMs/50+1)
				placed = okTime(t, kind, key, life)
			}
			if !placed {
				continue
			}
		} else if kind == "q" && life == 0 {
			// fine
		}
		evs = append(evs, c08planned{t: t, kind: kind, key: key, body: body, life: life})
	}
	if timed {
		sort.SliceStable(evs, func(i, j int) bool { return evs[i].t < evs[j].t })
	} else {
		// untimed: a client query would hit an entry at age 0, never in its last quarter: nothing to avoid
	}
	var parts []string
	for _, e := range evs {
		s := fmt.Sprintf("%d/%s/%d", e.t, e.kind, e.key)
		if e.body != "" {
			s += "/" + e.body
		}
		parts = append(parts, s)
	}
	return fmt.Sprintf("op=hist max=%d ev=%s", max, strings.Join(parts, ";"))
}

// real-time histories that are always run (hand-written witnesses)
var c08fixedTimed = []string{
	"op=hist max=0 ev=0/s/1/0/0/1:2/-/-;300/g/1;700/s/1/3/0/-/-/-;850/g/1;1300/g/1;2700/g/1;3850/g/1",
	"op=hist max=0 ev=0/s/1/0/0/1:1/-/-;1700/s/1/3/0/-/-/-;1850/g/1;2700/s/1/0/0/1:3/-/-;2850/g/1",
}

// audit hunt-D finding 2 (GOMAXPROCS=1): if cache entries were recycled, the entry of key 1 (ttl 1) would be handed
// out twice after the 64th cache write, keys 3 and 2 would share it and key 3 would be lost (and, before a refused
// set-if-absent released its entry, the SERVFAIL fetched for key 3 at 2.9 s would stay in key 3's 3600 s node)
const c08sharedEntryHist = "op=hist max=0 procs=1 ev=0/q/1/0/0/1:1/-/-;1200/q/1/0/0/1:3600/-/-;1250/q/100/0/0/1:3600/-/-;1250/q/101/0/0/1:3600/-/-;1250/q/102/0/0/1:3600/-/-;1250/q/103/0/0/1:3600/-/-;1250/q/104/0/0/1:3600/-/-;1250/q/105/0/0/1:3600/-/-;1250/q/106/0/0/1:3600/-/-;1250/q/107/0/0/1:3600/-/-;1250/q/108/0/0/1:3600/-/-;1250/q/109/0/0/1:3600/-/-;1250/q/110/0/0/1:3600/-/-;1250/q/111/0/0/1:3600/-/-;1250/q/112/0/0/1:3600/-/-;1250/q/113/0/0/1:3600/-/-;1250/q/114/0/0/1:3600/-/-;1250/q/115/0/0/1:3600/-/-;1250/q/116/0/0/1:3600/-/-;1250/q/117/0/0/1:3600/-/-;1250/q/118/0/0/1:3600/-/-;1250/q/119/0/0/1:3600/-/-;1250/q/120/0/0/1:3600/-/-;1250/q/121/0/0/1:3600/-/-;1250/q/122/0/0/1:3600/-/-;1250/q/123/0/0/1:3600/-/-;1250/q/124/0/0/1:3600/-/-;1250/q/125/0/0/1:3600/-/-;1250/q/126/0/0/1:3600/-/-;1250/q/127/0/0/1:3600/-/-;1250/q/128/0/0/1:3600/-/-;1250/q/129/0/0/1:3600/-/-;1250/q/130/0/0/1:3600/-/-;1250/q/131/0/0/1:3600/-/-;1250/q/132/0/0/1:3600/-/-;1250/q/133/0/0/1:3600/-/-;1250/q/134/0/0/1:3600/-/-;1250/q/135/0/0/1:3600/-/-;1250/q/136/0/0/1:3600/-/-;1250/q/137/0/0/1:3600/-/-;1250/q/138/0/0/1:3600/-/-;1250/q/139/0/0/1:3600/-/-;1250/q/140/0/0/1:3600/-/-;1250/q/141/0/0/1:3600/-/-;1250/q/142/0/0/1:3600/-/-;1250/q/143/0/0/1:3600/-/-;1250/q/144/0/0/1:3600/-/-;1250/q/145/0/0/1:3600/-/-;1250/q/146/0/0/1:3600/-/-;1250/q/147/0/0/1:3600/-/-;1250/q/148/0/0/1:3600/-/-;1250/q/149/0/0/1:3600/-/-;1250/q/150/0/0/1:3600/-/-;1250/q/151/0/0/1:3600/-/-;1250/q/152/0/0/1:3600/-/-;1250/q/153/0/0/1:3600/-/-;1250/q/154/0/0/1:3600/-/-;1250/q/155/0/0/1:3600/-/-;1250/q/156/0/0/1:3600/-/-;1250/q/157/0/0/1:3600/-/-;1250/q/158/0/0/1:3600/-/-;1250/q/159/0/0/1:3600/-/-;1250/q/160/0/0/1:3600/-/-;1400/q/3/0/0/1:3600/-/-;1400/q/2/0/0/1:1/-/-;2700/q/2/0/0/1:3600/-/-;2750/q/200/0/0/1:3600/-/-;2750/q/201/0/0/1:3600/-/-;2750/q/202/0/0/1:3600/-/-;2750/q/203/0/0/1:3600/-/-;2750/q/204/0/0/1:3600/-/-;2750/q/205/0/0/1:3600/-/-;2750/q/206/0/0/1:3600/-/-;2750/q/207/0/0/1:3600/-/-;2750/q/208/0/0/1:3600/-/-;2750/q/209/0/0/1:3600/-/-;2750/q/210/0/0/1:3600/-/-;2750/q/211/0/0/1:3600/-/-;2750/q/212/0/0/1:3600/-/-;2750/q/213/0/0/1:3600/-/-;2750/q/214/0/0/1:3600/-/-;2750/q/215/0/0/1:3600/-/-;2750/q/216/0/0/1:3600/-/-;2750/q/217/0/0/1:3600/-/-;2750/q/218/0/0/1:3600/-/-;2750/q/219/0/0/1:3600/-/-;2750/q/220/0/0/1:3600/-/-;2750/q/221/0/0/1:3600/-/-;2750/q/222/0/0/1:3600/-/-;2750/q/223/0/0/1:3600/-/-;2750/q/224/0/0/1:3600/-/-;2750/q/225/0/0/1:3600/-/-;2750/q/226/0/0/1:3600/-/-;2750/q/227/0/0/1:3600/-/-;2750/q/228/0/0/1:3600/-/-;2750/q/229/0/0/1:3600/-/-;2750/q/230/0/0/1:3600/-/-;2750/q/231/0/0/1:3600/-/-;2750/q/232/0/0/1:3600/-/-;2750/q/233/0/0/1:3600/-/-;2750/q/234/0/0/1:3600/-/-;2750/q/235/0/0/1:3600/-/-;2750/q/236/0/0/1:3600/-/-;2750/q/237/0/0/1:3600/-/-;2750/q/238/0/0/1:3600/-/-;2750/q/239/0/0/1:3600/-/-;2750/q/240/0/0/1:3600/-/-;2750/q/241/0/0/1:3600/-/-;2750/q/242/0/0/1:3600/-/-;2750/q/243/0/0/1:3600/-/-;2750/q/244/0/0/1:3600/-/-;2750/q/245/0/0/1:3600/-/-;2750/q/246/0/0/1:3600/-/-;2750/q/247/0/0/1:3600/-/-;2750/q/248/0/0/1:3600/-/-;2750/q/249/0/0/1:3600/-/-;2750/q/250/0/0/1:3600/-/-;2750/q/251/0/0/1:3600/-/-;2750/q/252/0/0/1:3600/-/-;2750/q/253/0/0/1:3600/-/-;2750/q/254/0/0/1:3600/-/-;2750/q/255/0/0/1:3600/-/-;2750/q/256/0/0/1:3600/-/-;2750/q/257/0/0/1:3600/-/-;2750/q/258/0/0/1:3600/-/-;2750/q/259/0/0/1:3600/-/-;2900/q/3/2/0/-/-/-;2950/g/3"

// results of the real-time histories the generator already ran (concurrently)
var c08pre = map[string]string{}

func c08gen(r *rand.Rand, thorough bool, emit func(c, cat string)) {
	nStore, nSub, nMin, nSeq, nTimed, dur := 6000, 3000, 1500, 1500, 1, 3000
	if thorough {
		nStore, nSub, nMin, nSeq, nTimed, dur = 40000, 20000, 8000, 10000, 6, 6000
	}
	// every rcode class x recordless / records, default cap
	for rc := 0; rc < 16; rc++ {
		for _, an := range []string{"-", "1:0", "1:1", "1:7", "1:4294967295", "1:100,1:40"} {
			emit(fmt.Sprintf("op=store max=0 nb=0 rc=%d tc=0 an=%s ns=- ar=-", rc, an), "store-"+c08rcCat(rc))
		}
		emit(fmt.Sprintf("op=store max=0 nb=0 rc=%d tc=1 an=1:60 ns=- ar=-", rc), "store-tc")
		emit(fmt.Sprintf("op=store max=0 nb=1 rc=%d tc=0 an=1:60 ns=- ar=-", rc), "store-nobackend")
	}
	for i := 0; i < nStore; i++ {
		rc := c08genRcode(r)
		tc := 0
		if r.Intn(10) == 0 {
			tc = 1
		}
		nb := 0
		if r.Intn(50) == 0 {
			nb = 1
		}
		max := c08maxPool[r.Intn(len(c08maxPool))]
		if nb == 1 {
			max = 0
		}
		cat := "store-" + c08rcCat(rc)
		if tc == 1 {
			cat = "store-tc"
		} else if nb == 1 {
			cat = "store-nobackend"
		}
		emit(fmt.Sprintf("op=store max=%d nb=%d rc=%d tc=%d an=%s ns=%s ar=%s", max, nb, rc, tc,
			c08genSec(r, 0, true), c08genSec(r, 1, true), c08genSec(r, 2, true)), cat)
	}
	for i := 0; i < nSub; i++ {
		var d uint32
		switch r.Intn(4) {
		case 0:
			d = c08ttlPool[r.Intn(len(c08ttlPool))]
		case 1:
			d = uint32(r.Intn(40))
		case 2:
			d = r.Uint32()
		default:
			d = uint32(r.Intn(100000))
		}
		an, ns, ar := c08genSec(r, 0, true), c08genSec(r, 1, true), c08genSec(r, 2, true)
		if r.Intn(3) == 0 {
			// a record exactly at / next to delta
			an = fmt.Sprintf("1:%d,1:%d,41:%d", d, uint32(uint64(d)+1), d)
			if d > 0 {
				an += fmt.Sprintf(",1:%d", d-1)
			}
		}
		emit(fmt.Sprintf("op=subttl d=%d an=%s ns=%s ar=%s", d, an, ns, ar), "subttl")
	}
	for i := 0; i < nMin; i++ {
		emit(fmt.Sprintf("op=minttl an=%s ns=%s ar=%s", c08genSec(r, 0, true), c08genSec(r, 1, true), c08genSec(r, 2, true)), "minttl")
	}
	for i := 0; i < nSeq; i++ {
		emit(c08genHist(r, false, 0, 2+r.Intn(7)), "hist-untimed")
	}
	// the real-time histories run concurrently (each on its own router), the one that needs a single P alone
	timed := append([]string{}, c08fixedTimed...)
	for i := 0; i < nTimed; i++ {
		timed = append(timed, c08genHist(r, true, dur, 10+r.Intn(14)))
	}
	res := make([]string, len(timed))
	var wg sync.WaitGroup
	for i := range timed {
		wg.Add(1)
		go func(i int) {
			defer wg.Done()
			res[i] = c08hist(kv(timed[i]))
		}(i)
	}
	wg.Wait()
	for i, cs := range timed {
		c08pre[cs] = res[i]
		emit(cs, "hist-timed")
	}
	emit(c08sharedEntryHist, "hist-timed-1p")
}

func init() {
	register("ttlpolicy", &component{gen: c08gen, run: c08run, setup: c08setup})
}
