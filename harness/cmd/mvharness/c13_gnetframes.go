package main

// C13 (i): the REAL gnetServer.OnOpen/OnTraffic/OnClose of app/router driven through a fake gnet.Conn
// that implements the gnet v2.3.6 semantics of Next/InboundBuffered (all-or-nothing Next, n<=0 = everything)
// which Model/Gnet.lean models.
//
// case : max=<n> ord=<d|n> fr=<len>[x],... ops=<s<n>|r<j>>,...
//        frame i (1-based) is a DNS query with id i and question class i, exactly <len> octets long
//        (x: <len> octets that do not decode); s<n>: the next n octets of the stream arrive and OnTraffic
//        fires; r<j>: the j-th running handler (by id, ascending) gets its upstream answer, its AsyncWrite
//        is awaited and the write callback runs on the "event loop" (this goroutine).
//        ord=d: the fake upstream holds every query until released (deterministic in-flight counter),
//        ord=n: the upstream answers at once, handlers finish on their own.
// out  : w=<id><a|r|x>|bad,... up=<ids that reached the upstream> closed=<0|1>
//        st=<n|h|b>:<len(buffer)>:<readN>:<InboundBuffered>:<concurrentRequests> sh=<hash of the state after every segment>

import (
	"context"
	"encoding/binary"
	"errors"
	"fmt"
	"io"
	"math/rand"
	"net"
	"reflect"
	"runtime"
	"sort"
	"strconv"
	"strings"
	"sync"
	"sync/atomic"
	"time"

	"github.com/IrineSistiana/mosproxy/app/router"
	"github.com/IrineSistiana/mosproxy/internal/dnsmsg"
	"github.com/IrineSistiana/mosproxy/internal/mlog"
	"github.com/IrineSistiana/mosproxy/internal/pool"
	"github.com/panjf2000/gnet/v2"
	"github.com/rs/zerolog"
)

// ---------------------------------------------------------------- frames

// c13ValidLen: lengths for which c13Query can build a well-formed query of exactly that size.
func c13ValidLen(l int) bool { return l == 17 || (l >= 19 && l <= 65535) }

// c13Query builds a DNS query (RD, one question, type A, class = id) of exactly l octets.
func c13Query(id, l int) []byte {
	b := make([]byte, 0, l)
	pad := -1
	nameLen := 1
	if l >= 19 && l <= 271 {
		nameLen = l - 16
	} else if l > 271 {
		pad = l - 32
	}
	ar := 0
	if pad >= 0 {
		ar = 1
	}
	b = append(b, byte(id>>8), byte(id), 0x01, 0x00, 0, 1, 0, 0, 0, 0, 0, byte(ar))
	// name of nameLen octets
	r := nameLen - 1
	for r > 0 {
		lab := r - 1
		if lab > 63 {
			lab = 63
		}
		if r-1-lab == 1 {
			lab--
		}
		b = append(b, byte(lab))
		for i := 0; i < lab; i++ {
			b = append(b, 'a'+byte(i%26))
		}
		r -= 1 + lab
	}
	b = append(b, 0)
	b = append(b, 0, 1, byte(id>>8), byte(id))
	if pad >= 0 {
		b = append(b, 0, 0, 41, 0x04, 0xd0, 0, 0, 0, 0)
		b = append(b, byte((4+pad)>>8), byte(4+pad), 0, 12, byte(pad>>8), byte(pad))
		b = append(b, make([]byte, pad)...)
	}
	if len(b) != l {
		panic(fmt.Sprintf("c13Query: built %d octets for %d", len(b), l))
	}
	return b
}

// c13Garbage: l octets that never decode (counts 0xffff, out-of-range compression pointers).
func c13Garbage(id, l int) []byte {
	b := make([]byte, l)
	for i := range b {
		b[i] = 0xff
	}
	if l > 0 {
		b[0] = byte(id >> 8)
	}
	if l > 1 {
		b[1] = byte(id)
	}
	return b
}

type c13frame struct {
	l     int
	valid bool
}

func c13ParseFrames(s string) []c13frame {
	var fs []c13frame
	if s == "-" || s == "" {
		return fs
	}
	for _, t := range strings.Split(s, ",") {
		v := true
		if strings.HasSuffix(t, "x") {
			v = false
			t = t[:len(t)-1]
		}
		fs = append(fs, c13frame{atoi(t), v})
	}
	return fs
}

func c13Stream(fs []c13frame) []byte {
	var s []byte
	for i, f := range fs {
		var body []byte
		if f.valid {
			body = c13Query(i+1, f.l)
		} else {
			body = c13Garbage(i+1, f.l)
		}
		s = append(s, byte(f.l>>8), byte(f.l))
		s = append(s, body...)
	}
	return s
}

// ---------------------------------------------------------------- fake upstream

type c13Upstream struct {
	mu      sync.Mutex
	cond    *sync.Cond
	hold    bool
	delay   time.Duration
	slow    map[int]time.Duration
	arrived []int            // every id that reached the upstream
	held    map[int]chan int // id -> release channel
}

func newC13Upstream() *c13Upstream {
	u := &c13Upstream{held: map[int]chan int{}}
	u.cond = sync.NewCond(&u.mu)
	return u
}

func (u *c13Upstream) reset(hold bool, delay time.Duration) {
	u.mu.Lock()
	u.hold, u.delay = hold, delay
	u.arrived = nil
	u.held = map[int]chan int{}
	u.mu.Unlock()
}

func (u *c13Upstream) setSlow(id int, d time.Duration) {
	u.mu.Lock()
	if u.slow == nil {
		u.slow = map[int]time.Duration{}
	}
	u.slow[id] = d
	u.mu.Unlock()
}

func (u *c13Upstream) setHold(hold bool) {
	u.mu.Lock()
	u.hold = hold
	u.mu.Unlock()
}

func (u *c13Upstream) ExchangeContext(ctx context.Context, q []byte) (*dnsmsg.Msg, error) {
	m, err := dnsmsg.UnpackMsg(q)
	if err != nil || len(m.Questions) != 1 {
		return nil, errors.New("fake upstream: bad query")
	}
	id := int(m.Questions[0].Class)
	u.mu.Lock()
	u.arrived = append(u.arrived, id)
	var ch chan int
	if u.hold {
		ch = make(chan int, 1)
		u.held[id] = ch
	}
	delay := u.delay
	slow := u.slow[id]
	u.cond.Broadcast()
	u.mu.Unlock()
	if slow > 0 {
		// a slow upstream (timed scripts): the answer takes longer than the listener's idle timeout
		select {
		case <-time.After(slow):
		case <-ctx.Done():
			return nil, ctx.Err()
		}
	}
	if ch != nil {
		select {
		case <-ch:
		case <-ctx.Done():
			return nil, ctx.Err()
		}
	} else if delay > 0 {
		// later ids answer sooner: forces out-of-order completion
		time.Sleep(delay / time.Duration(1+id%7))
	}
	m.Header.Response = true
	m.Header.RecursionAvailable = true
	return m, nil
}

func (u *c13Upstream) Close() error { return nil }

func (u *c13Upstream) heldIDs() []int {
	u.mu.Lock()
	defer u.mu.Unlock()
	ids := make([]int, 0, len(u.held))
	for id := range u.held {
		ids = append(ids, id)
	}
	sort.Ints(ids)
	return ids
}

// waitHeld waits until n queries are being held.
func (u *c13Upstream) waitHeld(n int, d time.Duration) bool {
	deadline := time.Now().Add(d)
	spins := 0
	for {
		u.mu.Lock()
		ok := len(u.held) >= n
		u.mu.Unlock()
		if ok {
			return true
		}
		if time.Now().After(deadline) {
			return false
		}
		c13Pause(&spins)
	}
}

// c13Pause yields to the handler goroutines; after a while it sleeps instead of spinning.
func c13Pause(spins *int) {
	*spins++
	if *spins < 200 {
		runtime.Gosched()
	} else {
		time.Sleep(50 * time.Microsecond)
	}
}

func (u *c13Upstream) release(id int) {
	u.mu.Lock()
	ch := u.held[id]
	delete(u.held, id)
	u.mu.Unlock()
	if ch != nil {
		ch <- 1
	}
}

// forget drops the recorded arrivals with lo < id <= hi (a retried timed case starts from a clean record).
func (u *c13Upstream) forget(lo, hi int) {
	u.mu.Lock()
	defer u.mu.Unlock()
	kept := u.arrived[:0]
	for _, id := range u.arrived {
		if !(id > lo && id <= hi) {
			kept = append(kept, id)
		}
	}
	u.arrived = kept
}

func (u *c13Upstream) arrivedSorted() []int {
	u.mu.Lock()
	defer u.mu.Unlock()
	ids := append([]int(nil), u.arrived...)
	sort.Ints(ids)
	return ids
}

// ---------------------------------------------------------------- fake gnet.Conn

type c13Conn struct {
	gnet.Conn // nil: any method that is not modelled panics when called

	mu     sync.Mutex
	inb    []byte
	handed [][]byte // slices returned by Next during the running OnTraffic
	ctx    interface{}
	writes [][]byte // what went on the wire, in order
	// AsyncWrite does not copy: gnet keeps the caller's slice until the event loop performs the write and
	// then calls the callback. The fake does the same (the octets are read when runCallbacks runs).
	asyncBufs [][]byte
	cbs       []gnet.AsyncCallback
	nAsync    int
	closed    bool
	// multi-connection histories: OnClose has run for this connection (the peer went away); gnet then completes
	// an AsyncWrite with net.ErrClosed and puts nothing on the wire
	gone bool
	late int
}

func (c *c13Conn) Next(n int) ([]byte, error) {
	if n > len(c.inb) {
		return nil, errors.New("short buffer")
	} else if n <= 0 {
		n = len(c.inb)
	}
	b := c.inb[:n:n]
	c.inb = c.inb[n:]
	c.handed = append(c.handed, b)
	return b, nil
}

func (c *c13Conn) InboundBuffered() int { return len(c.inb) }

func (c *c13Conn) Write(p []byte) (int, error) {
	c.mu.Lock()
	c.writes = append(c.writes, append([]byte(nil), p...))
	c.mu.Unlock()
	return len(p), nil
}

func (c *c13Conn) AsyncWrite(p []byte, cb gnet.AsyncCallback) error {
	c.mu.Lock()
	c.asyncBufs = append(c.asyncBufs, p)
	c.cbs = append(c.cbs, cb)
	c.nAsync++
	c.mu.Unlock()
	return nil
}

func (c *c13Conn) Flush() error               { return nil }
func (c *c13Conn) Context() interface{}       { return c.ctx }
func (c *c13Conn) SetContext(ctx interface{}) { c.ctx = ctx }
func (c *c13Conn) RemoteAddr() net.Addr       { return &net.TCPAddr{IP: net.IPv4(127, 0, 0, 1), Port: 40000} }
func (c *c13Conn) LocalAddr() net.Addr        { return &net.TCPAddr{IP: net.IPv4(127, 0, 0, 1), Port: 53} }
func (c *c13Conn) Close() error               { c.mu.Lock(); c.closed = true; c.mu.Unlock(); return nil }
func (c *c13Conn) asyncCount() int            { c.mu.Lock(); defer c.mu.Unlock(); return c.nAsync }
func (c *c13Conn) waitAsync(n int, d time.Duration) bool {
	deadline := time.Now().Add(d)
	spins := 0
	for c.asyncCount() < n {
		if time.Now().After(deadline) {
			return false
		}
		c13Pause(&spins)
	}
	return true
}

// runCallbacks performs the queued asynchronous writes on the calling ("event loop") goroutine and runs
// their callbacks. Before the octets are read, buffers of the same size classes are taken from the pool and
// overwritten: a response buffer that was given back to the pool too early shows up as a damaged frame.
func (c *c13Conn) runCallbacks() {
	c.mu.Lock()
	bufs, cbs := c.asyncBufs, c.cbs
	c.asyncBufs, c.cbs = nil, nil
	c.mu.Unlock()
	if len(bufs) == 0 {
		return
	}
	if c.gone {
		c.late += len(bufs)
		for _, cb := range cbs {
			if cb != nil {
				cb(c, net.ErrClosed)
			}
		}
		return
	}
	var scrub []pool.Buffer
	for _, p := range bufs {
		for i := 0; i < 3 && len(p) > 0; i++ {
			b := pool.GetBuf(len(p))
			for j := range b {
				b[j] = 0xdd
			}
			scrub = append(scrub, b)
		}
	}
	c.mu.Lock()
	for _, p := range bufs {
		c.writes = append(c.writes, append([]byte(nil), p...))
	}
	c.mu.Unlock()
	for _, b := range scrub {
		pool.ReleaseBuf(b)
	}
	for _, cb := range cbs {
		if cb != nil {
			cb(c, nil)
		}
	}
}

// feed appends a segment, fires OnTraffic and afterwards invalidates every slice Next handed out
// (gnet reuses that memory once OnTraffic returns).
func (c *c13Conn) feed(h gnet.EventHandler, seg []byte) gnet.Action {
	c.inb = append(append(make([]byte, 0, len(c.inb)+len(seg)), c.inb...), seg...)
	c.handed = c.handed[:0]
	a := h.OnTraffic(c)
	rest := append([]byte(nil), c.inb...)
	for _, b := range c.handed {
		for i := range b {
			b[i] = 0xee
		}
	}
	c.inb = rest
	return a
}

// state of the real connCtx (unexported), read by reflection
func (c *c13Conn) state() (mode string, bufLen, readN, inb, conc int) {
	v := reflect.ValueOf(c.ctx).Elem()
	buf := v.FieldByName("buffer")
	conc = int(v.FieldByName("concurrentRequests").FieldByName("v").Int())
	inb = len(c.inb)
	if buf.IsNil() {
		return "n", 0, 0, inb, conc
	}
	mode = "b"
	if v.FieldByName("readingHdr").Bool() {
		mode = "h"
	}
	return mode, buf.Len(), int(v.FieldByName("readN").Int()), inb, conc
}

// ---------------------------------------------------------------- component

var c13 struct {
	vr *router.VerifRouter
	up *c13Upstream
}

func c13TryStartRouter(servers []router.ServerConfig) (*router.VerifRouter, *c13Upstream, error) {
	mlog.SetLvl(zerolog.Disabled)
	cfg := &router.Config{
		Servers:   servers,
		Upstreams: []router.UpstreamConfig{{Tag: "up", Addr: "udp://127.0.0.1:9"}},
		Rules:     []router.RuleConfig{{Forward: "up"}},
	}
	vr, err := router.VerifRun(cfg)
	if err != nil {
		return nil, nil, err
	}
	up := newC13Upstream()
	if !vr.SetUpstream("up", up) {
		vr.Close()
		return nil, nil, errors.New("SetUpstream failed")
	}
	return vr, up, nil
}

func c13StartRouter(servers []router.ServerConfig) (*router.VerifRouter, *c13Upstream) {
	vr, up, err := c13TryStartRouter(servers)
	if err != nil {
		panic(err)
	}
	return vr, up
}

func c13GnetSetup() {
	// one P: the handler goroutines and the "event loop" share the per-P caches of the buffer pool, which makes
	// the reuse of a prematurely released response buffer deterministic (see runCallbacks)
	runtime.GOMAXPROCS(1)
	c13.vr, c13.up = c13StartRouter(nil)
}

func c13Mix(h uint64, x int) uint64 { return (h*31 + uint64(x) + 1) % 1000000007 }

// c13Kind classifies one buffer handed to Write/AsyncWrite: it must be exactly one frame.
func c13Kind(b []byte) (id int, kind int) {
	if len(b) < 2 || int(binary.BigEndian.Uint16(b)) != len(b)-2 {
		return 0, 3
	}
	m, err := dnsmsg.UnpackMsg(b[2:])
	if err != nil || !m.Header.Response {
		return 0, 3
	}
	id = int(m.Header.ID)
	switch m.Header.RCode {
	case dnsmsg.RCodeSuccess:
		kind = 0
	case dnsmsg.RCodeRefused:
		kind = 1
	default:
		kind = 2
	}
	// the question must be the one of query id (class = id)
	if len(m.Questions) != 1 || int(m.Questions[0].Class) != id {
		kind = 2
	}
	return
}

func c13FmtW(ws [][2]int, sorted bool) string {
	if sorted {
		sort.SliceStable(ws, func(i, j int) bool {
			if ws[i][0] != ws[j][0] {
				return ws[i][0] < ws[j][0]
			}
			return ws[i][1] < ws[j][1]
		})
	}
	if len(ws) == 0 {
		return "-"
	}
	var sb strings.Builder
	for i, w := range ws {
		if i > 0 {
			sb.WriteByte(',')
		}
		switch w[1] {
		case 0:
			sb.WriteString(strconv.Itoa(w[0]) + "a")
		case 1:
			sb.WriteString(strconv.Itoa(w[0]) + "r")
		case 2:
			sb.WriteString(strconv.Itoa(w[0]) + "x")
		default:
			sb.WriteString("bad")
		}
	}
	return sb.String()
}

func c13FmtInts(ids []int) string {
	if len(ids) == 0 {
		return "-"
	}
	s := make([]string, len(ids))
	for i, x := range ids {
		s[i] = strconv.Itoa(x)
	}
	return strings.Join(s, ",")
}

// c13WaitD is how long a step may take before it is reported as a stall. It never elapses on a correct
// implementation; after a few stalls (a broken implementation) the remaining cases wait much less so that
// the run still ends in reasonable time.
var c13Stalls int32

func c13WaitD() time.Duration {
	switch n := atomic.LoadInt32(&c13Stalls); {
	case n >= 20:
		return 2 * time.Millisecond
	case n >= 3:
		return 40 * time.Millisecond
	}
	return 3 * time.Second
}

func c13Stalled() { atomic.AddInt32(&c13Stalls, 1) }

func c13GnetRun(cs string) string {
	m := kv(cs)
	if m["ord"] == "m" {
		return c13GnetMultiRun(cs)
	}
	max := atoi(m["max"])
	det := m["ord"] == "d"
	stream := c13Stream(c13ParseFrames(m["fr"]))
	up := c13.up
	up.reset(det, 0)

	h := c13.vr.NewGnetHandler(int32(max), time.Hour)
	c := &c13Conn{}
	if _, a := h.OnOpen(c); a != gnet.None {
		return "open-refused"
	}
	closed := false
	stall := false
	var hash uint64
	released := 0 // handlers released so far (det)
	relOne := func(id int) {
		before := c.asyncCount()
		up.release(id)
		if stall {
			c.waitAsync(before+1, time.Millisecond)
		} else if !c.waitAsync(before+1, c13WaitD()) {
			stall = true
		}
		c.runCallbacks()
		released++
	}
	var ops []string
	if m["ops"] != "-" && m["ops"] != "" {
		ops = strings.Split(m["ops"], ",")
	}
	for _, op := range ops {
		n := atoi(op[1:])
		switch op[0] {
		case 's':
			if closed {
				stream = stream[n:]
				continue
			}
			seg := stream[:n]
			stream = stream[n:]
			a := c.feed(h, seg)
			if a == gnet.Close {
				closed = true
			}
			mode, bl, rn, il, conc := c.state()
			if det {
				// every accepted query must reach the upstream before the next step
				if !stall && !up.waitHeld(conc, c13WaitD()) {
					stall = true
				}
			} else {
				c.runCallbacks()
				conc = 0
			}
			if !closed {
				mc := map[string]int{"n": 0, "h": 1, "b": 2}[mode]
				hash = c13Mix(c13Mix(c13Mix(c13Mix(c13Mix(hash, mc), bl), rn), il), conc)
			}
		case 'r':
			if !det {
				continue
			}
			ids := up.heldIDs()
			if n < len(ids) {
				relOne(ids[n])
			}
		}
	}
	// every handler still running completes, oldest first
	if det {
		for _, id := range up.heldIDs() {
			relOne(id)
		}
	} else {
		deadline := time.Now().Add(c13WaitD())
		spins := 0
		for {
			c.runCallbacks()
			_, _, _, _, conc := c.state()
			if conc == 0 {
				break
			}
			if time.Now().After(deadline) {
				stall = true
				break
			}
			c13Pause(&spins)
		}
	}
	c.runCallbacks()
	mode, bl, rn, il, conc := c.state()
	h.OnClose(c, nil)

	c.mu.Lock()
	ws := make([][2]int, 0, len(c.writes))
	for _, b := range c.writes {
		id, k := c13Kind(b)
		ws = append(ws, [2]int{id, k})
	}
	c.mu.Unlock()
	st := fmt.Sprintf("%s:%d:%d:%d:%d", mode, bl, rn, il, conc)
	if closed {
		st = "closed"
	}
	res := fmt.Sprintf("w=%s up=%s closed=%s st=%s sh=%d", c13FmtW(ws, !det), c13FmtInts(up.arrivedSorted()), b2s(closed), st, hash)
	if stall {
		c13Stalled()
		res += " stall=1"
	}
	return res
}

// ---------------------------------------------------------------- generators

// c13Lens: k valid frame lengths.
func c13RandLen(r *rand.Rand) int {
	switch x := r.Intn(100); {
	case x < 25:
		return 17
	case x < 80:
		return 19 + r.Intn(40)
	case x < 95:
		return 19 + r.Intn(253)
	case x < 99:
		return 272 + r.Intn(2000)
	default:
		return 60000 + r.Intn(5536)
	}
}

func c13FrStr(fs []c13frame) string {
	if len(fs) == 0 {
		return "-"
	}
	s := make([]string, len(fs))
	for i, f := range fs {
		s[i] = strconv.Itoa(f.l)
		if !f.valid {
			s[i] += "x"
		}
	}
	return strings.Join(s, ",")
}

// c13OpsFromCuts: cut positions (ascending, inside (0,total)) -> s ops covering `upto` octets.
func c13SegsFromCuts(cuts []int, upto int) []int {
	var segs []int
	prev := 0
	for _, c := range cuts {
		if c <= prev || c >= upto {
			continue
		}
		segs = append(segs, c-prev)
		prev = c
	}
	if upto > prev {
		segs = append(segs, upto-prev)
	}
	return segs
}

func c13Case(max int, det bool, fs []c13frame, ops []string) string {
	ord := "n"
	if det {
		ord = "d"
	}
	o := "-"
	if len(ops) > 0 {
		o = strings.Join(ops, ",")
	}
	return fmt.Sprintf("max=%d ord=%s fr=%s ops=%s", max, ord, c13FrStr(fs), o)
}

func c13SegOps(segs []int) []string {
	ops := make([]string, len(segs))
	for i, s := range segs {
		ops[i] = "s" + strconv.Itoa(s)
	}
	return ops
}

func c13Total(fs []c13frame) int {
	t := 0
	for _, f := range fs {
		t += 2 + f.l
	}
	return t
}

// c13RandCuts picks cut positions with a chosen flavour.
func c13RandCuts(r *rand.Rand, fs []c13frame, flavour int) []int {
	total := c13Total(fs)
	var cuts []int
	off := 0
	switch flavour {
	case 0: // every octet its own segment
		for i := 1; i < total; i++ {
			cuts = append(cuts, i)
		}
	case 1: // only inside length prefixes
		for _, f := range fs {
			if r.Intn(3) > 0 {
				cuts = append(cuts, off+1)
			}
			off += 2 + f.l
		}
	case 2: // frame aligned, several frames per segment
		for _, f := range fs {
			off += 2 + f.l
			if r.Intn(3) == 0 {
				cuts = append(cuts, off)
			}
		}
	case 3: // between prefix and body, and inside bodies
		for _, f := range fs {
			if r.Intn(2) == 0 {
				cuts = append(cuts, off+2)
			}
			if r.Intn(2) == 0 {
				cuts = append(cuts, off+2+1+r.Intn(f.l))
			}
			off += 2 + f.l
		}
	case 4: // uniformly random, sparse
		n := 1 + r.Intn(1+len(fs))
		for i := 0; i < n; i++ {
			cuts = append(cuts, 1+r.Intn(total))
		}
	default: // uniformly random, dense
		n := r.Intn(2 + total/3)
		for i := 0; i < n; i++ {
			cuts = append(cuts, 1+r.Intn(total))
		}
	}
	sort.Ints(cuts)
	return cuts
}

func c13GnetGen(r *rand.Rand, thorough bool, emit func(c, cat string)) {
	c13GnetMultiGen(r, thorough, emit)
	// (1) exhaustive: a 3-frame stream, every cut-set of at most 2 (thorough: 3) cuts
	fs3 := []c13frame{{17, true}, {19, true}, {17, true}}
	total := c13Total(fs3)
	maxCuts := 2
	if thorough {
		maxCuts = 3
	}
	var rec func(start int, cuts []int)
	rec = func(start int, cuts []int) {
		for _, mx := range []int{100, 1} {
			if mx == 1 && len(cuts) > 2 {
				continue
			}
			emit(c13Case(mx, true, fs3, c13SegOps(c13SegsFromCuts(cuts, total))), fmt.Sprintf("exh3-%dcuts", len(cuts)))
		}
		if len(cuts) == maxCuts {
			return
		}
		for p := start; p < total; p++ {
			rec(p+1, append(append([]int(nil), cuts...), p))
		}
	}
	rec(1, nil)
	// (2) exhaustive: every cut-set inside the first nb octets of a 2-frame stream (prefix, early body,
	// boundary); thorough: every cut-set of a whole minimal frame followed by the start of the next one
	fs2 := []c13frame{{17, true}, {17, true}}
	nb := 11
	if thorough {
		nb = 15
	}
	for from := range []int{0, 1} {
		base := 0
		if from == 1 {
			base = 19 - 4 // around the frame boundary
		}
		for mask := 0; mask < 1<<nb; mask++ {
			var cuts []int
			if base > 0 {
				cuts = append(cuts, base)
			}
			for i := 0; i < nb; i++ {
				if mask>>i&1 == 1 {
					cuts = append(cuts, base+1+i)
				}
			}
			emit(c13Case(100, true, fs2, c13SegOps(c13SegsFromCuts(cuts, c13Total(fs2)))), "exh-allcuts-window")
		}
	}
	// (3) random
	n := 2500
	if thorough {
		n = 25000
	}
	for i := 0; i < n; i++ {
		k := 1 + r.Intn(4)
		switch x := r.Intn(100); {
		case x >= 99:
			k = 100 + r.Intn(101)
		case x >= 85:
			k = 5 + r.Intn(40)
		}
		fs := make([]c13frame, k)
		big := 0
		for j := range fs {
			l := c13RandLen(r)
			if l > 5000 {
				big++
				if big > 1 || k > 20 {
					l = 17
				}
			}
			fs[j] = c13frame{l, true}
		}
		cat := "rand"
		// an undecodable frame somewhere (the connection is closed there)
		if r.Intn(12) == 0 {
			j := r.Intn(k)
			fs[j] = c13frame{1 + r.Intn(30), false}
			cat = "rand-invalid"
		}
		total := c13Total(fs)
		upto := total
		if r.Intn(5) == 0 { // the stream stops inside a frame
			upto = total - 1 - r.Intn(min(total-1, 2+fs[k-1].l))
			if upto < 1 {
				upto = 1
			}
			cat += "-partial"
		}
		flavour := r.Intn(6)
		if total > 3000 && (flavour == 0 || flavour == 5) {
			flavour = 4 // no dense cutting of huge frames (quadratic in the model's list representation)
		}
		segs := c13SegsFromCuts(c13RandCuts(r, fs, flavour), upto)
		det := r.Intn(4) > 0
		max := []int{1, 1, 2, 3, 5, 100}[r.Intn(6)]
		if k > 50 && r.Intn(2) == 0 {
			max = 100 // the default limit
		}
		var ops []string
		if det {
			pend := 0
			seen := 0
			_ = seen
			for _, s := range segs {
				ops = append(ops, "s"+strconv.Itoa(s))
				// completions in between, any pending position (out of order)
				for r.Intn(3) == 0 {
					ops = append(ops, "r"+strconv.Itoa(r.Intn(3)))
				}
				pend++
			}
			if max < k {
				cat += "-overlimit"
			}
		} else {
			max = 1000
			ops = c13SegOps(segs)
			cat += "-async"
		}
		emit(c13Case(max, det, fs, ops), fmt.Sprintf("%s-cuts%d", cat, flavour))
	}
	// (4) k > limit, everything in one segment, nothing completes: the surplus is REFUSED
	for _, k := range []int{2, 5, 101, 150, 200} {
		fs := make([]c13frame, k)
		for j := range fs {
			fs[j] = c13frame{17 + 2*(j%9) + 2, true}
		}
		for _, mx := range []int{1, 3, 100} {
			emit(c13Case(mx, true, fs, []string{"s" + strconv.Itoa(c13Total(fs))}), "overlimit-oneseg")
		}
	}
}

// ---------------------------------------------------------------- several connections on one handler
//
// case : max=<n> ord=m cf=<conn of frame 1>,... fr=<len>,... ops=<o<k>|s<k>:<n>|c<k>|r<k>:<j>>,...
//        one gnetServer handler, connections 1..K each with its own fake gnet.Conn; frame i (DNS id i) belongs to
//        the stream of connection cf[i]. o<k>: OnOpen; s<k>:<n>: n octets of k's stream arrive, OnTraffic;
//        c<k>: k's peer goes away, OnClose (queries of k still held at the upstream keep running);
//        r<k>:<j>: the j-th held query of k (by id) is answered by the upstream, its AsyncWrite is awaited and
//        completed on the event loop (with net.ErrClosed and nothing on the wire if k is gone).
// out  : c<k>=<writes>/<closed by the server>/<late replies>/<reassembly state> per connection, up=<ids forwarded>

func c13GnetMultiRun(cs string) string {
	m := kv(cs)
	max := atoi(m["max"])
	fs := c13ParseFrames(m["fr"])
	var cf []int
	K := 0
	for _, t := range strings.Split(m["cf"], ",") {
		k := atoi(t)
		cf = append(cf, k)
		if k > K {
			K = k
		}
	}
	if len(cf) != len(fs) || K == 0 {
		return "bad-case"
	}
	streams := make([][]byte, K+1)
	for i, f := range fs {
		body := c13Query(i+1, f.l)
		if !f.valid {
			body = c13Garbage(i+1, f.l)
		}
		streams[cf[i]] = append(streams[cf[i]], byte(f.l>>8), byte(f.l))
		streams[cf[i]] = append(streams[cf[i]], body...)
	}
	up := c13.up
	up.reset(true, 0)
	h := c13.vr.NewGnetHandler(int32(max), time.Hour)
	conns := make([]*c13Conn, K+1)
	srvClosed := make([]bool, K+1)
	stall := false
	totalConc := func() int {
		n := 0
		for _, c := range conns {
			if c != nil {
				_, _, _, _, conc := c.state()
				n += conc
			}
		}
		return n
	}
	heldOf := func(k int) []int {
		var ids []int
		for _, id := range up.heldIDs() {
			if id >= 1 && id <= len(cf) && cf[id-1] == k {
				ids = append(ids, id)
			}
		}
		return ids
	}
	relOne := func(k, id int) {
		c := conns[k]
		before := c.asyncCount()
		up.release(id)
		if stall {
			c.waitAsync(before+1, time.Millisecond)
		} else if !c.waitAsync(before+1, c13WaitD()) {
			stall = true
		}
		c.runCallbacks()
	}
	var ops []string
	if m["ops"] != "-" && m["ops"] != "" {
		ops = strings.Split(m["ops"], ",")
	}
	for _, op := range ops {
		arg := op[1:]
		k, n := 0, 0
		if i := strings.IndexByte(arg, ':'); i >= 0 {
			k, n = atoi(arg[:i]), atoi(arg[i+1:])
		} else {
			k = atoi(arg)
		}
		if k < 1 || k > K {
			return "bad-case"
		}
		switch op[0] {
		case 'o':
			if conns[k] != nil {
				continue
			}
			c := &c13Conn{}
			conns[k] = c
			if _, a := h.OnOpen(c); a != gnet.None {
				return "open-refused"
			}
		case 's':
			c := conns[k]
			seg := streams[k][:n]
			streams[k] = streams[k][n:]
			if c == nil || c.gone || srvClosed[k] {
				continue
			}
			if a := c.feed(h, seg); a == gnet.Close {
				srvClosed[k] = true
			}
			// every admitted query of every connection must reach the upstream before the next step
			if !stall && !up.waitHeld(totalConc(), c13WaitD()) {
				stall = true
			}
		case 'c':
			c := conns[k]
			if c == nil || c.gone {
				continue
			}
			c.gone = true
			h.OnClose(c, io.EOF)
		case 'r':
			if conns[k] == nil {
				continue
			}
			if ids := heldOf(k); n < len(ids) {
				relOne(k, ids[n])
			}
		}
	}
	// the handlers still running complete, connection by connection, oldest first
	for k := 1; k <= K; k++ {
		if conns[k] == nil {
			continue
		}
		for _, id := range heldOf(k) {
			relOne(k, id)
		}
	}
	var parts []string
	for k := 1; k <= K; k++ {
		c := conns[k]
		if c == nil {
			parts = append(parts, fmt.Sprintf("c%d=-/0/0/n:0:0:0:0", k))
			continue
		}
		c.runCallbacks()
		mode, bl, rn, il, conc := c.state()
		st := fmt.Sprintf("%s:%d:%d:%d:%d", mode, bl, rn, il, conc)
		if srvClosed[k] {
			st = "closed"
		}
		c.mu.Lock()
		ws := make([][2]int, 0, len(c.writes))
		for _, b := range c.writes {
			id, kd := c13Kind(b)
			ws = append(ws, [2]int{id, kd})
		}
		late := c.late
		c.mu.Unlock()
		parts = append(parts, fmt.Sprintf("c%d=%s/%s/%d/%s", k, c13FmtW(ws, false), b2s(srvClosed[k]), late, st))
		if !c.gone {
			h.OnClose(c, nil)
		}
	}
	res := strings.Join(parts, " ") + " up=" + c13FmtInts(up.arrivedSorted())
	if stall {
		c13Stalled()
		res += " stall=1"
	}
	return res
}

func c13MultiCase(max int, cf []int, fs []c13frame, ops []string) string {
	cs := make([]string, len(cf))
	for i, k := range cf {
		cs[i] = strconv.Itoa(k)
	}
	return fmt.Sprintf("max=%d ord=m cf=%s fr=%s ops=%s", max, strings.Join(cs, ","), c13FrStr(fs), strings.Join(ops, ","))
}

func c13GnetMultiGen(r *rand.Rand, thorough bool, emit func(c, cat string)) {
	q := func(n int) []c13frame {
		fs := make([]c13frame, n)
		for i := range fs {
			fs[i] = c13frame{17, true}
		}
		return fs
	}
	// the peer of connection 1 goes away with a query in flight, connection 2 is accepted and fills its own limit,
	// connection 1's late reply comes back, connection 2 sends one more query: it must be REFUSED
	for _, mx := range []int{1, 2, 3} {
		var cf []int
		var ops []string
		ops = append(ops, "o1")
		for i := 0; i < mx; i++ {
			cf = append(cf, 1)
			ops = append(ops, "s1:19")
		}
		ops = append(ops, "c1", "o2")
		for i := 0; i < mx; i++ {
			cf = append(cf, 2)
			ops = append(ops, "s2:19")
		}
		for i := 0; i < mx; i++ {
			ops = append(ops, "r1:0")
		}
		cf = append(cf, 2)
		ops = append(ops, "s2:19")
		emit(c13MultiCase(mx, cf, q(len(cf)), ops), "multi-late-reply-after-reopen")
		// the mirror image: the late reply arrives BEFORE the successor has anything in flight (must not be
		// refused too early afterwards, must not go negative)
		ops2 := []string{"o1", "s1:19", "c1", "o2", "r1:0"}
		cf2 := []int{1}
		for i := 0; i <= mx; i++ {
			cf2 = append(cf2, 2)
			ops2 = append(ops2, "s2:19")
		}
		emit(c13MultiCase(mx, cf2, q(len(cf2)), ops2), "multi-late-reply-before-traffic")
	}
	// two live connections: each one's limit is its own
	emit(c13MultiCase(1, []int{1, 2, 1, 2}, q(4), []string{"o1", "o2", "s1:19", "s2:19", "s1:19", "s2:19", "r1:0", "r2:0"}), "multi-independent")
	n := 500
	if thorough {
		n = 6000
	}
	for i := 0; i < n; i++ {
		K := 2 + r.Intn(2)
		mx := 1 + r.Intn(3)
		nf := 3 + r.Intn(8)
		fs := make([]c13frame, nf)
		cf := make([]int, nf)
		remain := make([]int, K+1) // octets of each connection's stream not yet sent
		for j := range fs {
			l := 17
			if r.Intn(4) == 0 {
				l = 19 + r.Intn(20)
			}
			fs[j] = c13frame{l, true}
			cf[j] = 1 + r.Intn(K)
			remain[cf[j]] += 2 + l
		}
		// make sure every connection 1..K owns a frame (the model derives K from cf)
		for k := 1; k <= K; k++ {
			if remain[k] == 0 {
				j := r.Intn(nf)
				for remain[cf[j]] == 2+fs[j].l { // do not empty another connection
					j = (j + 1) % nf
				}
				remain[cf[j]] -= 2 + fs[j].l
				cf[j] = k
				remain[k] += 2 + fs[j].l
			}
		}
		state := make([]int, K+1) // 0 not opened, 1 open, 2 gone
		var ops []string
		cat := "multi-rand"
		closes := 0
		for step := 0; step < 60; step++ {
			k := 1 + r.Intn(K)
			switch x := r.Intn(10); {
			case state[k] == 0:
				ops = append(ops, "o"+strconv.Itoa(k))
				state[k] = 1
			case x < 5 && state[k] == 1 && remain[k] > 0:
				n := 19
				if r.Intn(3) == 0 {
					n = 1 + r.Intn(25)
				}
				if n > remain[k] {
					n = remain[k]
				}
				remain[k] -= n
				ops = append(ops, fmt.Sprintf("s%d:%d", k, n))
			case x < 7:
				ops = append(ops, fmt.Sprintf("r%d:%d", k, r.Intn(2)))
			case x == 7 && state[k] == 1 && closes < K-1:
				ops = append(ops, "c"+strconv.Itoa(k))
				state[k] = 2
				closes++
			}
		}
		if closes > 0 {
			cat += "-closes"
		}
		if len(ops) == 0 {
			continue
		}
		emit(c13MultiCase(mx, cf, fs, ops), cat)
	}
}

func init() {
	register("gnetframes", &component{gen: c13GnetGen, run: c13GnetRun, setup: c13GnetSetup})
}
