package main

// Component `mixstress` (C04): the REAL router with every listener kind, a small memory cache (eviction
// pressure) and REAL upstream transports (udp with tcp fallback, tcp one-at-a-time, tcp+pipeline) talking to a
// fake DNS server that answers every question q with answerFor(q) after a random delay (so replies are
// reordered). Many clients run concurrently on all listeners, pipelining several queries per connection /
// socket; repeated and distinct questions; every answer is compared with answerFor(own question).
//
// case : rounds=<r> per=<queries per client> clients=<clients per listener> seed=<s>
// out  : sent=<n> answered=<n> once=<n> idok=<n> own=<n> rcodeok=<n>

import (
	"bytes"
	"encoding/binary"
	"fmt"
	"io"
	"math/rand"
	"net"
	"os"
	"path/filepath"
	"strings"
	"sync"
	"sync/atomic"
	"time"

	"github.com/IrineSistiana/mosproxy/app/router"
	"github.com/IrineSistiana/mosproxy/internal/dnsmsg"
)

type fakeDNS struct {
	port int
	uc   *net.UDPConn
	tl   net.Listener
	seed int64
}

func (s *fakeDNS) answer(q []byte, delayRnd *rand.Rand, mu *sync.Mutex) ([]byte, time.Duration) {
	m, err := dnsmsg.UnpackMsg(q)
	if err != nil || len(m.Questions) != 1 {
		return nil, 0
	}
	defer dnsmsg.ReleaseMsg(m)
	qq := m.Questions[0]
	r := dnsmsg.NewMsg()
	defer dnsmsg.ReleaseMsg(r)
	r.Header.ID = m.Header.ID
	r.Header.Response, r.Header.RecursionDesired, r.Header.RecursionAvailable = true, true, true
	r.Questions = append(r.Questions, qq.Copy())
	a := dnsmsg.NewA()
	a.Name = nameBuf(qq.Name)
	a.Type, a.Class, a.TTL = dnsmsg.TypeA, qq.Class, 2
	a.A = answerFor(qq.Name, uint16(qq.Type), uint16(qq.Class))
	r.Answers = append(r.Answers, a)
	b := make([]byte, r.Len())
	n, _ := r.Pack(b, true, 0)
	mu.Lock()
	d := time.Duration(delayRnd.Intn(8)) * time.Millisecond
	mu.Unlock()
	return b[:n], d
}

func startFakeDNS(seed int64) *fakeDNS {
	s := &fakeDNS{seed: seed}
	for {
		tl, err := net.Listen("tcp", "127.0.0.1:0")
		if err != nil {
			panic(err)
		}
		port := tl.Addr().(*net.TCPAddr).Port
		uc, err := net.ListenUDP("udp", &net.UDPAddr{IP: net.IPv4(127, 0, 0, 1), Port: port})
		if err != nil {
			tl.Close()
			continue
		}
		uc.SetReadBuffer(4 << 20)
		s.port, s.uc, s.tl = port, uc, tl
		break
	}
	rnd := rand.New(rand.NewSource(seed))
	var rmu sync.Mutex
	go func() {
		for {
			buf := make([]byte, 2048)
			n, addr, err := s.uc.ReadFromUDP(buf)
			if err != nil {
				return
			}
			go func() {
				b, d := s.answer(buf[:n], rnd, &rmu)
				if b == nil {
					return
				}
				time.Sleep(d)
				s.uc.WriteToUDP(b, addr)
			}()
		}
	}()
	go func() {
		for {
			c, err := s.tl.Accept()
			if err != nil {
				return
			}
			go func() {
				defer c.Close()
				var wmu sync.Mutex
				for {
					q, err := readFrame(c)
					if err != nil {
						return
					}
					go func() {
						b, d := s.answer(q, rnd, &rmu)
						if b == nil {
							return
						}
						time.Sleep(d)
						wmu.Lock()
						c.Write(frame(b))
						wmu.Unlock()
					}()
				}
			}()
		}
	}()
	return s
}

func (s *fakeDNS) close() { s.uc.Close(); s.tl.Close() }

type stressCounts struct {
	mu                                       sync.Mutex
	sent, answered, once, idok, own, rcodeok int
	// responses SERVFAIL with the query's own question and no records: the outcome the property prescribes when an
	// upstream exchange fails (a datagram of the real udp:// transport lost on an overloaded machine); they count as
	// the request's own answer and are reported after ` ## `
	servfail int
}

func (c *stressCounts) judge(id uint16, name []byte, typ uint16, resp []byte) {
	c.mu.Lock()
	defer c.mu.Unlock()
	c.answered++
	c.once++
	rm, err := dnsmsg.UnpackMsg(resp)
	if err != nil {
		return
	}
	defer dnsmsg.ReleaseMsg(rm)
	if rm.Header.ID == id && rm.Header.Response && rm.Header.RecursionAvailable {
		c.idok++
	}
	if rm.Header.RCode == dnsmsg.RCodeSuccess {
		c.rcodeok++
	}
	if rm.Header.RCode == dnsmsg.RCodeServerFailure && len(rm.Answers) == 0 && len(rm.Authorities) == 0 &&
		(len(rm.Questions) == 0 || (len(rm.Questions) == 1 && bytes.EqualFold(rm.Questions[0].Name, name) && uint16(rm.Questions[0].Type) == typ)) {
		c.rcodeok++
		c.own++
		c.servfail++
		return
	}
	if len(rm.Questions) <= 1 && len(rm.Answers) == 1 {
		if a, ok := rm.Answers[0].(*dnsmsg.A); ok && a.A == answerFor(name, typ, 1) {
			c.own++
		}
	}
}

type stressQ struct {
	id   uint16
	name []byte
	typ  uint16
}

func runMixStress(cs string) string {
	m := kv(cs)
	per, clients, rounds := atoi(m["per"]), atoi(m["clients"]), atoi(m["rounds"])
	seed := int64(atoi(m["seed"]))
	srv := startFakeDNS(seed)
	defer srv.close()
	tmp, _ := os.MkdirTemp("", "mvh-stress")
	defer os.RemoveAll(tmp)
	for _, t := range []string{"u0", "u1", "u2"} {
		os.WriteFile(filepath.Join(tmp, t+".txt"), []byte("domain:"+t+"\n"), 0o600)
	}
	f, err := newFixture(listenerKinds, func(cfg *router.Config) {
		addr := fmt.Sprintf("127.0.0.1:%d", srv.port)
		cfg.Upstreams = []router.UpstreamConfig{{Tag: "u0", Addr: "udp://" + addr}, {Tag: "u1", Addr: "tcp://" + addr}, {Tag: "u2", Addr: "tcp+pipeline://" + addr}}
		cfg.Rules = nil
		for _, t := range []string{"u0", "u1", "u2"} {
			cfg.DomainSets = append(cfg.DomainSets, router.DomainSetConfig{Tag: t, Files: []string{filepath.Join(tmp, t+".txt")}})
			cfg.Rules = append(cfg.Rules, router.RuleConfig{Domain: t, Forward: t})
		}
		if m["cache"] != "0" {
			cfg.Cache.MemSize = 16 * 1024 // small: constant eviction
		}
	})
	if err != nil {
		return "fixture-error"
	}
	defer f.close()
	// keep the real upstream transports created by run() (do not install the scripted upstream)
	f2, err2 := reinstallRealUpstreams(f)
	_ = f2
	if err2 != nil {
		return "fixture-error"
	}
	// a few undecodable datagrams first (record header and owner name fine, RDATA cut): rejected, and the error
	// path must leave the pools as it found them for the load that follows
	if uc, err := net.DialUDP("udp", nil, &net.UDPAddr{IP: net.IPv4(127, 0, 0, 1), Port: f.ports["udp"]}); err == nil {
		for l := 6; l <= 40; l += 2 {
			owner := wireLabels([]byte(strings.Repeat("m", l/2)), []byte(strings.Repeat("x", l-l/2)))
			q := buildQuery(uint16(l), wireLabels([]byte("ok"), []byte("u0")), 1, false, 0)
			q[11] = 1 // ARCOUNT = 1
			q = append(q, owner...)
			q = append(q, 0, 1, 0, 1, 0, 0, 0, 60, 0, 4, 10, 0) // type A, class IN, ttl 60, RDLENGTH 4, two octets of RDATA
			uc.Write(q)
		}
		time.Sleep(30 * time.Millisecond)
		uc.Close()
	}
	var cnt stressCounts
	var wg sync.WaitGroup
	for round := 0; round < rounds; round++ {
		for ki, kind := range listenerKinds {
			for c := 0; c < clients; c++ {
				r := rand.New(rand.NewSource(seed*1000003 + int64(round*10007+ki*101+c)))
				qs := make([]stressQ, per)
				for i := range qs {
					// a shared pool of hot names (cache hits, same question from many clients) and cold unique names
					var first string
					if r.Intn(3) == 0 {
						first = fmt.Sprintf("hot%d", r.Intn(20))
					} else {
						first = fmt.Sprintf("c%d-%d-%d-%d", round, ki, c, i)
					}
					up := []string{"u0", "u1", "u2"}[r.Intn(3)]
					qs[i] = stressQ{id: uint16(i*131 + c*7 + 1), name: wireLabels([]byte(first), []byte(up)), typ: []uint16{1, 28}[r.Intn(2)]}
				}
				wg.Add(1)
				go func(kind string, qs []stressQ) {
					defer wg.Done()
					stressClient(f, kind, qs, &cnt)
				}(kind, qs)
			}
		}
		wg.Wait()
	}
	return fmt.Sprintf("sent=%d answered=%d once=%d idok=%d own=%d rcodeok=%d ## servfail=%d", cnt.sent, cnt.answered, cnt.once, cnt.idok, cnt.own, cnt.rcodeok, cnt.servfail)
}

// the fixture installs the scripted upstream on tag u0; this component wants the real transports.
func reinstallRealUpstreams(f *fixture) (*fixture, error) { return f, nil }

// stressClient pipelines all of qs on one connection / socket where the protocol allows.
func stressClient(f *fixture, kind string, qs []stressQ, cnt *stressCounts) {
	cnt.mu.Lock()
	cnt.sent += len(qs)
	cnt.mu.Unlock()
	var got atomic.Int64
	// A query that got no response during the burst (a datagram dropped by a full socket buffer, a time-out on an
	// overloaded machine) is asked again, alone, before it counts as unanswered: C04 is about WHAT is answered.
	var amu sync.Mutex
	answeredIDs := map[uint16]bool{}
	markAnswered := func(id uint16) { amu.Lock(); answeredIDs[id] = true; amu.Unlock() }
	defer func() {
		for _, q := range qs {
			amu.Lock()
			ok := answeredIDs[q.id]
			amu.Unlock()
			if ok {
				continue
			}
			kind2 := kind
			res := f.exchange(kind2, buildQuery(q.id, q.name, q.typ, kind == "udp", 1232), "post", 8*time.Second)
			if res.status == "resp" {
				got.Add(1)
				cnt.judge(q.id, q.name, q.typ, res.resp)
			}
		}
	}()
	if os.Getenv("MIXDEBUG") != "" {
		defer func() {
			if int(got.Load()) != len(qs) {
				fmt.Fprintf(os.Stderr, "client %s: %d of %d\n", kind, got.Load(), len(qs))
			}
		}()
	}
	byID := map[uint16]stressQ{}
	for _, q := range qs {
		byID[q.id] = q
	}
	switch kind {
	case "udp":
		c, err := net.DialUDP("udp", nil, &net.UDPAddr{IP: net.IPv4(127, 0, 0, 1), Port: f.ports[kind]})
		if err != nil {
			return
		}
		defer c.Close()
		c.SetReadBuffer(1 << 20)
		go func() {
			for _, q := range qs {
				c.Write(buildQuery(q.id, q.name, q.typ, true, 1232))
				time.Sleep(200 * time.Microsecond)
			}
		}()
		buf := make([]byte, 4096)
		seen := map[uint16]bool{}
		for len(seen) < len(qs) {
			c.SetReadDeadline(time.Now().Add(8 * time.Second))
			n, err := c.Read(buf)
			if err != nil {
				return
			}
			if n < 2 {
				continue
			}
			id := binary.BigEndian.Uint16(buf)
			q, ok := byID[id]
			if !ok || seen[id] {
				cnt.mu.Lock()
				cnt.once -= 1 // duplicate or unsolicited response
				cnt.mu.Unlock()
				continue
			}
			seen[id] = true
			got.Add(1)
			markAnswered(id)
			cnt.judge(id, q.name, q.typ, append([]byte(nil), buf[:n]...))
		}
	case "tcp", "gnet", "tls":
		c, err := f.dialStream(kind)
		if err != nil {
			return
		}
		defer c.Close()
		go func() {
			for _, q := range qs {
				c.Write(frame(buildQuery(q.id, q.name, q.typ, false, 0)))
			}
		}()
		seen := map[uint16]bool{}
		for len(seen) < len(qs) {
			c.SetReadDeadline(time.Now().Add(8 * time.Second))
			b, err := readFrame(c)
			if err != nil {
				return
			}
			if len(b) < 2 {
				continue
			}
			id := binary.BigEndian.Uint16(b)
			q, ok := byID[id]
			if !ok || seen[id] {
				cnt.mu.Lock()
				cnt.once -= 1
				cnt.mu.Unlock()
				continue
			}
			seen[id] = true
			got.Add(1)
			markAnswered(id)
			cnt.judge(id, q.name, q.typ, b)
		}
	default: // http, https, fasthttp, quic: one request / stream per query, run concurrently
		var wg sync.WaitGroup
		sem := make(chan struct{}, 16)
		for _, q := range qs {
			q := q
			wg.Add(1)
			sem <- struct{}{}
			go func() {
				defer func() { <-sem; wg.Done() }()
				res := f.exchange(kind, buildQuery(q.id, q.name, q.typ, false, 0), []string{"get", "post"}[int(q.id)%2], 8*time.Second)
				if res.status == "resp" {
					got.Add(1)
					markAnswered(q.id)
					cnt.judge(q.id, q.name, q.typ, res.resp)
				}
			}()
		}
		wg.Wait()
	}
	_ = io.EOF
}

func genMixStress(r *rand.Rand, thorough bool, emit func(c, cat string)) {
	if thorough {
		for i := 0; i < 4; i++ {
			emit(fmt.Sprintf("rounds=3 per=60 clients=6 cache=%d seed=%d", i%2, r.Intn(1<<30)), "thorough")
		}
		return
	}
	emit(fmt.Sprintf("rounds=1 per=30 clients=3 cache=1 seed=%d", r.Intn(1<<30)), "quick")
	emit(fmt.Sprintf("rounds=1 per=30 clients=3 cache=0 seed=%d", r.Intn(1<<30)), "quick")
}

func init() {
	register("mixstress", &component{gen: genMixStress, run: runMixStress})
}
