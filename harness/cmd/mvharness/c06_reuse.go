package main

// C06: the real transport.NewReuseConnTransport, dialling in-memory fake net.Conns that are
// served by a scripted one-reply-per-query server. Every blocking point of the transport's
// goroutines (DialContext, Write, Read) is a gate owned by the harness, so a script fixes the
// order of {dial done, write done, reply available, caller cancel, idle timer, transport close,
// next exchange}. After every op the harness waits until all goroutines of the transport are
// blocked on a gate again (or finished), so the observable history is deterministic.
//
// case : space separated ops
//   s<e>   start exchange e (live ctx)          k<e>  start e with an already cancelled ctx
//   c<e>   cancel e's ctx                       dp<e> / df<e>  e's DialContext returns a conn / an error
//   w<e>   let the blocked Write of e's worker complete
//   r<e>   server sends the complete reply to e's query     rs<e> same, in three segments
//   rb<e>  server sends a complete frame that does not decode
//   rp<e>  server sends half of the reply, then closes     x<e>  server closes e's connection
//   to<e>  the response time-out of e's worker fires: its blocked Read returns a time-out, nothing consumed, the server stays
//   rr<e>  server sends the reply to e's query twice      du<e>  before replying to e the server repeats
//   di     every unused connection gets a copy of the last frame the server sent on it   the last frame it sent
//   xi     server closes every connection that is currently not in use
//   t      sleep over the idle timeout              C     ReuseConnTransport.Close
// out  : h=<events> — D<c> dial, U<c>.<q> conn c handed to exchange q (Write entered),
//   W<c>.<q>.<i> server received query q carrying wire id i, R<c>.<q>.<i> client consumed a whole
//   decodable frame with wire id i answering q, B<c> client consumed an undecodable frame, E<c> a Write/Read failed, X<c> client closed c,
//   T transport closed, A<e>.<q> e returned a message carrying nonce q (and q's ID),
//   F<e> e returned an error, G<e> e returned its ctx error.
// Within one op events are put into a canonical order (the order of the model's schedule).
// " stuck" is appended when the transport's goroutines did not come to rest after an op.
// Whenever an exchange returns, the harness takes a buffer of the payload's size from
// internal/pool and writes a different query (nonce 9999) into it: a worker that still uses
// the caller's payload buffer then puts foreign bytes on the wire (W<c>.9999).
// Real time matters only for `t`: a run in which a script segment between two `t` took longer
// than half the idle timeout is repeated (idle timers could have fired on their own).

import (
	"context"
	"encoding/binary"
	"errors"
	"fmt"
	"io"
	"math/rand"
	"net"
	"os"
	"reflect"
	"sort"
	"strconv"
	"strings"
	"sync"
	"time"
	"unsafe"

	"github.com/IrineSistiana/mosproxy/internal/dnsmsg"
	"github.com/IrineSistiana/mosproxy/internal/pool"
	"github.com/IrineSistiana/mosproxy/internal/upstream/transport"
	"github.com/miekg/dns"
)

const (
	c06IdleTimeout = 60 * time.Millisecond
	c06TickSleep   = 150 * time.Millisecond
	c06MaxSegment  = 30 * time.Millisecond // a script segment between two ticks must stay well below the idle timeout
	c06WaitMax     = 700 * time.Millisecond
	c06Poison      = 9999
)

const (
	c06T = iota
	c06D
	c06W
	c06R
	c06B
	c06E
	c06U
	c06X
	c06Ret
)

type c06ev struct {
	rank, x, y int
	tok        string
}

type c06frame struct {
	nonce  int // the exchange whose query this frame answers
	id     int // DNS id on the wire
	good   bool
	remain int
}

// a frame the server has sent (it may send it again)
type c06sent struct {
	bytes []byte
	nonce int
	id    int
	good  bool
}

type c06conn struct {
	h          *c06case
	id         int
	closed     bool
	peerClosed bool
	timedOut   bool // the next blocked Read returns a time-out with no octet consumed (op to<e>)
	wBlocked   bool
	wOpen      bool
	wNonce     int
	rBlocked   bool
	inIO       int // goroutines inside Write/Read
	curNonce   int
	rbuf       []byte
	frames     []*c06frame // replies (partly) sent and not completely consumed, oldest first
	owedQ      [][]byte    // queries received and not answered yet
	owedN      []int
	sent       []c06sent
}

type c06dial struct {
	e        int
	decided  bool
	ok       bool
	returned bool
}

type c06exch struct {
	started bool
	done    bool
	res     string
	cancel  context.CancelFunc
	ctx     context.Context
}

type c06case struct {
	mu     sync.Mutex
	cv     *sync.Cond
	t      *transport.ReuseConnTransport
	conns  []*c06conn
	dials  []*c06dial
	ex     map[int]*c06exch
	curEx  int
	evs    []c06ev // events of the current op
	hist   []string
	stuck  bool
	closed bool
	keep   []pool.Buffer
	auto   bool // component reusestress: no gates, events go straight to the history
}

func (h *c06case) event(rank, x, y int, tok string) {
	if h.auto {
		h.hist = append(h.hist, tok)
		return
	}
	h.evs = append(h.evs, c06ev{rank, x, y, tok})
}

// ---- fake net.Conn

type c06addr struct{}

func (c06addr) Network() string { return "fake" }
func (c06addr) String() string  { return "fake" }

func c06name(e int) string { return fmt.Sprintf("q%04d.test.", e) }
func c06id(e int) uint16   { return uint16(e*7 + 1) }

// wire id of a framed query
func c06wireID(b []byte) int {
	if len(b) < 4 {
		return 999996
	}
	return int(binary.BigEndian.Uint16(b[2:]))
}

// nonce carried by a framed (2-byte length) query: the exchange is identified by the question
// name only — the transport sends its own per-connection ids
func c06nonceOf(b []byte) int {
	if len(b) < 2+12 {
		return 999996 // not a query at all
	}
	q := new(dns.Msg)
	if q.Unpack(b[2:]) != nil || len(q.Question) != 1 {
		return 999996
	}
	n := -1
	fmt.Sscanf(q.Question[0].Name, "q%d.test.", &n)
	if n < 0 {
		return 999996
	}
	return n
}

func (c *c06conn) Write(b []byte) (int, error) {
	h := c.h
	h.mu.Lock()
	defer h.mu.Unlock()
	c.inIO++
	defer func() { c.inIO-- }()
	n0 := c06nonceOf(b)
	h.event(c06U, c.id, n0, fmt.Sprintf("U%d.%d", c.id, n0))
	if h.auto {
		// no gate; a short pause between the hand-over and the moment the bytes are read
		h.mu.Unlock()
		time.Sleep(time.Duration(n0%7) * 10 * time.Microsecond)
		h.mu.Lock()
	} else {
		c.wBlocked, c.wOpen, c.wNonce = true, false, n0
		h.cv.Broadcast()
		for !c.wOpen && !c.closed {
			h.cv.Wait()
		}
		c.wBlocked = false
	}
	defer h.cv.Broadcast()
	if c.closed {
		h.event(c06E, c.id, 0, fmt.Sprintf("E%d", c.id))
		return 0, net.ErrClosed
	}
	if c.peerClosed {
		h.event(c06E, c.id, 0, fmt.Sprintf("E%d", c.id))
		return 0, errors.New("broken pipe")
	}
	n1 := c06nonceOf(b) // the bytes as they are when they reach the server
	h.event(c06W, c.id, n1, fmt.Sprintf("W%d.%d.%d", c.id, n1, c06wireID(b)))
	c.owedQ = append(c.owedQ, append([]byte(nil), b[2:]...))
	c.owedN = append(c.owedN, n1)
	c.curNonce = n1
	return len(b), nil
}

func (c *c06conn) consume(n int) {
	for n > 0 && len(c.frames) > 0 {
		f := c.frames[0]
		k := n
		if k > f.remain {
			k = f.remain
		}
		f.remain -= k
		n -= k
		if f.remain == 0 {
			if !f.good {
				c.h.event(c06B, c.id, f.nonce, fmt.Sprintf("B%d", c.id))
			} else {
				c.h.event(c06R, c.id, f.nonce, fmt.Sprintf("R%d.%d.%d", c.id, f.nonce, f.id))
			}
			c.frames = c.frames[1:]
		}
	}
}

func (c *c06conn) Read(p []byte) (int, error) {
	h := c.h
	h.mu.Lock()
	defer h.mu.Unlock()
	c.inIO++
	defer func() { c.inIO-- }()
	for {
		if len(c.rbuf) > 0 {
			c.rBlocked = false
			n := copy(p, c.rbuf)
			c.rbuf = c.rbuf[n:]
			c.consume(n)
			h.cv.Broadcast()
			return n, nil
		}
		if c.closed {
			c.rBlocked = false
			h.event(c06E, c.id, 0, fmt.Sprintf("E%d", c.id))
			h.cv.Broadcast()
			return 0, net.ErrClosed
		}
		if c.timedOut { // the read deadline fired: nothing was consumed, the server may still answer later
			c.timedOut, c.rBlocked = false, false
			h.event(c06E, c.id, 0, fmt.Sprintf("E%d", c.id))
			h.cv.Broadcast()
			return 0, os.ErrDeadlineExceeded
		}
		if c.peerClosed {
			c.rBlocked = false
			h.event(c06E, c.id, 0, fmt.Sprintf("E%d", c.id))
			h.cv.Broadcast()
			return 0, io.EOF
		}
		c.rBlocked = true
		h.cv.Broadcast()
		h.cv.Wait()
	}
}

func (c *c06conn) Close() error {
	h := c.h
	h.mu.Lock()
	defer h.mu.Unlock()
	if !c.closed {
		c.closed = true
		c.wBlocked, c.rBlocked = false, false // they are about to fail
		h.event(c06X, c.id, 0, fmt.Sprintf("X%d", c.id))
	}
	h.cv.Broadcast()
	return nil
}

func (c *c06conn) deadline() error {
	c.h.mu.Lock()
	defer c.h.mu.Unlock()
	if c.closed {
		return net.ErrClosed
	}
	return nil
}
func (c *c06conn) LocalAddr() net.Addr                { return c06addr{} }
func (c *c06conn) RemoteAddr() net.Addr               { return c06addr{} }
func (c *c06conn) SetDeadline(t time.Time) error      { return c.deadline() }
func (c *c06conn) SetReadDeadline(t time.Time) error  { return c.deadline() }
func (c *c06conn) SetWriteDeadline(t time.Time) error { return c.deadline() }

func (h *c06case) dial(ctx context.Context) (net.Conn, error) {
	stop := context.AfterFunc(ctx, func() {
		h.mu.Lock()
		h.cv.Broadcast()
		h.mu.Unlock()
	})
	defer stop()
	h.mu.Lock()
	defer h.mu.Unlock()
	g := &c06dial{e: h.curEx}
	h.dials = append(h.dials, g)
	h.cv.Broadcast()
	for !g.decided && ctx.Err() == nil {
		h.cv.Wait()
	}
	defer h.cv.Broadcast()
	defer func() { g.returned = true }()
	if !g.decided {
		g.decided = true
		return nil, errors.New("dial aborted")
	}
	if !g.ok {
		return nil, errors.New("dial failed")
	}
	c := &c06conn{h: h, id: len(h.conns)}
	h.conns = append(h.conns, c)
	h.event(c06D, c.id, 0, fmt.Sprintf("D%d", c.id))
	return c, nil
}

// ---- peeking at the transport's idle set (read only, under its own mutex)

func (h *c06case) idleSet() (idle map[*c06conn]bool, ok bool) {
	defer func() {
		if recover() != nil {
			idle, ok = nil, false
		}
	}()
	v := reflect.ValueOf(h.t).Elem()
	mu := (*sync.Mutex)(unsafe.Pointer(v.FieldByName("m").UnsafeAddr()))
	mu.Lock()
	defer mu.Unlock()
	idle = map[*c06conn]bool{}
	it := v.FieldByName("idleConns").MapRange()
	for it.Next() {
		cf := it.Key().Elem().FieldByName("c")
		idle[(*c06conn)(cf.Elem().UnsafePointer())] = true
	}
	return idle, true
}

// all goroutines of the transport are blocked on a gate or have finished
func (h *c06case) quiet() bool {
	idle, ok := h.idleSet()
	h.mu.Lock()
	defer h.mu.Unlock()
	for e, x := range h.ex {
		if !x.started || x.done {
			continue
		}
		settled := false
		for _, c := range h.conns {
			if (c.wBlocked && c.wNonce == e) || (c.rBlocked && c.curNonce == e && len(c.rbuf) == 0) {
				settled = true
			}
		}
		for _, g := range h.dials {
			if !g.decided && g.e == e {
				settled = true
			}
		}
		if !settled {
			return false
		}
	}
	for _, g := range h.dials {
		if g.decided && !g.returned {
			return false
		}
	}
	for _, c := range h.conns {
		rest := (c.closed && c.inIO == 0) || c.wBlocked || (c.rBlocked && len(c.rbuf) == 0) || (ok && idle[c] && c.inIO == 0) || (!ok && c.inIO == 0)
		if !rest {
			return false
		}
	}
	return true
}

func (h *c06case) waitFor(cond func() bool) bool {
	dl := time.Now().Add(c06WaitMax)
	for i := 0; ; i++ {
		if cond() {
			return true
		}
		if time.Now().After(dl) {
			return false
		}
		if i < 200 {
			time.Sleep(20 * time.Microsecond)
		} else {
			time.Sleep(300 * time.Microsecond)
		}
	}
}

func (h *c06case) settle() {
	if _, ok := h.idleSet(); !ok {
		time.Sleep(30 * time.Millisecond) // no view of the idle set: fall back to a pause
	}
	if !h.waitFor(h.quiet) {
		h.stuck = true
	}
}

func (h *c06case) locked(f func() bool) func() bool {
	return func() bool {
		h.mu.Lock()
		defer h.mu.Unlock()
		return f()
	}
}

// ---- exchanges

func c06query(e int) []byte {
	q := new(dns.Msg)
	q.SetQuestion(c06name(e), dns.TypeA)
	q.Id = c06id(e)
	b, _ := q.Pack()
	return b
}

func c06reply(query []byte, nonce int) []byte {
	q := new(dns.Msg)
	if q.Unpack(query) != nil || len(q.Question) != 1 {
		return nil
	}
	r := new(dns.Msg)
	r.SetReply(q)
	if nonce < 0 {
		nonce = 0xffffff
	}
	r.Answer = append(r.Answer, &dns.A{
		Hdr: dns.RR_Header{Name: q.Question[0].Name, Rrtype: dns.TypeA, Class: dns.ClassINET, Ttl: 60},
		A:   net.IPv4(10, byte(nonce>>16), byte(nonce>>8), byte(nonce)),
	})
	b, _ := r.Pack()
	return b
}

// any buffer in the pool is free: take one of the size the transport used for its payload
// and scribble a different (well-formed) query on it
func c06scribble(size int) pool.Buffer {
	pb := pool.GetBuf(size)
	pq := c06query(c06Poison)
	if len(pq)+2 == len(pb) {
		binary.BigEndian.PutUint16(pb, uint16(len(pq)))
		copy(pb[2:], pq)
	}
	return pb
}

func c06classify(e int, r *dnsmsg.Msg, err error, ctx context.Context) string {
	switch {
	case err == nil && r != nil:
		nonce := -1
		b := make([]byte, r.Len())
		if n, perr := r.Pack(b, false, 0); perr == nil {
			mm := new(dns.Msg)
			if mm.Unpack(b[:n]) == nil && len(mm.Answer) == 1 && len(mm.Question) == 1 {
				if a, ok := mm.Answer[0].(*dns.A); ok {
					ip := a.A.To4()
					nonce = int(ip[1])<<16 | int(ip[2])<<8 | int(ip[3])
					if mm.Question[0].Name != c06name(nonce) || r.Header.ID != c06id(e) {
						nonce = 999998 // inconsistent message, or not the caller's own ID
					}
				}
			}
		}
		if nonce < 0 {
			nonce = 999997
		}
		return fmt.Sprintf("A%d.%d", e, nonce)
	case errors.Is(err, context.Canceled) && ctx.Err() != nil:
		// context.Cause(ctx) of the caller's own ctx (possibly joined with the errors of
		// earlier attempts); no fake I/O or dial error is a context error
		return fmt.Sprintf("G%d", e)
	default:
		return fmt.Sprintf("F%d", e)
	}
}

func (h *c06case) start(e int, cancelled bool) {
	h.mu.Lock()
	x := h.ex[e]
	if x == nil {
		x = &c06exch{}
		x.ctx, x.cancel = context.WithCancel(context.Background())
		h.ex[e] = x
	}
	if x.started {
		h.mu.Unlock()
		return
	}
	x.started = true
	if cancelled {
		x.cancel()
	}
	h.curEx = e
	h.mu.Unlock()
	qb := c06query(e)
	go func() {
		r, err := h.t.ExchangeContext(x.ctx, qb)
		pb := c06scribble(len(qb) + 2)
		res := c06classify(e, r, err, x.ctx)
		h.mu.Lock()
		h.keep = append(h.keep, pb)
		x.done, x.res = true, res
		h.event(c06Ret, e, 0, res)
		h.cv.Broadcast()
		h.mu.Unlock()
	}()
}

func (h *c06case) writerOf(e int) *c06conn {
	for _, c := range h.conns {
		if c.wBlocked && c.wNonce == e && !c.closed {
			return c
		}
	}
	return nil
}

func (h *c06case) readerOf(e int) *c06conn {
	for _, c := range h.conns {
		if c.rBlocked && len(c.owedN) > 0 && c.owedN[0] == e && c.curNonce == e && !c.closed && !c.peerClosed {
			return c
		}
	}
	return nil
}

func (h *c06case) dialOf(e int) *c06dial {
	for _, g := range h.dials {
		if !g.decided && g.e == e {
			return g
		}
	}
	return nil
}

// server: frame for the oldest unanswered query of c; the reply echoes the id found on the wire
func (c *c06conn) nextFrame(good bool) []byte {
	q, n := c.owedQ[0], c.owedN[0]
	c.owedQ, c.owedN = c.owedQ[1:], c.owedN[1:]
	var body []byte
	if good {
		body = c06reply(q, n)
	}
	if body == nil {
		// a frame that announces one question and carries none
		body = []byte{q[0], q[1], 0x81, 0x80, 0, 1, 0, 0, 0, 0, 0, 0}
		good = false
	}
	fr := make([]byte, 2+len(body))
	binary.BigEndian.PutUint16(fr, uint16(len(body)))
	copy(fr[2:], body)
	st := c06sent{bytes: fr, nonce: n, id: int(binary.BigEndian.Uint16(q)), good: good}
	c.sent = append(c.sent, st)
	c.frames = append(c.frames, &c06frame{nonce: st.nonce, id: st.id, good: st.good, remain: len(fr)})
	return fr
}

// server: the k-th frame it sent on c, once more
func (c *c06conn) dupFrame(k int) []byte {
	st := c.sent[k]
	c.frames = append(c.frames, &c06frame{nonce: st.nonce, id: st.id, good: st.good, remain: len(st.bytes)})
	return st.bytes
}

// server: a well-formed reply nobody asked for (answer to an invented query with the given id)
func (c *c06conn) strayFrame(nonce, id int) []byte {
	q := new(dns.Msg)
	q.SetQuestion(c06name(nonce), dns.TypeA)
	q.Id = uint16(id)
	qb, _ := q.Pack()
	body := c06reply(qb, nonce)
	fr := make([]byte, 2+len(body))
	binary.BigEndian.PutUint16(fr, uint16(len(body)))
	copy(fr[2:], body)
	c.frames = append(c.frames, &c06frame{nonce: nonce, id: id, good: true, remain: len(fr)})
	return fr
}

func (h *c06case) send(c *c06conn, b []byte) {
	c.rbuf = append(c.rbuf, b...)
	c.rBlocked = false
	h.cv.Broadcast()
}

func (h *c06case) op(tok string) {
	letters := strings.TrimRight(tok, "0123456789")
	e, _ := strconv.Atoi(tok[len(letters):])
	h.mu.Lock()
	h.evs = nil
	if letters != "t" && letters != "C" && letters != "xi" && letters != "di" {
		h.curEx = e
	}
	h.mu.Unlock()
	switch letters {
	case "s", "k":
		h.mu.Lock()
		fresh := h.ex[e] == nil || !h.ex[e].started
		h.mu.Unlock()
		if fresh {
			h.start(e, letters == "k")
			if h.ex[e].ctx.Err() != nil {
				// the caller returns at once; its worker / dial goroutine must reach its gate, too
				h.waitFor(h.locked(func() bool { return h.ex[e].done }))
				h.waitFor(h.locked(func() bool {
					if h.ex[e].res != fmt.Sprintf("G%d", e) {
						return true
					}
					for _, ev := range h.evs {
						if ev.rank == c06U && ev.y == e {
							return true
						}
					}
					return h.dialOf(e) != nil
				}))
			}
		}
	case "c":
		h.mu.Lock()
		x := h.ex[e]
		if x == nil {
			x = &c06exch{}
			x.ctx, x.cancel = context.WithCancel(context.Background())
			h.ex[e] = x
		}
		x.cancel()
		wait := x.started && !x.done
		h.mu.Unlock()
		if wait {
			h.waitFor(h.locked(func() bool { return x.done }))
		}
	case "dp", "df":
		h.mu.Lock()
		if g := h.dialOf(e); g != nil {
			g.decided, g.ok = true, letters == "dp"
			h.cv.Broadcast()
		}
		h.mu.Unlock()
	case "w":
		h.mu.Lock()
		if c := h.writerOf(e); c != nil {
			c.wOpen, c.wBlocked = true, false
			h.cv.Broadcast()
		}
		h.mu.Unlock()
	case "r", "rb":
		h.mu.Lock()
		if c := h.readerOf(e); c != nil {
			h.send(c, c.nextFrame(letters == "r"))
		}
		h.mu.Unlock()
	case "rr": // the reply, and a second copy of it right behind
		h.mu.Lock()
		if c := h.readerOf(e); c != nil {
			fr := c.nextFrame(true)
			fr = append(append([]byte(nil), fr...), c.dupFrame(len(c.sent)-1)...)
			h.send(c, fr)
		}
		h.mu.Unlock()
	case "du": // before answering, the server repeats the last frame it sent on this connection
		h.mu.Lock()
		if c := h.readerOf(e); c != nil && len(c.sent) > 0 {
			h.send(c, c.dupFrame(len(c.sent)-1))
		}
		h.mu.Unlock()
	case "di": // every unused connection gets a copy of the last frame sent on it
		h.mu.Lock()
		for _, c := range h.conns {
			if !c.closed && !c.peerClosed && !c.wBlocked && !c.rBlocked && c.inIO == 0 && len(c.sent) > 0 {
				c.rbuf = append(c.rbuf, c.dupFrame(len(c.sent)-1)...)
			}
		}
		h.mu.Unlock()
	case "rs":
		h.mu.Lock()
		c := h.readerOf(e)
		var fr []byte
		if c != nil {
			fr = c.nextFrame(true)
			h.send(c, fr[:1])
		}
		h.mu.Unlock()
		if c != nil {
			blocked := h.locked(func() bool { return (c.rBlocked && len(c.rbuf) == 0) || c.inIO == 0 || c.closed })
			h.waitFor(blocked)
			h.mu.Lock()
			h.send(c, fr[1:len(fr)/2])
			h.mu.Unlock()
			h.waitFor(blocked)
			h.mu.Lock()
			h.send(c, fr[len(fr)/2:])
			h.mu.Unlock()
		}
	case "rp":
		h.mu.Lock()
		c := h.readerOf(e)
		if c != nil {
			fr := c.nextFrame(true)
			h.send(c, fr[:len(fr)/2])
		}
		h.mu.Unlock()
		if c != nil {
			h.waitFor(h.locked(func() bool { return (c.rBlocked && len(c.rbuf) == 0) || c.inIO == 0 || c.closed }))
			h.mu.Lock()
			c.peerClosed, c.rBlocked = true, false
			h.cv.Broadcast()
			h.mu.Unlock()
		}
	case "x":
		h.mu.Lock()
		if c := h.readerOf(e); c != nil {
			c.peerClosed, c.rBlocked = true, false
			h.cv.Broadcast()
		} else if c := h.writerOf(e); c != nil {
			c.peerClosed = true
		}
		h.mu.Unlock()
	case "to": // the response time-out of e's worker fires (the server has not answered and does not close)
		h.mu.Lock()
		if c := h.readerOf(e); c != nil {
			c.timedOut, c.rBlocked = true, false
			h.cv.Broadcast()
		}
		h.mu.Unlock()
	case "xi":
		h.mu.Lock()
		for _, c := range h.conns {
			if !c.closed && !c.peerClosed && !c.wBlocked && !c.rBlocked {
				c.peerClosed = true
			}
		}
		h.mu.Unlock()
	case "t":
		time.Sleep(c06TickSleep)
		h.waitFor(func() bool {
			idle, ok := h.idleSet()
			if !ok {
				return true
			}
			h.mu.Lock()
			defer h.mu.Unlock()
			for c := range idle {
				if !c.closed {
					return false
				}
			}
			return true
		})
	case "C":
		h.mu.Lock()
		was := h.closed
		h.closed = true
		if !was {
			h.event(c06T, 0, 0, "T")
		}
		h.mu.Unlock()
		if !was {
			h.t.Close()
			// Close cancels the dial contexts: every blocked DialContext fails
			h.mu.Lock()
			for _, g := range h.dials {
				if !g.decided {
					g.decided, g.ok = true, false
				}
			}
			h.cv.Broadcast()
			h.mu.Unlock()
		}
	}
	h.settle()
	h.mu.Lock()
	evs := h.evs
	h.evs = nil
	h.mu.Unlock()
	rank := func(ev c06ev) int {
		if letters == "C" && ev.rank == c06X {
			return c06T*10 + 5 // Close() closes the connections before their users notice
		}
		return ev.rank * 10
	}
	sort.SliceStable(evs, func(i, j int) bool {
		a, b := evs[i], evs[j]
		if rank(a) != rank(b) {
			return rank(a) < rank(b)
		}
		if a.x != b.x {
			return a.x < b.x
		}
		return a.y < b.y
	})
	for _, ev := range evs {
		h.hist = append(h.hist, ev.tok)
	}
}

func c06run1(cs string) (out string, redo bool) {
	h := &c06case{ex: map[int]*c06exch{}}
	h.cv = sync.NewCond(&h.mu)
	h.t = transport.NewReuseConnTransport(transport.ReuseConnOpts{
		DialContext: h.dial,
		IdleTimeout: c06IdleTimeout,
	})
	seg := time.Now()
	for _, tok := range strings.Fields(cs) {
		if tok == "t" {
			if time.Since(seg) > c06MaxSegment {
				redo = true
			}
		}
		if h.stuck {
			break // the goroutines of the transport did not come to rest: the rest of the script is meaningless
		}
		h.op(tok)
		if tok == "t" {
			seg = time.Now()
		}
	}
	if time.Since(seg) > c06MaxSegment {
		redo = true
	}
	// clean up: nothing below is part of the observation
	h.mu.Lock()
	hist := append([]string(nil), h.hist...)
	stuck := h.stuck
	for _, x := range h.ex {
		x.cancel()
	}
	h.mu.Unlock()
	h.t.Close()
	h.mu.Lock()
	for _, g := range h.dials {
		if !g.decided {
			g.decided = true
		}
	}
	h.cv.Broadcast()
	keep := h.keep
	h.mu.Unlock()
	for _, b := range keep {
		pool.ReleaseBuf(b)
	}
	out = "h=-"
	if len(hist) > 0 {
		out = "h=" + strings.Join(hist, ",")
	}
	if stuck {
		out += " stuck"
		redo = true
	}
	return out, redo
}

var c06cache sync.Map

func c06run(cs string) string {
	if v, ok := c06cache.LoadAndDelete(cs); ok {
		return v.(string)
	}
	return c06exec(cs)
}

func c06exec(cs string) string {
	out := ""
	for try := 0; try < 4; try++ {
		var redo bool
		out, redo = c06run1(cs)
		if !redo || (try >= 1 && strings.HasSuffix(out, " stuck")) {
			break
		}
	}
	return out
}

// ---- generator

var c06fixed = []struct{ cat, cs string }{
	{"reuse", "s1 dp1 w1 r1 s2 w2 r2 s3 w3 rs3"},
	{"two-conns", "s1 dp1 s2 dp2 w2 w1 r1 r2 s3 w3 r3 s4 s5 w5 w4 r4 r5"},
	{"giveup-after-write", "s1 dp1 w1 c1 s2 dp2 w2 r2 r1 s3 w3 r3 s4 w4 r4 s5 s6 w5 w6 r6 r5"},
	{"giveup-after-write", "s1 dp1 w1 r1 s2 w2 c2 s3 dp3 r2 w3 r3 s4 w4 r4"},
	{"giveup-before-write", "s1 dp1 c1 s2 dp2 w1 w2 r1 r2 s3 w3 r3"},
	{"giveup-before-write", "s1 dp1 w1 r1 s2 c2 s3 dp3 w2 w3 r2 r3 s4 w4 r4"},
	{"giveup-then-error", "s1 dp1 w1 c1 x1 s2 dp2 w2 r2"},
	{"giveup-then-error", "s1 dp1 w1 c1 rp1 s2 dp2 w2 r2"},
	{"giveup-then-error", "s1 dp1 w1 c1 rb1 s2 dp2 w2 r2"},
	{"start-cancelled", "k1 dp1 s2 w2 r2 k3 w3 r3 s4 w4 r4"},
	{"start-cancelled", "k1 df1 s2 dp2 w2 r2"},
	{"dial-abandoned", "s1 c1 dp1 s2 w2 r2"},
	{"dial-abandoned", "s1 c1 df1 s2 dp2 w2 r2"},
	{"dial-fails", "s1 df1 s2 dp2 w2 r2"},
	{"bad-reply", "s1 dp1 w1 rb1 s2 dp2 w2 r2 s3 w3 rb3 dp3 w3 r3"},
	{"abort", "s1 dp1 w1 x1 s2 dp2 w2 rp2 s3 dp3 x3 w3"},
	{"abort-retry", "s1 dp1 w1 r1 s2 w2 x2 dp2 w2 r2"},
	{"abort-idle", "s1 dp1 w1 r1 xi s2 w2 dp2 w2 r2 s3 w3 r3"},
	{"abort-idle", "s1 dp1 s2 dp2 w1 w2 r1 r2 xi s3 w3 w3 dp3 w3 r3"},
	// 8 stale idle connections: six reuse attempts fail, the 7th attempt (retry == 6) dials although two
	// stale connections are still in the pool; the next exchange uses those up and then dials
	{"retry-limit", "s1 s2 s3 s4 s5 s6 s7 s8 dp1 dp2 dp3 dp4 dp5 dp6 dp7 dp8 w1 w2 w3 w4 w5 w6 w7 w8 r1 r2 r3 r4 r5 r6 r7 r8 xi s9 w9 w9 w9 w9 w9 w9 dp9 w9 r9 s10 w10 w10 dp10 w10 r10 s11 w11 r11"},
	// exactly 7 stale connections, the forced dial fails / is abandoned / meets Close
	{"retry-limit", "s1 s2 s3 s4 s5 s6 s7 dp1 dp2 dp3 dp4 dp5 dp6 dp7 w1 w2 w3 w4 w5 w6 w7 r1 r2 r3 r4 r5 r6 r7 xi s9 w9 w9 w9 w9 w9 w9 df9 s10 w10 dp10 w10 rs10"},
	{"retry-limit", "s1 s2 s3 s4 s5 s6 s7 dp1 dp2 dp3 dp4 dp5 dp6 dp7 w1 w2 w3 w4 w5 w6 w7 r1 r2 r3 r4 r5 r6 r7 xi s9 w9 w9 w9 w9 w9 w9 c9 dp9 s10 w10 r10 s11 w11 dp11 w11 r11"},
	{"retry-limit-close", "s1 s2 s3 s4 s5 s6 s7 dp1 dp2 dp3 dp4 dp5 dp6 dp7 w1 w2 w3 w4 w5 w6 w7 r1 r2 r3 r4 r5 r6 r7 xi s9 w9 w9 w9 w9 w9 C s10"},
	{"retry-limit-close", "s1 s2 s3 s4 s5 s6 s7 dp1 dp2 dp3 dp4 dp5 dp6 dp7 w1 w2 w3 w4 w5 w6 w7 r1 r2 r3 r4 r5 r6 r7 xi s9 w9 w9 w9 w9 w9 w9 C dp9"},
	// six stale connections only: the 7th attempt finds the pool empty anyway
	{"retry-limit", "s1 s2 s3 s4 s5 s6 dp1 dp2 dp3 dp4 dp5 dp6 w1 w2 w3 w4 w5 w6 r1 r2 r3 r4 r5 r6 xi s9 w9 w9 w9 w9 w9 w9 dp9 w9 r9"},
	// extra frames (31b269e): a reply sent twice, a stale copy on an idle connection, a stale copy in
	// front of the real reply; the next user must reject the frame, drop the connection and retry
	{"dup-reply", "s1 dp1 w1 rr1 s2 w2 dp2 w2 r2 s3 w3 r3"},
	{"dup-reply", "s1 dp1 s2 dp2 w1 w2 rr1 rr2 s3 w3 w3 dp3 w3 r3 s4 w4 rr4 s5 w5 dp5 w5 rs5"},
	{"dup-idle", "s1 dp1 w1 r1 di s2 w2 dp2 w2 r2 s3 w3 r3 di di s4 w4 dp4 w4 r4"},
	{"dup-before-reply", "s1 dp1 w1 r1 s2 w2 du2 dp2 w2 r2 s3 w3 r3"},
	{"dup-before-reply", "s1 dp1 w1 du1 r1 s2 w2 r2 s3 w3 du3 dp3 w3 du3 r3"},
	{"dup-giveup", "s1 dp1 w1 rr1 s2 c2 w2 s3 dp3 w3 r3"},
	{"dup-giveup", "s1 dp1 w1 c1 rr1 s2 w2 dp2 w2 r2"},
	{"dup-bad", "s1 dp1 w1 rb1 dp1 w1 r1 s2 w2 r2"},
	{"dup-close", "s1 dp1 w1 rr1 s2 C w2"},
	{"dup-many", "s1 s2 s3 dp1 dp2 dp3 w1 w2 w3 rr1 rr2 rr3 s4 w4 w4 w4 dp4 w4 r4 s5 w5 r5"},
	{"read-timeout", "s1 dp1 w1 to1 s2 dp2 w2 r2 s3 w3 r3"},
	{"read-timeout", "s1 dp1 w1 r1 s2 w2 to2 dp2 w2 r2 s3 w3 r3"},
	{"read-timeout", "s1 dp1 w1 r1 s2 w2 to2 dp2 w2 to2 s3 dp3 w3 r3"},
	{"read-timeout", "s1 s2 dp1 dp2 w1 w2 to1 r2 s3 w3 r3 s4 w4 dp4 w4 r4"},
	{"idle-timeout", "s1 dp1 w1 r1 t s2 dp2 w2 r2"},
	{"idle-timeout", "s1 dp1 s2 dp2 w1 w2 r1 t r2 s3 w3 r3 s4 w4 r4"},
	{"idle-timeout", "s1 c1 dp1 t s2 dp2 w2 r2"},
	{"close", "s1 dp1 w1 C s2"},
	{"close", "s1 dp1 w1 r1 C s2 dp2"},
	{"close", "s1 C dp1 s2"},
	{"close", "s1 dp1 s2 dp2 s3 w1 w2 r1 c2 C r2 dp3"},
	{"close", "s1 dp1 w1 r1 s2 w2 s3 dp3 s4 C"},
}

type c06gen struct {
	r        *rand.Rand
	st       map[int]int // 0 unstarted 1 dial 2 write 3 read 4 done
	gone     map[int]bool
	isNew    map[int]bool
	retry    map[int]int
	idle     int
	closed   bool
	next     int
	ticks    int
	maxTicks int
}

func (g *c06gen) fail(e int) {
	if g.gone[e] || g.isNew[e] || g.closed {
		g.st[e] = 4
		return
	}
	g.retry[e]++
	if g.idle > 0 && g.retry[e] <= 5 {
		g.idle--
		g.st[e] = 2
	} else {
		g.st[e] = 1
		g.isNew[e] = true
	}
}

func (g *c06gen) pick(want int) (int, bool) {
	var c []int
	for e, s := range g.st {
		if s == want {
			c = append(c, e)
		}
	}
	if len(c) == 0 {
		return 0, false
	}
	sort.Ints(c)
	return c[g.r.Intn(len(c))], true
}

func (g *c06gen) step() string {
	for try := 0; try < 20; try++ {
		switch k := g.r.Intn(100); {
		case k < 22: // start
			e := g.next
			g.next++
			tok := "s"
			if g.r.Intn(8) == 0 {
				tok = "k"
				g.gone[e] = true
			}
			if g.closed {
				g.st[e] = 4
			} else if g.idle > 0 {
				g.idle--
				g.st[e] = 2
			} else {
				g.st[e] = 1
				g.isNew[e] = true
			}
			return fmt.Sprintf("%s%d", tok, e)
		case k < 36:
			if e, ok := g.pick(1); ok {
				if g.r.Intn(8) == 0 {
					g.st[e] = 4
					return fmt.Sprintf("df%d", e)
				}
				if g.gone[e] {
					g.st[e] = 4
					g.idle++
				} else {
					g.st[e] = 2
					g.isNew[e] = true
				}
				return fmt.Sprintf("dp%d", e)
			}
		case k < 56:
			if e, ok := g.pick(2); ok {
				g.st[e] = 3
				return fmt.Sprintf("w%d", e)
			}
		case k < 76:
			if e, ok := g.pick(3); ok {
				switch j := g.r.Intn(20); {
				case j < 13:
					g.st[e] = 4
					g.idle++
					if j < 3 {
						return fmt.Sprintf("rs%d", e)
					}
					if j < 5 {
						return fmt.Sprintf("rr%d", e)
					}
					if j == 5 {
						g.fail(e) // (only if the connection was used before; otherwise a no-op)
						g.idle--
						return fmt.Sprintf("du%d", e)
					}
					return fmt.Sprintf("r%d", e)
				case j < 15:
					g.fail(e)
					return fmt.Sprintf("rb%d", e)
				case j < 17:
					g.fail(e)
					return fmt.Sprintf("rp%d", e)
				default:
					g.fail(e)
					return fmt.Sprintf("x%d", e)
				}
			}
		case k < 86:
			want := 1 + g.r.Intn(3)
			if e, ok := g.pick(want); ok && !g.gone[e] {
				g.gone[e] = true
				return fmt.Sprintf("c%d", e)
			}
		case k < 88:
			if e, ok := g.pick(2); ok {
				return fmt.Sprintf("x%d", e)
			}
		case k < 89:
			if g.idle > 0 {
				return "di"
			}
		case k < 92:
			if g.idle > 0 {
				return "xi"
			}
		case k < 96:
			if g.ticks < g.maxTicks {
				g.ticks++
				g.idle = 0
				return "t"
			}
		case k < 98:
			if !g.closed && g.r.Intn(3) == 0 {
				g.closed = true
				for e, s := range g.st {
					if s != 0 {
						g.st[e] = 4
					}
				}
				return "C"
			}
		default:
			// an op that is (probably) not applicable: both sides must treat it as a no-op
			e := 1 + g.r.Intn(g.next)
			return []string{"w", "r", "dp", "x", "c", "rb"}[g.r.Intn(6)] + strconv.Itoa(e)
		}
	}
	e := g.next
	g.next++
	g.st[e] = 1
	return fmt.Sprintf("s%d", e)
}

func c06random(r *rand.Rand) (string, string) {
	g := &c06gen{r: r, st: map[int]int{}, gone: map[int]bool{}, isNew: map[int]bool{}, retry: map[int]int{}, next: 1}
	cat := "random"
	if r.Intn(6) == 0 {
		g.maxTicks = 1 + r.Intn(2)
		cat = "random-tick"
	}
	n := 6 + r.Intn(30)
	var ops []string
	for i := 0; i < n; i++ {
		ops = append(ops, g.step())
	}
	// drain: finish what is still in flight so that late replies meet reused connections
	if r.Intn(2) == 0 {
		for i := 0; i < 12; i++ {
			if e, ok := g.pick(2); ok {
				g.st[e] = 3
				ops = append(ops, fmt.Sprintf("w%d", e))
			} else if e, ok := g.pick(3); ok {
				g.st[e] = 4
				g.idle++
				ops = append(ops, fmt.Sprintf("r%d", e))
			} else if e, ok := g.pick(1); ok {
				g.st[e] = 2
				ops = append(ops, fmt.Sprintf("dp%d", e))
			}
		}
		e := g.next
		ops = append(ops, fmt.Sprintf("s%d", e), fmt.Sprintf("w%d", e), fmt.Sprintf("r%d", e))
	}
	return strings.Join(ops, " "), cat
}

// n connections are parked in the pool and made stale; one exchange then burns through them
func c06staleScript(r *rand.Rand) string {
	n := 5 + r.Intn(5)
	var ops []string
	for _, f := range []string{"s%d", "dp%d", "w%d", "r%d"} {
		for e := 1; e <= n; e++ {
			ops = append(ops, fmt.Sprintf(f, e))
		}
	}
	ops = append(ops, "xi")
	e := n + 1
	ops = append(ops, fmt.Sprintf("s%d", e))
	fails := 3 + r.Intn(6)
	for i := 0; i < fails; i++ {
		ops = append(ops, fmt.Sprintf("w%d", e))
	}
	switch r.Intn(5) {
	case 0:
		ops = append(ops, "C", fmt.Sprintf("dp%d", e))
	case 1:
		ops = append(ops, fmt.Sprintf("c%d", e), fmt.Sprintf("dp%d", e))
	case 2:
		ops = append(ops, fmt.Sprintf("df%d", e))
	default:
		ops = append(ops, fmt.Sprintf("dp%d", e), fmt.Sprintf("w%d", e), fmt.Sprintf("r%d", e))
	}
	e2 := e + 1
	ops = append(ops, fmt.Sprintf("s%d", e2), fmt.Sprintf("w%d", e2), fmt.Sprintf("w%d", e2), fmt.Sprintf("dp%d", e2),
		fmt.Sprintf("w%d", e2), fmt.Sprintf("r%d", e2))
	return strings.Join(ops, " ")
}

func c06genf(r *rand.Rand, thorough bool, emit func(c, cat string)) {
	type cc struct{ cs, cat string }
	var all []cc
	for _, f := range c06fixed {
		all = append(all, cc{f.cs, f.cat})
	}
	n := 260
	if thorough {
		n = 4000
	}
	seen := map[string]bool{}
	for _, c := range all {
		seen[c.cs] = true
	}
	for i := 0; i < n; i++ {
		cs, cat := c06random(r)
		if i%20 == 7 {
			cs, cat = c06staleScript(r), "random-stale"
		}
		if seen[cs] {
			continue
		}
		seen[cs] = true
		all = append(all, cc{cs, cat})
	}
	// run the cases concurrently (each has its own transport); results are handed to emit in order
	jobs := make(chan string)
	var wg sync.WaitGroup
	for w := 0; w < 8; w++ {
		wg.Add(1)
		go func() {
			defer wg.Done()
			for cs := range jobs {
				c06cache.Store(cs, c06exec(cs))
			}
		}()
	}
	for _, c := range all {
		jobs <- c.cs
	}
	close(jobs)
	wg.Wait()
	for _, c := range all {
		emit(c.cs, c.cat)
	}
}

func init() {
	register("reuse", &component{gen: c06genf, run: c06run})
}
