package main

// Component `rawhttp` (C01): the unit "HTTP request" at the byte level. The `malformed` component sends
// undecodable DNS payloads inside well-formed HTTP requests; this one writes RAW request bytes to the http,
// fasthttp and https (HTTP/1.1 over TLS) listeners of the REAL router — requests without a body length,
// lying lengths, broken chunking, missing parameters, odd methods, truncated heads — and then a valid query.
//
// case : kind=<http|https|fasthttp> bytes=<hex of the raw request>
// out  : next=<ok|fail> ## first=<status code|none|closed>

import (
	"bufio"
	"crypto/tls"
	"encoding/base64"
	"fmt"
	"math/rand"
	"net"
	"strings"
	"time"
)

func (f *fixture) rawHTTP(kind string, raw []byte, wait time.Duration) string {
	addr := fmt.Sprintf("127.0.0.1:%d", f.ports[kind])
	c, err := net.DialTimeout("tcp", addr, 2*time.Second)
	if err != nil {
		return "err:dial"
	}
	defer c.Close()
	var conn net.Conn = c
	if kind == "https" {
		tc := tls.Client(c, &tls.Config{InsecureSkipVerify: true, NextProtos: []string{"http/1.1"}})
		c.SetDeadline(time.Now().Add(2 * time.Second))
		if err := tc.Handshake(); err != nil {
			return "err:handshake"
		}
		conn = tc
	}
	conn.SetDeadline(time.Now().Add(wait))
	conn.Write(raw)
	br := bufio.NewReader(conn)
	line, err := br.ReadString('\n')
	if err != nil {
		if ne, ok := err.(net.Error); ok && ne.Timeout() {
			return "none"
		}
		return "closed"
	}
	fs := strings.Fields(line)
	if len(fs) >= 2 && strings.HasPrefix(fs[0], "HTTP/") {
		return fs[1]
	}
	return "garbage"
}

func runRawHTTP(cs string) string {
	m := kv(cs)
	kind := m["kind"]
	first := lfix.rawHTTP(kind, unhex(m["bytes"]), 400*time.Millisecond)
	next := "fail"
	if validProbe(kind) {
		next = "ok"
	}
	return fmt.Sprintf("next=%s ## first=%s", next, first)
}

func genRawHTTP(r *rand.Rand, thorough bool, emit func(c, cat string)) {
	q := buildQuery(77, wireLabels([]byte("raw"), []byte("probe")), 1, false, 0)
	b64 := base64.RawURLEncoding.EncodeToString(q)
	ct := "Content-Type: application/dns-message\r\n"
	fixed := []struct{ cat, req string }{
		{"post-nolength", "POST /dns-query HTTP/1.1\r\nHost: x\r\n" + ct + "\r\n"},
		{"post-nolength-close", "POST /dns-query HTTP/1.1\r\nHost: x\r\nConnection: close\r\n" + ct + "\r\n"},
		{"post-nolength-10", "POST /dns-query HTTP/1.0\r\n" + ct + "\r\n" + string(q)},
		{"post-zero", "POST /dns-query HTTP/1.1\r\nHost: x\r\n" + ct + "Content-Length: 0\r\n\r\n"},
		{"post-ok", fmt.Sprintf("POST /dns-query HTTP/1.1\r\nHost: x\r\n%sContent-Length: %d\r\n\r\n%s", ct, len(q), q)},
		{"post-short", fmt.Sprintf("POST /dns-query HTTP/1.1\r\nHost: x\r\n%sContent-Length: %d\r\n\r\n%s", ct, len(q)+40, q)},
		{"post-long", fmt.Sprintf("POST /dns-query HTTP/1.1\r\nHost: x\r\n%sContent-Length: %d\r\n\r\n%s", ct, 3, q)},
		{"post-huge-length", "POST /dns-query HTTP/1.1\r\nHost: x\r\n" + ct + "Content-Length: 4611686018427387904\r\n\r\nabc"},
		{"post-neg-length", "POST /dns-query HTTP/1.1\r\nHost: x\r\n" + ct + "Content-Length: -5\r\n\r\nabc"},
		{"post-two-lengths", "POST /dns-query HTTP/1.1\r\nHost: x\r\n" + ct + "Content-Length: 3\r\nContent-Length: 7\r\n\r\nabcdefg"},
		{"post-chunked-ok", fmt.Sprintf("POST /dns-query HTTP/1.1\r\nHost: x\r\n%sTransfer-Encoding: chunked\r\n\r\n%x\r\n%s\r\n0\r\n\r\n", ct, len(q), q)},
		{"post-chunked-empty", "POST /dns-query HTTP/1.1\r\nHost: x\r\n" + ct + "Transfer-Encoding: chunked\r\n\r\n0\r\n\r\n"},
		{"post-chunked-bad", "POST /dns-query HTTP/1.1\r\nHost: x\r\n" + ct + "Transfer-Encoding: chunked\r\n\r\nzz\r\nabc\r\n"},
		{"post-chunked-huge", "POST /dns-query HTTP/1.1\r\nHost: x\r\n" + ct + "Transfer-Encoding: chunked\r\n\r\nffffffffffffffff\r\nabc"},
		{"post-chunked-cut", fmt.Sprintf("POST /dns-query HTTP/1.1\r\nHost: x\r\n%sTransfer-Encoding: chunked\r\n\r\n%x\r\n%s", ct, len(q)+9, q)},
		{"post-te-identity", "POST /dns-query HTTP/1.1\r\nHost: x\r\n" + ct + "Transfer-Encoding: identity\r\n\r\nabc"},
		{"post-noct", fmt.Sprintf("POST /dns-query HTTP/1.1\r\nHost: x\r\nContent-Length: %d\r\n\r\n%s", len(q), q)},
		{"post-expect", fmt.Sprintf("POST /dns-query HTTP/1.1\r\nHost: x\r\n%sExpect: 100-continue\r\nContent-Length: %d\r\n\r\n", ct, len(q))},
		{"get-ok", "GET /dns-query?dns=" + b64 + " HTTP/1.1\r\nHost: x\r\nAccept: application/dns-message\r\n\r\n"},
		{"get-noparam", "GET /dns-query HTTP/1.1\r\nHost: x\r\n\r\n"},
		{"get-emptyparam", "GET /dns-query?dns= HTTP/1.1\r\nHost: x\r\n\r\n"},
		{"get-badb64", "GET /dns-query?dns=!!!!**** HTTP/1.1\r\nHost: x\r\n\r\n"},
		{"get-padded", "GET /dns-query?dns=" + b64 + "== HTTP/1.1\r\nHost: x\r\n\r\n"},
		{"get-twice", "GET /dns-query?dns=" + b64 + "&dns=AAAA HTTP/1.1\r\nHost: x\r\n\r\n"},
		{"get-body", "GET /dns-query?dns=" + b64 + " HTTP/1.1\r\nHost: x\r\nContent-Length: 5\r\n\r\nhello"},
		{"get-longparam", "GET /dns-query?dns=" + strings.Repeat("A", 90000) + " HTTP/1.1\r\nHost: x\r\n\r\n"},
		{"get-otherpath", "GET /other?dns=" + b64 + " HTTP/1.1\r\nHost: x\r\n\r\n"},
		{"get-nohost", "GET /dns-query?dns=" + b64 + " HTTP/1.1\r\n\r\n"},
		{"get-http09", "GET /dns-query?dns=" + b64 + "\r\n\r\n"},
		{"get-absurl", "GET http://x/dns-query?dns=" + b64 + " HTTP/1.1\r\nHost: x\r\n\r\n"},
		{"get-star", "GET * HTTP/1.1\r\nHost: x\r\n\r\n"},
		{"head", "HEAD /dns-query?dns=" + b64 + " HTTP/1.1\r\nHost: x\r\n\r\n"},
		{"put", "PUT /dns-query HTTP/1.1\r\nHost: x\r\n" + ct + "Content-Length: 3\r\n\r\nabc"},
		{"options", "OPTIONS * HTTP/1.1\r\nHost: x\r\n\r\n"},
		{"connect", "CONNECT x:443 HTTP/1.1\r\nHost: x\r\n\r\n"},
		{"delete-nolength", "DELETE /dns-query HTTP/1.1\r\nHost: x\r\n" + ct + "\r\n"},
		{"h2-preface", "PRI * HTTP/2.0\r\n\r\nSM\r\n\r\n"},
		{"upgrade-h2c", "GET /dns-query?dns=" + b64 + " HTTP/1.1\r\nHost: x\r\nConnection: Upgrade, HTTP2-Settings\r\nUpgrade: h2c\r\nHTTP2-Settings: AAMAAABkAARAAAAAAAIAAAAA\r\n\r\n"},
		{"cut-head", "POST /dns-query HTTP/1.1\r\nHost: x\r\nContent-Ty"},
		{"empty-line-only", "\r\n\r\n"},
		{"nul-bytes", "\x00\x00\x00\x00\x00\x00\x00\x00\x00\x00\x00\x00"},
		{"long-header", "GET /dns-query?dns=" + b64 + " HTTP/1.1\r\nHost: x\r\nX-A: " + strings.Repeat("a", 70000) + "\r\n\r\n"},
		{"many-headers", "GET /dns-query?dns=" + b64 + " HTTP/1.1\r\nHost: x\r\n" + strings.Repeat("X-A: b\r\n", 3000) + "\r\n"},
		{"bad-header-line", "GET /dns-query?dns=" + b64 + " HTTP/1.1\r\nHost: x\r\nno colon here\r\n\r\n"},
		{"xff-garbage", "GET /dns-query?dns=" + b64 + " HTTP/1.1\r\nHost: x\r\nX-Forwarded-For: not-an-address, 999.1.1.1\r\n\r\n"},
		{"pipelined-two", "GET /dns-query?dns=" + b64 + " HTTP/1.1\r\nHost: x\r\n\r\nPOST /dns-query HTTP/1.1\r\nHost: x\r\n" + ct + "\r\n"},
		{"tls-hello-on-plain", "\x16\x03\x01\x00\x05\x01\x00\x00\x01\x00"},
	}
	kinds := []string{"http", "fasthttp", "https"}
	for _, k := range kinds {
		for _, f := range fixed {
			emit(fmt.Sprintf("kind=%s bytes=%s", k, hexs([]byte(f.req))), k+"-"+f.cat)
		}
	}
	// mutated requests: a valid request with bytes cut, flipped, or a header line dropped/duplicated
	n := 30
	if thorough {
		n = 600
	}
	bases := []string{fixed[4].req, fixed[10].req, fixed[18].req}
	for i := 0; i < n; i++ {
		k := kinds[r.Intn(len(kinds))]
		b := []byte(bases[r.Intn(len(bases))])
		switch r.Intn(4) {
		case 0:
			b = b[:r.Intn(len(b))]
		case 1:
			for j := 0; j < 1+r.Intn(3); j++ {
				b[r.Intn(len(b))] = byte(r.Intn(256))
			}
		case 2:
			lines := strings.Split(string(b), "\r\n")
			j := r.Intn(len(lines))
			lines = append(lines[:j], lines[j+1:]...)
			b = []byte(strings.Join(lines, "\r\n"))
		default:
			p := r.Intn(len(b))
			ins := make([]byte, r.Intn(6))
			r.Read(ins)
			b = append(append(append([]byte{}, b[:p]...), ins...), b[p:]...)
		}
		emit(fmt.Sprintf("kind=%s bytes=%s", k, hexs(b)), k+"-mutated")
	}
}

func init() {
	register("rawhttp", &component{gen: genRawHTTP, run: runRawHTTP, setup: listenersSetup, teardown: listenersTeardown})
}
