package main

// C05: the real transport.NewPipelineTransport (IsTCP true and false) over in-memory scripted
// connections handed out through PipelineOpts.DialContext. The harness serialises the events:
// every op waits (with a timeout) for its observable effect before the next one is issued, so
// goroutine scheduling stays out of the comparison with the Lean model (Model/Pipeline.lean).
//
// case : tcp=<0|1> mc=<MaxConcurrentQuery> pre=<n> ops=<op>,<op>,...
//   s<E>:<cid>             start exchange E (caller ID cid); wait until the server has read its query
//   b<E>:<cid>+<E>:<cid>.. start several exchanges at once; wait until the server has read all queries
//   h<E>:<cid>+<E>:<cid>.. all get a connection from the pool first, then exchange one by one (hook; else = b)
//   r<E>:<p>               reply to E's current (connection, wire id) with payload nonce p
//   u<c>:<id>:<p>          reply with wire id `id`, payload nonce p on connection c (unsolicited/dup/late)
//   c<E>                   cancel E's context
//   x<c>                   the server closes connection c (stalled writes on it fail, the others complete)
//   t<c>                   the idle timeout (read deadline) of connection c expires while its read loop waits
//   F<c>:<id>:<p>:<iid>:<ip>.. one frame: reply (id, p) whose rdata embeds well-formed framed replies (iid, ip)
//   A<c>:...  / Z<c>       the same frame in two parts: up to the embedded replies / the rest (tcp)
//   g / o                  the server stops / resumes reading: writes stall inside the fake connection (on tcp the
//                          write lock stays taken: later exchanges are registered and wait for it) / complete
//   f<k>                   the stalled writes fail (k=1 on udp: EMSGSIZE, the connection stays open)
//   pre=<n>: n sequential exchanges (query, correct reply, return) before the ops, summarised.
// out  : pre=<n>:<maxid+1>:<uniq>+...;<wrong messages>;<errors> log=<group>|<group>|...  (one group per op)
//   q<E>:<c>:<id>  i<c>:<id>:<p>|i-  m<E>:<ID>:<p>  e<E>:cancel|err  x<c>|x-  t<E>
//   a<c> part of a frame written   n<c> the client kept connection c after a read timeout (harness only)
//   w<E>:<c>:<id> E's write (wire id id) is stalled   b<E> E is registered and waits for the tcp write lock
//   plus a last group: k<c> for every exhausted connection the client closed (end of life)

import (
	"context"
	"encoding/binary"
	"errors"
	"fmt"
	"io"
	"math/rand"
	"net"
	"os"
	"runtime"
	"sort"
	"strings"
	"sync"
	"sync/atomic"
	"syscall"
	"time"

	"github.com/IrineSistiana/mosproxy/internal/dnsmsg"
	"github.com/IrineSistiana/mosproxy/internal/upstream/transport"
)

type c05addr struct{}

func (c05addr) Network() string { return "mem" }
func (c05addr) String() string  { return "mem" }

type c05res struct {
	ok     bool
	id     int
	nonce  int
	cancel bool
	mut    bool
}

type c05query struct {
	e, c, id int
	intact   bool
}

type c05ex struct {
	e      int
	cid    int
	q      []byte
	cancel context.CancelFunc
	res    *c05res
	nq     int    // queries of this exchange seen by the server
	last   [2]int // (conn, wire id) of the last one (also of a stalled write)
	// stalled writes
	startOp    int      // index of the op that started the exchange
	regOp      int      // index of the op during which it was seen registered (stalled write / lock waiter)
	held       *c05held // its write is stalled inside the fake connection
	nheld      int      // stalled writes so far
	inWriteTCP bool     // it was seen selecting on the tcp write lock
	blocked    bool     // ... and is taken to be waiting for that lock
}

// a write held back by the fake connection ("the server is not reading")
type c05held struct {
	e, c, id int
	state    int // 0 pending, 1 complete it, 2 fail it
	err      error
}

type c05inj struct{ c, id, op int }

type c05part struct {
	id, p int
	rest  []byte
}

type c05world struct {
	mu    sync.Mutex
	cond  *sync.Cond
	tcp   bool
	conns []*c05conn
	exs   map[int]*c05ex
	newQ  []c05query // not yet reported
	newW  []c05query // stalled writes not yet reported
	newB  []int      // lock waiters not yet reported
	// the server is not reading: writes stall
	gated  bool
	gatedA atomic.Bool
	inj    []c05inj // replies sent so far
	opIdx  int
	// prefix phase
	auto    bool
	autoBad int
	// bookkeeping of what was reported
	repRes   map[int]bool
	timeouts int
}

type c05conn struct {
	w         *c05world
	idx       int
	in        [][]byte
	rest      []byte
	reading   bool
	srvClosed bool
	cliClosed bool
	wbuf      []byte
	held      []*c05held
	wbroken   bool // writes fail from now on
	// a frame of which only a prefix was written so far (tcp)
	part *c05part
	// virtual read deadline: the harness lets the idle timeout expire
	dlFire    bool // the blocked Read returns os.ErrDeadlineExceeded
	dlSeen    bool // ... it did
	readAgain bool // the client called Read again after that (instead of closing the connection)
	// prefix statistics
	nq    int
	maxid int
	seen  []bool
	uniq  bool
}

var c05cur atomic.Pointer[c05world]
var c05tickOnce sync.Once
var c05timeouts atomic.Int64

func c05tick() {
	c05tickOnce.Do(func() {
		go func() {
			for {
				time.Sleep(10 * time.Millisecond)
				if w := c05cur.Load(); w != nil {
					w.mu.Lock()
					w.cond.Broadcast()
					w.mu.Unlock()
				}
			}
		}()
	})
}

func (w *c05world) dial(ctx context.Context) (net.Conn, error) {
	w.mu.Lock()
	defer w.mu.Unlock()
	c := &c05conn{w: w, idx: len(w.conns), maxid: -1, uniq: true}
	w.conns = append(w.conns, c)
	w.cond.Broadcast()
	return c, nil
}

// wait blocks (w.mu held) until pred() or the timeout.
func (w *c05world) wait(pred func() bool) bool {
	d := 10 * time.Second // generous: the machine may be heavily loaded; the unchanged code never gets here
	if c05timeouts.Load() >= 3 {
		d = 25 * time.Millisecond // something is badly wrong already: do not crawl
	}
	if w.timeouts > 0 {
		d = time.Millisecond
	}
	deadline := time.Now().Add(d)
	for !pred() {
		if time.Now().After(deadline) {
			c05timeouts.Add(1)
			w.timeouts++
			return false
		}
		w.cond.Wait()
	}
	return true
}

func (c *c05conn) Read(b []byte) (int, error) {
	w := c.w
	w.mu.Lock()
	defer w.mu.Unlock()
	if c.dlSeen && !c.readAgain {
		c.readAgain = true
		w.cond.Broadcast()
	}
	for {
		if c.cliClosed {
			return 0, net.ErrClosed
		}
		if len(c.rest) == 0 && len(c.in) > 0 {
			c.rest = c.in[0]
			c.in = c.in[1:]
		}
		if len(c.rest) > 0 {
			n := copy(b, c.rest)
			if w.tcp {
				c.rest = c.rest[n:]
			} else {
				c.rest = nil // a datagram is delivered at most once
			}
			return n, nil
		}
		if c.srvClosed {
			return 0, io.EOF
		}
		if c.dlFire {
			// the idle timeout (the read deadline the client armed) expires
			c.dlFire = false
			c.dlSeen = true
			w.cond.Broadcast()
			return 0, os.ErrDeadlineExceeded
		}
		c.reading = true
		w.cond.Broadcast()
		w.cond.Wait()
		c.reading = false
	}
}

// one whole query message (without the TCP length prefix) arrived at the server
func (c *c05conn) gotQuery(m []byte) {
	w := c.w
	if len(m) < 12 {
		return
	}
	id := int(binary.BigEndian.Uint16(m))
	e := c05exOfQuery(m)
	c.nq++
	if id > c.maxid {
		c.maxid = id
	}
	if c.seen == nil {
		c.seen = make([]bool, 65536)
	}
	if c.seen[id] {
		c.uniq = false
	}
	c.seen[id] = true
	if w.auto {
		// prefix phase: answer at once, correctly
		c.in = append(c.in, c05frame(w.tcp, c05reply(id, c05preNonce(e), m)))
		w.cond.Broadcast()
		return
	}
	x := w.exs[e]
	intact := x != nil && string(x.q[2:]) == string(m[2:])
	if x != nil {
		x.nq++
		x.last = [2]int{c.idx, id}
		x.blocked = false
	}
	w.newQ = append(w.newQ, c05query{e, c.idx, id, intact})
	w.cond.Broadcast()
}

func (c *c05conn) Write(b []byte) (int, error) {
	w := c.w
	w.mu.Lock()
	defer w.mu.Unlock()
	if c.cliClosed || c.srvClosed || c.wbroken {
		return 0, net.ErrClosed
	}
	if w.gated && !w.auto {
		// the server is not reading: the write stalls (its bytes, hence the wire id, are known)
		msg := append([]byte(nil), b...)
		if w.tcp {
			if len(msg) < 2 || int(binary.BigEndian.Uint16(msg))+2 != len(msg) {
				return 0, io.ErrShortWrite // the transport writes whole frames
			}
			msg = msg[2:]
		}
		if len(msg) < 12 {
			return 0, io.ErrShortWrite
		}
		hw := &c05held{e: c05exOfQuery(msg), c: c.idx, id: int(binary.BigEndian.Uint16(msg))}
		c.held = append(c.held, hw)
		x := w.exs[hw.e]
		if x != nil {
			x.held = hw
			x.regOp = w.opIdx
			x.nheld++
			x.last = [2]int{c.idx, hw.id}
			x.blocked = false
		}
		w.newW = append(w.newW, c05query{hw.e, c.idx, hw.id, x != nil && string(x.q[2:]) == string(msg[2:])})
		w.cond.Broadcast()
		for hw.state == 0 {
			w.cond.Wait()
		}
		for i, h := range c.held {
			if h == hw {
				c.held = append(c.held[:i], c.held[i+1:]...)
				break
			}
		}
		if x != nil {
			x.held = nil
		}
		if hw.state == 2 {
			w.cond.Broadcast()
			return 0, hw.err
		}
		c.gotQuery(msg)
		return len(b), nil
	}
	if !w.tcp {
		c.gotQuery(append([]byte(nil), b...))
		return len(b), nil
	}
	c.wbuf = append(c.wbuf, b...)
	for len(c.wbuf) >= 2 {
		l := int(binary.BigEndian.Uint16(c.wbuf))
		if len(c.wbuf) < 2+l {
			break
		}
		c.gotQuery(append([]byte(nil), c.wbuf[2:2+l]...))
		c.wbuf = c.wbuf[2+l:]
	}
	return len(b), nil
}

func (c *c05conn) Close() error {
	w := c.w
	w.mu.Lock()
	defer w.mu.Unlock()
	c.cliClosed = true
	w.cond.Broadcast()
	return nil
}
func (c *c05conn) LocalAddr() net.Addr                { return c05addr{} }
func (c *c05conn) RemoteAddr() net.Addr               { return c05addr{} }
func (c *c05conn) SetDeadline(t time.Time) error      { return nil }
func (c *c05conn) SetReadDeadline(t time.Time) error  { return nil }
func (c *c05conn) SetWriteDeadline(t time.Time) error { return nil }

func c05preNonce(e int) int { return (e*2654435761 + 12345) & 0x7fffffff }

// query of exchange e: header (ID, RD, one question) + question "e<E>." A IN
func c05query_(e, cid int) []byte {
	name := fmt.Sprintf("e%d", e)
	b := make([]byte, 12, 12+len(name)+6)
	binary.BigEndian.PutUint16(b, uint16(cid))
	b[2] = 1 // RD
	b[5] = 1 // QDCOUNT
	b = append(b, byte(len(name)))
	b = append(b, name...)
	b = append(b, 0, 0, 1, 0, 1)
	return b
}

func c05exOfQuery(m []byte) int {
	if len(m) < 14 {
		return -1
	}
	l := int(m[12])
	if l < 2 || len(m) < 13+l || m[13] != 'e' {
		return -1
	}
	n := 0
	for _, ch := range m[14 : 13+l] {
		if ch < '0' || ch > '9' {
			return -1
		}
		n = n*10 + int(ch-'0')
	}
	return n
}

// reply carrying wire id `id`; the nonce travels in the TTL of the single A record.
// q (optional) supplies the question section.
func c05reply(id, nonce int, q []byte) []byte {
	var question []byte
	if len(q) > 12 {
		question = q[12:]
	} else {
		question = []byte{1, 'u', 0, 0, 1, 0, 1}
	}
	b := make([]byte, 12, 12+len(question)+16)
	binary.BigEndian.PutUint16(b, uint16(id))
	b[2], b[3] = 0x81, 0x80
	b[5] = 1
	b[7] = 1
	b = append(b, question...)
	b = append(b, 0xc0, 12, 0, 1, 0, 1)
	b = binary.BigEndian.AppendUint32(b, uint32(nonce))
	b = append(b, 0, 4, 10, 0, 0, 1)
	return b
}

// c05big: a reply (wire id, nonce) with a second answer, a TXT record whose single string consists of
// well-formed length-prefixed replies (inner: pairs of wire id, nonce). Returns the message and the
// offset at which the string's data starts.
func c05big(id, nonce int, inner [][2]int) ([]byte, int) {
	b := c05reply(id, nonce, nil)
	b[7] = 2 // ANCOUNT
	var data []byte
	for _, in := range inner {
		data = append(data, c05frame(true, c05reply(in[0], in[1], nil))...)
	}
	b = append(b, 0xc0, 12, 0, 16, 0, 1, 0, 0, 0, 0)
	b = binary.BigEndian.AppendUint16(b, uint16(1+len(data)))
	b = append(b, byte(len(data)))
	off := len(b)
	b = append(b, data...)
	return b, off
}

func c05frame(tcp bool, m []byte) []byte {
	if !tcp {
		return m
	}
	o := make([]byte, 2+len(m))
	binary.BigEndian.PutUint16(o, uint16(len(m)))
	copy(o[2:], m)
	return o
}

func c05classify(r *dnsmsg.Msg, err error, q []byte, cid int) *c05res {
	res := &c05res{}
	if int(binary.BigEndian.Uint16(q)) != cid {
		res.mut = true
	}
	if err != nil || r == nil {
		res.cancel = errors.Is(err, context.Canceled)
		return res
	}
	res.ok = true
	res.id = int(r.Header.ID)
	res.nonce = -1
	if len(r.Answers) >= 1 {
		res.nonce = int(r.Answers[0].Hdr().TTL)
	}
	return res
}

// c05gate releases the starters of a burst at the same instant: each spins on its own P
// until all have arrived (a sleeping goroutine would be woken one after the other).
type c05gate struct {
	n       int32
	arrived atomic.Int32
	open    atomic.Bool
}

func (g *c05gate) pass() {
	g.arrived.Add(1)
	for i := 0; !g.open.Load(); i++ {
		if i > 1<<12 {
			runtime.Gosched() // do not burn a processor for long (other checks may be running)
		}
	}
}

// optional hook of /repo (build tag verif, see /verif/patches-for-main/C05-transport-hook.diff):
// ExchangeContext split in "get a connection from the pool" and "exchange on it, release".
type c05hook interface {
	VerifGetConn(ctx context.Context) (func(ctx context.Context, m []byte) (*dnsmsg.Msg, error), error)
}

type c05exFn func(ctx context.Context, m []byte) (*dnsmsg.Msg, error)

func (w *c05world) startEx(tr *transport.PipelineTransport, e, cid int, gate *c05gate) {
	w.startExFn(tr.ExchangeContext, e, cid, gate)
}

// c05ctx is the caller's context. While writes stall it notes when the exchange evaluates
// ctx.Done() inside writeTCP, i.e. in the select on the tcp write lock: by then addQueueC is done.
type c05ctx struct {
	context.Context
	w *c05world
	x *c05ex
}

func (c *c05ctx) Done() <-chan struct{} {
	if c.w.gatedA.Load() && c05inWriteTCP() {
		c.w.mu.Lock()
		c.x.inWriteTCP = true
		c.w.cond.Broadcast()
		c.w.mu.Unlock()
	}
	return c.Context.Done()
}

func c05inWriteTCP() bool {
	var pcs [24]uintptr
	n := runtime.Callers(2, pcs[:])
	fr := runtime.CallersFrames(pcs[:n])
	for {
		f, more := fr.Next()
		if strings.HasSuffix(f.Function, "(*pipelineConn).writeTCP") {
			return true
		}
		if !more {
			return false
		}
	}
}

// the connection that has a stalled write (-1: none)
func (w *c05world) heldConn() int {
	for _, c := range w.conns {
		if len(c.held) > 0 && !c.srvClosed && !c.cliClosed {
			return c.idx
		}
	}
	return -1
}

// started: the start of x has had its observable effect
func (w *c05world) started(x *c05ex, nq, nheld int) bool {
	if x.nq > nq || x.res != nil || x.nheld > nheld {
		return true
	}
	// tcp, behind a stalled write: the exchange is registered and waits for the write lock
	return w.gated && w.tcp && x.inWriteTCP && x.held == nil && w.heldConn() >= 0
}

// after started(): classify a lock waiter (w.mu held)
func (w *c05world) noteBlocked(x *c05ex, nq, nheld int) {
	if w.gated && w.tcp && x.inWriteTCP && x.nq == nq && x.res == nil && x.nheld == nheld {
		x.blocked = true
		x.regOp = w.opIdx
		x.last = [2]int{w.heldConn(), -1}
		w.newB = append(w.newB, x.e)
	}
}

func (w *c05world) startExFn(fn c05exFn, e, cid int, gate *c05gate) {
	cctx, cancel := context.WithCancel(context.Background())
	x := &c05ex{e: e, cid: cid, q: c05query_(e, cid), cancel: cancel, last: [2]int{-1, -1}, startOp: w.opIdx}
	ctx := &c05ctx{Context: cctx, w: w, x: x}
	w.exs[e] = x
	qb := append([]byte(nil), x.q...)
	go func() {
		if gate != nil {
			gate.pass() // a burst: all starters are released together
		}
		r, err := fn(ctx, qb)
		res := c05classify(r, err, qb, cid)
		if string(qb[2:]) != string(x.q[2:]) {
			res.mut = true
		}
		w.mu.Lock()
		x.res = res
		w.cond.Broadcast()
		w.mu.Unlock()
	}()
}

// collect everything that became observable and was not reported yet (w.mu held)
func (w *c05world) collect() []string {
	var toks []string
	var es []int
	for e, x := range w.exs {
		if x.res != nil && !w.repRes[e] {
			es = append(es, e)
		}
	}
	sort.Ints(es)
	for _, e := range es {
		w.repRes[e] = true
		r := w.exs[e].res
		switch {
		case r.ok:
			toks = append(toks, fmt.Sprintf("m%d:%d:%d", e, r.id, r.nonce))
		case r.cancel:
			toks = append(toks, fmt.Sprintf("e%d:cancel", e))
		default:
			toks = append(toks, fmt.Sprintf("e%d:err", e))
		}
		if r.mut {
			toks = append(toks, fmt.Sprintf("z%d", e)) // the caller's query buffer was modified
		}
	}
	ws := w.newW
	w.newW = nil
	sort.SliceStable(ws, func(i, j int) bool {
		if ws[i].c != ws[j].c {
			return ws[i].c < ws[j].c
		}
		return ws[i].id < ws[j].id
	})
	for _, q := range ws {
		toks = append(toks, fmt.Sprintf("w%d:%d:%d", q.e, q.c, q.id))
		if !q.intact {
			toks = append(toks, fmt.Sprintf("y%d", q.e))
		}
	}
	sort.Ints(w.newB)
	for _, e := range w.newB {
		toks = append(toks, fmt.Sprintf("b%d", e))
	}
	w.newB = nil
	qs := w.newQ
	w.newQ = nil
	sort.SliceStable(qs, func(i, j int) bool {
		if qs[i].c != qs[j].c {
			return qs[i].c < qs[j].c
		}
		return qs[i].id < qs[j].id
	})
	for _, q := range qs {
		toks = append(toks, fmt.Sprintf("q%d:%d:%d", q.e, q.c, q.id))
		if !q.intact {
			toks = append(toks, fmt.Sprintf("y%d", q.e)) // the query differs from the caller's beyond the ID
		}
	}
	return toks
}

func (w *c05world) open(e int) bool {
	x := w.exs[e]
	return x != nil && x.res == nil
}

// inject a reply on connection c; returns the tokens of the group (w.mu held)
func (w *c05world) inject(ci, id, p int, q []byte) []string {
	// (whether the client has closed the connection meanwhile is deliberately not consulted: it closes
	// connections asynchronously, and a connection it closes has no exchange left that could be affected)
	if ci < 0 || ci >= len(w.conns) || w.conns[ci].srvClosed || w.conns[ci].part != nil {
		return []string{"i-"} // (a server does not interleave frames)
	}
	return w.injectBytes(ci, id, p, c05frame(w.tcp, c05reply(id, p, q)), true)
}

// quiesce: the read loop of c is back in Read with nothing left to consume (w.mu held)
func (w *c05world) quiesce(c *c05conn) bool {
	return w.wait(func() bool { return c.cliClosed || (len(c.in) == 0 && len(c.rest) == 0 && c.reading) })
}

// injectBytes hands bytes to the client on connection ci; whole: they complete the reply (id, p)
func (w *c05world) injectBytes(ci, id, p int, bytes []byte, whole bool) []string {
	c := w.conns[ci]
	var toks []string
	if whole {
		toks = []string{fmt.Sprintf("i%d:%d:%d", ci, id, p)}
	}
	// which open exchange is expected to complete?
	expect := -1
	for e, x := range w.exs {
		// (an exchange whose write is stalled, or that waits for the write lock, is not in its select)
		if x.res == nil && x.held == nil && !x.blocked && x.nq > 0 && x.last == [2]int{ci, id} {
			expect = e
		}
	}
	if !whole {
		expect = -1
	} else {
		w.inj = append(w.inj, c05inj{ci, id, w.opIdx})
	}
	c.in = append(c.in, bytes)
	w.cond.Broadcast()
	// barrier: the read loop is back in Read with nothing left to consume
	if !w.quiesce(c) {
		toks = append(toks, fmt.Sprintf("t%d", 1000000+ci))
	}
	if expect >= 0 {
		if !w.wait(func() bool { return w.exs[expect].res != nil }) {
			toks = append(toks, fmt.Sprintf("t%d", expect))
		}
	}
	return toks
}

func (w *c05world) setGate(v bool) {
	w.gated = v
	w.gatedA.Store(v)
}

// a reply was sent for x's (connection, wire id) after x was seen registered and before x reached
// its select: it sits in x's channel
func (w *c05world) buffered(x *c05ex) bool {
	for _, i := range w.inj {
		if i.c == x.last[0] && i.id == x.last[1] && i.op > x.regOp {
			return true
		}
	}
	return false
}

// release every stalled write: st=1 complete, st=2 fail with err (w.mu held)
func (w *c05world) releaseHeld(only int, st int, err error) {
	for _, c := range w.conns {
		if only >= 0 && c.idx != only {
			continue
		}
		for _, h := range c.held {
			if h.state == 0 {
				h.state, h.err = st, err
			}
		}
	}
	w.cond.Broadcast()
}

// the server reads again (w.mu held)
func (w *c05world) openGate() []string {
	var toks []string
	type pend struct {
		x  *c05ex
		nq int
	}
	var ps []pend
	for _, x := range w.exs {
		if x.res == nil && (x.held != nil || x.blocked) {
			ps = append(ps, pend{x, x.nq})
		}
	}
	sort.Slice(ps, func(i, j int) bool { return ps[i].x.e < ps[j].x.e })
	w.setGate(false)
	w.releaseHeld(-1, 1, nil)
	for _, p := range ps {
		p := p
		if !w.wait(func() bool { return p.x.nq > p.nq || p.x.res != nil }) {
			toks = append(toks, fmt.Sprintf("t%d", p.x.e))
		}
	}
	// whoever had a reply waiting in its channel returns at once
	for _, p := range ps {
		p := p
		if p.x.res == nil && w.buffered(p.x) {
			if !w.wait(func() bool { return p.x.res != nil }) {
				toks = append(toks, fmt.Sprintf("t%d", p.x.e))
			}
		}
	}
	return toks
}

// connection ci dies: the server closes it (viaWrite: a stalled write on it fails first) (w.mu held)
func (w *c05world) killConn(ci int, viaWrite bool) []string { return w.killConnMode(ci, viaWrite, false) }

// viaDeadline: nothing is closed by the server; the idle timeout of the client's blocked Read expires and
// the client is expected to close the connection itself
func (w *c05world) killConnMode(ci int, viaWrite, viaDeadline bool) []string {
	c := w.conns[ci]
	toks := []string{fmt.Sprintf("x%d", ci)}
	type vic struct {
		x  *c05ex
		nq int
	}
	var vs []vic
	for _, x := range w.exs {
		if x.res == nil && x.last[0] == ci {
			vs = append(vs, vic{x, x.nq})
		}
	}
	sort.Slice(vs, func(i, j int) bool { return vs[i].x.e < vs[j].x.e })
	if viaDeadline {
		c.dlFire, c.dlSeen, c.readAgain = true, false, false
		w.cond.Broadcast()
		if !w.wait(func() bool { return c.cliClosed || c.readAgain }) {
			return append(toks, fmt.Sprintf("t%d", 2000000+ci))
		}
		if !c.cliClosed {
			// the client went on reading after the read error: it kept the connection
			return []string{fmt.Sprintf("n%d", ci)}
		}
	}
	c.part = nil
	c.wbroken = true
	nheld := len(c.held)
	w.releaseHeld(ci, 2, io.ErrClosedPipe)
	if !viaWrite || nheld == 0 {
		c.srvClosed = true
	}
	w.cond.Broadcast()
	// the client notices (read or write error -> closeWithErr -> Close) before anything else happens
	if !w.wait(func() bool { return c.cliClosed }) {
		toks = append(toks, fmt.Sprintf("t%d", 2000000+ci))
	}
	c.srvClosed = true
	w.cond.Broadcast()
	for _, v := range vs {
		v := v
		if !w.wait(func() bool { return v.x.res != nil || v.x.nq > v.nq }) {
			toks = append(toks, fmt.Sprintf("t%d", v.x.e))
		}
	}
	return toks
}

func c05parseNats(s string) []int {
	var o []int
	for _, p := range strings.Split(s, ":") {
		o = append(o, atoi(p))
	}
	return o
}

// c05run runs a script; a run in which an expected effect did not show up in time is
// repeated once (real-time slack), unless timeouts are the rule in this process already.
func c05run(cs string) string {
	out := c05runOnce(cs)
	if c05timeouts.Load() < 3 && (strings.Contains(out, "T") || strings.Contains(out, ",t") || strings.Contains(out, "|t")) {
		out = c05runOnce(cs)
	}
	return out
}

func c05runOnce(cs string) string {
	m := kv(cs)
	tcp := m["tcp"] == "1"
	mc := atoi(m["mc"])
	pre := atoi(m["pre"])
	w := &c05world{tcp: tcp, exs: map[int]*c05ex{}, repRes: map[int]bool{}}
	w.cond = sync.NewCond(&w.mu)
	c05tick()
	c05cur.Store(w)
	tr := transport.NewPipelineTransport(transport.PipelineOpts{
		DialContext:        w.dial,
		IsTCP:              tcp,
		IdleTimeout:        time.Hour,
		MaxConcurrentQuery: mc,
	})
	defer func() {
		w.mu.Lock()
		w.setGate(false)
		for _, c := range w.conns {
			c.wbroken = true
		}
		w.releaseHeld(-1, 2, io.ErrClosedPipe)
		for _, x := range w.exs {
			x.cancel()
		}
		w.mu.Unlock()
		tr.Close()
		w.mu.Lock()
		w.wait(func() bool {
			for _, x := range w.exs {
				if x.res == nil {
					return false
				}
			}
			return true
		})
		w.mu.Unlock()
		c05cur.CompareAndSwap(w, nil)
	}()

	// ---- prefix: pre sequential exchanges answered at once by the server
	bad, nerr := 0, 0
	if pre > 0 {
		w.mu.Lock()
		w.auto = true
		w.mu.Unlock()
		for i := 0; i < pre; i++ {
			e := 1000000 + i
			cid := (i*31 + 7) & 0xffff
			qb := c05query_(e, cid)
			ctx, cancel := context.WithTimeout(context.Background(), 2*time.Second)
			r, err := tr.ExchangeContext(ctx, qb)
			cancel()
			if err != nil || r == nil {
				nerr++ // no message: not a wrong message
			} else if int(r.Header.ID) != cid || len(r.Answers) != 1 ||
				int(r.Answers[0].Hdr().TTL) != c05preNonce(e) || int(binary.BigEndian.Uint16(qb)) != cid {
				bad++
			}
			if bad+nerr > 8 {
				break
			}
			if r != nil {
				dnsmsg.ReleaseMsg(r)
			}
		}
		w.mu.Lock()
		w.auto = false
		w.mu.Unlock()
	}
	w.mu.Lock()
	var ps []string
	for _, c := range w.conns {
		ps = append(ps, fmt.Sprintf("%d:%d:%s", c.nq, c.maxid+1, b2s(c.uniq)))
	}
	w.mu.Unlock()
	presum := "-"
	if len(ps) > 0 {
		presum = strings.Join(ps, "+")
	}
	presum += fmt.Sprintf(";%d;%d", bad, nerr)

	// ---- ops
	var groups []string
	for _, op := range strings.Split(m["ops"], ",") {
		if op == "" {
			continue
		}
		var toks []string
		w.mu.Lock()
		w.opIdx++
		if w.timeouts > 0 {
			// an expected effect did not show up: the rest of the script is not run
			// (but what the open exchanges got so far is collected: cancel them all and flush)
			w.setGate(false)
			for _, c := range w.conns {
				c.wbroken = true
			}
			w.releaseHeld(-1, 2, io.ErrClosedPipe)
			for _, x := range w.exs {
				x.cancel()
			}
			w.wait(func() bool {
				for _, x := range w.exs {
					if x.res == nil {
						return false
					}
				}
				return true
			})
			groups = append(groups, strings.Join(append([]string{"T"}, w.collect()...), ","))
			w.mu.Unlock()
			break
		}
		switch op[0] {
		case 'h':
			// every listed exchange is first handed a connection by the pool, only then do they
			// enter exchange() one after the other (needs the hook; else: a burst)
			hk, ok := any(tr).(c05hook)
			var parts [][]int
			for _, part := range strings.Split(op[1:], "+") {
				if a := c05parseNats(part); len(a) == 2 && w.exs[a[0]] == nil {
					parts = append(parts, a)
				}
			}
			if ok {
				fns := make([]c05exFn, len(parts))
				w.mu.Unlock()
				for i := range parts {
					f, err := hk.VerifGetConn(context.Background())
					if err != nil {
						f = func(context.Context, []byte) (*dnsmsg.Msg, error) { return nil, err }
					}
					fns[i] = f
				}
				w.mu.Lock()
				for i, a := range parts {
					w.startExFn(fns[i], a[0], a[1], nil)
					x := w.exs[a[0]]
					if !w.wait(func() bool { return w.started(x, 0, 0) }) {
						toks = append(toks, fmt.Sprintf("t%d", a[0]))
					}
					w.noteBlocked(x, 0, 0)
				}
				break
			}
			op = "b" + op[1:]
			fallthrough
		case 's', 'b':
			var es []int
			var gate *c05gate
			if op[0] == 'b' {
				gate = &c05gate{}
			}
			for _, part := range strings.Split(op[1:], "+") {
				a := c05parseNats(part)
				if len(a) != 2 || w.exs[a[0]] != nil {
					continue
				}
				es = append(es, a[0])
				w.startEx(tr, a[0], a[1], gate)
			}
			if gate != nil {
				w.mu.Unlock()
				// wait (briefly) until the starters spin at the gate, as many as there are processors
				want := int32(len(es))
				if p := int32(runtime.GOMAXPROCS(0)) - 1; want > p {
					want = p
				}
				for t0 := time.Now(); gate.arrived.Load() < want && time.Since(t0) < 2*time.Millisecond; {
					runtime.Gosched()
				}
				gate.open.Store(true)
				w.mu.Lock()
			}
			for _, e := range es {
				x := w.exs[e]
				if !w.wait(func() bool { return w.started(x, 0, 0) }) {
					toks = append(toks, fmt.Sprintf("t%d", e))
				}
				w.noteBlocked(x, 0, 0)
			}
		case 'r':
			a := c05parseNats(op[1:])
			x := w.exs[a[0]]
			if len(a) != 2 || x == nil || (x.nq == 0 && x.held == nil) || x.blocked {
				// (the server has not seen a byte of a query that waits for the write lock)
				toks = []string{"i-"}
			} else {
				toks = w.inject(x.last[0], x.last[1], a[1], x.q)
			}
		case 'u':
			a := c05parseNats(op[1:])
			if len(a) != 3 {
				toks = []string{"i-"}
			} else {
				toks = w.inject(a[0], a[1], a[2], nil)
			}
		case 'c':
			e := atoi(op[1:])
			if x := w.exs[e]; x != nil && x.res == nil && x.held == nil {
				// (cancelling an exchange that sits inside a stalled Write has no effect before the write returns)
				x.cancel()
				if !w.wait(func() bool { return x.res != nil }) {
					toks = append(toks, fmt.Sprintf("t%d", e))
				}
			}
		case 'x':
			ci := atoi(op[1:])
			if ci < 0 || ci >= len(w.conns) || w.conns[ci].srvClosed {
				toks = []string{"x-"}
			} else {
				// stalled writes on ci fail, the server reads the other connections again
				gated := w.gated
				w.setGate(false)
				toks = w.killConn(ci, false)
				if gated {
					toks = append(toks, w.openGate()...)
				}
			}
		case 't':
			// the idle timeout of connection ci expires while its read loop waits for bytes
			ci := atoi(op[1:])
			if ci < 0 || ci >= len(w.conns) || w.conns[ci].srvClosed {
				toks = []string{"x-"}
			} else {
				gated := w.gated
				w.setGate(false)
				toks = w.killConnMode(ci, false, true)
				if gated {
					toks = append(toks, w.openGate()...)
				}
			}
		case 'F', 'A':
			// F<c>:<id>:<p>[:<iid>:<ip>]...  one frame: a reply (id, p) whose rdata contains well-formed
			//   length-prefixed replies (iid, ip)
			// A...: only the part of that frame that precedes the embedded replies is written
			a := c05parseNats(op[1:])
			if len(a) < 3 || len(a)%2 == 0 || a[0] < 0 || a[0] >= len(w.conns) || w.conns[a[0]].srvClosed ||
				w.conns[a[0]].part != nil || (op[0] == 'A' && !w.tcp) {
				toks = []string{"i-"}
				break
			}
			var inner [][2]int
			for i := 3; i+1 < len(a); i += 2 {
				inner = append(inner, [2]int{a[i], a[i+1]})
			}
			msg, off := c05big(a[1], a[2], inner)
			if op[0] == 'F' {
				toks = w.injectBytes(a[0], a[1], a[2], c05frame(w.tcp, msg), true)
			} else {
				fr := c05frame(true, msg)
				w.conns[a[0]].part = &c05part{id: a[1], p: a[2], rest: fr[2+off:]}
				toks = append([]string{fmt.Sprintf("a%d", a[0])}, w.injectBytes(a[0], a[1], a[2], fr[:2+off], false)...)
			}
		case 'Z':
			// the rest of the frame begun by A
			ci := atoi(op[1:])
			if ci < 0 || ci >= len(w.conns) || w.conns[ci].srvClosed || w.conns[ci].part == nil {
				toks = []string{"i-"}
			} else {
				c := w.conns[ci]
				pt := c.part
				c.part = nil
				// (a client that resumed reading inside the frame will not see this reply: expect nothing)
				toks = w.injectBytes(ci, pt.id, pt.p, pt.rest, !c.readAgain)
				if c.readAgain {
					toks = append([]string{fmt.Sprintf("i%d:%d:%d", ci, pt.id, pt.p)}, toks...)
					w.inj = append(w.inj, c05inj{ci, pt.id, w.opIdx})
				}
			}
		case 'g':
			w.setGate(true)
		case 'o':
			if w.gated {
				toks = w.openGate()
			}
		case 'f':
			if w.gated {
				w.setGate(false)
				if !w.tcp && op == "f1" {
					// "message too long": the exchanges get the error, the connection stays
					type vic struct {
						x  *c05ex
						nq int
					}
					var vs []vic
					for _, x := range w.exs {
						if x.res == nil && x.held != nil {
							vs = append(vs, vic{x, x.nq})
						}
					}
					sort.Slice(vs, func(i, j int) bool { return vs[i].x.e < vs[j].x.e })
					w.releaseHeld(-1, 2, syscall.EMSGSIZE)
					for _, v := range vs {
						v := v
						if !w.wait(func() bool { return v.x.res != nil || v.x.nq > v.nq }) {
							toks = append(toks, fmt.Sprintf("t%d", v.x.e))
						}
					}
				} else {
					for ci := range w.conns {
						if len(w.conns[ci].held) > 0 {
							toks = append(toks, w.killConn(ci, true)...)
						}
					}
				}
			}
		}
		w.mu.Unlock()
		runtime.Gosched()
		w.mu.Lock()
		// timeouts go last
		var first, tos []string
		for _, t := range toks {
			if t[0] == 't' {
				tos = append(tos, t)
			} else {
				first = append(first, t)
			}
		}
		all := append(append(first, w.collect()...), tos...)
		w.mu.Unlock()
		if len(all) == 0 {
			groups = append(groups, "-")
		} else {
			groups = append(groups, strings.Join(all, ","))
		}
	}
	// end: a connection whose 65536 wire ids are used up and that has no exchange left is closed by the
	// client (end of life). The close itself is asynchronous: wait for it.
	w.mu.Lock()
	var end []string
	if w.timeouts == 0 {
		for _, c := range w.conns {
			if c.nq < 65536 || c.srvClosed {
				continue
			}
			busy := false
			for _, x := range w.exs {
				if x.res == nil && x.last[0] == c.idx {
					busy = true
				}
			}
			if busy {
				continue
			}
			if w.wait(func() bool { return c.cliClosed }) {
				end = append(end, fmt.Sprintf("k%d", c.idx))
			}
		}
	}
	w.mu.Unlock()
	if len(end) == 0 {
		end = []string{"-"}
	}
	groups = append(groups, strings.Join(end, ","))
	return "pre=" + presum + " log=" + strings.Join(groups, "|")
}

// ---------------------------------------------------------------------------- generator

type c05gen struct {
	r      *rand.Rand
	ops    []string
	nextE  int
	nextP  int
	open   []int       // exchanges believed to be open
	closed []int       // exchanges that returned (late replies go to them)
	lastP  map[int]int // last nonce sent to an exchange (duplicates)
	maxE   int
	conns  int // guess of the number of connections
	idHint int // guess of the wire ids in use
}

func (g *c05gen) cid() int {
	switch g.r.Intn(3) {
	case 0:
		return g.r.Intn(8) // collides with small wire ids
	case 1:
		return g.idHint + g.r.Intn(4)
	default:
		return g.r.Intn(65536)
	}
}

func (g *c05gen) start() string {
	e := g.nextE
	g.nextE++
	g.open = append(g.open, e)
	g.idHint++
	return fmt.Sprintf("%d:%d", e, g.cid()&0xffff)
}

func (g *c05gen) pickOpen(remove bool) int {
	i := g.r.Intn(len(g.open))
	e := g.open[i]
	if remove {
		g.open = append(g.open[:i], g.open[i+1:]...)
		g.closed = append(g.closed, e)
	}
	return e
}

func (g *c05gen) nonce() int {
	g.nextP++
	return g.nextP
}

func (g *c05gen) step(maxOpen int) {
	r := g.r
	k := r.Intn(100)
	switch {
	case k < 30 && len(g.open) < maxOpen && g.nextE < g.maxE:
		g.ops = append(g.ops, "s"+g.start())
	case k < 34 && len(g.open)+2 <= maxOpen && g.nextE+8 < g.maxE:
		n := 2 + r.Intn(7)
		var parts []string
		for i := 0; i < n && len(g.open) < maxOpen; i++ {
			parts = append(parts, g.start())
		}
		g.ops = append(g.ops, "b"+strings.Join(parts, "+"))
	case k < 62 && len(g.open) > 0: // in-order or out-of-order reply to an open exchange
		e := g.pickOpen(true)
		p := g.nonce()
		g.lastP[e] = p
		g.ops = append(g.ops, fmt.Sprintf("r%d:%d", e, p))
	case k < 70 && len(g.closed) > 0: // duplicate / late reply to an exchange that returned
		e := g.closed[r.Intn(len(g.closed))]
		p, ok := g.lastP[e]
		if !ok || r.Intn(2) == 0 {
			p = g.nonce() // late (after cancel) or a second, different answer
		}
		g.ops = append(g.ops, fmt.Sprintf("r%d:%d", e, p))
	case k < 82: // unsolicited: ids around the ones in use, on any connection
		c := 0
		if g.conns > 1 {
			c = r.Intn(g.conns + 1)
		} else if r.Intn(4) == 0 {
			c = r.Intn(3)
		}
		var id int
		switch r.Intn(4) {
		case 0:
			id = r.Intn(65536)
		case 1:
			id = r.Intn(8)
		default:
			id = (g.idHint - 3 + r.Intn(8) + 65536) & 0xffff
		}
		g.ops = append(g.ops, fmt.Sprintf("u%d:%d:%d", c, id, g.nonce()))
	case k < 94 && len(g.open) > 0:
		e := g.pickOpen(true)
		g.ops = append(g.ops, fmt.Sprintf("c%d", e))
	case k < 96:
		c := 0
		if g.conns > 1 || r.Intn(3) == 0 {
			c = r.Intn(g.conns + 1)
		}
		g.ops = append(g.ops, fmt.Sprintf("x%d", c))
		g.conns++
		g.idHint = len(g.open)
	default:
		if len(g.open) > 0 { // duplicate right away: reply twice to the same open exchange
			e := g.pickOpen(true)
			p := g.nonce()
			g.lastP[e] = p
			g.ops = append(g.ops, fmt.Sprintf("r%d:%d", e, p), fmt.Sprintf("r%d:%d", e, p))
		}
	}
}

func (g *c05gen) finish() string {
	// every exchange that may still be open is cancelled, with a few late replies afterwards
	all := append([]int(nil), g.open...)
	for _, e := range g.closed {
		all = append(all, e) // harmless if it returned already (victims of x may still be open)
	}
	sort.Ints(all)
	for _, e := range all {
		g.ops = append(g.ops, fmt.Sprintf("c%d", e))
	}
	for i := 0; i < 2 && len(all) > 0; i++ {
		g.ops = append(g.ops, fmt.Sprintf("r%d:%d", all[g.r.Intn(len(all))], g.nonce()))
	}
	return strings.Join(g.ops, ",")
}

func c05script(r *rand.Rand, tcp bool, mc, pre, nops, maxOpen, maxE int) string {
	g := &c05gen{r: r, lastP: map[int]int{}, maxE: maxE, conns: 1, idHint: pre & 0xffff}
	if pre >= 65536 {
		g.conns = 2
	}
	for i := 0; i < nops; i++ {
		g.step(maxOpen)
	}
	return fmt.Sprintf("tcp=%s mc=%d pre=%d ops=%s", b2s(tcp), mc, pre, g.finish())
}

// c05stall: a reply is delivered into the channel of an exchange that has not reached its select
// (its write is stalled, or - tcp - it waits for the write lock behind a stalled write) and that then
// leaves through ctx.Done(), c.ctx.Done() or a write error; fresh exchanges follow on the same and on
// another connection. One connection, started one by one: exchange number n gets wire id n.
func c05stall(r *rand.Rand, tcp bool) string {
	g := &c05gen{r: r, lastP: map[int]int{}, maxE: 1 << 30, conns: 1}
	add := func(f string, a ...any) { g.ops = append(g.ops, fmt.Sprintf(f, a...)) }
	id := map[int]int{} // wire id on connection 0
	next := 0
	start := func() int {
		e := g.nextE
		add("s%s", g.start())
		id[e] = next
		next++
		return e
	}
	// warm-up
	var warm []int
	for i := r.Intn(3); i > 0; i-- {
		warm = append(warm, start())
	}
	for _, e := range warm {
		if r.Intn(2) == 0 {
			add("r%d:%d", e, g.nonce())
		}
	}
	add("g")
	var hs []int
	for i := 1 + r.Intn(4); i > 0; i-- {
		hs = append(hs, start())
	}
	// replies for the registered exchanges (and, sometimes, for an id not handed out yet)
	for _, e := range hs {
		switch r.Intn(6) {
		case 0:
		case 1:
			add("r%d:%d", e, g.nonce()) // i- when e waits for the write lock
		case 2:
			p := g.nonce()
			add("u0:%d:%d", id[e], p)
			add("u0:%d:%d", id[e], p)
		default:
			add("u0:%d:%d", id[e], g.nonce())
		}
	}
	if r.Intn(3) == 0 {
		add("u0:%d:%d", next, g.nonce())
	}
	alive := true
	switch v := r.Intn(6); {
	case v <= 1: // (tcp) lock waiters give up, then the server reads again
		for _, e := range hs[1:] {
			if r.Intn(3) > 0 {
				add("c%d", e)
			}
		}
		if v == 0 && len(hs) > 1 {
			add("u0:%d:%d", id[hs[len(hs)-1]], g.nonce()) // late, after the cancel
		}
		add("o")
	case v == 2:
		add("x0")
		alive = false
	case v == 3:
		add("f0")
		alive = false
	case v == 4:
		add("f1")
		alive = !tcp
	default:
		add("o")
	}
	fresh := func(n int) {
		var es []int
		for i := 0; i < n; i++ {
			e := g.nextE
			add("s%s", g.start())
			es = append(es, e)
			if r.Intn(2) == 0 {
				j := r.Intn(len(es))
				add("r%d:%d", es[j], g.nonce())
				es = append(es[:j], es[j+1:]...)
			}
		}
		for _, e := range es {
			add("r%d:%d", e, g.nonce())
		}
	}
	fresh(3 + r.Intn(6))
	// the survivors of the stall get their answers, too
	for _, e := range hs {
		if r.Intn(2) == 0 {
			add("r%d:%d", e, g.nonce())
		}
	}
	if alive {
		add("x0")
	} else {
		add("x1")
	}
	fresh(2 + r.Intn(5))
	return fmt.Sprintf("tcp=%s mc=64 pre=0 ops=%s", b2s(tcp), g.finish())
}

// c05frames: big frames whose rdata embeds well-formed framed replies for other in-flight (or never
// asked) wire ids; whole, or in two parts with other events in between (the stall is shorter than the idle
// timeout: everything must still be delivered correctly), or in two parts with the idle timeout expiring
// in the middle of the frame (the client must drop the connection, never resume inside the frame).
// One connection, started one by one: exchange number n gets wire id n.
func c05frames(r *rand.Rand, tcp bool) string {
	g := &c05gen{r: r, lastP: map[int]int{}, maxE: 1 << 30, conns: 1}
	add := func(f string, a ...any) { g.ops = append(g.ops, fmt.Sprintf(f, a...)) }
	var open []int // exchanges in flight on connection 0; exchange e has wire id e
	start := func() {
		open = append(open, g.nextE)
		add("s%s", g.start())
	}
	for i := 2 + r.Intn(5); i > 0; i-- {
		start()
	}
	conn := 0
	frame := func() string {
		outer := open[r.Intn(len(open))]
		if r.Intn(5) == 0 {
			outer = g.nextE + 3 + r.Intn(4) // a reply nobody asked for
		}
		s := fmt.Sprintf("%d:%d:%d", conn, outer, g.nonce())
		for i := 1 + r.Intn(4); i > 0; i-- {
			in := open[r.Intn(len(open))]
			if r.Intn(4) == 0 {
				in = g.nextE + r.Intn(6) // never asked (yet)
			}
			s += fmt.Sprintf(":%d:%d", in, g.nonce())
		}
		return s
	}
	for round := 1 + r.Intn(3); round > 0 && conn == 0; round-- {
		switch v := r.Intn(7); {
		case v == 0:
			add("F%s", frame())
		case v <= 2 && tcp: // a stall inside the frame that is shorter than the idle timeout
			add("A%s", frame())
			for i := r.Intn(3); i > 0; i-- {
				switch r.Intn(3) {
				case 0:
					start()
				case 1:
					add("c%d", open[r.Intn(len(open))])
				default:
					add("u%d:%d:%d", conn, open[r.Intn(len(open))], g.nonce()) // refused: i-
				}
			}
			add("Z%d", conn)
		case v <= 5 && tcp: // the idle timeout expires inside the frame
			add("A%s", frame())
			if r.Intn(3) == 0 {
				start()
			}
			add("t%d", conn)
			add("Z%d", conn)
			conn = 1
		default: // the idle timeout expires between frames, exchanges in flight
			add("t%d", conn)
			conn = 1
		}
		for i := r.Intn(3); i > 0; i-- {
			add("r%d:%d", open[r.Intn(len(open))], g.nonce())
		}
	}
	// everybody gets an answer (wherever the exchange is now), then fresh exchanges
	for _, e := range open {
		if r.Intn(4) > 0 {
			add("r%d:%d", e, g.nonce())
		}
	}
	for i := 2 + r.Intn(4); i > 0; i-- {
		e := g.nextE
		add("s%s", g.start())
		add("r%d:%d", e, g.nonce())
	}
	return fmt.Sprintf("tcp=%s mc=64 pre=0 ops=%s", b2s(tcp), g.finish())
}

func c05gen_(r *rand.Rand, thorough bool, emit func(c, cat string)) {
	n := 1200
	if thorough {
		n = 12000
	}
	for i := 0; i < n; i++ {
		tcp := r.Intn(2) == 0
		cat := "udp"
		if tcp {
			cat = "tcp"
		}
		switch k := r.Intn(10); {
		case k < 6: // one connection, up to 64 exchanges in flight
			maxOpen := 1 + r.Intn(64)
			emit(c05script(r, tcp, 64, 0, 10+r.Intn(120), maxOpen, 1<<30), cat+"-single")
		case k < 9: // several connections (small MaxConcurrentQuery)
			mc := 1 + r.Intn(4)
			emit(c05script(r, tcp, mc, 0, 10+r.Intn(80), 1+r.Intn(12), 1<<30), cat+"-multi")
		default: // short
			emit(c05script(r, tcp, 64, 0, 3+r.Intn(10), 1+r.Intn(3), 1<<30), cat+"-short")
		}
	}
	// stalled writes: replies that reach an exchange's channel before the exchange reaches its select
	ns := 80
	if thorough {
		ns = 1500
	}
	for i := 0; i < ns; i++ {
		tcp := r.Intn(2) == 0
		cat := "udp"
		if tcp {
			cat = "tcp"
		}
		emit(c05stall(r, tcp), cat+"-stall")
	}
	// frames: idle timeouts, also in the middle of a frame that embeds framed replies
	nf := 80
	if thorough {
		nf = 1500
	}
	for i := 0; i < nf; i++ {
		tcp := r.Intn(4) > 0
		cat := "udp"
		if tcp {
			cat = "tcp"
		}
		emit(c05frames(r, tcp), cat+"-frames")
	}
	// wide: several hundred exchanges in flight on one connection (wire ids beyond one byte)
	nw := 4
	if thorough {
		nw = 40
	}
	for i := 0; i < nw; i++ {
		tcp := i%2 == 0
		cat := "udp"
		if tcp {
			cat = "tcp"
		}
		g := &c05gen{r: r, lastP: map[int]int{}, maxE: 1 << 30, conns: 1}
		for len(g.open) < 260+r.Intn(300) {
			if r.Intn(3) == 0 {
				g.ops = append(g.ops, "s"+g.start())
			} else {
				var parts []string
				for j := 0; j < 2+r.Intn(14); j++ {
					parts = append(parts, g.start())
				}
				g.ops = append(g.ops, "b"+strings.Join(parts, "+"))
			}
		}
		for j := 0; j < 150+r.Intn(200); j++ {
			g.step(1024)
		}
		emit(fmt.Sprintf("tcp=%s mc=4096 pre=0 ops=%s", b2s(tcp), g.finish()), cat+"-wide")
	}
	// wire id exhaustion: the last ids of a connection, end of life, redial
	nb := 6
	if thorough {
		nb = 40
	}
	for i := 0; i < nb; i++ {
		tcp := i%2 == 0
		cat := "udp"
		if tcp {
			cat = "tcp"
		}
		var pre int
		switch i % 4 {
		case 0:
			pre = 65536 - 1 - r.Intn(6) // a burst over the last ids
		case 1:
			pre = 65536 - r.Intn(12)
		case 2:
			pre = 65536 + r.Intn(5)
		default:
			pre = 65535
		}
		g := &c05gen{r: r, lastP: map[int]int{}, maxE: 1 << 30, conns: 2, idHint: pre & 0xffff}
		// open with a burst that is larger than the number of ids left
		var parts []string
		for j := 0; j < 8+r.Intn(24); j++ {
			parts = append(parts, g.start())
		}
		if i%3 == 2 {
			g.ops = append(g.ops, "b"+strings.Join(parts, "+"))
		} else {
			g.ops = append(g.ops, "h"+strings.Join(parts, "+"))
		}
		for j := 0; j < 20+r.Intn(60); j++ {
			g.step(64)
		}
		emit(fmt.Sprintf("tcp=%s mc=64 pre=%d ops=%s", b2s(tcp), pre, g.finish()), cat+"-exhaustion")
	}
}

func init() {
	register("pipeline", &component{gen: c05gen_, run: c05run})
}
