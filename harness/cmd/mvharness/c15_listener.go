package main

// C15 component `limiter_listener`: the real router (router.VerifRun) with a UDP, a TCP and an
// HTTP listener on loopback, a client limit of 1 token/s (so that nothing refills during a
// case: a case that took 0.9 s or more is repeated), a fake UDP upstream that counts the
// queries it sees, and sequential clients bound to loopback source addresses 127.x.y.z.
//
// case : glob=<int> burst=<int> v4=<int> ops=<op>,...
//        op = u:<addr>        one UDP query
//           | t:<addr>:<k>    one TCP connection carrying k queries one after the other
//           | h:<addr>:<k>    one HTTP/1.1 connection carrying k POSTs
//           | q:<addr>:<k>    one DoQ connection carrying k queries, one stream each
//           | g:<addr>:<k>    like t, on the gnet listener
//           | f:<addr>:<k>    like h, on the fasthttp listener
//           | x:<addr>:<n>    router.limiterAllowN(addr, n) through the verif hook
//        <addr> = 4<8 hex>
// out  : r=<per-op outcome>,... fwd=<queries seen by the upstream>
//        per query: o = answered NOERROR (HTTP: 200 + NOERROR), r = RCODE REFUSED (with exactly one OPT
//        record iff the query had one; e = REFUSED with a wrong number of OPT records), 5 = HTTP 503,
//        c = the connection was closed on us; DoQ: x = the stream was closed without an answer;
//        x ops: o = nil, g = global limit, k = client limit

import (
	"bufio"
	"bytes"
	"context"
	"crypto/tls"
	"encoding/binary"
	"errors"
	"fmt"
	"io"
	"math/rand"
	"net"
	"net/http"
	"net/netip"
	"strings"
	"sync"
	"sync/atomic"
	"time"

	"github.com/IrineSistiana/mosproxy/app/router"
	"github.com/IrineSistiana/mosproxy/internal/mlog"
	"github.com/miekg/dns"
	"github.com/quic-go/quic-go"
	"github.com/rs/zerolog"
)

type c15lsrv struct {
	once sync.Once
	uc   *net.UDPConn
	seen atomic.Int64
	qid  atomic.Uint32
}

var c15l c15lsrv

func c15lSetup() {
	c15l.once.Do(func() {
		mlog.SetLvl(zerolog.Disabled) // the console logger writes to stdout
		uc, err := net.ListenUDP("udp", &net.UDPAddr{IP: net.IPv4(127, 0, 0, 1)})
		if err != nil {
			panic(err)
		}
		c15l.uc = uc
		go func() {
			buf := make([]byte, 4096)
			for {
				n, addr, err := uc.ReadFromUDP(buf)
				if err != nil {
					return
				}
				q := new(dns.Msg)
				if q.Unpack(buf[:n]) != nil || len(q.Question) != 1 {
					continue
				}
				c15l.seen.Add(1)
				r := new(dns.Msg)
				r.SetReply(q)
				r.Answer = append(r.Answer, &dns.A{
					Hdr: dns.RR_Header{Name: q.Question[0].Name, Rrtype: dns.TypeA, Class: dns.ClassINET, Ttl: 60},
					A:   net.IPv4(192, 0, 2, 1),
				})
				b, _ := r.Pack()
				uc.WriteToUDP(b, addr)
			}
		}()
	})
}

func c15lFreePorts() (udp, tcp, httpP int, ok bool) {
	u, err := net.ListenUDP("udp", &net.UDPAddr{IP: net.IPv4(127, 0, 0, 1)})
	if err != nil {
		return
	}
	defer u.Close()
	t, err := net.Listen("tcp", "127.0.0.1:0")
	if err != nil {
		return
	}
	defer t.Close()
	h, err := net.Listen("tcp", "127.0.0.1:0")
	if err != nil {
		return
	}
	defer h.Close()
	return u.LocalAddr().(*net.UDPAddr).Port, t.Addr().(*net.TCPAddr).Port, h.Addr().(*net.TCPAddr).Port, true
}

// every other query carries an OPT record (edns0)
func c15lQuery() ([]byte, bool) {
	q := new(dns.Msg)
	id := c15l.qid.Add(1)
	q.SetQuestion(fmt.Sprintf("q%d.c15.test.", id), dns.TypeA)
	edns := id%2 == 0
	if edns {
		q.SetEdns0(1232, false)
	}
	b, _ := q.Pack()
	return b, edns
}

// o = NOERROR, r = REFUSED with exactly one OPT iff the query had one (088a886),
// e = REFUSED with a wrong number of OPT records
func c15lClass(b []byte, edns bool) byte {
	m := new(dns.Msg)
	if m.Unpack(b) != nil || !m.Response {
		return '?'
	}
	switch m.Rcode {
	case dns.RcodeSuccess:
		return 'o'
	case dns.RcodeServerFailure: // fail=1: the upstream is unreachable
		return 's'
	case dns.RcodeRefused:
		opts := 0
		for _, rr := range m.Extra {
			if rr.Header().Rrtype == dns.TypeOPT {
				opts++
			}
		}
		if (edns && opts == 1) || (!edns && opts == 0) {
			return 'r'
		}
		return 'e'
	}
	return '?'
}

// c15lUDPDst: where the UDP clients send. 127.0.0.2 when the udp listener is bound to the wildcard address with
// multi_routes (mr=1): the socket is connected, so only a reply that leaves from 127.0.0.2 reaches the client.
var c15lUDPDst = net.IPv4(127, 0, 0, 1)

func c15lUDP(src netip.Addr, port int) string {
	c, err := net.DialUDP("udp", &net.UDPAddr{IP: src.AsSlice()}, &net.UDPAddr{IP: c15lUDPDst, Port: port})
	if err != nil {
		return "E"
	}
	defer c.Close()
	c.SetDeadline(time.Now().Add(700 * time.Millisecond))
	q, ed := c15lQuery()
	if _, err := c.Write(q); err != nil {
		return "E"
	}
	buf := make([]byte, 4096)
	n, err := c.Read(buf)
	if err != nil {
		return "t"
	}
	return string(c15lClass(buf[:n], ed))
}

func c15lDialTCP(src netip.Addr, port int) (net.Conn, error) {
	d := net.Dialer{LocalAddr: &net.TCPAddr{IP: src.AsSlice()}, Timeout: 700 * time.Millisecond}
	return d.Dial("tcp", fmt.Sprintf("127.0.0.1:%d", port))
}

func c15lTCP(src netip.Addr, port, k int) string {
	c, err := c15lDialTCP(src, port)
	if err != nil {
		return "E"
	}
	defer c.Close()
	c.SetDeadline(time.Now().Add(700 * time.Millisecond))
	var out []byte
	for i := 0; i < k; i++ {
		q, ed := c15lQuery()
		fr := make([]byte, 2+len(q))
		binary.BigEndian.PutUint16(fr, uint16(len(q)))
		copy(fr[2:], q)
		if _, err := c.Write(fr); err != nil {
			out = append(out, 'c')
			break
		}
		var l [2]byte
		if _, err := io.ReadFull(c, l[:]); err != nil {
			out = append(out, 'c')
			break
		}
		b := make([]byte, binary.BigEndian.Uint16(l[:]))
		if _, err := io.ReadFull(c, b); err != nil {
			out = append(out, 'c')
			break
		}
		out = append(out, c15lClass(b, ed))
	}
	return string(out)
}

func c15lHTTP(src netip.Addr, port, k int) string {
	c, err := c15lDialTCP(src, port)
	if err != nil {
		return "E"
	}
	defer c.Close()
	c.SetDeadline(time.Now().Add(700 * time.Millisecond))
	br := bufio.NewReader(c)
	var out []byte
	for i := 0; i < k; i++ {
		q, ed := c15lQuery()
		req := fmt.Sprintf("POST /dns-query HTTP/1.1\r\nHost: c15.test\r\nContent-Type: application/dns-message\r\nContent-Length: %d\r\n\r\n", len(q))
		if _, err := c.Write(append([]byte(req), q...)); err != nil {
			out = append(out, 'c')
			break
		}
		resp, err := http.ReadResponse(br, nil)
		if err != nil {
			out = append(out, 'c')
			break
		}
		body, _ := io.ReadAll(resp.Body)
		resp.Body.Close()
		switch resp.StatusCode {
		case 200, 500: // 500: SERVFAIL from a failed forward? (classified by the body if there is one)
			out = append(out, c15lClass(body, ed))
		case 503:
			out = append(out, '5')
		default:
			out = append(out, '?')
		}
	}
	return string(out)
}

func c15lQUIC(src netip.Addr, port, k int) string {
	uc, err := net.ListenUDP("udp", &net.UDPAddr{IP: src.AsSlice()})
	if err != nil {
		return "E"
	}
	defer uc.Close()
	tr := &quic.Transport{Conn: uc}
	defer tr.Close()
	ctx, cancel := context.WithTimeout(context.Background(), 700*time.Millisecond)
	defer cancel()
	conn, err := tr.Dial(ctx, &net.UDPAddr{IP: net.IPv4(127, 0, 0, 1), Port: port},
		&tls.Config{InsecureSkipVerify: true, NextProtos: []string{"doq"}}, &quic.Config{})
	if err != nil {
		var ae *quic.ApplicationError
		if errors.As(err, &ae) {
			return "c"
		}
		return "E"
	}
	defer conn.CloseWithError(0, "")
	var out []byte
	for i := 0; i < k; i++ {
		st, err := conn.OpenStreamSync(ctx)
		if err != nil {
			out = append(out, 'c')
			break
		}
		st.SetDeadline(time.Now().Add(700 * time.Millisecond))
		q, ed := c15lQuery()
		q[0], q[1] = 0, 0
		fr := make([]byte, 2+len(q))
		binary.BigEndian.PutUint16(fr, uint16(len(q)))
		copy(fr[2:], q)
		_, werr := st.Write(fr)
		st.Close()
		var l [2]byte
		_, rerr := io.ReadFull(st, l[:])
		if rerr == nil {
			b := make([]byte, binary.BigEndian.Uint16(l[:]))
			if _, rerr = io.ReadFull(st, b); rerr == nil {
				out = append(out, c15lClass(b, ed))
				continue
			}
		}
		var ae *quic.ApplicationError
		var se *quic.StreamError
		switch {
		case errors.As(rerr, &ae) || errors.As(werr, &ae):
			out = append(out, 'c')
		case errors.Is(rerr, io.EOF) || errors.As(rerr, &se) || errors.As(werr, &se):
			out = append(out, 'x')
		default:
			out = append(out, 't')
		}
		if out[len(out)-1] == 'c' {
			break
		}
	}
	return string(out)
}

func c15lFreeTCPPort() int {
	t, err := net.Listen("tcp", "127.0.0.1:0")
	if err != nil {
		return 0
	}
	defer t.Close()
	return t.Addr().(*net.TCPAddr).Port
}

func c15lFreeUDPPort() int {
	u, err := net.ListenUDP("udp", &net.UDPAddr{IP: net.IPv4(127, 0, 0, 1)})
	if err != nil {
		return 0
	}
	defer u.Close()
	return u.LocalAddr().(*net.UDPAddr).Port
}

func c15lRunOnce(m map[string]string) (string, time.Duration, bool) {
	pu, pt, ph, ok := c15lFreePorts()
	if !ok {
		return "", 0, false
	}
	cfg := &router.Config{
		Servers: []router.ServerConfig{
			{Tag: "u", Protocol: "udp", Listen: fmt.Sprintf("127.0.0.1:%d", pu)},
			{Tag: "t", Protocol: "tcp", Listen: fmt.Sprintf("127.0.0.1:%d", pt)},
			{Tag: "h", Protocol: "http", Listen: fmt.Sprintf("127.0.0.1:%d", ph)},
		},
		Upstreams: []router.UpstreamConfig{{Tag: "up", Addr: fmt.Sprintf("127.0.0.1:%d", c15l.uc.LocalAddr().(*net.UDPAddr).Port)}},
		Rules:     []router.RuleConfig{{Forward: "up"}},
		Limiter: router.LimiterConfig{
			GlobalLimit: atoi(m["glob"]),
			Client:      router.ClientLimiterConfig{Limit: 1, Burst: atoi(m["burst"]), V4Mask: atoi(m["v4"]), V6Mask: atoi(m["v6"])},
		},
	}
	if m["fail"] == "1" { // an upstream nobody listens at: every forward fails (connection refused), SERVFAIL
		cfg.Upstreams[0].Addr = fmt.Sprintf("tcp://127.0.0.1:%d", c15lFreeTCPPort())
	}
	c15lUDPDst = net.IPv4(127, 0, 0, 1)
	if m["mr"] == "1" {
		cfg.Servers[0].Listen = fmt.Sprintf("0.0.0.0:%d", pu)
		cfg.Servers[0].Udp.MultiRoutes = true
		c15lUDPDst = net.IPv4(127, 0, 0, 2)
	}
	pq := 0
	if strings.Contains(m["ops"], "q:") { // the DoQ listener only when it is used
		pq = c15lFreeUDPPort()
		cfg.Servers = append(cfg.Servers, router.ServerConfig{Tag: "q", Protocol: "quic", Listen: fmt.Sprintf("127.0.0.1:%d", pq),
			Tls: router.TlsConfig{DebugUseTempCert: true}})
	}
	pg, pf := 0, 0
	if strings.Contains(m["ops"], "g:") { // the gnet listener only when it is used
		pg = c15lFreeTCPPort()
		cfg.Servers = append(cfg.Servers, router.ServerConfig{Tag: "g", Protocol: "gnet", Listen: fmt.Sprintf("127.0.0.1:%d", pg)})
	}
	if strings.Contains(m["ops"], "f:") { // the fasthttp listener only when it is used
		pf = c15lFreeTCPPort()
		cfg.Servers = append(cfg.Servers, router.ServerConfig{Tag: "f", Protocol: "fasthttp", Listen: fmt.Sprintf("127.0.0.1:%d", pf)})
	}
	vr, err := router.VerifRun(cfg)
	if err != nil {
		return "", 0, false
	}
	defer vr.Close()
	c15l.seen.Store(0)
	var outs []string
	start := time.Now()
	for _, op := range strings.Split(m["ops"], ",") {
		f := strings.Split(op, ":")
		if len(f) < 2 {
			return "bad-case", 0, true
		}
		src, ok := c15parseAddr(f[1])
		if !ok {
			return "bad-case", 0, true
		}
		k := 1
		if len(f) > 2 {
			k = atoi(f[2])
		}
		switch f[0] {
		case "u":
			outs = append(outs, c15lUDP(src, pu))
		case "t":
			outs = append(outs, c15lTCP(src, pt, k))
		case "h":
			outs = append(outs, c15lHTTP(src, ph, k))
		case "q":
			outs = append(outs, c15lQUIC(src, pq, k))
		case "g":
			outs = append(outs, c15lTCP(src, pg, k))
		case "f":
			outs = append(outs, c15lHTTP(src, pf, k))
		case "x":
			err := vr.LimiterAllowN(src, k)
			switch {
			case err == nil:
				outs = append(outs, "o")
			case strings.Contains(err.Error(), "global"):
				outs = append(outs, "g")
			case strings.Contains(err.Error(), "client"):
				outs = append(outs, "k")
			default:
				outs = append(outs, "?")
			}
		default:
			return "bad-case", 0, true
		}
	}
	el := time.Since(start)
	time.Sleep(3 * time.Millisecond) // let a stray forward reach the upstream
	return fmt.Sprintf("r=%s fwd=%d", strings.Join(outs, ","), c15l.seen.Load()), el, true
}

func c15lRun(cs string) string {
	m := kv(cs)
	budget := 900 * time.Millisecond
	if g := atoi(m["glob"]); g > 0 {
		budget = time.Second / time.Duration(g) * 9 / 10 // the global bucket refills g tokens/s
	}
	res := "setup-failed"
	for try := 0; try < 6; try++ {
		r, el, ok := c15lRunOnce(m)
		if !ok {
			time.Sleep(20 * time.Millisecond)
			continue
		}
		res = r
		if el < budget && !bytes.ContainsAny([]byte(r), "tE") {
			break
		}
	}
	return res
}

func c15lAddr(b, c, d int) string { return fmt.Sprintf("4%02x%02x%02x%02x", 127, b, c, d) }

func c15lGen(r *rand.Rand, thorough bool, emit func(c, cat string)) {
	// fixed witnesses first
	a, a2, b := c15lAddr(0, 1, 5), c15lAddr(0, 1, 9), c15lAddr(0, 2, 7)
	fixed := []struct{ cs, cat string }{
		// one /24 runs dry over UDP, its neighbour in the same /24 is refused too, another /24 is served
		{fmt.Sprintf("glob=0 burst=10 v4=0 ops=u:%s,u:%s,u:%s,u:%s,u:%s,u:%s,u:%s,u:%s", a, a, a, a, a, a2, b, b), "udp-subnets"},
		// the same on a udp listener bound to the wildcard address with multi_routes (clients talk to 127.0.0.2)
		{fmt.Sprintf("glob=0 burst=10 v4=0 mr=1 ops=u:%s,u:%s,u:%s,u:%s,u:%s,u:%s,u:%s,u:%s", a, a, a, a, a, a2, b, b), "udp-subnets-multiroutes"},
		// IPv6 masks as configured (direct calls of the admission function: loopback has one IPv6 address only):
		// /128 every address its own client, /64 and the default /48 share, /72 splits inside a /64
		{"glob=0 burst=4 v4=0 v6=128 ops=x:620010db8000000010000000000000001:3,x:620010db8000000010000000000000001:3,x:620010db8000000010000000000000002:3", "direct-v6-mask128"},
		{"glob=0 burst=4 v4=0 v6=72 ops=x:620010db8000000010000000000000001:3,x:620010db80000000100ff000000000001:3,x:620010db8000000010000000000000002:3", "direct-v6-mask72"},
		{"glob=0 burst=4 v4=0 v6=64 ops=x:620010db8000000010000000000000001:3,x:620010db80000000100ff000000000001:3,x:620010db8000000020000000000000001:3", "direct-v6-mask64"},
		{"glob=0 burst=4 v4=0 v6=0 ops=x:620010db8000000010000000000000001:3,x:620010db8000000020000000000000001:3,x:620010db8000100010000000000000001:3", "direct-v6-default48"},
		// TCP: connection cost 3, query cost 2, forward 3
		{fmt.Sprintf("glob=0 burst=12 v4=0 ops=t:%s:4,t:%s:1,t:%s:2", a, a2, b), "tcp-subnets"},
		// HTTP: 503
		{fmt.Sprintf("glob=0 burst=12 v4=0 ops=h:%s:4,h:%s:1,h:%s:2", a, a2, b), "http-subnets"},
		// explicit /32: every address is its own client
		{fmt.Sprintf("glob=0 burst=5 v4=32 ops=u:%s,u:%s,u:%s,u:%s,u:%s", a, a, a, a2, a2), "udp-mask32"},
		// /16: 127.0.1.x and 127.0.2.x are one client
		{fmt.Sprintf("glob=0 burst=9 v4=16 ops=u:%s,u:%s,u:%s,t:%s:1,h:%s:1", a, b, a2, b, a), "mixed-mask16"},
		// hunt-E findings 2, 3 (10570ce): budget for 4 of 40 queries on one connection, 36 refused (REFUSED / 503)
		// and not forwarded - on the gnet and fasthttp listeners exactly as on tcp and http
		{fmt.Sprintf("glob=0 burst=20 v4=0 ops=t:%s:40", a), "tcp-4-of-40"},
		{fmt.Sprintf("glob=0 burst=20 v4=0 ops=g:%s:40", a), "gnet-4-of-40"},
		{fmt.Sprintf("glob=0 burst=20 v4=0 ops=h:%s:40", a), "http-4-of-40"},
		{fmt.Sprintf("glob=0 burst=20 v4=0 ops=f:%s:40", a), "fasthttp-4-of-40"},
		{fmt.Sprintf("glob=0 burst=12 v4=0 ops=g:%s:4,g:%s:1,f:%s:2,f:%s:1,u:%s", a, a2, b, b, b), "gnet-fasthttp-subnets"},
		// DoQ: the connection cost (15) is charged to the client's address (D9), a refused query closes its stream
		{fmt.Sprintf("glob=0 burst=16 v4=0 ops=q:%s:1,u:%s,u:%s,q:%s:2", a, a, a2, b), "quic-conn-cost"},
		{fmt.Sprintf("glob=0 burst=24 v4=0 ops=q:%s:3,q:%s:1,u:%s", a, a2, b), "quic-subnets"},
		// global first: a global refusal does not charge the client; both refuse -> global
		{fmt.Sprintf("glob=5 burst=4 v4=0 ops=x:%s:3,x:%s:3,x:%s:2,x:%s:2,x:%s:1", a, b, b, b, a), "direct-global-order"},
		{fmt.Sprintf("glob=4 burst=3 v4=0 ops=x:%s:3,x:%s:3,x:%s:1,x:%s:1", a, a, a2, b), "direct-global-order"},
		// an unreachable upstream: SERVFAIL answers cost what answers cost (C15-m12: the upstream cost refunded on
		// failure, and a refund of what was never paid mints tokens - the client is never refused again)
		{fmt.Sprintf("glob=0 burst=10 v4=0 fail=1 ops=u:%s,u:%s,u:%s,u:%s,u:%s,u:%s,u:%s,u:%s,u:%s,u:%s,u:%s,u:%s,u:%s", a, a, a, a, a, a, a, a, a, a, a2, b, b), "udp-failing-upstream"},
		{fmt.Sprintf("glob=0 burst=12 v4=0 fail=1 ops=t:%s:16,h:%s:3,u:%s", a, b, a2), "tcp-failing-upstream"},
	}
	for _, f := range fixed {
		emit(f.cs, f.cat)
	}
	n := 40
	if thorough {
		n = 600
	}
	for i := 0; i < n; i++ {
		v4 := []int{0, 0, 0, 24, 32, 16, 25, 8, -1, 33}[r.Intn(10)]
		// sources: two in one /24, one in the next /24, one in another /16, one differing in the last bit
		srcs := []string{c15lAddr(0, 1, 4+r.Intn(3)), c15lAddr(0, 1, 8+r.Intn(100)), c15lAddr(0, 2, 1+r.Intn(200)),
			c15lAddr(1+r.Intn(3), 1, 5), c15lAddr(0, 1, 5)}
		if r.Intn(5) == 0 { // the hook only: global and client together
			g := 2 + r.Intn(4)
			burst := 2 + r.Intn(6)
			var ops []string
			for j := 0; j < 4+r.Intn(8); j++ {
				ops = append(ops, fmt.Sprintf("x:%s:%d", srcs[r.Intn(len(srcs))], 1+r.Intn(3)))
			}
			emit(fmt.Sprintf("glob=%d burst=%d v4=%d ops=%s", g, burst, v4, strings.Join(ops, ",")), "direct-global")
			continue
		}
		burst := 3 + r.Intn(30)
		var ops []string
		kinds := ""
		useGnet := r.Intn(6) == 0
		for j := 0; j < 3+r.Intn(8); j++ {
			s := srcs[r.Intn(len(srcs))]
			if r.Intn(3) == 0 {
				s = srcs[0] // a hot client
			}
			switch r.Intn(12) {
			case 9, 10:
				if useGnet { // stopping a gnet engine takes about half a second: one case in six
					ops = append(ops, fmt.Sprintf("g:%s:%d", s, 1+r.Intn(4)))
					kinds += "g"
				} else {
					ops = append(ops, fmt.Sprintf("t:%s:%d", s, 1+r.Intn(4)))
					kinds += "t"
				}
			case 11:
				ops = append(ops, fmt.Sprintf("f:%s:%d", s, 1+r.Intn(4)))
				kinds += "f"
			case 0, 1, 2, 3:
				ops = append(ops, "u:"+s)
				kinds += "u"
			case 4, 5:
				ops = append(ops, fmt.Sprintf("t:%s:%d", s, 1+r.Intn(4)))
				kinds += "t"
			case 6, 7:
				ops = append(ops, fmt.Sprintf("h:%s:%d", s, 1+r.Intn(4)))
				kinds += "h"
			case 8:
				ops = append(ops, fmt.Sprintf("q:%s:%d", s, 1+r.Intn(3)))
				kinds += "q"
			}
		}
		cat := "net"
		for _, k := range "uthqgf" {
			if strings.ContainsRune(kinds, k) {
				cat += "-" + string(k)
			}
		}
		failing := ""
		if r.Intn(8) == 0 {
			failing, cat = " fail=1", cat+"-failing"
		}
		emit(fmt.Sprintf("glob=0 burst=%d v4=%d%s ops=%s", burst, v4, failing, strings.Join(ops, ",")), cat)
	}
}

func init() {
	register("limiter_listener", &component{gen: c15lGen, run: c15lRun, setup: c15lSetup})
}
