package main

// Components `unpack` (C01, C02 decode side) and `pack` (C02, C09) on the real dnsmsg codec.
//
// unpack: case = hex bytes            → err | panic | message text
// pack  : case = c=<0|1> size=<n> cap=<n|len> indep=<0|1> <message tokens>
//                                      → err | panic | len=<Msg.Len> out=<hex> ## mk=<0|1> xn=<0|1>

import (
	"encoding/binary"
	"fmt"
	"math/rand"
	"net"
	"strings"

	"github.com/IrineSistiana/mosproxy/internal/dnsmsg"
	"github.com/miekg/dns"
	"golang.org/x/net/dns/dnsmessage"
)

func runUnpack(cs string) string {
	b := unhex(strings.TrimSpace(cs))
	m, err := dnsmsg.UnpackMsg(b)
	if err != nil {
		// every caller logs the error it gets (zerolog's Err calls Error()): the error itself must be usable — an
		// error value whose Error() panics kills the process as surely as a slice out of range (caught by the
		// framework's recover: output `panic`)
		_ = err.Error()
		return "err"
	}
	defer dnsmsg.ReleaseMsg(m)
	return msgText(m)
}

// reencode (C02, "every message the proxy accepts is re-encoded … to the same header fields"):
// case = hex bytes → err | re=<hex of Unpack then Pack without compression, no limit>
func runReencode(cs string) string {
	b := unhex(strings.TrimSpace(cs))
	m, err := dnsmsg.UnpackMsg(b)
	if err != nil {
		return "err"
	}
	defer dnsmsg.ReleaseMsg(m)
	buf := make([]byte, m.Len())
	n, err := m.Pack(buf, false, 0)
	if err != nil {
		return "packerr"
	}
	return "re=" + hexs(buf[:n])
}

// every 16-bit flag word on a small message (thorough: all 65536; quick: every single bit, every
// pair of bits and a random sample), random flag words and ids on generated messages
func genReencode(r *rand.Rand, thorough bool, emit func(c, cat string)) {
	small := unhex("0000000000010000000000000161000001" + "0001")
	word := func(w int, cat string) {
		b := append([]byte(nil), small...)
		b[2], b[3] = byte(w>>8), byte(w)
		emit(hexs(b), cat)
	}
	if thorough {
		for w := 0; w < 65536; w++ {
			word(w, "flagword-all")
		}
	} else {
		word(0, "flagword-bits")
		for i := 0; i < 16; i++ {
			word(1<<uint(i), "flagword-bits")
			for j := i + 1; j < 16; j++ {
				word(1<<uint(i)|1<<uint(j), "flagword-bits")
			}
		}
		for i := 0; i < 600; i++ {
			word(r.Intn(65536), "flagword-rand")
		}
	}
	n := 300
	if thorough {
		n = 6000
	}
	for i := 0; i < n; i++ {
		g := newMsgGen(r)
		m := parseMsg(g.msg())
		buf := make([]byte, m.Len())
		k, err := m.Pack(buf, r.Intn(2) == 1, 0)
		dnsmsg.ReleaseMsg(m)
		if err != nil {
			continue
		}
		b := append([]byte(nil), buf[:k]...)
		b[0], b[1], b[2], b[3] = byte(r.Intn(256)), byte(r.Intn(256)), byte(r.Intn(256)), byte(r.Intn(256))
		emit(hexs(b), "msg-randhdr")
	}
}

func runPack(cs string) string {
	m := parseMsg(cs)
	defer dnsmsg.ReleaseMsg(m)
	kvs := kv(cs)
	want := msgText(m)
	l := m.Len()
	capN := l
	if kvs["cap"] != "len" {
		capN = atoi(kvs["cap"])
	}
	buf := make([]byte, capN)
	size := atoi(kvs["size"])
	n, err := m.Pack(buf, kvs["c"] == "1", size)
	if err != nil {
		return "err"
	}
	out := buf[:n]
	res := fmt.Sprintf("len=%d out=%s", l, hexs(out))
	if kvs["indep"] == "1" && size == 0 {
		mk, xn := "1", "1"
		if t, err := miekgText(out); err != nil || t != want {
			mk = "0"
		}
		hx := m.Header
		setHdrZero(&hx, false)
		wantX := hdrText(hx) + strings.TrimPrefix(want, hdrText(m.Header))
		if t, err := xnetText(out); err != nil || t != wantX {
			xn = "0"
		}
		res += " ## mk=" + mk + " xn=" + xn
	}
	return res
}

// ---- independent decoders, rendered in the same canonical text form

func miekgNameWire(s string) []byte {
	if s == "." {
		return nil
	}
	var out, lab []byte
	flush := func() {
		out = append(out, byte(len(lab)))
		out = append(out, lab...)
		lab = lab[:0]
	}
	for i := 0; i < len(s); i++ {
		c := s[i]
		switch {
		case c == '\\' && i+3 < len(s)+0 && isDigit(s[i+1]) && i+3 <= len(s)-1 && isDigit(s[i+2]) && isDigit(s[i+3]):
			lab = append(lab, (s[i+1]-'0')*100+(s[i+2]-'0')*10+(s[i+3]-'0'))
			i += 3
		case c == '\\' && i+1 < len(s):
			lab = append(lab, s[i+1])
			i++
		case c == '.':
			flush()
		default:
			lab = append(lab, c)
		}
	}
	if len(lab) > 0 {
		flush()
	}
	return out
}

func isDigit(c byte) bool { return c >= '0' && c <= '9' }

func miekgRR(sec string, rr dns.RR) string {
	h := rr.Header()
	name := miekgNameWire(h.Name)
	var rd string
	switch v := rr.(type) {
	case *dns.A:
		rd = "a," + hexs(v.A.To4())
	case *dns.AAAA:
		rd = "aaaa," + hexs(v.AAAA.To16())
	case *dns.NS:
		rd = "name," + hexs(miekgNameWire(v.Ns))
	case *dns.CNAME:
		rd = "name," + hexs(miekgNameWire(v.Target))
	case *dns.PTR:
		rd = "name," + hexs(miekgNameWire(v.Ptr))
	case *dns.MX:
		rd = fmt.Sprintf("mx,%d,%s", v.Preference, hexs(miekgNameWire(v.Mx)))
	case *dns.SOA:
		rd = fmt.Sprintf("soa,%s,%s,%d,%d,%d,%d,%d", hexs(miekgNameWire(v.Ns)), hexs(miekgNameWire(v.Mbox)), v.Serial, v.Refresh, v.Retry, v.Expire, v.Minttl)
	case *dns.SRV:
		rd = fmt.Sprintf("srv,%d,%d,%d,%s", v.Priority, v.Weight, v.Port, hexs(miekgNameWire(v.Target)))
	default:
		buf := make([]byte, 70000)
		off, err := dns.PackRR(rr, buf, 0, nil, false)
		if err != nil {
			return "packerr"
		}
		hl := len(name) + 1 + 10
		if off < hl {
			return "packerr"
		}
		rd = "raw," + hexs(buf[hl:off])
	}
	return fmt.Sprintf("%s=%s,%d,%d,%d,%s", sec, hexs(name), h.Rrtype, h.Class, h.Ttl, rd)
}

func miekgText(b []byte) (string, error) {
	m := new(dns.Msg)
	if err := m.Unpack(b); err != nil {
		return "", err
	}
	var sb strings.Builder
	fmt.Fprintf(&sb, "h=%d,%s,%d,%s,%s,%s,%s,%s,%s,%d,%s", m.Id, b2s(m.Response), m.Opcode, b2s(m.Authoritative), b2s(m.Truncated),
		b2s(m.RecursionDesired), b2s(m.RecursionAvailable), b2s(m.AuthenticatedData), b2s(m.CheckingDisabled), m.Rcode&0xF, b2s(m.Zero))
	for _, q := range m.Question {
		fmt.Fprintf(&sb, " q=%s,%d,%d", hexs(miekgNameWire(q.Name)), q.Qtype, q.Qclass)
	}
	for _, rr := range m.Answer {
		sb.WriteString(" " + miekgRR("an", rr))
	}
	for _, rr := range m.Ns {
		sb.WriteString(" " + miekgRR("ns", rr))
	}
	for _, rr := range m.Extra {
		sb.WriteString(" " + miekgRR("ar", rr))
	}
	return sb.String(), nil
}

func xnetNameWire(n dnsmessage.Name) []byte {
	s := n.String()
	if s == "." {
		return nil
	}
	var out []byte
	for _, l := range strings.Split(strings.TrimSuffix(s, "."), ".") {
		out = append(out, byte(len(l)))
		out = append(out, l...)
	}
	return out
}

func xnetRR(sec string, r dnsmessage.Resource) string {
	h := r.Header
	var rd string
	switch v := r.Body.(type) {
	case *dnsmessage.AResource:
		rd = "a," + hexs(v.A[:])
	case *dnsmessage.AAAAResource:
		rd = "aaaa," + hexs(v.AAAA[:])
	case *dnsmessage.NSResource:
		rd = "name," + hexs(xnetNameWire(v.NS))
	case *dnsmessage.CNAMEResource:
		rd = "name," + hexs(xnetNameWire(v.CNAME))
	case *dnsmessage.PTRResource:
		rd = "name," + hexs(xnetNameWire(v.PTR))
	case *dnsmessage.MXResource:
		rd = fmt.Sprintf("mx,%d,%s", v.Pref, hexs(xnetNameWire(v.MX)))
	case *dnsmessage.SOAResource:
		rd = fmt.Sprintf("soa,%s,%s,%d,%d,%d,%d,%d", hexs(xnetNameWire(v.NS)), hexs(xnetNameWire(v.MBox)), v.Serial, v.Refresh, v.Retry, v.Expire, v.MinTTL)
	case *dnsmessage.SRVResource:
		rd = fmt.Sprintf("srv,%d,%d,%d,%s", v.Priority, v.Weight, v.Port, hexs(xnetNameWire(v.Target)))
	case *dnsmessage.TXTResource:
		var d []byte
		for _, s := range v.TXT {
			d = append(d, byte(len(s)))
			d = append(d, s...)
		}
		rd = "raw," + hexs(d)
	case *dnsmessage.OPTResource:
		var d []byte
		for _, o := range v.Options {
			d = binary.BigEndian.AppendUint16(d, o.Code)
			d = binary.BigEndian.AppendUint16(d, uint16(len(o.Data)))
			d = append(d, o.Data...)
		}
		rd = "raw," + hexs(d)
	case *dnsmessage.UnknownResource:
		rd = "raw," + hexs(v.Data)
	default:
		rd = "unsupported"
	}
	return fmt.Sprintf("%s=%s,%d,%d,%d,%s", sec, hexs(xnetNameWire(h.Name)), h.Type, h.Class, h.TTL, rd)
}

func xnetText(b []byte) (string, error) {
	var p dnsmessage.Parser
	h, err := p.Start(b)
	if err != nil {
		return "", err
	}
	var sb strings.Builder
	// x/net's Header has no field for the reserved bit Z: it is printed as 0 and the expectation is adjusted (runPack)
	fmt.Fprintf(&sb, "h=%d,%s,%d,%s,%s,%s,%s,%s,%s,%d,0", h.ID, b2s(h.Response), h.OpCode, b2s(h.Authoritative), b2s(h.Truncated),
		b2s(h.RecursionDesired), b2s(h.RecursionAvailable), b2s(h.AuthenticData), b2s(h.CheckingDisabled), h.RCode)
	qs, err := p.AllQuestions()
	if err != nil {
		return "", err
	}
	for _, q := range qs {
		fmt.Fprintf(&sb, " q=%s,%d,%d", hexs(xnetNameWire(q.Name)), q.Type, q.Class)
	}
	an, err := p.AllAnswers()
	if err != nil {
		return "", err
	}
	for _, r := range an {
		sb.WriteString(" " + xnetRR("an", r))
	}
	ns, err := p.AllAuthorities()
	if err != nil {
		return "", err
	}
	for _, r := range ns {
		sb.WriteString(" " + xnetRR("ns", r))
	}
	ar, err := p.AllAdditionals()
	if err != nil {
		return "", err
	}
	for _, r := range ar {
		sb.WriteString(" " + xnetRR("ar", r))
	}
	return sb.String(), nil
}

// ---- generators

func packCase(r *rand.Rand, msg string, indep bool, c int, size int, capS string) string {
	return fmt.Sprintf("c=%d size=%d cap=%s indep=%s %s", c, size, capS, b2s(indep), msg)
}

func genPack(r *rand.Rand, thorough bool, emit func(c, cat string)) {
	n := 1500
	if thorough {
		n = 40000
	}
	// nested suffix chains (pointer-depth witnesses) of every depth 1..16
	for d := 1; d <= 16; d++ {
		emit(packCase(r, nestedChain(d), true, 1, 0, "len"), "chain")
	}
	for i := 0; i < n; i++ {
		g := newMsgGen(r)
		msg := g.msg()
		c := r.Intn(2)
		switch k := r.Intn(10); {
		case k < 5: // C02: no size limit
			emit(packCase(r, msg, g.indep, c, 0, "len"), fmt.Sprintf("nolimit-c%d", c))
		case k < 9: // C09: a limit close to the message length, or a standard one
			m := parseMsg(msg)
			l := m.Len()
			dnsmsg.ReleaseMsg(m)
			var size int
			switch r.Intn(5) {
			case 0:
				size = []int{512, 513, 1232, 4096, 65535, 1, 100}[r.Intn(7)]
			case 1:
				size = l
			case 2:
				size = l + r.Intn(5) - 2
			case 3:
				size = 512 + r.Intn(l+1)
			default:
				size = 1 + r.Intn(l+20)
			}
			if size <= 0 {
				size = 512
			}
			emit(packCase(r, msg, false, c, size, "len"), fmt.Sprintf("limit-c%d", c))
		default: // buffer smaller / larger than Msg.Len (error path)
			m := parseMsg(msg)
			l := m.Len()
			dnsmsg.ReleaseMsg(m)
			capN := r.Intn(l + 10)
			emit(packCase(r, msg, false, c, 0, fmt.Sprint(capN)), "cap")
		}
	}
	// names that land at offsets around the 14-bit pointer limit 0x3FFF: a leading raw record pushes the
	// second record's owner name (and, in the second family, its second label) to 0x3FFF-3 .. 0x3FFF+3
	for delta := -3; delta <= 3; delta++ {
		for fam := 0; fam < 2; fam++ {
			q := wireLabels([]byte("q"))
			owner := wireLabels([]byte("far"), []byte("example"), []byte("com"))
			start := 12 + len(q) + 4 // offset of the first answer record
			target := 0x3FFF + delta // where the owner name (fam 0) / its second label (fam 1) must start
			if fam == 1 {
				target -= 4
			}
			l := target - start - (1 + 10)
			toks := []string{"h=9,1,0,0,0,1,1,0,0,0", "q=" + hexs(q) + ",1,1",
				fmt.Sprintf("an=-,65280,1,0,raw,%s", hexs(make([]byte, l))),
				fmt.Sprintf("an=%s,1,1,60,a,0a000001", hexs(owner)),
				fmt.Sprintf("an=%s,1,1,60,a,0a000002", hexs(owner)),
				fmt.Sprintf("an=%s,5,1,60,name,%s", hexs(wireLabels([]byte("x"), []byte("example"), []byte("com"))), hexs(owner)),
				fmt.Sprintf("ns=%s,2,1,60,name,%s", hexs(wireLabels([]byte("example"), []byte("com"))), hexs(wireLabels([]byte("com"))))}
			for c := 0; c < 2; c++ {
				emit(packCase(r, strings.Join(toks, " "), true, c, 0, "len"), "far")
			}
		}
	}
	// decode-then-repack: what the real decoder accepted (from compressed and pointer-mutated wire data) is packed again
	for i := 0; i < n/10; i++ {
		g := newMsgGen(r)
		m := parseMsg(g.msg())
		buf := make([]byte, m.Len())
		k, err := m.Pack(buf, true, 0)
		dnsmsg.ReleaseMsg(m)
		if err != nil {
			continue
		}
		mb := append([]byte(nil), buf[:k]...)
		if len(mb) > 14 && r.Intn(2) == 0 { // redirect some name byte to an earlier offset
			p := 12 + r.Intn(len(mb)-13)
			tgt := 12 + r.Intn(p-11)
			mb[p], mb[p+1] = 0xC0|byte(tgt>>8), byte(tgt)
		}
		m2, err := dnsmsg.UnpackMsg(mb)
		if err != nil {
			continue
		}
		txt := msgText(m2)
		dnsmsg.ReleaseMsg(m2)
		emit(packCase(r, txt, false, r.Intn(2), 0, "len"), "repack")
	}
	// big truncation scenario: many equal records around the 512 limit
	for k := 1; k <= 12; k++ {
		toks := []string{"h=7,1,0,0,0,1,1,0,0,0", "q=" + hexs(wireLabels([]byte("t"), []byte("test"))) + ",16,1"}
		for i := 0; i < k; i++ {
			toks = append(toks, fmt.Sprintf("an=%s,16,1,60,raw,%s", hexs(wireLabels([]byte("t"), []byte("test"))), hexs(append([]byte{99}, make([]byte, 99)...))))
		}
		toks = append(toks, "ar=-,41,1232,0,raw,-")
		for _, size := range []int{512, 600, 1232} {
			for c := 0; c < 2; c++ {
				emit(packCase(r, strings.Join(toks, " "), false, c, size, "len"), "trunc-txt")
			}
		}
	}
}

// mutate valid wire messages: truncations and substitutions at structural positions
func genUnpack(r *rand.Rand, thorough bool, emit func(c, cat string)) {
	n := 600
	if thorough {
		n = 15000
	}
	adv := adversarial()
	for _, a := range adv {
		emit(hexs(a), "adversarial")
	}
	for i := 0; i < n; i++ {
		g := newMsgGen(r)
		m := parseMsg(g.msg())
		buf := make([]byte, m.Len())
		k, err := m.Pack(buf, r.Intn(2) == 1, 0)
		dnsmsg.ReleaseMsg(m)
		if err != nil {
			continue
		}
		b := buf[:k]
		emit(hexs(b), "valid")
		for j := 0; j < 6; j++ {
			mb := append([]byte(nil), b...)
			switch r.Intn(8) {
			case 0: // truncate
				mb = mb[:r.Intn(len(mb)+1)]
				emit(hexs(mb), "truncated")
			case 1: // flip a random byte
				if len(mb) > 0 {
					mb[r.Intn(len(mb))] = byte(r.Intn(256))
				}
				emit(hexs(mb), "byteflip")
			case 2: // counts
				if len(mb) >= 12 {
					p := 4 + 2*r.Intn(4)
					binary.BigEndian.PutUint16(mb[p:], uint16([]int{0, 1, 2, 255, 65535, r.Intn(20)}[r.Intn(6)]))
				}
				emit(hexs(mb), "counts")
			case 3: // turn a byte into a pointer to somewhere
				if len(mb) > 13 {
					p := 12 + r.Intn(len(mb)-13)
					mb[p] = 0xC0 | byte(r.Intn(64))
					mb[p+1] = byte(r.Intn(256))
				}
				emit(hexs(mb), "ptr")
			case 4: // reserved label prefixes / big lengths
				if len(mb) > 12 {
					mb[12+r.Intn(len(mb)-12)] = []byte{0x40, 0x80, 0x3F, 0x7F, 0xBF, 0xFF, 0xC0}[r.Intn(7)]
				}
				emit(hexs(mb), "lenbyte")
			case 5: // header octets that look like pointers + a name pointing into the header
				if len(mb) > 14 {
					mb[0], mb[1] = 0xC0, byte(2*r.Intn(6))
					if r.Intn(2) == 0 {
						mb[2], mb[3] = 0xC0, byte(2*r.Intn(6))
					}
					mb[12], mb[13] = 0xC0, byte(r.Intn(12))
				}
				emit(hexs(mb), "hdrptr")
			case 7: // append garbage / trailing data
				mb = append(mb, byte(r.Intn(256)), byte(r.Intn(256)))
				emit(hexs(mb), "trailing")
			default: // random bytes
				rb := make([]byte, r.Intn(40))
				r.Read(rb)
				emit(hexs(rb), "random")
			}
		}
	}
	if thorough {
		// large messages up to 65535 bytes
		for i := 0; i < 40; i++ {
			rb := make([]byte, 60000+r.Intn(5535))
			r.Read(rb)
			binary.BigEndian.PutUint16(rb[4:], uint16(r.Intn(3)))
			emit(hexs(rb), "big-random")
		}
	}
}

func adversarial() [][]byte {
	hdr := func(qd, an int) []byte {
		return []byte{0, 1, 1, 0, byte(qd >> 8), byte(qd), byte(an >> 8), byte(an), 0, 0, 0, 0}
	}
	var out [][]byte
	// pointer to itself, mutual pointers, forward pointer, pointer past the end
	out = append(out, append(hdr(1, 0), 0xC0, 12, 0, 1, 0, 1))
	out = append(out, append(hdr(1, 0), 0xC0, 14, 0xC0, 12, 0, 1, 0, 1))
	out = append(out, append(hdr(1, 0), 0xC0, 0xFF, 0, 1, 0, 1))
	out = append(out, append(hdr(1, 0), 0xFF, 0xFF, 0, 1, 0, 1))
	out = append(out, append(hdr(1, 0), 0xC0))
	// pointer loops staged in the header (in front of the name being decoded): ID / flag octets that are
	// themselves pointers, and a QNAME pointing at them
	out = append(out, []byte{0xC0, 0x00, 1, 0, 0, 1, 0, 0, 0, 0, 0, 0, 0xC0, 0x00, 0, 1, 0, 1})
	out = append(out, []byte{0xC0, 0x02, 0xC0, 0x00, 0, 1, 0, 0, 0, 0, 0, 0, 0xC0, 0x00, 0, 1, 0, 1})
	out = append(out, []byte{0xC0, 0x02, 0xC0, 0x02, 0, 1, 0, 0, 0, 0, 0, 0, 0xC0, 0x00, 0, 1, 0, 1})
	// a loop behind a first backward jump inside the question section: name2 -> name1 region -> itself
	out = append(out, append(hdr(2, 0), 0xC0, 12, 0, 1, 0, 1, 0xC0, 12, 0, 1, 0, 1))
	out = append(out, append(hdr(2, 0), 1, 'a', 0xC0, 14, 0, 1, 0, 1, 0xC0, 14, 0, 1, 0, 1))
	// chains of exactly 10 and 11 hops
	for _, hops := range []int{9, 10, 11, 12} {
		b := hdr(1, 0)
		// name at 12: pointer to 14; 14: pointer to 16 … last: "a" 0
		for i := 0; i < hops; i++ {
			tgt := 12 + 2*(i+1)
			b = append(b, 0xC0|byte(tgt>>8), byte(tgt))
		}
		b = append(b, 1, 'a', 0, 0, 1, 0, 1)
		out = append(out, b)
	}
	// labels of 63 / 64, names of 253..257 octets
	for _, l := range []int{63, 64} {
		b := append(hdr(1, 0), byte(l))
		b = append(b, make([]byte, l)...)
		b = append(b, 0, 0, 1, 0, 1)
		out = append(out, b)
	}
	for total := 250; total <= 258; total++ {
		b := hdr(1, 0)
		rem := total
		for rem > 0 {
			l := 63
			if rem-1 < l {
				l = rem - 1
			}
			if l <= 0 {
				break
			}
			b = append(b, byte(l))
			b = append(b, make([]byte, l)...)
			rem -= l + 1
		}
		b = append(b, 0, 0, 1, 0, 1)
		out = append(out, b)
	}
	// counts that lie
	out = append(out, hdr(65535, 65535))
	out = append(out, hdr(0, 1))
	// typed records with RDLENGTH off by one
	mk := func(typ, rdlen int, rdata []byte) []byte {
		b := hdr(0, 1)
		b = append(b, 1, 'a', 0, byte(typ>>8), byte(typ), 0, 1, 0, 0, 0, 60, byte(rdlen>>8), byte(rdlen))
		return append(b, rdata...)
	}
	ip := net.IPv4(1, 2, 3, 4).To4()
	out = append(out, mk(1, 4, ip), mk(1, 3, ip), mk(1, 5, append(ip, 0)), mk(1, 0, nil), mk(1, 4, ip[:3]))
	out = append(out, mk(28, 16, make([]byte, 16)), mk(28, 15, make([]byte, 16)), mk(28, 16, make([]byte, 15)))
	out = append(out, mk(2, 3, []byte{1, 'b', 0}), mk(2, 2, []byte{1, 'b', 0}), mk(2, 4, []byte{1, 'b', 0, 0}), mk(5, 2, []byte{0xC0, 12}))
	out = append(out, mk(15, 5, []byte{0, 10, 1, 'm', 0}), mk(15, 4, []byte{0, 10, 1, 'm', 0}), mk(15, 1, []byte{0}))
	soa := append([]byte{1, 'n', 0, 1, 'm', 0}, make([]byte, 20)...)
	out = append(out, mk(6, len(soa), soa), mk(6, len(soa)-1, soa), mk(6, len(soa), soa[:len(soa)-1]))
	for cut := 0; cut < len(soa); cut += 3 {
		out = append(out, mk(6, cut, soa[:cut]))
	}
	srv := []byte{0, 1, 0, 2, 0, 3, 1, 't', 0}
	out = append(out, mk(33, len(srv), srv), mk(33, len(srv)+1, srv), mk(33, 5, srv[:5]))
	out = append(out, mk(99, 0, nil), mk(99, 5, []byte{1, 2, 3, 4, 5}), mk(99, 6, []byte{1, 2, 3, 4, 5}), mk(41, 65535, nil))
	// empty, tiny
	out = append(out, nil, []byte{0}, make([]byte, 11), make([]byte, 12))
	return out
}

func init() {
	register("unpack", &component{gen: genUnpack, run: runUnpack})
	register("pack", &component{gen: genPack, run: runPack})
	register("reencode", &component{gen: genReencode, run: runReencode})
}
