package main

// C06, second component: the real ReuseConnTransport under REAL concurrency — no gates.
// Several caller goroutines run exchanges with random (often very short) deadlines against
// fake connections whose server goroutine answers every query in order after a random delay,
// sometimes in segments, sometimes with an undecodable frame, sometimes twice, sometimes with a
// stale or an unsolicited frame in front of or behind the reply, sometimes by closing the
// connection; the idle timeout is a few milliseconds so that idle timers race with reuse;
// Close may hit at any moment. Nothing is deterministic here, so there is no model run to
// compare with: the observed history (linearised under the fake connections' mutex) is
// judged by the Lean `spec` alone (own reply, one outstanding query, reuse only when clean,
// no foreign bytes), and the model column merely echoes an accepted history.
//
// case : seed=<n> ex=<exchanges per caller> callers=<k> idle=<idle timeout µs> close=<0|1>
// out  : h=<events>   (same event alphabet as component `reuse`)

import (
	"context"
	"errors"
	"fmt"
	"math/rand"
	"net"
	"strings"
	"sync"
	"sync/atomic"
	"time"

	"github.com/IrineSistiana/mosproxy/internal/pool"
	"github.com/IrineSistiana/mosproxy/internal/upstream/transport"
)

func c06us(n int) time.Duration { return time.Duration(n) * time.Microsecond }

// per-connection server: one reply per query, in order
func (h *c06case) serve(c *c06conn, r *rand.Rand) {
	for {
		h.mu.Lock()
		for len(c.owedQ) == 0 && !c.closed && !c.peerClosed {
			h.cv.Wait()
		}
		if c.closed || c.peerClosed {
			h.mu.Unlock()
			return
		}
		h.mu.Unlock()
		switch k := r.Intn(10); {
		case k < 5:
			time.Sleep(c06us(r.Intn(80)))
		case k < 8:
			time.Sleep(c06us(r.Intn(600)))
		default:
			time.Sleep(c06us(r.Intn(3000)))
		}
		h.mu.Lock()
		if c.closed || c.peerClosed || len(c.owedQ) == 0 {
			h.mu.Unlock()
			continue
		}
		switch k := r.Intn(46); {
		case k >= 40 && k < 43: // the reply twice (or once more a little later)
			fr := c.nextFrame(true)
			h.send(c, fr)
			if k == 42 {
				h.mu.Unlock()
				time.Sleep(c06us(r.Intn(400)))
				h.mu.Lock()
			}
			if !c.closed && !c.peerClosed {
				h.send(c, c.dupFrame(len(c.sent)-1))
			}
			h.mu.Unlock()
		case k == 43: // an older frame again, then the reply
			if len(c.sent) > 0 {
				h.send(c, c.dupFrame(r.Intn(len(c.sent))))
			}
			h.send(c, c.nextFrame(true))
			h.mu.Unlock()
		case k >= 44: // a reply nobody asked for (invented id), before or after the real one
			if k == 44 {
				h.send(c, c.strayFrame(9998, 0xEE00+r.Intn(256)))
				h.send(c, c.nextFrame(true))
			} else {
				h.send(c, c.nextFrame(true))
				h.send(c, c.strayFrame(9998, 0xEE00+r.Intn(256)))
			}
			h.mu.Unlock()
		case k < 30:
			h.send(c, c.nextFrame(true))
			h.mu.Unlock()
		case k < 35: // in segments
			fr := c.nextFrame(true)
			cut1 := 1 + r.Intn(2)
			cut2 := 3 + r.Intn(len(fr)-4)
			h.send(c, fr[:cut1])
			h.mu.Unlock()
			time.Sleep(c06us(r.Intn(200)))
			h.mu.Lock()
			h.send(c, fr[cut1:cut2])
			h.mu.Unlock()
			time.Sleep(c06us(r.Intn(200)))
			h.mu.Lock()
			h.send(c, fr[cut2:])
			h.mu.Unlock()
		case k < 37:
			h.send(c, c.nextFrame(false))
			h.mu.Unlock()
		case k < 39: // half a reply, then the server goes away
			fr := c.nextFrame(true)
			h.send(c, fr[:len(fr)/2])
			h.mu.Unlock()
			time.Sleep(c06us(r.Intn(200)))
			h.mu.Lock()
			c.peerClosed = true
			h.cv.Broadcast()
			h.mu.Unlock()
			return
		default:
			c.peerClosed = true
			h.cv.Broadcast()
			h.mu.Unlock()
			return
		}
	}
}

func c06stressRun(cs string) string {
	m := kv(cs)
	seed := int64(atoi(m["seed"]))
	nex, ncall := atoi(m["ex"]), atoi(m["callers"])
	idle := c06us(atoi(m["idle"]))
	h := &c06case{ex: map[int]*c06exch{}, auto: true}
	h.cv = sync.NewCond(&h.mu)
	var dialSeq int64
	h.t = transport.NewReuseConnTransport(transport.ReuseConnOpts{
		DialContext: func(ctx context.Context) (net.Conn, error) {
			n := atomic.AddInt64(&dialSeq, 1)
			rr := rand.New(rand.NewSource(seed*1000 + n))
			if rr.Intn(12) == 0 {
				return nil, errors.New("dial failed")
			}
			time.Sleep(c06us(rr.Intn(100)))
			h.mu.Lock()
			c := &c06conn{h: h, id: len(h.conns)}
			h.conns = append(h.conns, c)
			h.event(c06D, c.id, 0, fmt.Sprintf("D%d", c.id))
			h.mu.Unlock()
			go h.serve(c, rr)
			return c, nil
		},
		IdleTimeout: idle,
	})
	var wg sync.WaitGroup
	var keepMu sync.Mutex
	var keep []pool.Buffer
	for k := 0; k < ncall; k++ {
		wg.Add(1)
		go func(k int) {
			defer wg.Done()
			rr := rand.New(rand.NewSource(seed*77 + int64(k)))
			for i := 0; i < nex; i++ {
				e := 1 + k*nex + i
				var d time.Duration
				switch j := rr.Intn(10); {
				case j < 4:
					d = c06us(rr.Intn(300))
				case j < 8:
					d = c06us(rr.Intn(1500))
				default:
					d = 20 * time.Millisecond
				}
				ctx, cancel := context.WithCancel(context.Background())
				tm := time.AfterFunc(d, cancel)
				qb := c06query(e)
				r, err := h.t.ExchangeContext(ctx, qb)
				pb := c06scribble(len(qb) + 2)
				tm.Stop()
				res := c06classify(e, r, err, ctx)
				cancel()
				h.mu.Lock()
				h.event(c06Ret, e, 0, res)
				h.mu.Unlock()
				keepMu.Lock()
				keep = append(keep, pb)
				keepMu.Unlock()
				if rr.Intn(8) == 0 && idle < 100*time.Millisecond {
					time.Sleep(time.Duration(rr.Int63n(int64(idle)*2 + 1))) // let idle timers race with the next reuse
				}
			}
		}(k)
	}
	if m["close"] == "1" {
		rr := rand.New(rand.NewSource(seed*13 + 5))
		wg.Add(1)
		go func() {
			defer wg.Done()
			time.Sleep(c06us(rr.Intn(400 * nex)))
			h.mu.Lock()
			h.event(c06T, 0, 0, "T")
			h.mu.Unlock()
			h.t.Close()
		}()
	}
	wg.Wait()
	time.Sleep(200 * time.Microsecond) // let abandoned workers add their last events
	h.mu.Lock()
	hist := append([]string(nil), h.hist...)
	h.mu.Unlock()
	h.t.Close()
	h.mu.Lock()
	h.cv.Broadcast()
	h.mu.Unlock()
	for _, b := range keep {
		pool.ReleaseBuf(b)
	}
	if len(hist) == 0 {
		return "h=-"
	}
	return "h=" + strings.Join(hist, ",")
}

func c06stressGen(r *rand.Rand, thorough bool, emit func(c, cat string)) {
	n := 40
	if thorough {
		n = 1200
	}
	type cc struct{ cs, cat string }
	var all []cc
	for i := 0; i < n; i++ {
		callers := 1 + r.Intn(6)
		ex := 4 + r.Intn(20)
		idle := []int{20000, 30000, 1000000}[r.Intn(3)] // never so short that a timer could fire inside asyncDial
		cl := 0
		if r.Intn(4) == 0 {
			cl = 1
		}
		all = append(all, cc{fmt.Sprintf("seed=%d ex=%d callers=%d idle=%d close=%d", r.Intn(1<<30), ex, callers, idle, cl),
			fmt.Sprintf("callers%d-close%d", callers, cl)})
	}
	jobs := make(chan string)
	var wg sync.WaitGroup
	for w := 0; w < 8; w++ {
		wg.Add(1)
		go func() {
			defer wg.Done()
			for cs := range jobs {
				c06cache.Store(cs, c06stressRun(cs))
			}
		}()
	}
	for _, c := range all {
		jobs <- c.cs
	}
	close(jobs)
	wg.Wait()
	for _, c := range all {
		emit(c.cs, c.cat)
	}
}

func init() {
	register("reusestress", &component{gen: c06stressGen, run: func(cs string) string {
		if v, ok := c06cache.LoadAndDelete(cs); ok {
			return v.(string)
		}
		return c06stressRun(cs)
	}})
}
