package main

// C17, address side.
//
// component dialaddr (pure): the unexported helpers of internal/upstream through the verif
// hooks, and net.SplitHostPort / net.JoinHostPort (to validate the model of the stdlib),
// on hex encoded byte strings.
//   op=shp s=H            -> ok h=H p=H | err:<mp|tmc|mb|uo|uc>
//   op=jhp h=H p=H        -> H
//   op=trim s=H           -> H                       (VerifTryTrimIpv6Brackets)
//   op=rmport s=H         -> H                       (VerifTryRemovePort)
//   op=gda u=H d=H def=H  -> H                       (VerifGetDialAddr)
//   op=net s=H            -> unix|tcp                (VerifDialNetworkTcpOrUnix)
//   op=form hk=<p|6> h=H [p=H] [dk=<p|6|b|unix|raw> dh=H [dp=H]] def=H
//                         -> trim=H da=H sn=H net=<unix|tcp>
//
// component dial: the REAL upstream.NewUpstream(addr, Opt{DialAddr, Control, TLSConfig}) and one
// ExchangeContext.
//   sch=<none|udp|tcp|tls|https|http|h3|quic|doq|tcp+pipeline|tls+pipeline> hk=<p|6> h=<host>
//   [p=<port>] [path=</..>] [dk=<p|6|b|unix|raw> dh=<host|name> [dp=<port>]] [ns=<text>ip,...]
//   or (no claim, model comparison only):  addr=<literal> [da=<literal>] [ns=...]
//   -> res=<ok|newerr> ctl=<network|address[;...]|none> sname=<-|+name> sni=<-|+name> host=<-|+host>
// The tokens PORT and @UNIX stand for the harness' own servers (substituted before the call and
// back in the output). Names resolve through an in-process fake DNS server (net.DefaultResolver)
// that answers from the case's ns table; nothing leaves the machine: the Control callback
// aborts every dial that does not go to the harness' servers.

import (
	"context"
	"crypto/tls"
	"encoding/binary"
	"errors"
	"fmt"
	"io"
	"math/rand"
	"net"
	"net/http"
	"net/netip"
	"os"
	"sort"
	"strconv"
	"strings"
	"sync"
	"syscall"
	"time"

	"github.com/IrineSistiana/mosproxy/internal/upstream"
	"github.com/miekg/dns"
)

// ---------------------------------------------------------------- dialaddr (pure)

func c17hx(m map[string]string, k string) string { return string(unhex(m[k])) }

func c17pureRun(cs string) string {
	m := kv(cs)
	switch m["op"] {
	case "shp":
		h, p, err := net.SplitHostPort(c17hx(m, "s"))
		if err != nil {
			var ae *net.AddrError
			if errors.As(err, &ae) {
				switch ae.Err {
				case "missing port in address":
					return "err:mp"
				case "too many colons in address":
					return "err:tmc"
				case "missing ']' in address":
					return "err:mb"
				case "unexpected '[' in address":
					return "err:uo"
				case "unexpected ']' in address":
					return "err:uc"
				}
			}
			return "err:other"
		}
		return "ok h=" + hexs([]byte(h)) + " p=" + hexs([]byte(p))
	case "jhp":
		return hexs([]byte(net.JoinHostPort(c17hx(m, "h"), c17hx(m, "p"))))
	case "trim":
		return hexs([]byte(upstream.VerifTryTrimIpv6Brackets(c17hx(m, "s"))))
	case "rmport":
		return hexs([]byte(upstream.VerifTryRemovePort(c17hx(m, "s"))))
	case "gda":
		return hexs([]byte(upstream.VerifGetDialAddr(c17hx(m, "u"), c17hx(m, "d"), c17hx(m, "def"))))
	case "net":
		return upstream.VerifDialNetworkTcpOrUnix(c17hx(m, "s"))
	case "form":
		auth := c17renderHost(m["hk"], c17hx(m, "h"))
		if _, ok := m["p"]; ok {
			auth += ":" + c17hx(m, "p")
		}
		_, hasDp := m["dp"]
		da := c17renderDial(m["dk"], c17hx(m, "dh"), c17hx(m, "dp"), hasDp)
		u := upstream.VerifTryTrimIpv6Brackets(auth)
		d := upstream.VerifGetDialAddr(u, da, c17hx(m, "def"))
		return "trim=" + hexs([]byte(u)) + " da=" + hexs([]byte(d)) + " sn=" + hexs([]byte(upstream.VerifTryRemovePort(u))) +
			" net=" + upstream.VerifDialNetworkTcpOrUnix(d)
	}
	return "bad-op"
}

// how a host is written in a URL
func c17renderHost(kind, h string) string {
	if kind == "6" {
		return "[" + h + "]"
	}
	return h
}

// how dial_addr is written
func c17renderDial(kind, h, p string, hasPort bool) string {
	switch kind {
	case "":
		return ""
	case "unix":
		return "@" + h
	case "raw":
		return h
	case "b": // IPv6 address in brackets, no port
		return "[" + h + "]"
	case "6":
		if hasPort {
			return "[" + h + "]:" + p
		}
		return h
	default:
		if hasPort {
			return h + ":" + p
		}
		return h
	}
}

const c17plainForbidden = ":[]/@"
const c17v6Forbidden = "[]/@"

func c17randBytes(r *rand.Rand, n int, forbidden string, alphabet string) string {
	b := make([]byte, 0, n)
	for len(b) < n {
		var c byte
		if alphabet != "" && r.Intn(4) != 0 {
			c = alphabet[r.Intn(len(alphabet))]
		} else {
			c = byte(r.Intn(256))
		}
		if strings.IndexByte(forbidden, c) >= 0 {
			continue
		}
		b = append(b, c)
	}
	return string(b)
}

func c17randV4(r *rand.Rand, loop bool) string {
	if loop {
		return fmt.Sprintf("127.%d.%d.%d", 16+r.Intn(200), r.Intn(256), 1+r.Intn(254))
	}
	return fmt.Sprintf("%d.%d.%d.%d", 1+r.Intn(223), r.Intn(256), r.Intn(256), 1+r.Intn(254))
}

var c17labels = []string{"dns", "example", "resolver", "a", "x-1", "my_dns", "Example", "COM", "net", "internal", "n9", "doh-server", "xn--bcher-kva"}

func c17randDomain(r *rand.Rand) string {
	n := 1 + r.Intn(4)
	var ls []string
	for i := 0; i < n; i++ {
		ls = append(ls, c17labels[r.Intn(len(c17labels))])
	}
	s := strings.Join(ls, ".")
	if r.Intn(6) == 0 {
		s += "."
	}
	return s
}

// c17v6Shapes renders one IPv6 address in several textual shapes.
func c17v6Shape(r *rand.Rand, a netip.Addr) string {
	b := a.As16()
	g := make([]uint16, 8)
	for i := range g {
		g[i] = binary.BigEndian.Uint16(b[2*i:])
	}
	hexg := func(v uint16, pad, upper bool) string {
		s := strconv.FormatUint(uint64(v), 16)
		if pad {
			s = fmt.Sprintf("%04x", v)
		}
		if upper {
			s = strings.ToUpper(s)
		}
		return s
	}
	switch k := r.Intn(6); k {
	case 0: // canonical
		return a.String()
	case 1: // fully expanded with leading zeros
		var p []string
		for _, v := range g {
			p = append(p, hexg(v, true, false))
		}
		return strings.Join(p, ":")
	case 2: // expanded without leading zeros, upper case
		var p []string
		for _, v := range g {
			p = append(p, hexg(v, false, true))
		}
		return strings.Join(p, ":")
	case 3: // compress some other (or shorter) zero run if there is one
		var runs [][2]int
		for i := 0; i < 8; {
			if g[i] != 0 {
				i++
				continue
			}
			j := i
			for j < 8 && g[j] == 0 {
				j++
			}
			runs = append(runs, [2]int{i, j})
			i = j
		}
		if len(runs) == 0 {
			return a.String()
		}
		run := runs[r.Intn(len(runs))]
		lo, hi := run[0], run[1]
		if hi-lo > 1 && r.Intn(2) == 0 {
			lo++ // leave one explicit zero group
		}
		var l, rr []string
		for i := 0; i < lo; i++ {
			l = append(l, hexg(g[i], r.Intn(2) == 0, false))
		}
		for i := hi; i < 8; i++ {
			rr = append(rr, hexg(g[i], r.Intn(2) == 0, false))
		}
		return strings.Join(l, ":") + "::" + strings.Join(rr, ":")
	case 4: // last 32 bits dotted
		var p []string
		for _, v := range g[:6] {
			p = append(p, hexg(v, false, false))
		}
		s := strings.Join(p, ":") + ":" + fmt.Sprintf("%d.%d.%d.%d", b[12], b[13], b[14], b[15])
		return s
	default: // upper case canonical
		return strings.ToUpper(a.String())
	}
}

func c17randV6(r *rand.Rand, loop bool) (text string, addr netip.Addr) {
	var b [16]byte
	if loop {
		b[15] = 1
	} else {
		switch r.Intn(5) {
		case 0:
			copy(b[:], []byte{0x20, 0x01, 0x0d, 0xb8})
			b[15] = byte(1 + r.Intn(255))
		case 1:
			copy(b[:], []byte{0x20, 0x01, 0x0d, 0xb8, 0, 0, 0, byte(r.Intn(256))})
			b[9] = byte(r.Intn(256))
			b[14] = byte(r.Intn(256))
			b[15] = byte(r.Intn(256))
		case 2:
			r.Read(b[:])
			b[0] = 0x20 | (b[0] & 0x0f)
		case 3: // v4-mapped
			b[10], b[11] = 0xff, 0xff
			b[12], b[13], b[14], b[15] = byte(1+r.Intn(223)), byte(r.Intn(256)), byte(r.Intn(256)), byte(1+r.Intn(254))
		default:
			copy(b[:], []byte{0xfd, 0x00})
			b[7] = byte(r.Intn(256))
			b[15] = byte(1 + r.Intn(255))
		}
	}
	a := netip.AddrFrom16(b)
	t := c17v6Shape(r, a)
	// make sure the text denotes the address (the shapes above are all valid)
	if p, err := netip.ParseAddr(t); err != nil || p != a {
		t = a.String()
	}
	return t, a
}

func c17pureGen(r *rand.Rand, thorough bool, emit func(c, cat string)) {
	hx := func(s string) string { return hexs([]byte(s)) }
	n := 1500
	if thorough {
		n = 40000
	}
	// delimiter-heavy random strings: differential check of the stdlib model and of the helpers
	alpha := "[]::@/.%-a1]["
	for i := 0; i < n; i++ {
		l := r.Intn(12)
		var b []byte
		for j := 0; j < l; j++ {
			if r.Intn(10) == 0 {
				b = append(b, byte(r.Intn(256)))
			} else {
				b = append(b, alpha[r.Intn(len(alpha))])
			}
		}
		s := string(b)
		switch r.Intn(6) {
		case 0:
			emit("op=shp s="+hx(s), "shp")
		case 1:
			emit("op=trim s="+hx(s), "trim")
		case 2:
			emit("op=rmport s="+hx(s), "rmport")
		case 3:
			emit("op=net s="+hx(s), "net")
		case 4:
			emit("op=jhp h="+hx(s)+" p="+hx(strconv.Itoa(r.Intn(70000))), "jhp")
		default:
			l2 := r.Intn(10)
			var d []byte
			for j := 0; j < l2; j++ {
				d = append(d, alpha[r.Intn(len(alpha))])
			}
			emit("op=gda u="+hx(s)+" d="+hx(string(d))+" def="+hx([]string{"53", "853", "443", "80"}[r.Intn(4)]), "gda")
		}
	}
	// bracketed strings of every length for the trimming (D10: the last character, "[]" itself)
	for l := 0; l < 40; l++ {
		x := c17randBytes(r, l, "", "0123456789abcdef:.")
		emit("op=trim s="+hx("["+x+"]"), "trim-bracketed")
		emit("op=trim s="+hx("["+x), "trim-open")
		emit("op=trim s="+hx(x+"]"), "trim-close")
	}
	// structured forms
	host := func() (kind, h string) {
		switch r.Intn(5) {
		case 0:
			return "p", c17randV4(r, false)
		case 1:
			return "p", c17randDomain(r)
		case 2:
			t, _ := c17randV6(r, false)
			return "6", t
		case 3: // arbitrary bytes, bracket-free
			return "p", c17randBytes(r, 1+r.Intn(12), c17plainForbidden, "abc.-019")
		default: // arbitrary bytes with at least two colons
			x := c17randBytes(r, r.Intn(6), c17v6Forbidden, "0123456789abcdefABCDEF:.%")
			y := c17randBytes(r, r.Intn(6), c17v6Forbidden, "0123456789abcdefABCDEF:.%")
			z := c17randBytes(r, r.Intn(6), c17v6Forbidden, "0123456789abcdefABCDEF:.%")
			return "6", x + ":" + y + ":" + z
		}
	}
	port := func() (string, bool) {
		switch r.Intn(4) {
		case 0:
			return "", false
		case 1:
			return c17randBytes(r, 1+r.Intn(5), c17plainForbidden, "0123456789"), true
		default:
			return strconv.Itoa(1 + r.Intn(65535)), true
		}
	}
	nf := 1500
	if thorough {
		nf = 30000
	}
	for i := 0; i < nf; i++ {
		hk, h := host()
		c := "op=form hk=" + hk + " h=" + hx(h)
		cat := "form-" + hk
		if p, ok := port(); ok {
			c += " p=" + hx(p)
			cat += "-port"
		}
		switch r.Intn(5) {
		case 0:
			cat += "-nodial"
		case 1:
			c += " dk=unix dh=" + hx(c17randBytes(r, r.Intn(8), "", "abc/@:"))
			cat += "-unix"
		case 2:
			if r.Intn(2) == 0 {
				c += " dk=b dh=" + hx(func() string { t, _ := c17randV6(r, false); return t }())
			} else {
				x := c17randBytes(r, r.Intn(6), c17v6Forbidden, "0123456789abcdefABCDEF:.%")
				y := c17randBytes(r, r.Intn(6), c17v6Forbidden, "0123456789abcdefABCDEF:.%")
				c += " dk=b dh=" + hx(x+":"+y+":")
			}
			cat += "-dialbracketed"
		default:
			dk, dh := host()
			c += " dk=" + dk + " dh=" + hx(dh)
			cat += "-dial" + dk
			if p, ok := port(); ok {
				c += " dp=" + hx(p)
				cat += "port"
			}
		}
		c += " def=" + hx([]string{"53", "853", "443", "80"}[r.Intn(4)])
		emit(c, cat)
	}
}

// ---------------------------------------------------------------- dial (real NewUpstream)

type c17sessCache struct {
	mu   sync.Mutex
	keys map[string]bool
}

func (c *c17sessCache) Get(k string) (*tls.ClientSessionState, bool) {
	c.mu.Lock()
	c.keys[k] = true
	c.mu.Unlock()
	return nil, false
}
func (c *c17sessCache) Put(string, *tls.ClientSessionState) {}

type c17env struct {
	mu sync.Mutex
	// current case
	ns      map[string]netip.Addr
	sni     map[string]bool
	hosts   map[string]bool
	ports   map[string]int    // server kind -> tcp port
	unix    map[string]string // server kind -> abstract unix name
	lowPort bool              // may bind ports < 1024
	v6      bool
	tlsCfg  *tls.Config
}

var c17e c17env

func c17dnsReply(q *dns.Msg) *dns.Msg {
	r := new(dns.Msg)
	r.SetReply(q)
	if len(q.Question) == 1 {
		qq := q.Question[0]
		r.Answer = append(r.Answer, &dns.A{Hdr: dns.RR_Header{Name: qq.Name, Rrtype: dns.TypeA, Class: dns.ClassINET, Ttl: 60}, A: net.IPv4(10, 9, 8, 7)})
	}
	return r
}

// fake DNS over a pipe ("tcp" framing) for net.DefaultResolver
func c17fakeDNS(c net.Conn) {
	defer c.Close()
	for {
		var l [2]byte
		if _, err := io.ReadFull(c, l[:]); err != nil {
			return
		}
		b := make([]byte, binary.BigEndian.Uint16(l[:]))
		if _, err := io.ReadFull(c, b); err != nil {
			return
		}
		q := new(dns.Msg)
		if q.Unpack(b) != nil || len(q.Question) != 1 {
			return
		}
		r := new(dns.Msg)
		r.SetReply(q)
		name := q.Question[0].Name
		c17e.mu.Lock()
		a, ok := c17e.ns[c17nsKey(name)]
		c17e.mu.Unlock()
		if !ok {
			r.Rcode = dns.RcodeNameError
		} else if q.Question[0].Qtype == dns.TypeA && a.Is4() {
			r.Answer = append(r.Answer, &dns.A{Hdr: dns.RR_Header{Name: name, Rrtype: dns.TypeA, Class: dns.ClassINET, Ttl: 60}, A: a.AsSlice()})
		} else if q.Question[0].Qtype == dns.TypeAAAA && a.Is6() {
			r.Answer = append(r.Answer, &dns.AAAA{Hdr: dns.RR_Header{Name: name, Rrtype: dns.TypeAAAA, Class: dns.ClassINET, Ttl: 60}, AAAA: a.AsSlice()})
		}
		rb, err := r.Pack()
		if err != nil {
			return
		}
		out := make([]byte, 2+len(rb))
		binary.BigEndian.PutUint16(out, uint16(len(rb)))
		copy(out[2:], rb)
		if _, err := c.Write(out); err != nil {
			return
		}
	}
}

func c17serveDoT(l net.Listener, cfg *tls.Config) {
	for {
		c, err := l.Accept()
		if err != nil {
			return
		}
		go func() {
			defer c.Close()
			tc := tls.Server(c, cfg)
			tc.SetDeadline(time.Now().Add(3 * time.Second))
			if tc.Handshake() != nil {
				return
			}
			for {
				var l [2]byte
				if _, err := io.ReadFull(tc, l[:]); err != nil {
					return
				}
				b := make([]byte, binary.BigEndian.Uint16(l[:]))
				if _, err := io.ReadFull(tc, b); err != nil {
					return
				}
				q := new(dns.Msg)
				if q.Unpack(b) != nil {
					return
				}
				rb, _ := c17dnsReply(q).Pack()
				out := make([]byte, 2+len(rb))
				binary.BigEndian.PutUint16(out, uint16(len(rb)))
				copy(out[2:], rb)
				tc.Write(out)
			}
		}()
	}
}

type c17dohHandler struct{ record func(host string) }

func (h c17dohHandler) ServeHTTP(w http.ResponseWriter, req *http.Request) {
	if h.record != nil {
		h.record(req.Host)
	}
	b, err := c17base64url(req.URL.Query().Get("dns"))
	q := new(dns.Msg)
	if err != nil || q.Unpack(b) != nil {
		w.WriteHeader(400)
		return
	}
	rb, _ := c17dnsReply(q).Pack()
	w.Header().Set("Content-Type", "application/dns-message")
	w.Write(rb)
}

func c17mustListen(network, addr string) net.Listener {
	for i := 0; ; i++ {
		l, err := net.Listen(network, addr)
		if err != nil {
			panic(err)
		}
		if ta, ok := l.Addr().(*net.TCPAddr); ok && ta.Port < 32768 && i < 20 {
			l.Close() // numeric ports of cases are below 32768
			continue
		}
		return l
	}
}

func c17setup() {
	c17pkiInit()
	e := &c17e
	e.ports, e.unix = map[string]int{}, map[string]string{}
	e.tlsCfg = &tls.Config{
		Certificates: []tls.Certificate{c17pki.leaf["valid"]},
		GetConfigForClient: func(h *tls.ClientHelloInfo) (*tls.Config, error) {
			e.mu.Lock()
			if e.sni != nil {
				e.sni[h.ServerName] = true
			}
			e.mu.Unlock()
			return nil, nil
		},
	}
	// is ::1 usable
	if l, err := net.Listen("tcp", "[::1]:0"); err == nil {
		l.Close()
		e.v6 = true
	}
	e.lowPort = true
	for _, p := range []string{"53", "80", "443", "853"} {
		pc, err := net.ListenPacket("udp", "127.0.0.2:"+p)
		if err != nil {
			e.lowPort = false // no privilege (or somebody listens on the wildcard address)
			break
		}
		pc.Close()
	}
	net.DefaultResolver = &net.Resolver{PreferGo: true, Dial: func(ctx context.Context, network, address string) (net.Conn, error) {
		a, b := net.Pipe()
		go c17fakeDNS(b)
		return a, nil
	}}
	tcpAddr := ":0"
	if !e.v6 {
		tcpAddr = "0.0.0.0:0"
	}
	record := func(h string) {
		e.mu.Lock()
		if e.hosts != nil {
			e.hosts[h] = true
		}
		e.mu.Unlock()
	}
	for _, kind := range []string{"dot", "https", "http"} {
		tl := c17mustListen("tcp", tcpAddr)
		un := fmt.Sprintf("@mvh-c17-%d-%s", os.Getpid(), kind)
		ul := c17mustListen("unix", un)
		e.ports[kind] = tl.Addr().(*net.TCPAddr).Port
		e.unix[kind] = un
		for _, l := range []net.Listener{tl, ul} {
			switch kind {
			case "dot":
				go c17serveDoT(l, e.tlsCfg)
			case "https":
				hs := &http.Server{Handler: c17dohHandler{record}, TLSConfig: e.tlsCfg.Clone(), ErrorLog: c17nullLogger()}
				go hs.ServeTLS(l, "", "")
			case "http":
				hs := &http.Server{Handler: c17dohHandler{record}, ErrorLog: c17nullLogger()}
				go hs.Serve(l)
			}
		}
	}
}

func c17serverKind(scheme string) string {
	switch scheme {
	case "https":
		return "https"
	case "http":
		return "http"
	default:
		return "dot"
	}
}

func c17quicBased(scheme string) bool { return scheme == "quic" || scheme == "doq" || scheme == "h3" }

func c17parseNS(s string) map[string]netip.Addr {
	m := map[string]netip.Addr{}
	if s == "" {
		return m
	}
	for _, e := range strings.Split(s, ",") {
		if i := strings.IndexByte(e, '>'); i >= 0 {
			if a, err := netip.ParseAddr(e[i+1:]); err == nil {
				m[c17nsKey(e[:i])] = a
			}
		}
	}
	return m
}

// names are looked up as DNS does: case-insensitively, the trailing dot does not matter
func c17nsKey(name string) string { return strings.ToLower(strings.TrimSuffix(name, ".")) }

func c17set(m map[string]bool) string {
	if len(m) == 0 {
		return "-"
	}
	var ks []string
	for k := range m {
		ks = append(ks, k)
	}
	sort.Strings(ks)
	return "+" + strings.Join(ks, ";")
}

var c17sinkLock *os.File

// c17dialRun runs one case. addr/da contain the PORT / @UNIX tokens.
func c17dialRun(cs string) string {
	m := kv(cs)
	raw := false
	var addr, da, scheme string
	var numPorts []int
	if a, ok := m["addr"]; ok {
		raw = true
		addr, da = a, m["da"]
		if i := strings.Index(addr, "://"); i >= 0 {
			scheme = addr[:i]
		}
	} else {
		scheme = m["sch"]
		if scheme != "none" {
			addr = scheme + "://"
		}
		addr += c17renderHost(m["hk"], m["h"])
		if p, ok := m["p"]; ok {
			addr += ":" + p
			if n, err := strconv.Atoi(p); err == nil {
				numPorts = append(numPorts, n)
			}
		}
		addr += m["path"]
		dp, hasDp := m["dp"]
		da = c17renderDial(m["dk"], m["dh"], dp, hasDp)
		if n, err := strconv.Atoi(dp); err == nil && hasDp {
			numPorts = append(numPorts, n)
		}
	}
	scheme = strings.TrimSuffix(scheme, "+pipeline")
	e := &c17e
	kind := c17serverKind(scheme)
	quicLike := c17quicBased(scheme)
	udpLike := scheme == "" || scheme == "none" || scheme == "udp" // two legs: udp, then tcp after a TC=1 reply
	livePort := e.ports[kind]
	liveUnix := e.unix[kind]
	sub := func(s string) string {
		s = strings.ReplaceAll(s, "PORT", strconv.Itoa(livePort))
		if s == "@UNIX" {
			s = liveUnix
		}
		return s
	}
	unsub := func(s string) string {
		if s == liveUnix {
			return "@UNIX"
		}
		if strings.HasSuffix(s, ":"+strconv.Itoa(livePort)) {
			return strings.TrimSuffix(s, strconv.Itoa(livePort)) + "PORT"
		}
		return s
	}
	ns := c17parseNS(m["ns"])
	e.mu.Lock()
	e.ns = ns
	e.sni = map[string]bool{}
	e.hosts = map[string]bool{}
	e.mu.Unlock()

	var mu sync.Mutex
	seen := map[string]bool{}
	cache := &c17sessCache{keys: map[string]bool{}}
	udpLive := map[string]bool{} // addresses of this case's truncating UDP servers
	ctl := func(network, address string, c syscall.RawConn) error {
		_, p, err := net.SplitHostPort(address)
		if err == nil && (p == "0" || p == "") {
			return nil // the unconnected socket of a QUIC transport
		}
		mu.Lock()
		seen[network+"|"+unsub(address)] = true
		mu.Unlock()
		if network == "unix" || (err == nil && p == strconv.Itoa(livePort) && strings.HasPrefix(network, "tcp") && !udpLike) {
			return nil
		}
		if strings.HasPrefix(network, "udp") && udpLive[address] {
			return nil // reaches the harness' UDP server, which answers TC=1
		}
		return errors.New("aborted by the harness")
	}

	// QUIC based: there is no per-dial Control callback; the dial target is observed by UDP
	// sinks bound on the candidate (loopback address, port) pairs. PORT stands for a port that is
	// free on all candidate addresses right now.
	hit := make(chan struct{}, 64)
	var sinks []net.PacketConn
	if quicLike || udpLike {
		if c17sinkLock != nil && quicLike {
			syscall.Flock(int(c17sinkLock.Fd()), syscall.LOCK_EX)
			defer syscall.Flock(int(c17sinkLock.Fd()), syscall.LOCK_UN)
		}
		var ips []netip.Addr // the loopback addresses of the case, in a fixed order
		for _, a := range ns {
			dup := false
			for _, b := range ips {
				dup = dup || a == b
			}
			if a.IsLoopback() && !dup {
				ips = append(ips, a)
			}
		}
		sort.Slice(ips, func(i, j int) bool { return ips[i].Less(ips[j]) })
		bind := func(ip netip.Addr, p int) (net.PacketConn, string, netip.AddrPort, error) {
			ap := netip.AddrPortFrom(ip, uint16(p))
			network := "udp4"
			if ip.Is6() {
				network = "udp6"
			}
			var pc net.PacketConn
			var err error
			for try := 0; try < 20; try++ {
				if pc, err = net.ListenPacket(network, ap.String()); err == nil {
					break
				}
				time.Sleep(25 * time.Millisecond)
			}
			return pc, network, ap, err
		}
		listen := func(pc net.PacketConn, network string, ap netip.AddrPort, live bool) {
			sinks = append(sinks, pc)
			name := network + "|" + ap.String()
			if live {
				name = network + "|" + netip.AddrPortFrom(ap.Addr(), 0).String()
				name = strings.TrimSuffix(name, "0") + "PORT"
			}
			if udpLike {
				// a udp upstream: the Control callback sees the dial; this server makes the upstream go on
				// to its TCP leg by answering every query with TC=1
				udpLive[ap.String()] = true
				go func() {
					buf := make([]byte, 4096)
					for {
						n, from, err := pc.ReadFrom(buf)
						if err != nil {
							return
						}
						q := new(dns.Msg)
						if q.Unpack(buf[:n]) != nil {
							continue
						}
						r := new(dns.Msg)
						r.SetReply(q)
						r.Truncated = true
						if b, err := r.Pack(); err == nil {
							pc.WriteTo(b, from)
						}
					}
				}()
				return
			}
			go func() {
				buf := make([]byte, 2048)
				for {
					if _, _, err := pc.ReadFrom(buf); err != nil {
						return
					}
					mu.Lock()
					seen[name] = true
					mu.Unlock()
					select {
					case hit <- struct{}{}:
					default:
					}
				}
			}()
		}
		// the live port
	pick:
		for try := 0; try < 50; try++ {
			probe, err := net.ListenPacket("udp4", "127.0.0.1:0")
			if err != nil {
				panic(err)
			}
			p := probe.LocalAddr().(*net.UDPAddr).Port
			probe.Close()
			if p < 32768 {
				continue
			}
			var got []net.PacketConn
			for _, ip := range ips {
				network := "udp4"
				if ip.Is6() {
					network = "udp6"
				}
				pc, err := net.ListenPacket(network, netip.AddrPortFrom(ip, uint16(p)).String())
				if err != nil {
					for _, g := range got {
						g.Close()
					}
					continue pick
				}
				got = append(got, pc)
			}
			livePort = p
			k := 0
			for _, ip := range ips {
				network := "udp4"
				if ip.Is6() {
					network = "udp6"
				}
				listen(got[k], network, netip.AddrPortFrom(ip, uint16(p)), true)
				k++
			}
			break
		}
		ports := map[int]bool{}
		for _, p := range numPorts {
			if quicLike {
				ports[p] = true
			}
		}
		if e.lowPort && quicLike {
			for _, p := range []int{53, 80, 443, 853} {
				ports[p] = true
			}
		}
		for _, ip := range ips {
			for p := range ports {
				pc, network, ap, err := bind(ip, p)
				if err != nil {
					fmt.Fprintf(os.Stderr, "c17: cannot bind sink %v: %v\n", ap, err)
					continue
				}
				listen(pc, network, ap, false)
			}
		}
	}
	closeSinks := func() {
		for _, s := range sinks {
			s.Close()
		}
	}

	up, err := upstream.NewUpstream(sub(addr), upstream.Opt{
		DialAddr:  sub(da),
		Control:   ctl,
		TLSConfig: &tls.Config{InsecureSkipVerify: true, ClientSessionCache: cache},
	})
	if err != nil {
		closeSinks()
		return "res=newerr ctl=none sname=- sni=- host=-"
	}
	q := new(dns.Msg)
	q.SetQuestion("c17.test.", dns.TypeA)
	qb, _ := q.Pack()
	// generous: every case ends by itself (answer, aborted dial, refused connection, first datagram)
	ctx, cancel := context.WithTimeout(context.Background(), 3*time.Second)
	if quicLike {
		go func() {
			select {
			case <-hit:
				time.Sleep(15 * time.Millisecond)
				cancel()
			case <-ctx.Done():
			}
		}()
	}
	up.ExchangeContext(ctx, qb)
	cancel()
	up.Close()
	if quicLike {
		time.Sleep(5 * time.Millisecond)
	}
	closeSinks()

	mu.Lock()
	var cl []string
	for k := range seen {
		cl = append(cl, k)
	}
	mu.Unlock()
	sort.Strings(cl)
	ctlOut := "none"
	if len(cl) > 0 {
		ctlOut = strings.Join(cl, ";")
	}
	cache.mu.Lock()
	sname := c17set(cache.keys)
	cache.mu.Unlock()
	e.mu.Lock()
	sni := c17set(e.sni)
	hostsSeen := map[string]bool{}
	for h := range e.hosts {
		hostsSeen[unsub(h)] = true
	}
	host := c17set(hostsSeen)
	e.sni, e.hosts = nil, nil
	e.mu.Unlock()
	if raw {
		sni = "-"
	}
	return fmt.Sprintf("res=ok ctl=%s sname=%s sni=%s host=%s", ctlOut, sname, sni, host)
}

type c17host struct {
	kind, text string
	addr       netip.Addr // what the text resolves to
}

// kind: 0 IPv4 literal, 1 domain, 2 IPv6 literal, -1 any
func c17genHost(r *rand.Rand, kind int, loop bool, v6ok bool) c17host {
	k := kind
	if k < 0 {
		k = r.Intn(3)
	}
	if k == 2 && !v6ok {
		k = r.Intn(2)
	}
	switch k {
	case 0:
		t := c17randV4(r, loop)
		return c17host{"p", t, netip.MustParseAddr(t)}
	case 1:
		t := c17randDomain(r)
		var a netip.Addr
		if loop || r.Intn(4) != 0 {
			a = netip.MustParseAddr(c17randV4(r, loop))
		} else {
			_, a = c17randV6(r, false)
			a = a.Unmap()
		}
		return c17host{"p", t, a}
	default:
		t, a := c17randV6(r, loop)
		return c17host{"6", t, a.Unmap()}
	}
}

func c17dialGen(r *rand.Rand, thorough bool, emit func(c, cat string)) {
	e := &c17e
	schemes := []string{"none", "udp", "tcp", "tls", "https", "http", "h3", "quic", "doq", "tcp+pipeline", "tls+pipeline"}
	stream := map[string]bool{"tcp": true, "tls": true, "https": true, "http": true, "tcp+pipeline": true, "tls+pipeline": true}
	rounds := 2
	if thorough {
		rounds = 14
	}
	dialHost := func(h c17host, loop bool) c17host {
		for {
			dh := c17genHost(r, -1, loop, e.v6)
			if c17nsKey(dh.text) != c17nsKey(h.text) {
				return dh
			}
		}
	}
	mk := func(sch string, h c17host, port string, path string, dk string, dh c17host, dp string, unixName string) string {
		c := "sch=" + sch + " hk=" + h.kind + " h=" + h.text
		ns := []string{h.text + ">" + h.addr.String()}
		if port != "" {
			c += " p=" + port
		}
		if path != "" {
			c += " path=" + path
		}
		switch dk {
		case "":
		case "unix":
			c += " dk=unix dh=" + unixName
		case "raw":
			c += " dk=raw dh=" + unixName
		case "b":
			c += " dk=b dh=" + dh.text
			ns = append(ns, dh.text+">"+dh.addr.String())
		default:
			c += " dk=" + dh.kind + " dh=" + dh.text
			if dp != "" {
				c += " dp=" + dp
			}
			ns = append(ns, dh.text+">"+dh.addr.String())
		}
		return c + " ns=" + strings.Join(ns, ",")
	}
	numPort := func() string { return strconv.Itoa(1024 + r.Intn(30000)) }
	for round := 0; round < rounds; round++ {
		for _, sch := range schemes {
			quic := c17quicBased(sch)
			path := ""
			if sch == "https" || sch == "http" || sch == "h3" {
				path = []string{"/dns-query", "", "/", "/a/b"}[r.Intn(4)]
			}
			for _, hostKind := range []int{0, 1, 2} { // v4, domain, v6
				for _, portMode := range []string{"", "num", "live"} {
					for _, dialMode := range []string{"", "host", "hostport", "hostlive", "bracket", "unixlive", "unix"} {
						// quic based schemes are observed by local UDP sinks: loopback targets only
						loop := quic || portMode == "live"
						if quic && portMode == "" && dialMode != "hostport" && dialMode != "hostlive" && !e.lowPort {
							continue // cannot bind the default port
						}
						if quic && (dialMode == "host" || dialMode == "bracket") && !e.lowPort {
							continue
						}
						if dialMode == "bracket" && !e.v6 {
							continue
						}
						h := c17genHost(r, hostKind, loop && dialMode == "", e.v6)
						port := ""
						switch portMode {
						case "num":
							port = numPort()
						case "live":
							port = "PORT"
						}
						cat := fmt.Sprintf("%s/%s%s", sch, []string{"v4", "dom", "v6"}[hostKind], map[string]string{"": "", "num": ":n", "live": ":live"}[portMode])
						var c string
						switch dialMode {
						case "":
							c = mk(sch, h, port, path, "", c17host{}, "", "")
						case "host":
							dh := dialHost(h, quic)
							c = mk(sch, h, port, path, "h", dh, "", "")
							cat += "/da-" + dh.kind
						case "bracket": // an IPv6 address in brackets without port (e575f62)
							var dh c17host
							for {
								dh = c17genHost(r, 2, quic, e.v6)
								if c17nsKey(dh.text) != c17nsKey(h.text) {
									break
								}
							}
							c = mk(sch, h, port, path, "b", dh, "", "")
							cat += "/da-[6]"
						case "hostport":
							dh := dialHost(h, quic)
							c = mk(sch, h, port, path, "h", dh, numPort(), "")
							cat += "/da-" + dh.kind + ":n"
						case "hostlive":
							dh := dialHost(h, true)
							c = mk(sch, h, port, path, "h", dh, "PORT", "")
							cat += "/da-" + dh.kind + ":live"
						case "unixlive":
							if !stream[sch] && r.Intn(4) != 0 {
								continue
							}
							c = mk(sch, h, port, path, "unix", c17host{}, "", "UNIX")
							cat += "/da-unixlive"
						case "unix":
							if !stream[sch] && r.Intn(4) != 0 {
								continue
							}
							c = mk(sch, h, port, path, "unix", c17host{}, "", "mvh-c17-nobody-"+strconv.Itoa(r.Intn(1000)))
							cat += "/da-unix"
						}
						emit(c, cat)
					}
				}
			}
		}
	}
	// no-claim corners, compared with the model only
	ns := " ns=dns.example>10.1.2.3,Other.Example.>10.1.2.4"
	for _, c := range []string{
		"addr=tls://dns.example da=[::1]",             // bracketed IPv6 dial_addr without port (known corner)
		"addr=tls://dns.example da=[2001:db8::1]",     //
		"addr=https://dns.example/dns-query da=[::1]", //
		"addr=udp://1.2.3.4 da=@x",
		"addr=quic://1.2.3.4 da=@x",
		"addr=1.2.3.4:",
		"addr=tls://1.2.3.4:",
		"addr=bogus://1.2.3.4",
		"addr=tls://Other.Example.:853",
		"addr=dns.example",
		"addr=[2001:db8::1]",
		"addr=[2001:db8::1]:5353",
		"addr=doq://[2001:db8::1]:8853 da=@UNIX",
	} {
		emit(c+ns, "raw")
	}
}

func init() {
	register("dialaddr", &component{gen: c17pureGen, run: c17pureRun})
	register("dial", &component{gen: c17dialGen, run: c17dialRun, teardown: c17pkiCleanup, setup: func() {
		c17setup()
		f, err := os.OpenFile("/tmp/.mvharness-c17-sinks.lock", os.O_CREATE|os.O_RDWR, 0o666)
		if err == nil {
			c17sinkLock = f
		}
	}})
}
