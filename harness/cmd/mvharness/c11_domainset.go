package main

// C11: the real domainmatcher.MixMatcher (LoadMixMatcherFromReader / Add / Match) and
// dnsmsg.ToReadable.
//
// component domainset
//   case : g=<group>;<group>... q=<query>,<query>...
//          group  L:<hex line>,<hex line>...   one LoadMixMatcherFromReader call (lines joined by \n)
//                 A:<hex rule>,...             one MixMatcher.Add call per rule, errors ignored
//          query  r | n:<hex label>.<hex label>... | w:<hex wire>
//   out  : ld=<L(k|e) | A(k|e)*>;... m=<0|1 per query>
// component readable
//   case : <query>      out : <hex of ToReadable> | err

import (
	"bytes"
	"math/rand"
	"strings"

	"github.com/IrineSistiana/mosproxy/internal/dnsmsg"
	domainmatcher "github.com/IrineSistiana/mosproxy/internal/domain_matcher"
)

func c11hexList(s, sep string) [][]byte {
	if s == "" {
		return nil
	}
	var o [][]byte
	for _, p := range strings.Split(s, sep) {
		o = append(o, unhex(p))
	}
	return o
}

func c11wire(q string) []byte {
	switch {
	case q == "r":
		return []byte{}
	case strings.HasPrefix(q, "n:"):
		var w []byte
		for _, l := range c11hexList(q[2:], ".") {
			w = append(w, byte(len(l)))
			w = append(w, l...)
		}
		return w
	case strings.HasPrefix(q, "w:"):
		return unhex(q[2:])
	}
	return nil
}

func c11run(cs string) string {
	kvs := kv(cs)
	m := domainmatcher.NewMixMatcher()
	var ld []string
	if g := kvs["g"]; g != "-" && g != "" {
		for _, grp := range strings.Split(g, ";") {
			switch {
			case strings.HasPrefix(grp, "L:"):
				lines := c11hexList(grp[2:], ",")
				err := domainmatcher.LoadMixMatcherFromReader(m, bytes.NewReader(bytes.Join(lines, []byte{'\n'})))
				if err == nil {
					ld = append(ld, "Lk")
				} else {
					ld = append(ld, "Le")
				}
			case strings.HasPrefix(grp, "A:"):
				s := "A"
				for _, rule := range c11hexList(grp[2:], ",") {
					if m.Add(rule) == nil {
						s += "k"
					} else {
						s += "e"
					}
				}
				ld = append(ld, s)
			default:
				return "bad-case"
			}
		}
	}
	var mb []byte
	if q := kvs["q"]; q != "-" && q != "" {
		for _, qs := range strings.Split(q, ",") {
			if m.Match(c11wire(qs)) {
				mb = append(mb, '1')
			} else {
				mb = append(mb, '0')
			}
		}
	}
	lds, ms := "-", "-"
	if len(ld) > 0 {
		lds = strings.Join(ld, ";")
	}
	if len(mb) > 0 {
		ms = string(mb)
	}
	return "ld=" + lds + " m=" + ms
}

func c11runReadable(cs string) string {
	b, err := dnsmsg.ToReadable(c11wire(cs))
	if err != nil {
		return "err"
	}
	return hexs(b)
}

// ---------------------------------------------------------------- generators

func c11q(labels [][]byte) string {
	if len(labels) == 0 {
		return "r"
	}
	var p []string
	for _, l := range labels {
		p = append(p, hexs(l))
	}
	return "n:" + strings.Join(p, ".")
}

func c11case(groups []string, queries []string) string {
	g, q := "-", "-"
	if len(groups) > 0 {
		g = strings.Join(groups, ";")
	}
	if len(queries) > 0 {
		q = strings.Join(queries, ",")
	}
	return "g=" + g + " q=" + q
}

func c11group(kind string, lines [][]byte) string {
	var p []string
	for _, l := range lines {
		p = append(p, hexs(l))
	}
	return kind + ":" + strings.Join(p, ",")
}

// c11split distributes the rules over one or several groups (files / direct Add calls).
func c11split(r *rand.Rand, rules [][]byte, allowAdd bool) []string {
	var gs []string
	for len(rules) > 0 {
		n := len(rules)
		if r.Intn(3) == 0 {
			n = 1 + r.Intn(len(rules))
		}
		kind := "L"
		if allowAdd && r.Intn(4) == 0 {
			kind = "A"
		}
		gs = append(gs, c11group(kind, rules[:n]))
		rules = rules[n:]
	}
	return gs
}

func c11join(labels [][]byte) []byte { return bytes.Join(labels, []byte{'.'}) }

func c11lower(l []byte) []byte {
	o := append([]byte(nil), l...)
	for i, c := range o {
		if 'A' <= c && c <= 'Z' {
			o[i] = c + 32
		}
	}
	return o
}

func c11lowerAll(ls [][]byte) [][]byte {
	var o [][]byte
	for _, l := range ls {
		o = append(o, c11lower(l))
	}
	return o
}

// the text form, written independently of the code under test (used to build regexp entries)
func c11text(labels [][]byte) []byte {
	if len(labels) == 0 {
		return []byte(".")
	}
	var o []byte
	for i, l := range labels {
		if i > 0 {
			o = append(o, '.')
		}
		for _, b := range l {
			switch {
			case b >= 'a' && b <= 'z', b >= 'A' && b <= 'Z', b >= '0' && b <= '9', b == '-':
				o = append(o, b)
			case b == '.':
				o = append(o, '\\', '.')
			case b == '\\':
				o = append(o, '\\', '\\')
			default:
				o = append(o, '\\', '0'+b/100, '0'+b/10%10, '0'+b%10)
			}
		}
	}
	return o
}

// c11pattern builds a pattern of the evaluated subset that matches (part of) text.
func c11pattern(r *rand.Rand, text []byte) []byte {
	lo, hi := 0, len(text)
	bol, eol := r.Intn(2) == 0, r.Intn(2) == 0
	if !bol && len(text) > 1 && r.Intn(2) == 0 {
		lo = r.Intn(len(text))
	}
	if !eol && hi-lo > 1 && r.Intn(2) == 0 {
		hi = lo + 1 + r.Intn(hi-lo)
	}
	var p []byte
	if bol {
		p = append(p, '^')
	}
	for _, b := range text[lo:hi] {
		switch {
		case r.Intn(12) == 0:
			p = append(p, '.')
		case b == '.':
			p = append(p, '\\', '.')
		case b == '\\':
			p = append(p, '\\', '\\')
		default:
			p = append(p, b)
		}
	}
	if eol {
		p = append(p, '$')
	}
	return p
}

func c11perm(r *rand.Rand, xs [][]byte) [][]byte {
	o := append([][]byte(nil), xs...)
	r.Shuffle(len(o), func(i, j int) { o[i], o[j] = o[j], o[i] })
	return o
}

// all sequences of length n over 0..k-1
func c11seqs(k, n int, f func([]int)) {
	idx := make([]int, n)
	var rec func(int)
	rec = func(i int) {
		if i == n {
			f(idx)
			return
		}
		for v := 0; v < k; v++ {
			idx[i] = v
			rec(i + 1)
		}
	}
	rec(0)
}

func c11exhaustive(r *rand.Rand, thorough bool, emit func(c, cat string)) {
	// all query names of at most 3 labels over {a, b}
	var queries []string
	for n := 0; n <= 3; n++ {
		c11seqs(2, n, func(ix []int) {
			var ls [][]byte
			for _, v := range ix {
				ls = append(ls, []byte{byte('a' + v)})
			}
			queries = append(queries, c11q(ls))
		})
	}
	// block 1: domain entries; every sequence (= every permutation of every multiset) of at most
	// 4 (thorough: 5) entries out of: root, every name of 1..2 labels, two names of 3 labels
	universe := [][]byte{[]byte(""), []byte("a"), []byte("b"), []byte("a.a"), []byte("b.a"), []byte("a.b"), []byte("b.b"),
		[]byte("a.b.a"), []byte("b.b.a")}
	max := 4
	if thorough {
		max = 5
	}
	for n := 0; n <= max; n++ {
		c11seqs(len(universe), n, func(ix []int) {
			var rules [][]byte
			for _, v := range ix {
				e := universe[v]
				switch r.Intn(4) {
				case 0:
					e = append([]byte("domain:"), e...)
				case 1:
					if len(e) > 0 {
						e = append(append([]byte(nil), e...), '.')
					} else {
						e = []byte(".")
					}
				}
				rules = append(rules, e)
			}
			emit(c11case(c11split(r, rules, true), queries), "exhaustive-domain")
		})
	}
	// block 2: full / domain / regexp mixed, every sequence of at most 3 (thorough: 4) entries
	mixed := [][]byte{[]byte("full:a"), []byte("full:b.a"), []byte("full:"), []byte("a"), []byte("b.a"), []byte("a.b.a"),
		[]byte("regexp:^b\\.a$"), []byte("regexp:b$"), []byte("full:A.B")}
	max = 3
	if thorough {
		max = 4
	}
	for n := 1; n <= max; n++ {
		c11seqs(len(mixed), n, func(ix []int) {
			var rules [][]byte
			for _, v := range ix {
				rules = append(rules, mixed[v])
			}
			emit(c11case(c11split(r, rules, true), queries), "exhaustive-mixed")
		})
	}
}

// octets that can stand in an entry label: no '.', no '#', no ':', no newline
func c11entryOctet(r *rand.Rand) byte {
	for {
		b := byte(r.Intn(256))
		if b != '.' && b != '#' && b != ':' && b != '\n' {
			return b
		}
	}
}

func c11label(r *rand.Rand, forEntry bool) []byte {
	var n int
	switch r.Intn(10) {
	case 0, 1, 2:
		n = 1 + r.Intn(3)
	case 3, 4:
		n = 22 + r.Intn(4) // 22..25: around the array key
	case 5:
		n = 62 + r.Intn(2)
	case 6:
		n = 1 + r.Intn(63)
	default:
		n = 1 + r.Intn(8)
	}
	l := make([]byte, n)
	style := r.Intn(4)
	for i := range l {
		switch style {
		case 0:
			l[i] = "ab"[r.Intn(2)]
		case 1:
			l[i] = "abcxyzABZ019-_"[r.Intn(14)]
		case 2:
			if r.Intn(3) == 0 {
				l[i] = []byte{0, 0, 1, ' ', '\\', 0x7f, 0x80, 0xff, 'A', 'Z', '@', '[', '`', '{', '/', '0', '9', ':' - 1, '\t', 0xc2, 0xa0}[r.Intn(21)]
			} else {
				l[i] = "abc"[r.Intn(3)]
			}
		default:
			if forEntry {
				l[i] = c11entryOctet(r)
			} else {
				l[i] = byte(r.Intn(256))
			}
		}
	}
	return l
}

// c11twin returns a label that is easily confused with l.
func c11twin(r *rand.Rand, l []byte) []byte {
	o := append([]byte(nil), l...)
	switch r.Intn(7) {
	case 0: // trailing zero octets
		for k := 1 + r.Intn(2); k > 0 && len(o) < 63; k-- {
			o = append(o, 0)
		}
	case 1: // drop the last octet
		if len(o) > 1 {
			o = o[:len(o)-1]
		}
	case 2: // one more octet in front (not on a label boundary)
		if len(o) < 63 {
			o = append([]byte{'a'}, o...)
		}
	case 3: // change the last octet
		o[len(o)-1] ^= byte(1 + r.Intn(255))
	case 4: // change one octet
		o[r.Intn(len(o))] ^= byte(1 << uint(r.Intn(8)))
	case 5: // one more octet behind
		if len(o) < 63 {
			o = append(o, "a0\x00"[r.Intn(3)])
		}
	default: // case variant
		for i, c := range o {
			if 'a' <= c && c <= 'z' && r.Intn(2) == 0 {
				o[i] = c - 32
			}
		}
	}
	return o
}

// c11longName builds a name of exactly total octets (length octets included).
func c11longName(r *rand.Rand, total int, forEntry bool) [][]byte {
	var ls [][]byte
	for total >= 2 {
		l := c11label(r, forEntry)
		if len(l)+1 > total || total-(len(l)+1) == 1 {
			n := total - 1
			if n > 63 {
				n = 61
			}
			l = bytes.Repeat([]byte{"abz"[r.Intn(3)]}, n)
		}
		ls = append(ls, l)
		total -= len(l) + 1
	}
	return ls
}

// c11fit drops leading labels until the name has at most max octets.
func c11fit(ls [][]byte, max int) [][]byte {
	total := 0
	for _, l := range ls {
		total += len(l) + 1
	}
	for total > max {
		total -= len(ls[0]) + 1
		ls = ls[1:]
	}
	return ls
}

func c11okInLine(l []byte) bool {
	return !bytes.ContainsAny(l, ".#:\n")
}

var c11spaces = [][]byte{{' '}, {'\t'}, {' ', ' '}, {'\r'}, {0x0b}, {0x0c}, {0xc2, 0xa0}, {0xc2, 0x85}, {0xe2, 0x80, 0x83}, {0xe3, 0x80, 0x80}, {0xe1, 0x9a, 0x80}, {0xe2, 0x81, 0x9f}}

func c11random(r *rand.Rand, emit func(c, cat string)) {
	// a pool of labels, some of them near misses of each other
	var pool [][]byte
	for i, n := 0, 2+r.Intn(4); i < n; i++ {
		pool = append(pool, c11label(r, true))
	}
	for i, n := 0, r.Intn(3); i < n; i++ {
		t := c11twin(r, pool[r.Intn(len(pool))])
		if c11okInLine(t) {
			pool = append(pool, t)
		}
	}
	name := func(max int) [][]byte {
		var ls [][]byte
		for i, n := 0, r.Intn(max+1); i < n; i++ {
			ls = append(ls, pool[r.Intn(len(pool))])
		}
		return ls
	}
	cat := "random"
	var rules [][]byte
	var names [][][]byte // the names behind the rules
	for i, n := 0, r.Intn(6); i < n; i++ {
		var ls [][]byte
		switch r.Intn(8) {
		case 0:
			if len(names) > 0 { // child / parent / duplicate of an earlier entry
				p := names[r.Intn(len(names))]
				switch r.Intn(3) {
				case 0:
					ls = append(name(2), p...)
				case 1:
					if len(p) > 0 {
						ls = p[1:]
					}
				default:
					ls = p
				}
			}
		case 1: // a long name, at or around the limit of the builder (253 octets with the length octets)
			ls = c11longName(r, []int{253, 253, 253, 252, 254, 200 + r.Intn(54)}[r.Intn(6)], true)
		default:
			ls = name(4)
		}
		if r.Intn(12) != 0 {
			ls = c11fit(ls, 253)
		}
		names = append(names, ls)
		text := c11join(ls)
		if r.Intn(3) == 0 { // entries are case-insensitive
			for i, c := range text {
				if 'a' <= c && c <= 'z' && r.Intn(2) == 0 {
					text[i] = c - 32
				}
			}
		}
		if r.Intn(5) == 0 {
			text = append(text, '.')
		}
		var rule []byte
		switch r.Intn(10) {
		case 0, 1:
			rule = append([]byte("full:"), text...)
		case 2, 3:
			rule = append([]byte("domain:"), text...)
		case 4:
			rule = append([]byte("regexp:"), c11pattern(r, c11text(c11lowerAll(ls)))...)
			cat = "random-regexp"
		default:
			rule = text
		}
		rules = append(rules, rule)
	}
	if r.Intn(3) == 0 {
		rules = c11perm(r, rules)
	}
	// dress the lines of files: comments, white space, blank lines
	var lines [][]byte
	for _, rule := range rules {
		if r.Intn(6) == 0 {
			lines = append(lines, [][]byte{{}, []byte("# comment"), []byte("  "), []byte("#full:a"), {'\t', '#'}}[r.Intn(5)])
		}
		l := append([]byte(nil), rule...)
		if r.Intn(5) == 0 {
			l = append(append([]byte(nil), c11spaces[r.Intn(len(c11spaces))]...), l...)
		}
		if r.Intn(5) == 0 {
			l = append(l, c11spaces[r.Intn(len(c11spaces))]...)
		}
		if r.Intn(6) == 0 {
			l = append(l, []byte("# domain:x")...)
		}
		lines = append(lines, l)
	}
	allowAdd := true
	for _, l := range lines { // direct Add has no comment / white space handling
		if !bytes.Equal(bytes.TrimSpace(l), l) || bytes.IndexByte(l, '#') >= 0 || len(l) == 0 {
			allowAdd = false
		}
	}
	if r.Intn(40) == 0 { // ill-formed entries (outside the property; model vs code only)
		bad := [][]byte{[]byte("a..b"), []byte(".a"), []byte("a.."), []byte(".."), []byte("Domain:a"), []byte("x:a"), []byte(":a"),
			[]byte("full:a..b"), bytes.Repeat([]byte("a"), 64), []byte("domain:."), []byte("full:.")}
		lines = append(lines, bad[r.Intn(len(bad))])
		cat = "random-illformed"
	}
	groups := c11split(r, lines, allowAdd)

	// queries
	var qs []string
	addq := func(ls [][]byte) {
		if r.Intn(25) != 0 {
			ls = c11lowerAll(ls)
		}
		qs = append(qs, c11q(ls))
	}
	for i, n := 0, 4+r.Intn(6); i < n; i++ {
		var base [][]byte
		if len(names) > 0 && r.Intn(5) != 0 {
			base = names[r.Intn(len(names))]
		} else {
			base = name(4)
		}
		switch r.Intn(10) {
		case 0: // exactly
			addq(base)
		case 1, 2: // below
			var pre [][]byte
			for k := 1 + r.Intn(2); k > 0; k-- {
				if r.Intn(2) == 0 {
					pre = append(pre, c11label(r, false))
				} else {
					pre = append(pre, pool[r.Intn(len(pool))])
				}
			}
			addq(append(pre, base...))
		case 3: // above
			if len(base) > 0 {
				addq(base[1:])
			} else {
				addq(base)
			}
		case 4, 5: // one label replaced by a near miss
			if len(base) > 0 {
				b := append([][]byte(nil), base...)
				k := r.Intn(len(b))
				b[k] = c11twin(r, b[k])
				addq(b)
			} else {
				addq(name(3))
			}
		case 6: // last label dropped / one label appended on the right
			if len(base) > 0 && r.Intn(2) == 0 {
				addq(base[:len(base)-1])
			} else {
				addq(append(append([][]byte(nil), base...), pool[r.Intn(len(pool))]))
			}
		case 7: // long, at or around the limit of the scanner (254 octets with the length octets)
			target := []int{254, 254, 253, 255, 200 + r.Intn(55)}[r.Intn(5)]
			used := 0
			for _, l := range base {
				used += len(l) + 1
			}
			if target-used >= 2 {
				addq(append(c11longName(r, target-used, false), base...))
			} else {
				addq(base)
			}
		case 8:
			addq(name(4))
		default:
			var ls [][]byte
			for k := r.Intn(4); k > 0; k-- {
				ls = append(ls, c11label(r, false))
			}
			addq(ls)
		}
	}
	if r.Intn(30) == 0 { // octets that are not a name
		w := make([]byte, r.Intn(8))
		for i := range w {
			w[i] = byte(r.Intn(70))
		}
		qs = append(qs, "w:"+hexs(w))
	}
	emit(c11case(groups, qs), cat)
}

func c11gen(r *rand.Rand, thorough bool, emit func(c, cat string)) {
	c11exhaustive(r, thorough, emit)
	n := 6000
	if thorough {
		n = 90000
	}
	for i := 0; i < n; i++ {
		c11random(r, emit)
	}
}

func c11genReadable(r *rand.Rand, thorough bool, emit func(c, cat string)) {
	emit("r", "root")
	// every octet alone, in front of and behind a letter
	for b := 0; b < 256; b++ {
		emit(c11q([][]byte{{byte(b)}}), "octet")
		emit(c11q([][]byte{{'a', byte(b)}, {byte(b), 'a'}}), "octet")
	}
	n := 3000
	if thorough {
		n = 60000
	}
	for i := 0; i < n; i++ {
		var ls [][]byte
		total := 0
		max := 1 + r.Intn(5)
		if r.Intn(10) == 0 {
			max = 200
		}
		lim := 200 + r.Intn(60)
		for k := 0; k < max && total < lim; k++ {
			l := c11label(r, false)
			ls = append(ls, l)
			total += len(l) + 1
		}
		if r.Intn(50) == 0 {
			w := make([]byte, r.Intn(8))
			for i := range w {
				w[i] = byte(r.Intn(70))
			}
			emit("w:"+hexs(w), "not-a-name")
			continue
		}
		emit(c11q(ls), "random")
	}
}

func init() {
	register("domainset", &component{gen: c11gen, run: c11run})
	register("readable", &component{gen: c11genReadable, run: c11runReadable})
}
