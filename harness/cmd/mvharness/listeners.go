package main

// Shared fixture: the REAL router (router.VerifRun → run) with one listener of every kind on loopback,
// one scripted upstream, and a client per listener kind.

import (
	"bytes"
	"context"
	"crypto/tls"
	"encoding/base64"
	"encoding/binary"
	"errors"
	"fmt"
	"hash/fnv"
	"io"
	"net"
	"net/http"
	"strings"
	"sync"
	"sync/atomic"
	"time"

	"github.com/IrineSistiana/mosproxy/app/router"
	"github.com/IrineSistiana/mosproxy/internal/dnsmsg"
	"github.com/IrineSistiana/mosproxy/internal/pool"
	"github.com/quic-go/quic-go"
	"golang.org/x/net/http2"
)

var listenerKinds = []string{"udp", "tcp", "gnet", "tls", "http", "https", "fasthttp", "quic"}

type fixture struct {
	v     *router.VerifRouter
	ports map[string]int
	up    *scriptUp
	h1    *http.Client
	h2    *http.Client
	mu    sync.Mutex
	qc    quic.Connection
}

// scriptUp is the scripted upstream: behaviour is selected by the first label of the question.
//
//	ok…     → NOERROR with one A record = answerFor(name, type, class)
//	slow…   → the same after 150 ms
//	nx…     → NXDOMAIN
//	fail…   → exchange error
//	silent… → blocks until the request context ends
//	evil…   → a reply for a different question
type scriptUp struct {
	calls   atomic.Int64
	mu      sync.Mutex
	perName map[string]int
}

func answerFor(name []byte, typ, class uint16) [4]byte {
	h := fnv.New32a()
	h.Write(bytes.ToLower(name))
	binary.Write(h, binary.BigEndian, typ)
	binary.Write(h, binary.BigEndian, class)
	s := h.Sum32()
	return [4]byte{10, byte(s >> 16), byte(s >> 8), byte(s)}
}

func (u *scriptUp) ExchangeContext(ctx context.Context, q []byte) (*dnsmsg.Msg, error) {
	u.calls.Add(1)
	m, err := dnsmsg.UnpackMsg(q)
	if err != nil {
		return nil, err
	}
	defer dnsmsg.ReleaseMsg(m)
	if len(m.Questions) != 1 {
		return nil, errors.New("bad upstream query")
	}
	qq := m.Questions[0]
	u.mu.Lock()
	if u.perName != nil {
		u.perName[string(qq.Name)]++
	}
	u.mu.Unlock()
	first := ""
	if len(qq.Name) > 0 {
		first = string(qq.Name[1 : 1+int(qq.Name[0])])
	}
	switch {
	case strings.HasPrefix(first, "fail"):
		return nil, errors.New("scripted failure")
	case strings.HasPrefix(first, "silent"):
		<-ctx.Done()
		return nil, context.Cause(ctx)
	case strings.HasPrefix(first, "late"): // answers after 3.5 s (inside the 6 s request deadline)
		select {
		case <-time.After(3500 * time.Millisecond):
		case <-ctx.Done():
			return nil, context.Cause(ctx)
		}
	case strings.HasPrefix(first, "slow"):
		select {
		case <-time.After(150 * time.Millisecond):
		case <-ctx.Done():
			return nil, context.Cause(ctx)
		}
	}
	r := dnsmsg.NewMsg()
	r.Header.ID = m.Header.ID
	r.Header.Response = true
	r.Header.RecursionDesired = true
	r.Header.RecursionAvailable = true
	rq := qq.Copy()
	if strings.HasPrefix(first, "evil") {
		rq.Name[1] = 'x'
	}
	r.Questions = append(r.Questions, rq)
	if strings.HasPrefix(first, "nx") {
		r.Header.RCode = dnsmsg.RCodeNameError
		return r, nil
	}
	if strings.HasPrefix(first, "big") { // big<k>: k TXT-like raw records of 100 octets each
		k := atoi(first[3:])
		for i := 0; i < k; i++ {
			rr := dnsmsg.NewRaw()
			rr.Name = nameBuf(qq.Name)
			rr.Type, rr.Class, rr.TTL = 16, qq.Class, 300
			d := make([]byte, 100)
			d[0] = 99
			d[1] = byte(i)
			rr.Data = pool.GetBuf(len(d))
			copy(rr.Data, d)
			r.Answers = append(r.Answers, rr)
		}
		return r, nil
	}
	a := dnsmsg.NewA()
	a.Name = nameBuf(qq.Name)
	a.Type, a.Class, a.TTL = dnsmsg.TypeA, qq.Class, 300
	a.A = answerFor(qq.Name, uint16(qq.Type), uint16(qq.Class))
	r.Answers = append(r.Answers, a)
	return r, nil
}
func (u *scriptUp) Close() error { return nil }

func freePort(network string) int {
	for {
		if network == "udp" {
			c, err := net.ListenUDP("udp", &net.UDPAddr{IP: net.IPv4(127, 0, 0, 1)})
			if err != nil {
				continue
			}
			p := c.LocalAddr().(*net.UDPAddr).Port
			c.Close()
			return p
		}
		l, err := net.Listen("tcp", "127.0.0.1:0")
		if err != nil {
			continue
		}
		p := l.Addr().(*net.TCPAddr).Port
		l.Close()
		return p
	}
}

// newFixture: the ports are found by binding and releasing; another process may take one before the router binds
// it (checks run in parallel): a start-up that fails is tried again with fresh ports.
func newFixture(kinds []string, mutate func(cfg *router.Config)) (f *fixture, err error) {
	for attempt := 0; attempt < 6; attempt++ {
		if f, err = newFixtureOnce(kinds, mutate); err == nil {
			return f, nil
		}
		time.Sleep(time.Duration(20*(attempt+1)) * time.Millisecond)
	}
	return nil, err
}

func newFixtureOnce(kinds []string, mutate func(cfg *router.Config)) (*fixture, error) {
	f := &fixture{ports: map[string]int{}, up: &scriptUp{}}
	cfg := &router.Config{}
	cfg.Upstreams = []router.UpstreamConfig{{Tag: "u0", Addr: "udp://127.0.0.1:9"}}
	cfg.Rules = []router.RuleConfig{{Forward: "u0"}}
	for _, k := range kinds {
		sc := router.ServerConfig{Tag: k, Protocol: k}
		netw := "tcp"
		if k == "udp" || k == "quic" || k == "udpmr" {
			netw = "udp"
		}
		p := freePort(netw)
		f.ports[k] = p
		sc.Listen = fmt.Sprintf("127.0.0.1:%d", p)
		if k == "udpmr" { // udp on the wildcard address with multi_routes: the reply must leave from the address the query came to
			sc.Protocol = "udp"
			sc.Listen = fmt.Sprintf("0.0.0.0:%d", p)
			sc.Udp.MultiRoutes = true
		}
		if k == "tls" || k == "https" || k == "quic" {
			sc.Tls.DebugUseTempCert = true
		}
		cfg.Servers = append(cfg.Servers, sc)
	}
	if mutate != nil {
		mutate(cfg)
	}
	v, err := router.VerifRun(cfg)
	if err != nil {
		return nil, err
	}
	f.v = v
	if cfg.Upstreams[0].Addr == "udp://127.0.0.1:9" { // the placeholder: the scripted in-process upstream takes its place
		v.SetUpstream("u0", f.up)
	}
	f.h1 = &http.Client{Timeout: 8 * time.Second, Transport: &http.Transport{MaxIdleConnsPerHost: 64}}
	f.h2 = &http.Client{Timeout: 8 * time.Second, Transport: &http2.Transport{TLSClientConfig: &tls.Config{InsecureSkipVerify: true}}}
	return f, nil
}

func (f *fixture) close() {
	f.mu.Lock()
	if f.qc != nil {
		f.qc.CloseWithError(0, "")
		f.qc = nil
	}
	f.mu.Unlock()
	f.v.Close()
}

func frame(b []byte) []byte {
	o := make([]byte, 2+len(b))
	binary.BigEndian.PutUint16(o, uint16(len(b)))
	copy(o[2:], b)
	return o
}

func readFrame(c io.Reader) ([]byte, error) {
	var l [2]byte
	if _, err := io.ReadFull(c, l[:]); err != nil {
		return nil, err
	}
	b := make([]byte, binary.BigEndian.Uint16(l[:]))
	if _, err := io.ReadFull(c, b); err != nil {
		return nil, err
	}
	return b, nil
}

func (f *fixture) dialStream(kind string) (net.Conn, error) {
	addr := fmt.Sprintf("127.0.0.1:%d", f.ports[kind])
	c, err := net.DialTimeout("tcp", addr, 2*time.Second)
	if err != nil {
		return nil, err
	}
	if kind == "tls" {
		tc := tls.Client(c, &tls.Config{InsecureSkipVerify: true})
		if err := tc.Handshake(); err != nil {
			c.Close()
			return nil, err
		}
		return tc, nil
	}
	return c, nil
}

func (f *fixture) quicConn() (quic.Connection, error) {
	f.mu.Lock()
	defer f.mu.Unlock()
	if f.qc != nil && f.qc.Context().Err() == nil {
		return f.qc, nil
	}
	ctx, cancel := context.WithTimeout(context.Background(), 3*time.Second)
	defer cancel()
	c, err := quic.DialAddr(ctx, fmt.Sprintf("127.0.0.1:%d", f.ports["quic"]),
		&tls.Config{InsecureSkipVerify: true, NextProtos: []string{"doq"}}, &quic.Config{MaxIdleTimeout: 20 * time.Second, KeepAlivePeriod: 500 * time.Millisecond})
	if err != nil {
		return nil, err
	}
	f.qc = c
	return c, nil
}

type exchResult struct {
	resp   []byte // nil if none
	status string // "resp" | "none" | "closed" | "http:<code>" | "err:<what>"
}

// exchange sends one unit (raw bytes, possibly malformed) and waits for the reaction.
// via: "get" | "post" for HTTP kinds.
func (f *fixture) exchange(kind string, msg []byte, via string, wait time.Duration) exchResult {
	switch kind {
	case "udp", "udpmr":
		ip := net.IPv4(127, 0, 0, 1)
		if kind == "udpmr" { // a connected socket: only a reply from 127.0.0.2 is delivered
			ip = net.IPv4(127, 0, 0, 2)
		}
		c, err := net.DialUDP("udp", nil, &net.UDPAddr{IP: ip, Port: f.ports[kind]})
		if err != nil {
			return exchResult{status: "err:dial"}
		}
		defer c.Close()
		c.Write(msg)
		c.SetReadDeadline(time.Now().Add(wait))
		buf := make([]byte, 65535)
		n, err := c.Read(buf)
		if err != nil {
			return exchResult{status: "none"}
		}
		return exchResult{resp: buf[:n], status: "resp"}
	case "tcp", "gnet", "tls":
		c, err := f.dialStream(kind)
		if err != nil {
			return exchResult{status: "err:dial"}
		}
		defer c.Close()
		fr := frame(msg)
		switch via { // segmentation of the client's byte stream
		case "split1": // the length prefix arrives in two pieces
			c.Write(fr[:1])
			time.Sleep(3 * time.Millisecond)
			c.Write(fr[1:])
		case "split2": // prefix, then body
			c.Write(fr[:2])
			time.Sleep(3 * time.Millisecond)
			c.Write(fr[2:])
		case "split3": // cut inside the body
			k := 2 + len(msg)/2
			c.Write(fr[:k])
			time.Sleep(3 * time.Millisecond)
			c.Write(fr[k:])
		case "raw": // msg is written as it is: the client chooses the length prefix (it may lie)
			c.Write(msg)
		default:
			c.Write(fr)
		}
		c.SetReadDeadline(time.Now().Add(wait))
		b, err := readFrame(c)
		if err != nil {
			var ne net.Error
			if errors.As(err, &ne) && ne.Timeout() {
				return exchResult{status: "none"}
			}
			return exchResult{status: "closed"}
		}
		return exchResult{resp: b, status: "resp"}
	case "http", "https", "fasthttp":
		scheme, cl := "http", f.h1
		if kind == "https" {
			scheme, cl = "https", f.h2
		}
		url := fmt.Sprintf("%s://127.0.0.1:%d/dns-query", scheme, f.ports[kind])
		var req *http.Request
		if via == "get" {
			req, _ = http.NewRequest("GET", url+"?dns="+base64.RawURLEncoding.EncodeToString(msg), nil)
			req.Header.Set("Accept", "application/dns-message")
		} else {
			req, _ = http.NewRequest("POST", url, bytes.NewReader(msg))
			req.Header.Set("Content-Type", "application/dns-message")
		}
		resp, err := cl.Do(req)
		if err != nil {
			return exchResult{status: "err:http"}
		}
		defer resp.Body.Close()
		b, _ := io.ReadAll(io.LimitReader(resp.Body, 70000))
		if resp.StatusCode != 200 {
			return exchResult{status: fmt.Sprintf("http:%d", resp.StatusCode)}
		}
		return exchResult{resp: b, status: "resp"}
	case "quic":
		qc, err := f.quicConn()
		if err != nil {
			return exchResult{status: "err:dial"}
		}
		// OpenStreamSync: wait for stream credit (the listener allows 100 concurrent streams per connection)
		sctx, scancel := context.WithTimeout(context.Background(), wait)
		s, err := qc.OpenStreamSync(sctx)
		scancel()
		if err != nil {
			return exchResult{status: "err:stream"}
		}
		if via == "raw" {
			s.Write(msg)
		} else {
			s.Write(frame(msg))
		}
		s.Close()
		s.SetReadDeadline(time.Now().Add(wait))
		b, err := readFrame(s)
		s.CancelRead(0)
		if err != nil {
			var ne net.Error
			if errors.As(err, &ne) && ne.Timeout() {
				return exchResult{status: "none"}
			}
			return exchResult{status: "closed"}
		}
		return exchResult{resp: b, status: "resp"}
	}
	return exchResult{status: "err:kind"}
}

// buildQuery packs a plain RD query for name (wire form) with the given id.
func buildQuery(id uint16, name []byte, typ uint16, withOpt bool, optSize int) []byte {
	m := dnsmsg.NewMsg()
	defer dnsmsg.ReleaseMsg(m)
	m.Header.ID = id
	m.Header.RecursionDesired = true
	q := dnsmsg.NewQuestion()
	q.Name, q.Type, q.Class = nameBuf(name), dnsmsg.Type(typ), dnsmsg.ClassINET
	m.Questions = append(m.Questions, q)
	if withOpt {
		o := dnsmsg.NewRaw()
		o.Type, o.Class = dnsmsg.TypeOPT, dnsmsg.Class(optSize)
		m.Additionals = append(m.Additionals, o)
	}
	b := make([]byte, m.Len())
	n, _ := m.Pack(b, false, 0)
	return b[:n]
}
