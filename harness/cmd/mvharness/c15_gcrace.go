package main

// C15 component `limiter_gcrace`: gc passes racing with arrivals on the real ClientLimiter.
// Per trial: a full bucket that was last seen 10 minutes ago; concurrently one gc pass and one
// arrival that takes the whole burst; then a second arrival of the whole burst at the same
// instant.  In every sequential order at most one of the two arrivals is admitted (the window
// [now, now] admits at most `burst`); both admitted means that gc forgot an arrival.
//
// case : trials=<n> lim=<int> burst=<int>
// out  : hits=<number of trials in which both arrivals were admitted>

import (
	"fmt"
	"math/rand"
	"net/netip"
	"sync"
	"time"

	"github.com/IrineSistiana/mosproxy/internal/limiter"
)

func c15raceRun(cs string) string {
	m := kv(cs)
	trials, lim, burst := atoi(m["trials"]), atoi(m["lim"]), atoi(m["burst"])
	a := netip.AddrFrom4([4]byte{192, 0, 2, 7})
	hits := 0
	for i := 0; i < trials; i++ {
		cl := limiter.NewClientLimiter(limiter.ClientLimiterOpts{Limit: float64(lim), Burst: burst})
		cl.AllowN(a, time.Now().Add(-10*time.Minute), 0)
		now := time.Now()
		var wg sync.WaitGroup
		var ok1 bool
		wg.Add(2)
		go func() { defer wg.Done(); cl.VerifGC() }()
		go func() { defer wg.Done(); ok1 = cl.AllowN(a, now, burst) }()
		wg.Wait()
		ok2 := cl.AllowN(a, now, burst)
		cl.Close()
		if ok1 && ok2 {
			hits++
		}
	}
	return fmt.Sprintf("hits=%d", hits)
}

func c15raceGen(r *rand.Rand, thorough bool, emit func(c, cat string)) {
	n, trials := 4, 25000
	if thorough {
		n, trials = 20, 50000
	}
	for i := 0; i < n; i++ {
		lim := 1 + r.Intn(5)
		emit(fmt.Sprintf("trials=%d lim=%d burst=%d", trials, lim, lim*(100+r.Intn(900))), "race")
	}
}

func init() {
	register("limiter_gcrace", &component{gen: c15raceGen, run: c15raceRun})
}
