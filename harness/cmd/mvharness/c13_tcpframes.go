package main

// C13 (ii): the REAL tcp, tls (DoT) and gnet listeners of app/router over loopback. A client writes a
// stream of k length-prefixed queries in chosen segments (TCP_NODELAY, paced writes) and re-frames the
// octets it reads back: every response must be one contiguous frame whose prefix equals its body length.
// This also validates the gnet Next/retention assumptions of Model/Gnet.lean on the real library.
//
// case : proto=<tcp|tls|gnet> max=<3|100> hold=<0|1> fr=<len>,... segs=<n>,...
//        hold=1: the fake upstream answers nothing until the client has read every REFUSED it is due
//                (exactly the first max queries are in flight; the surplus must be REFUSED, none dropped);
//        hold=0: the upstream answers at once with id-dependent delays (out-of-order completion);
//        hold=3 wave=<k1>: the first segment carries k1 queries, held (surplus REFUSED), then all complete,
//                then one query per segment ping-pong: the in-flight counter must have returned to zero;
//        hold=2: ping-pong, the client reads each response before it sends the next query (segments do not
//                span frame boundaries): never more than one query in flight, so none may be REFUSED however many.
// out  : w=<id><a|r|x>|bad,... (sorted) up=<ids that reached the upstream> closed=<server closed first>

import (
	"crypto/tls"
	"encoding/binary"
	"fmt"
	"io"
	"math/rand"
	"net"
	"strconv"
	"strings"
	"sync"
	"time"

	"github.com/IrineSistiana/mosproxy/app/router"
)

var c13t struct {
	vr    *router.VerifRouter
	up    *c13Upstream
	ports map[string]int // "<proto><max>"
}

func c13FreePort() int {
	l, err := net.Listen("tcp", "127.0.0.1:0")
	if err != nil {
		panic(err)
	}
	p := l.Addr().(*net.TCPAddr).Port
	l.Close()
	return p
}

func c13TcpSetup() {
	// the ports are picked by binding :0 and releasing; another process may grab one before the router
	// binds it, so a failed start is retried with fresh ports
	var err error
	for try := 0; try < 8; try++ {
		c13t.ports = map[string]int{}
		var servers []router.ServerConfig
		for _, proto := range []string{"tcp", "tls", "gnet"} {
			for _, max := range []int{3, 100} {
				p := c13FreePort()
				c13t.ports[proto+strconv.Itoa(max)] = p
				sc := router.ServerConfig{
					Tag:      proto + strconv.Itoa(max),
					Protocol: proto,
					Listen:   "127.0.0.1:" + strconv.Itoa(p),
				}
				if max != 100 {
					sc.Tcp.MaxConcurrentQueries = int32(max) // 100 = the default, left unset on purpose
				}
				if proto == "tls" {
					sc.Tls.DebugUseTempCert = true
				}
				servers = append(servers, sc)
			}
			// fixture for the timed scripts: idle_timeout: 1 (second), default limit
			p := c13FreePort()
			c13t.ports[proto+"idle"] = p
			sc := router.ServerConfig{Tag: proto + "idle", Protocol: proto, Listen: "127.0.0.1:" + strconv.Itoa(p), IdleTimeout: c13IdleSec}
			if proto == "tls" {
				sc.Tls.DebugUseTempCert = true
			}
			servers = append(servers, sc)
		}
		c13t.vr, c13t.up, err = c13TryStartRouter(servers)
		if err == nil {
			return
		}
		time.Sleep(50 * time.Millisecond)
	}
	panic(err)
}

func c13TcpTeardown() {
	if c13t.vr != nil {
		c13t.vr.Close()
	}
}

type c13reader struct {
	mu   sync.Mutex
	buf  []byte
	eof  bool
	done chan struct{}
}

func (r *c13reader) loop(c net.Conn) {
	defer close(r.done)
	b := make([]byte, 65536)
	for {
		n, err := c.Read(b)
		r.mu.Lock()
		r.buf = append(r.buf, b[:n]...)
		if err == io.EOF {
			r.eof = true
		}
		r.mu.Unlock()
		if err != nil {
			return
		}
	}
}

// frames re-frames what was read so far: complete frames, and whether octets are left over.
func (r *c13reader) frames() (fs [][]byte, leftover int, eof bool) {
	r.mu.Lock()
	defer r.mu.Unlock()
	b := r.buf
	for len(b) >= 2 {
		l := int(binary.BigEndian.Uint16(b))
		if len(b) < 2+l {
			break
		}
		fs = append(fs, b[:2+l])
		b = b[2+l:]
	}
	return fs, len(b), r.eof
}

func c13WaitFor(d time.Duration, cond func() bool) bool {
	deadline := time.Now().Add(d)
	for !cond() {
		if time.Now().After(deadline) {
			return false
		}
		time.Sleep(100 * time.Microsecond)
	}
	return true
}

// c13TcpRun: real-time steps get a retry (a loaded machine may reorder a handler's bookkeeping and the
// client's next query in ping-pong mode, or make a wait expire); a genuinely wrong outcome repeats.
func c13TcpRun(cs string) string {
	if kv(cs)["hold"] == "4" {
		return c13TimedRun(cs)
	}
	res := c13TcpOnce(cs, 0)
	for try := 1; try <= 2 && (strings.Contains(res, "stall=1") || (kv(cs)["hold"] == "2" && strings.Contains(res, "r"))); try++ {
		time.Sleep(20 * time.Millisecond)
		res = c13TcpOnce(cs, try)
	}
	return res
}

func c13TcpOnce(cs string, try int) string {
	m := kv(cs)
	proto, max, hold := m["proto"], atoi(m["max"]), m["hold"] == "1"
	pingpong := m["hold"] == "2"
	wave := m["hold"] == "3" // first segment: a held burst of k1 queries; then one query per segment, ping-pong
	k1 := atoi(m["wave"])
	if wave {
		hold = true
	}
	fs := c13ParseFrames(m["fr"])
	stream := c13Stream(fs)
	var segs []int
	for _, t := range strings.Split(m["segs"], ",") {
		segs = append(segs, atoi(t))
	}
	port, ok := c13t.ports[proto+strconv.Itoa(max)]
	if !ok {
		return "bad-case"
	}
	up := c13t.up
	delay := time.Duration(0)
	if !hold && !pingpong {
		delay = 3 * time.Millisecond
	}
	up.reset(hold, delay)

	var conn net.Conn
	var err error
	for try := 0; try < 3; try++ {
		var tc net.Conn
		tc, err = net.DialTimeout("tcp", "127.0.0.1:"+strconv.Itoa(port), 2*time.Second)
		if err != nil {
			time.Sleep(20 * time.Millisecond)
			continue
		}
		tc.(*net.TCPConn).SetNoDelay(true)
		conn = tc
		if proto == "tls" {
			t := tls.Client(tc, &tls.Config{InsecureSkipVerify: true})
			tc.SetDeadline(time.Now().Add(3 * time.Second))
			if err = t.Handshake(); err != nil {
				tc.Close()
				conn = nil
				continue
			}
			tc.SetDeadline(time.Time{})
			conn = t
		}
		break
	}
	if conn == nil {
		return "dial-error"
	}
	rd := &c13reader{done: make(chan struct{})}
	go rd.loop(conn)

	// how many complete frames are sent
	sent := 0
	for _, s := range segs {
		sent += s
	}
	complete := 0
	off := 0
	for _, f := range fs {
		off += 2 + f.l
		if off <= sent {
			complete++
		}
	}
	pace := 300 * time.Microsecond
	if len(segs) > 400 {
		pace = 50 * time.Microsecond
	}
	pos := 0
	stall := false
	bounds := map[int]int{} // stream offset of a frame end -> number of frames complete there
	{
		o := 0
		for i, f := range fs {
			o += 2 + f.l
			bounds[o] = i + 1
		}
	}
	countKindNow := func(kind int) int {
		f, _, _ := rd.frames()
		n := 0
		for _, b := range f {
			if _, k := c13Kind(b); k == kind {
				n++
			}
		}
		return n
	}
	for i, s := range segs {
		if _, err := conn.Write(stream[pos : pos+s]); err != nil {
			break
		}
		pos += s
		if wave && i == 0 {
			// wave 1: the surplus is REFUSED, the rest is held; then everything completes
			surplus := k1 - max
			if surplus < 0 {
				surplus = 0
			}
			if !c13WaitFor(c13WaitD(), func() bool { return countKindNow(1) >= surplus }) {
				stall = true
			}
			if !up.waitHeld(k1-surplus, c13WaitD()) {
				stall = true
			}
			time.Sleep(2 * time.Millisecond)
			up.setHold(false)
			ids := up.heldIDs()
			for j := len(ids) - 1; j >= 0; j-- {
				up.release(ids[j])
			}
			if !c13WaitFor(c13WaitD(), func() bool { f, _, _ := rd.frames(); return len(f) >= k1 }) {
				stall = true
			}
			time.Sleep(time.Duration(500*(1+10*try)) * time.Microsecond)
			hold = false
		} else if nfr, ok := bounds[pos]; ok && (pingpong || wave) {
			// ping-pong: read the response before sending the next query
			if !c13WaitFor(c13WaitD(), func() bool { f, _, _ := rd.frames(); return len(f) >= nfr }) {
				stall = true
			}
			time.Sleep(time.Duration(200*(1+10*try)) * time.Microsecond)
		} else if i+1 < len(segs) {
			time.Sleep(pace)
		}
	}
	countKind := func(kind int) int {
		f, _, _ := rd.frames()
		n := 0
		for _, b := range f {
			if _, k := c13Kind(b); k == kind {
				n++
			}
		}
		return n
	}
	if hold {
		surplus := complete - max
		if surplus < 0 {
			surplus = 0
		}
		inflight := complete - surplus
		if !c13WaitFor(c13WaitD(), func() bool { return countKind(1) >= surplus }) {
			stall = true
		}
		if !up.waitHeld(inflight, c13WaitD()) {
			stall = true
		}
		// a little time for anything that should NOT happen (more queries reaching the upstream)
		time.Sleep(2 * time.Millisecond)
		ids := up.heldIDs()
		for i := len(ids) - 1; i >= 0; i-- { // newest first: out-of-order completion
			up.release(ids[i])
		}
	}
	if !c13WaitFor(c13WaitD(), func() bool { f, _, _ := rd.frames(); return len(f) >= complete }) {
		stall = true
	}
	time.Sleep(10 * time.Millisecond) // quiet period: surplus or duplicated responses would show up here
	frames, leftover, eof := rd.frames()
	conn.Close()
	<-rd.done

	ws := make([][2]int, 0, len(frames)+1)
	for _, b := range frames {
		id, k := c13Kind(b)
		ws = append(ws, [2]int{id, k})
	}
	if leftover > 0 {
		ws = append(ws, [2]int{0, 3})
	}
	res := fmt.Sprintf("w=%s up=%s closed=%s", c13FmtW(ws, true), c13FmtInts(c13OwnArrivals(up)), b2s(eof))
	if stall {
		c13Stalled()
		res += " stall=1"
	}
	return res
}

// c13OwnArrivals: ids >= 900 belong to the timed scripts (hold=4), whose abandoned attempts may reach the shared
// upstream late; they are not this case's business.
func c13OwnArrivals(up *c13Upstream) []int {
	var ids []int
	for _, id := range up.arrivedSorted() {
		if id < 900 {
			ids = append(ids, id)
		}
	}
	return ids
}

func c13TcpGen(r *rand.Rand, thorough bool, emit func(c, cat string)) {
	c13TimedGen(r, thorough, emit)
	n := 16
	if thorough {
		n = 300
	}
	mk2 := func(proto string, max int, hold int, fs []c13frame, segs []int) string {
		s := make([]string, len(segs))
		for i, x := range segs {
			s[i] = strconv.Itoa(x)
		}
		return fmt.Sprintf("proto=%s max=%d hold=%d fr=%s segs=%s", proto, max, hold, c13FrStr(fs), strings.Join(s, ","))
	}
	mk := func(proto string, max int, hold bool, fs []c13frame, segs []int) string {
		h := 0
		if hold {
			h = 1
		}
		return mk2(proto, max, h, fs, segs)
	}
	for _, proto := range []string{"gnet", "tcp", "tls"} {
		// fixed: byte-by-byte, cut inside the prefix, cut between prefix and body, two frames per segment
		fs := []c13frame{{17, true}, {30, true}, {19, true}, {45, true}}
		total := c13Total(fs)
		emit(mk(proto, 100, false, fs, c13SegsFromCuts(c13RandCuts(r, fs, 0), total)), proto+"-bytewise")
		emit(mk(proto, 100, false, fs, []int{1, 18 + 1, 1 + 30 + 2, total - 1 - 19 - 33}), proto+"-prefixcuts")
		emit(mk(proto, 100, false, fs, []int{2, 17, 2, 30, 2, 19, 2, 45}), proto+"-hdrbodycuts")
		emit(mk(proto, 100, false, fs, []int{19 + 32, 21 + 47}), proto+"-aligned")
		emit(mk(proto, 3, true, fs, []int{total}), proto+"-overlimit")
		// ping-pong: more queries than the limit, one at a time: none REFUSED
		pp := make([]c13frame, 9)
		for i := range pp {
			pp[i] = c13frame{17 + 2*(i%4) + 2, true}
		}
		ppSegs := func(fs []c13frame, split bool) []int {
			var segs []int
			for _, f := range fs {
				if split && f.l > 4 {
					c := 1 + r.Intn(3) // inside or right after the prefix
					segs = append(segs, c, 2+f.l-c)
				} else {
					segs = append(segs, 2+f.l)
				}
			}
			return segs
		}
		emit(mk2(proto, 3, 2, pp, ppSegs(pp, false)), proto+"-pingpong")
		{
			// two waves: 7 queries in a burst against a limit of 3 (3 held, 4 REFUSED), all complete, then 3 more
			// one at a time: the counter must be back to zero, none of them may be REFUSED
			w := make([]c13frame, 10)
			for i := range w {
				w[i] = c13frame{17 + 2*(i%3) + 2, true}
			}
			segs := []int{c13Total(w[:7])}
			for _, f := range w[7:] {
				segs = append(segs, 2+f.l)
			}
			emit(mk2(proto, 3, 3, w, segs)+" wave=7", proto+"-twowaves")
		}
		emit(mk2(proto, 3, 2, pp, ppSegs(pp, true)), proto+"-pingpong-split")
		if thorough {
			ppb := make([]c13frame, 130)
			for i := range ppb {
				ppb[i] = c13frame{17 + 2*(i%6) + 2, true}
			}
			emit(mk2(proto, 100, 2, ppb, ppSegs(ppb, true)), proto+"-pingpong-default")
		}
		// k > default limit, one burst: 100 in flight, the surplus REFUSED, none dropped
		big := make([]c13frame, 130)
		for i := range big {
			big[i] = c13frame{17 + 2*(i%5) + 2, true}
		}
		emit(mk(proto, 100, true, big, []int{c13Total(big)}), proto+"-overlimit-default")
		for i := 0; i < n; i++ {
			k := 1 + r.Intn(6)
			switch x := r.Intn(100); {
			case x >= 96:
				k = 101 + r.Intn(100)
			case x >= 85:
				k = 7 + r.Intn(40)
			}
			fs := make([]c13frame, k)
			for j := range fs {
				l := c13RandLen(r)
				if l > 5000 && (k > 10 || j > 0) {
					l = 17
				}
				fs[j] = c13frame{l, true}
			}
			total := c13Total(fs)
			upto := total
			cat := proto + "-rand"
			if r.Intn(6) == 0 {
				upto = total - 1 - r.Intn(min(total-1, 2+fs[k-1].l))
				if upto < 1 {
					upto = 1
				}
				cat += "-partial"
			}
			flavour := r.Intn(6)
			if total > 3000 && (flavour == 0 || flavour == 5) {
				flavour = 4
			}
			segs := c13SegsFromCuts(c13RandCuts(r, fs, flavour), upto)
			hold := r.Intn(2) == 0
			max := 100
			if hold && r.Intn(2) == 0 {
				max = 3
			}
			if !hold && k > 100 {
				hold = true // without holding, more than the limit in flight is nondeterministic
			}
			if hold {
				cat += "-hold"
				if k > max {
					cat += "-overlimit"
				}
			}
			emit(mk(proto, max, hold, fs, segs), fmt.Sprintf("%s-cuts%d", cat, flavour))
		}
	}
}

func init() {
	register("tcpframes", &component{gen: c13TcpGen, run: c13TcpRun, setup: c13TcpSetup, teardown: c13TcpTeardown})
}
