package main

// Component `handle` (C03, C10, C12): the real router.handleServerReq, reached through the verif hooks,
// with the real rule / domain-set / upstream-table initialisation (router.VerifRun) and recording fake
// upstream transports installed with SetUpstream.
//
// case : ecs=<0|1> addr=<none|4:hex|6:hex> rules=<rule>;… nups=<n> u<k>=<fail|reply> r<k>.<msg token>… <query msg tokens>
// out  : <response msg tokens> rule=<idx> fw=<k>:<hex of query bytes>…

import (
	"context"
	"errors"
	"fmt"
	"math/rand"
	"net/netip"
	"os"
	"path/filepath"
	"runtime"
	"strings"
	"sync"
	"time"

	"github.com/IrineSistiana/mosproxy/app/router"
	"github.com/IrineSistiana/mosproxy/internal/dnsmsg"
)

type fakeUp struct {
	mu    sync.Mutex
	k     int
	reply string // message tokens, "" = fail
	seen  [][]byte
	log   *[]string
}

func (f *fakeUp) ExchangeContext(ctx context.Context, q []byte) (*dnsmsg.Msg, error) {
	f.mu.Lock()
	defer f.mu.Unlock()
	*f.log = append(*f.log, fmt.Sprintf("fw=%d:%s", f.k, hexs(q)))
	if f.reply == "" {
		return nil, errors.New("scripted upstream failure")
	}
	return parseMsg(f.reply), nil
}
func (f *fakeUp) Close() error { return nil }

var handleTmp string

func handleSetup() {
	d, err := os.MkdirTemp("", "mvh-handle")
	if err != nil {
		panic(err)
	}
	handleTmp = d
}
func handleTeardown() { os.RemoveAll(handleTmp) }

// readable text of a wire name made of letters/digits/hyphen only
func dotted(n []byte) string {
	var ls []string
	for len(n) > 0 {
		l := int(n[0])
		ls = append(ls, string(n[1:1+l]))
		n = n[1+l:]
	}
	if len(ls) == 0 {
		return "."
	}
	return strings.Join(ls, ".")
}

func parseAddr(s string) netip.AddrPort {
	switch {
	case strings.HasPrefix(s, "4:"):
		b := unhex(s[2:])
		if len(b) == 4 {
			return netip.AddrPortFrom(netip.AddrFrom4([4]byte(b)), 5353)
		}
	case strings.HasPrefix(s, "6:"):
		b := unhex(s[2:])
		if len(b) == 16 {
			return netip.AddrPortFrom(netip.AddrFrom16([16]byte(b)), 5353)
		}
	}
	return netip.AddrPort{}
}

var handleCfgSeq int

func runHandle(cs string) string {
	m := kv(cs)
	nups := atoi(m["nups"])
	cfg := &router.Config{}
	cfg.ECS.Enabled = m["ecs"] == "1"
	for k := 0; k < nups; k++ {
		cfg.Upstreams = append(cfg.Upstreams, router.UpstreamConfig{Tag: fmt.Sprintf("u%d", k), Addr: "udp://127.0.0.1:9"})
	}
	// shared domain sets (several rules may refer to the same set)
	if sv, ok := m["sets"]; ok && sv != "-" {
		for i, set := range strings.Split(sv, ";") {
			handleCfgSeq++
			fp := filepath.Join(handleTmp, fmt.Sprintf("set%d_%d.txt", handleCfgSeq, i))
			var sb strings.Builder
			for _, nh := range strings.Split(set, ",") {
				sb.WriteString("domain:" + dotted(unhex(nh)) + "\n")
			}
			os.WriteFile(fp, []byte(sb.String()), 0o600)
			defer os.Remove(fp)
			cfg.DomainSets = append(cfg.DomainSets, router.DomainSetConfig{Tag: fmt.Sprintf("s%d", i), Files: []string{fp}})
		}
	}
	if m["rules"] != "-" {
		for i, rs := range strings.Split(m["rules"], ";") {
			f := strings.Split(rs, "/")
			if len(f) != 4 {
				return "bad-case"
			}
			rc := router.RuleConfig{Reverse: f[1] == "1"}
			setReject(&rc, atoi(f[2]))
			if f[0] != "*" && f[0][0] == 's' {
				rc.Domain = f[0]
			} else if f[0] != "*" {
				handleCfgSeq++
				fp := filepath.Join(handleTmp, fmt.Sprintf("ds%d_%d.txt", handleCfgSeq, i))
				var sb strings.Builder
				for _, nh := range strings.Split(f[0], ",") {
					sb.WriteString("domain:" + dotted(unhex(nh)) + "\n")
				}
				os.WriteFile(fp, []byte(sb.String()), 0o600)
				defer os.Remove(fp)
				tag := fmt.Sprintf("ds%d", i)
				cfg.DomainSets = append(cfg.DomainSets, router.DomainSetConfig{Tag: tag, Files: []string{fp}})
				rc.Domain = tag
			}
			if f[3] != "-" {
				rc.Forward = "u" + f[3]
			}
			cfg.Rules = append(cfg.Rules, rc)
		}
	}
	v, err := router.VerifRun(cfg)
	if err != nil {
		return "run-error"
	}
	defer v.Close()
	var log []string
	toks := strings.Fields(cs)
	for k := 0; k < nups; k++ {
		f := &fakeUp{k: k, log: &log}
		if m[fmt.Sprintf("u%d", k)] == "reply" {
			pre := fmt.Sprintf("r%d.", k)
			var rt []string
			for _, t := range toks {
				if strings.HasPrefix(t, pre) {
					rt = append(rt, t[len(pre):])
				}
			}
			f.reply = strings.Join(rt, " ")
			if f.reply == "" {
				f.reply = "h=0,1,0,0,0,0,0,0,0,0"
			}
		}
		v.SetUpstream(fmt.Sprintf("u%d", k), f)
	}
	var qt []string
	for _, t := range toks {
		if len(t) > 2 && t[0] == 'r' && t[1] >= '0' && t[1] <= '9' && strings.Contains(t[:4], ".") {
			continue
		}
		qt = append(qt, t)
	}
	q := parseMsg(strings.Join(qt, " "))
	defer dnsmsg.ReleaseMsg(q)
	resp, idx, _, _ := v.Handle(q, parseAddr(m["addr"]), netip.AddrPort{})
	if resp == nil {
		return "nil-response"
	}
	out := msgText(resp) + fmt.Sprintf(" rule=%d", idx)
	dnsmsg.ReleaseMsg(resp)
	if len(log) > 0 {
		out += " " + strings.Join(log, " ")
	}
	return out
}

var handleNames = [][]byte{
	wireLabels([]byte("com")), wireLabels([]byte("example"), []byte("com")), wireLabels([]byte("www"), []byte("example"), []byte("com")),
	wireLabels([]byte("org")), wireLabels([]byte("a"), []byte("org")), wireLabels([]byte("xample"), []byte("com")), wireLabels([]byte("net")),
	wireLabels([]byte("a-1"), []byte("x_y"), []byte("com")), wireLabels([]byte("n0"), []byte("t-t9"), []byte("org")),
	// octets above 0x7f: a UTF-8 letter with an upper-case form (é / É differ in bit 5 of the second octet) and
	// octets that are not UTF-8 at all — names are octet strings, only ASCII letters fold
	wireLabels([]byte("z")),
	wireLabels([]byte("caf\xc3\xa9"), []byte("com")), wireLabels([]byte("\xff\xfe"), []byte("x\x80y"), []byte("org")),
}

// flipBit5 toggles bit 5 of one octet of a label that is not an ASCII letter (so the names differ, but not
// by ASCII case): '1' <-> 0x11, '-' <-> 0x0d, '_' <-> 0x7f … Returns nil if the name has no such octet.
func flipBit5(r *rand.Rand, n []byte) []byte {
	var cand []int
	for i := 0; i < len(n); {
		l := int(n[i])
		for j := i + 1; j <= i+l; j++ {
			c := n[j] | 0x20
			if !(c >= 'a' && c <= 'z') {
				cand = append(cand, j)
			}
		}
		i += 1 + l
	}
	if len(cand) == 0 {
		return nil
	}
	o := append([]byte(nil), n...)
	o[cand[r.Intn(len(cand))]] ^= 0x20
	return o
}

// labelsOf: the labels of a wire name (without the terminating zero octet)
func labelsOf(n []byte) [][]byte {
	var out [][]byte
	for i := 0; i < len(n); {
		l := int(n[i])
		out = append(out, n[i+1:i+1+l])
		i += 1 + l
	}
	return out
}

// asciiLower: the DNS notion of lower case — octets 'A'..'Z' only (strings.ToLower would fold UTF-8 letters and
// replace invalid UTF-8 octets).
func asciiLower(n []byte) []byte {
	o := append([]byte(nil), n...)
	for i, c := range o {
		if c >= 'A' && c <= 'Z' {
			o[i] = c + 32
		}
	}
	return o
}

func mixCase(r *rand.Rand, n []byte) []byte {
	o := append([]byte(nil), n...)
	for i := 0; i < len(o); {
		l := int(o[i])
		for j := i + 1; j <= i+l; j++ {
			if o[j] >= 'a' && o[j] <= 'z' && r.Intn(2) == 0 {
				o[j] -= 32
			}
		}
		i += 1 + l
	}
	return o
}

func genHandle(r *rand.Rand, thorough bool, emit func(c, cat string)) {
	n := 1500
	if thorough {
		n = 30000
	}
	for i := 0; i < n; i++ {
		var toks []string
		toks = append(toks, fmt.Sprintf("ecs=%d", r.Intn(2)))
		switch r.Intn(6) {
		case 0:
			toks = append(toks, "addr=none")
		case 1, 2:
			b := make([]byte, 4)
			r.Read(b)
			if r.Intn(4) == 0 {
				b = []byte{255, 255, 255, 255}
			}
			toks = append(toks, "addr=4:"+hexs(b))
		case 3:
			b := make([]byte, 16)
			r.Read(b[12:])
			b[10], b[11] = 255, 255 // v4-mapped
			toks = append(toks, "addr=6:"+hexs(b))
		default:
			b := make([]byte, 16)
			r.Read(b)
			if r.Intn(4) == 0 {
				for j := range b {
					b[j] = 255
				}
			}
			toks = append(toks, "addr=6:"+hexs(b))
		}
		nups := 1 + r.Intn(3)
		// shared domain sets
		nsets := r.Intn(3)
		var sets []string
		for j := 0; j < nsets; j++ {
			var ds []string
			for k := 1 + r.Intn(2); k > 0; k-- {
				ds = append(ds, hexs(handleNames[r.Intn(len(handleNames))]))
			}
			sets = append(sets, strings.Join(ds, ","))
		}
		if nsets == 0 {
			toks = append(toks, "sets=-")
		} else {
			toks = append(toks, "sets="+strings.Join(sets, ";"))
		}
		// rules
		nr := r.Intn(5)
		var rules []string
		for j := 0; j < nr; j++ {
			d := "*"
			if nsets > 0 && r.Intn(2) == 0 {
				d = fmt.Sprintf("s%d", r.Intn(nsets)) // consecutive rules often share a set, with and without reverse
			} else if r.Intn(4) > 0 {
				var ds []string
				for k := 1 + r.Intn(2); k > 0; k-- {
					ds = append(ds, hexs(handleNames[r.Intn(len(handleNames))]))
				}
				d = strings.Join(ds, ",")
			}
			rej := 0
			if r.Intn(4) == 0 {
				rej = 1 + r.Intn(15)
			}
			fw := "-"
			if r.Intn(5) > 0 {
				fw = fmt.Sprint(r.Intn(nups))
			}
			rules = append(rules, fmt.Sprintf("%s/%d/%d/%s", d, r.Intn(3)/2, rej, fw))
		}
		if len(rules) == 0 {
			toks = append(toks, "rules=-")
		} else {
			toks = append(toks, "rules="+strings.Join(rules, ";"))
		}
		toks = append(toks, fmt.Sprintf("nups=%d", nups))
		// query
		qname := mixCase(r, handleNames[r.Intn(len(handleNames))])
		if r.Intn(10) == 0 {
			qname = wireLabels([]byte("nomatch"), []byte("test"))
		}
		if r.Intn(6) == 0 { // a deep name under one of the entries (ip6.arpa-like: up to 40 short labels in front)
			var deep []byte
			depth := []int{1, 2, 5, 14, 15, 16, 17, 30, 40, 124, 125, 126, 127}[r.Intn(13)]
			maxl := 2
			if depth > 100 { // the deepest names there are: one-octet labels up to the 254-octet limit (127 labels in all)
				maxl = 1
				qname = wireLabels([]byte("z")) // under the one-octet entry: 126 more labels fit
				depth -= len(labelsOf(qname))
				for depth*2+len(qname) > 254 {
					depth--
				}
			}
			for k := depth; k > 0; k-- {
				l := 1 + r.Intn(maxl)
				deep = append(deep, byte(l))
				for j := 0; j < l; j++ {
					deep = append(deep, "0123456789abcdefXY"[r.Intn(18)])
				}
			}
			qname = append(deep, qname...)
		}
		qtype := []int{1, 28, 15, 16, 255}[r.Intn(5)]
		qclass := 1
		if r.Intn(10) == 0 {
			qclass = 3
		}
		rd, qr, op := 1, 0, 0
		cat := "supported"
		switch r.Intn(30) {
		case 0:
			rd, cat = 0, "notimp"
		case 1:
			qr, cat = 1, "notimp"
		case 2:
			op, cat = 1+r.Intn(15), "notimp"
		}
		id := r.Intn(65536)
		toks = append(toks, fmt.Sprintf("h=%d,%d,%d,0,%d,%d,%d,%d,%d,0", id, qr, op, r.Intn(2), rd, r.Intn(2), r.Intn(2), r.Intn(2)))
		nq := 1
		switch r.Intn(30) {
		case 0:
			nq, cat = 0, "notimp"
		case 1:
			nq, cat = 2+r.Intn(2), "notimp"
		}
		for j := 0; j < nq; j++ {
			if j == 0 {
				toks = append(toks, fmt.Sprintf("q=%s,%d,%d", hexs(qname), qtype, qclass))
			} else {
				toks = append(toks, fmt.Sprintf("q=%s,%d,%d", hexs(handleNames[r.Intn(len(handleNames))]), 1, 1))
			}
		}
		hasOpt := r.Intn(2) == 0
		if r.Intn(5) == 0 { // some other additional record in the query
			toks = append(toks, fmt.Sprintf("ar=%s,1,1,5,a,01020304", hexs(handleNames[0])))
		}
		if hasOpt {
			g := &msgGen{r: r}
			sec := "ar"
			if r.Intn(12) == 0 { // an OPT record that is not where it belongs
				sec = []string{"ns", "an"}[r.Intn(2)]
				cat += "-misplaced"
			}
			toks = append(toks, fmt.Sprintf("%s=-,41,%d,%d,raw,%s", sec, []int{512, 1232, 4096, 100}[r.Intn(4)], []uint32{0, 0x8000, 0x01008000}[r.Intn(3)], hexs(g.optData())))
			cat += "-opt"
		}
		// upstream outcomes
		lq := string(asciiLower(qname)) // ASCII letters only (names are octet strings); length octets < 64 are unaffected
		for k := 0; k < nups; k++ {
			switch r.Intn(8) {
			case 0:
				toks = append(toks, fmt.Sprintf("u%d=fail", k))
			default:
				toks = append(toks, fmt.Sprintf("u%d=reply", k))
				p := fmt.Sprintf("r%d.", k)
				rcode := []int{0, 0, 0, 3, 2, 5}[r.Intn(6)]
				toks = append(toks, fmt.Sprintf("%sh=%d,1,0,%d,0,1,1,%d,0,%d", p, r.Intn(65536), r.Intn(2), r.Intn(2), rcode))
				switch r.Intn(12) {
				case 10: // the query's name with one more label at the end (the query name is a proper prefix of it)
					toks = append(toks, fmt.Sprintf("%sq=%s,%d,%d", p, hexs(append([]byte(lq), 3, 'l', 'a', 'n')), qtype, qclass))
				case 11: // the query's name without its first label (a proper suffix), or the root
					rest := []byte(lq)
					if len(rest) > 0 {
						rest = rest[1+int(rest[0]):]
					}
					toks = append(toks, fmt.Sprintf("%sq=%s,%d,%d", p, hexs(rest), qtype, qclass))
				case 0: // no question
				case 1: // different question
					toks = append(toks, fmt.Sprintf("%sq=%s,%d,%d", p, hexs(wireLabels([]byte("evil"), []byte("example"))), qtype, qclass))
				case 2: // two questions
					toks = append(toks, fmt.Sprintf("%sq=%s,%d,%d", p, hexs([]byte(lq)), qtype, qclass), fmt.Sprintf("%sq=%s,%d,%d", p, hexs([]byte(lq)), qtype, qclass))
				case 3: // other type
					toks = append(toks, fmt.Sprintf("%sq=%s,%d,%d", p, hexs([]byte(lq)), qtype+1, qclass))
				case 4: // echoes the original case
					toks = append(toks, fmt.Sprintf("%sq=%s,%d,%d", p, hexs(qname), qtype, qclass))
				case 5: // a different name that differs from the query's in bit 5 of a non-letter octet only
					if fn := flipBit5(r, []byte(lq)); fn != nil {
						toks = append(toks, fmt.Sprintf("%sq=%s,%d,%d", p, hexs(fn), qtype, qclass))
					} else {
						toks = append(toks, fmt.Sprintf("%sq=%s,%d,%d", p, hexs([]byte(lq)), qtype, qclass))
					}
				default:
					toks = append(toks, fmt.Sprintf("%sq=%s,%d,%d", p, hexs([]byte(lq)), qtype, qclass))
				}
				for j := r.Intn(3); j > 0; j-- {
					toks = append(toks, fmt.Sprintf("%san=%s,1,1,%d,a,%s", p, hexs([]byte(lq)), r.Intn(600), hexs([]byte{10, byte(k), byte(j), byte(r.Intn(256))})))
				}
				if r.Intn(4) == 0 {
					toks = append(toks, fmt.Sprintf("%sns=%s,2,1,300,name,%s", p, hexs(handleNames[0]), hexs(handleNames[4])))
				}
				if r.Intn(10) == 0 { // an upstream OPT outside the additional section: must not be relayed either
					g := &msgGen{r: r}
					toks = append(toks, fmt.Sprintf("%s%s=-,41,4096,%d,raw,%s", p, []string{"ns", "an"}[r.Intn(2)], []uint32{0, 0x8000, 0x2a000000}[r.Intn(3)], hexs(g.optData())))
				}
				if r.Intn(2) == 0 { // upstream OPT with options: must not be relayed
					g := &msgGen{r: r}
					// … nor its flags (DO, version, extended rcode in the TTL field)
					toks = append(toks, fmt.Sprintf("%sar=-,41,4096,%d,raw,%s", p, []uint32{0, 0x8000, 0x01008000, 0xff010000}[r.Intn(4)], hexs(g.optData())))
				}
				if r.Intn(6) == 0 {
					toks = append(toks, fmt.Sprintf("%sar=%s,1,1,60,a,7f000001", p, hexs(handleNames[4])))
				}
			}
		}
		emit(strings.Join(toks, " "), cat)
	}
}

// prefetchfw: a cache hit in the last quarter of the entry's lifetime; what does the background refresh send upstream?
// case : ecs=<0|1> addr=<…> q=<name>,<type>,<class>        out : cached=<0|1> rcode=<n> fw=<k>:<hex>…
//
//	procs=1 runs the case on one P: the goroutine that performs the refresh then starts only after the handler
//	has returned and the caller has released the request (the schedule a busy server produces).
func runPrefetchFw(cs string) string {
	m := kv(cs)
	if m["procs"] == "1" {
		old := runtime.GOMAXPROCS(1)
		defer runtime.GOMAXPROCS(old)
	}
	cfg := &router.Config{}
	cfg.ECS.Enabled = m["ecs"] == "1"
	cfg.Upstreams = []router.UpstreamConfig{{Tag: "u0", Addr: "udp://127.0.0.1:9"}}
	cfg.Rules = []router.RuleConfig{{Forward: "u0"}}
	cfg.Cache.MemSize = 1 << 20
	v, err := router.VerifRun(cfg)
	if err != nil {
		return "run-error"
	}
	defer v.Close()
	qf := strings.Split(m["q"], ",")
	name := unhex(qf[0])
	lname := asciiLower(name)
	typ, class := uint16(atoi(qf[1])), uint16(atoi(qf[2]))
	var log []string
	reply := fmt.Sprintf("h=1,1,0,0,0,1,1,0,0,0 q=%s,%d,%d an=%s,1,%d,300,a,0a000001", hexs(lname), typ, class, hexs(lname), class)
	// what the upstream returns for the refresh carries an OPT with a COOKIE and an ECS option
	refreshed := reply + " ar=-,41,4096,0,raw,000a00100102030405060708a1a2a3a4a5a6a7a80008000700011818c63364"
	v.SetUpstream("u0", &fakeUp{k: 0, reply: refreshed, log: &log})
	remote := parseAddr(m["addr"])
	// an entry with 2 s of its 12 s left
	lq := dnsmsg.NewQuestion()
	lq.Name, lq.Type, lq.Class = nameBuf(lname), dnsmsg.Type(typ), dnsmsg.Class(class)
	stored := parseMsg(reply)
	now := time.Now()
	ok := v.CacheStoreAt(lq, remote.Addr(), stored, now.Add(-10*time.Second), now.Add(2*time.Second))
	dnsmsg.ReleaseMsg(stored)
	dnsmsg.ReleaseQuestion(lq)
	if !ok {
		return "store-error"
	}
	time.Sleep(30 * time.Millisecond) // the cache applies writes asynchronously
	q := dnsmsg.NewMsg()
	q.Header.ID, q.Header.RecursionDesired = 77, true
	qq := dnsmsg.NewQuestion()
	qq.Name, qq.Type, qq.Class = nameBuf(name), dnsmsg.Type(typ), dnsmsg.Class(class)
	q.Questions = append(q.Questions, qq)
	var resp *dnsmsg.Msg
	cached := false
	for attempt := 0; attempt < 20 && !cached; attempt++ {
		if resp != nil {
			dnsmsg.ReleaseMsg(resp)
		}
		resp, _, cached, _ = v.Handle(q, remote, netip.AddrPort{})
		if !cached {
			time.Sleep(10 * time.Millisecond)
		}
	}
	dnsmsg.ReleaseMsg(q)
	// the request is released (as a listener does when the handler returns): the next requests take its buffers.
	// Names of the same length, other content: a refresh that still looks at the released question sees these.
	var scribble []dnsmsg.Name
	for i := 0; i < 8 && len(name) >= 2; i++ {
		other := make([]byte, 0, len(name))
		if len(name)%2 == 1 {
			other = append(other, 2, 'z', 'z')
		}
		for len(other) < len(name) {
			other = append(other, 1, byte('p'+i))
		}
		scribble = append(scribble, nameBuf(other))
	}
	defer func() {
		for _, b := range scribble {
			dnsmsg.ReleaseName(b)
		}
	}()
	if resp == nil {
		return "nil-response"
	}
	rcode := resp.Header.RCode
	dnsmsg.ReleaseMsg(resp)
	// wait for the background refresh to reach the upstream
	var fws []string
	for i := 0; i < 50; i++ {
		time.Sleep(10 * time.Millisecond)
	}
	fws = append(fws, log...)
	// after the refresh: a client without EDNS0 and one with it ask again (served from the refreshed entry)
	after := ""
	for _, withOpt := range []bool{false, true} {
		q2 := parseMsg(fmt.Sprintf("h=78,0,0,0,0,1,0,0,0,0 q=%s,%d,%d", hexs(name), typ, class))
		if withOpt {
			o := dnsmsg.NewRaw()
			o.Name = nameBuf([]byte{0})
			o.Type, o.Class = dnsmsg.TypeOPT, 1232
			q2.Additionals = append(q2.Additionals, o)
		}
		r2, _, _, _ := v.Handle(q2, remote, netip.AddrPort{})
		dnsmsg.ReleaseMsg(q2)
		nopt, dlen := 0, 0
		if r2 != nil {
			for _, rr := range r2.Additionals {
				if rr.Hdr().Type == dnsmsg.TypeOPT {
					nopt++
					if raw, ok := rr.(*dnsmsg.RawResource); ok {
						dlen += len(raw.Data)
					}
				}
			}
			dnsmsg.ReleaseMsg(r2)
		}
		if withOpt {
			after += fmt.Sprintf(",%d,%d", nopt, dlen)
		} else {
			after += fmt.Sprint(nopt)
		}
	}
	out := fmt.Sprintf("cached=%s rcode=%d after=%s", b2s(cached), rcode, after)
	if !cached {
		// the misses before the entry became visible were forwarded too; they are not refreshes
		return out
	}
	if len(fws) > 0 {
		out += " " + strings.Join(fws, " ")
	}
	return out
}

func genPrefetchFw(r *rand.Rand, thorough bool, emit func(c, cat string)) {
	n := 6
	if thorough {
		n = 60
	}
	for i := 0; i < n; i++ {
		var addr string
		switch i % 4 {
		case 0:
			b := make([]byte, 4)
			r.Read(b)
			addr = "4:" + hexs(b)
		case 1:
			b := make([]byte, 16)
			r.Read(b[12:])
			b[10], b[11] = 255, 255
			addr = "6:" + hexs(b)
		case 2:
			b := make([]byte, 16)
			r.Read(b)
			addr = "6:" + hexs(b)
		default:
			addr = "none"
		}
		name := mixCase(r, handleNames[r.Intn(len(handleNames))])
		emit(fmt.Sprintf("ecs=%d addr=%s q=%s,%d,1 procs=%d", (i/4+1)%2, addr, hexs(name), []int{1, 28}[r.Intn(2)], (i/2)%2), "addr"+addr[:1])
	}
}

func init() {
	register("handle", &component{gen: genHandle, run: runHandle, setup: handleSetup, teardown: handleTeardown})
	register("prefetchfw", &component{gen: genPrefetchFw, run: runPrefetchFw})
}
